(* heapq.merge: the model performs the stable merge (ties to the lowest source index). *)
From Coq Require Import List ZArith NArith Bool Arith Lia.
Import ListNotations.
Require Import V.Kernel.Values V.Kernel.Monad V.Model.Builtins V.Model.Heapq V.Proofs.Steps
  V.Std.Heapq V.Proofs.HeapqBase.

(* ---------- how the logical state (the not yet yielded items of every source, heads included)
   is represented: the heads are in the heap, the tails in the sources ---------- *)
Definition end_src : src := mkSrc [] true 0 0 true.
Definition src_of (l : list val) : src := match l with [] => end_src | _ :: t => mkSrc t false 0 0 true end.
Definition srcs_of (ls : list (list val)) : list src := map src_of ls.
Fixpoint heap_of (key : option (list val -> val)) (j : nat) (ls : list (list val)) : list ment :=
  match ls with
  | [] => []
  | [] :: r => heap_of key (S j) r
  | (x :: _) :: r => mkMent x (kv key x) j :: heap_of key (S j) r
  end.

Lemma nth_middle_src {A} (d0 : list A) s r d : nth (length d0) (d0 ++ s :: r) d = s.
Proof. induction d0; cbn; auto. Qed.
Lemma upd_middle {A} (d0 : list A) s s' r : upd (length d0) s' (d0 ++ s :: r) = d0 ++ s' :: r.
Proof. induction d0; cbn; [reflexivity|]. f_equal; assumption. Qed.

Lemma nth_srcs_of : forall ls i x t, nth i ls [] = x :: t ->
  nth i (srcs_of ls) dead_src = mkSrc t false 0 0 true /\ (i < length (srcs_of ls))%nat.
Proof.
  induction ls as [|l r IH]; intros [|i] x t H; cbn in H; try discriminate.
  - subst l. unfold srcs_of. cbn [map length nth src_of]. split; [reflexivity | lia].
  - destruct (IH i x t H) as [H1 H2]. unfold srcs_of in *. cbn [map length nth]. split; [exact H1 | lia].
Qed.
Lemma upd_srcs_pop : forall ls i x t, nth i ls [] = x :: t ->
  upd i (src_of t) (srcs_of ls) = srcs_of (pop i ls).
Proof.
  induction ls as [|l r IH]; intros [|i] x t H; cbn in H; try discriminate.
  - subst l. reflexivity.
  - cbn. f_equal. eapply IH; exact H.
Qed.
Lemma pop_length : forall ls i, length (pop i ls) = length ls.
Proof. induction ls as [|l r IH]; intros [|i]; cbn; auto. Qed.
Lemma concat_pop_length : forall ls i x t, nth i ls [] = x :: t ->
  length (concat ls) = S (length (concat (pop i ls))).
Proof.
  induction ls as [|l r IH]; intros [|i] x t H; cbn in H; try discriminate.
  - subst l. reflexivity.
  - cbn. rewrite !app_length. rewrite (IH i x t H). lia.
Qed.
Lemma forallb_concat_pop (p : val -> bool) : forall ls i,
  forallb p (concat ls) = true -> forallb p (concat (pop i ls)) = true.
Proof.
  induction ls as [|l r IH]; intros [|i] H; cbn in *; try assumption.
  - rewrite forallb_app in *. apply andb_prop in H. destruct H as [H1 H2]. rewrite H2, andb_true_r.
    destruct l; [reflexivity|]. cbn in H1. apply andb_prop in H1. apply H1.
  - rewrite forallb_app in *. apply andb_prop in H. destruct H as [H1 H2]. rewrite H1, (IH i H2). reflexivity.
Qed.
Lemma forallb_map_comp {A B} (p : B -> bool) (g : A -> B) : forall l, forallb p (map g l) = forallb (fun x => p (g x)) l.
Proof. induction l as [|x l IH]; cbn; [reflexivity|]. rewrite IH. reflexivity. Qed.
Lemma forallb_nth (p : val -> bool) : forall ls i x t,
  forallb p (concat ls) = true -> nth i ls [] = x :: t -> forallb p (x :: t) = true.
Proof.
  induction ls as [|l r IH]; intros [|i] x t H Hn; cbn in Hn; try discriminate;
    cbn [concat] in H; rewrite forallb_app in H; apply andb_prop in H; destruct H as [H1 H2].
  - subst l. exact H1.
  - eapply IH; eassumption.
Qed.

(* entries of the heap and removal / replacement of one of them *)
Lemma drop_src_none key : forall r j j', (j < j')%nat -> drop_src j (heap_of key j' r) = heap_of key j' r.
Proof.
  induction r as [|l r IH]; intros j j' H; [reflexivity|]. destruct l as [|x t]; cbn [heap_of].
  - apply IH. lia.
  - unfold drop_src in *. cbn [filter m_src]. destruct (Nat.eqb_spec j' j); [lia|]. cbn [negb]. f_equal. apply IH. lia.
Qed.
Lemma put_src_none key h k : forall r j j', (j < j')%nat -> put_src (mkMent h k j) (heap_of key j' r) = heap_of key j' r.
Proof.
  induction r as [|l r IH]; intros j j' H; [reflexivity|]. destruct l as [|x t]; cbn [heap_of].
  - apply IH. lia.
  - unfold put_src in *. cbn [map m_src]. destruct (Nat.eqb_spec j' j); [lia|]. f_equal. apply IH. lia.
Qed.
Lemma drop_src_pop key : forall ls j p x, nth p ls [] = [x] ->
  drop_src (j + p) (heap_of key j ls) = heap_of key j (pop p ls).
Proof.
  induction ls as [|l r IH]; intros j [|p] x H; cbn in H; try discriminate.
  - subst l. cbn [heap_of pop tl]. rewrite Nat.add_0_r. unfold drop_src. cbn [filter m_src]. rewrite Nat.eqb_refl. cbn [negb].
    apply drop_src_none. lia.
  - replace (j + S p)%nat with (S j + p)%nat by lia. destruct l as [|y t]; cbn [heap_of pop].
    + eapply IH; exact H.
    + unfold drop_src. cbn [filter m_src]. destruct (Nat.eqb_spec j (S j + p)); [lia|]. cbn [negb]. f_equal.
      eapply (IH (S j) p x); exact H.
Qed.
Lemma put_src_pop key : forall ls j p x h t, nth p ls [] = x :: h :: t ->
  put_src (mkMent h (kv key h) (j + p)) (heap_of key j ls) = heap_of key j (pop p ls).
Proof.
  induction ls as [|l r IH]; intros j [|p] x h t H; cbn in H; try discriminate.
  - subst l. cbn [heap_of pop tl]. rewrite Nat.add_0_r. unfold put_src. cbn [map m_src]. rewrite Nat.eqb_refl.
    f_equal. apply put_src_none. lia.
  - replace (j + S p)%nat with (S j + p)%nat by lia. destruct l as [|y t']; cbn [heap_of pop].
    + eapply IH; exact H.
    + unfold put_src. cbn [map m_src]. destruct (Nat.eqb_spec j (S j + p)); [lia|]. f_equal.
      eapply (IH (S j) p x h t); exact H.
Qed.
Lemma heap_of_length key : forall ls j, length (heap_of key j ls) = live ls.
Proof.
  unfold live. induction ls as [|l r IH]; intros j; [reflexivity|]. destruct l; cbn [heap_of filter length]; rewrite IH; reflexivity.
Qed.
Lemma heap_nil key : forall ls j, heap_of key j ls = [] ->
  srcs_of ls = repeat end_src (length ls) /\ concat ls = [] /\ forall first, best_src first j ls = None.
Proof.
  induction ls as [|l r IH]; intros j H; [repeat split|]. destruct l; [|discriminate]. cbn [heap_of] in H.
  destruct (IH (S j) H) as (H1 & H2 & H3). unfold srcs_of in *. cbn [map length repeat concat app src_of best_src]. rewrite H1. repeat split; assumption.
Qed.
(* exactly one source left *)
Lemma heap_single key : forall ls j e, heap_of key j ls = [e] ->
  exists a t b, ls = repeat [] a ++ (m_head e :: t) :: repeat [] b /\ m_src e = (j + a)%nat.
Proof.
  induction ls as [|l r IH]; intros j e H; [discriminate|]. destruct l as [|x t]; cbn [heap_of] in H.
  - destruct (IH (S j) e H) as (a & t & b & -> & Hs). exists (S a), t, b. split; [reflexivity | lia].
  - injection H as He Hr. subst e. exists 0%nat, t, (length r). cbn. split; [|lia].
    f_equal. clear -Hr. revert Hr. generalize (S j). induction r as [|l r IH]; intros j' H; [reflexivity|].
    destruct l; [|discriminate]. cbn. f_equal. eapply IH; exact H.
Qed.
Lemma best_src_single first x t b : forall a j,
  best_src first j (repeat [] a ++ (x :: t) :: repeat [] b) = Some ((j + a)%nat, x).
Proof.
  induction a as [|a IH]; intros j; cbn.
  - rewrite Nat.add_0_r. f_equal. generalize (S j). induction b as [|b IHb]; intros j'; cbn; [reflexivity | apply IHb].
  - rewrite IH. f_equal. f_equal. lia.
Qed.
Lemma nth_single {A} (l : list A) b : forall a, nth a (repeat [] a ++ l :: repeat [] b) [] = l.
Proof. induction a; cbn; auto. Qed.
Lemma live_single (x : val) t b : forall a, live (repeat [] a ++ (x :: t) :: repeat [] b) = 1%nat.
Proof.
  unfold live. induction a as [|a IH]; cbn; [|exact IH]. f_equal. induction b; cbn; auto.
Qed.

(* ---------- the entry taken from the heap is the one the specification picks ---------- *)
Lemma ment_lt_ok c rv key y x j i :
  in_class c (kv key y) = true -> in_class c (kv key x) = true -> (i < j)%nat ->
  ment_lt rv (mkMent y (kv key y) j) (mkMent x (kv key x) i) = Some (merge_first rv key y x).
Proof.
  intros Hy Hx Hij. unfold ment_lt, keyiter_eq, keyiter_lt, merge_first, zkey. cbn [m_key m_src].
  rewrite (py_lt_class c (kv key y) (kv key x)), (py_lt_class c (kv key x) (kv key y)) by assumption.
  cbn [option_map].
  destruct (Z.ltb_spec (key_of (kv key y)) (key_of (kv key x))) as [H1|H1],
           (Z.ltb_spec (key_of (kv key x)) (key_of (kv key y))) as [H2|H2]; cbn [orb negb xorb]; try lia.
  - destruct rv; reflexivity.
  - destruct rv; reflexivity.
  - destruct (Nat.ltb_spec j i); [lia|]. destruct rv; reflexivity.
Qed.

Definition ment_of (key : option (list val -> val)) (p : nat * val) : ment := mkMent (snd p) (kv key (snd p)) (fst p).

Lemma min_ment_best c rv key : forall ls j i x,
  forallb (in_class c) (map (kv key) (concat ls)) = true -> in_class c (kv key x) = true -> (i < j)%nat ->
  min_ment rv (mkMent x (kv key x) i) (heap_of key j ls)
  = Some (ment_of key (best_from (merge_first rv key) (i, x) j ls)).
Proof.
  induction ls as [|l r IH]; intros j i x Hls Hx Hij; [reflexivity|].
  cbn [concat] in Hls. rewrite map_app in Hls. apply forallb_app_inv in Hls. destruct Hls as [Hl Hr].
  destruct l as [|y t]; cbn [heap_of best_from min_ment].
  - apply IH; [exact Hr | exact Hx | lia].
  - cbn in Hl. apply andb_prop in Hl. destruct Hl as [Hy _].
    rewrite (ment_lt_ok c) by assumption. cbn [snd].
    destruct (merge_first rv key y x); apply IH; try assumption; lia.
Qed.
Lemma min_best c rv key : forall ls j e0 rest,
  forallb (in_class c) (map (kv key) (concat ls)) = true -> heap_of key j ls = e0 :: rest ->
  exists i x, best_src (merge_first rv key) j ls = Some (i, x) /\ min_ment rv e0 rest = Some (mkMent x (kv key x) i).
Proof.
  induction ls as [|l r IH]; intros j e0 rest Hls H; [discriminate|].
  cbn [concat] in Hls. rewrite map_app in Hls. apply forallb_app_inv in Hls. destruct Hls as [Hl Hr].
  destruct l as [|y t]; cbn [heap_of best_src] in *.
  - eapply IH; eassumption.
  - injection H as <- <-. cbn in Hl. apply andb_prop in Hl. destruct Hl as [Hy _].
    rewrite (min_ment_best c) by (try assumption; lia).
    destruct (best_from (merge_first rv key) (j, y) (S j) r) as [i x]. exists i, x. split; reflexivity.
Qed.

Lemma best_from_nth first : forall ls j best,
  best_from first best j ls = best \/
  exists p t, fst (best_from first best j ls) = (j + p)%nat /\ nth p ls [] = snd (best_from first best j ls) :: t.
Proof.
  induction ls as [|l r IH]; intros j best; [left; reflexivity|]. destruct l as [|y t]; cbn [best_from].
  - destruct (IH (S j) best) as [H|(p & t & H1 & H2)]; [left; exact H|]. right. exists (S p), t. split; [lia | exact H2].
  - destruct (first y (snd best)).
    + destruct (IH (S j) (j, y)) as [H|(p & t' & H1 & H2)].
      * right. exists 0%nat, t. rewrite H. cbn. split; [lia | reflexivity].
      * right. exists (S p), t'. split; [lia | exact H2].
    + destruct (IH (S j) best) as [H|(p & t' & H1 & H2)]; [left; exact H|]. right. exists (S p), t'. split; [lia | exact H2].
Qed.
Lemma best_src_nth first : forall ls j i x, best_src first j ls = Some (i, x) ->
  exists p t, i = (j + p)%nat /\ nth p ls [] = x :: t.
Proof.
  induction ls as [|l r IH]; intros j i x H; [discriminate|]. destruct l as [|y t]; cbn [best_src] in H.
  - destruct (IH (S j) i x H) as (p & t & H1 & H2). exists (S p), t. split; [lia | exact H2].
  - injection H as H. destruct (best_from_nth first r (S j) (j, y)) as [E|(p & t' & H1 & H2)].
    + rewrite E in H. injection H as <- <-. exists 0%nat, t. split; [lia | reflexivity].
    + rewrite H in H1, H2. cbn in H1, H2. exists (S p), t'. split; [lia | exact H2].
Qed.

(* ---------- running the model ---------- *)
Lemma heads_run key : forall todo done j lg u, j = length done -> exists u',
  merge_heads (seq j (length todo)) key (W (done ++ map (fresh_src true) todo) lg u)
  = (Ok (heap_of key j todo), W (done ++ srcs_of todo) (rev (heads_trace key j todo) ++ lg) u').
Proof.
  induction todo as [|l r IH]; intros done j lg u Hj.
  - exists u. reflexivity.
  - cbn [length seq merge_heads map]. subst j. destruct l as [|x t].
    + rewrite (bind_ok _ _ _ _ _ (pull_end (length done) _ lg u 0 true (nth_middle_src done _ _ _))).
      rewrite upd_middle.
      destruct (IH (done ++ [end_src]) (S (length done)) (EEnd (length done) :: EPull (length done) :: lg) (S u)) as (u' & Hr).
      { rewrite app_length. cbn. lia. }
      rewrite <- app_assoc in Hr. cbn [app] in Hr. fold end_src. rewrite Hr. exists u'.
      unfold srcs_of. cbn [heap_of map src_of heads_trace]. rewrite <- app_assoc. cbn [app].
      f_equal. f_equal. cbn [rev app]. rewrite ?rev_app_distr. cbn [rev app]. rewrite <- ?app_assoc. cbn [app]. reflexivity.
    + rewrite (bind_ok _ _ _ _ _ (pull_item (length done) _ lg u x t 0 true (nth_middle_src done _ _ _))).
      rewrite upd_middle, bind_keyof.
      destruct (IH (done ++ [mkSrc t false 0 0 true]) (S (length done))
                  (rev (key_call key x) ++ EItem (length done) x :: EPull (length done) :: lg)
                  (length (key_call key x) + S u)) as (u' & Hr).
      { rewrite app_length. cbn. lia. }
      rewrite <- app_assoc in Hr. cbn [app] in Hr. rewrite (bind_ok _ _ _ _ _ Hr). exists u'.
      unfold srcs_of. cbn [heap_of map src_of heads_trace]. rewrite <- app_assoc. cbn [app].
      unfold ret. f_equal. f_equal. cbn [rev app]. rewrite ?rev_app_distr. cbn [rev app]. rewrite <- ?app_assoc. cbn [app]. reflexivity.
Qed.

Lemma drain_run : forall t fuel i ss lg u,
  nth i ss dead_src = mkSrc t false 0 0 true -> (i < length ss)%nat -> (length t < fuel)%nat -> exists u',
  iter_src fuel i (fun (_ : unit) x => yield_to x ;;; ret (tt, true)) tt (W ss lg u)
  = (Ok (tt, false), W (upd i end_src ss) (rev (drain_trace i t) ++ lg) u').
Proof.
  induction t as [|y t IH]; intros fuel i ss lg u Hn Hi Hf; destruct fuel as [|f]; try (cbn in Hf; lia); cbn [iter_src].
  - rewrite (bind_ok _ _ _ _ _ (pull_end i ss lg u 0 true Hn)). eexists. reflexivity.
  - rewrite (bind_ok _ _ _ _ _ (pull_item i ss lg u y t 0 true Hn)). rewrite bind_assoc, bind_yield, bind_ret. cbn [snd fst].
    destruct (IH f i (upd i (mkSrc t false 0 0 true) ss) (EYield y :: EItem i y :: EPull i :: lg) (S (S u))) as (u' & Hr).
    { apply nth_upd_same. exact Hi. } { rewrite upd_length. exact Hi. } { cbn in Hf. lia. }
    rewrite Hr, upd_upd. exists u'. f_equal. f_equal. unfold drain_trace. cbn [flat_map app rev].
    rewrite <- !app_assoc. reflexivity.
Qed.

Lemma srcs_single_end t : forall a b,
  upd a end_src (srcs_of (repeat [] a ++ t :: repeat [] b)) = repeat end_src (length (repeat (@nil val) a ++ t :: repeat [] b)).
Proof.
  unfold srcs_of. induction a as [|a IH]; intros b; cbn [repeat app map upd length].
  - f_equal. induction b as [|b IHb]; cbn; [reflexivity | f_equal; exact IHb].
  - cbn [src_of]. f_equal. apply IH.
Qed.

Lemma loop_run c rv key : forall fuel ls lg u,
  (length (concat ls) < fuel)%nat -> forallb (in_class c) (map (kv key) (concat ls)) = true -> exists u',
  merge_loop fuel rv key (heap_of key 0 ls) yield_to (W (srcs_of ls) lg u)
  = (Ok tt, W (repeat end_src (length ls))
              (rev (merge_loop_trace (length (concat ls)) key (merge_first rv key) ls) ++ lg) u').
Proof.
  induction fuel as [|f IH]; intros ls lg u Hf Hc; [lia|]. cbn [merge_loop].
  destruct (heap_of key 0 ls) as [|e0 [|e1 rest]] eqn:Eh.
  - destruct (heap_nil key ls 0 Eh) as (H1 & H2 & H3). rewrite H1, H2. exists u. reflexivity.
  - destruct (heap_single key ls 0 e0 Eh) as (a & t & b & Els & Hsrc). cbn [plus] in Hsrc. rewrite Hsrc.
    set (x := m_head e0) in *.
    assert (Hn : nth a ls [] = x :: t) by (rewrite Els; apply nth_single).
    destruct (nth_srcs_of ls a x t Hn) as [Hns Hlt].
    rewrite bind_yield. unfold each. rewrite bind_loop_src.
    replace (items_left a (W (srcs_of ls) (EYield x :: lg) (S u))) with (length t)
      by (unfold items_left; cbn [srcs W]; rewrite Hns; reflexivity).
    destruct (drain_run t (S (length t)) a (srcs_of ls) (EYield x :: lg) (S u) Hns Hlt (Nat.lt_succ_diag_r _)) as (u' & Hd).
    rewrite (bind_ok _ _ _ _ _ Hd). exists u'. unfold ret. f_equal.
    assert (Hlen : length (concat ls) = S (length t)).
    { rewrite Els. clear. induction a; cbn; [|assumption]. rewrite app_length. f_equal.
      replace (concat (repeat [] b)) with (@nil val); [cbn; lia|]. induction b; cbn; auto. }
    assert (Hbest : best_src (merge_first rv key) 0 ls = Some (a, x)) by (rewrite Els; apply (best_src_single _ x t b a 0)).
    assert (Hlive : live ls = 1) by (rewrite Els; apply live_single).
    rewrite Hlen. cbn [merge_loop_trace]. rewrite Hbest, Hlive, Hn.
    cbn [Nat.eqb tl]. f_equal.
    + rewrite Els. apply srcs_single_end.
    + cbn [rev]. rewrite <- app_assoc. reflexivity.
  - destruct (min_best c rv key ls 0 e0 (e1 :: rest) Hc Eh) as (i & x & Hbest & Hmin). rewrite Hmin.
    destruct (best_src_nth _ ls 0 i x Hbest) as (p & t & Hp & Hn). cbn [plus] in Hp. subst p.
    destruct (nth_srcs_of ls i x t Hn) as [Hns Hlt].
    cbn [m_head m_src]. rewrite bind_yield.
    pose proof (concat_pop_length ls i x t Hn) as Hlen.
    assert (Hlive : Nat.eqb (live ls) 1 = false) by (rewrite <- (heap_of_length key ls 0), Eh; reflexivity).
    rewrite Hlen. cbn [merge_loop_trace]. rewrite Hbest, Hlive, Hn. cbn [tl].
    destruct (IH (pop i ls)) with (lg := match t with [] => EEnd i :: EPull i :: EYield x :: lg
                                        | h :: _ => rev (key_call key h) ++ EItem i h :: EPull i :: EYield x :: lg end)
                                  (u := match t with [] => S (S u) | h :: _ => (length (key_call key h) + S (S u))%nat end)
      as (u' & Hr); [lia | rewrite forallb_map_comp in *; apply forallb_concat_pop; exact Hc |].
    rewrite pop_length in Hr. exists u'.
    destruct t as [|h t'].
    + rewrite (bind_ok _ _ _ _ _ (pull_end i _ _ _ 0 true Hns)).
      change (mkSrc [] true 0 0 true) with (src_of []). rewrite (upd_srcs_pop ls i x [] Hn).
      pose proof (drop_src_pop key ls 0 i x Hn) as Hd. cbn [plus] in Hd. rewrite <- Eh, Hd. rewrite Hr. f_equal. f_equal.
      cbn [rev app]. rewrite ?rev_app_distr. cbn [rev app]. rewrite <- ?app_assoc. cbn [app]. reflexivity.
    + rewrite (bind_ok _ _ _ _ _ (pull_item i _ _ _ h t' 0 true Hns)).
      change (mkSrc t' false 0 0 true) with (src_of (h :: t')). rewrite (upd_srcs_pop ls i x (h :: t') Hn).
      rewrite bind_keyof.
      pose proof (put_src_pop key ls 0 i x h t' Hn) as Hd. cbn [plus] in Hd. rewrite <- Eh, Hd. rewrite Hr. f_equal. f_equal.
      cbn [rev app]. rewrite ?rev_app_distr. cbn [rev app]. rewrite <- ?app_assoc. cbn [app]. reflexivity.
Qed.

(* closing exhausted sources *)
Definition spent (s : src) : Prop := s_exh s = true /\ s_acl s = true.
Lemma Forall_upd {A} (P : A -> Prop) x : forall l i, Forall P l -> P x -> Forall P (upd i x l).
Proof.
  induction l as [|y l IH]; intros [|i] Hl Hx; cbn; try assumption; inversion Hl; subst; constructor; auto.
Qed.
Lemma close_all_run : forall l ss lg u,
  Forall spent ss -> (forall i, In i l -> (i < length ss)%nat) -> exists ss' lg' u',
  close_all l (W ss lg u) = (Ok tt, W ss' lg' u') /\ Forall spent ss' /\ length ss' = length ss /\
  no_closes (rev lg') = no_closes (rev lg).
Proof.
  induction l as [|i r IH]; intros ss lg u Hss Hl.
  - exists ss, lg, u. repeat split; assumption.
  - cbn [close_all].
    assert (Hi : (i < length ss)%nat) by (apply Hl; left; reflexivity).
    destruct (nth i ss dead_src) as [it ex cg cd ac] eqn:En.
    assert (Hsp : spent (nth i ss dead_src)) by (rewrite Forall_forall in Hss; apply Hss, nth_In, Hi).
    rewrite En in Hsp. destruct Hsp as [Hex Hac]. cbn in Hex, Hac. subst ex ac.
    pose proof (close_ok i ss lg u it true cg cd En Hi) as Hc.
    destruct (IH (upd i (mkSrc it true (S cg) (S cd) true) ss) (EClose i :: lg) (S u)) as (ss' & lg' & u' & Hr & Hsp' & Hlen & Hlog).
    { apply Forall_upd; [exact Hss | split; reflexivity]. }
    { intros k Hk. rewrite upd_length. apply Hl. right; exact Hk. }
    exists ss', lg', u'. split; [|split; [exact Hsp'|split]].
    + eapply finally_ok; [exact Hc | discriminate | exact Hr].
    + rewrite Hlen. apply upd_length.
    + rewrite Hlog. cbn [rev]. rewrite no_closes_app. cbn. apply app_nil_r.
Qed.

(* the specified trace contains no close events *)
Lemma nc_cons e l : is_close e = false -> no_closes l = l -> no_closes (e :: l) = e :: l.
Proof. intros He Hl. unfold no_closes in *. cbn. rewrite He. cbn. f_equal. exact Hl. Qed.
Lemma nc_app l1 l2 : no_closes l1 = l1 -> no_closes l2 = l2 -> no_closes (l1 ++ l2) = l1 ++ l2.
Proof. intros H1 H2. rewrite no_closes_app, H1, H2. reflexivity. Qed.
Lemma nc_key_call key x : no_closes (key_call key x) = key_call key x.
Proof. destruct key; reflexivity. Qed.
Lemma nc_heads key : forall ls j, no_closes (heads_trace key j ls) = heads_trace key j ls.
Proof.
  induction ls as [|l r IH]; intros j; [reflexivity|]. cbn [heads_trace]. apply nc_cons; [reflexivity|].
  apply nc_app; [|apply IH]. destruct l; [reflexivity|]. apply nc_cons; [reflexivity | apply nc_key_call].
Qed.
Lemma nc_drain i : forall t, no_closes (drain_trace i t) = drain_trace i t.
Proof.
  unfold drain_trace. induction t as [|y t IH]; [reflexivity|]. cbn [flat_map app].
  repeat (apply nc_cons; [reflexivity|]). exact IH.
Qed.
Lemma nc_loop key first : forall fuel ls, no_closes (merge_loop_trace fuel key first ls) = merge_loop_trace fuel key first ls.
Proof.
  induction fuel as [|f IH]; intros ls; [reflexivity|]. cbn [merge_loop_trace].
  destruct (best_src first 0 ls) as [[i x]|]; [|reflexivity]. destruct (Nat.eqb (live ls) 1).
  - apply nc_cons; [reflexivity | apply nc_drain].
  - repeat (apply nc_cons; [reflexivity|]). apply nc_app; [|apply IH].
    destruct (tl (nth i ls [])); [reflexivity|]. apply nc_cons; [reflexivity | apply nc_key_call].
Qed.

Lemma total_srcs_of : forall ls,
  (length (concat ls) <= fold_right (fun s a => length (s_items s) + a) 0 (srcs_of ls) + length ls)%nat.
Proof.
  induction ls as [|l r IH]; [cbn; lia|]. unfold srcs_of in *. cbn [concat map fold_right length]. rewrite app_length.
  destruct l; cbn [src_of s_items end_src length]; lia.
Qed.

(* ---------- the theorems ---------- *)
Theorem merge_trace : forall c key rev ls,
  orderable c key (concat ls) = true ->
  let '(o, w) := run_gen (a_merge (seq 0 (length ls)) key rev) (init_world ls None) in
  o = Ok tt /\ no_closes (List.rev (log w)) = spec_merge_trace key rev ls /\ all_released w = true.
Proof.
  intros c key rv ls Hc. unfold orderable in Hc. unfold run_gen, a_merge.
  change (init_world ls None) with (W ([] ++ map (fresh_src true) ls) [] 0).
  destruct (heads_run key ls [] 0 [] 0 eq_refl) as (u1 & Hh). cbn [app] in Hh. cbn [app].
  set (w1 := W (srcs_of ls) (List.rev (heads_trace key 0 ls) ++ []) u1) in *.
  destruct (loop_run c rv key (S (total_left w1 + length (seq 0 (length ls)))) ls
              (List.rev (heads_trace key 0 ls) ++ []) u1) as (u2 & Hl).
  { unfold w1, total_left. cbn [srcs W]. rewrite seq_length. pose proof (total_srcs_of ls). lia. }
  { exact Hc. }
  fold w1 in Hl.
  destruct (close_all_run (seq 0 (length ls)) (repeat end_src (length ls))
              (List.rev (merge_loop_trace (length (concat ls)) key (merge_first rv key) ls) ++ List.rev (heads_trace key 0 ls) ++ []) u2)
    as (ss' & lg' & u' & Hcl & Hsp & _ & Hlog).
  { apply Forall_forall. intros s Hs. apply repeat_spec in Hs. subst s. split; reflexivity. }
  { intros i Hi. apply in_seq in Hi. rewrite repeat_length. lia. }
  erewrite finally_ok; [| rewrite (bind_ok _ _ _ _ _ Hh); exact Hl | discriminate | exact Hcl].
  split; [reflexivity|]. split.
  - cbn [log W]. rewrite Hlog. rewrite app_nil_r, rev_app_distr, !rev_involutive. unfold spec_merge_trace.
    apply nc_app; [apply nc_heads | apply nc_loop].
  - unfold all_released. cbn [srcs W]. apply forallb_forall. intros s Hs. rewrite Forall_forall in Hsp.
    destruct (Hsp s Hs) as [He _]. unfold released. rewrite He. reflexivity.
Qed.

(* the yielded items of the specified trace are the stable merge *)
Lemma yields_key_call key x : yields (key_call key x) = [].
Proof. destruct key; reflexivity. Qed.
Lemma yields_heads key : forall ls j, yields (heads_trace key j ls) = [].
Proof.
  induction ls as [|l r IH]; intros j; [reflexivity|]. cbn [heads_trace].
  change (EPull j :: ?a ++ ?b) with ([EPull j] ++ a ++ b). rewrite !yields_app, IH.
  destruct l; [reflexivity|]. cbn. change (yields (key_call key v) ++ [] = []). rewrite yields_key_call. reflexivity.
Qed.
Lemma yields_drain i : forall t, yields (drain_trace i t) = t.
Proof. unfold drain_trace. induction t as [|y t IH]; [reflexivity|]. cbn [flat_map app]. cbn. f_equal. exact IH. Qed.

Lemma best_src_allnil first : forall n j, best_src first j (repeat [] n) = None.
Proof. induction n as [|n IH]; intros j; cbn; [reflexivity | apply IH]. Qed.
Lemma pop_single t b : forall a x, pop a (repeat [] a ++ (x :: t) :: repeat [] b) = repeat [] a ++ t :: repeat [] b.
Proof. induction a as [|a IH]; intros x; cbn; [reflexivity|]. f_equal. apply IH. Qed.
Lemma merge_fuel_single first a b : forall t fuel x, (length t < fuel)%nat ->
  merge_fuel fuel first (repeat [] a ++ (x :: t) :: repeat [] b) = x :: t.
Proof.
  induction t as [|y t IH]; intros fuel x Hf; destruct fuel as [|f]; try (cbn in Hf; lia);
    cbn [merge_fuel]; rewrite (best_src_single first x _ b a 0), pop_single; f_equal.
  - destruct f as [|f]; [reflexivity|]. cbn [merge_fuel].
    change ([] :: repeat [] b) with (repeat (@nil val) (S b)). rewrite <- repeat_app, best_src_allnil. reflexivity.
  - apply IH. cbn in Hf. lia.
Qed.
Lemma live_one_shape : forall ls, live ls = 1 -> exists a x t b, ls = repeat [] a ++ (x :: t) :: repeat [] b.
Proof.
  unfold live. induction ls as [|l r IH]; intros H; [discriminate|]. destruct l as [|x t]; cbn [filter length] in H.
  - destruct (IH H) as (a & x & t & b & ->). exists (S a), x, t, b. reflexivity.
  - exists 0, x, t, (length r). cbn. f_equal. injection H as H. clear -H.
    induction r as [|l r IH]; [reflexivity|]. destruct l; [|discriminate]. cbn. f_equal. apply IH, H.
Qed.
Lemma concat_single (t : list val) b : forall a, concat (repeat [] a ++ t :: repeat [] b) = t.
Proof.
  induction a as [|a IH]; cbn; [|exact IH]. replace (concat (repeat [] b)) with (@nil val); [apply app_nil_r|].
  induction b; cbn; auto.
Qed.

Lemma yields_loop key first : forall fuel ls, (length (concat ls) <= fuel)%nat ->
  yields (merge_loop_trace fuel key first ls) = merge_fuel fuel first ls.
Proof.
  induction fuel as [|f IH]; intros ls Hf; [reflexivity|]. cbn [merge_loop_trace].
  destruct (best_src first 0 ls) as [[i x]|] eqn:Hb; [|cbn [merge_fuel]; rewrite Hb; reflexivity].
  destruct (best_src_nth first ls 0 i x Hb) as (p & t & Hp & Hn). cbn [plus] in Hp. subst p.
  destruct (Nat.eqb_spec (live ls) 1) as [Hl|Hl].
  - destruct (live_one_shape ls Hl) as (a & x' & t' & b & Els).
    rewrite Els in Hb. rewrite (best_src_single first x' t' b a 0) in Hb. injection Hb as <- <-. cbn [plus] in *.
    rewrite Els in Hf. rewrite concat_single in Hf. rewrite Els, nth_single. cbn [tl].
    rewrite merge_fuel_single by (cbn in Hf; lia). cbn. f_equal. apply yields_drain.
  - cbn [merge_fuel]. rewrite Hb, Hn. cbn [tl].
    change (EYield x :: EPull i :: ?a ++ ?b) with ([EYield x; EPull i] ++ a ++ b). rewrite !yields_app. cbn [yields flat_map app].
    f_equal. rewrite IH by (rewrite (concat_pop_length ls i x t Hn) in Hf; lia).
    destruct t; [reflexivity|]. cbn. change (yields (key_call key v) ++ merge_fuel f first (pop i ls) = merge_fuel f first (pop i ls)).
    rewrite yields_key_call. reflexivity.
Qed.

Corollary merge_yields : forall key rev ls, yields (spec_merge_trace key rev ls) = spec_merge key rev ls.
Proof.
  intros key rv ls. unfold spec_merge_trace, spec_merge. rewrite yields_app, yields_heads. apply yields_loop. lia.
Qed.

Lemma yields_no_closes : forall l, yields (no_closes l) = yields l.
Proof.
  unfold yields, no_closes. induction l as [|e l IH]; [reflexivity|]. cbn [filter flat_map].
  destruct e; cbn [is_close negb flat_map app]; rewrite IH; reflexivity.
Qed.
(* the run of the model yields the stable merge *)
Corollary merge_spec : forall c key rev ls,
  orderable c key (concat ls) = true ->
  let '(o, w) := run_gen (a_merge (seq 0 (length ls)) key rev) (init_world ls None) in
  o = Ok tt /\ yields (List.rev (log w)) = spec_merge key rev ls /\ all_released w = true.
Proof.
  intros c key rv ls Hc. pose proof (merge_trace c key rv ls Hc) as H.
  destruct (run_gen (a_merge (seq 0 (length ls)) key rv) (init_world ls None)) as [o w].
  destruct H as (Ho & Ht & Hr). split; [exact Ho|]. split; [|exact Hr].
  rewrite <- merge_yields, <- Ht. symmetry. apply yields_no_closes.
Qed.

(* the domain hypothesis is satisfiable by non-trivial inputs; ties go to the lowest source index *)
Example merge_orderable_ex :
  orderable (Some 0%N) None (concat [[VObj 0 1 0; VObj 1 3 0]; []; [VObj 2 1 0; VObj 3 2 0]; [VObj 4 0 0; VObj 5 3 0]]) = true
  /\ orderable None (Some (fun a => VInt (key_of (hd VNone a) / 2))) (concat [[VObj 0 1 0; VInt 3]; [VBool true; VObj 3 2 9]]) = true.
Proof. split; reflexivity. Qed.
Example spec_merge_ex :
  spec_merge None false [[VObj 0 1 0; VObj 1 3 0]; []; [VObj 2 1 0; VObj 3 2 0]; [VObj 4 0 0; VObj 5 3 0]]
  = [VObj 4 0 0; VObj 0 1 0; VObj 2 1 0; VObj 3 2 0; VObj 1 3 0; VObj 5 3 0]
  /\ spec_merge None true [[VObj 1 3 0; VObj 0 1 0]; [VObj 3 3 0; VObj 2 1 0]]
  = [VObj 1 3 0; VObj 3 3 0; VObj 0 1 0; VObj 2 1 0].
Proof. split; reflexivity. Qed.

Print Assumptions merge_trace.
Print Assumptions merge_yields.
Print Assumptions merge_spec.
