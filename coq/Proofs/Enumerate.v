(* enumerate(xs, start) *)
From Coq Require Import List ZArith NArith Bool Arith Lia.
Import ListNotations.
Require Import V.Kernel.Values V.Kernel.Monad V.Model.Builtins V.Proofs.Steps V.Std.Builtins V.Proofs.Loop.

Definition stepE (c : Z) (x : val) : outcome (Z * bool) := Ok ((c + 1)%Z, true).
Definition evsE (c : Z) (x : val) : list event := [EYield (VTup [VInt c; x])].

Lemma bodyE : body_is (fun c x => yield_to (VTup [VInt c; x]) ;;; ret ((c + 1)%Z, true)) stepE evsE.
Proof. intros c x xs lg u. exists (S u). rewrite bind_yield1. reflexivity. Qed.

Lemma pureE : forall xs c,
  l_out (pure_loop stepE evsE c xs) = Ok ((c + Z.of_nat (length xs))%Z, false)
  /\ l_tr (pure_loop stepE evsE c xs) = spec_enumerate_trace c xs.
Proof.
  induction xs as [|x xs IH]; intros c.
  - cbn. rewrite Z.add_0_r. split; reflexivity.
  - cbn [pure_loop stepE spec_enumerate_trace l_out l_tr]. destruct (IH (c + 1)%Z) as [-> ->].
    split; [|reflexivity]. do 2 f_equal. cbn [length]. lia.
Qed.

Theorem enumerate_trace : forall start xs,
  let '(o, w) := run_gen (a_enumerate start) (init_world [xs] None) in
  o = Ok tt /\ no_closes (rev (log w)) = spec_enumerate_trace start xs /\ all_released w = true.
Proof.
  intros start xs. unfold run_gen, a_enumerate. rewrite init_world1.
  destruct (loop_pure _ _ _ bodyE xs start [] 0) as [u' Hl].
  destruct (pureE xs start) as [Ho Ht].
  erewrite scoped_r.
  2:{ apply (bind_ret_map _ (fun _ => tt)). exact Hl. }
  2:{ rewrite Ho. cbn. congruence. }
  split; [rewrite Ho; reflexivity|]. split; [|apply released_Wc].
  rewrite log_Wc, no_closes_scoped_pre.
  - rewrite Ht. reflexivity.
  - apply pure_loop_no_close. intros c y e [<-|[]]. reflexivity.
  - intros e [].
Qed.

Corollary enumerate_yields : forall start xs,
  yields (spec_enumerate_trace start xs) = spec_enumerate start xs.
Proof.
  intros start xs. revert start. induction xs as [|x xs IH]; intros start; [reflexivity|].
  cbn [spec_enumerate_trace spec_enumerate]. rewrite !yields_app, IH. reflexivity.
Qed.

Lemma combine_map_fst {A B C} (f : A -> B) (l : list A) (l' : list C) :
  combine (map f l) l' = map (fun p => (f (fst p), snd p)) (combine l l').
Proof.
  revert l'; induction l as [|a l IH]; intros [|c l']; cbn; try reflexivity. f_equal. apply IH.
Qed.
(* the yielded items in closed form: the i-th item is (start + i, xs[i]) *)
Lemma spec_enumerate_closed : forall xs start,
  spec_enumerate start xs
  = map (fun p => VTup [VInt (start + Z.of_nat (fst p)); snd p]) (combine (seq 0 (length xs)) xs).
Proof.
  induction xs as [|x xs IH]; intros start; [reflexivity|].
  cbn [spec_enumerate length seq combine map fst snd]. rewrite Z.add_0_r. f_equal.
  rewrite IH, <- seq_shift, combine_map_fst.
  rewrite map_map. apply map_ext. intros [i y]. cbn [fst snd]. do 3 f_equal. lia.
Qed.

Example enumerate_example :
  spec_enumerate 5 [VInt 7; VNone] = [VTup [VInt 5; VInt 7]; VTup [VInt 6; VNone]].
Proof. reflexivity. Qed.

Print Assumptions enumerate_trace.
Print Assumptions enumerate_yields.
Print Assumptions spec_enumerate_closed.
