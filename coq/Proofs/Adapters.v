(* C19: the asynctools adapters (any_iter, await_each, apply) normalise every async shape to the
   same plain result.  Proofs about the event traces of Model/Adapters.v, for ALL shapes, item
   lists and numbers of consumer steps. *)
From Coq Require Import List ZArith NArith Bool Arith Lia.
Import ListNotations.
Require Import V.Kernel.Values V.Model.Adapters.

(* ------------------------------------------------------------------------------------------ *)
(* Vocabulary                                                                                 *)
(* ------------------------------------------------------------------------------------------ *)

Definition countb {A} (p : A -> bool) (l : list A) : nat := length (filter p l).

Definition is_outer (e : aev) : bool := match e with AAwaitOuter => true | _ => false end.
Definition is_close (e : aev) : bool := match e with ACloseSrc => true | _ => false end.
Definition is_call (e : aev) : bool := match e with ACall _ _ => true | _ => false end.

Definition arg_awaits (l : list aev) : list nat := flat_map (fun e => match e with AAwaitArg k => [k] | _ => [] end) l.
Definition kw_awaits (l : list aev) : list nat := flat_map (fun e => match e with AAwaitKw k => [k] | _ => [] end) l.

(* what one consumer step does with item k = x *)
Definition item_block (aw : bool) (k : nat) (x : val) : list aev :=
  [APull k] ++ (if aw then [AAwaitItem k] else []) ++ [AYield x].
Fixpoint blocks (aw : bool) (k : nat) (xs : list val) : list aev :=
  match xs with [] => [] | x :: r => item_block aw k x ++ blocks aw (S k) r end.
(* the source signals its end iff the consumer asked for more than there is *)
Definition end_block (k : nat) (n take : nat) : list aev :=
  if n <? take then [APull (k + n); AEnd] else [].
Definition outer_block (sh : shape) : list aev := if outer_awaitable sh then [AAwaitOuter] else [].
Definition close_block (sh : shape) : list aev := match cont sh with CAsync => [ACloseSrc] | _ => [] end.

Lemma countb_app : forall A (p : A -> bool) l l', countb p (l ++ l') = countb p l + countb p l'.
Proof. intros A p l l'. unfold countb. rewrite filter_app, app_length. reflexivity. Qed.
Lemma ayields_app : forall l l', ayields (l ++ l') = ayields l ++ ayields l'.
Proof. intros l l'. unfold ayields. apply flat_map_app. Qed.
Lemma awaits_app : forall l l', awaits_of_items (l ++ l') = awaits_of_items l ++ awaits_of_items l'.
Proof. intros l l'. unfold awaits_of_items. apply flat_map_app. Qed.

(* ------------------------------------------------------------------------------------------ *)
(* Facts about the building blocks                                                            *)
(* ------------------------------------------------------------------------------------------ *)

Lemma ayields_blocks : forall aw xs k, ayields (blocks aw k xs) = xs.
Proof.
  intros aw xs. induction xs as [|x r IH]; intros k; [reflexivity|].
  change (blocks aw k (x :: r)) with (item_block aw k x ++ blocks aw (S k) r). rewrite ayields_app, IH. destruct aw; reflexivity.
Qed.
Lemma awaits_blocks : forall aw xs k,
  awaits_of_items (blocks aw k xs) = if aw then seq k (length xs) else [].
Proof.
  intros aw xs. induction xs as [|x r IH]; intros k.
  - destruct aw; reflexivity.
  - change (blocks aw k (x :: r)) with (item_block aw k x ++ blocks aw (S k) r). rewrite awaits_app, IH. destruct aw; reflexivity.
Qed.
Lemma outer_blocks : forall aw xs k, countb is_outer (blocks aw k xs) = 0.
Proof.
  intros aw xs. induction xs as [|x r IH]; intros k; [reflexivity|].
  change (blocks aw k (x :: r)) with (item_block aw k x ++ blocks aw (S k) r). rewrite countb_app, IH. destruct aw; reflexivity.
Qed.
Lemma close_blocks : forall aw xs k, countb is_close (blocks aw k xs) = 0.
Proof.
  intros aw xs. induction xs as [|x r IH]; intros k; [reflexivity|].
  change (blocks aw k (x :: r)) with (item_block aw k x ++ blocks aw (S k) r). rewrite countb_app, IH. destruct aw; reflexivity.
Qed.

Lemma ayields_end : forall k n t, ayields (end_block k n t) = [].
Proof. intros k n t. unfold end_block. destruct (n <? t); reflexivity. Qed.
Lemma awaits_end : forall k n t, awaits_of_items (end_block k n t) = [].
Proof. intros k n t. unfold end_block. destruct (n <? t); reflexivity. Qed.
Lemma outer_end : forall k n t, countb is_outer (end_block k n t) = 0.
Proof. intros k n t. unfold end_block. destruct (n <? t); reflexivity. Qed.
Lemma close_end : forall k n t, countb is_close (end_block k n t) = 0.
Proof. intros k n t. unfold end_block. destruct (n <? t); reflexivity. Qed.

Lemma ayields_outer : forall sh, ayields (outer_block sh) = [].
Proof. intros sh. unfold outer_block. destruct (outer_awaitable sh); reflexivity. Qed.
Lemma awaits_outer : forall sh, awaits_of_items (outer_block sh) = [].
Proof. intros sh. unfold outer_block. destruct (outer_awaitable sh); reflexivity. Qed.
Lemma close_outer : forall sh, countb is_close (outer_block sh) = 0.
Proof. intros sh. unfold outer_block. destruct (outer_awaitable sh); reflexivity. Qed.
Lemma ayields_close : forall sh, ayields (close_block sh) = [].
Proof. intros sh. unfold close_block. destruct (cont sh); reflexivity. Qed.
Lemma awaits_close : forall sh, awaits_of_items (close_block sh) = [].
Proof. intros sh. unfold close_block. destruct (cont sh); reflexivity. Qed.
Lemma outer_close : forall sh, countb is_outer (close_block sh) = 0.
Proof. intros sh. unfold close_block. destruct (cont sh); reflexivity. Qed.

(* ------------------------------------------------------------------------------------------ *)
(* 1/2. any_iter                                                                              *)
(* ------------------------------------------------------------------------------------------ *)

Lemma any_iter_loop_fst : forall sh items k take,
  fst (any_iter_loop sh k items take) =
  blocks (items_awaitable sh) k (firstn take items) ++ end_block k (length items) take.
Proof.
  intros sh items. induction items as [|x r IH]; intros k take; destruct take as [|t].
  - reflexivity.
  - unfold end_block. simpl. rewrite Nat.add_0_r. reflexivity.
  - reflexivity.
  - simpl any_iter_loop. specialize (IH (S k) t).
    destruct (any_iter_loop sh (S k) r t) as [rest fin]. simpl fst in *. rewrite IH.
    simpl firstn. simpl blocks. unfold item_block, end_block. simpl length.
    rewrite Nat.add_succ_r. simpl Nat.add.
    change (S (length r) <? S t) with (length r <? t).
    destruct (items_awaitable sh); reflexivity.
Qed.

(* the whole trace, in closed form *)
Theorem any_iter_trace : forall sh items take,
  any_iter_run sh items take =
  match take with
  | 0 => []
  | _ => outer_block sh ++ blocks (items_awaitable sh) 0 (firstn take items)
         ++ end_block 0 (length items) take ++ close_block sh
  end.
Proof.
  intros sh items take. destruct take as [|t]; [reflexivity|].
  unfold any_iter_run. rewrite any_iter_loop_fst. rewrite <- app_assoc. reflexivity.
Qed.

Theorem any_iter_yields : forall sh items take,
  ayields (any_iter_run sh items take) = firstn take items.
Proof.
  intros sh items take. rewrite any_iter_trace. destruct take as [|t]; [reflexivity|].
  rewrite !ayields_app, ayields_outer, ayields_blocks, ayields_end, ayields_close.
  simpl. apply app_nil_r.
Qed.

Corollary any_iter_shape_independent : forall sh sh' items take,
  ayields (any_iter_run sh items take) = ayields (any_iter_run sh' items take).
Proof. intros sh sh' items take. rewrite !any_iter_yields. reflexivity. Qed.

Theorem any_iter_lazy : forall sh items take,
  awaits_of_items (any_iter_run sh items take) =
  if items_awaitable sh then seq 0 (Nat.min take (length items)) else [].
Proof.
  intros sh items take. rewrite any_iter_trace. destruct take as [|t].
  - destruct (items_awaitable sh); reflexivity.
  - rewrite !awaits_app, awaits_outer, awaits_blocks, awaits_end, awaits_close.
    rewrite firstn_length. simpl app. rewrite app_nil_r. reflexivity.
Qed.

(* the outer awaitable: awaited exactly once, and as the very first event, iff there is one and the
   generator was started; never otherwise *)
Theorem any_iter_outer_once : forall sh items take,
  countb is_outer (any_iter_run sh items take) = (if outer_awaitable sh && (0 <? take) then 1 else 0)
  /\ exists rest,
       any_iter_run sh items take =
         (if outer_awaitable sh && (0 <? take) then [AAwaitOuter] else []) ++ rest
       /\ countb is_outer rest = 0.
Proof.
  intros sh items take.
  assert (Hrest : forall t, countb is_outer
            (blocks (items_awaitable sh) 0 (firstn (S t) items)
             ++ end_block 0 (length items) (S t) ++ close_block sh) = 0).
  { intros t. rewrite !countb_app, outer_blocks, outer_end, outer_close. reflexivity. }
  rewrite any_iter_trace. destruct take as [|t].
  - rewrite andb_false_r. split; [reflexivity|]. exists []. split; reflexivity.
  - change (0 <? S t) with true. rewrite andb_true_r. split.
    + rewrite countb_app, Hrest. unfold outer_block. destruct (outer_awaitable sh); reflexivity.
    + eexists. split; [reflexivity|]. apply Hrest.
Qed.

Corollary any_iter_outer_first : forall sh items take,
  outer_awaitable sh = true -> 0 < take ->
  exists rest, any_iter_run sh items take = AAwaitOuter :: rest /\ countb is_outer rest = 0.
Proof.
  intros sh items take Ho Ht. destruct (any_iter_outer_once sh items take) as [_ [rest [E C]]].
  rewrite Ho in E. apply Nat.ltb_lt in Ht. rewrite Ht in E. exists rest. split; assumption.
Qed.

Corollary any_iter_outer_never : forall sh items take,
  outer_awaitable sh = false \/ take = 0 -> countb is_outer (any_iter_run sh items take) = 0.
Proof.
  intros sh items take H. destruct (any_iter_outer_once sh items take) as [C _]. rewrite C.
  destruct H as [H|H]; [rewrite H; reflexivity|]. subst take. rewrite andb_false_r. reflexivity.
Qed.

(* an async source is closed exactly once, as the very last event, iff the generator was started;
   a list / sync iterator is never closed *)
Theorem any_iter_closes_async_source : forall sh items take,
  (cont sh = CAsync -> 0 < take ->
     countb is_close (any_iter_run sh items take) = 1
     /\ exists pre, any_iter_run sh items take = pre ++ [ACloseSrc] /\ countb is_close pre = 0)
  /\ (cont sh = CAsync -> take = 0 -> any_iter_run sh items take = [])
  /\ (cont sh <> CAsync -> countb is_close (any_iter_run sh items take) = 0).
Proof.
  intros sh items take. rewrite any_iter_trace.
  assert (Hpre : forall t, countb is_close
            (outer_block sh ++ blocks (items_awaitable sh) 0 (firstn (S t) items)
             ++ end_block 0 (length items) (S t)) = 0).
  { intros t. rewrite !countb_app, close_outer, close_blocks, close_end. reflexivity. }
  assert (Hsh : forall t,
            outer_block sh ++ blocks (items_awaitable sh) 0 (firstn (S t) items)
             ++ end_block 0 (length items) (S t) ++ close_block sh =
            (outer_block sh ++ blocks (items_awaitable sh) 0 (firstn (S t) items)
             ++ end_block 0 (length items) (S t)) ++ close_block sh).
  { intros t. rewrite <- !app_assoc. reflexivity. }
  split; [|split].
  - intros Hc Ht. destruct take as [|t]; [lia|]. rewrite Hsh.
    unfold close_block. rewrite Hc. split.
    + rewrite countb_app, Hpre. reflexivity.
    + eexists. split; [reflexivity|]. apply Hpre.
  - intros _ Ht. subst take. reflexivity.
  - intros Hc. destruct take as [|t]; [reflexivity|]. rewrite Hsh.
    rewrite countb_app, Hpre.
    unfold close_block. destruct (cont sh); try reflexivity. congruence.
Qed.

Corollary any_iter_close_count : forall sh items take,
  countb is_close (any_iter_run sh items take) =
  match cont sh with CAsync => if 0 <? take then 1 else 0 | _ => 0 end.
Proof.
  intros sh items take. destruct (any_iter_closes_async_source sh items take) as [H1 [H2 H3]].
  destruct (cont sh) eqn:Hc.
  - apply H3. discriminate.
  - apply H3. discriminate.
  - destruct take as [|t].
    + rewrite (H2 eq_refl eq_refl). reflexivity.
    + apply H1; [reflexivity|lia].
Qed.

(* ------------------------------------------------------------------------------------------ *)
(* 3. await_each                                                                              *)
(* ------------------------------------------------------------------------------------------ *)

Lemma await_each_blocks : forall items k take,
  await_each_run k items take = blocks true k (firstn take items) ++ end_block k (length items) take.
Proof.
  intros items. induction items as [|x r IH]; intros k take; destruct take as [|t].
  - reflexivity.
  - unfold end_block. simpl. rewrite Nat.add_0_r. reflexivity.
  - reflexivity.
  - simpl await_each_run. rewrite IH. simpl firstn. simpl blocks. unfold item_block, end_block.
    simpl length. rewrite Nat.add_succ_r. simpl Nat.add.
    change (S (length r) <? S t) with (length r <? t). reflexivity.
Qed.

Theorem await_each_yields : forall items take,
  ayields (await_each_run 0 items take) = firstn take items.
Proof.
  intros items take. rewrite await_each_blocks, ayields_app, ayields_blocks, ayields_end.
  apply app_nil_r.
Qed.

Theorem await_each_lazy : forall items take,
  awaits_of_items (await_each_run 0 items take) = seq 0 (Nat.min take (length items)).
Proof.
  intros items take. rewrite await_each_blocks, awaits_app, awaits_blocks, awaits_end.
  rewrite firstn_length. apply app_nil_r.
Qed.

(* same items as any_iter, for every shape *)
Corollary await_each_agrees_with_any_iter : forall sh items take,
  ayields (await_each_run 0 items take) = ayields (any_iter_run sh items take).
Proof. intros sh items take. rewrite await_each_yields, any_iter_yields. reflexivity. Qed.

Lemma await_each_concat_gen : forall items k take,
  await_each_run k items take =
  flat_map (fun p => [APull (fst p); AAwaitItem (fst p); AYield (snd p)])
           (combine (seq k (Nat.min take (length items))) items)
  ++ (if length items <? take then [APull (k + length items); AEnd] else []).
Proof.
  intros items. induction items as [|x r IH]; intros k take; destruct take as [|t].
  - reflexivity.
  - simpl. rewrite Nat.add_0_r. reflexivity.
  - reflexivity.
  - simpl await_each_run. rewrite IH. simpl length. simpl Nat.min. simpl seq. simpl combine.
    simpl flat_map. rewrite Nat.add_succ_r. simpl Nat.add.
    change (S (length r) <? S t) with (length r <? t). reflexivity.
Qed.

(* the trace is the concatenation over k < min take (length items) of
   [APull k; AAwaitItem k; AYield x_k], followed by [APull n; AEnd] iff take > length items *)
Theorem await_each_one_at_a_time : forall items take,
  await_each_run 0 items take =
  flat_map (fun p => [APull (fst p); AAwaitItem (fst p); AYield (snd p)])
           (combine (seq 0 (Nat.min take (length items))) items)
  ++ (if length items <? take then [APull (length items); AEnd] else []).
Proof. intros items take. apply (await_each_concat_gen items 0 take). Qed.

(* ... hence: wherever an await of item j occurs in the trace, the very next event is the yield of
   item j to the consumer *)
Lemma await_each_await_then_yield_gen : forall items k take pre j post,
  await_each_run k items take = pre ++ AAwaitItem j :: post ->
  k <= j /\ exists x post', nth_error items (j - k) = Some x /\ post = AYield x :: post'.
Proof.
  intros items. induction items as [|x r IH]; intros k take pre j post H; destruct take as [|t].
  - destruct pre; discriminate H.
  - destruct pre as [|a [|b [|c pre]]]; discriminate H.
  - destruct pre; discriminate H.
  - simpl in H. destruct pre as [|a [|b [|c pre]]].
    + discriminate H.
    + simpl in H. injection H as _ Hj Hp. subst j. split; [lia|].
      exists x, (await_each_run (S k) r t). rewrite Nat.sub_diag. split; [reflexivity|].
      symmetry; exact Hp.
    + discriminate H.
    + simpl in H. injection H as _ _ _ H. apply IH in H. destruct H as [Hle [x' [post' [Hn Hp]]]].
      split; [lia|]. exists x', post'. split; [|exact Hp].
      replace (j - k) with (S (j - S k)) by lia. exact Hn.
Qed.

Theorem await_each_await_then_yield : forall items take pre j post,
  await_each_run 0 items take = pre ++ AAwaitItem j :: post ->
  exists x post', nth_error items j = Some x /\ post = AYield x :: post'.
Proof.
  intros items take pre j post H. apply await_each_await_then_yield_gen in H.
  destruct H as [_ [x [post' [Hn Hp]]]]. rewrite Nat.sub_0_r in Hn. exists x, post'. split; assumption.
Qed.

(* ------------------------------------------------------------------------------------------ *)
(* 4. apply                                                                                   *)
(* ------------------------------------------------------------------------------------------ *)

Theorem apply_order : forall args kwargs,
  apply_run args kwargs =
  map AAwaitArg (seq 0 (length args)) ++ map AAwaitKw (seq 0 (length kwargs)) ++ [ACall args kwargs].
Proof. reflexivity. Qed.

Lemma call_map_arg : forall l, countb is_call (map AAwaitArg l) = 0.
Proof. induction l as [|a l IH]; [reflexivity|exact IH]. Qed.
Lemma call_map_kw : forall l, countb is_call (map AAwaitKw l) = 0.
Proof. induction l as [|a l IH]; [reflexivity|exact IH]. Qed.
Lemma arg_map_arg : forall l, arg_awaits (map AAwaitArg l) = l.
Proof. induction l as [|a l IH]; [reflexivity|]. simpl. f_equal. exact IH. Qed.
Lemma arg_map_kw : forall l, arg_awaits (map AAwaitKw l) = [].
Proof. induction l as [|a l IH]; [reflexivity|exact IH]. Qed.
Lemma kw_map_kw : forall l, kw_awaits (map AAwaitKw l) = l.
Proof. induction l as [|a l IH]; [reflexivity|]. simpl. f_equal. exact IH. Qed.
Lemma kw_map_arg : forall l, kw_awaits (map AAwaitArg l) = [].
Proof. induction l as [|a l IH]; [reflexivity|exact IH]. Qed.

(* the call is the last event and happens exactly once, with exactly the given arguments *)
Theorem apply_call_last_once : forall args kwargs,
  countb is_call (apply_run args kwargs) = 1
  /\ exists pre, apply_run args kwargs = pre ++ [ACall args kwargs] /\ countb is_call pre = 0.
Proof.
  intros args kwargs. unfold apply_run. split.
  - rewrite !countb_app, call_map_arg, call_map_kw. reflexivity.
  - exists (map AAwaitArg (seq 0 (length args)) ++ map AAwaitKw (seq 0 (length kwargs))).
    split; [rewrite <- app_assoc; reflexivity|].
    rewrite countb_app, call_map_arg, call_map_kw. reflexivity.
Qed.

(* positional arguments: each awaited exactly once, in order *)
Theorem apply_arg_awaits : forall args kwargs,
  arg_awaits (apply_run args kwargs) = seq 0 (length args).
Proof.
  intros args kwargs. unfold apply_run, arg_awaits. rewrite !flat_map_app.
  fold (arg_awaits (map AAwaitArg (seq 0 (length args)))).
  fold (arg_awaits (map AAwaitKw (seq 0 (length kwargs)))).
  rewrite arg_map_arg, arg_map_kw. simpl. apply app_nil_r.
Qed.
Theorem apply_kw_awaits : forall args kwargs,
  kw_awaits (apply_run args kwargs) = seq 0 (length kwargs).
Proof.
  intros args kwargs. unfold apply_run, kw_awaits. rewrite !flat_map_app.
  fold (kw_awaits (map AAwaitArg (seq 0 (length args)))).
  fold (kw_awaits (map AAwaitKw (seq 0 (length kwargs)))).
  rewrite kw_map_arg, kw_map_kw. simpl. apply app_nil_r.
Qed.

Corollary apply_arg_awaits_NoDup : forall args kwargs, NoDup (arg_awaits (apply_run args kwargs)).
Proof. intros. rewrite apply_arg_awaits. apply seq_NoDup. Qed.
Corollary apply_kw_awaits_NoDup : forall args kwargs, NoDup (kw_awaits (apply_run args kwargs)).
Proof. intros. rewrite apply_kw_awaits. apply seq_NoDup. Qed.

Corollary apply_arg_await_count : forall args kwargs k,
  count_occ Nat.eq_dec (arg_awaits (apply_run args kwargs)) k = if k <? length args then 1 else 0.
Proof.
  intros args kwargs k. rewrite apply_arg_awaits. destruct (k <? length args) eqn:E.
  - apply Nat.ltb_lt in E. apply (proj1 (NoDup_count_occ' Nat.eq_dec _) (seq_NoDup _ _)).
    apply in_seq. lia.
  - apply Nat.ltb_ge in E. apply count_occ_not_In. rewrite in_seq. lia.
Qed.
Corollary apply_kw_await_count : forall args kwargs k,
  count_occ Nat.eq_dec (kw_awaits (apply_run args kwargs)) k = if k <? length kwargs then 1 else 0.
Proof.
  intros args kwargs k. rewrite apply_kw_awaits. destruct (k <? length kwargs) eqn:E.
  - apply Nat.ltb_lt in E. apply (proj1 (NoDup_count_occ' Nat.eq_dec _) (seq_NoDup _ _)).
    apply in_seq. lia.
  - apply Nat.ltb_ge in E. apply count_occ_not_In. rewrite in_seq. lia.
Qed.

(* the event at every position of the trace *)
Lemma nth_error_map_seq : forall A (f : nat -> A) n s p,
  nth_error (map f (seq s n)) p = if p <? n then Some (f (s + p)) else None.
Proof.
  intros A f n. induction n as [|n IH]; intros s p.
  - destruct p; reflexivity.
  - destruct p as [|p].
    + simpl. rewrite Nat.add_0_r. reflexivity.
    + simpl seq. simpl map. simpl nth_error. rewrite IH.
      change (S p <? S n) with (p <? n). rewrite Nat.add_succ_r. reflexivity.
Qed.

Theorem apply_positions : forall args kwargs p,
  nth_error (apply_run args kwargs) p =
  if p <? length args then Some (AAwaitArg p)
  else if p <? length args + length kwargs then Some (AAwaitKw (p - length args))
  else if p =? length args + length kwargs then Some (ACall args kwargs)
  else None.
Proof.
  intros args kwargs p. unfold apply_run.
  assert (La : length (map AAwaitArg (seq 0 (length args))) = length args)
    by (rewrite map_length, seq_length; reflexivity).
  assert (Lk : length (map AAwaitKw (seq 0 (length kwargs))) = length kwargs)
    by (rewrite map_length, seq_length; reflexivity).
  destruct (p <? length args) eqn:E1.
  - apply Nat.ltb_lt in E1. rewrite nth_error_app1 by lia. rewrite nth_error_map_seq.
    apply Nat.ltb_lt in E1. rewrite E1. reflexivity.
  - apply Nat.ltb_ge in E1. rewrite nth_error_app2 by lia. rewrite La.
    destruct (p <? length args + length kwargs) eqn:E2.
    + apply Nat.ltb_lt in E2. rewrite nth_error_app1 by lia. rewrite nth_error_map_seq.
      assert (E3 : p - length args <? length kwargs = true) by (apply Nat.ltb_lt; lia).
      rewrite E3. reflexivity.
    + apply Nat.ltb_ge in E2. rewrite nth_error_app2 by lia. rewrite Lk.
      destruct (p =? length args + length kwargs) eqn:E3.
      * apply Nat.eqb_eq in E3. replace (p - length args - length kwargs) with 0 by lia. reflexivity.
      * apply Nat.eqb_neq in E3.
        destruct (p - length args - length kwargs) as [|q] eqn:E4; [lia|].
        simpl. destruct q; reflexivity.
Qed.

Corollary apply_length : forall args kwargs,
  length (apply_run args kwargs) = length args + length kwargs + 1.
Proof.
  intros. unfold apply_run. rewrite !app_length, !map_length, !seq_length. simpl. lia.
Qed.

(* positional argument i is awaited at position i and nowhere else; keyword argument j at position
   length args + j and nowhere else; the call at the last position and nowhere else *)
Corollary apply_arg_position : forall args kwargs p i,
  nth_error (apply_run args kwargs) p = Some (AAwaitArg i) <-> p = i /\ i < length args.
Proof.
  intros args kwargs p i. rewrite apply_positions.
  destruct (p <? length args) eqn:E1.
  - apply Nat.ltb_lt in E1. split.
    + intros H. injection H as H. lia.
    + intros [H _]. subst. reflexivity.
  - apply Nat.ltb_ge in E1.
    destruct (p <? length args + length kwargs); [|destruct (p =? length args + length kwargs)];
      (split; [intros H; discriminate H | intros [H1 H2]; lia]).
Qed.
Corollary apply_kw_position : forall args kwargs p j,
  nth_error (apply_run args kwargs) p = Some (AAwaitKw j) <-> p = length args + j /\ j < length kwargs.
Proof.
  intros args kwargs p j. rewrite apply_positions.
  destruct (p <? length args) eqn:E1.
  - apply Nat.ltb_lt in E1. split; [intros H; discriminate H | intros [H1 H2]; lia].
  - apply Nat.ltb_ge in E1. destruct (p <? length args + length kwargs) eqn:E2.
    + apply Nat.ltb_lt in E2. split.
      * intros H. injection H as H. lia.
      * intros [H1 H2]. f_equal. f_equal. lia.
    + apply Nat.ltb_ge in E2. destruct (p =? length args + length kwargs);
        (split; [intros H; discriminate H | intros [H1 H2]; lia]).
Qed.
Corollary apply_call_position : forall args kwargs p a k,
  nth_error (apply_run args kwargs) p = Some (ACall a k) ->
  p = length args + length kwargs /\ a = args /\ k = kwargs /\ S p = length (apply_run args kwargs).
Proof.
  intros args kwargs p a k. rewrite apply_positions, apply_length.
  destruct (p <? length args); [intros H; discriminate H|].
  destruct (p <? length args + length kwargs); [intros H; discriminate H|].
  destruct (p =? length args + length kwargs) eqn:E; [|intros H; discriminate H].
  apply Nat.eqb_eq in E. intros H. injection H as H1 H2. repeat split; try congruence. lia.
Qed.

(* every positional await precedes every keyword await, and every await precedes the call *)
Corollary apply_positional_before_keyword : forall args kwargs p q i j,
  nth_error (apply_run args kwargs) p = Some (AAwaitArg i) ->
  nth_error (apply_run args kwargs) q = Some (AAwaitKw j) -> p < q.
Proof.
  intros args kwargs p q i j Hp Hq.
  apply apply_arg_position in Hp. apply apply_kw_position in Hq. lia.
Qed.
Corollary apply_awaits_before_call : forall args kwargs p q e a k,
  nth_error (apply_run args kwargs) p = Some e -> is_call e = false ->
  nth_error (apply_run args kwargs) q = Some (ACall a k) -> p < q.
Proof.
  intros args kwargs p q e a k Hp He Hq. apply apply_call_position in Hq.
  destruct Hq as [Hq _]. subst q. rewrite apply_positions in Hp.
  destruct (p <? length args) eqn:E1; [apply Nat.ltb_lt in E1; lia|].
  destruct (p <? length args + length kwargs) eqn:E2; [apply Nat.ltb_lt in E2; lia|].
  destruct (p =? length args + length kwargs); [|discriminate Hp].
  injection Hp as Hp. subst e. discriminate He.
Qed.
(* in order: a smaller index is awaited earlier *)
Corollary apply_args_in_order : forall args kwargs p q i i',
  nth_error (apply_run args kwargs) p = Some (AAwaitArg i) ->
  nth_error (apply_run args kwargs) q = Some (AAwaitArg i') -> (p < q <-> i < i').
Proof.
  intros args kwargs p q i i' Hp Hq.
  apply apply_arg_position in Hp. apply apply_arg_position in Hq. lia.
Qed.
Corollary apply_kwargs_in_order : forall args kwargs p q j j',
  nth_error (apply_run args kwargs) p = Some (AAwaitKw j) ->
  nth_error (apply_run args kwargs) q = Some (AAwaitKw j') -> (p < q <-> j < j').
Proof.
  intros args kwargs p q j j' Hp Hq.
  apply apply_kw_position in Hp. apply apply_kw_position in Hq. lia.
Qed.

(* ------------------------------------------------------------------------------------------ *)
(* Examples                                                                                   *)
(* ------------------------------------------------------------------------------------------ *)

Definition ex_items : list val := [VInt 10; VInt 20; VInt 30].

(* an `async def` returning an async iterable of awaitables, consumer takes 2 of 3 *)
Example ex_any_iter_full_shape :
  any_iter_run (mkShape true CAsync true) ex_items 2 =
  [AAwaitOuter; APull 0; AAwaitItem 0; AYield (VInt 10); APull 1; AAwaitItem 1; AYield (VInt 20); ACloseSrc].
Proof. vm_compute. reflexivity. Qed.
(* a plain list of plain items, consumed to exhaustion *)
Example ex_any_iter_plain :
  any_iter_run (mkShape false CList false) ex_items 4 =
  [APull 0; AYield (VInt 10); APull 1; AYield (VInt 20); APull 2; AYield (VInt 30); APull 3; AEnd].
Proof. vm_compute. reflexivity. Qed.
Example ex_any_iter_same_items :
  ayields (any_iter_run (mkShape true CAsync true) ex_items 4) = ex_items
  /\ ayields (any_iter_run (mkShape false CList false) ex_items 4) = ex_items
  /\ ayields (any_iter_run (mkShape true CIter false) ex_items 4) = ex_items.
Proof. vm_compute. repeat split. Qed.
Example ex_any_iter_unstarted : any_iter_run (mkShape true CAsync true) ex_items 0 = [].
Proof. vm_compute. reflexivity. Qed.
Example ex_any_iter_counts :
  countb is_outer (any_iter_run (mkShape true CAsync true) ex_items 5) = 1
  /\ countb is_close (any_iter_run (mkShape true CAsync true) ex_items 5) = 1
  /\ countb is_close (any_iter_run (mkShape true CIter true) ex_items 5) = 0
  /\ awaits_of_items (any_iter_run (mkShape true CIter true) ex_items 5) = [0; 1; 2]
  /\ awaits_of_items (any_iter_run (mkShape true CIter true) ex_items 1) = [0]
  /\ awaits_of_items (any_iter_run (mkShape true CIter false) ex_items 5) = [].
Proof. vm_compute. repeat split. Qed.

Example ex_await_each_partial :
  await_each_run 0 ex_items 2 =
  [APull 0; AAwaitItem 0; AYield (VInt 10); APull 1; AAwaitItem 1; AYield (VInt 20)].
Proof. vm_compute. reflexivity. Qed.
Example ex_await_each_exhausted :
  await_each_run 0 ex_items 7 =
  [APull 0; AAwaitItem 0; AYield (VInt 10); APull 1; AAwaitItem 1; AYield (VInt 20);
   APull 2; AAwaitItem 2; AYield (VInt 30); APull 3; AEnd].
Proof. vm_compute. reflexivity. Qed.

Example ex_apply :
  apply_run [VInt 1; VInt 2] [VNone; VBool true; VInt 5] =
  [AAwaitArg 0; AAwaitArg 1; AAwaitKw 0; AAwaitKw 1; AAwaitKw 2;
   ACall [VInt 1; VInt 2] [VNone; VBool true; VInt 5]].
Proof. vm_compute. reflexivity. Qed.
Example ex_apply_no_args : apply_run [] [] = [ACall [] []].
Proof. vm_compute. reflexivity. Qed.

Print Assumptions any_iter_trace.
Print Assumptions any_iter_yields.
Print Assumptions any_iter_shape_independent.
Print Assumptions any_iter_lazy.
Print Assumptions any_iter_outer_once.
Print Assumptions any_iter_outer_first.
Print Assumptions any_iter_outer_never.
Print Assumptions any_iter_closes_async_source.
Print Assumptions any_iter_close_count.
Print Assumptions await_each_yields.
Print Assumptions await_each_lazy.
Print Assumptions await_each_agrees_with_any_iter.
Print Assumptions await_each_one_at_a_time.
Print Assumptions await_each_await_then_yield.
Print Assumptions apply_order.
Print Assumptions apply_call_last_once.
Print Assumptions apply_arg_awaits.
Print Assumptions apply_kw_awaits.
Print Assumptions apply_arg_awaits_NoDup.
Print Assumptions apply_kw_awaits_NoDup.
Print Assumptions apply_arg_await_count.
Print Assumptions apply_kw_await_count.
Print Assumptions apply_positions.
Print Assumptions apply_length.
Print Assumptions apply_arg_position.
Print Assumptions apply_kw_position.
Print Assumptions apply_call_position.
Print Assumptions apply_positional_before_keyword.
Print Assumptions apply_awaits_before_call.
Print Assumptions apply_args_in_order.
Print Assumptions apply_kwargs_in_order.
