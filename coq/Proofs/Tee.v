(* C09: asyncstdlib.itertools.tee under every interleaving of concurrent consumers.
   Invariant proofs over the small-step machine of Model/Tee.v. *)
From Coq Require Import List ZArith NArith Bool Arith Lia.
Import ListNotations.
Require Import V.Kernel.Values V.Model.Tee.

(* ------------------------------------------------------------------ *)
(* list helpers                                                         *)
(* ------------------------------------------------------------------ *)
Lemma set_nth_length {A} : forall n (x : A) l, length (set_nth n x l) = length l.
Proof. intros n x l; revert n; induction l as [|h t IH]; intros [|n]; simpl; auto. Qed.

Lemma nth_set_nth_eq {A} : forall n (x d : A) l, n < length l -> nth n (set_nth n x l) d = x.
Proof.
  intros n x d l; revert n; induction l as [|h t IH]; intros [|n] H; simpl in *; try lia; auto.
  apply IH; lia.
Qed.

Lemma nth_set_nth_neq {A} : forall n m (x d : A) l, n <> m -> nth m (set_nth n x l) d = nth m l d.
Proof.
  intros n m x d l; revert n m; induction l as [|h t IH]; intros [|n] [|m] H; simpl in *; auto; try lia.
Qed.

Lemma set_nth_set_nth {A} : forall n (x y : A) l, set_nth n x (set_nth n y l) = set_nth n x l.
Proof. intros n x y l; revert n; induction l as [|h t IH]; intros [|n]; simpl; auto. f_equal; auto. Qed.

Definition upd (c : nat) (b : list val) := fun p : nat * list val => if Nat.eqb (fst p) c then (c, b) else p.
Definition keep (c : nat) := fun p : nat * list val => negb (Nat.eqb (fst p) c).
Definition push (x : val) := fun p : nat * list val => (fst p, snd p ++ [x]).
Definition isc (c : nat) := fun p : nat * list val => Nat.eqb (fst p) c.

Lemma map_fst_upd : forall c b l, map fst (map (upd c b) l) = map fst l.
Proof.
  intros c b l; induction l as [|[k v] t IH]; simpl; auto. rewrite IH. f_equal.
  unfold upd; simpl. destruct (Nat.eqb k c) eqn:E; simpl; auto. apply Nat.eqb_eq in E; auto.
Qed.

Lemma in_upd : forall c b l c' buf, In (c', buf) (map (upd c b) l) ->
  (c' = c /\ buf = b) \/ (c' <> c /\ In (c', buf) l).
Proof.
  intros c b l c' buf H. apply in_map_iff in H. destruct H as [[k v] [E I]].
  unfold upd in E; simpl in E. destruct (Nat.eqb k c) eqn:Ek.
  - inversion E; subst. left; auto.
  - inversion E; subst. right; split; auto. apply Nat.eqb_neq in Ek; auto.
Qed.

Lemma in_upd_self : forall c b l, In c (map fst l) -> In (c, b) (map (upd c b) l).
Proof.
  intros c b l H. apply in_map_iff in H. destruct H as [[k v] [E I]]. simpl in E; subst k.
  apply in_map_iff. exists (c, v). split; auto. unfold upd; simpl. rewrite Nat.eqb_refl; auto.
Qed.

Lemma find_in : forall c l p, find (isc c) l = Some p -> In p l /\ fst p = c.
Proof.
  intros c l p H. apply find_some in H. destruct H as [I E]. split; auto. apply Nat.eqb_eq in E; auto.
Qed.

Lemma in_find : forall c buf l, NoDup (map fst l) -> In (c, buf) l -> find (isc c) l = Some (c, buf).
Proof.
  intros c buf l; induction l as [|[k v] t IH]; simpl; intros ND I; [tauto|].
  inversion ND as [|? ? NI ND']; subst. unfold isc at 1; simpl.
  destruct I as [E|I].
  - inversion E; subst. rewrite Nat.eqb_refl; auto.
  - destruct (Nat.eqb k c) eqn:Ek.
    + apply Nat.eqb_eq in Ek; subst. exfalso; apply NI. apply in_map_iff. exists (c, buf); auto.
    + auto.
Qed.

Lemma find_none_notin : forall c l, find (isc c) l = None -> ~ In c (map fst l).
Proof.
  intros c l H I. apply in_map_iff in I. destruct I as [[k v] [E I]]. simpl in E; subst.
  apply (find_none _ _ H) in I. unfold isc in I; simpl in I. rewrite Nat.eqb_refl in I; discriminate.
Qed.

Lemma map_fst_push : forall x l, map fst (map (push x) l) = map fst l.
Proof. intros x l; induction l as [|[k v] t IH]; simpl; auto. rewrite IH; auto. Qed.

Lemma in_push : forall x l c buf', In (c, buf') (map (push x) l) -> exists buf, buf' = buf ++ [x] /\ In (c, buf) l.
Proof.
  intros x l c buf' H. apply in_map_iff in H. destruct H as [[k v] [E I]]. unfold push in E; simpl in E.
  inversion E; subst. exists v; auto.
Qed.

Lemma find_push : forall c x l,
  find (isc c) (map (push x) l) = match find (isc c) l with Some p => Some (fst p, snd p ++ [x]) | None => None end.
Proof.
  intros c x l; induction l as [|[k v] t IH]; simpl; auto.
  unfold isc at 1 3; simpl. destruct (Nat.eqb k c); auto.
Qed.

Lemma in_map_fst_keep : forall c l c', In c' (map fst (filter (keep c) l)) <-> In c' (map fst l) /\ c' <> c.
Proof.
  intros c l c'; split.
  - intros H. apply in_map_iff in H. destruct H as [[k v] [E I]]. simpl in E; subst.
    apply filter_In in I. destruct I as [I K]. unfold keep in K; simpl in K.
    apply negb_true_iff in K. apply Nat.eqb_neq in K. split; auto.
    apply in_map_iff. exists (c', v); auto.
  - intros [H N]. apply in_map_iff in H. destruct H as [[k v] [E I]]. simpl in E; subst.
    apply in_map_iff. exists (c', v); split; auto. apply filter_In; split; auto.
    unfold keep; simpl. apply negb_true_iff. apply Nat.eqb_neq; auto.
Qed.

Lemma nodup_keep : forall c l, NoDup (map fst l) -> NoDup (map fst (filter (keep c) l)).
Proof.
  intros c l; induction l as [|[k v] t IH]; simpl; intros ND; auto.
  inversion ND as [|? ? NI ND']; subst.
  destruct (keep c (k, v)); simpl; auto. constructor; auto.
  intros I. apply in_map_fst_keep in I. tauto.
Qed.

Lemma in_keep : forall c l c' buf, In (c', buf) (filter (keep c) l) -> In (c', buf) l /\ c' <> c.
Proof.
  intros c l c' buf H. apply filter_In in H. destruct H as [I K]. split; auto.
  unfold keep in K; simpl in K. apply negb_true_iff in K. apply Nat.eqb_neq in K; auto.
Qed.

(* ------------------------------------------------------------------ *)
(* state helpers                                                        *)
(* ------------------------------------------------------------------ *)
Lemma getc_setc_eq : forall s c ch, c < length (t_children s) -> getc (setc s c ch) c = ch.
Proof. intros s c ch H. unfold getc, setc; simpl. apply nth_set_nth_eq; auto. Qed.

Lemma getc_setc_neq : forall s c ch c', c <> c' -> getc (setc s c ch) c' = getc s c'.
Proof. intros s c ch c' H. unfold getc, setc; simpl. apply nth_set_nth_neq; auto. Qed.

Lemma getc_ge : forall s c, length (t_children s) <= c -> getc s c = dflt_child.
Proof. intros s c H. unfold getc. apply nth_overflow; auto. Qed.

Lemma pc_lt : forall s c, c_pc (getc s c) <> Finished -> c < length (t_children s).
Proof.
  intros s c H. destruct (Nat.lt_ge_cases c (length (t_children s))) as [L|G]; auto.
  rewrite getc_ge in H by auto. simpl in H. congruence.
Qed.

Lemma buf_of_in : forall s c x b, buf_of s c = x :: b -> In (c, x :: b) (t_peers s).
Proof.
  intros s c x b H. unfold buf_of in H. fold (isc c) in H.
  destruct (find (isc c) (t_peers s)) as [[k v]|] eqn:F; [|discriminate].
  apply find_in in F. destruct F as [I E]. simpl in *; subst; auto.
Qed.

Lemma in_buf_of : forall s c buf, NoDup (map fst (t_peers s)) -> In (c, buf) (t_peers s) -> buf_of s c = buf.
Proof.
  intros s c buf ND I. unfold buf_of. fold (isc c). rewrite (in_find _ _ _ ND I). auto.
Qed.

Definition live_pc (p : pc) : bool := match p with WaitLock | Fetching _ => true | _ => false end.

(* the part of the invariant that does not mention the lock / fetcher count *)
Record Core (cfg : tconfig) (s : tstate) : Prop := {
  k_len : length (t_children s) = length (scripts cfg);
  k_src : t_fetched s ++ t_items s = src_items cfg;
  k_nodup : NoDup (map fst (t_peers s));
  k_reg : forall c, In c (map fst (t_peers s)) <-> c < length (scripts cfg) /\ c_dead (getc s c) = false;
  k_buf : forall c buf, In (c, buf) (t_peers s) -> c_out (getc s c) ++ buf = t_fetched s;
  k_pref : forall c, exists r, src_items cfg = c_out (getc s c) ++ r;
  k_live : forall c, live_pc (c_pc (getc s c)) = true -> c_dead (getc s c) = false;
  k_closed : t_closed s = match t_peers s, scripts cfg with [], _ :: _ => 1 | _, _ => 0 end
}.

Lemma core_ext : forall cfg s s', Core cfg s ->
  t_items s' = t_items s -> t_fetched s' = t_fetched s -> t_closed s' = t_closed s ->
  t_peers s' = t_peers s -> t_children s' = t_children s -> Core cfg s'.
Proof.
  intros cfg s s' H. destruct s, s'; simpl. intros; subst. destruct H; constructor; assumption.
Qed.

Lemma getc_setc_cases : forall s c ch c', c < length (t_children s) ->
  (c' = c /\ getc (setc s c ch) c' = ch) \/ (c' <> c /\ getc (setc s c ch) c' = getc s c').
Proof.
  intros s c ch c' L. destruct (Nat.eq_dec c' c) as [E|N].
  - left; subst; split; auto. apply getc_setc_eq; auto.
  - right; split; auto. apply getc_setc_neq; auto.
Qed.

Lemma core_setc : forall cfg s c ch, Core cfg s -> c < length (t_children s) ->
  c_dead ch = c_dead (getc s c) -> c_out ch = c_out (getc s c) ->
  (live_pc (c_pc ch) = true -> c_dead ch = false) -> Core cfg (setc s c ch).
Proof.
  intros cfg s c ch K L D O LV.
  pose proof (fun c' => getc_setc_cases s c ch c' L) as G.
  destruct K as [k1 k2 k3 k4 k5 k6 k7 k8]. constructor.
  - simpl. rewrite set_nth_length; auto.
  - exact k2.
  - exact k3.
  - intros c'. change (t_peers (setc s c ch)) with (t_peers s). rewrite k4.
    destruct (G c') as [[E R]|[E R]]; rewrite R; subst; try rewrite D; tauto.
  - intros c' buf I. change (t_peers (setc s c ch)) with (t_peers s) in I.
    change (t_fetched (setc s c ch)) with (t_fetched s).
    destruct (G c') as [[E R]|[E R]]; rewrite R; subst; try rewrite O; auto.
  - intros c'. destruct (G c') as [[E R]|[E R]]; rewrite R; subst; try rewrite O; auto.
  - intros c'. destruct (G c') as [[E R]|[E R]]; rewrite R; subst; auto.
  - exact k8.
Qed.

Lemma pop_yield_eq : forall s c x b, buf_of s c = x :: b ->
  pop_yield s c =
  setc (set_buf s c b) c
       (op_done (mkChild (c_script (getc s c)) (c_pc (getc s c)) (c_dead (getc s c)) (c_out (getc s c) ++ [x]) (c_stops (getc s c)))).
Proof. intros s c x b H. unfold pop_yield. rewrite H. reflexivity. Qed.

Lemma op_done_live : forall ch, live_pc (c_pc (op_done ch)) = false.
Proof. intros ch. unfold op_done; simpl. destruct (tl (c_script ch)); auto. Qed.

Lemma core_pop : forall cfg s c x b, Core cfg s -> buf_of s c = x :: b -> Core cfg (pop_yield s c).
Proof.
  intros cfg s c x b K B. rewrite (pop_yield_eq _ _ _ _ B).
  pose proof (buf_of_in _ _ _ _ B) as I.
  destruct K as [k1 k2 k3 k4 k5 k6 k7 k8].
  assert (Ic : In c (map fst (t_peers s))) by (apply in_map_iff; exists (c, x :: b); auto).
  pose proof (proj1 (k4 c) Ic) as [Lc Dc].
  assert (L : c < length (t_children (set_buf s c b))) by (simpl; lia).
  set (ch' := op_done _).
  pose proof (fun c' => getc_setc_cases (set_buf s c b) c ch' c' L) as G.
  change (t_peers (set_buf s c b)) with (map (upd c b) (t_peers s)) in *.
  assert (Gs : forall c', getc (set_buf s c b) c' = getc s c') by reflexivity.
  constructor.
  - simpl. rewrite set_nth_length; auto.
  - exact k2.
  - change (NoDup (map fst (map (upd c b) (t_peers s)))). rewrite map_fst_upd; auto.
  - intros c'. change (In c' (map fst (map (upd c b) (t_peers s))) <->
       c' < length (scripts cfg) /\ c_dead (getc (setc (set_buf s c b) c ch') c') = false).
    rewrite map_fst_upd, k4.
    destruct (G c') as [[E R]|[E R]]; rewrite R; subst; try tauto.
  - intros c' buf I'. change (In (c', buf) (map (upd c b) (t_peers s))) in I'.
    change (c_out (getc (setc (set_buf s c b) c ch') c') ++ buf = t_fetched s).
    apply in_upd in I'. destruct I' as [[E1 E2]|[N I']].
    + subst. rewrite getc_setc_eq by auto. unfold ch'; simpl.
      rewrite <- app_assoc. simpl. apply k5; auto.
    + rewrite getc_setc_neq by auto. apply k5; auto.
  - intros c'. destruct (G c') as [[E R]|[E R]]; rewrite R; subst; rewrite ?Gs; auto.
    unfold ch'; simpl. exists (b ++ t_items s). rewrite <- k2, <- (k5 _ _ I).
    rewrite <- !app_assoc. reflexivity.
  - intros c'. destruct (G c') as [[E R]|[E R]]; rewrite R; subst; rewrite ?Gs; auto.
  - change (t_closed s = match map (upd c b) (t_peers s), scripts cfg with [], _ :: _ => 1 | _, _ => 0 end).
    rewrite k8. destruct (t_peers s); reflexivity.
Qed.

Lemma core_kill : forall cfg s c ch, Core cfg s -> c < length (t_children s) ->
  c_dead (getc s c) = false -> c_dead ch = true -> c_out ch = c_out (getc s c) ->
  live_pc (c_pc ch) = false -> Core cfg (setc (cleanup s c) c ch).
Proof.
  intros cfg s c ch K L Dc D O LV.
  destruct K as [k1 k2 k3 k4 k5 k6 k7 k8].
  assert (L' : c < length (t_children (cleanup s c))) by exact L.
  pose proof (fun c' => getc_setc_cases (cleanup s c) c ch c' L') as G.
  assert (Gs : forall c', getc (cleanup s c) c' = getc s c') by reflexivity.
  assert (Ic : In c (map fst (t_peers s))) by (apply k4; split; auto; lia).
  constructor.
  - simpl. rewrite set_nth_length; auto.
  - exact k2.
  - change (NoDup (map fst (filter (keep c) (t_peers s)))). apply nodup_keep; auto.
  - intros c'. change (In c' (map fst (filter (keep c) (t_peers s))) <->
       c' < length (scripts cfg) /\ c_dead (getc (setc (cleanup s c) c ch) c') = false).
    rewrite in_map_fst_keep, k4.
    destruct (G c') as [[E R]|[E R]]; rewrite R; subst.
    + rewrite D. split; [tauto | intros [_ F]; discriminate].
    + rewrite Gs. tauto.
  - intros c' buf I'. change (In (c', buf) (filter (keep c) (t_peers s))) in I'.
    change (c_out (getc (setc (cleanup s c) c ch) c') ++ buf = t_fetched s).
    apply in_keep in I'. destruct I' as [I' N].
    rewrite getc_setc_neq by auto. apply k5; auto.
  - intros c'. destruct (G c') as [[E R]|[E R]]; rewrite R; subst; rewrite ?Gs; auto. rewrite O; auto.
  - intros c'. destruct (G c') as [[E R]|[E R]]; rewrite R; subst; rewrite ?Gs; auto.
    rewrite LV; discriminate.
  - change (match filter (keep c) (t_peers s) with [] => S (t_closed s) | _ :: _ => t_closed s end =
            match filter (keep c) (t_peers s), scripts cfg with [], _ :: _ => 1 | _, _ => 0 end).
    rewrite k8. destruct (t_peers s) as [|p ps]; [simpl in Ic; tauto|].
    destruct (scripts cfg) as [|sc scs]; [simpl in k1; lia|].
    destruct (filter (keep c) (p :: ps)); reflexivity.
Qed.

Definition pushed (s : tstate) (x : val) (r : list val) : tstate :=
  mkT r (t_fetched s ++ [x]) (t_closed s) (t_lock s) (map (push x) (t_peers s)) (t_children s) (t_fetchers s) (t_overlap s).

Lemma core_push : forall cfg s x r, Core cfg s -> t_items s = x :: r -> Core cfg (pushed s x r).
Proof.
  intros cfg s x r K E.
  destruct K as [k1 k2 k3 k4 k5 k6 k7 k8].
  assert (Gs : forall c', getc (pushed s x r) c' = getc s c') by reflexivity.
  constructor.
  - exact k1.
  - simpl. rewrite <- app_assoc. simpl. rewrite <- E; auto.
  - simpl. rewrite map_fst_push; auto.
  - intros c'. simpl t_peers. rewrite map_fst_push, Gs. apply k4.
  - intros c' buf I. simpl in I. apply in_push in I. destruct I as [b0 [E0 I]]. subst.
    rewrite Gs. simpl. rewrite app_assoc. f_equal. apply k5; auto.
  - intros c'. rewrite Gs; auto.
  - intros c'. rewrite Gs; auto.
  - simpl. rewrite k8. destruct (t_peers s); reflexivity.
Qed.

(* ------------------------------------------------------------------ *)
(* the lock / fetcher part of the invariant (needs the guard)           *)
(* ------------------------------------------------------------------ *)
Definition guarded (cfg : tconfig) : Prop := use_lock cfg = true \/ susp cfg = 0.

Record Lk (cfg : tconfig) (s : tstate) : Prop := {
  l_fl : forall c j, c_pc (getc s c) = Fetching j -> t_lock s = Some c;
  l_lf : forall c, t_lock s = Some c -> exists j, c_pc (getc s c) = Fetching j;
  l_cnt : t_fetchers s = match t_lock s with Some _ => 1 | None => 0 end;
  l_ov : t_overlap s = false;
  l_nolock : use_lock cfg = false -> t_lock s = None;
  l_fbuf : forall c j buf, c_pc (getc s c) = Fetching j -> In (c, buf) (t_peers s) -> buf = [];
  l_wl : forall c, c_pc (getc s c) = WaitLock -> use_lock cfg = true;
  l_susp : forall c j, c_pc (getc s c) = Fetching j -> susp cfg <> 0
}.

Definition Inv (cfg : tconfig) (s : tstate) : Prop := Core cfg s /\ Lk cfg s.

Lemma lk_quiet : forall cfg s,
  (forall c j, c_pc (getc s c) <> Fetching j) ->
  (forall c, c_pc (getc s c) = WaitLock -> use_lock cfg = true) ->
  t_lock s = None -> t_fetchers s = 0 -> t_overlap s = false -> Lk cfg s.
Proof.
  intros cfg s NF WL L F O. constructor; auto.
  - intros c j H. exfalso; eapply NF; eauto.
  - intros c H. congruence.
  - rewrite L; auto.
  - intros c j buf H. exfalso; eapply NF; eauto.
  - intros c j H. exfalso; eapply NF; eauto.
Qed.

(* a step of child c that neither starts nor ends in Fetching and leaves the lock alone *)
Lemma lk_other : forall cfg s s' c ch',
  Lk cfg s -> c < length (t_children s) ->
  t_lock s' = t_lock s -> t_fetchers s' = t_fetchers s -> t_overlap s' = t_overlap s ->
  t_children s' = set_nth c ch' (t_children s) ->
  (forall j, c_pc (getc s c) <> Fetching j) ->
  (forall j, c_pc ch' <> Fetching j) ->
  (c_pc ch' = WaitLock -> use_lock cfg = true) ->
  (forall c' buf, c' <> c -> In (c', buf) (t_peers s') -> In (c', buf) (t_peers s)) ->
  Lk cfg s'.
Proof.
  intros cfg s s' c ch' [l1 l2 l3 l4 l5 l6 l7 l8] L EL EF EO EC NF NF' WL PE.
  assert (G : forall c', (c' = c /\ getc s' c' = ch') \/ (c' <> c /\ getc s' c' = getc s c')).
  { intros c'. unfold getc. rewrite EC. destruct (Nat.eq_dec c' c) as [E|N].
    - left; subst; split; auto. apply nth_set_nth_eq; auto.
    - right; split; auto. apply nth_set_nth_neq; auto. }
  constructor.
  - intros c' j H. rewrite EL. destruct (G c') as [[E R]|[E R]]; rewrite R in H.
    + exfalso; eapply NF'; eauto.
    + eapply l1; eauto.
  - intros c' H. rewrite EL in H. destruct (G c') as [[E R]|[E R]]; rewrite R.
    + subst. destruct (l2 _ H) as [j Hj]. exfalso; eapply NF; eauto.
    + auto.
  - rewrite EF, EL; auto.
  - rewrite EO; auto.
  - rewrite EL; auto.
  - intros c' j buf H I. destruct (G c') as [[E R]|[E R]]; rewrite R in H.
    + exfalso; eapply NF'; eauto.
    + eapply l6; eauto.
  - intros c' H. destruct (G c') as [[E R]|[E R]]; rewrite R in H; auto. eapply l7; eauto.
  - intros c' j H. destruct (G c') as [[E R]|[E R]]; rewrite R in H.
    + exfalso; eapply NF'; eauto.
    + eapply l8; eauto.
Qed.

(* ---- release ---- *)
Lemma release_items : forall s c, t_items (release s c) = t_items s.
Proof. intros s c; unfold release; destruct (t_lock s); [destruct (Nat.eqb _ _)|]; reflexivity. Qed.
Lemma release_fetched : forall s c, t_fetched (release s c) = t_fetched s.
Proof. intros s c; unfold release; destruct (t_lock s); [destruct (Nat.eqb _ _)|]; reflexivity. Qed.
Lemma release_closed : forall s c, t_closed (release s c) = t_closed s.
Proof. intros s c; unfold release; destruct (t_lock s); [destruct (Nat.eqb _ _)|]; reflexivity. Qed.
Lemma release_peers : forall s c, t_peers (release s c) = t_peers s.
Proof. intros s c; unfold release; destruct (t_lock s); [destruct (Nat.eqb _ _)|]; reflexivity. Qed.
Lemma release_children : forall s c, t_children (release s c) = t_children s.
Proof. intros s c; unfold release; destruct (t_lock s); [destruct (Nat.eqb _ _)|]; reflexivity. Qed.
Lemma release_fetchers : forall s c, t_fetchers (release s c) = t_fetchers s.
Proof. intros s c; unfold release; destruct (t_lock s); [destruct (Nat.eqb _ _)|]; reflexivity. Qed.
Lemma release_overlap : forall s c, t_overlap (release s c) = t_overlap s.
Proof. intros s c; unfold release; destruct (t_lock s); [destruct (Nat.eqb _ _)|]; reflexivity. Qed.
Lemma release_lock : forall s c, t_lock s = None \/ t_lock s = Some c -> t_lock (release s c) = None.
Proof.
  intros s c [H|H]; unfold release; rewrite H; auto. rewrite Nat.eqb_refl; reflexivity.
Qed.
Lemma release_getc : forall s c c', getc (release s c) c' = getc s c'.
Proof. intros; unfold getc; rewrite release_children; auto. Qed.
Lemma release_buf_of : forall s c c', buf_of (release s c) c' = buf_of s c'.
Proof. intros; unfold buf_of; rewrite release_peers; auto. Qed.
Lemma core_release : forall cfg s c, Core cfg s -> Core cfg (release s c).
Proof.
  intros cfg s c K. eapply core_ext; eauto using release_items, release_fetched, release_closed, release_peers, release_children.
Qed.

Definition dec (s : tstate) : tstate :=
  mkT (t_items s) (t_fetched s) (t_closed s) (t_lock s) (t_peers s) (t_children s) (pred (t_fetchers s)) (t_overlap s).

Lemma complete_fetch_unfold : forall s c,
  complete_fetch s c =
  match t_items s with
  | x :: r => pop_yield (release (pushed (dec s) x r) c) c
  | [] => let s1 := cleanup (release (dec s) c) c in
          let ch := getc s1 c in
          setc s1 c (op_done (mkChild (c_script ch) (c_pc ch) true (c_out ch) (S (c_stops ch))))
  end.
Proof. reflexivity. Qed.

Lemma complete_fetch_cons : forall s c x r, t_items s = x :: r ->
  complete_fetch s c = pop_yield (release (pushed (dec s) x r) c) c.
Proof. intros s c x r H. rewrite complete_fetch_unfold. rewrite H. reflexivity. Qed.

Lemma complete_fetch_nil : forall s c, t_items s = [] ->
  complete_fetch s c =
  let s1 := cleanup (release (dec s) c) c in
  let ch := getc s1 c in
  setc s1 c (op_done (mkChild (c_script ch) (c_pc ch) true (c_out ch) (S (c_stops ch)))).
Proof. intros s c H. rewrite complete_fetch_unfold. rewrite H. reflexivity. Qed.

Lemma op_done_pc : forall ch j, c_pc (op_done ch) <> Fetching j.
Proof. intros ch j. unfold op_done; simpl. destruct (tl (c_script ch)); discriminate. Qed.
Lemma op_done_pc_wl : forall ch, c_pc (op_done ch) <> WaitLock.
Proof. intros ch. unfold op_done; simpl. destruct (tl (c_script ch)); discriminate. Qed.

Lemma pushed_buf_nonempty : forall s c x r, In c (map fst (t_peers s)) ->
  exists y b, buf_of (pushed s x r) c = y :: b.
Proof.
  intros s c x r I. unfold buf_of. simpl. fold (isc c). fold (push x). rewrite find_push.
  destruct (find (isc c) (t_peers s)) as [[k v]|] eqn:F.
  - simpl. destruct v; simpl; eauto.
  - apply find_none_notin in F. tauto.
Qed.

Lemma complete_fetch_inv : forall cfg s c,
  Core cfg s -> c < length (t_children s) -> c_dead (getc s c) = false ->
  (forall c' j, c_pc (getc s c') = Fetching j -> c' = c) ->
  (forall c', c_pc (getc s c') = WaitLock -> use_lock cfg = true) ->
  (t_lock s = None \/ t_lock s = Some c) -> t_fetchers s = 1 -> t_overlap s = false ->
  Inv cfg (complete_fetch s c).
Proof.
  intros cfg s c K L D NF WL LK F O.
  assert (Kd : Core cfg (dec s)) by (eapply core_ext; eauto).
  assert (Ic : In c (map fst (t_peers s))).
  { apply (k_reg _ _ K). split; auto. rewrite <- (k_len _ _ K); auto. }
  destruct (t_items s) as [|x r] eqn:IT.
  - rewrite (complete_fetch_nil _ _ IT). cbv zeta.
    set (s2 := release (dec s) c).
    assert (K2 : Core cfg s2) by (apply core_release; auto).
    assert (G2 : forall c', getc s2 c' = getc s c') by (intros; unfold s2; rewrite release_getc; reflexivity).
    assert (L2 : c < length (t_children s2)) by (unfold s2; rewrite release_children; auto).
    change (getc (cleanup s2 c) c) with (getc s2 c).
    set (ch' := op_done _).
    split.
    + apply core_kill; auto.
      * rewrite G2; auto.
      * apply op_done_live.
    + pose proof (fun c' => getc_setc_cases (cleanup s2 c) c ch' c' L2) as G.
      apply lk_quiet.
      * intros c' j H. destruct (G c') as [[E R]|[E R]]; rewrite R in H.
        -- eapply op_done_pc; eauto.
        -- change (getc (cleanup s2 c) c') with (getc s2 c') in H. rewrite G2 in H.
           apply NF in H. auto.
      * intros c' H. destruct (G c') as [[E R]|[E R]]; rewrite R in H.
        -- exfalso; eapply op_done_pc_wl; eauto.
        -- change (getc (cleanup s2 c) c') with (getc s2 c') in H. rewrite G2 in H. eauto.
      * change (t_lock s2 = None). unfold s2. apply release_lock. auto.
      * change (t_fetchers s2 = 0). unfold s2. rewrite release_fetchers. simpl. rewrite F; auto.
      * change (t_overlap s2 = false). unfold s2. rewrite release_overlap. auto.
  - rewrite (complete_fetch_cons _ _ _ _ IT).
    set (s2 := release (pushed (dec s) x r) c).
    assert (K2 : Core cfg s2) by (apply core_release; apply core_push; auto).
    assert (G2 : forall c', getc s2 c' = getc s c') by (intros; unfold s2; rewrite release_getc; reflexivity).
    assert (L2 : c < length (t_children s2)) by (unfold s2; rewrite release_children; auto).
    destruct (pushed_buf_nonempty (dec s) c x r Ic) as [y [b B]].
    assert (B2 : buf_of s2 c = y :: b) by (unfold s2; rewrite release_buf_of; auto).
    split.
    + eapply core_pop; eauto.
    + rewrite (pop_yield_eq _ _ _ _ B2). set (ch' := op_done _).
      assert (L3 : c < length (t_children (set_buf s2 c b))) by exact L2.
      pose proof (fun c' => getc_setc_cases (set_buf s2 c b) c ch' c' L3) as G.
      apply lk_quiet.
      * intros c' j H. destruct (G c') as [[E R]|[E R]]; rewrite R in H.
        -- eapply op_done_pc; eauto.
        -- change (getc (set_buf s2 c b) c') with (getc s2 c') in H. rewrite G2 in H.
           apply NF in H. auto.
      * intros c' H. destruct (G c') as [[E R]|[E R]]; rewrite R in H.
        -- exfalso; eapply op_done_pc_wl; eauto.
        -- change (getc (set_buf s2 c b) c') with (getc s2 c') in H. rewrite G2 in H. eauto.
      * change (t_lock s2 = None). unfold s2. apply release_lock. auto.
      * change (t_fetchers s2 = 0). unfold s2. rewrite release_fetchers. simpl. rewrite F; auto.
      * change (t_overlap s2 = false). unfold s2. rewrite release_overlap. auto.
Qed.

Lemma setc_setc : forall s c x y, setc (setc s c x) c y = setc s c y.
Proof. intros. unfold setc; simpl. rewrite set_nth_set_nth. reflexivity. Qed.

Lemma lk_no_fetch : forall cfg s, Lk cfg s -> t_lock s = None -> forall c j, c_pc (getc s c) <> Fetching j.
Proof. intros cfg s LK LO c j H. apply (l_fl _ _ LK) in H. congruence. Qed.

Lemma begin_fetch_inv : forall cfg s s' c,
  guarded cfg -> Inv cfg s -> t_lock s = None ->
  c < length (t_children s) -> c_dead (getc s c) = false -> buf_of s c = [] ->
  (s' = set_lock s (Some c) /\ use_lock cfg = true) \/ (s' = s /\ use_lock cfg = false) ->
  Inv cfg (begin_fetch cfg s' c).
Proof.
  intros cfg s s' c GD [K LK] LO L D B CASE.
  pose proof (lk_no_fetch _ _ LK LO) as NF.
  assert (F0 : t_fetchers s = 0) by (rewrite (l_cnt _ _ LK), LO; auto).
  pose proof (l_ov _ _ LK) as O0.
  unfold begin_fetch. destruct (susp cfg) as [|j] eqn:SU.
  - apply complete_fetch_inv.
    + destruct CASE as [[E _]|[E _]]; subst s'; eapply core_ext; eauto.
    + destruct CASE as [[E _]|[E _]]; subst s'; exact L.
    + destruct CASE as [[E _]|[E _]]; subst s'; exact D.
    + intros c' j H. exfalso. destruct CASE as [[E _]|[E _]]; subst s'; eapply NF; eauto.
    + intros c' H. destruct CASE as [[E _]|[E _]]; subst s'; eapply (l_wl _ _ LK); eauto.
    + destruct CASE as [[E _]|[E _]]; subst s'; simpl; auto.
    + destruct CASE as [[E _]|[E _]]; subst s'; simpl; rewrite F0; auto.
    + destruct CASE as [[E _]|[E _]]; subst s'; simpl; rewrite F0, O0; auto.
  - destruct CASE as [[E UL]|[E UL]]; [|destruct GD; congruence]. subst s'.
    set (s1 := mkT _ _ _ _ _ _ _ _).
    assert (K1 : Core cfg s1) by (eapply core_ext; eauto).
    unfold set_pc. change (getc s1 c) with (getc s c). set (ch' := mkChild _ _ _ _ _).
    assert (L1 : c < length (t_children s1)) by exact L.
    split.
    + apply core_setc; auto.
    + pose proof (fun c' => getc_setc_cases s1 c ch' c' L1) as G.
      constructor.
      * intros c' j' H. destruct (G c') as [[E R]|[E R]]; rewrite R in H; subst; auto.
        exfalso; eapply NF; eauto.
      * intros c' H. simpl in H. inversion H; subst c'. rewrite getc_setc_eq by auto. simpl; eauto.
      * simpl. rewrite F0; auto.
      * simpl. rewrite F0, O0; auto.
      * intros; congruence.
      * intros c' j' buf H I. destruct (G c') as [[E R]|[E R]]; rewrite R in H; subst.
        -- change (In (c, buf) (t_peers s)) in I. rewrite <- B. symmetry. apply in_buf_of; auto.
           apply (k_nodup _ _ K).
        -- exfalso; eapply NF; eauto.
      * intros; auto.
      * intros; rewrite SU; discriminate.
Qed.

Lemma lk_refetch : forall cfg s c j j', Lk cfg s -> c_pc (getc s c) = Fetching j ->
  Lk cfg (set_pc s c (Fetching j')).
Proof.
  intros cfg s c j j' [l1 l2 l3 l4 l5 l6 l7 l8] PC.
  assert (L : c < length (t_children s)) by (apply pc_lt; congruence).
  unfold set_pc. set (ch' := mkChild _ _ _ _ _).
  pose proof (fun c' => getc_setc_cases s c ch' c' L) as G.
  constructor; auto.
  - intros c' j0 H. destruct (G c') as [[E R]|[E R]]; rewrite R in H; subst; eauto.
  - intros c' H. destruct (G c') as [[E R]|[E R]]; rewrite R; subst; simpl; eauto.
  - intros c' j0 buf H I. destruct (G c') as [[E R]|[E R]]; rewrite R in H; subst; eauto.
  - intros c' H. destruct (G c') as [[E R]|[E R]]; rewrite R in H; subst; eauto. discriminate.
  - intros c' j0 H. destruct (G c') as [[E R]|[E R]]; rewrite R in H; subst; eauto.
Qed.

Ltac lk_oth s c LK L :=
  eapply (lk_other _ s _ c);
  [ exact LK | exact L | first [reflexivity | simpl; congruence] | reflexivity | reflexivity | reflexivity
  | intros; congruence | | | try (intros; assumption) ].

Theorem step_inv : forall cfg s a, guarded cfg -> Inv cfg s -> Inv cfg (tstep cfg s a).
Proof.
  intros cfg s a GD [K LK]. assert (IV : Inv cfg s) by (split; auto). unfold tstep.
  destruct (enabled s a) eqn:EN; simpl negb; cbv iota; [|split; auto].
  destruct a as [c|c]; simpl in EN.
  - (* Run c *)
    destruct (c_pc (getc s c)) as [| |j|] eqn:PC; try discriminate.
    + (* Idle *)
      assert (L : c < length (t_children s)) by (apply pc_lt; congruence).
      assert (NFc : forall j, c_pc (getc s c) <> Fetching j) by (intros; congruence).
      destruct (c_script (getc s c)) as [|[|] rest] eqn:SC.
      * unfold set_pc. split.
        -- apply core_setc; auto. simpl; discriminate.
        -- lk_oth s c LK L; simpl; try discriminate; auto.
      * destruct (c_dead (getc s c)) eqn:D.
        -- split.
           ++ apply core_setc; auto. rewrite op_done_live; discriminate.
           ++ lk_oth s c LK L.
              ** apply op_done_pc.
              ** intros H; exfalso; eapply op_done_pc_wl; eauto.
        -- unfold advance. destruct (buf_of s c) as [|x b] eqn:B.
           ++ destruct (use_lock cfg) eqn:UL.
              ** destruct (t_lock s) as [h|] eqn:LO.
                 --- unfold set_pc. split.
                     +++ apply core_setc; auto.
                     +++ lk_oth s c LK L; simpl; try discriminate; auto.
                 --- apply (begin_fetch_inv cfg s _ c GD IV LO L D B). left; split; auto.
              ** apply (begin_fetch_inv cfg s _ c GD IV (l_nolock _ _ LK UL) L D B). right; split; auto.
           ++ split.
              ** eapply core_pop; eauto.
              ** rewrite (pop_yield_eq _ _ _ _ B).
                 lk_oth s c LK L.
                 --- apply op_done_pc.
                 --- intros H; exfalso; eapply op_done_pc_wl; eauto.
                 --- intros c' buf N I. change (In (c', buf) (map (upd c b) (t_peers s))) in I.
                     apply in_upd in I. destruct I as [[E _]|[_ I]]; [congruence|auto].
      * unfold do_close. destruct (c_dead (getc s c)) eqn:D.
        -- split.
           ++ apply core_setc; auto. rewrite op_done_live; discriminate.
           ++ lk_oth s c LK L.
              ** apply op_done_pc.
              ** intros H; exfalso; eapply op_done_pc_wl; eauto.
        -- rewrite getc_setc_eq by exact L. rewrite setc_setc.
           change (getc (cleanup s c) c) with (getc s c). split.
           ++ apply core_kill; auto. apply op_done_live.
           ++ lk_oth s c LK L.
              ** apply op_done_pc.
              ** intros H; exfalso; eapply op_done_pc_wl; eauto.
              ** intros c' buf N I. change (In (c', buf) (filter (keep c) (t_peers s))) in I.
                 apply in_keep in I. tauto.
    + (* WaitLock *)
      assert (L : c < length (t_children s)) by (apply pc_lt; congruence).
      assert (NFc : forall j, c_pc (getc s c) <> Fetching j) by (intros; congruence).
      destruct (t_lock s) as [h|] eqn:LO; try discriminate.
      assert (D : c_dead (getc s c) = false) by (apply (k_live _ _ K); rewrite PC; auto).
      change (buf_of (set_lock s (Some c)) c) with (buf_of s c).
      destruct (buf_of s c) as [|x b] eqn:B.
      * apply (begin_fetch_inv cfg s _ c GD IV LO L D B). left; split; auto. apply (l_wl _ _ LK c); auto.
      * set (s2 := set_lock (set_lock s (Some c)) None).
        assert (K2 : Core cfg s2) by (eapply core_ext; eauto).
        assert (B2 : buf_of s2 c = x :: b) by exact B.
        split.
        -- eapply core_pop; eauto.
        -- rewrite (pop_yield_eq _ _ _ _ B2).
           lk_oth s c LK L.
           ++ apply op_done_pc.
           ++ intros H; exfalso; eapply op_done_pc_wl; eauto.
           ++ intros c' buf N I. change (In (c', buf) (map (upd c b) (t_peers s))) in I.
              apply in_upd in I. destruct I as [[E _]|[_ I]]; [congruence|auto].
    + (* Fetching *)
      assert (L : c < length (t_children s)) by (apply pc_lt; congruence).
      assert (D : c_dead (getc s c) = false) by (apply (k_live _ _ K); rewrite PC; auto).
      pose proof (l_fl _ _ LK _ _ PC) as LO.
      assert (CF : Inv cfg (complete_fetch s c)).
      { apply complete_fetch_inv; auto.
        - intros c' j' H. apply (l_fl _ _ LK) in H. congruence.
        - apply (l_wl _ _ LK).
        - rewrite (l_cnt _ _ LK), LO; auto.
        - apply (l_ov _ _ LK). }
      destruct j as [|[|j]]; auto.
      split.
      * unfold set_pc. apply core_setc; auto.
      * eapply lk_refetch; eauto.
  - (* Cancel c *)
    destruct (c_pc (getc s c)) as [| |j|] eqn:PC; try discriminate.
    + (* Idle *)
      assert (L : c < length (t_children s)) by (apply pc_lt; congruence).
      assert (NFc : forall j, c_pc (getc s c) <> Fetching j) by (intros; congruence).
      unfold do_close. destruct (c_dead (getc s c)) eqn:D.
      * split.
        -- apply core_setc; auto.
        -- lk_oth s c LK L; simpl; try discriminate; auto.
      * rewrite getc_setc_eq by exact L. rewrite setc_setc.
        change (getc (cleanup s c) c) with (getc s c). split.
        -- apply core_kill; auto.
        -- lk_oth s c LK L; simpl; try discriminate.
           intros c' buf N I. change (In (c', buf) (filter (keep c) (t_peers s))) in I.
           apply in_keep in I. tauto.
    + (* WaitLock *)
      assert (L : c < length (t_children s)) by (apply pc_lt; congruence).
      assert (NFc : forall j, c_pc (getc s c) <> Fetching j) by (intros; congruence).
      assert (D : c_dead (getc s c) = false) by (apply (k_live _ _ K); rewrite PC; auto).
      change (getc (cleanup s c) c) with (getc s c). split.
      * apply core_kill; auto.
      * lk_oth s c LK L; simpl; try discriminate.
        intros c' buf N I. change (In (c', buf) (filter (keep c) (t_peers s))) in I.
        apply in_keep in I. tauto.
    + (* Fetching *)
      assert (L : c < length (t_children s)) by (apply pc_lt; congruence).
      assert (D : c_dead (getc s c) = false) by (apply (k_live _ _ K); rewrite PC; auto).
      pose proof (l_fl _ _ LK _ _ PC) as LO.
      fold (dec s). set (s2 := release (dec s) c).
      assert (K2 : Core cfg s2) by (apply core_release; eapply core_ext; eauto).
      assert (G2 : forall c', getc s2 c' = getc s c') by (intros; unfold s2; rewrite release_getc; reflexivity).
      assert (L2 : c < length (t_children s2)) by (unfold s2; rewrite release_children; auto).
      change (getc (cleanup s2 c) c) with (getc s2 c).
      set (ch' := mkChild _ _ _ _ _).
      split.
      * apply core_kill; auto. rewrite G2; auto.
      * pose proof (fun c' => getc_setc_cases (cleanup s2 c) c ch' c' L2) as G.
        apply lk_quiet.
        -- intros c' j' H. destruct (G c') as [[E R]|[E R]]; rewrite R in H; [discriminate|].
           change (getc (cleanup s2 c) c') with (getc s2 c') in H. rewrite G2 in H.
           apply (l_fl _ _ LK) in H. congruence.
        -- intros c' H. destruct (G c') as [[E R]|[E R]]; rewrite R in H; [discriminate|].
           change (getc (cleanup s2 c) c') with (getc s2 c') in H. rewrite G2 in H.
           eapply (l_wl _ _ LK); eauto.
        -- change (t_lock s2 = None). unfold s2. apply release_lock. auto.
        -- change (t_fetchers s2 = 0). unfold s2. rewrite release_fetchers. simpl.
           rewrite (l_cnt _ _ LK), LO; auto.
        -- change (t_overlap s2 = false). unfold s2. rewrite release_overlap. apply (l_ov _ _ LK).
Qed.

(* ------------------------------------------------------------------ *)
(* initial state and reachability                                       *)
(* ------------------------------------------------------------------ *)
Definition init_child (sc : list cop) : child :=
  mkChild sc (match sc with [] => Finished | _ => Idle end) false [] 0.

Lemma init_children : forall l c,
  let ch := nth c (map init_child l) dflt_child in
  c_out ch = [] /\ c_stops ch = 0 /\ live_pc (c_pc ch) = false /\
  (c < length l -> c_dead ch = false) /\ c_script ch = nth c l [] /\
  (forall j, c_pc ch <> Fetching j) /\ c_pc ch <> WaitLock.
Proof.
  induction l as [|sc t IH]; intros c.
  - destruct c; simpl; repeat split; auto; try discriminate; try lia.
  - destruct c as [|c].
    + simpl. repeat split; auto; destruct sc; simpl; auto; discriminate.
    + simpl. destruct (IH c) as [A [B [C [D [E [F G]]]]]]. repeat split; auto. intros; apply D; lia.
Qed.

Lemma init_getc : forall cfg c, getc (t_init cfg) c = nth c (map init_child (scripts cfg)) dflt_child.
Proof. reflexivity. Qed.

Lemma inv_init : forall cfg, Inv cfg (t_init cfg).
Proof.
  intros cfg. pose proof (init_children (scripts cfg)) as IC. split.
  - constructor.
    + simpl. apply map_length.
    + reflexivity.
    + simpl. rewrite map_map. simpl. rewrite map_id. apply seq_NoDup.
    + intros c. simpl t_peers. rewrite map_map. simpl. rewrite map_id. rewrite in_seq.
      rewrite init_getc. destruct (IC c) as [A [B [C [D _]]]]. split.
      * intros [_ H]. simpl in H. split; auto.
      * intros [H _]. lia.
    + intros c buf I. simpl in I. apply in_map_iff in I. destruct I as [i [E _]]. inversion E; subst.
      rewrite init_getc. destruct (IC c) as [A _]. rewrite A. reflexivity.
    + intros c. rewrite init_getc. destruct (IC c) as [A _]. rewrite A. exists (src_items cfg). reflexivity.
    + intros c H. rewrite init_getc in H. destruct (IC c) as [_ [_ [C _]]]. congruence.
    + simpl. destruct (scripts cfg); reflexivity.
  - apply lk_quiet; auto.
    + intros c j. rewrite init_getc. destruct (IC c) as [_ [_ [_ [_ [_ [F _]]]]]]. apply F.
    + intros c H. rewrite init_getc in H. destruct (IC c) as [_ [_ [_ [_ [_ [_ G]]]]]]. congruence.
Qed.

Definition run (cfg : tconfig) (s : tstate) (sched : list action) : tstate := snd (trun cfg s sched).

Lemma run_cons : forall cfg s a r, run cfg s (a :: r) = run cfg (tstep cfg s a) r.
Proof. intros. unfold run. simpl. destruct (trun cfg (tstep cfg s a) r). reflexivity. Qed.

Lemma run_nil : forall cfg s, run cfg s [] = s.
Proof. reflexivity. Qed.

Lemma texec_run : forall cfg sched, texec cfg sched = run cfg (t_init cfg) sched.
Proof. reflexivity. Qed.

Lemma run_inv : forall cfg sched s, guarded cfg -> Inv cfg s -> Inv cfg (run cfg s sched).
Proof.
  intros cfg sched; induction sched as [|a r IH]; intros s G I.
  - exact I.
  - rewrite run_cons. apply IH; auto. apply step_inv; auto.
Qed.

Theorem reach_inv : forall cfg sched, guarded cfg -> Inv cfg (texec cfg sched).
Proof. intros. rewrite texec_run. apply run_inv; auto. apply inv_init. Qed.

(* ------------------------------------------------------------------ *)
(* 1. every live child has yielded or buffered exactly what was fetched *)
(* ------------------------------------------------------------------ *)
Theorem tee_inv : forall cfg sched, guarded cfg ->
  let s := texec cfg sched in
  t_fetched s ++ t_items s = src_items cfg /\
  (forall c buf, In (c, buf) (t_peers s) -> c_out (getc s c) ++ buf = t_fetched s) /\
  (forall c, In c (map fst (t_peers s)) <-> c < length (scripts cfg) /\ c_dead (getc s c) = false) /\
  NoDup (map fst (t_peers s)).
Proof.
  intros cfg sched G s. destruct (reach_inv cfg sched G) as [K _]. fold s in K.
  destruct K. split; [|split; [|split]]; auto.
Qed.

(* 2. every child, dead or alive, cancelled or not, has received a prefix of the source *)
Theorem tee_prefix : forall cfg sched c, guarded cfg ->
  let s := texec cfg sched in exists r, src_items cfg = c_out (getc s c) ++ r.
Proof.
  intros cfg sched c G s. destruct (reach_inv cfg sched G) as [K _]. apply (k_pref _ _ K).
Qed.

(* 4. mutual exclusion on the source and lock discipline *)
Theorem tee_mutex : forall cfg sched, guarded cfg ->
  let s := texec cfg sched in
  t_overlap s = false /\ t_fetchers s <= 1 /\
  (susp cfg = 0 -> t_fetchers s = 0) /\
  (forall c, t_lock s = Some c -> exists j, c_pc (getc s c) = Fetching j) /\
  (use_lock cfg = false -> t_lock s = None).
Proof.
  intros cfg sched G s. destruct (reach_inv cfg sched G) as [_ LK]. fold s in LK.
  destruct LK as [l1 l2 l3 l4 l5 l6 l7 l8]. repeat split; auto.
  - rewrite l3. destruct (t_lock s); lia.
  - intros SU. rewrite l3. destruct (t_lock s) as [h|] eqn:LO; auto.
    destruct (l2 _ eq_refl) as [j Hj]. exfalso. eapply l8; eauto.
Qed.

(* 5. the source is closed exactly when the last child is done: never before, never twice *)
Theorem tee_source_closed : forall cfg sched, guarded cfg ->
  let s := texec cfg sched in
  t_closed s <= 1 /\ (scripts cfg <> [] -> (t_closed s = 1 <-> t_peers s = [])).
Proof.
  intros cfg sched G s. destruct (reach_inv cfg sched G) as [K _]. fold s in K.
  pose proof (k_closed _ _ K) as C. split.
  - rewrite C. destruct (t_peers s); destruct (scripts cfg); lia.
  - intros NE. rewrite C. destruct (t_peers s); destruct (scripts cfg); try congruence; split; intros; try discriminate; auto.
Qed.

(* 6. the documented precondition (a lock, or a source that never suspends) is necessary *)
Theorem tee_needs_guard_refuted :
  exists cfg sched, use_lock cfg = false /\ susp cfg = 1 /\ t_overlap (texec cfg sched) = true.
Proof.
  exists (mkCfg false 1 [[CNext]; [CNext]] [VInt 1; VInt 2]), [Run 0; Run 1].
  vm_compute. repeat split.
Qed.

(* 7. no deadlock *)
Theorem tee_no_deadlock : forall cfg sched, guarded cfg ->
  let s := texec cfg sched in
  (exists c, c_pc (getc s c) <> Finished) -> exists c, enabled s (Run c) = true.
Proof.
  intros cfg sched G s [c NF]. destruct (reach_inv cfg sched G) as [_ LK]. fold s in LK.
  destruct (c_pc (getc s c)) as [| |j|] eqn:PC; try congruence.
  - exists c. simpl. rewrite PC. reflexivity.
  - destruct (t_lock s) as [h|] eqn:LO.
    + destruct (l_lf _ _ LK _ LO) as [j Hj]. exists h. simpl. rewrite Hj. reflexivity.
    + exists c. simpl. rewrite PC, LO. reflexivity.
  - exists c. simpl. rewrite PC. reflexivity.
Qed.

(* ------------------------------------------------------------------ *)
(* 3. completeness for a child that only calls __anext__                *)
(* ------------------------------------------------------------------ *)
(* frame: actions of task d leave the record of child c <> d alone *)
Lemma fr_set_pc : forall s d p c, d <> c -> getc (set_pc s d p) c = getc s c.
Proof. intros. unfold set_pc. apply getc_setc_neq; auto. Qed.

Lemma fr_pop : forall s d c, d <> c -> getc (pop_yield s d) c = getc s c.
Proof.
  intros s d c N. unfold pop_yield. destruct (buf_of s d); auto.
  rewrite getc_setc_neq by auto. reflexivity.
Qed.

Lemma fr_complete : forall s d c, d <> c -> getc (complete_fetch s d) c = getc s c.
Proof.
  intros s d c N. rewrite complete_fetch_unfold. destruct (t_items s).
  - cbv zeta. rewrite getc_setc_neq by auto.
    change (getc (cleanup (release (dec s) d) d) c) with (getc (release (dec s) d) c).
    rewrite release_getc. reflexivity.
  - rewrite fr_pop by auto. rewrite release_getc. reflexivity.
Qed.

Lemma fr_begin : forall cfg s d c, d <> c -> getc (begin_fetch cfg s d) c = getc s c.
Proof.
  intros cfg s d c N. unfold begin_fetch. destruct (susp cfg).
  - rewrite fr_complete by auto. reflexivity.
  - rewrite fr_set_pc by auto. reflexivity.
Qed.

Lemma fr_advance : forall cfg s d c, d <> c -> getc (advance cfg s d) c = getc s c.
Proof.
  intros cfg s d c N. unfold advance. destruct (buf_of s d).
  - destruct (use_lock cfg); [destruct (t_lock s)|].
    + apply fr_set_pc; auto.
    + rewrite fr_begin by auto. reflexivity.
    + apply fr_begin; auto.
  - apply fr_pop; auto.
Qed.

Lemma fr_do_close : forall s d c, d <> c -> getc (do_close s d) c = getc s c.
Proof.
  intros s d c N. unfold do_close. destruct (c_dead (getc s d)); auto.
  rewrite getc_setc_neq by auto. reflexivity.
Qed.

Lemma fr_step_run : forall cfg s d c, d <> c -> getc (tstep cfg s (Run d)) c = getc s c.
Proof.
  intros cfg s d c N. unfold tstep. destruct (negb (enabled s (Run d))); auto.
  destruct (c_pc (getc s d)) as [| |j|]; auto.
  - destruct (c_script (getc s d)) as [|[|] rest].
    + apply fr_set_pc; auto.
    + destruct (c_dead (getc s d)); [apply getc_setc_neq; auto | apply fr_advance; auto].
    + rewrite getc_setc_neq by auto. apply fr_do_close; auto.
  - destruct (buf_of (set_lock s (Some d)) d).
    + rewrite fr_begin by auto. reflexivity.
    + rewrite fr_pop by auto. reflexivity.
  - destruct j as [|[|j]]; try (apply fr_complete; auto). apply fr_set_pc; auto.
Qed.

Lemma fr_step_cancel : forall cfg s d c, d <> c -> getc (tstep cfg s (Cancel d)) c = getc s c.
Proof.
  intros cfg s d c N. unfold tstep. destruct (negb (enabled s (Cancel d))); auto.
  destruct (c_pc (getc s d)) as [| |j|]; auto.
  - rewrite getc_setc_neq by auto. apply fr_do_close; auto.
  - rewrite getc_setc_neq by auto. reflexivity.
  - rewrite getc_setc_neq by auto. fold (dec s).
    change (getc (cleanup (release (dec s) d) d) c) with (getc (release (dec s) d) c).
    rewrite release_getc. reflexivity.
Qed.

Definition only_next (l : list cop) : Prop := Forall (fun o => o = CNext) l.

Record CompC (cfg : tconfig) (ch : child) : Prop := {
  cc_script : only_next (c_script ch);
  cc_dead : c_dead ch = true -> c_out ch = src_items cfg;
  cc_stops : c_stops ch > 0 -> c_dead ch = true
}.

Lemma only_next_tl : forall l, only_next l -> only_next (tl l).
Proof. intros l H. destruct l; simpl; auto. inversion H; auto. Qed.

Lemma compc_stay : forall cfg ch ch', CompC cfg ch ->
  (only_next (c_script ch) -> only_next (c_script ch')) -> c_dead ch' = c_dead ch ->
  (c_dead ch = true -> c_out ch' = c_out ch) -> c_stops ch' = c_stops ch -> CompC cfg ch'.
Proof.
  intros cfg ch ch' [A B C] S D O T. constructor.
  - auto.
  - rewrite D. intros H. rewrite O; auto.
  - rewrite D, T. auto.
Qed.

Lemma compc_die : forall cfg ch', only_next (c_script ch') -> c_dead ch' = true ->
  c_out ch' = src_items cfg -> CompC cfg ch'.
Proof. intros cfg ch' S D O. constructor; auto. Qed.

Lemma comp_pop : forall cfg s c, c < length (t_children s) -> c_dead (getc s c) = false ->
  CompC cfg (getc s c) -> CompC cfg (getc (pop_yield s c) c).
Proof.
  intros cfg s c L D H. unfold pop_yield. destruct (buf_of s c) as [|x b]; auto.
  rewrite getc_setc_eq by exact L. change (getc (set_buf s c b) c) with (getc s c).
  eapply compc_stay; eauto; simpl; auto.
  - apply only_next_tl.
  - congruence.
Qed.

Lemma comp_complete : forall cfg s c, Core cfg s -> c < length (t_children s) ->
  c_dead (getc s c) = false -> (forall buf, In (c, buf) (t_peers s) -> buf = []) ->
  CompC cfg (getc s c) -> CompC cfg (getc (complete_fetch s c) c).
Proof.
  intros cfg s c K L D BE H.
  destruct (t_items s) as [|x r] eqn:IT.
  - rewrite (complete_fetch_nil _ _ IT). cbv zeta.
    rewrite getc_setc_eq by (simpl; rewrite release_children; exact L).
    change (getc (cleanup (release (dec s) c) c) c) with (getc (release (dec s) c) c).
    rewrite release_getc. change (getc (dec s) c) with (getc s c).
    apply compc_die; simpl; auto.
    + apply only_next_tl. apply (cc_script _ _ H).
    + assert (Ic : In c (map fst (t_peers s))).
      { apply (k_reg _ _ K). split; auto. rewrite <- (k_len _ _ K); auto. }
      apply in_map_iff in Ic. destruct Ic as [[k buf] [E I]]. simpl in E; subst k.
      pose proof (BE _ I) as E0. subst buf.
      pose proof (k_buf _ _ K _ _ I) as E1. rewrite app_nil_r in E1.
      pose proof (k_src _ _ K) as E2. rewrite IT, app_nil_r in E2. congruence.
  - rewrite (complete_fetch_cons _ _ _ _ IT).
    apply comp_pop.
    + rewrite release_children. exact L.
    + rewrite release_getc. exact D.
    + rewrite release_getc. exact H.
Qed.

Lemma comp_begin : forall cfg s c, Core cfg s -> c < length (t_children s) ->
  c_dead (getc s c) = false -> (forall buf, In (c, buf) (t_peers s) -> buf = []) ->
  CompC cfg (getc s c) -> CompC cfg (getc (begin_fetch cfg s c) c).
Proof.
  intros cfg s c K L D BE H. unfold begin_fetch. destruct (susp cfg).
  - apply comp_complete; auto. eapply core_ext; eauto.
  - unfold set_pc. rewrite getc_setc_eq by exact L.
    apply (compc_stay cfg (getc s c)); auto.
Qed.

Lemma buf_empty_all : forall cfg s c, Core cfg s -> buf_of s c = [] ->
  forall buf, In (c, buf) (t_peers s) -> buf = [].
Proof.
  intros cfg s c K B buf I. rewrite <- B. symmetry. apply in_buf_of; auto. apply (k_nodup _ _ K).
Qed.

Lemma comp_step_run : forall cfg s c, Inv cfg s -> CompC cfg (getc s c) ->
  CompC cfg (getc (tstep cfg s (Run c)) c).
Proof.
  intros cfg s c [K LK] H. unfold tstep. destruct (negb (enabled s (Run c))); auto.
  destruct (c_pc (getc s c)) as [| |j|] eqn:PC; auto.
  - assert (L : c < length (t_children s)) by (apply pc_lt; congruence).
    destruct (c_script (getc s c)) as [|[|] rest] eqn:SC.
    + unfold set_pc. rewrite getc_setc_eq by exact L. apply (compc_stay cfg (getc s c)); auto.
    + destruct (c_dead (getc s c)) eqn:D.
      * rewrite getc_setc_eq by exact L. apply compc_die; simpl; auto.
        -- pose proof (cc_script _ _ H) as S. rewrite SC in S. inversion S; auto.
        -- apply (cc_dead _ _ H); auto.
      * unfold advance. destruct (buf_of s c) as [|x b] eqn:B.
        -- pose proof (buf_empty_all _ _ _ K B) as BE.
           destruct (use_lock cfg); [destruct (t_lock s)|].
           ++ unfold set_pc. rewrite getc_setc_eq by exact L. apply (compc_stay cfg (getc s c)); auto.
           ++ apply comp_begin; auto. eapply core_ext; eauto.
           ++ apply comp_begin; auto.
        -- apply comp_pop; auto.
    + pose proof (cc_script _ _ H) as S. rewrite SC in S. inversion S; discriminate.
  - assert (L : c < length (t_children s)) by (apply pc_lt; congruence).
    assert (D : c_dead (getc s c) = false) by (apply (k_live _ _ K); rewrite PC; auto).
    change (buf_of (set_lock s (Some c)) c) with (buf_of s c).
    destruct (buf_of s c) as [|x b] eqn:B.
    + pose proof (buf_empty_all _ _ _ K B) as BE.
      apply comp_begin; auto. eapply core_ext; eauto.
    + apply comp_pop; auto.
  - assert (L : c < length (t_children s)) by (apply pc_lt; congruence).
    assert (D : c_dead (getc s c) = false) by (apply (k_live _ _ K); rewrite PC; auto).
    assert (CF : CompC cfg (getc (complete_fetch s c) c)).
    { apply comp_complete; auto. intros buf I. eapply (l_fbuf _ _ LK); eauto. }
    destruct j as [|[|j]]; auto.
    unfold set_pc. rewrite getc_setc_eq by exact L. apply (compc_stay cfg (getc s c)); auto.
Qed.

Lemma comp_run : forall cfg c sched s, guarded cfg -> Inv cfg s -> CompC cfg (getc s c) ->
  ~ In (Cancel c) sched -> CompC cfg (getc (run cfg s sched) c).
Proof.
  intros cfg c sched; induction sched as [|a r IH]; intros s G I H NC.
  - exact H.
  - rewrite run_cons. apply IH; auto.
    + apply step_inv; auto.
    + destruct a as [d|d]; destruct (Nat.eq_dec d c) as [E|N].
      * subst. apply comp_step_run; auto.
      * rewrite fr_step_run; auto.
      * subst. exfalso. apply NC. left; auto.
      * rewrite fr_step_cancel; auto.
    + intros X. apply NC. right; auto.
Qed.

Theorem tee_complete : forall cfg sched c, guarded cfg ->
  only_next (nth c (scripts cfg) []) -> ~ In (Cancel c) sched ->
  let s := texec cfg sched in
  c_stops (getc s c) > 0 -> c_out (getc s c) = src_items cfg.
Proof.
  intros cfg sched c G ON NC s ST.
  pose proof (reach_inv cfg sched G) as [K _]. fold s in K.
  destruct (Nat.lt_ge_cases c (length (scripts cfg))) as [L|GE].
  - assert (H : CompC cfg (getc s c)).
    { unfold s. rewrite texec_run. apply comp_run; auto. apply inv_init.
      rewrite init_getc. destruct (init_children (scripts cfg) c) as [A [B [C [D [E _]]]]].
      constructor.
      - rewrite E; auto.
      - rewrite D by auto. discriminate.
      - rewrite B. lia. }
    apply (cc_dead _ _ H). apply (cc_stops _ _ H). auto.
  - rewrite getc_ge in ST by (rewrite (k_len _ _ K); auto). simpl in ST. lia.
Qed.

(* ------------------------------------------------------------------ *)
(* the hypotheses are satisfiable: 3 children over a source that suspends twice per item, with the
   lock; child 1 closes early, child 2 is cancelled while it is inside the source's __anext__,
   child 0 only calls __anext__ and is never cancelled *)
(* ------------------------------------------------------------------ *)
Definition ex_cfg : tconfig :=
  mkCfg true 2 [[CNext; CNext; CNext]; [CNext; CClose]; [CNext; CNext]] [VInt 1; VInt 2].
Definition ex_sched : list action :=
  [Run 0; Run 1; Run 0; Run 0; Run 1; Run 1; Run 2; Run 2; Cancel 2;
   Run 0; Run 0; Run 0; Run 0; Run 0; Run 0].

Example tee_example :
  guarded ex_cfg /\ only_next (nth 0 (scripts ex_cfg) []) /\ ~ In (Cancel 0) ex_sched /\
  (* child 2 is cancelled while fetching, holding the lock; the cancellation releases it *)
  c_pc (getc (texec ex_cfg (firstn 8 ex_sched)) 2) = Fetching 2 /\
  t_lock (texec ex_cfg (firstn 8 ex_sched)) = Some 2 /\
  t_lock (texec ex_cfg (firstn 9 ex_sched)) = None /\
  let s := texec ex_cfg ex_sched in
  c_stops (getc s 0) = 1 /\
  map c_out (t_children s) = [[VInt 1; VInt 2]; [VInt 1]; [VInt 1]] /\
  map c_dead (t_children s) = [true; true; true] /\
  t_peers s = [] /\ t_closed s = 1 /\ t_fetched s = [VInt 1; VInt 2] /\ t_overlap s = false.
Proof.
  split; [left; reflexivity|]. split; [repeat constructor|].
  split; [simpl; intuition discriminate|].
  vm_compute. repeat split.
Qed.

Example tee_example_complete :
  c_out (getc (texec ex_cfg ex_sched) 0) = src_items ex_cfg.
Proof.
  destruct tee_example as [G [ON [NC _]]].
  apply tee_complete; auto.
Qed.

(* extra: without the guard the model also loses an item (child 1 is told the end although it never
   yielded the item that child 0 fetched while child 1 was inside the source) *)
Theorem tee_unguarded_loses_item :
  exists cfg sched, use_lock cfg = false /\ susp cfg = 1 /\ ~ In (Cancel 1) sched /\
    only_next (nth 1 (scripts cfg) []) /\
    let s := texec cfg sched in
    c_stops (getc s 1) = 1 /\ c_out (getc s 1) = [] /\ src_items cfg = [VInt 1].
Proof.
  exists (mkCfg false 1 [[CNext]; [CNext]] [VInt 1]), [Run 0; Run 1; Run 0; Run 1].
  split; [reflexivity|]. split; [reflexivity|]. split; [simpl; intuition discriminate|].
  split; [repeat constructor|]. vm_compute. repeat split.
Qed.

Print Assumptions step_inv.
Print Assumptions tee_unguarded_loses_item.
Print Assumptions reach_inv.
Print Assumptions tee_inv.
Print Assumptions tee_prefix.
Print Assumptions tee_complete.
Print Assumptions tee_mutex.
Print Assumptions tee_source_closed.
Print Assumptions tee_needs_guard_refuted.
Print Assumptions tee_no_deadlock.
Print Assumptions tee_example.
Print Assumptions tee_example_complete.
