(* cycle, bounded: the first pass, then [passes] replays of the saved items, then Fuel
   (the real iterator goes on for ever); on an empty input it simply ends. *)
From Coq Require Import List ZArith NArith Bool Arith Lia.
Import ListNotations.
Require Import V.Kernel.Values V.Kernel.Monad V.Model.Builtins V.Model.Itertools.
Require Import V.Proofs.Steps V.Proofs.ItSteps V.Std.Filter V.Std.Itertools1.

Lemma cycle_first : forall xs n buf lg u, length xs < n -> exists u',
  iter_src n 0 (fun buf x => yield_to x ;;; ret (x :: buf, true)) buf (W1 xs lg u)
  = (Ok (rev xs ++ buf, false), WE (rev (pass_trace xs) ++ lg) u').
Proof.
  induction xs as [|x xs IH]; intros n buf lg u Hn; destruct n as [|n]; try (simpl in Hn; lia).
  - exists (S u). cbn [iter_src]. mstep'. reflexivity.
  - assert (Hlen : length xs < n) by (simpl in Hn; lia).
    cbn [iter_src]. mstep'. cbn [snd fst pass_trace].
    destruct (IH n (x :: buf) (EYield x :: EItem 0 x :: EPull 0 :: lg) (S (S u)) Hlen) as [u' H].
    exists u'. rewrite H. f_equal.
    + f_equal. f_equal. cbn [rev]. rewrite <- app_assoc. reflexivity.
    + f_equal. logeq.
Qed.

Lemma replay_ok ss : forall l lg u, exists u',
  replay l yield_to (W ss lg u) = (Ok tt, W ss (rev (map EYield l) ++ lg) u').
Proof.
  induction l as [|x l IH]; intros lg u.
  - exists u. reflexivity.
  - cbn [replay]. rewrite bind_yield. destruct (IH (EYield x :: lg) (S u)) as [u' H].
    exists u'. rewrite H. f_equal. f_equal. cbn [map]. logeq.
Qed.

Lemma cycle_again_fuel ss l : forall passes lg u, exists u',
  cycle_again passes l yield_to (W ss lg u)
  = (Fuel, W ss (rev (concat (repeat (map EYield l) passes)) ++ lg) u').
Proof.
  induction passes as [|p IH]; intros lg u.
  - exists u. reflexivity.
  - cbn [cycle_again]. destruct (replay_ok ss l lg u) as [u1 H1]. rewrite (bind_ok _ _ _ _ _ H1).
    destruct (IH (rev (map EYield l) ++ lg) u1) as [u' H]. exists u'. rewrite H. f_equal. f_equal.
    cbn [repeat concat]. rewrite rev_app_distr, <- app_assoc. reflexivity.
Qed.

Lemma pass_nc' xs : nc (pass_trace xs) = true.
Proof. induction xs as [|x xs IH]; [reflexivity|]. cbn. apply IH. Qed.
Lemma yields_nc l : nc (map EYield l) = true.
Proof. induction l as [|x l IH]; [reflexivity|]. cbn. apply IH. Qed.
Lemma replays_nc l : forall p, nc (concat (repeat (map EYield l) p)) = true.
Proof. induction p as [|p IH]; [reflexivity|]. cbn [repeat concat]. rewrite nc_app, yields_nc, IH. reflexivity. Qed.
Lemma concat_repeat_nil {A} : forall p, concat (repeat (@nil A) p) = [].
Proof. induction p as [|p IH]; [reflexivity|]. cbn. exact IH. Qed.

Theorem cycle_trace : forall passes xs,
  let '(o, w) := run_gen (a_cycle passes) (init_world [xs] None) in
  o = spec_cycle_end xs /\ no_closes (rev (log w)) = spec_cycle_trace passes xs /\ all_released w = true.
Proof.
  intros passes xs. unfold run_gen, a_cycle. rewrite init_world1.
  destruct (cycle_first xs (S (length xs)) [] [] 0 (Nat.lt_succ_diag_r _)) as [u' H].
  rewrite !app_nil_r in H.
  assert (H1 : scoped 0 (loop_src 0 (fun buf x => yield_to x ;;; ret (x :: buf, true)) []) (W1 xs [] 0)
               = (Ok (rev xs, false), W [mkSrc [] true 1 1 true] (EClose 0 :: rev (pass_trace xs)) (S u'))).
  { apply scoped1_exhausted. rewrite loop_src_eq, items_left1. exact H. }
  rewrite (bind_ok _ _ _ _ _ H1). cbn [fst].
  destruct xs as [|x r].
  - cbn [rev]. rewrite ret_app. split; [reflexivity|]. split; [|reflexivity].
    cbn [log W]. unfold spec_cycle_trace. cbn [map]. rewrite concat_repeat_nil. reflexivity.
  - destruct (rev (x :: r)) as [|b0 b'] eqn:Hb.
    { exfalso. cbn [rev] in Hb. destruct (rev r); discriminate. }
    rewrite <- Hb, rev_involutive.
    destruct (cycle_again_fuel [mkSrc [] true 1 1 true] (x :: r) passes (EClose 0 :: rev (pass_trace (x :: r))) (S u'))
      as [u'' H2].
    rewrite H2. split; [reflexivity|]. split; [|reflexivity].
    cbn [log W]. unfold spec_cycle_trace.
    rewrite rev_app_distr, rev_involutive. cbn [rev]. rewrite rev_involutive, <- app_assoc.
    rewrite !no_closes_app. cbn [app].
    rewrite (nc_no_closes _ (pass_nc' (x :: r))), (nc_no_closes _ (replays_nc (x :: r) passes)). reflexivity.
Qed.

Corollary cycle_yields : forall passes xs, yields (spec_cycle_trace passes xs) = spec_cycle passes xs.
Proof.
  intros passes xs. unfold spec_cycle_trace, spec_cycle. rewrite yields_app. f_equal.
  - induction xs as [|x xs IH]; [reflexivity|]. cbn [pass_trace]. yields_step. rewrite IH. reflexivity.
  - induction passes as [|p IH]; [reflexivity|]. cbn [repeat concat]. rewrite yields_app, IH. f_equal.
    clear IH. induction xs as [|x xs IH]; [reflexivity|]. cbn [map]. yields_step. rewrite IH. reflexivity.
Qed.

(* Fuel exactly on the non-empty inputs *)
Corollary cycle_fuel_iff : forall passes xs,
  fst (run_gen (a_cycle passes) (init_world [xs] None)) = Fuel <-> xs <> [].
Proof.
  intros passes xs. pose proof (cycle_trace passes xs) as H.
  destruct (run_gen (a_cycle passes) (init_world [xs] None)) as [o w]. destruct H as [-> _]. cbn [fst].
  destruct xs; cbn [spec_cycle_end]; split; intros H; congruence.
Qed.

Example cycle_ex :
  spec_cycle_trace 2 [VInt 1; VInt 2]
  = [EPull 0; EItem 0 (VInt 1); EYield (VInt 1); EPull 0; EItem 0 (VInt 2); EYield (VInt 2); EPull 0; EEnd 0;
     EYield (VInt 1); EYield (VInt 2); EYield (VInt 1); EYield (VInt 2)].
Proof. reflexivity. Qed.

Print Assumptions cycle_trace.
Print Assumptions cycle_yields.
Print Assumptions cycle_fuel_iff.
