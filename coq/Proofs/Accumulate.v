(* accumulate.  DOCUMENTED DEVIATION: on an empty input without [initial] the library raises
   TypeError where itertools.accumulate is simply empty (refuted / partial / documented case below). *)
From Coq Require Import List ZArith NArith Bool Arith Lia.
Import ListNotations.
Require Import V.Kernel.Values V.Kernel.Monad V.Model.Builtins V.Model.Itertools.
Require Import V.Proofs.Steps V.Proofs.ItSteps V.Std.Filter V.Std.Itertools1.

Lemma accumulate_iter f : forall xs n total lg u, length xs < n -> exists l e u',
  (iter_src n 0 (fun value head =>
                   v <- match f with
                        | Some g => call 0 g [value; head]
                        | None => lift_val (py_add value head)
                        end ;;
                   yield_to v ;;; ret (v, true)) total ;;; ret tt) (W1 xs lg u)
  = (acc_end f total xs, WS l e (rev (acc_trace f total xs) ++ lg) u').
Proof.
  induction xs as [|x xs IH]; intros n total lg u Hn; destruct n as [|n]; try (simpl in Hn; lia).
  - exists [], true, (S u). cbn [iter_src]. mstep'. reflexivity.
  - assert (Hlen : length xs < n) by (simpl in Hn; lia).
    cbn [iter_src]. mstep'. cbn [acc_trace acc_end]. destruct f as [g|]; cbn [acc_step].
    + mstep'. cbn [snd fst].
      destruct (IH n (g [total; x]) (EYield (g [total; x]) :: ECall 0 [total; x] :: EItem 0 x :: EPull 0 :: lg)
                  (S (S (S u))) Hlen) as [l [e [u' H]]].
      exists l, e, u'. rewrite H. f_equal. f_equal. logeq.
    + destruct (py_add total x) as [v|]; cbn [lift_val]; mstep'.
      * cbn [snd fst].
        destruct (IH n v (EYield v :: EItem 0 x :: EPull 0 :: lg) (S (S u)) Hlen) as [l [e [u' H]]].
        exists l, e, u'. rewrite H. f_equal. f_equal. logeq.
      * exists xs, false, (S u). reflexivity.
Qed.

Lemma acc_trace_nc f : forall xs total, nc (acc_trace f total xs) = true.
Proof.
  induction xs as [|x xs IH]; intros total; [reflexivity|]. cbn [acc_trace].
  rewrite !nc_app. destruct f as [g|]; cbn [acc_step].
  - cbn. apply IH.
  - destruct (py_add total x); cbn; [apply IH|reflexivity].
Qed.
Lemma acc_end_not_fuel f : forall xs total, acc_end f total xs <> Fuel.
Proof.
  induction xs as [|x xs IH]; intros total; cbn [acc_end]; [discriminate|].
  destruct (acc_step f total x); [apply IH|discriminate].
Qed.

(* the domain on which the library agrees with itertools: not (no initial and empty input) *)
Definition accumulate_domain (initial : option val) (xs : list val) : bool :=
  match initial, xs with None, [] => false | _, _ => true end.

Theorem accumulate_trace_partial : forall f initial xs, accumulate_domain initial xs = true ->
  let '(o, w) := run_gen (a_accumulate f initial) (init_world [xs] None) in
  o = spec_accumulate_end f initial xs
  /\ no_closes (rev (log w)) = spec_accumulate_trace f initial xs
  /\ all_released w = true.
Proof.
  intros f initial xs Hd. unfold run_gen, a_accumulate. destruct initial as [v0|].
  - destruct (accumulate_iter f xs (S (length xs)) v0 [EYield v0] 1 (Nat.lt_succ_diag_r _)) as [l [e [u' H]]].
    apply (finish_scoped _ xs _ l e _ u').
    + mstep'. rewrite bind_loop_src, items_left1. etransitivity; [exact H|].
      cbn [spec_accumulate_end spec_accumulate_trace]. first [reflexivity | f_equal; f_equal; logeq].
    + apply acc_end_not_fuel.
    + cbn [spec_accumulate_trace]. cbn. apply acc_trace_nc.
  - destruct xs as [|x r]; [discriminate|].
    destruct (accumulate_iter f r (S (length r)) x [EYield x; EItem 0 x; EPull 0] 2 (Nat.lt_succ_diag_r _))
      as [l [e [u' H]]].
    apply (finish_scoped _ (x :: r) _ l e _ u').
    + mstep'. rewrite bind_loop_src, items_left1. etransitivity; [exact H|].
      cbn [spec_accumulate_end spec_accumulate_trace]. first [reflexivity | f_equal; f_equal; logeq].
    + apply acc_end_not_fuel.
    + cbn [spec_accumulate_trace]. cbn. apply acc_trace_nc.
Qed.

(* the full statement (against itertools.accumulate) is false on the empty input *)
Theorem accumulate_trace_refuted : exists f initial xs,
  let '(o, w) := run_gen (a_accumulate f initial) (init_world [xs] None) in
  o <> spec_accumulate_end f initial xs.
Proof. exists None, None, []. vm_compute. discriminate. Qed.

(* what the library documents instead: TypeError, after the same single poll *)
Theorem accumulate_empty_typeerror : forall f,
  let '(o, w) := run_gen (a_accumulate f None) (init_world [[]] None) in
  o = Exn XTypeError
  /\ no_closes (rev (log w)) = spec_accumulate_trace f None []
  /\ all_released w = true.
Proof. intros f. vm_compute. repeat split. Qed.

Example accumulate_domain_ex : accumulate_domain None [VInt 1; VInt 2] = true. Proof. reflexivity. Qed.

Lemma acc_trace_yields f : forall xs total, yields (acc_trace f total xs) = scan f total xs.
Proof.
  induction xs as [|x xs IH]; intros total; [reflexivity|]. cbn [acc_trace scan].
  destruct f as [g|]; cbn [acc_step]; yields_step.
  - rewrite IH. reflexivity.
  - destruct (py_add total x); yields_step; [rewrite IH|]; reflexivity.
Qed.
Corollary accumulate_yields : forall f initial xs,
  yields (spec_accumulate_trace f initial xs) = spec_accumulate f initial xs.
Proof.
  intros f [v|] xs; cbn [spec_accumulate_trace spec_accumulate].
  - yields_step. rewrite acc_trace_yields. reflexivity.
  - destruct xs as [|x r]; [reflexivity|]. yields_step. rewrite acc_trace_yields. reflexivity.
Qed.

Print Assumptions accumulate_trace_partial.
Print Assumptions accumulate_trace_refuted.
Print Assumptions accumulate_empty_typeerror.
Print Assumptions accumulate_yields.
