From Coq Require Import List Bool Arith Lia.
Import ListNotations.
Require Import V.Model.Awaitify.

(* every call invokes the user's callable exactly once and delivers exactly its result / exception, whatever the
   flavour and whatever happened on earlier calls (including a first call that raised) *)
Lemma call_faithful f w r : snd (call f w r) = r /\ snd (fst (call f w r)) = 1.
Proof.
  destruct w as [|[| |]]; cbn; auto.
  destruct (returns_awaitable f); cbn; auto. destruct r; cbn; auto.
Qed.
Theorem awaitify_faithful : forall f rs,
  calls f (awaitify f) rs = map (fun r => (1, r)) rs.
Proof.
  intros f rs. generalize (awaitify f) as w. induction rs as [|r rs IH]; intros w; [reflexivity|].
  cbn [calls map]. destruct (call f w r) as [[w' n] o] eqn:E.
  pose proof (call_faithful f w r) as [H1 H2]. rewrite E in H1, H2. cbn in H1, H2. subst. f_equal. apply IH.
Qed.
(* the result does not depend on the flavour of the callable *)
Corollary awaitify_flavour_independent : forall f f' rs,
  calls f (awaitify f) rs = calls f' (awaitify f') rs.
Proof. intros. rewrite !awaitify_faithful. reflexivity. Qed.
(* a synchronous callable whose first call raises leaves the decision open; the first successful call fixes it *)
Theorem first_failure_keeps_decision_open : forall e,
  fst (fst (call FDef (awaitify FDef) (RRaises e))) = Wrapped Undecided.
Proof. reflexivity. Qed.
Theorem decision_is_cached : forall f v,
  is_coroutine_function f = false ->
  fst (fst (call f (awaitify f) (RValue v))) = Wrapped (if returns_awaitable f then CallsAsync else CallsSync).
Proof. intros [] v H; try discriminate; reflexivity. Qed.
Theorem coroutine_functions_unwrapped : forall f, is_coroutine_function f = true -> awaitify f = Direct.
Proof. intros f H. unfold awaitify. rewrite H. reflexivity. Qed.
(* uniform iteration: the same items for every kind of iterable *)
Theorem aiter_items_same : forall A k k' (items : list A), aiter_items k items = aiter_items k' items.
Proof. intros A k k' items. unfold aiter_items. destruct (aiter_route k), (aiter_route k'); reflexivity. Qed.
Theorem aiter_items_id : forall A k (items : list A), aiter_items k items = items.
Proof. intros A k items. unfold aiter_items. destruct (aiter_route k); reflexivity. Qed.
Example awaitify_example :
  calls FCallableObject (awaitify FCallableObject) [RRaises 1; RValue 2; RRaises 3; RValue 4]
  = [(1, RRaises 1); (1, RValue 2); (1, RRaises 3); (1, RValue 4)].
Proof. reflexivity. Qed.
Print Assumptions awaitify_faithful.
Print Assumptions aiter_items_same.
