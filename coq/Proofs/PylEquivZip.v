(* Fourth batch of generator functions: _zip_inner, _zip_inner_strict, zip (builtins.py) and batched (itertools.py).
   These are the functions whose source uses the library's own [anext] inside [while True] loops and catches the
   exhaustion with [except StopAsyncIteration] (the signal [Exc XStopAsync] of Model/Pyl.v).
   As in Proofs/PylEquivIter.v: the translated source denotes exactly the hand-written model, for every argument,
   consumer and world, including the [Fuel] outcome (both sides take their fuel from [with_fuel] at the same point
   and one iteration of [while_fuel] is one iteration of the model's loop). *)
From Coq Require Import List ZArith NArith Bool Arith String Lia.
Import ListNotations.
Require Import V.Kernel.Values V.Kernel.Monad V.Model.Builtins V.Model.Itertools V.Model.Pyl V.Gen.PylSrc V.Proofs.PylRel V.Proofs.PylTac.

(* ---------- unfolding equations (stated before the primitives are declared [simpl never]) ---------- *)
Lemma bind_with_fuel {A B} (g : nat -> M A) (k : A -> M B) w :
  bind (with_fuel g) k w = bind (g (S (total_left w))) k w.
Proof. reflexivity. Qed.
Lemma while_fuel_S f body en :
  while_fuel (S f) body en =
  (r <- body en ;; match snd r with Normal => while_fuel f body (fst r) | Brk => ret (fst r, Normal) | _ => ret r end).
Proof. reflexivity. Qed.
Lemma for_iters_cons i r k idx it body en :
  for_iters (i :: r) k idx it body en =
  (rr <- body (set_it (set_var en idx (VInt k)) it i) ;;
   match snd rr with Normal => for_iters r (k + 1)%Z idx it body (fst rr) | Brk => ret (fst rr, Normal) | _ => ret rr end).
Proof. reflexivity. Qed.
Lemma for_range_S m body en :
  for_range (S m) body en =
  (rr <- body en ;; match snd rr with Normal => for_range m body (fst rr) | Brk => ret (fst rr, Normal) | _ => ret rr end).
Proof. reflexivity. Qed.

(* keep the primitives of the calculus folded while [cbn] evaluates [exec]/[eval] and the environments *)
#[local] Arguments bind : simpl never.
#[local] Arguments ret : simpl never.
#[local] Arguments raise : simpl never.
#[local] Arguments pull : simpl never.
#[local] Arguments call : simpl never.
#[local] Arguments close : simpl never.
#[local] Arguments close_all : simpl never.
#[local] Arguments scoped : simpl never.
#[local] Arguments finally : simpl never.
#[local] Arguments with_fuel : simpl never.
#[local] Arguments while_fuel : simpl never.
#[local] Arguments for_iters : simpl never.
#[local] Arguments for_range : simpl never.
#[local] Arguments anext_row : simpl never.
#[local] Arguments pull_row : simpl never.
#[local] Arguments zip_loop : simpl never.
#[local] Arguments zip_strict_loop : simpl never.
#[local] Arguments strict_rest : simpl never.
#[local] Arguments zip_inner : simpl never.
#[local] Arguments a_zip : simpl never.
#[local] Arguments fill_batch : simpl never.
#[local] Arguments batched_loop : simpl never.
#[local] Arguments Z.of_nat : simpl never.
#[local] Arguments Z.to_nat : simpl never.
#[local] Arguments Z.add : simpl never.
#[local] Arguments Z.ltb : simpl never.
#[local] Arguments Nat.ltb : simpl never.

(* ---------- [x = [await anext(it) for it in aiters]] is [pull_row] ---------- *)
Lemma anext_row_pull_row : forall l pos acc w,
  orel (fun o r => match r with Row xs => o = Some (acc ++ xs) | EndedAt _ => o = None end)
       (anext_row l acc w) (pull_row pos l w).
Proof.
  induction l as [|i r IH]; intros pos acc w.
  - apply orel_ret. rewrite app_nil_r. reflexivity.
  - change (anext_row (i :: r) acc) with
      (o <- pull i ;; match o with None => ret None | Some v => anext_row r (acc ++ [v]) end).
    change (pull_row pos (i :: r)) with
      (o <- pull i ;; match o with
                      | None => ret (EndedAt pos)
                      | Some x => rest <- pull_row (S pos) r ;;
                                  ret (match rest with Row xs => Row (x :: xs) | EndedAt p => EndedAt p end)
                      end).
    apply bind_same. intros [x|] w1.
    + eapply bind_rel_r; [apply (IH (S pos) (acc ++ [x]))|].
      intros o rest w2 HR. apply orel_ret. destruct rest as [xs|p]; [|exact HR].
      rewrite HR, <- app_assoc. reflexivity.
    + apply orel_ret. reflexivity.
Qed.

(* ---------- _zip_inner ---------- *)
Definition zi_body : stmt := SSeq (SAnextRow "$row" "aiters") (SYield (ETupleOfList (EVar "$row"))).

Lemma zi_loop ss yield : forall n en w,
  lookup "aiters"%string (e_star en) = Some ss ->
  orel (fun (r : env * sig) (_ : unit) => snd r = Exc XStopAsync)
       (while_fuel n (fun e => exec zi_body e yield) en w) (zip_loop n ss yield w).
Proof.
  induction n as [|n IHn]; intros en w Hs.
  - apply orel_fuel.
  - rewrite while_fuel_S.
    change (zip_loop (S n) ss yield) with
      (r <- pull_row 0 ss ;; match r with EndedAt _ => ret tt | Row xs => yield (VTup xs) ;;; zip_loop n ss yield end).
    unfold zi_body. norm. rewrite Hs. norm.
    eapply bind_rel; [apply (anext_row_pull_row ss 0 [])|].
    intros o row w1 HR. destruct row as [xs|p]; subst o; norm.
    + apply bind_same. intros u w2. norm. apply IHn. exact Hs.
    + apply orel_ret. reflexivity.
Qed.

Theorem src_zip_inner_ok : forall ss yield w,
  run_genfn src_zip_inner [AIters ss] yield w = zip_inner false ss yield w.
Proof.
  intros ss yield w. unfold run_genfn, run_genfn_in, src_zip_inner, zip_inner. apply orel_eq.
  norm. rewrite bind_with_fuel. unfold with_fuel.
  eapply bind_rel_l; [apply (zi_loop ss yield); reflexivity|].
  intros [en sg] u w1 HR. cbn [snd] in HR. subst sg. norm. apply unit_ret_rel.
Qed.

(* ---------- _zip_inner_strict ---------- *)
Definition zs_append : stmt := SAppendAnext "items" "_aiter".
Definition zs_check : stmt := SIfAnextGot "_aiter" (SSeq (SAssign "plural" EOpaqueStr) (SRaise XValueError)) SSkip.
Definition zs_body : stmt :=
  SSeq (SListNew "items")
       (SSeq (SForIters "tried" "_aiter" "aiters" 0 0%Z zs_append) (SYield (ETupleOfList (EVar "items")))).

(* the loop that fills [items] is [pull_row]; when it is left by the exhaustion of an iterator, [tried] is its position *)
Lemma fill_pull_row ss0 yield : forall l pos k acc en w,
  k = Z.of_nat pos ->
  lookup "items"%string (e_vars en) = Some (Some (VList acc)) ->
  lookup "aiters"%string (e_star en) = Some ss0 ->
  orel (fun (r : env * sig) (rw : row) =>
          lookup "aiters"%string (e_star (fst r)) = Some ss0 /\
          match rw with
          | Row xs => snd r = Normal /\ lookup "items"%string (e_vars (fst r)) = Some (Some (VList (acc ++ xs)))
          | EndedAt p => snd r = Exc XStopAsync /\
                         lookup "tried"%string (e_vars (fst r)) = Some (Some (VInt (Z.of_nat p)))
          end)
       (for_iters l k "tried" "_aiter" (fun e => exec zs_append e yield) en w) (pull_row pos l w).
Proof.
  induction l as [|i r IH]; intros pos k acc en w Hk Hi Hs.
  - apply orel_ret. rewrite app_nil_r. cbn [fst snd]. auto.
  - rewrite for_iters_cons.
    change (pull_row pos (i :: r)) with
      (o <- pull i ;; match o with
                      | None => ret (EndedAt pos)
                      | Some x => rest <- pull_row (S pos) r ;;
                                  ret (match rest with Row xs => Row (x :: xs) | EndedAt p => EndedAt p end)
                      end).
    unfold zs_append at 1. norm. rewrite Hi. norm.
    apply bind_same. intros [x|] w1; norm.
    + eapply bind_rel_r; [apply (IH (S pos) (k + 1)%Z (acc ++ [x]))|].
      * subst k. lia.
      * reflexivity.
      * exact Hs.
      * intros rr rest w2 [Ha HR]. apply orel_ret. split; [exact Ha|].
        destruct rest as [xs|p]; [|exact HR]. rewrite <- app_assoc in HR. exact HR.
    + apply orel_ret. cbn [fst snd]. subst k. auto.
Qed.

(* the handler's loop over the remaining iterators is [strict_rest] *)
Lemma check_strict_rest yield : forall l k en w,
  orel (fun (r : env * sig) (_ : unit) => snd r = Normal)
       (for_iters l k "tried" "_aiter" (fun e => exec zs_check e yield) en w) (strict_rest l w).
Proof.
  induction l as [|i r IH]; intros k en w.
  - apply orel_ret. reflexivity.
  - rewrite for_iters_cons.
    change (strict_rest (i :: r)) with
      (o <- pull i ;; match o with Some _ => raise XValueError | None => strict_rest r end).
    unfold zs_check at 1. norm. apply bind_same. intros [x|] w1; norm.
    + apply orel_raise.
    + apply IH.
Qed.

Lemma zs_loop ss yield (K : env * sig -> M unit) :
  (forall en pos w,
     lookup "aiters"%string (e_star en) = Some ss ->
     lookup "tried"%string (e_vars en) = Some (Some (VInt (Z.of_nat pos))) ->
     K (en, Exc XStopAsync) w = match pos with 0 => strict_rest (tl ss) | S _ => raise XValueError end w) ->
  forall n en w,
    lookup "aiters"%string (e_star en) = Some ss ->
    orel eq (bind (while_fuel n (fun e => exec zs_body e yield) en) K w) (zip_strict_loop n ss yield w).
Proof.
  intros HK. induction n as [|n IHn]; intros en w Hs.
  - apply orel_fuel.
  - rewrite while_fuel_S.
    change (zip_strict_loop (S n) ss yield) with
      (r <- pull_row 0 ss ;;
       match r with
       | EndedAt 0 => strict_rest (tl ss)
       | EndedAt (S _) => raise XValueError
       | Row xs => yield (VTup xs) ;;; zip_strict_loop n ss yield
       end).
    unfold zs_body at 1. norm. rewrite Hs. norm.
    eapply bind_rel.
    + apply (fill_pull_row ss yield ss 0 0%Z []); reflexivity || exact Hs.
    + intros [en1 sg] rw w1 [Ha HR]. cbn [fst snd] in Ha, HR.
      destruct rw as [xs|p]; destruct HR as [HS HR]; subst sg; norm.
      * rewrite HR. norm. apply bind_same. intros u w2. norm. apply IHn. exact Ha.
      * rewrite (HK en1 p w1 Ha HR). apply orel_refl.
Qed.

Theorem src_zip_inner_strict_ok : forall ss yield w,
  run_genfn src_zip_inner_strict [AIters ss] yield w = zip_inner true ss yield w.
Proof.
  intros ss yield w. unfold run_genfn, run_genfn_in, src_zip_inner_strict, zip_inner. apply orel_eq.
  fold zs_append. fold zs_check. fold zs_body.
  norm. rewrite bind_with_fuel. unfold with_fuel.
  apply (zs_loop ss yield); [|reflexivity].
  intros en pos w1 Ha Ht. norm. rewrite Ht. norm.
  destruct pos as [|pos].
  - change (0 <? Z.of_nat 0)%Z with false. norm. rewrite Ha. norm.
    apply orel_eq. eapply bind_rel_l; [apply (check_strict_rest yield)|].
    intros [en1 sg] u w2 HR. cbn [snd] in HR. subst sg. norm. apply unit_ret_rel.
  - replace (0 <? Z.of_nat (S pos))%Z with true by (symmetry; apply Z.ltb_lt; lia). norm. reflexivity.
Qed.

(* ---------- zip ---------- *)
Definition zip_lib : list (string * (list nat -> (val -> M unit) -> M unit)) :=
  [("_zip_inner"%string, fun ss => run_genfn src_zip_inner [AIters ss]);
   ("_zip_inner_strict"%string, fun ss => run_genfn src_zip_inner_strict [AIters ss])].

Lemma finally_rel2 {A1 A2} (R : A1 -> A2 -> Prop) (m1 : M A1) (m2 : M A2) (fin1 fin2 : M unit) w :
  (forall w', fin1 w' = fin2 w') -> orel R (m1 w) (m2 w) -> orel R (finally m1 fin1 w) (finally m2 fin2 w).
Proof.
  intros Hf Hm. rewrite (finally_cong m1 m1 fin1 fin2 (fun _ => eq_refl) Hf). apply finally_rel, Hm.
Qed.

Theorem src_zip_ok : forall strict ss yield w,
  run_genfn_in zip_lib src_zip [AIters ss; AVal (VBool strict)] yield w = a_zip strict ss yield w.
Proof.
  intros strict ss yield w. unfold run_genfn_in, src_zip, zip_lib. apply orel_eq.
  destruct ss as [|i r]; norm; [apply orel_refl|].
  change (a_zip strict (i :: r) yield) with (finally (zip_inner strict (i :: r) yield) (close_all (i :: r))).
  eapply bind_rel_l with (R := fun (r1 : env * sig) (_ : unit) => snd r1 = Normal).
  - apply finally_rel2.
    + intros w1. norm. apply mbind_unit_end. intros u w2. reflexivity.
    + destruct strict; norm.
      * eapply bind_rel_l; [apply orel_of_eq, src_zip_inner_strict_ok|].
        intros u1 u2 w1 _. apply orel_ret. reflexivity.
      * eapply bind_rel_l; [apply orel_of_eq, src_zip_inner_ok|].
        intros u1 u2 w1 _. apply orel_ret. reflexivity.
  - intros [en sg] u w1 HR. cbn [snd] in HR. subst sg. norm. apply unit_ret_rel.
Qed.

(* ---------- batched ---------- *)
Definition bt_append : stmt := SAppendAnext "batch" "item_iter".
Definition bt_body : stmt :=
  SSeq (SListClear "batch")
       (SSeq (SForRange (EVar "n") bt_append) (SYield (ETupleOfList (EVar "batch")))).

Definition bt_env (n : Z) (strict : bool) (en : env) : Prop :=
  lookup "n"%string (e_vars en) = Some (Some (VInt n)) /\
  lookup "strict"%string (e_vars en) = Some (Some (VBool strict)) /\
  lookup "item_iter"%string (e_its en) = Some 0.
Lemma bt_env_set_batch n strict en v : bt_env n strict en -> bt_env n strict (set_var en "batch" v).
Proof. intros H. exact H. Qed.

(* [for _ in range(n): batch.append(await anext(item_iter))] is [fill_batch] *)
Lemma range_fill_batch nz strict yield : forall m acc en w,
  bt_env nz strict en ->
  lookup "batch"%string (e_vars en) = Some (Some (VList acc)) ->
  orel (fun (r : env * sig) (fb : list val * bool) =>
          bt_env nz strict (fst r) /\
          lookup "batch"%string (e_vars (fst r)) = Some (Some (VList (fst fb))) /\
          snd r = if snd fb then Normal else Exc XStopAsync)
       (for_range m (fun e => exec bt_append e yield) en w) (fill_batch m acc w).
Proof.
  induction m as [|m IH]; intros acc en w He Hb.
  - apply orel_ret. cbn [fst snd]. auto.
  - rewrite for_range_S.
    change (fill_batch (S m) acc) with
      (o <- pull 0 ;; match o with None => ret (acc, false) | Some x => fill_batch m (acc ++ [x]) end).
    unfold bt_append at 1. norm. destruct He as (Hn & Hst & Hit). rewrite Hit, Hb. norm.
    apply bind_same. intros [x|] w1; norm.
    + apply IH; [repeat split; assumption|reflexivity].
    + apply orel_ret. cbn [fst snd]. repeat split; assumption.
Qed.

(* what the model does with the last, partial batch *)
Definition bt_tail (n : nat) (strict : bool) (yield : val -> M unit) (b : list val) : M unit :=
  match b with
  | [] => ret tt
  | v :: l => if strict && Nat.ltb (List.length (v :: l)) n then raise XValueError else yield (VTup (v :: l))
  end.
Lemma batched_loop_S f n strict yield :
  batched_loop (S f) n strict yield =
  (r <- fill_batch n [] ;;
   if snd r then yield (VTup (fst r)) ;;; batched_loop f n strict yield else bt_tail n strict yield (fst r)).
Proof. reflexivity. Qed.
#[local] Arguments bt_tail : simpl never.

Lemma bt_loop {A} (R : A -> unit -> Prop) nz strict yield (K : env * sig -> M A) :
  (forall en b w,
     bt_env nz strict en ->
     lookup "batch"%string (e_vars en) = Some (Some (VList b)) ->
     orel R (K (en, Exc XStopAsync) w) (bt_tail (Z.to_nat nz) strict yield b w)) ->
  forall f en b0 w,
    bt_env nz strict en ->
    lookup "batch"%string (e_vars en) = Some (Some (VList b0)) ->
    orel R (bind (while_fuel f (fun e => exec bt_body e yield) en) K w)
           (batched_loop f (Z.to_nat nz) strict yield w).
Proof.
  intros HK. induction f as [|f IHf]; intros en b0 w He Hb.
  - apply orel_fuel.
  - rewrite while_fuel_S, batched_loop_S.
    unfold bt_body at 1. norm. rewrite Hb. norm.
    pose proof He as (Hn & _ & _). rewrite Hn. norm.
    eapply bind_rel.
    + apply (range_fill_batch nz strict yield (Z.to_nat nz) []); [apply bt_env_set_batch, He|reflexivity].
    + intros [en1 sg] [b c] w1 (He1 & Hb1 & HS). cbn [fst snd] in He1, Hb1, HS |- *. subst sg.
      destruct c; norm.
      * rewrite Hb1. norm. apply bind_same. intros u w2. norm. apply (IHf en1 b); assumption.
      * apply HK; assumption.
Qed.

Lemma ltb_nat_Z k n : (0 <= n)%Z -> (Z.of_nat k <? n)%Z = Nat.ltb k (Z.to_nat n).
Proof.
  intros Hn. destruct (Z.ltb_spec (Z.of_nat k) n), (Nat.ltb_spec k (Z.to_nat n)); try reflexivity; lia.
Qed.

Theorem src_batched_ok : forall n strict yield w,
  run_genfn src_batched [AIter 0; AVal (VInt n); AVal (VBool strict)] yield w = a_batched n strict yield w.
Proof.
  intros n strict yield w. unfold run_genfn, run_genfn_in, src_batched, a_batched. apply orel_eq.
  fold bt_append. fold bt_body. norm.
  destruct (n <? 1)%Z eqn:Hn1; norm; [apply orel_raise|].
  apply Z.ltb_ge in Hn1.
  eapply bind_rel_l with (R := fun (r1 : env * sig) (_ : unit) => sig_noexc r1).
  - apply scoped_rel. norm. rewrite bind_with_fuel. unfold with_fuel.
    apply (bt_loop _ n strict yield) with (b0 := []); [|repeat split|reflexivity].
    intros en b w1 (Hn & Hst & Hit) Hb. norm. rewrite Hb. norm. unfold bt_tail.
    destruct b as [|v l]; norm; [apply orel_ret; exact I|].
    rewrite Hst. norm. destruct strict; norm.
    + rewrite Hn. norm. rewrite ltb_nat_Z by lia.
      destruct (Nat.ltb (S (List.length l)) (Z.to_nat n)); norm; [apply orel_raise|].
      rewrite Hb. norm. eapply bind_rel_l; [apply orel_refl|]. intros u ? w2 _. apply orel_ret. exact I.
    + rewrite Hb. norm. eapply bind_rel_l; [apply orel_refl|]. intros u ? w2 _. apply orel_ret. exact I.
  - intros [en sg] u w1 HR. destruct sg; try contradiction; norm; apply unit_ret_rel.
Qed.

(* the four functions of this file are inside the translated fragment (the lists [iter_sources] and [all_sources] of
   Gen/PylSrc.v, which contain them, are checked as a whole in Proofs/PylEquivIter.v) *)
Theorem zip_sources_supported :
  forallb (fun f => supported (f_body f)) [src_zip_inner; src_zip_inner_strict; src_zip; src_batched] = true.
Proof. vm_compute. reflexivity. Qed.
Theorem zip_sources_listed :
  forallb (fun f => existsb (fun g => String.eqb (f_name f) (f_name g)) iter_sources
                    && existsb (fun g => String.eqb (f_name f) (f_name g)) all_sources)
          [src_zip_inner; src_zip_inner_strict; src_zip; src_batched] = true.
Proof. vm_compute. reflexivity. Qed.

Print Assumptions src_zip_inner_ok.
Print Assumptions src_zip_inner_strict_ok.
Print Assumptions src_zip_ok.
Print Assumptions src_batched_ok.
Print Assumptions zip_sources_supported.
Print Assumptions zip_sources_listed.
