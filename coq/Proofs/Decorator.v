(* Property C15: a coroutine function decorated with a context manager can be called any number of
   times, sequentially or concurrently; every call is  enter . body . exit  around its own manager.
   The model (Model/Decorator.v) is not edited here.

   Method: [dstep] on an action addressed to call c is a LOCAL step [lstep] of c ([dstep_local]); the
   view of c (its pc and its projection of the log) evolves by [lstep] on c's own actions and is
   untouched by all others ([view_dstep_same], [view_dstep_other]).  Everything else is a property of
   the local machine.

   Delivered (all for every configuration and every schedule):
   * [call_shape]: exact shape of the projection of every call as a function of its pc ([linv]).
   * [call_projection] (+ [call_projection_general] with the cancelled fates [fate_sequence]),
     [cancelled_in_enter], [cancelled_in_body], [cancelled_in_exit].
     "Equal to the full sequence when DDone" needs  c < length (d_raises cfg)  (a call number outside
     the configuration reads as DDone by the default of [dpc_of]): [call_projection_without_range_refuted].
   * [fresh_generators], [generators_below_counter], [one_generator_per_call], [plain_manager_generator_zero].
   * [projection_independent], [pc_independent], [projection_independent_plain], [projection_renamed],
     [actions_commute].
   * [sequential_calls], [sequential_calls_generator_based], [sequential_calls_done], [runs_until_done].
   * [ex_overlapping_log], [ex_overlapping_projections], [ex_sequential] by vm_compute. *)
From Coq Require Import List ZArith NArith Bool Arith Lia.
Import ListNotations.
Require Import V.Model.Decorator.

(* ------------------------------------------------------------------------------------------------ *)
(* 0. list facts                                                                                     *)
(* ------------------------------------------------------------------------------------------------ *)

Lemma dset_nth_length : forall {A} n (x : A) l, length (dset_nth n x l) = length l.
Proof. intros A n x l; revert n; induction l; intros [|n]; simpl; auto. Qed.
Lemma dset_nth_same : forall {A} n (l : list A) d, dset_nth n (nth n l d) l = l.
Proof. intros A n l d; revert n; induction l; intros [|n]; simpl; auto. f_equal; auto. Qed.
Lemma nth_dset_nth_eq : forall {A} n (x : A) l d, n < length l -> nth n (dset_nth n x l) d = x.
Proof.
  intros A n x l d; revert n; induction l; intros [|n]; simpl; intro H; try lia; auto.
  apply IHl; lia.
Qed.
Lemma nth_dset_nth_neq : forall {A} n m (x : A) l d, n <> m -> nth n (dset_nth m x l) d = nth n l d.
Proof.
  intros A n m x l d; revert n m; induction l; intros [|n] [|m]; simpl; intro H; auto; try congruence.
Qed.

Definition prefix {A} (l1 l2 : list A) : Prop := exists r, l2 = l1 ++ r.

(* ------------------------------------------------------------------------------------------------ *)
(* 1. the local machine of one call; [dstep] is the local step of the addressed call                 *)
(* ------------------------------------------------------------------------------------------------ *)

Definition target (a : daction) : nat := match a with DRun c | DCancelAt c => c end.
Definition is_cancel (a : daction) : bool := match a with DCancelAt _ => true | DRun _ => false end.
Definition mk_action (c : nat) (cancel : bool) : daction := if cancel then DCancelAt c else DRun c.
(* the generator number a call entering in state [s] receives *)
Definition cur_gen (cfg : dconfig) (s : dstate) : nat := if d_generator_based cfg then d_next_gen s else 0.

Definition lexit (cfg : dconfig) (c g : nat) (exc : option xc) (pre : list devent) : dpc * list devent :=
  match d_sx cfg with
  | 0 => (DDone, pre ++ [DExitStart c g exc] ++ finish cfg c g exc)
  | S j => (DExit (S j) g exc, pre ++ [DExitStart c g exc])
  end.
Definition lbody (cfg : dconfig) (c g : nat) (pre : list devent) : dpc * list devent :=
  match d_sb cfg with
  | 0 => lexit cfg c g (body_exc cfg c) (pre ++ [DEntered c g; DBodyStart c; DBodyEnd c (body_exc cfg c)])
  | S j => (DBody (S j) g, pre ++ [DEntered c g; DBodyStart c])
  end.
Definition cancel_result (c : nat) : devent := DResult c (Some (Some XCancel)).
(* one action (run / cancel) addressed to call [c] whose program counter is [pc]; [g] is the
   generator number handed out if the call starts now.  Returns the new pc and the emitted events. *)
Definition lstep (cfg : dconfig) (c g : nat) (pc : dpc) (cancel : bool) : dpc * list devent :=
  if cancel then
    match pc with
    | DEnter _ _ => (DDone, [cancel_result c])
    | DBody _ g' => lexit cfg c g' (Some XCancel) [DBodyEnd c (Some XCancel)]
    | DExit _ _ _ => (DDone, [cancel_result c])
    | _ => (pc, [])
    end
  else
    match pc with
    | DDone => (DDone, [])
    | DNot => match d_se cfg with
              | 0 => lbody cfg c g [DEnterStart c g]
              | S j => (DEnter (S j) g, [DEnterStart c g])
              end
    | DEnter (S (S j)) g' => (DEnter (S j) g', [])
    | DEnter _ g' => lbody cfg c g' []
    | DBody (S (S j)) g' => (DBody (S j) g', [])
    | DBody _ g' => lexit cfg c g' (body_exc cfg c) [DBodyEnd c (body_exc cfg c)]
    | DExit (S (S j)) g' e => (DExit (S j) g' e, [])
    | DExit _ g' e => (DDone, finish cfg c g' e)
    end.
Definition bumps (cfg : dconfig) (pc : dpc) (cancel : bool) : bool :=
  d_generator_based cfg && negb cancel && match pc with DNot => true | _ => false end.

Lemma noop_state : forall s c pc, dpc_of s c = pc ->
  s = mkD (d_next_gen s) (d_log s ++ []) (dset_nth c pc (d_pcs s)).
Proof.
  intros s c pc <-. unfold dpc_of. rewrite dset_nth_same, app_nil_r. destruct s; reflexivity.
Qed.

Lemma dstep_local : forall cfg s a,
  dstep cfg s a =
  mkD (if bumps cfg (dpc_of s (target a)) (is_cancel a) then S (d_next_gen s) else d_next_gen s)
      (d_log s ++ snd (lstep cfg (target a) (cur_gen cfg s) (dpc_of s (target a)) (is_cancel a)))
      (dset_nth (target a) (fst (lstep cfg (target a) (cur_gen cfg s) (dpc_of s (target a)) (is_cancel a)))
                (d_pcs s)).
Proof.
  intros cfg s a. destruct a as [c|c]; cbn [target is_cancel]; unfold dstep, denabled, bumps, cur_gen, lstep;
  destruct (dpc_of s c) as [|[|[|j]] g|[|[|j]] g|[|[|j]] g e|] eqn:E; cbn [negb andb];
  rewrite ?andb_false_r; cbn [negb andb fst snd];
  try (apply noop_state; exact E);
  unfold run_body, lbody, run_exit, lexit, dput;
  destruct (d_generator_based cfg); destruct (d_se cfg); destruct (d_sb cfg); destruct (d_sx cfg);
  cbn [fst snd d_log d_pcs d_next_gen andb]; reflexivity.
Qed.

Lemma bumps_next_gen : forall cfg s a,
  d_next_gen (dstep cfg s a) =
  if bumps cfg (dpc_of s (target a)) (is_cancel a) then S (d_next_gen s) else d_next_gen s.
Proof. intros. rewrite dstep_local. reflexivity. Qed.

Lemma lstep_calls : forall cfg c g pc b e, In e (snd (lstep cfg c g pc b)) -> call_of e = c.
Proof.
  intros cfg c g pc b e. unfold lstep, lbody, lexit, finish, cancel_result.
  destruct b; destruct pc as [|[|[|j]] g'|[|[|j]] g'|[|[|j]] g' x|];
  destruct (d_se cfg); destruct (d_sb cfg); destruct (d_sx cfg); simpl;
  intro H; repeat (destruct H as [H|H]; [subst e; reflexivity|]); contradiction.
Qed.

Lemma projection_app : forall c l1 l2, projection c (l1 ++ l2) = projection c l1 ++ projection c l2.
Proof. intros. unfold projection. apply filter_app. Qed.
Lemma projection_all : forall c l, (forall e, In e l -> call_of e = c) -> projection c l = l.
Proof.
  intros c l; induction l as [|e l IH]; simpl; intro H; auto.
  rewrite (H e (or_introl eq_refl)), Nat.eqb_refl. f_equal. apply IH. intros; apply H; auto.
Qed.
Lemma projection_none : forall c c' l, c <> c' -> (forall e, In e l -> call_of e = c') -> projection c l = [].
Proof.
  intros c c' l Hn; induction l as [|e l IH]; simpl; intro H; auto.
  rewrite (H e (or_introl eq_refl)). destruct (Nat.eqb_spec c' c); [congruence|].
  apply IH. intros; apply H; auto.
Qed.
Lemma in_projection : forall c l e, In e l -> call_of e = c -> In e (projection c l).
Proof. intros c l e H1 H2. unfold projection. apply filter_In. split; auto. rewrite H2. apply Nat.eqb_refl. Qed.
Lemma projection_in : forall c l e, In e (projection c l) -> In e l /\ call_of e = c.
Proof. intros c l e H. unfold projection in H. apply filter_In in H. destruct H as [H1 H2]. split; auto. apply Nat.eqb_eq; auto. Qed.

(* the view of one call: its program counter and its part of the log *)
Definition view (s : dstate) (c : nat) : dpc * list devent := (dpc_of s c, projection c (d_log s)).
Definition lapply (cfg : dconfig) (c g : nat) (v : dpc * list devent) (cancel : bool) : dpc * list devent :=
  (fst (lstep cfg c g (fst v) cancel), snd v ++ snd (lstep cfg c g (fst v) cancel)).

Lemma lstep_done : forall cfg c g b, lstep cfg c g DDone b = (DDone, []).
Proof. intros; destruct b; reflexivity. Qed.

(* an action addressed to c acts on the view of c as the local step ... *)
Lemma view_dstep_same : forall cfg s a,
  view (dstep cfg s a) (target a) = lapply cfg (target a) (cur_gen cfg s) (view s (target a)) (is_cancel a).
Proof.
  intros cfg s a. rewrite dstep_local. unfold view, lapply, dpc_of. cbn [d_log d_pcs fst snd]. f_equal.
  - destruct (lt_dec (target a) (length (d_pcs s))) as [Hl|Hl].
    + apply nth_dset_nth_eq; auto.
    + rewrite nth_overflow by (rewrite dset_nth_length; lia).
      rewrite (nth_overflow (d_pcs s)) by lia. rewrite lstep_done. reflexivity.
  - rewrite projection_app. f_equal. apply projection_all. intros e He. eapply lstep_calls; eauto.
Qed.
(* ... and leaves the view of every other call unchanged *)
Lemma view_dstep_other : forall cfg s a c, c <> target a -> view (dstep cfg s a) c = view s c.
Proof.
  intros cfg s a c Hn. rewrite dstep_local. unfold view, dpc_of. cbn [d_log d_pcs]. f_equal.
  - apply nth_dset_nth_neq; auto.
  - rewrite projection_app.
    match goal with |- _ ++ ?x = _ => assert (E : x = []) end.
    { apply (projection_none c (target a)); auto. intros e He. eapply lstep_calls; eauto. }
    rewrite E. apply app_nil_r.
Qed.

Lemma drun_app : forall cfg l1 l2 s, drun cfg s (l1 ++ l2) = drun cfg (drun cfg s l1) l2.
Proof. intros cfg l1; induction l1; simpl; auto. Qed.

Lemma d_pcs_length_step : forall cfg s a, length (d_pcs (dstep cfg s a)) = length (d_pcs s).
Proof. intros. rewrite dstep_local. cbn [d_pcs]. apply dset_nth_length. Qed.
Lemma d_pcs_length_drun : forall cfg sched s, length (d_pcs (drun cfg s sched)) = length (d_pcs s).
Proof. intros cfg sched; induction sched; simpl; intros; auto. rewrite IHsched. apply d_pcs_length_step. Qed.
Lemma d_pcs_length : forall cfg sched, length (d_pcs (dexec cfg sched)) = length (d_raises cfg).
Proof. intros. unfold dexec. rewrite d_pcs_length_drun. simpl. apply map_length. Qed.
Lemma dpc_in_range : forall cfg sched c, dpc_of (dexec cfg sched) c <> DDone -> c < length (d_raises cfg).
Proof.
  intros cfg sched c H. rewrite <- (d_pcs_length cfg sched).
  destruct (lt_dec c (length (d_pcs (dexec cfg sched)))); auto.
  exfalso; apply H. unfold dpc_of. apply nth_overflow. lia.
Qed.

(* a property of views closed under local steps is preserved along any schedule *)
Lemma view_drun_closed : forall cfg c (P : dpc * list devent -> Prop),
  (forall v g b, P v -> P (lapply cfg c g v b)) ->
  forall sched s, P (view s c) -> P (view (drun cfg s sched) c).
Proof.
  intros cfg c P Hc sched; induction sched as [|a r IH]; simpl; intros s H; auto.
  apply IH. destruct (Nat.eq_dec c (target a)) as [->|Hn].
  - rewrite view_dstep_same. apply Hc; auto.
  - rewrite view_dstep_other; auto.
Qed.

(* was call c addressed by a cancellation *)
Definition cancelled (c : nat) (sched : list daction) : bool :=
  existsb (fun a => is_cancel a && (target a =? c)) sched.
Lemma not_cancelled : forall c sched, ~ In (DCancelAt c) sched -> cancelled c sched = false.
Proof.
  intros c sched; induction sched as [|a r IH]; simpl; intro H; auto.
  rewrite IH by tauto. destruct a as [d|d]; simpl; auto.
  destruct (Nat.eqb_spec d c); auto. subst. exfalso; apply H; auto.
Qed.
Lemma view_drun_flag : forall cfg c (P : bool -> dpc * list devent -> Prop),
  (forall fl v g b, P fl v -> P (fl || b) (lapply cfg c g v b)) ->
  forall sched s fl, P fl (view s c) -> P (fl || cancelled c sched) (view (drun cfg s sched) c).
Proof.
  intros cfg c P Hc sched; induction sched as [|a r IH]; simpl; intros s fl H.
  - rewrite orb_false_r; auto.
  - destruct (Nat.eq_dec c (target a)) as [->|Hn].
    + rewrite Nat.eqb_refl, andb_true_r, orb_assoc. apply IH. rewrite view_dstep_same. apply Hc; auto.
    + destruct (Nat.eqb_spec (target a) c); [congruence|]. rewrite andb_false_r. simpl.
      apply IH. rewrite view_dstep_other; auto.
Qed.

(* ------------------------------------------------------------------------------------------------ *)
(* 2. the sequence of one call                                                                       *)
(* ------------------------------------------------------------------------------------------------ *)

(* what the decorated function does once the context has been exited with [e] (as in [finish]) *)
Definition result_of (cfg : dconfig) (e : option xc) : option (option xc) :=
  match e with
  | None => None
  | Some x => if d_suppress cfg then Some None else Some (Some x)
  end.
Definition full_sequence (cfg : dconfig) (c g : nat) : list devent :=
  [DEnterStart c g; DEntered c g; DBodyStart c; DBodyEnd c (body_exc cfg c);
   DExitStart c g (body_exc cfg c); DExited c g; DResult c (result_of cfg (body_exc cfg c))].

Definition seq_enter (c g : nat) : list devent := [DEnterStart c g].
Definition seq_body (c g : nat) : list devent := [DEnterStart c g; DEntered c g; DBodyStart c].
Definition seq_exit (c g : nat) (e : option xc) : list devent :=
  [DEnterStart c g; DEntered c g; DBodyStart c; DBodyEnd c e; DExitStart c g e].

Lemma full_sequence_finish : forall cfg c g,
  full_sequence cfg c g = seq_exit c g (body_exc cfg c) ++ finish cfg c g (body_exc cfg c).
Proof. reflexivity. Qed.

(* the ways a call can end: normally, or cancelled while suspended in enter / body / exit *)
Inductive fate := FNormal | FCancelEnter | FCancelBody | FCancelExit | FCancelBodyExit.
Definition fate_sequence (cfg : dconfig) (c g : nat) (f : fate) : list devent :=
  match f with
  | FNormal => full_sequence cfg c g
  | FCancelEnter => [DEnterStart c g; cancel_result c]                                    (* no body, no exit *)
  | FCancelBody => seq_exit c g (Some XCancel) ++ finish cfg c g (Some XCancel)           (* exited with the cancellation *)
  | FCancelExit => seq_exit c g (body_exc cfg c) ++ [cancel_result c]                     (* the exit itself is cancelled *)
  | FCancelBodyExit => seq_exit c g (Some XCancel) ++ [cancel_result c]                   (* cancelled in the body, then again in the exit *)
  end.

(* the exact shape of a call's view; [fl] = "a cancellation may have been addressed to the call" *)
Definition linv (cfg : dconfig) (c g : nat) (fl : bool) (pc : dpc) (l : list devent) : Prop :=
  match pc with
  | DNot => l = []
  | DEnter k g' => g' = g /\ l = seq_enter c g
  | DBody k g' => g' = g /\ l = seq_body c g
  | DExit k g' e => g' = g /\ l = seq_exit c g e /\ (e = body_exc cfg c \/ (fl = true /\ e = Some XCancel))
  | DDone => exists f, l = fate_sequence cfg c g f /\ (fl = false -> f = FNormal)
  end.

Ltac pick_fate :=
  first [ exists FNormal; split; [reflexivity | intro; reflexivity]
        | exists FCancelEnter; split; [reflexivity | intro; discriminate]
        | exists FCancelBody; split; [reflexivity | intro; discriminate]
        | exists FCancelExit; split; [reflexivity | intro; discriminate]
        | exists FCancelBodyExit; split; [reflexivity | intro; discriminate] ].

Lemma linv_step : forall cfg c g fl pc l b,
  linv cfg c g fl pc l ->
  linv cfg c g (fl || b) (fst (lstep cfg c g pc b)) (l ++ snd (lstep cfg c g pc b)).
Proof.
  intros cfg c g fl pc l b H.
  destruct pc as [|k g'|k g'|k g' e|]; cbn [linv] in H.
  - subst l. unfold lstep, lbody, lexit. destruct fl, b; destruct (d_se cfg); destruct (d_sb cfg); destruct (d_sx cfg);
    cbn [fst snd linv app orb]; repeat split; auto; pick_fate.
  - destruct H as [-> ->]. unfold lstep, lbody, lexit.
    destruct fl, b; destruct k as [|[|j]]; destruct (d_sb cfg); destruct (d_sx cfg);
    cbn [fst snd linv app orb seq_enter]; repeat split; auto; pick_fate.
  - destruct H as [-> ->]. unfold lstep, lexit.
    destruct fl, b; destruct k as [|[|j]]; destruct (d_sx cfg);
    cbn [fst snd linv app orb seq_body]; repeat split; auto; pick_fate.
  - destruct H as (-> & -> & He). unfold lstep.
    destruct He as [->|[Hfl ->]]; destruct fl, b; try discriminate Hfl; destruct k as [|[|j]];
    cbn [fst snd linv app orb seq_exit]; rewrite ?app_nil_r; repeat split; auto; try pick_fate.
  - destruct H as (f & -> & Hf). rewrite lstep_done. cbn [fst snd linv]. rewrite app_nil_r.
    exists f. split; auto. intro Hb. apply Hf. destruct fl; auto; discriminate.
Qed.

Lemma lstep_gen_irrelevant : forall cfg c g1 g2 pc b, pc <> DNot -> lstep cfg c g1 pc b = lstep cfg c g2 pc b.
Proof. intros cfg c g1 g2 pc b H. destruct pc; try congruence; destruct b; reflexivity. Qed.
Lemma dpc_eq_dnot : forall pc, pc = DNot \/ pc <> DNot.
Proof. intros [| | | |]; auto; right; discriminate. Qed.
Lemma linv_dnot : forall cfg c g g' fl l, linv cfg c g fl DNot l -> linv cfg c g' fl DNot l.
Proof. intros; assumption. Qed.

Lemma linv_prefix : forall cfg c g fl pc l, linv cfg c g fl pc l ->
  exists f, prefix l (fate_sequence cfg c g f) /\ (pc = DDone -> l = fate_sequence cfg c g f) /\ (fl = false -> f = FNormal).
Proof.
  intros cfg c g fl pc l H. destruct pc as [|k g'|k g'|k g' e|]; cbn [linv] in H.
  - subst. exists FNormal. split; [eexists; reflexivity|]. split; [discriminate|auto].
  - destruct H as [-> ->]. exists FNormal. split; [eexists; reflexivity|]. split; [discriminate|auto].
  - destruct H as [-> ->]. exists FNormal. split; [eexists; reflexivity|]. split; [discriminate|auto].
  - destruct H as (-> & -> & [->|[-> ->]]).
    + exists FNormal. split; [eexists; reflexivity|]. split; [discriminate|auto].
    + exists FCancelBody. split; [eexists; reflexivity|]. split; discriminate.
  - destruct H as (f & -> & Hf). exists f. split; [exists []; symmetry; apply app_nil_r|]. auto.
Qed.

(* the invariant of every call of the configuration, along every schedule *)
Definition call_inv (cfg : dconfig) (c : nat) (fl : bool) (v : dpc * list devent) : Prop :=
  exists g, linv cfg c g fl (fst v) (snd v).
Lemma call_inv_closed : forall cfg c fl v g b, call_inv cfg c fl v -> call_inv cfg c (fl || b) (lapply cfg c g v b).
Proof.
  intros cfg c fl [pc l] g b [g0 H]. cbn [fst snd] in H. unfold call_inv, lapply. cbn [fst snd].
  destruct (dpc_eq_dnot pc) as [->|Hn].
  - exists g. apply linv_step. exact H.
  - exists g0. rewrite (lstep_gen_irrelevant cfg c g g0) by auto. apply linv_step. exact H.
Qed.

Lemma nth_map_const : forall {A B} (l : list A) (x d : B) c, c < length l -> nth c (map (fun _ => x) l) d = x.
Proof. intros A B l x d; induction l; intros [|c]; simpl; intro H; try lia; auto. apply IHl; lia. Qed.
Lemma view_init_in : forall cfg c, c < length (d_raises cfg) -> view (d_init cfg) c = (DNot, []).
Proof. intros. unfold view, dpc_of, d_init. cbn [d_pcs d_log]. rewrite nth_map_const by auto. reflexivity. Qed.
Lemma view_init_out : forall cfg c, length (d_raises cfg) <= c -> view (d_init cfg) c = (DDone, []).
Proof.
  intros. unfold view, dpc_of, d_init. cbn [d_pcs d_log]. rewrite nth_overflow by (rewrite map_length; lia). reflexivity.
Qed.
Lemma lapply_done : forall cfg c g l b, lapply cfg c g (DDone, l) b = (DDone, l).
Proof. intros. unfold lapply. cbn [fst snd]. rewrite lstep_done. cbn [fst snd]. rewrite app_nil_r. reflexivity. Qed.

(* once a call is done, nothing changes its view *)
Lemma done_stable : forall cfg c sched s, dpc_of s c = DDone -> view (drun cfg s sched) c = view s c.
Proof.
  intros cfg c sched s H.
  apply (view_drun_closed cfg c (fun v => v = view s c)); auto.
  intros v g b ->. unfold view. rewrite H. apply lapply_done.
Qed.
Lemma view_out_of_range : forall cfg sched c, length (d_raises cfg) <= c -> view (dexec cfg sched) c = (DDone, []).
Proof.
  intros cfg sched c H. unfold dexec. rewrite done_stable.
  - apply view_init_out; auto.
  - pose proof (view_init_out cfg c H) as E. unfold view in E. congruence.
Qed.

(* the exact shape of every call, in every reachable state *)
Theorem call_shape : forall cfg sched c, c < length (d_raises cfg) ->
  exists g, linv cfg c g (cancelled c sched) (dpc_of (dexec cfg sched) c) (projection c (d_log (dexec cfg sched))).
Proof.
  intros cfg sched c Hc.
  pose proof (view_drun_flag cfg c (call_inv cfg c) (call_inv_closed cfg c) sched (d_init cfg) false) as H.
  cbn [orb] in H. apply H. rewrite view_init_in by auto. exists 0. reflexivity.
Qed.

Theorem call_projection_general : forall cfg sched c,
  exists g f,
    prefix (projection c (d_log (dexec cfg sched))) (fate_sequence cfg c g f)
    /\ (c < length (d_raises cfg) -> dpc_of (dexec cfg sched) c = DDone ->
        projection c (d_log (dexec cfg sched)) = fate_sequence cfg c g f)
    /\ (~ In (DCancelAt c) sched -> f = FNormal).
Proof.
  intros cfg sched c. destruct (lt_dec c (length (d_raises cfg))) as [Hc|Hc].
  - destruct (call_shape cfg sched c Hc) as [g H]. apply linv_prefix in H. destruct H as (f & Hp & Hd & Hf).
    exists g, f. split; auto. split; auto. intro Hn. apply Hf. apply not_cancelled; auto.
  - pose proof (view_out_of_range cfg sched c ltac:(lia)) as E. unfold view in E. inversion E as [[E1 E2]].
    exists 0, FNormal. rewrite E2. split; [eexists; reflexivity|]. split; [lia|auto].
Qed.

(* 1. every call that is not cancelled is a prefix of  enter . body . exit . result  and is the whole
      sequence once the call is done *)
Theorem call_projection : forall cfg sched c, ~ In (DCancelAt c) sched ->
  exists g,
    prefix (projection c (d_log (dexec cfg sched))) (full_sequence cfg c g)
    /\ (c < length (d_raises cfg) -> dpc_of (dexec cfg sched) c = DDone ->
        projection c (d_log (dexec cfg sched)) = full_sequence cfg c g).
Proof.
  intros cfg sched c Hn. destruct (call_projection_general cfg sched c) as (g & f & Hp & Hd & Hf).
  rewrite (Hf Hn) in *. exists g. split; auto.
Qed.

(* the side condition "c is a call of the configuration" cannot be dropped: a call number outside the
   configuration counts as DDone (default of [dpc_of]) and has no events *)
Theorem call_projection_without_range_refuted : exists cfg sched c,
  ~ In (DCancelAt c) sched /\ dpc_of (dexec cfg sched) c = DDone /\
  forall g, projection c (d_log (dexec cfg sched)) <> full_sequence cfg c g.
Proof.
  exists (mkDCfg true 0 0 0 false []), [], 0. split; [simpl; tauto|]. split; [reflexivity|].
  intro g. vm_compute. discriminate.
Qed.

(* the exit phase: from a suspension in exit only three things can be seen *)
Lemma exit_phase : forall cfg c k g e l sched s, view s c = (DExit k g e, l) ->
  (exists k', view (drun cfg s sched) c = (DExit k' g e, l))
  \/ view (drun cfg s sched) c = (DDone, l ++ finish cfg c g e)
  \/ view (drun cfg s sched) c = (DDone, l ++ [cancel_result c]).
Proof.
  intros cfg c k g e l sched s H.
  apply (view_drun_closed cfg c (fun v => (exists k', v = (DExit k' g e, l))
     \/ v = (DDone, l ++ finish cfg c g e) \/ v = (DDone, l ++ [cancel_result c]))).
  - intros v g0 b [[k' ->]|[->| ->]].
    + unfold lapply, lstep. cbn [fst snd]. destruct b; [auto|].
      destruct k' as [|[|j]]; cbn [fst snd]; rewrite ?app_nil_r; eauto.
    + rewrite lapply_done; auto.
    + rewrite lapply_done; auto.
  - left; eauto.
Qed.

Lemma dexec_app_cons : forall cfg s1 a s2, dexec cfg (s1 ++ a :: s2) = drun cfg (dstep cfg (dexec cfg s1) a) s2.
Proof. intros. unfold dexec. rewrite drun_app. reflexivity. Qed.

(* cancelled while suspended in enter: no body and no exit events, the call raises the cancellation *)
Theorem cancelled_in_enter : forall cfg s1 s2 c k g, dpc_of (dexec cfg s1) c = DEnter k g ->
  projection c (d_log (dexec cfg (s1 ++ DCancelAt c :: s2))) = [DEnterStart c g; DResult c (Some (Some XCancel))].
Proof.
  intros cfg s1 s2 c k g H.
  assert (Hc : c < length (d_raises cfg)) by (apply (dpc_in_range cfg s1); rewrite H; discriminate).
  destruct (call_shape cfg s1 c Hc) as [g0 Hi]. rewrite H in Hi. cbn [linv] in Hi. destruct Hi as [<- Hl].
  rewrite dexec_app_cons.
  pose proof (view_dstep_same cfg (dexec cfg s1) (DCancelAt c)) as V. cbn [target is_cancel] in V.
  unfold view at 2 in V. rewrite H, Hl in V. unfold lapply, lstep in V. cbn [fst snd] in V.
  pose proof (done_stable cfg c s2 _ (f_equal fst V)) as D. rewrite V in D.
  apply (f_equal snd) in D. exact D.
Qed.

(* cancelled while suspended in the body: the body ends with the cancellation and the context is exited
   with it; then the exit is still running, or completed, or was cancelled itself *)
Theorem cancelled_in_body : forall cfg s1 s2 c k g, dpc_of (dexec cfg s1) c = DBody k g ->
  exists rest,
    projection c (d_log (dexec cfg (s1 ++ DCancelAt c :: s2))) =
      [DEnterStart c g; DEntered c g; DBodyStart c; DBodyEnd c (Some XCancel); DExitStart c g (Some XCancel)] ++ rest
    /\ (rest = [] \/ rest = finish cfg c g (Some XCancel) \/ rest = [DResult c (Some (Some XCancel))]).
Proof.
  intros cfg s1 s2 c k g H.
  assert (Hc : c < length (d_raises cfg)) by (apply (dpc_in_range cfg s1); rewrite H; discriminate).
  destruct (call_shape cfg s1 c Hc) as [g0 Hi]. rewrite H in Hi. cbn [linv] in Hi. destruct Hi as [<- Hl].
  rewrite dexec_app_cons.
  pose proof (view_dstep_same cfg (dexec cfg s1) (DCancelAt c)) as V. cbn [target is_cancel] in V.
  unfold view at 2 in V. rewrite H, Hl in V. unfold lapply, lstep, lexit in V. cbn [fst snd] in V.
  destruct (d_sx cfg) as [|j]; cbn [fst snd] in V.
  - pose proof (done_stable cfg c s2 _ (f_equal fst V)) as D. rewrite V in D.
    apply (f_equal snd) in D. cbn [snd view] in D. rewrite D.
    exists (finish cfg c g (Some XCancel)). split; [reflexivity|auto].
  - destruct (exit_phase cfg c _ _ _ _ s2 _ V) as [[k' E]|[E|E]];
      apply (f_equal snd) in E; cbn [snd view] in E; rewrite E.
    + exists []. split; [reflexivity|auto].
    + exists (finish cfg c g (Some XCancel)). split; [reflexivity|auto].
    + exists [cancel_result c]. split; [reflexivity|auto].
Qed.

(* cancelled while suspended in the exit: the call raises the cancellation, the exit does not complete *)
Theorem cancelled_in_exit : forall cfg s1 s2 c k g e, dpc_of (dexec cfg s1) c = DExit k g e ->
  projection c (d_log (dexec cfg (s1 ++ DCancelAt c :: s2))) =
    [DEnterStart c g; DEntered c g; DBodyStart c; DBodyEnd c e; DExitStart c g e; DResult c (Some (Some XCancel))]
  /\ (e = body_exc cfg c \/ e = Some XCancel).
Proof.
  intros cfg s1 s2 c k g e H.
  assert (Hc : c < length (d_raises cfg)) by (apply (dpc_in_range cfg s1); rewrite H; discriminate).
  destruct (call_shape cfg s1 c Hc) as [g0 Hi]. rewrite H in Hi. cbn [linv] in Hi. destruct Hi as (<- & Hl & He).
  split; [|tauto].
  rewrite dexec_app_cons.
  pose proof (view_dstep_same cfg (dexec cfg s1) (DCancelAt c)) as V. cbn [target is_cancel] in V.
  unfold view at 2 in V. rewrite H, Hl in V. unfold lapply, lstep in V. cbn [fst snd] in V.
  pose proof (done_stable cfg c s2 _ (f_equal fst V)) as D. rewrite V in D.
  apply (f_equal snd) in D. exact D.
Qed.

(* ------------------------------------------------------------------------------------------------ *)
(* 3. fresh generators                                                                               *)
(* ------------------------------------------------------------------------------------------------ *)

Definition gen_of (e : devent) : option nat :=
  match e with
  | DEnterStart _ g | DEntered _ g | DExitStart _ g _ | DExited _ g => Some g
  | DBodyStart _ | DBodyEnd _ _ | DResult _ _ => None
  end.

Lemma lstep_enterstart : forall cfg c g pc b c' g',
  In (DEnterStart c' g') (snd (lstep cfg c g pc b)) -> c' = c /\ g' = g /\ pc = DNot /\ b = false.
Proof.
  intros cfg c g pc b c' g'. unfold lstep, lbody, lexit, finish, cancel_result.
  destruct b; destruct pc as [|[|[|j]] g0|[|[|j]] g0|[|[|j]] g0 x|];
  destruct (d_se cfg); destruct (d_sb cfg); destruct (d_sx cfg); simpl;
  intro H; repeat (destruct H as [H|H]; [try discriminate H; inversion H; auto|]); contradiction.
Qed.

Definition fg_inv (s : dstate) : Prop :=
  (forall c g, In (DEnterStart c g) (d_log s) -> g < d_next_gen s) /\
  (forall c c' g, In (DEnterStart c g) (d_log s) -> In (DEnterStart c' g) (d_log s) -> c = c').

Lemma fg_step : forall cfg s a, d_generator_based cfg = true -> fg_inv s -> fg_inv (dstep cfg s a).
Proof.
  intros cfg s a Hgb [H1 H2].
  assert (Hnew : forall c g, In (DEnterStart c g)
            (snd (lstep cfg (target a) (cur_gen cfg s) (dpc_of s (target a)) (is_cancel a))) ->
            c = target a /\ g = d_next_gen s /\ d_next_gen (dstep cfg s a) = S (d_next_gen s)).
  { intros c g Hin. apply lstep_enterstart in Hin. destruct Hin as (-> & -> & Hpc & Hb).
    split; auto. split; [unfold cur_gen; rewrite Hgb; reflexivity|].
    rewrite bumps_next_gen, Hpc, Hb. unfold bumps. rewrite Hgb. reflexivity. }
  assert (Hmono : d_next_gen s <= d_next_gen (dstep cfg s a)).
  { rewrite bumps_next_gen. destruct (bumps _ _ _); lia. }
  assert (Hlog : d_log (dstep cfg s a) = d_log s ++
            snd (lstep cfg (target a) (cur_gen cfg s) (dpc_of s (target a)) (is_cancel a))).
  { rewrite dstep_local. reflexivity. }
  unfold fg_inv. rewrite Hlog. split.
  - intros c g Hin. apply in_app_or in Hin. destruct Hin as [Hin|Hin].
    + apply H1 in Hin. lia.
    + apply Hnew in Hin. lia.
  - intros c c' g Hin Hin'. apply in_app_or in Hin. apply in_app_or in Hin'.
    destruct Hin as [Hin|Hin]; destruct Hin' as [Hin'|Hin'].
    + eapply H2; eauto.
    + apply H1 in Hin. apply Hnew in Hin'. lia.
    + apply H1 in Hin'. apply Hnew in Hin. lia.
    + apply Hnew in Hin. apply Hnew in Hin'. destruct Hin as [-> _]. destruct Hin' as [-> _]. reflexivity.
Qed.
Lemma fg_drun : forall cfg sched s, d_generator_based cfg = true -> fg_inv s -> fg_inv (drun cfg s sched).
Proof. intros cfg sched; induction sched; simpl; intros; auto. apply IHsched; auto. apply fg_step; auto. Qed.

(* 2a. two different calls never use the same generator *)
Theorem fresh_generators : forall cfg sched c c' g, d_generator_based cfg = true ->
  In (DEnterStart c g) (d_log (dexec cfg sched)) -> In (DEnterStart c' g) (d_log (dexec cfg sched)) -> c = c'.
Proof.
  intros cfg sched c c' g Hgb. unfold dexec.
  assert (H : fg_inv (drun cfg (d_init cfg) sched)).
  { apply fg_drun; auto. split; simpl; intros; contradiction. }
  destruct H as [_ H2]. apply H2.
Qed.
(* and every generator number used so far is below the counter *)
Theorem generators_below_counter : forall cfg sched c g, d_generator_based cfg = true ->
  In (DEnterStart c g) (d_log (dexec cfg sched)) -> g < d_next_gen (dexec cfg sched).
Proof.
  intros cfg sched c g Hgb. unfold dexec.
  assert (H : fg_inv (drun cfg (d_init cfg) sched)).
  { apply fg_drun; auto. split; simpl; intros; contradiction. }
  destruct H as [H1 _]. apply H1.
Qed.

Lemma fate_sequence_gen : forall cfg c g f e g', In e (fate_sequence cfg c g f) -> gen_of e = Some g' -> g' = g.
Proof.
  intros cfg c g f e g' H. destruct f; simpl in H;
  repeat (destruct H as [H|H]; [subst e; simpl; congruence|]); contradiction.
Qed.

(* 2b. all events of a call mention the one generator it was entered with (any kind of manager) *)
Theorem one_generator_per_call : forall cfg sched c g e g',
  In (DEnterStart c g) (d_log (dexec cfg sched)) ->
  In e (d_log (dexec cfg sched)) -> call_of e = c -> gen_of e = Some g' -> g' = g.
Proof.
  intros cfg sched c g e g' H1 H2 Hc Hg.
  destruct (call_projection_general cfg sched c) as (g0 & f & [r Hp] & _ & _).
  apply (in_projection c) in H1; [|reflexivity]. apply (in_projection c) in H2; auto.
  assert (A : forall x, In x (projection c (d_log (dexec cfg sched))) -> In x (fate_sequence cfg c g0 f)).
  { intros x Hx. rewrite Hp. apply in_or_app; auto. }
  apply A in H1. apply A in H2.
  rewrite (fate_sequence_gen _ _ _ _ _ _ H2 Hg). symmetry.
  apply (fate_sequence_gen _ _ _ _ _ _ H1). reflexivity.
Qed.
(* a manager that is not generator based always uses number 0 *)
Lemma plain_enterstart_zero : forall cfg sched s, d_generator_based cfg = false ->
  (forall c g, In (DEnterStart c g) (d_log s) -> g = 0) ->
  forall c g, In (DEnterStart c g) (d_log (drun cfg s sched)) -> g = 0.
Proof.
  intros cfg sched; induction sched as [|a r IH]; simpl; intros s Hgb Hs; auto.
  apply IH; auto. rewrite dstep_local. cbn [d_log]. intros c g Hin.
  apply in_app_or in Hin. destruct Hin as [Hin|Hin]; [eapply Hs; eauto|].
  apply lstep_enterstart in Hin. destruct Hin as (_ & -> & _). unfold cur_gen. rewrite Hgb. reflexivity.
Qed.
Theorem plain_manager_generator_zero : forall cfg sched e g, d_generator_based cfg = false ->
  In e (d_log (dexec cfg sched)) -> gen_of e = Some g -> g = 0.
Proof.
  intros cfg sched e g Hgb Hin Hg.
  destruct (call_projection_general cfg sched (call_of e)) as (g0 & f & [r Hp] & _ & _).
  pose proof (in_projection (call_of e) _ e Hin eq_refl) as Hin'.
  assert (H0 : In (DEnterStart (call_of e) g0) (projection (call_of e) (d_log (dexec cfg sched)))).
  { destruct (projection (call_of e) (d_log (dexec cfg sched))) as [|x l]; [contradiction|].
    destruct f; simpl in Hp; inversion Hp; left; reflexivity. }
  apply projection_in in H0. destruct H0 as [H0 _].
  assert (g0 = 0).
  { unfold dexec in H0. eapply plain_enterstart_zero; eauto. simpl; intros; contradiction. }
  subst g0. eapply fate_sequence_gen; eauto. rewrite Hp. apply in_or_app; auto.
Qed.

(* ------------------------------------------------------------------------------------------------ *)
(* 4. isolation: calls never interfere                                                               *)
(* ------------------------------------------------------------------------------------------------ *)

Definition set_gen (g : nat) (e : devent) : devent :=
  match e with
  | DEnterStart c _ => DEnterStart c g
  | DEntered c _ => DEntered c g
  | DExitStart c _ x => DExitStart c g x
  | DExited c _ => DExited c g
  | DBodyStart _ | DBodyEnd _ _ | DResult _ _ => e
  end.
Definition strip_gen : devent -> devent := set_gen 0.        (* erase the generator number *)
Definition set_pc_gen (g : nat) (pc : dpc) : dpc :=
  match pc with
  | DEnter k _ => DEnter k g | DBody k _ => DBody k g | DExit k _ e => DExit k g e
  | DNot => DNot | DDone => DDone
  end.
Definition strip_pc : dpc -> dpc := set_pc_gen 0.
(* the actions of a schedule addressed to call c *)
Definition actions_of (c : nat) (sched : list daction) : list daction := filter (fun a => target a =? c) sched.

Definition vrel (v1 v2 : dpc * list devent) : Prop :=
  strip_pc (fst v1) = strip_pc (fst v2) /\ map strip_gen (snd v1) = map strip_gen (snd v2).

Lemma lstep_strip : forall cfg c g1 g2 pc1 pc2 b, strip_pc pc1 = strip_pc pc2 ->
  strip_pc (fst (lstep cfg c g1 pc1 b)) = strip_pc (fst (lstep cfg c g2 pc2 b)) /\
  map strip_gen (snd (lstep cfg c g1 pc1 b)) = map strip_gen (snd (lstep cfg c g2 pc2 b)).
Proof.
  intros cfg c g1 g2 pc1 pc2 b H.
  destruct pc1 as [|k1 h1|k1 h1|k1 h1 e1|]; destruct pc2 as [|k2 h2|k2 h2|k2 h2 e2|];
  try discriminate H; cbn in H; inversion H; subst; clear H;
  unfold lstep, lbody, lexit, finish, cancel_result;
  destruct b; try (destruct k2 as [|[|j]]);
  destruct (d_se cfg); destruct (d_sb cfg); destruct (d_sx cfg); split; reflexivity.
Qed.
Lemma vrel_lapply : forall cfg c g1 g2 v1 v2 b, vrel v1 v2 -> vrel (lapply cfg c g1 v1 b) (lapply cfg c g2 v2 b).
Proof.
  intros cfg c g1 g2 [pc1 l1] [pc2 l2] b [H1 H2]. cbn [fst snd] in *.
  destruct (lstep_strip cfg c g1 g2 pc1 pc2 b H1) as [A B].
  unfold vrel, lapply. cbn [fst snd]. split; auto. rewrite !map_app. congruence.
Qed.
Lemma vrel_refl : forall v, vrel v v.
Proof. intros; split; reflexivity. Qed.

Lemma isolation_drun : forall cfg c sched s1 s2, vrel (view s1 c) (view s2 c) ->
  vrel (view (drun cfg s1 sched) c) (view (drun cfg s2 (actions_of c sched)) c).
Proof.
  intros cfg c sched; induction sched as [|a r IH]; intros s1 s2 H; auto.
  cbn [actions_of filter drun]. fold (actions_of c r). destruct (Nat.eqb_spec (target a) c) as [E|E].
  - cbn [drun]. apply IH. subst c. rewrite !view_dstep_same. apply vrel_lapply; auto.
  - apply IH. rewrite view_dstep_other by auto. exact H.
Qed.

(* 3. the part of the log of call c depends only on the actions addressed to c, up to the generator number *)
Theorem projection_independent : forall cfg sched c,
  map strip_gen (projection c (d_log (dexec cfg sched))) =
  map strip_gen (projection c (d_log (dexec cfg (actions_of c sched)))).
Proof. intros. unfold dexec. apply (isolation_drun cfg c sched (d_init cfg) (d_init cfg) (vrel_refl _)). Qed.
(* ... and so does its program counter *)
Theorem pc_independent : forall cfg sched c,
  strip_pc (dpc_of (dexec cfg sched) c) = strip_pc (dpc_of (dexec cfg (actions_of c sched)) c).
Proof. intros. unfold dexec. apply (isolation_drun cfg c sched (d_init cfg) (d_init cfg) (vrel_refl _)). Qed.

(* without re-created generators (plain ContextDecorator instance) no stripping is needed *)
Lemma isolation_drun_plain : forall cfg c sched s1 s2, d_generator_based cfg = false -> view s1 c = view s2 c ->
  view (drun cfg s1 sched) c = view (drun cfg s2 (actions_of c sched)) c.
Proof.
  intros cfg c sched; induction sched as [|a r IH]; intros s1 s2 Hgb H; auto.
  cbn [actions_of filter drun]. fold (actions_of c r). destruct (Nat.eqb_spec (target a) c) as [E|E].
  - cbn [drun]. apply IH; auto. subst c. rewrite !view_dstep_same. unfold cur_gen. rewrite Hgb, H. reflexivity.
  - apply IH; auto. rewrite view_dstep_other by auto. exact H.
Qed.
Theorem projection_independent_plain : forall cfg sched c, d_generator_based cfg = false ->
  projection c (d_log (dexec cfg sched)) = projection c (d_log (dexec cfg (actions_of c sched)))
  /\ dpc_of (dexec cfg sched) c = dpc_of (dexec cfg (actions_of c sched)) c.
Proof.
  intros cfg sched c Hgb.
  pose proof (isolation_drun_plain cfg c sched (d_init cfg) (d_init cfg) Hgb eq_refl) as H.
  unfold view in H. inversion H as [[H1 H2]]. split; assumption.
Qed.

(* the stronger "renaming" form: the projection in the whole schedule is the projection in the
   sub-schedule of c's own actions with ONE generator number substituted *)
Lemma set_gen_set_gen : forall g h e, set_gen g (set_gen h e) = set_gen g e.
Proof. intros g h e; destruct e; reflexivity. Qed.
Lemma set_gen_fate : forall cfg c g f e, In e (fate_sequence cfg c g f) -> set_gen g e = e.
Proof.
  intros cfg c g f e H. destruct f; simpl in H;
  repeat (destruct H as [H|H]; [subst e; reflexivity|]); contradiction.
Qed.
Theorem projection_renamed : forall cfg sched c, exists g,
  projection c (d_log (dexec cfg sched)) = map (set_gen g) (projection c (d_log (dexec cfg (actions_of c sched)))).
Proof.
  intros cfg sched c.
  destruct (call_projection_general cfg sched c) as (g & f & [r Hp] & _ & _).
  exists g. pose proof (projection_independent cfg sched c) as H.
  apply (f_equal (map (set_gen g))) in H. rewrite !map_map in H.
  rewrite (map_ext (fun x => set_gen g (strip_gen x)) (set_gen g)) in H by (intro; apply set_gen_set_gen).
  rewrite (map_ext (fun x => set_gen g (strip_gen x)) (set_gen g)) in H by (intro; apply set_gen_set_gen).
  rewrite <- H. symmetry.
  rewrite <- (map_id (projection c (d_log (dexec cfg sched)))) at 2.
  apply map_ext_in. intros e He. apply (set_gen_fate cfg c g f). rewrite Hp. apply in_or_app; auto.
Qed.

(* actions addressed to different calls commute, up to the interleaving of the log and the numbering
   of the generators *)
Lemma dset_nth_comm : forall {A} n m (x y : A) l, n <> m ->
  dset_nth n x (dset_nth m y l) = dset_nth m y (dset_nth n x l).
Proof.
  intros A n m x y l; revert n m; induction l; intros [|n] [|m] H; simpl; auto; try congruence.
  f_equal. apply IHl. congruence.
Qed.
Theorem actions_commute : forall cfg s a a', target a <> target a' ->
  let s12 := dstep cfg (dstep cfg s a) a' in
  let s21 := dstep cfg (dstep cfg s a') a in
  d_next_gen s12 = d_next_gen s21
  /\ (forall d, strip_pc (dpc_of s12 d) = strip_pc (dpc_of s21 d))
  /\ (forall d, map strip_gen (projection d (d_log s12)) = map strip_gen (projection d (d_log s21)))
  /\ (d_generator_based cfg = false ->
      d_pcs s12 = d_pcs s21 /\ forall d, projection d (d_log s12) = projection d (d_log s21)).
Proof.
  intros cfg s a a' Hn s12 s21.
  assert (Hpc : dpc_of (dstep cfg s a) (target a') = dpc_of s (target a')).
  { apply (f_equal fst (view_dstep_other cfg s a (target a') (not_eq_sym Hn))). }
  assert (Hpc' : dpc_of (dstep cfg s a') (target a) = dpc_of s (target a)).
  { apply (f_equal fst (view_dstep_other cfg s a' (target a) Hn)). }
  assert (V : forall d, vrel (view s12 d) (view s21 d)).
  { intro d. unfold s12, s21. destruct (Nat.eq_dec d (target a)) as [->|Hd].
    - rewrite (view_dstep_other cfg (dstep cfg s a) a') by auto. rewrite !view_dstep_same.
      rewrite (view_dstep_other cfg s a') by auto. apply vrel_lapply, vrel_refl.
    - destruct (Nat.eq_dec d (target a')) as [->|Hd'].
      + rewrite (view_dstep_other cfg (dstep cfg s a') a) by auto. rewrite !view_dstep_same.
        rewrite (view_dstep_other cfg s a) by auto. apply vrel_lapply, vrel_refl.
      + rewrite !view_dstep_other by auto. apply vrel_refl. }
  split; [|split; [|split]].
  - unfold s12, s21. rewrite !bumps_next_gen, Hpc, Hpc'.
    destruct (bumps cfg (dpc_of s (target a)) (is_cancel a)); destruct (bumps cfg (dpc_of s (target a')) (is_cancel a')); reflexivity.
  - intro d. apply (V d).
  - intro d. apply (V d).
  - intro Hgb.
    assert (G : forall s0, cur_gen cfg s0 = 0) by (intro; unfold cur_gen; rewrite Hgb; reflexivity).
    split.
    + unfold s12, s21. rewrite (dstep_local cfg (dstep cfg s a) a'), (dstep_local cfg (dstep cfg s a') a).
      cbn [d_pcs]. rewrite Hpc, Hpc', !G. rewrite (dstep_local cfg s a), (dstep_local cfg s a'). cbn [d_pcs].
      rewrite !G. apply dset_nth_comm. auto.
    + intro d. unfold s12, s21.
      cut (view (dstep cfg (dstep cfg s a) a') d = view (dstep cfg (dstep cfg s a') a) d);
        [intro VV; exact (f_equal snd VV)|].
      destruct (Nat.eq_dec d (target a)) as [->|Hd].
      * rewrite (view_dstep_other cfg (dstep cfg s a) a') by auto. rewrite !view_dstep_same.
        rewrite (view_dstep_other cfg s a') by auto. rewrite !G. reflexivity.
      * destruct (Nat.eq_dec d (target a')) as [->|Hd'].
        -- rewrite (view_dstep_other cfg (dstep cfg s a') a) by auto. rewrite !view_dstep_same.
           rewrite (view_dstep_other cfg s a) by auto. rewrite !G. reflexivity.
        -- rewrite !view_dstep_other by auto. reflexivity.
Qed.

(* ------------------------------------------------------------------------------------------------ *)
(* 5. sequential calls                                                                               *)
(* ------------------------------------------------------------------------------------------------ *)

(* number of [DRun]s a call still needs before it is done *)
Definition remaining (cfg : dconfig) (pc : dpc) : nat :=
  match pc with
  | DNot => 1 + d_se cfg + d_sb cfg + d_sx cfg
  | DEnter k _ => Nat.max 1 k + d_sb cfg + d_sx cfg
  | DBody k _ => Nat.max 1 k + d_sx cfg
  | DExit k _ _ => Nat.max 1 k
  | DDone => 0
  end.
Definition call_steps (cfg : dconfig) : nat := 1 + d_se cfg + d_sb cfg + d_sx cfg.

Lemma remaining_step : forall cfg c g pc,
  remaining cfg (fst (lstep cfg c g pc false)) = pred (remaining cfg pc).
Proof.
  intros cfg c g pc. unfold lstep, lbody, lexit.
  destruct pc as [|[|[|j]] g'|[|[|j]] g'|[|[|j]] g' x|];
  destruct (d_se cfg) eqn:E1; destruct (d_sb cfg) eqn:E2; destruct (d_sx cfg) eqn:E3;
  cbn [fst remaining]; rewrite ?E1, ?E2, ?E3; lia.
Qed.
Lemma remaining_zero : forall cfg pc, remaining cfg pc = 0 <-> pc = DDone.
Proof. intros cfg pc; destruct pc; cbn [remaining]; split; intro H; try discriminate; auto; lia. Qed.
Lemma lstep_not_dnot : forall cfg c g pc, fst (lstep cfg c g pc false) <> DNot.
Proof.
  intros cfg c g pc. unfold lstep, lbody, lexit.
  destruct pc as [|[|[|j]] g'|[|[|j]] g'|[|[|j]] g' x|];
  destruct (d_se cfg); destruct (d_sb cfg); destruct (d_sx cfg); cbn [fst]; discriminate.
Qed.
Lemma dset_nth_twice : forall {A} n (x y : A) l, dset_nth n x (dset_nth n y l) = dset_nth n x l.
Proof. intros A n x y l; revert n; induction l; intros [|n]; simpl; auto. f_equal; auto. Qed.

(* "[DRun c] repeated until DDone": the number of runs needed is exactly [remaining] *)
Lemma remaining_runs : forall cfg c j s,
  remaining cfg (dpc_of (drun cfg s (repeat (DRun c) j)) c) = remaining cfg (dpc_of s c) - j.
Proof.
  intros cfg c j; induction j as [|j IH]; intro s; cbn [repeat drun]; [lia|].
  rewrite IH. pose proof (f_equal fst (view_dstep_same cfg s (DRun c))) as V.
  cbn [target is_cancel view lapply fst] in V. rewrite V, remaining_step. lia.
Qed.

Lemma solo_aux : forall cfg c g k s L l,
  d_log s = L ++ l -> linv cfg c g false (dpc_of s c) l -> dpc_of s c <> DNot ->
  remaining cfg (dpc_of s c) <= k ->
  drun cfg s (repeat (DRun c) k) = mkD (d_next_gen s) (L ++ full_sequence cfg c g) (dset_nth c DDone (d_pcs s)).
Proof.
  intros cfg c g k; induction k as [|k IH]; intros s L l Hlog Hi Hn Hk; cbn [repeat drun].
  - assert (Hd : dpc_of s c = DDone) by (apply (remaining_zero cfg); lia).
    rewrite Hd in Hi. cbn [linv] in Hi. destruct Hi as (f & -> & Hf). rewrite (Hf eq_refl) in Hlog.
    cbn [fate_sequence] in Hlog. rewrite <- Hlog. rewrite <- Hd. unfold dpc_of. rewrite dset_nth_same.
    destruct s; reflexivity.
  - pose proof (f_equal fst (view_dstep_same cfg s (DRun c))) as V.
    cbn [target is_cancel view lapply fst] in V.
    pose proof (linv_step cfg c g false _ _ false Hi) as Hi'. cbn [orb] in Hi'.
    rewrite (lstep_gen_irrelevant cfg c g (cur_gen cfg s)) in Hi' by auto.
    assert (Hb : bumps cfg (dpc_of s c) false = false).
    { unfold bumps. destruct (dpc_of s c); try congruence; rewrite ?andb_false_r; reflexivity. }
    rewrite (IH (dstep cfg s (DRun c)) L (l ++ snd (lstep cfg c (cur_gen cfg s) (dpc_of s c) false))).
    + rewrite bumps_next_gen. cbn [target is_cancel]. rewrite Hb.
      rewrite (dstep_local cfg s (DRun c)). cbn [d_pcs target is_cancel]. rewrite dset_nth_twice. reflexivity.
    + rewrite (dstep_local cfg s (DRun c)). cbn [d_log target is_cancel]. rewrite Hlog, app_assoc. reflexivity.
    + rewrite V. exact Hi'.
    + rewrite V. apply lstep_not_dnot.
    + rewrite V, remaining_step. lia.
Qed.

(* one call run alone to completion from a state where it has not started *)
Lemma solo_run : forall cfg c k s, dpc_of s c = DNot -> call_steps cfg <= k ->
  drun cfg s (repeat (DRun c) k) =
  mkD (if d_generator_based cfg then S (d_next_gen s) else d_next_gen s)
      (d_log s ++ full_sequence cfg c (cur_gen cfg s)) (dset_nth c DDone (d_pcs s)).
Proof.
  intros cfg c k s Hpc Hk. destruct k as [|k]; [unfold call_steps in Hk; lia|]. cbn [repeat drun].
  pose proof (f_equal fst (view_dstep_same cfg s (DRun c))) as V.
  cbn [target is_cancel view lapply fst] in V. rewrite Hpc in V.
  assert (Hi : linv cfg c (cur_gen cfg s) false DNot []) by reflexivity.
  apply (linv_step cfg c (cur_gen cfg s) false _ _ false) in Hi. cbn [orb app] in Hi.
  rewrite (solo_aux cfg c (cur_gen cfg s) k (dstep cfg s (DRun c)) (d_log s)
             (snd (lstep cfg c (cur_gen cfg s) DNot false))).
  - rewrite bumps_next_gen. cbn [target is_cancel]. rewrite Hpc. unfold bumps. cbn [negb].
    rewrite !andb_true_r. rewrite (dstep_local cfg s (DRun c)). cbn [d_pcs target is_cancel].
    rewrite dset_nth_twice. reflexivity.
  - rewrite (dstep_local cfg s (DRun c)). cbn [d_log target is_cancel]. rewrite Hpc. reflexivity.
  - rewrite V. exact Hi.
  - rewrite V. apply lstep_not_dnot.
  - rewrite V, remaining_step. cbn [remaining]. unfold call_steps in Hk. lia.
Qed.
(* ... and fewer runs than [call_steps] do not complete it *)
Lemma solo_run_exact : forall cfg c j s, dpc_of s c = DNot -> j < call_steps cfg ->
  dpc_of (drun cfg s (repeat (DRun c) j)) c <> DDone.
Proof.
  intros cfg c j s Hpc Hj Hd. apply (remaining_zero cfg) in Hd. rewrite remaining_runs, Hpc in Hd.
  cbn [remaining] in Hd. unfold call_steps in Hj. lia.
Qed.

(* calls 0, 1, ..., n-1 one after the other, call c being run [k c] times *)
Definition sequential_schedule (k : nat -> nat) (n : nat) : list daction :=
  flat_map (fun c => repeat (DRun c) (k c)) (seq 0 n).
Definition gen_number (cfg : dconfig) (c : nat) : nat := if d_generator_based cfg then c else 0.

Lemma flat_map_seq_S : forall {A} (f : nat -> list A) n, flat_map f (seq 0 (S n)) = flat_map f (seq 0 n) ++ f n.
Proof. intros. rewrite seq_S, flat_map_app. simpl. rewrite app_nil_r. reflexivity. Qed.

Lemma sequential_state : forall cfg k n, n <= length (d_raises cfg) -> (forall c, call_steps cfg <= k c) ->
  let s := dexec cfg (sequential_schedule k n) in
  d_next_gen s = gen_number cfg n
  /\ d_log s = flat_map (fun c => full_sequence cfg c (gen_number cfg c)) (seq 0 n)
  /\ (forall c, c < length (d_raises cfg) -> dpc_of s c = if c <? n then DDone else DNot).
Proof.
  intros cfg k n Hn Hk. induction n as [|n IH]; cbn zeta.
  - unfold sequential_schedule, gen_number. cbn [seq flat_map]. unfold dexec. cbn [drun d_init d_next_gen d_log].
    split; [destruct (d_generator_based cfg); reflexivity|]. split; [reflexivity|].
    intros c Hc. apply (f_equal fst (view_init_in cfg c Hc)).
  - destruct (IH ltac:(lia)) as (Hg & Hl & Hp). clear IH.
    unfold sequential_schedule. rewrite flat_map_seq_S. fold (sequential_schedule k n).
    unfold dexec. rewrite drun_app. fold (dexec cfg (sequential_schedule k n)).
    set (s := dexec cfg (sequential_schedule k n)) in *.
    assert (Hpn : dpc_of s n = DNot).
    { rewrite Hp by lia. rewrite Nat.ltb_irrefl. reflexivity. }
    rewrite (solo_run cfg n (k n) s Hpn (Hk n)). cbn [d_next_gen d_log d_pcs].
    split; [|split].
    + rewrite Hg. unfold gen_number. destruct (d_generator_based cfg); reflexivity.
    + rewrite flat_map_seq_S, Hl. unfold cur_gen. rewrite Hg. unfold gen_number.
      destruct (d_generator_based cfg); reflexivity.
    + intros c Hc. unfold dpc_of. cbn [d_pcs].
      assert (Hlen : length (d_pcs s) = length (d_raises cfg)) by apply d_pcs_length.
      destruct (Nat.eq_dec c n) as [->|Hcn].
      * rewrite nth_dset_nth_eq by lia. destruct (Nat.ltb_spec n (S n)); [reflexivity|lia].
      * rewrite nth_dset_nth_neq by auto. fold (dpc_of s c). rewrite Hp by auto.
        destruct (Nat.ltb_spec c n); destruct (Nat.ltb_spec c (S n)); try reflexivity; lia.
Qed.

(* 4. any number of sequential calls: the log is the concatenation of the full sequences, with generator
      numbers 0, 1, ..., n-1 for a re-created (generator based) manager and 0 for a plain one *)
Theorem sequential_calls : forall cfg k n, n <= length (d_raises cfg) -> (forall c, call_steps cfg <= k c) ->
  d_log (dexec cfg (sequential_schedule k n)) =
  flat_map (fun c => full_sequence cfg c (gen_number cfg c)) (seq 0 n).
Proof. intros cfg k n Hn Hk. apply (sequential_state cfg k n Hn Hk). Qed.
Corollary sequential_calls_generator_based : forall cfg n, d_generator_based cfg = true -> n <= length (d_raises cfg) ->
  d_log (dexec cfg (sequential_schedule (fun _ => call_steps cfg) n)) =
  flat_map (fun c => full_sequence cfg c c) (seq 0 n).
Proof.
  intros cfg n Hgb Hn. rewrite sequential_calls; auto.
  apply flat_map_ext. intro c. unfold gen_number. rewrite Hgb. reflexivity.
Qed.
Theorem sequential_calls_done : forall cfg k n c, n <= length (d_raises cfg) -> (forall c, call_steps cfg <= k c) ->
  c < length (d_raises cfg) ->
  dpc_of (dexec cfg (sequential_schedule k n)) c = if c <? n then DDone else DNot.
Proof. intros cfg k n c Hn Hk. apply (sequential_state cfg k n Hn Hk). Qed.
(* [call_steps] runs are exactly what "until DDone" takes, whatever was run before *)
Theorem runs_until_done : forall cfg sched c j, dpc_of (dexec cfg sched) c = DNot -> j < call_steps cfg ->
  dpc_of (drun cfg (dexec cfg sched) (repeat (DRun c) j)) c <> DDone
  /\ dpc_of (drun cfg (dexec cfg sched) (repeat (DRun c) (call_steps cfg))) c = DDone.
Proof.
  intros cfg sched c j Hpc Hj. split; [apply solo_run_exact; auto|].
  apply (remaining_zero cfg). rewrite remaining_runs, Hpc. cbn [remaining]. unfold call_steps. lia.
Qed.

(* ------------------------------------------------------------------------------------------------ *)
(* 6. an example: three overlapping calls of a re-created manager with one suspension in each phase; *)
(*    call 1 raises, call 2 is cancelled while suspended in its body                                 *)
(* ------------------------------------------------------------------------------------------------ *)

Definition ex_cfg : dconfig := mkDCfg true 1 1 1 false [false; true; false].
Definition ex_sched : list daction :=
  [DRun 0; DRun 1; DRun 0; DRun 2; DRun 1; DRun 2; DCancelAt 2; DRun 1; DRun 0; DRun 2; DRun 0; DRun 1].
Example ex_overlapping_log :
  d_log (dexec ex_cfg ex_sched) =
  [DEnterStart 0 0; DEnterStart 1 1; DEntered 0 0; DBodyStart 0; DEnterStart 2 2; DEntered 1 1;
   DBodyStart 1; DEntered 2 2; DBodyStart 2;
   DBodyEnd 2 (Some XCancel); DExitStart 2 2 (Some XCancel);
   DBodyEnd 1 (Some (XBody 1)); DExitStart 1 1 (Some (XBody 1));
   DBodyEnd 0 None; DExitStart 0 0 None; DExited 2 2; DResult 2 (Some (Some XCancel));
   DExited 0 0; DResult 0 None; DExited 1 1; DResult 1 (Some (Some (XBody 1)))]
  /\ d_pcs (dexec ex_cfg ex_sched) = [DDone; DDone; DDone].
Proof. vm_compute. split; reflexivity. Qed.
Example ex_overlapping_projections :
  projection 0 (d_log (dexec ex_cfg ex_sched)) = full_sequence ex_cfg 0 0
  /\ projection 1 (d_log (dexec ex_cfg ex_sched)) = full_sequence ex_cfg 1 1
  /\ projection 2 (d_log (dexec ex_cfg ex_sched)) = fate_sequence ex_cfg 2 2 FCancelBody
  /\ full_sequence ex_cfg 1 1 =
     [DEnterStart 1 1; DEntered 1 1; DBodyStart 1; DBodyEnd 1 (Some (XBody 1));
      DExitStart 1 1 (Some (XBody 1)); DExited 1 1; DResult 1 (Some (Some (XBody 1)))]
  /\ map strip_gen (projection 2 (d_log (dexec ex_cfg ex_sched))) =
     map strip_gen (projection 2 (d_log (dexec ex_cfg (actions_of 2 ex_sched))))
  /\ actions_of 2 ex_sched = [DRun 2; DRun 2; DCancelAt 2; DRun 2].
Proof. vm_compute. repeat split; reflexivity. Qed.
(* the same three calls one after the other, with a suppressing manager *)
Example ex_sequential :
  d_log (dexec (mkDCfg true 1 1 1 true [false; true; false])
               (sequential_schedule (fun _ => 4) 3)) =
  [DEnterStart 0 0; DEntered 0 0; DBodyStart 0; DBodyEnd 0 None; DExitStart 0 0 None; DExited 0 0; DResult 0 None;
   DEnterStart 1 1; DEntered 1 1; DBodyStart 1; DBodyEnd 1 (Some (XBody 1)); DExitStart 1 1 (Some (XBody 1));
   DExited 1 1; DResult 1 (Some None);
   DEnterStart 2 2; DEntered 2 2; DBodyStart 2; DBodyEnd 2 None; DExitStart 2 2 None; DExited 2 2; DResult 2 None].
Proof. vm_compute. reflexivity. Qed.

Print Assumptions call_shape.
Print Assumptions call_projection_general.
Print Assumptions call_projection.
Print Assumptions call_projection_without_range_refuted.
Print Assumptions cancelled_in_enter.
Print Assumptions cancelled_in_body.
Print Assumptions cancelled_in_exit.
Print Assumptions fresh_generators.
Print Assumptions generators_below_counter.
Print Assumptions one_generator_per_call.
Print Assumptions plain_manager_generator_zero.
Print Assumptions projection_independent.
Print Assumptions pc_independent.
Print Assumptions projection_independent_plain.
Print Assumptions projection_renamed.
Print Assumptions actions_commute.
Print Assumptions sequential_calls.
Print Assumptions sequential_calls_generator_based.
Print Assumptions sequential_calls_done.
Print Assumptions runs_until_done.
Print Assumptions ex_overlapping_log.
Print Assumptions ex_overlapping_projections.
Print Assumptions ex_sequential.
