(* The generic "regularity" theory of the generator calculus.

   The calculus has no catch combinator: the only places that inspect an outcome are [finally],
   [chain_yield] and [a_zip_longest].  Hence a single injected fault is transparent for every
   computation built from the combinators: either it does not fire inside [m] (both runs agree),
   or it fires and the faulted run ends with that very exception, on a prefix of the fault-free
   trace followed by aclose events only.

   Layout: definitions ([same], [regular], [wfM], [cleanup] exactly as in the assignment, plus the
   working notion [wfG sp] = [wfM] + "the use counter never decreases", parameterised by a flag
   [sp] saying whether released-ness of sources is tracked); a core theory for computations that
   thread an extra state component on every path ([MS], needed for zip_longest), from which the
   closure lemmas for [M] are derived; then closure for every combinator and helper of Model/*. *)
From Coq Require Import List ZArith NArith Bool Arith Lia.
Import ListNotations.
Require Import V.Kernel.Values V.Kernel.Monad V.Model.Builtins V.Model.Itertools V.Model.Heapq V.Proofs.Steps.

(* ------------------------------------------------------------------------------------------ *)
(* Definitions                                                                                  *)
(* ------------------------------------------------------------------------------------------ *)

Definition same (w wf : world) := srcs w = srcs wf /\ log w = log wf /\ nuse w = nuse wf.
Definition closes (l : list event) : Prop := Forall (fun ev => is_close ev = true) l.

(* the two alternatives of [regular], stated on the two result pairs *)
Definition unfiredR {A} (r rf : outcome A * world) (u0 k : nat) (e : exn) : Prop :=
  exists k', pending (snd rf) = Some (k', e) /\ fst rf = fst r /\ same (snd r) (snd rf)
             /\ k = k' + (nuse (snd r) - u0).
Definition firedR {A} (r rf : outcome A * world) (e : exn) : Prop :=
  pending (snd rf) = None /\ fst rf = Exn e /\
  exists pre post d, log (snd rf) = post ++ pre /\ log (snd r) = d ++ pre /\ closes post.

Definition regular {A} (m : M A) : Prop :=
  forall w wf k e, pending w = None -> pending wf = Some (k, e) -> same w wf ->
    unfiredR (m w) (m wf) (nuse w) k e \/ firedR (m w) (m wf) e.

(* the literal text of the assignment, to show [regular] is that statement *)
Definition regular_spec {A} (m : M A) : Prop :=
  forall w wf k e, pending w = None -> pending wf = Some (k, e) -> same w wf ->
    (exists k', pending (snd (m wf)) = Some (k', e) /\ fst (m wf) = fst (m w) /\ same (snd (m w)) (snd (m wf))
                /\ k = k' + (nuse (snd (m w)) - nuse w))
    \/
    (pending (snd (m wf)) = None /\ fst (m wf) = Exn e /\
     exists pre post d, log (snd (m wf)) = post ++ pre /\ log (snd (m w)) = d ++ pre /\
                        Forall (fun ev => is_close ev = true) post).
Lemma regular_is_spec {A} (m : M A) : regular m <-> regular_spec m.
Proof. unfold regular, regular_spec, unfiredR, firedR, closes. split; auto. Qed.

Record wfM {A} (m : M A) : Prop := {
  wf_nofault : forall w, pending w = None -> pending (snd (m w)) = None;
  wf_extends : forall w, exists d, log (snd (m w)) = d ++ log w;
  wf_srcs : forall w, length (srcs (snd (m w))) = length (srcs w) /\
            forall i, released (nth i (srcs w) dead_src) = true -> released (nth i (srcs (snd (m w))) dead_src) = true;
  wf_regular : regular m }.

(* what one run does to the world: [sp] = released-ness of the sources is also preserved *)
Definition ext (sp : bool) (w w' : world) : Prop :=
  (pending w = None -> pending w' = None) /\
  (exists d, log w' = d ++ log w) /\
  length (srcs w') = length (srcs w) /\
  (sp = true -> forall i, released (nth i (srcs w) dead_src) = true -> released (nth i (srcs w') dead_src) = true) /\
  nuse w <= nuse w'.
Definition wfB (sp : bool) {A} (m : M A) : Prop := forall w, ext sp w (snd (m w)).
Definition wfG (sp : bool) {A} (m : M A) : Prop := wfB sp m /\ regular m.

Lemma wfG_wfM {A} (m : M A) : wfG true m -> wfM m.
Proof.
  intros [Hb Hr]. split; auto; intros w; destruct (Hb w) as (H1 & H2 & H3 & H4 & H5); auto.
Qed.
Lemma wfM_wfG {A} (m : M A) : wfM m -> (forall w, nuse w <= nuse (snd (m w))) -> wfG true m.
Proof.
  intros [H1 H2 H3 H4] H5. split; auto. intros w. destruct (H3 w). repeat split; auto.
Qed.

(* finalisers: with no pending fault they succeed and emit only aclose events *)
Definition cleanupG (sp : bool) (fin : M unit) : Prop := wfG sp fin /\ forall w, pending w = None ->
   fst (fin w) = Ok tt /\ exists post, log (snd (fin w)) = post ++ log w /\ closes post.
Definition cleanup (fin : M unit) : Prop := wfM fin /\ forall w, pending w = None ->
   fst (fin w) = Ok tt /\ exists post, log (snd (fin w)) = post ++ log w /\ Forall (fun ev => is_close ev = true) post.
Lemma cleanupG_cleanup fin : cleanupG true fin -> cleanup fin.
Proof. intros [H1 H2]. split; [apply wfG_wfM; assumption | exact H2]. Qed.

(* ------------------------------------------------------------------------------------------ *)
(* [ext] is a preorder                                                                          *)
(* ------------------------------------------------------------------------------------------ *)
Lemma ext_refl sp w : ext sp w w.
Proof. repeat split; auto. exists []; reflexivity. Qed.
Lemma ext_trans sp w1 w2 w3 : ext sp w1 w2 -> ext sp w2 w3 -> ext sp w1 w3.
Proof.
  intros (A1 & [d1 A2] & A3 & A4 & A5) (B1 & [d2 B2] & B3 & B4 & B5). repeat split; auto.
  - exists (d2 ++ d1). rewrite B2, A2, app_assoc. reflexivity.
  - congruence.
  - lia.
Qed.
Lemma ext_weaken sp w w' : ext true w w' -> ext sp w w'.
Proof. intros (A1 & A2 & A3 & A4 & A5). repeat split; auto. Qed.
Lemma wfG_weaken sp {A} (m : M A) : wfG true m -> wfG sp m.
Proof. intros [Hb Hr]. split; auto. intros w. apply ext_weaken, Hb. Qed.
Lemma wfG_ext sp {A} (m m' : M A) : (forall w, m w = m' w) -> wfG sp m -> wfG sp m'.
Proof.
  intros E [Hb Hr]. split.
  - intros w. rewrite <- E. apply Hb.
  - intros w wf k e H1 H2 H3. rewrite <- !E. apply Hr; assumption.
Qed.

(* ------------------------------------------------------------------------------------------ *)
(* Core theory on state-threading computations                                                  *)
(* ------------------------------------------------------------------------------------------ *)
Definition MS (S A : Type) := world -> (outcome A * world) * S.
Definition outS {S A} (g : MS S A) : M A := fun w => fst (g w).
Definition liftS {S A} (s : S) (m : M A) : MS S A := fun w => (m w, s).
Definition bindS {S A B} (g : MS S A) (h : A -> S -> MS S B) : MS S B := fun w =>
  match g w with
  | ((Ok a, w1), s) => h a s w1
  | ((Exn e, w1), s) => ((Exn e, w1), s)
  | ((Fuel, w1), s) => ((Fuel, w1), s)
  end.
Definition finallyS {S A} (g : MS S A) (fin : S -> M unit) : M A := fun w =>
  let '((o, w1), s) := g w in
  match o with
  | Fuel => (Fuel, w1)
  | _ => match fin s w1 with
         | (Ok _, w2) => (o, w2)
         | (Exn e, w2) => (Exn e, w2)
         | (Fuel, w2) => (Fuel, w2)
         end
  end.

Definition regularS {S A} (g : MS S A) : Prop :=
  forall w wf k e, pending w = None -> pending wf = Some (k, e) -> same w wf ->
    (unfiredR (fst (g w)) (fst (g wf)) (nuse w) k e /\ snd (g wf) = snd (g w))
    \/ firedR (fst (g w)) (fst (g wf)) e.
Definition wfGS (sp : bool) {S A} (g : MS S A) : Prop := wfB sp (outS g) /\ regularS g.

Lemma wfGS_lift sp {S A} (s : S) (m : M A) : wfG sp m -> wfGS sp (liftS s m).
Proof.
  intros [Hb Hr]. split; [exact Hb|].
  intros w wf k e H1 H2 H3. destruct (Hr w wf k e H1 H2 H3) as [H|H]; [left; split; auto | right; auto].
Qed.
Lemma wfGS_out sp {S A} (g : MS S A) : wfGS sp g -> wfG sp (outS g).
Proof.
  intros [Hb Hr]. split; [exact Hb|].
  intros w wf k e H1 H2 H3. destruct (Hr w wf k e H1 H2 H3) as [[H _]|H]; [left|right]; exact H.
Qed.
Lemma wfGS_ext sp {S A} (g g' : MS S A) : (forall w, g w = g' w) -> wfGS sp g -> wfGS sp g'.
Proof.
  intros E [Hb Hr]. split.
  - intros w. unfold outS. rewrite <- E. apply Hb.
  - intros w wf k e H1 H2 H3. rewrite <- !E. apply Hr; assumption.
Qed.

Lemma wfGS_bind sp {S A B} (g : MS S A) (h : A -> S -> MS S B) :
  wfGS sp g -> (forall a s, wfGS sp (h a s)) -> wfGS sp (bindS g h).
Proof.
  intros [Hb Hr] Hh. split.
  - intros w. unfold outS, bindS. specialize (Hb w). unfold outS in Hb.
    destruct (g w) as [[[a|e0|] w1] s]; cbn in *; auto.
    eapply ext_trans; [exact Hb|]. apply (proj1 (Hh a s)).
  - intros w wf k e Hw Hf Hs. unfold bindS.
    pose proof (Hb w) as Hbw. unfold outS in Hbw.
    specialize (Hr w wf k e Hw Hf Hs).
    destruct (g w) as [[o w1] s], (g wf) as [[o' wf1] s']. cbn in *.
    destruct Hr as [[(k' & Hp & Ho & Hsm & Hk) Hst] | (Hp & Ho & pre & post & d & L1 & L2 & Hc)];
      cbn in *; subst.
    + destruct o as [a|e0|]; cbn.
      * destruct Hbw as (Hn1 & _ & _ & _ & Hu1).
        destruct (Hh a s) as [Hbh Hrh].
        pose proof (Hbh w1) as (_ & _ & _ & _ & Hu2). unfold outS in Hu2.
        destruct (Hrh w1 wf1 k' e (Hn1 Hw) Hp Hsm)
          as [[(k'' & Hp2 & Ho2 & Hsm2 & Hk2) Hst2] | (Hp2 & Ho2 & pre & post & d & L1 & L2 & Hc)].
        -- left. split; [|exact Hst2]. exists k''. repeat split; try apply Hsm2; auto. lia.
        -- right. repeat split; auto. exists pre, post, d. auto.
      * left. split; [|reflexivity]. exists k'. repeat split; try apply Hsm; auto.
      * left. split; [|reflexivity]. exists k'. repeat split; try apply Hsm; auto.
    + right. cbn. repeat split; auto.
      destruct o as [a|e0|]; cbn; try solve [exists pre, post, d; auto].
      destruct (proj1 (Hh a s) w1) as (_ & [d2 Hd2] & _). unfold outS in Hd2.
      exists pre, post, (d2 ++ d). repeat split; auto. rewrite Hd2, L2, app_assoc. reflexivity.
Qed.

(* --- finallyS --- *)
Lemma finallyS_fuel {S A} (g : MS S A) fin w :
  fst (fst (g w)) = Fuel -> finallyS g fin w = (Fuel, snd (fst (g w))).
Proof. unfold finallyS. destruct (g w) as [[o w1] s]; cbn. intros ->. reflexivity. Qed.
Lemma finallyS_run {S A} (g : MS S A) fin w :
  fst (fst (g w)) <> Fuel ->
  snd (finallyS g fin w) = snd (fin (snd (g w)) (snd (fst (g w)))) /\
  fst (finallyS g fin w) = match fst (fin (snd (g w)) (snd (fst (g w)))) with
                           | Ok _ => fst (fst (g w)) | Exn e => Exn e | Fuel => Fuel end.
Proof.
  unfold finallyS. destruct (g w) as [[o w1] s]; cbn. intros Ho.
  destruct o as [a|e0|]; try congruence; destruct (fin s w1) as [[u|e1|] w2]; cbn; auto.
Qed.

Lemma wfB_finallyS sp {S A} (g : MS S A) fin :
  wfB sp (outS g) -> (forall s, wfB sp (fin s)) -> wfB sp (finallyS g fin).
Proof.
  intros Hb Hf w. specialize (Hb w). unfold outS in Hb.
  destruct (fst (fst (g w))) eqn:Ho.
  - destruct (finallyS_run g fin w) as [-> _]; [congruence|]. eapply ext_trans; [exact Hb|apply Hf].
  - destruct (finallyS_run g fin w) as [-> _]; [congruence|]. eapply ext_trans; [exact Hb|apply Hf].
  - rewrite finallyS_fuel by assumption. exact Hb.
Qed.

Lemma wfG_finallyS sp {S A} (g : MS S A) fin :
  wfGS sp g -> (forall s, cleanupG sp (fin s)) -> wfG sp (finallyS g fin).
Proof.
  intros [Hb Hr] Hc.
  assert (HB : wfB sp (finallyS g fin)) by (apply wfB_finallyS; [exact Hb | intros s; apply (Hc s)]).
  split; [exact HB|].
  intros w wf k e Hw Hf Hs.
  pose proof (Hb w) as Hbw. unfold outS in Hbw.
  destruct (Hr w wf k e Hw Hf Hs) as [[(k' & Hp & Ho & Hsm & Hk) Hst] | (Hp & Ho & pre & post & d & L1 & L2 & Hcl)].
  - (* the fault did not fire in the body *)
    destruct (fst (fst (g w))) eqn:Eo.
    + (* Ok *)
      assert (N1 : fst (fst (g w)) <> Fuel) by congruence.
      assert (N2 : fst (fst (g wf)) <> Fuel) by congruence.
      destruct (finallyS_run g fin w N1) as [S1 F1]. destruct (finallyS_run g fin wf N2) as [S2 F2].
      destruct Hbw as (Hn1 & _ & _ & _ & Hu1).
      destruct (Hc (snd (g w))) as [[Hfb Hfr] _].
      pose proof (Hfb (snd (fst (g w)))) as (_ & _ & _ & _ & Hu2).
      rewrite Hst in *.
      destruct (Hfr _ _ k' e (Hn1 Hw) Hp Hsm) as [(k'' & Hp2 & Ho2 & Hsm2 & Hk2) | (Hp2 & Ho2 & pre & post & d & L1 & L2 & Hcl)].
      * left. exists k''. unfold unfiredR. rewrite S1, S2, F1, F2, Ho2, Ho, Eo. repeat split; try apply Hsm2; auto. lia.
      * right. unfold firedR. rewrite S1, S2, F2, Ho2. repeat split; auto. exists pre, post, d. auto.
    + (* Exn *)
      assert (N1 : fst (fst (g w)) <> Fuel) by congruence.
      assert (N2 : fst (fst (g wf)) <> Fuel) by congruence.
      destruct (finallyS_run g fin w N1) as [S1 F1]. destruct (finallyS_run g fin wf N2) as [S2 F2].
      destruct Hbw as (Hn1 & _ & _ & _ & Hu1).
      destruct (Hc (snd (g w))) as [[Hfb Hfr] _].
      pose proof (Hfb (snd (fst (g w)))) as (_ & _ & _ & _ & Hu2).
      rewrite Hst in *.
      destruct (Hfr _ _ k' e (Hn1 Hw) Hp Hsm) as [(k'' & Hp2 & Ho2 & Hsm2 & Hk2) | (Hp2 & Ho2 & pre & post & d & L1 & L2 & Hcl)].
      * left. exists k''. unfold unfiredR. rewrite S1, S2, F1, F2, Ho2, Ho, Eo. repeat split; try apply Hsm2; auto. lia.
      * right. unfold firedR. rewrite S1, S2, F2, Ho2. repeat split; auto. exists pre, post, d. auto.
    + (* Fuel *)
      left. rewrite (finallyS_fuel g fin w Eo), (finallyS_fuel g fin wf) by congruence.
      exists k'. cbn. repeat split; try apply Hsm; auto.
  - (* it fired in the body: the finaliser runs fault-free *)
    right.
    assert (N2 : fst (fst (g wf)) <> Fuel) by congruence.
    destruct (finallyS_run g fin wf N2) as [S2 F2].
    destruct (Hc (snd (g wf))) as [[Hfb _] Hcf].
    destruct (Hcf _ Hp) as (Hok & post2 & Hl2 & Hc2).
    pose proof (Hfb (snd (fst (g wf)))) as (Hn2 & _).
    unfold firedR. rewrite S2, F2, Hok. repeat split; auto.
    destruct (HB w) as (_ & [d2 Hd2] & _).
    destruct (fst (fst (g w))) eqn:Eo.
    1,2: assert (N1 : fst (fst (g w)) <> Fuel) by congruence;
         destruct (finallyS_run g fin w N1) as [S1 _]; rewrite S1;
         destruct (Hc (snd (g w))) as [[Hfb1 _] _];
         destruct (Hfb1 (snd (fst (g w)))) as (_ & [d3 Hd3] & _);
         exists pre, (post2 ++ post), (d3 ++ d); repeat split;
         [ rewrite Hl2, L1, app_assoc; reflexivity | rewrite Hd3, L2, app_assoc; reflexivity
         | apply Forall_app; split; assumption ].
    rewrite (finallyS_fuel g fin w Eo). exists pre, (post2 ++ post), d. repeat split; auto.
    + rewrite Hl2, L1, app_assoc; reflexivity.
    + apply Forall_app; split; assumption.
Qed.

(* fuel computed from the sources at entry: the same in both runs *)
Lemma wfGS_fueled sp {S A} (f : nat -> MS S A) (n : world -> nat) :
  (forall w wf, srcs w = srcs wf -> n w = n wf) -> (forall k, wfGS sp (f k)) -> wfGS sp (fun w => f (n w) w).
Proof.
  intros Hn Hf. split.
  - intros w. apply (proj1 (Hf (n w))).
  - intros w wf k e H1 H2 H3. rewrite <- (Hn w wf (proj1 H3)). apply (proj2 (Hf (n w))); assumption.
Qed.
(* tagging the run with a function of its outcome *)
Lemma wfGS_tag sp {S A} (m : M A) (phi : outcome A -> S) : wfG sp m -> wfGS sp (fun w => (m w, phi (fst (m w)))).
Proof.
  intros [Hb Hr]. split; [exact Hb|].
  intros w wf k e H1 H2 H3. cbn. destruct (Hr w wf k e H1 H2 H3) as [H|H]; [left|right; exact H].
  split; [exact H|]. destruct H as (k' & _ & -> & _). reflexivity.
Qed.

(* ------------------------------------------------------------------------------------------ *)
(* Closure lemmas for [M]                                                                       *)
(* ------------------------------------------------------------------------------------------ *)
Lemma wfG_bind sp {A B} (m : M A) (f : A -> M B) : wfG sp m -> (forall a, wfG sp (f a)) -> wfG sp (bind m f).
Proof.
  intros Hm Hf.
  apply (wfG_ext sp (outS (bindS (liftS tt m) (fun a _ => liftS tt (f a))))).
  - intros w. unfold outS, bindS, liftS, bind. destruct (m w) as [[a|e|] w1]; reflexivity.
  - apply wfGS_out, wfGS_bind; [apply wfGS_lift; exact Hm | intros a s; apply wfGS_lift, Hf].
Qed.
Lemma wfG_finally sp {A} (m : M A) fin : wfG sp m -> cleanupG sp fin -> wfG sp (finally m fin).
Proof.
  intros Hm Hc.
  apply (wfG_ext sp (finallyS (liftS tt m) (fun _ => fin))).
  - intros w. unfold finallyS, liftS, finally. destruct (m w) as [[a|e|] w1]; reflexivity.
  - apply wfG_finallyS; [apply wfGS_lift | intros _]; assumption.
Qed.
Lemma wfG_fueled sp {A} (f : nat -> M A) (n : world -> nat) :
  (forall w wf, srcs w = srcs wf -> n w = n wf) -> (forall k, wfG sp (f k)) -> wfG sp (fun w => f (n w) w).
Proof.
  intros Hn Hf. split.
  - intros w. apply (proj1 (Hf (n w))).
  - intros w wf k e H1 H2 H3. rewrite <- (Hn w wf (proj1 H3)). apply (proj2 (Hf (n w))); assumption.
Qed.

(* computations that do not touch the world *)
Lemma wfG_pure sp {A} (o : outcome A) : wfG sp (fun w => (o, w)).
Proof.
  split; [intros w; apply ext_refl|].
  intros w wf k e Hw Hf Hs. left. exists k. cbn. repeat split; try apply Hs; auto. lia.
Qed.
Lemma wfG_ret sp {A} (a : A) : wfG sp (ret a). Proof. apply wfG_pure. Qed.
Lemma wfG_raise sp {A} e : wfG sp (@raise A e). Proof. apply wfG_pure. Qed.
Lemma wfG_fuel sp {A} : wfG sp (@out_of_fuel A). Proof. apply wfG_pure. Qed.

Lemma wfG_emit sp ev : wfG sp (emit ev).
Proof.
  split.
  - intros w. repeat split; cbn; auto. exists [ev]; reflexivity.
  - intros w wf k e Hw Hf (H1 & H2 & H3). left. exists k. cbn. repeat split; cbn; auto; try congruence. lia.
Qed.
Lemma wfG_use sp : wfG sp use.
Proof.
  split.
  - intros w. unfold use. destruct (pending w) as [[[|n] e]|] eqn:E; repeat split; cbn; auto; try congruence;
      exists []; reflexivity.
  - intros w wf k e Hw Hf (H1 & H2 & H3). unfold use. rewrite Hw, Hf. destruct k as [|k].
    + right. repeat split; cbn; auto. exists (log w), [], []. repeat split; auto. constructor.
    + left. exists k. unfold same; cbn [fst snd nuse pending srcs log]. repeat split; auto; lia.
Qed.
Lemma wfG_get_src sp i : wfG sp (get_src i).
Proof.
  split; [intros w; apply ext_refl|].
  intros w wf k e Hw Hf (H1 & H2 & H3). left. exists k. cbn. rewrite H1. repeat split; auto. lia.
Qed.

Lemma nth_upd {A} i j (x d : A) l :
  nth j (upd i x l) d = if Nat.eqb i j && Nat.ltb i (length l) then x else nth j l d.
Proof.
  revert i j; induction l as [|h t IH]; intros [|i] [|j]; cbn; auto.
  - rewrite andb_false_r. reflexivity.
  - rewrite IH. reflexivity.
Qed.
Lemma upd_mono sp i s ss :
  (sp = true -> released (nth i ss dead_src) = true -> released s = true) ->
  length (upd i s ss) = length ss /\
  (sp = true -> forall j, released (nth j ss dead_src) = true -> released (nth j (upd i s ss) dead_src) = true).
Proof.
  intros H. split; [apply upd_length|]. intros Hsp j Hj. rewrite nth_upd.
  destruct (Nat.eqb i j) eqn:E; cbn [andb]; auto. apply Nat.eqb_eq in E; subst j.
  destruct (i <? length ss); auto.
Qed.
(* writing a source: fine when released-ness is not tracked, or the new state is released *)
Lemma wfG_set_src sp i s : (sp = true -> released s = true) -> wfG sp (set_src i s).
Proof.
  intros Hs. split.
  - intros w. destruct (upd_mono sp i s (srcs w)) as [L R]; [auto|].
    repeat split; cbn; auto. exists []; reflexivity.
  - intros w wf k e Hw Hf (H1 & H2 & H3). left. exists k. cbn. repeat split; cbn; auto; try congruence. lia.
Qed.
(* ... but not in general: *)
Lemma wfM_set_src_refuted : exists i s, ~ wfM (set_src i s).
Proof.
  exists 0, (mkSrc [] false 0 0 true). intros [_ _ H _].
  destruct (H (mkW [mkSrc [] true 0 0 true] [] None 0)) as [_ H0]. specialize (H0 0 eq_refl). discriminate.
Qed.

Lemma pull_eq i ss lg p u : pull i (mkW ss lg p u) =
  match p with
  | Some (0, e) => (Exn e, mkW ss (EPull i :: lg) None (S u))
  | _ =>
    let p' := match p with Some (S n, e) => Some (n, e) | _ => None end in
    let s := nth i ss dead_src in
    if (0 <? s_closed s) || s_exh s then (Ok None, mkW ss (EEnd i :: EPull i :: lg) p' (S u))
    else match s_items s with
         | [] => (Ok None, mkW (upd i (mkSrc [] true (s_closing s) (s_closed s) (s_acl s)) ss)
                               (EEnd i :: EPull i :: lg) p' (S u))
         | x :: xs => (Ok (Some x), mkW (upd i (mkSrc xs false (s_closing s) (s_closed s) (s_acl s)) ss)
                                        (EItem i x :: EPull i :: lg) p' (S u))
         end
  end.
Proof.
  unfold pull, bind, emit, use, get_src, set_src, ret, set_log, set_srcs; cbn.
  destruct p as [[[|n] e]|]; cbn; try reflexivity;
    destruct (nth i ss dead_src) as [its ex cg cd ac]; cbn; destruct cd, ex; cbn; try reflexivity;
    destruct its; reflexivity.
Qed.

Lemma wfG_pull sp i : wfG sp (pull i).
Proof.
  apply wfG_weaken. split.
  - intros [ss lg p u]. rewrite pull_eq.
    assert (Hn : forall n e, (match p with Some (S n, e) => Some (n, e) | _ => None end) = Some (n, e) -> p <> None)
      by (intros n e H; destruct p; congruence).
    destruct (nth i ss dead_src) as [its ex cg cd ac] eqn:Es.
    assert (X : forall its' ex', (ex = true -> ex' = true) ->
               length (upd i (mkSrc its' ex' cg cd ac) ss) = length ss /\
               (true = true -> forall j, released (nth j ss dead_src) = true ->
                  released (nth j (upd i (mkSrc its' ex' cg cd ac) ss) dead_src) = true)).
    { intros its' ex' Hex. apply upd_mono. intros _. rewrite Es. unfold released; cbn.
      destruct ex; [rewrite Hex; auto|]. cbn. destruct ex'; auto. }
    destruct p as [[[|n] e]|]; cbn - [Nat.ltb].
    + repeat split; cbn; auto; try congruence. exists [EPull i]; reflexivity.
    + destruct ((0 <? cd) || ex) eqn:E2; [|destruct its as [|x xs]]; cbn.
      * repeat split; cbn; auto; try congruence. exists [EEnd i; EPull i]; reflexivity.
      * destruct (X [] true) as [L R]; [auto|]. repeat split; cbn; auto; try congruence.
        exists [EEnd i; EPull i]; reflexivity.
      * apply orb_false_elim in E2. destruct E2 as [_ ->].
        destruct (X xs false) as [L R]; [congruence|]. repeat split; cbn; auto; try congruence.
        exists [EItem i x; EPull i]; reflexivity.
    + destruct ((0 <? cd) || ex) eqn:E2; [|destruct its as [|x xs]]; cbn.
      * repeat split; cbn; auto; try congruence. exists [EEnd i; EPull i]; reflexivity.
      * destruct (X [] true) as [L R]; [auto|]. repeat split; cbn; auto; try congruence.
        exists [EEnd i; EPull i]; reflexivity.
      * apply orb_false_elim in E2. destruct E2 as [_ ->].
        destruct (X xs false) as [L R]; [congruence|]. repeat split; cbn; auto; try congruence.
        exists [EItem i x; EPull i]; reflexivity.
  - intros [ss lg p u] [ss' lg' p' u'] k e Hw Hf (H1 & H2 & H3). cbn [srcs log nuse pending] in *. subst.
    rewrite !pull_eq. destruct k as [|k]; cbn - [Nat.ltb].
    + right. unfold firedR.
      destruct ((0 <? s_closed (nth i ss' dead_src)) || s_exh (nth i ss' dead_src));
        [|destruct (s_items (nth i ss' dead_src))]; cbn [fst snd pending log]; repeat split; auto.
      * exists (EPull i :: lg'), [], [EEnd i]. repeat split; auto. constructor.
      * exists (EPull i :: lg'), [], [EEnd i]. repeat split; auto. constructor.
      * exists (EPull i :: lg'), [], [EItem i v]. repeat split; auto. constructor.
    + left. exists k. unfold same.
      destruct ((0 <? s_closed (nth i ss' dead_src)) || s_exh (nth i ss' dead_src));
        [|destruct (s_items (nth i ss' dead_src))]; cbn [fst snd pending log srcs nuse]; repeat split; auto; lia.
Qed.

Ltac wfb := repeat (apply wfG_bind; [|intro]).
Lemma wfG_call sp f impl args : wfG sp (call f impl args).
Proof. unfold call. wfb; [apply wfG_emit | apply wfG_use | apply wfG_ret]. Qed.
Lemma wfG_yield_to sp v : wfG sp (yield_to v).
Proof. unfold yield_to. wfb; [apply wfG_emit | apply wfG_use]. Qed.
Lemma released_closing l e c d a : released (mkSrc l e (S c) d a) = true.
Proof. destruct e; reflexivity. Qed.
Lemma wfG_close sp i : wfG sp (close i).
Proof.
  unfold close. apply wfG_bind; [apply wfG_get_src|intros s].
  destruct (s_acl s); [|apply wfG_ret].
  wfb; [apply wfG_emit | apply wfG_set_src | apply wfG_use | apply wfG_set_src]; intros _; apply released_closing.
Qed.
(* the scripted callable of iter(callable, sentinel) rewrites "source" 0: released-ness is not tracked *)
Lemma wfG_call_script : wfG false call_script.
Proof.
  unfold call_script. apply wfG_bind; [apply wfG_emit|intros _]. apply wfG_bind; [apply wfG_use|intros _].
  apply wfG_bind; [apply wfG_get_src|intros s].
  destruct (s_items s); [apply wfG_raise|].
  apply wfG_bind; [apply wfG_set_src; discriminate | intros _; apply wfG_ret].
Qed.
Lemma wfM_call_script_refuted : ~ wfM call_script.
Proof.
  intros [_ _ H _].
  destruct (H (mkW [mkSrc [VNone] true 0 0 true] [] None 0)) as [_ H0]. specialize (H0 0 eq_refl). discriminate.
Qed.

(* --- finalisers --- *)
Lemma cleanupG_ret sp : cleanupG sp (ret tt).
Proof. split; [apply wfG_ret|]. intros w _. split; auto. exists []. split; auto. constructor. Qed.
Lemma cleanupG_close sp i : cleanupG sp (close i).
Proof.
  split; [apply wfG_close|]. intros [ss lg p u] Hw. cbn in Hw; subst p.
  unfold close, bind, get_src, emit, use, set_src, ret, set_log, set_srcs; cbn.
  destruct (s_acl (nth i ss dead_src)); cbn; split; auto.
  - exists [EClose i]. split; auto. repeat constructor.
  - exists []. split; auto. constructor.
Qed.
Lemma cleanupG_finally sp (m fin : M unit) : cleanupG sp m -> cleanupG sp fin -> cleanupG sp (finally m fin).
Proof.
  intros [Hm Cm] [Hf Cf]. split; [apply wfG_finally; [exact Hm | split; assumption]|].
  intros w Hw. destruct (Cm w Hw) as (O1 & post1 & L1 & P1).
  pose proof (proj1 Hm w) as (N1 & _). specialize (N1 Hw).
  unfold finally. destruct (m w) as [o w1]. cbn in *. subst o.
  destruct (Cf w1 N1) as (O2 & post2 & L2 & P2). destruct (fin w1) as [o2 w2]. cbn in *. subst o2. cbn.
  split; auto. exists (post2 ++ post1). split; [rewrite L2, L1, app_assoc; reflexivity | apply Forall_app; split; assumption].
Qed.
Lemma cleanupG_close_all sp l : cleanupG sp (close_all l).
Proof.
  induction l as [|i r IH]; cbn [close_all]; [apply cleanupG_ret | apply cleanupG_finally; [apply cleanupG_close | exact IH]].
Qed.
Lemma wfG_close_all sp l : wfG sp (close_all l). Proof. apply cleanupG_close_all. Qed.
Lemma wfG_scoped sp {A} i (body : M A) : wfG sp body -> wfG sp (scoped i body).
Proof. intros H. apply wfG_finally; [exact H | apply cleanupG_close]. Qed.

(* --- loops --- *)
Lemma items_left_srcs i w wf : srcs w = srcs wf -> items_left i w = items_left i wf.
Proof. unfold items_left. intros ->. reflexivity. Qed.
Lemma total_left_srcs w wf : srcs w = srcs wf -> total_left w = total_left wf.
Proof. unfold total_left. intros ->. reflexivity. Qed.

Lemma wfG_iter_src sp {St} i (body : St -> val -> M (St * bool)) :
  (forall s x, wfG sp (body s x)) -> forall fuel s, wfG sp (iter_src fuel i body s).
Proof.
  intros Hb fuel. induction fuel as [|f IH]; intros s; cbn [iter_src]; [apply wfG_fuel|].
  apply wfG_bind; [apply wfG_pull | intros [x|]]; [|apply wfG_ret].
  apply wfG_bind; [apply Hb | intros r]. destruct (snd r); [apply IH | apply wfG_ret].
Qed.
Lemma wfG_loop_src sp {St} i (body : St -> val -> M (St * bool)) s :
  (forall s x, wfG sp (body s x)) -> wfG sp (loop_src i body s).
Proof.
  intros Hb. apply (wfG_fueled sp (fun n => iter_src (S n) i body s) (items_left i)).
  - apply items_left_srcs.
  - intros k. apply wfG_iter_src, Hb.
Qed.
Lemma wfG_each sp i (body : val -> M unit) : (forall x, wfG sp (body x)) -> wfG sp (each i body).
Proof.
  intros Hb. unfold each. apply wfG_bind; [|intros _; apply wfG_ret].
  apply wfG_loop_src. intros _ x. apply wfG_bind; [apply Hb | intros _; apply wfG_ret].
Qed.
Lemma wfG_with_fuel sp {A} (f : nat -> M A) : (forall n, wfG sp (f n)) -> wfG sp (with_fuel f).
Proof.
  intros Hf. apply (wfG_fueled sp (fun n => f (S n)) total_left); [apply total_left_srcs | intros k; apply Hf].
Qed.
Lemma wfG_mapM sp {A B} (f : A -> M B) l : (forall x, wfG sp (f x)) -> wfG sp (mapM f l).
Proof.
  intros Hf. induction l as [|x r IH]; cbn [mapM]; [apply wfG_ret|].
  apply wfG_bind; [apply Hf | intros y]. apply wfG_bind; [exact IH | intros ys; apply wfG_ret].
Qed.
Lemma wfG_for_each_fuel sp i (body : val -> M unit) : (forall x, wfG sp (body x)) -> forall n, wfG sp (for_each_fuel n i body).
Proof.
  intros Hb n. induction n as [|n IH]; cbn [for_each_fuel]; [apply wfG_fuel|].
  apply wfG_bind; [apply wfG_pull | intros [x|]]; [|apply wfG_ret].
  apply wfG_bind; [apply Hb | intros _; exact IH].
Qed.
Lemma wfG_for_each sp i (body : val -> M unit) : (forall x, wfG sp (body x)) -> wfG sp (for_each i body).
Proof.
  intros Hb. apply (wfG_fueled sp (fun n => for_each_fuel (S n) i body) (items_left i));
    [apply items_left_srcs | intros k; apply wfG_for_each_fuel, Hb].
Qed.
Lemma wfG_for_each_brk_fuel sp i (body : val -> M bool) :
  (forall x, wfG sp (body x)) -> forall n, wfG sp (for_each_brk_fuel n i body).
Proof.
  intros Hb n. induction n as [|n IH]; cbn [for_each_brk_fuel]; [apply wfG_fuel|].
  apply wfG_bind; [apply wfG_pull | intros [x|]]; [|apply wfG_ret].
  apply wfG_bind; [apply Hb | intros [|]; [exact IH | apply wfG_ret]].
Qed.
Lemma wfG_for_each_brk sp i (body : val -> M bool) : (forall x, wfG sp (body x)) -> wfG sp (for_each_brk i body).
Proof.
  intros Hb. apply (wfG_fueled sp (fun n => for_each_brk_fuel (S n) i body) (items_left i));
    [apply items_left_srcs | intros k; apply wfG_for_each_brk_fuel, Hb].
Qed.

(* ------------------------------------------------------------------------------------------ *)
(* A tactic that derives [wfG] for straight-line code over the combinators                      *)
(* ------------------------------------------------------------------------------------------ *)
Lemma wfG_lift_lt sp o : wfG sp (lift_lt o).
Proof. destruct o; [apply wfG_ret | apply wfG_raise]. Qed.
Lemma wfG_lift_val sp o : wfG sp (lift_val o).
Proof. destruct o; [apply wfG_ret | apply wfG_raise]. Qed.
Lemma wfG_keyof sp key x : wfG sp (keyof key x).
Proof. destruct key; [apply wfG_call | apply wfG_ret]. Qed.

Ltac wf1 :=
  match goal with
  | |- wfG _ (bind _ _) => apply wfG_bind; [|intro]
  | |- wfG _ (ret _) => apply wfG_ret
  | |- wfG _ (raise _) => apply wfG_raise
  | |- wfG _ out_of_fuel => apply wfG_fuel
  | |- wfG _ (emit _) => apply wfG_emit
  | |- wfG _ use => apply wfG_use
  | |- wfG _ (pull _) => apply wfG_pull
  | |- wfG _ (close _) => apply wfG_close
  | |- wfG _ (close_all _) => apply wfG_close_all
  | |- wfG _ (call _ _ _) => apply wfG_call
  | |- wfG _ (yield_to _) => apply wfG_yield_to
  | |- wfG _ (get_src _) => apply wfG_get_src
  | |- wfG _ (lift_lt _) => apply wfG_lift_lt
  | |- wfG _ (lift_val _) => apply wfG_lift_val
  | |- wfG _ (keyof _ _) => apply wfG_keyof
  | |- wfG _ (scoped _ _) => apply wfG_scoped
  | |- wfG _ (finally _ (close_all _)) => apply wfG_finally; [|apply cleanupG_close_all]
  | |- wfG _ (finally _ (close _)) => apply wfG_finally; [|apply cleanupG_close]
  | |- wfG _ (loop_src _ _ _) => apply wfG_loop_src; intros
  | |- wfG _ (each _ _) => apply wfG_each; intros
  | |- wfG _ (with_fuel _) => apply wfG_with_fuel; intros
  | |- wfG _ (mapM _ _) => apply wfG_mapM; intros
  | H : _ |- wfG _ _ => apply H
  | |- wfG _ (if ?c then _ else _) => destruct c
  | |- wfG _ (match ?x with _ => _ end) => destruct x
  | |- wfG _ (let _ := _ in _) => cbv zeta
  end.
Ltac wf := repeat wf1.

(* ------------------------------------------------------------------------------------------ *)
(* The helpers of Model/Builtins.v, Model/Itertools.v, Model/Heapq.v                            *)
(* ------------------------------------------------------------------------------------------ *)
Lemma wfG_pull_row sp l : forall pos, wfG sp (pull_row pos l).
Proof. induction l as [|i r IH]; intros pos; cbn [pull_row]; wf. Qed.
Lemma wfG_strict_rest sp l : wfG sp (strict_rest l).
Proof. induction l as [|i r IH]; cbn [strict_rest]; wf. Qed.
Lemma wfG_zip_loop sp ss yield : (forall v, wfG sp (yield v)) -> forall fuel, wfG sp (zip_loop fuel ss yield).
Proof.
  intros Hy fuel. induction fuel as [|f IH]; cbn [zip_loop]; [apply wfG_fuel|].
  apply wfG_bind; [apply wfG_pull_row | intros [xs|p]]; wf.
Qed.
Lemma wfG_zip_strict_loop sp ss yield :
  (forall v, wfG sp (yield v)) -> forall fuel, wfG sp (zip_strict_loop fuel ss yield).
Proof.
  intros Hy fuel. induction fuel as [|f IH]; cbn [zip_strict_loop]; [apply wfG_fuel|].
  apply wfG_bind; [apply wfG_pull_row | intros [xs|[|p]]]; wf. apply wfG_strict_rest.
Qed.
Lemma wfG_zip_inner sp strict ss yield : (forall v, wfG sp (yield v)) -> wfG sp (zip_inner strict ss yield).
Proof.
  intros Hy. unfold zip_inner. apply wfG_with_fuel. intros n.
  destruct strict; [apply wfG_zip_strict_loop | apply wfG_zip_loop]; exact Hy.
Qed.
Lemma wfG_a_zip sp strict ss yield : (forall v, wfG sp (yield v)) -> wfG sp (a_zip strict ss yield).
Proof.
  intros Hy. unfold a_zip. destruct ss as [|i r]; [apply wfG_ret|].
  apply wfG_finally; [apply wfG_zip_inner, Hy | apply cleanupG_close_all].
Qed.
Lemma wfG_fill_batch sp n : forall acc, wfG sp (fill_batch n acc).
Proof. induction n as [|n IH]; intros acc; cbn [fill_batch]; wf. Qed.
Lemma wfG_batched_loop sp n strict yield :
  (forall v, wfG sp (yield v)) -> forall fuel, wfG sp (batched_loop fuel n strict yield).
Proof.
  intros Hy fuel. induction fuel as [|f IH]; cbn [batched_loop]; [apply wfG_fuel|].
  apply wfG_bind; [apply wfG_fill_batch | intros r]. wf.
Qed.
Lemma wfG_replay sp yield l : (forall v, wfG sp (yield v)) -> wfG sp (replay l yield).
Proof. intros Hy. induction l as [|x r IH]; cbn [replay]; wf. Qed.
Lemma wfG_cycle_again sp yield buffer :
  (forall v, wfG sp (yield v)) -> forall fuel, wfG sp (cycle_again fuel buffer yield).
Proof.
  intros Hy fuel. induction fuel as [|f IH]; cbn [cycle_again]; [apply wfG_fuel|].
  apply wfG_bind; [apply wfG_replay, Hy | intros _; exact IH].
Qed.
Lemma wfG_merge_heads sp key ss : wfG sp (merge_heads ss key).
Proof. induction ss as [|i r IH]; cbn [merge_heads]; wf. Qed.
Lemma wfG_merge_loop sp rev key yield :
  (forall v, wfG sp (yield v)) -> forall fuel heap, wfG sp (merge_loop fuel rev key heap yield).
Proof.
  intros Hy fuel. induction fuel as [|f IH]; intros heap; cbn [merge_loop]; [apply wfG_fuel|].
  destruct heap as [|e0 [|e1 rest]]; [apply wfG_ret | wf |].
  destruct (min_ment rev e0 (e1 :: rest)); [|apply wfG_raise].
  apply wfG_bind; [apply Hy|intros _]. apply wfG_bind; [apply wfG_pull|intros [h|]]; [|apply IH].
  apply wfG_bind; [apply wfG_keyof | intros k; apply IH].
Qed.
Lemma wfG_largest_fill sp key n : forall index, wfG sp (largest_fill n index key).
Proof. induction n as [|n IH]; intros index; cbn [largest_fill]; wf. Qed.
Lemma wfG_iter_sentinel_loop sentinel yield :
  (forall v, wfG false (yield v)) -> forall fuel, wfG false (iter_sentinel_loop fuel sentinel yield).
Proof.
  intros Hy fuel. induction fuel as [|f IH]; cbn [iter_sentinel_loop]; [apply wfG_fuel|].
  apply wfG_bind; [apply wfG_call_script | intros v]. wf.
Qed.

(* chain: the consumer's close first closes the owned iterators *)
Lemma wfG_chain_yield sp owned v : wfG sp (chain_yield owned v).
Proof.
  pose (isge := fun o : outcome unit => match o with Exn XGenExit => true | _ => false end).
  apply (wfG_ext sp (finallyS (fun w => (yield_to v w, isge (fst (yield_to v w))))
                              (fun b : bool => if b then close_all owned else ret tt))).
  - intros w. unfold finallyS, chain_yield, isge. destruct (yield_to v w) as [[u|e|] w1]; cbn; try reflexivity.
    destruct e; reflexivity.
  - apply wfG_finallyS; [apply wfGS_tag, wfG_yield_to | intros [|]; [apply cleanupG_close_all | apply cleanupG_ret]].
Qed.
Lemma wfG_chain_body sp yield : (forall v, wfG sp (yield v)) -> forall ss, wfG sp (chain_body ss yield).
Proof. intros Hy ss. induction ss as [|i r IH]; cbn [chain_body]; wf. Qed.
(* chain.__anext__: a failure other than the consumer's GeneratorExit closes the owned iterators *)
Lemma wfG_run_chain sp ss : wfG sp (run_chain ss).
Proof.
  pose (failed := fun o : outcome unit => match o with Exn XGenExit => false | Exn _ => true | _ => false end).
  apply (wfG_ext sp (finallyS (fun w => (chain_body ss (chain_yield ss) w, failed (fst (chain_body ss (chain_yield ss) w))))
                              (fun b : bool => if b then close_all ss else ret tt))).
  - intros w. unfold finallyS, run_chain, failed. destruct (chain_body ss (chain_yield ss) w) as [[u|e|] w1]; cbn; try reflexivity.
    destruct e; reflexivity.
  - apply wfG_finallyS; [|intros [|]; [apply cleanupG_close_all | apply cleanupG_ret]].
    apply wfGS_tag, wfG_chain_body. intros v. apply wfG_chain_yield.
Qed.

(* zip_longest: the slot list is threaded on every path *)
Lemma wfGS_longest_row sp fillv : forall todo pos done_ vals rem,
  wfGS sp (longest_row_st pos todo done_ vals fillv rem).
Proof.
  induction todo as [|[i|] r IH]; intros pos done_ vals rem.
  - exact (wfGS_lift sp done_ (ret (true, vals, rem)) (wfG_ret sp _)).
  - apply (wfGS_ext sp (bindS (liftS (done_ ++ Some i :: r) (pull i)) (fun o _ =>
       match o with
       | Some x => longest_row_st (S pos) r (done_ ++ [Some i]) (vals ++ [x]) fillv rem
       | None => match rem with
                 | 0 | 1 => liftS (done_ ++ Some i :: r) (ret (false, vals, 0))
                 | S rem' => longest_row_st (S pos) r (done_ ++ [None]) (vals ++ [fillv]) fillv rem'
                 end
       end))).
    + intros w. unfold bindS, liftS. cbn [longest_row_st].
      destruct (pull i w) as [[[x|]|e|] w1]; try reflexivity. destruct rem as [|[|rem]]; reflexivity.
    + apply wfGS_bind; [apply wfGS_lift, wfG_pull | intros [x|] _]; [apply IH|].
      destruct rem as [|[|rem]]; [apply wfGS_lift, wfG_ret | apply wfGS_lift, wfG_ret | apply IH].
  - exact (IH (S pos) (done_ ++ [None]) (vals ++ [fillv]) rem).
Qed.
Lemma wfGS_longest_loop sp fillv yield : (forall v, wfG sp (yield v)) ->
  forall fuel slots rem, wfGS sp (longest_loop_st fuel slots fillv rem yield).
Proof.
  intros Hy fuel. induction fuel as [|f IH]; intros slots rem.
  - exact (wfGS_lift sp slots out_of_fuel (wfG_fuel sp)).
  - apply (wfGS_ext sp (bindS (longest_row_st 0 slots [] [] fillv rem) (fun r sl =>
       match r with
       | (true, vs, rem') => bindS (liftS sl (yield (VTup vs))) (fun _ _ => longest_loop_st f sl fillv rem' yield)
       | (false, _, _) => liftS sl (ret tt)
       end))).
    + intros w. unfold bindS, liftS. cbn [longest_loop_st].
      destruct (longest_row_st 0 slots [] [] fillv rem w) as [[[[[[|] vs] rem']|e|] w1] sl]; reflexivity.
    + apply wfGS_bind; [apply wfGS_longest_row | intros [[[|] vs] rem'] sl]; [|apply wfGS_lift, wfG_ret].
      apply wfGS_bind; [apply wfGS_lift, Hy | intros _ _; apply IH].
Qed.
Lemma wfG_a_zip_longest sp ss fillv yield : (forall v, wfG sp (yield v)) -> wfG sp (a_zip_longest ss fillv yield).
Proof.
  intros Hy. unfold a_zip_longest. destruct ss as [|i r]; [apply wfG_ret|].
  apply (wfG_ext sp (finallyS (fun w => longest_loop_st (S (total_left w)) (map Some (i :: r)) fillv (length (i :: r)) yield w)
                              (fun sl => close_all (live_slots sl)))).
  - intros w. reflexivity.
  - apply wfG_finallyS; [|intros sl; apply cleanupG_close_all].
    apply (wfGS_fueled sp (fun n => longest_loop_st (S n) (map Some (i :: r)) fillv (length (i :: r)) yield) total_left);
      [apply total_left_srcs | intros k; apply wfGS_longest_loop, Hy].
Qed.

(* ------------------------------------------------------------------------------------------ *)
(* The same facts under the names of the assignment ([wfM], [cleanup])                          *)
(* ------------------------------------------------------------------------------------------ *)
Lemma wfM_ret {A} (a : A) : wfM (ret a). Proof. apply wfG_wfM, wfG_ret. Qed.
Lemma wfM_raise {A} e : wfM (@raise A e). Proof. apply wfG_wfM, wfG_raise. Qed.
Lemma wfM_emit ev : wfM (emit ev). Proof. apply wfG_wfM, wfG_emit. Qed.
Lemma wfM_use : wfM use. Proof. apply wfG_wfM, wfG_use. Qed.
Lemma wfM_get_src i : wfM (get_src i). Proof. apply wfG_wfM, wfG_get_src. Qed.
Lemma wfM_set_src i s : released s = true -> wfM (set_src i s).
Proof. intros H. apply wfG_wfM, wfG_set_src. intros _; exact H. Qed.
Lemma wfM_pull i : wfM (pull i). Proof. apply wfG_wfM, wfG_pull. Qed.
Lemma wfM_close i : wfM (close i). Proof. apply wfG_wfM, wfG_close. Qed.
Lemma wfM_call f impl args : wfM (call f impl args). Proof. apply wfG_wfM, wfG_call. Qed.
Lemma wfM_yield_to v : wfM (yield_to v). Proof. apply wfG_wfM, wfG_yield_to. Qed.
Lemma wfM_close_all l : wfM (close_all l). Proof. apply wfG_wfM, wfG_close_all. Qed.
Lemma wfM_chain_yield owned v : wfM (chain_yield owned v). Proof. apply wfG_wfM, wfG_chain_yield. Qed.
Lemma cleanup_close i : cleanup (close i). Proof. apply cleanupG_cleanup, cleanupG_close. Qed.
Lemma cleanup_close_all l : cleanup (close_all l). Proof. apply cleanupG_cleanup, cleanupG_close_all. Qed.
(* [wfM] alone (without "the use counter never decreases") is not enough to compose runs, since
   [regular] relates the fault countdown to a truncated difference of use counters; with that extra
   fact it is closed under the combinators: *)
Lemma wfM_bind {A B} (m : M A) (f : A -> M B) :
  wfM m -> (forall w, nuse w <= nuse (snd (m w))) ->
  (forall a, wfM (f a)) -> (forall a w, nuse w <= nuse (snd (f a w))) -> wfM (bind m f).
Proof.
  intros H1 H2 H3 H4. apply wfG_wfM, wfG_bind; [apply wfM_wfG; assumption | intros a; apply wfM_wfG; auto].
Qed.
Lemma wfM_finally {A} (m : M A) fin :
  wfM m -> (forall w, nuse w <= nuse (snd (m w))) ->
  cleanup fin -> (forall w, nuse w <= nuse (snd (fin w))) -> wfM (finally m fin).
Proof.
  intros H1 H2 [H3 H5] H4. apply wfG_wfM, wfG_finally; [apply wfM_wfG; assumption|].
  split; [apply wfM_wfG; assumption | exact H5].
Qed.
Lemma wfM_scoped {A} i (body : M A) : wfM body -> (forall w, nuse w <= nuse (snd (body w))) -> wfM (scoped i body).
Proof. intros H1 H2. apply wfG_wfM, wfG_scoped, wfM_wfG; assumption. Qed.

Print Assumptions wfGS_bind.
Print Assumptions wfG_finallyS.
Print Assumptions wfG_bind.
Print Assumptions wfG_finally.
Print Assumptions wfG_pull.
Print Assumptions wfG_close.
Print Assumptions wfG_call_script.
Print Assumptions wfM_call_script_refuted.
Print Assumptions wfM_set_src_refuted.
Print Assumptions cleanupG_close_all.
Print Assumptions wfG_scoped.
Print Assumptions wfG_loop_src.
Print Assumptions wfG_each.
Print Assumptions wfG_with_fuel.
Print Assumptions wfG_mapM.
Print Assumptions wfG_zip_inner.
Print Assumptions wfG_batched_loop.
Print Assumptions wfG_cycle_again.
Print Assumptions wfG_merge_loop.
Print Assumptions wfG_largest_fill.
Print Assumptions wfG_iter_sentinel_loop.
Print Assumptions wfG_run_chain.
Print Assumptions wfG_a_zip_longest.
Print Assumptions wfM_bind.
Print Assumptions wfM_finally.
Print Assumptions cleanup_close_all.
Print Assumptions wfM_chain_yield.
