(* End-to-end corollaries: the property theorems (trace / spec) proved about the hand-written models in
   Proofs/{Filter,Enumerate,Map,Zip,TakeDrop,Starmap,Pairwise,Accumulate,Islice,Compress,Batched,AllAny,
   Folds,MinMax}.v, restated about the terms TRANSLATED FROM THE PYTHON SOURCE (Gen/PylSrc.v).

   Each statement is the model theorem's statement with the model term [a_T params] replaced by
   [run_genfn src_T args] / [run_corofn src_T args], where [args] is exactly the argument list of the
   equivalence theorem [src_T_ok] (Proofs/PylEquiv{Agg,Iter,Zip}.v).  Hypotheses are copied verbatim.
   Each proof is: rewrite with [src_T_ok] (an equation that holds for every consumer and every world),
   then [exact] the model theorem.  Nothing else is used. *)
From Coq Require Import String.
From Coq Require Import List ZArith NArith Bool Arith Lia.
Import ListNotations.
Require Import V.Kernel.Values V.Kernel.Monad.
Require Import V.Model.Builtins V.Model.Itertools V.Model.Heapq.
Require Import V.Std.Filter V.Std.Builtins V.Std.Itertools1 V.Std.Multi.
Require Import V.Model.Pyl V.Gen.PylSrc.
Require Import V.Proofs.Zip V.Proofs.Map V.Proofs.Filter V.Proofs.Enumerate V.Proofs.Accumulate
               V.Proofs.Batched V.Proofs.Compress V.Proofs.TakeDrop V.Proofs.Starmap V.Proofs.Islice
               V.Proofs.Pairwise V.Proofs.MinMax V.Proofs.AllAny V.Proofs.Folds.
Require V.Proofs.PylEquivAgg.


(* ====================================================================================================== *)
(* Aggregations (coroutine functions): [run_corofn src_T args]                                             *)
(* ====================================================================================================== *)

Theorem all_source_spec : forall xs,
  let '(o, w) := run_corofn src_all [AIter 0] (init_world [xs] None) in
  o = spec_all xs /\ no_closes (rev (log w)) = spec_all_trace xs /\ all_released w = true.
Proof.
  intros xs. rewrite PylEquivAgg.src_all_ok. exact (all_spec xs).
Qed.
Print Assumptions all_source_spec.

Theorem any_source_spec : forall xs,
  let '(o, w) := run_corofn src_any [AIter 0] (init_world [xs] None) in
  o = spec_any xs /\ no_closes (rev (log w)) = spec_any_trace xs /\ all_released w = true.
Proof.
  intros xs. rewrite PylEquivAgg.src_any_ok. exact (any_spec xs).
Qed.
Print Assumptions any_source_spec.

Theorem list_source_spec : forall xs,
  let '(o, w) := run_corofn src_list [AIter 0] (init_world [xs] None) in o = spec_list xs /\ all_released w = true.
Proof.
  intros xs. rewrite PylEquivAgg.src_list_ok. exact (list_spec xs).
Qed.
Print Assumptions list_source_spec.

Theorem tuple_source_spec : forall xs,
  let '(o, w) := run_corofn src_tuple [AIter 0] (init_world [xs] None) in o = spec_tuple xs /\ all_released w = true.
Proof.
  intros xs. rewrite PylEquivAgg.src_tuple_ok. exact (tuple_spec xs).
Qed.
Print Assumptions tuple_source_spec.

Theorem set_source_spec : forall xs,
  let '(o, w) := run_corofn src_set [AIter 0] (init_world [xs] None) in o = spec_set xs /\ all_released w = true.
Proof.
  intros xs. rewrite PylEquivAgg.src_set_ok. exact (set_spec xs).
Qed.
Print Assumptions set_source_spec.

Theorem sum_source_spec : forall start xs,
  let '(o, w) := run_corofn src_sum [AIter 0; AVal start] (init_world [xs] None) in
  o = spec_sum start xs /\ all_released w = true.
Proof.
  intros start xs. rewrite PylEquivAgg.src_sum_ok. exact (sum_spec start xs).
Qed.
Print Assumptions sum_source_spec.

Theorem reduce_source_spec : forall f initial xs,
  let '(o, w) := run_corofn src_reduce [AFn (CUser 0 f); AIter 0; AOpt initial] (init_world [xs] None) in
  o = spec_reduce f initial xs
  /\ no_closes (rev (log w)) = spec_reduce_trace f initial xs
  /\ all_released w = true.
Proof.
  intros f initial xs. rewrite PylEquivAgg.src_reduce_ok. exact (reduce_spec f initial xs).
Qed.
Print Assumptions reduce_source_spec.

(* min / max: the shared implementation [_min_max] ... *)
Theorem min_max_source_spec : forall invert key default xs,
  let '(o, w) := run_corofn src_min_max [AIter 0; AFn (PylEquivAgg.fn_arg key); AVal (VBool invert); AOpt default]
                            (init_world [xs] None) in
  o = spec_min_max invert key default xs
  /\ no_closes (rev (log w)) = spec_min_max_trace invert key xs
  /\ all_released w = true.
Proof.
  intros invert key default xs. rewrite PylEquivAgg.src_min_max_ok. exact (min_max_spec invert key default xs).
Qed.
Print Assumptions min_max_source_spec.

(* ... and the public wrappers.  In the Python source [max] and [min] are one-line delegations
   [return await _min_max(iterable, key, <invert>, default)]; the translator records, per wrapper, the
   literal it passes for [invert] in [min_max_wrappers].  A wrapper call is therefore the shared
   implementation run with that recorded flag: *)
Definition run_min_max_wrapper (name : string) (key : option (list val -> val)) (default : option val) : M val :=
  match find (fun p => String.eqb (fst p) name) min_max_wrappers with
  | Some (_, Some invert) =>
      run_corofn src_min_max [AIter 0; AFn (PylEquivAgg.fn_arg key); AVal (VBool invert); AOpt default]
  | _ => raise XRuntimeError
  end.

(* every recorded wrapper satisfies the spec of the shared implementation for its recorded flag *)
Theorem min_max_wrappers_source_spec : forall name invert, In (name, Some invert) min_max_wrappers ->
  forall key default xs,
  let '(o, w) := run_corofn src_min_max [AIter 0; AFn (PylEquivAgg.fn_arg key); AVal (VBool invert); AOpt default]
                            (init_world [xs] None) in
  o = spec_min_max invert key default xs
  /\ no_closes (rev (log w)) = spec_min_max_trace invert key xs
  /\ all_released w = true.
Proof.
  intros name invert _ key default xs. exact (min_max_source_spec invert key default xs).
Qed.
Print Assumptions min_max_wrappers_source_spec.

(* [max] is recorded with invert = True, [min] with invert = False (this is where [min_max_wrappers_ok]
   is used: a swap of the two flags in the source changes [min_max_wrappers] and breaks these proofs) *)
Theorem max_source_spec : forall key default xs,
  let '(o, w) := run_min_max_wrapper "max" key default (init_world [xs] None) in
  o = spec_min_max true key default xs
  /\ no_closes (rev (log w)) = spec_min_max_trace true key xs
  /\ all_released w = true.
Proof.
  intros key default xs. unfold run_min_max_wrapper. rewrite PylEquivAgg.min_max_wrappers_ok.
  cbn [find fst String.eqb Ascii.eqb Bool.eqb].
  exact (min_max_source_spec true key default xs).
Qed.
Print Assumptions max_source_spec.

Theorem min_source_spec : forall key default xs,
  let '(o, w) := run_min_max_wrapper "min" key default (init_world [xs] None) in
  o = spec_min_max false key default xs
  /\ no_closes (rev (log w)) = spec_min_max_trace false key xs
  /\ all_released w = true.
Proof.
  intros key default xs. unfold run_min_max_wrapper. rewrite PylEquivAgg.min_max_wrappers_ok.
  cbn [find fst String.eqb Ascii.eqb Bool.eqb].
  exact (min_max_source_spec false key default xs).
Qed.
Print Assumptions min_source_spec.
