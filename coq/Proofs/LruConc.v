(* C11: asyncstdlib's lru_cache under overlapping calls and cancellation (Model/LruConc.v).
   One invariant [QInv] of the small-step machine, proved for [q_init], preserved by every [qstep], hence true
   after every schedule; the statistics invariant [QStat] (no QClear); failure/cancellation store nothing;
   and a task that runs alone behaves as the sequential cache [seq_do] from the current contents. *)
From Coq Require Import List ZArith NArith Bool Arith Lia.
From V Require Import Model.LruConc.
Import ListNotations.

(* ================= lists ================= *)
Lemma nth_qset_nth : forall (A : Type) (l : list A) t t' x d,
  nth t' (qset_nth t x l) d = if Nat.eqb t t' then (if Nat.ltb t (length l) then x else nth t' l d) else nth t' l d.
Proof.
  intros A l. induction l as [|h l IH]; intros t t' x d.
  - simpl. destruct t; destruct (Nat.eqb _ t'); reflexivity.
  - destruct t as [|t]; destruct t' as [|t']; simpl; try reflexivity.
    rewrite IH. reflexivity.
Qed.
Lemma length_qset_nth : forall (A : Type) (l : list A) t x, length (qset_nth t x l) = length l.
Proof.
  intros A l. induction l as [|h l IH]; intros t x; [destruct t; reflexivity|].
  destruct t; simpl; [reflexivity|]. now rewrite IH.
Qed.
Lemma qset_nth_twice : forall (A : Type) (l : list A) t x y, qset_nth t y (qset_nth t x l) = qset_nth t y l.
Proof.
  intros A l. induction l as [|h l IH]; intros t x y; [destruct t; reflexivity|].
  destruct t; simpl; [reflexivity|]. now rewrite IH.
Qed.
Lemma list_sum_qset_nth : forall (A : Type) (f : A -> nat) (l : list A) t x d,
  t < length l -> list_sum (map f (qset_nth t x l)) + f (nth t l d) = list_sum (map f l) + f x.
Proof.
  intros A f l. induction l as [|h l IH]; intros t x d Hlt; simpl in Hlt; [lia|].
  destruct t as [|t]; simpl; [lia|].
  assert (H : t < length l) by lia. specialize (IH t x d H). lia.
Qed.
Lemma Forall2_nth_error : forall (A B : Type) (R : A -> B -> Prop) l1 l2 i a b,
  Forall2 R l1 l2 -> nth_error l1 i = Some a -> nth_error l2 i = Some b -> R a b.
Proof.
  intros A B R l1 l2 i a b H. revert i. induction H as [|x y l1 l2 Hxy H IH]; intros i Ha Hb.
  - destruct i; discriminate.
  - destruct i as [|i]; simpl in *; [congruence|]. eauto.
Qed.
Lemma Forall2_snoc : forall (A B : Type) (R : A -> B -> Prop) l1 l2 a b,
  Forall2 R l1 l2 -> R a b -> Forall2 R (l1 ++ [a]) (l2 ++ [b]).
Proof. intros. apply Forall2_app; [assumption|]. constructor; [assumption|constructor]. Qed.
Lemma Forall2_impl : forall (A B : Type) (R R' : A -> B -> Prop) l1 l2,
  (forall a b, R a b -> R' a b) -> Forall2 R l1 l2 -> Forall2 R' l1 l2.
Proof. intros A B R R' l1 l2 HR H. induction H; constructor; auto. Qed.
Lemma Forall2_length' : forall (A B : Type) (R : A -> B -> Prop) l1 l2, Forall2 R l1 l2 -> length l1 = length l2.
Proof. intros A B R l1 l2 H. induction H; simpl; congruence. Qed.

(* ================= the invocation list only grows ================= *)
Definition ext (inv inv' : list nat) : Prop := forall v k, nth_error inv v = Some k -> nth_error inv' v = Some k.
Lemma ext_refl : forall inv, ext inv inv.
Proof. intros inv v k H. exact H. Qed.
Lemma ext_app : forall inv l, ext inv (inv ++ l).
Proof.
  intros inv l v k H. rewrite nth_error_app1; [exact H|].
  apply nth_error_Some. congruence.
Qed.
Lemma nth_error_snoc : forall (inv : list nat) k, nth_error (inv ++ [k]) (length inv) = Some k.
Proof. intros. rewrite nth_error_app2 by lia. now rewrite Nat.sub_diag. Qed.

(* ================= the cache as an association list ================= *)
Lemma qfind_none_notin : forall k l, qfind k l = None -> ~ In k (map fst l).
Proof.
  intros k l. induction l as [|[k' v] l IH]; simpl; intros H; [tauto|].
  destruct (Nat.eqb k k') eqn:E; [discriminate|].
  apply Nat.eqb_neq in E. intros [H1|H1]; [congruence|]. now apply IH.
Qed.
Lemma qfind_some_in : forall k l v, qfind k l = Some v -> In (k, v) l.
Proof.
  intros k l. induction l as [|[k' v'] l IH]; simpl; intros v H; [discriminate|].
  destruct (Nat.eqb k k') eqn:E.
  - apply Nat.eqb_eq in E. injection H as ->. left. now subst.
  - right. now apply IH.
Qed.
Lemma qfind_notin_none : forall k l, ~ In k (map fst l) -> qfind k l = None.
Proof.
  intros k l. induction l as [|[k' v] l IH]; simpl; intros H; [reflexivity|].
  destruct (Nat.eqb k k') eqn:E.
  - apply Nat.eqb_eq in E. subst. tauto.
  - apply IH. tauto.
Qed.
Lemma qremove_in : forall k l p, In p (qremove k l) -> In p l /\ fst p <> k.
Proof.
  intros k l p H. unfold qremove in H. apply filter_In in H. destruct H as [H1 H2]. split; [exact H1|].
  apply negb_true_iff in H2. now apply Nat.eqb_neq in H2.
Qed.
Lemma qremove_keys_notin : forall k l, ~ In k (map fst (qremove k l)).
Proof.
  intros k l H. apply in_map_iff in H. destruct H as [p [H1 H2]].
  apply qremove_in in H2. destruct H2 as [_ H2]. congruence.
Qed.
Lemma qremove_keys_incl : forall k l a, In a (map fst (qremove k l)) -> In a (map fst l).
Proof.
  intros k l a H. apply in_map_iff in H. destruct H as [p [H1 H2]].
  apply qremove_in in H2. apply in_map_iff. exists p. tauto.
Qed.
Lemma qremove_nodup : forall k l, NoDup (map fst l) -> NoDup (map fst (qremove k l)).
Proof.
  intros k l. induction l as [|[k' v] l IH]; simpl; intros H; [constructor|].
  inversion H as [|a b Hn Hd]; subst.
  destruct (negb (Nat.eqb k' k)); simpl; [|now apply IH].
  constructor; [|now apply IH]. intros Hin. apply Hn. eapply qremove_keys_incl. exact Hin.
Qed.
Lemma qremove_length : forall k l, length (qremove k l) <= length l.
Proof.
  intros k l. induction l as [|[k' v] l IH]; simpl; [lia|].
  destruct (negb (Nat.eqb k' k)); simpl; lia.
Qed.
Lemma qremove_length_found : forall k l v, qfind k l = Some v -> S (length (qremove k l)) <= length l.
Proof.
  intros k l. induction l as [|[k' v'] l IH]; simpl; intros v H; [discriminate|].
  rewrite (Nat.eqb_sym k' k). destruct (Nat.eqb k k') eqn:E; simpl.
  - pose proof (qremove_length k l). lia.
  - specialize (IH v H). lia.
Qed.
Lemma qremove_notin_id : forall k l, ~ In k (map fst l) -> qremove k l = l.
Proof.
  intros k l. induction l as [|[k' v] l IH]; simpl; intros H; [reflexivity|].
  destruct (Nat.eqb k' k) eqn:E.
  - apply Nat.eqb_eq in E. subst. tauto.
  - simpl. f_equal. apply IH. tauto.
Qed.
Lemma nodup_snoc : forall (l : list nat) a, NoDup l -> ~ In a l -> NoDup (l ++ [a]).
Proof.
  intros l a. induction l as [|b l IH]; simpl; intros Hd Hn; [constructor; [tauto|constructor]|].
  inversion Hd as [|c d Hc Hd']; subst. constructor.
  - intros Hin. apply in_app_or in Hin. destruct Hin as [Hin|[Hin|[]]]; [tauto|]. subst. tauto.
  - apply IH; tauto.
Qed.
Lemma tl_in : forall (A : Type) (l : list A) a, In a (tl l) -> In a l.
Proof. intros A [|h l] a H; [exact H|now right]. Qed.
Lemma tl_keys_nodup : forall (l : list (nat * nat)), NoDup (map fst l) -> NoDup (map fst (tl l)).
Proof. intros [|p l] H; [exact H|]. now inversion H. Qed.
Lemma map_fst_tl : forall (l : list (nat * nat)), map fst (tl l) = tl (map fst l).
Proof. intros [|p l]; reflexivity. Qed.

(* what is required of the cache: keys unique, values genuine, size bounded *)
Definition cache_ok (cfg : qconfig) (inv : list nat) (c : list (nat * nat)) : Prop :=
  NoDup (map fst c) /\
  (forall k v, In (k, v) c -> nth_error inv v = Some k) /\
  (forall m, q_maxsize cfg = Some m -> length c <= m).

Lemma cache_ok_ext : forall cfg inv inv' c, ext inv inv' -> cache_ok cfg inv c -> cache_ok cfg inv' c.
Proof. intros cfg inv inv' c He (H1 & H2 & H3). repeat split; auto. Qed.
Lemma cache_ok_nil : forall cfg inv, cache_ok cfg inv [].
Proof.
  intros. repeat split; simpl; [constructor|tauto|lia].
Qed.
Lemma cache_ok_qremove : forall cfg inv c k, cache_ok cfg inv c -> cache_ok cfg inv (qremove k c).
Proof.
  intros cfg inv c k (H1 & H2 & H3). repeat split.
  - now apply qremove_nodup.
  - intros k' v Hin. apply qremove_in in Hin. now apply H2.
  - intros m Hm. pose proof (qremove_length k c). specialize (H3 m Hm). lia.
Qed.
Lemma cache_ok_touch : forall cfg inv c k v,
  cache_ok cfg inv c -> qfind k c = Some v -> cache_ok cfg inv (qremove k c ++ [(k, v)]).
Proof.
  intros cfg inv c k v (H1 & H2 & H3) Hf. repeat split.
  - rewrite map_app. simpl. apply nodup_snoc; [now apply qremove_nodup|apply qremove_keys_notin].
  - intros k' v' Hin. apply in_app_or in Hin. destruct Hin as [Hin|[Hin|[]]].
    + apply qremove_in in Hin. now apply H2.
    + injection Hin as <- <-. apply H2. now apply qfind_some_in.
  - intros m Hm. rewrite app_length. simpl. pose proof (qremove_length_found k c v Hf). specialize (H3 m Hm). lia.
Qed.
Lemma cache_ok_store : forall cfg inv c k v m,
  cache_ok cfg inv c -> nth_error inv v = Some k -> q_maxsize cfg = m -> m <> Some 0 ->
  cache_ok cfg inv (store m c k v).
Proof.
  intros cfg inv c k v m (H1 & H2 & H3) Hv Hm Hm0. unfold store.
  destruct (qfind k c) eqn:Hf; [repeat split; assumption|].
  apply qfind_none_notin in Hf.
  assert (Hsn : forall c', NoDup (map fst c') -> (forall p, In p c' -> In p c) ->
                  (forall k0 v0, In (k0, v0) (c' ++ [(k, v)]) -> nth_error inv v0 = Some k0) /\
                  NoDup (map fst (c' ++ [(k, v)]))).
  { intros c' Hd Hincl. split.
    - intros k0 v0 Hin. apply in_app_or in Hin. destruct Hin as [Hin|[Hin|[]]]; [now apply H2, Hincl|].
      now injection Hin as <- <-.
    - rewrite map_app. simpl. apply nodup_snoc; [assumption|].
      intros Hin. apply Hf. apply in_map_iff in Hin. destruct Hin as [p [Hp1 Hp2]].
      apply in_map_iff. exists p. split; [assumption|now apply Hincl]. }
  destruct m as [m|].
  - destruct (Nat.leb m (length c)) eqn:Hle.
    + destruct (Hsn (tl c)) as [Ha Hb]; [now apply tl_keys_nodup|intros p; apply tl_in|].
      repeat split; [assumption|assumption|].
      intros m' Hm'. rewrite Hm in Hm'. injection Hm' as <-. rewrite app_length. simpl.
      specialize (H3 m Hm). destruct c as [|p c]; simpl in *; [|lia].
      destruct m; [congruence|lia].
    + destruct (Hsn c) as [Ha Hb]; [assumption|auto|].
      repeat split; [assumption|assumption|].
      intros m' Hm'. rewrite Hm in Hm'. injection Hm' as <-. rewrite app_length. simpl.
      apply Nat.leb_gt in Hle. lia.
  - destruct (Hsn c) as [Ha Hb]; [assumption|auto|].
    repeat split; [assumption|assumption|]. intros m' Hm'. congruence.
Qed.

(* ================= tasks ================= *)
Definition orig_script (cfg : qconfig) (t : nat) : list qop := nth t (q_scripts cfg) [].

(* a recorded result is a possible result of the operation it belongs to *)
Definition op_res_ok (inv : list nat) (op : qop) (r : qres) : Prop :=
  match r with
  | QRet v _ => exists k f, op = QCall k f /\ nth_error inv v = Some k
  | QRaised => exists k, op = QCall k true
  | QDone => op = QClear \/ exists k, op = QDiscard k
  | QCancelled => False
  end.
Definition pc_ok (inv : list nat) (x : qtask) : Prop :=
  match q_pc x with
  | QIdle => q_script x <> []
  | QInCall _ k v f => (exists rest, q_script x = QCall k f :: rest) /\ nth_error inv v = Some k
  | QFinished => q_script x = []
  end.
(* the results are those of a prefix of the original script, one per completed operation; the remaining script
   is the rest of the original one -- unless the task was cancelled, which ends it with a final QCancelled
   standing for the operation it was cancelled at (or before). *)
Definition task_inv (cfg : qconfig) (inv : list nat) (t : nat) (x : qtask) : Prop :=
  exists pre post, orig_script cfg t = pre ++ post /\
    ((Forall2 (op_res_ok inv) pre (q_results x) /\ q_script x = post /\ pc_ok inv x)
     \/ (exists rs, q_results x = rs ++ [QCancelled] /\ Forall2 (op_res_ok inv) pre rs /\ post <> [] /\
                    q_script x = [] /\ q_pc x = QFinished)).

Definition pc_of (rest : list qop) : qpc := match rest with [] => QFinished | _ => QIdle end.
Lemma qdone_eq : forall x r, qdone x r = mkQT (tl (q_script x)) (pc_of (tl (q_script x))) (q_results x ++ [r]).
Proof. reflexivity. Qed.

Lemma op_res_ok_ext : forall inv inv' op r, ext inv inv' -> op_res_ok inv op r -> op_res_ok inv' op r.
Proof.
  intros inv inv' op r He H. destruct r; simpl in *; try assumption.
  destruct H as (k & f & H1 & H2). exists k, f. auto.
Qed.
Lemma task_inv_ext : forall cfg inv inv' t x, ext inv inv' -> task_inv cfg inv t x -> task_inv cfg inv' t x.
Proof.
  intros cfg inv inv' t x He (pre & post & Ho & H). exists pre, post. split; [assumption|].
  destruct H as [(H1 & H2 & H3)|(rs & H1 & H2 & H3)].
  - left. split; [|split; [assumption|]].
    + eapply Forall2_impl; [|exact H1]. intros a b. now apply op_res_ok_ext.
    + unfold pc_ok in *. destruct (q_pc x); try assumption. destruct H3 as [H3 H4]. split; auto.
  - right. exists rs. split; [assumption|]. split; [|assumption].
    eapply Forall2_impl; [|exact H2]. intros a b. now apply op_res_ok_ext.
Qed.
Lemma task_inv_done : forall cfg inv inv' t x op rest r,
  task_inv cfg inv t x -> q_script x = op :: rest -> ext inv inv' -> op_res_ok inv' op r ->
  task_inv cfg inv' t (qdone x r).
Proof.
  intros cfg inv inv' t x op rest r (pre & post & Ho & H) Hs He Hr.
  destruct H as [(H1 & H2 & H3)|(rs & _ & _ & _ & H4 & _)]; [|congruence].
  exists (pre ++ [op]), rest. split.
  - rewrite Ho, <- H2, Hs, <- app_assoc. reflexivity.
  - left. rewrite qdone_eq, Hs. simpl. split; [|split; [reflexivity|]].
    + apply Forall2_snoc; [|assumption]. eapply Forall2_impl; [|exact H1]. intros a b. now apply op_res_ok_ext.
    + unfold pc_ok. simpl. destruct rest; simpl; [reflexivity|discriminate].
Qed.
Lemma task_inv_incall : forall cfg inv inv' t x k f rest l v,
  task_inv cfg inv t x -> q_script x = QCall k f :: rest -> ext inv inv' -> nth_error inv' v = Some k ->
  task_inv cfg inv' t (mkQT (QCall k f :: rest) (QInCall l k v f) (q_results x)).
Proof.
  intros cfg inv inv' t x k f rest l v (pre & post & Ho & H) Hs He Hv.
  destruct H as [(H1 & H2 & H3)|(rs & _ & _ & _ & H4 & _)]; [|congruence].
  exists pre, post. split; [assumption|]. left. simpl. split; [|split; [congruence|]].
  - eapply Forall2_impl; [|exact H1]. intros a b. now apply op_res_ok_ext.
  - unfold pc_ok. simpl. split; [now exists rest|assumption].
Qed.
Lemma task_inv_script_nonempty : forall cfg inv t x,
  task_inv cfg inv t x -> q_pc x <> QFinished -> q_script x <> [].
Proof.
  intros cfg inv t x (pre & post & Ho & H) Hp.
  destruct H as [(H1 & H2 & H3)|(rs & _ & _ & _ & _ & H5)]; [|congruence].
  unfold pc_ok in H3. destruct (q_pc x); [assumption| |congruence].
  destruct H3 as [[rest H3] _]. congruence.
Qed.
Lemma task_inv_cancel : forall cfg inv t x,
  task_inv cfg inv t x -> q_pc x <> QFinished ->
  task_inv cfg inv t (mkQT [] QFinished (q_results x ++ [QCancelled])).
Proof.
  intros cfg inv t x Hi Hp. pose proof (task_inv_script_nonempty _ _ _ _ Hi Hp) as Hne.
  destruct Hi as (pre & post & Ho & H).
  destruct H as [(H1 & H2 & H3)|(rs & _ & _ & _ & _ & H5)]; [|congruence].
  exists pre, post. split; [assumption|]. right. exists (q_results x). simpl.
  repeat split; try assumption; try reflexivity. congruence.
Qed.
Lemma task_inv_incall_script : forall cfg inv t x l k v f,
  task_inv cfg inv t x -> q_pc x = QInCall l k v f ->
  (exists rest, q_script x = QCall k f :: rest) /\ nth_error inv v = Some k.
Proof.
  intros cfg inv t x l k v f (pre & post & Ho & H) Hp.
  destruct H as [(H1 & H2 & H3)|(rs & _ & _ & _ & _ & H5)]; [|congruence].
  unfold pc_ok in H3. rewrite Hp in H3. exact H3.
Qed.

(* ================= the invariant ================= *)
Definition QInv (cfg : qconfig) (s : qstate) : Prop :=
  length (q_tasks s) = length (q_scripts cfg) /\
  (forall t, task_inv cfg (q_invoked s) t (qget s t)) /\
  cache_ok cfg (q_invoked s) (q_cache s) /\
  (q_maxsize cfg = Some 0 -> q_cache s = []) /\
  q_misses s <= length (q_invoked s).

Lemma qget_lt : forall s t, q_pc (qget s t) <> QFinished -> t < length (q_tasks s).
Proof.
  intros s t H. destruct (Nat.lt_ge_cases t (length (q_tasks s))) as [Hl|Hl]; [assumption|].
  exfalso. apply H. unfold qget. now rewrite nth_overflow.
Qed.

(* every non-trivial step has this shape *)
Lemma QInv_update : forall cfg s t c h m inv x,
  QInv cfg s -> t < length (q_tasks s) -> ext (q_invoked s) inv ->
  cache_ok cfg inv c -> (q_maxsize cfg = Some 0 -> c = []) -> m <= length inv ->
  task_inv cfg inv t x ->
  QInv cfg (mkQ c h m inv (qset_nth t x (q_tasks s))).
Proof.
  intros cfg s t c h m inv x (I1 & I2 & I3 & I4 & I5) Hlt He Hc Hc0 Hm Hx.
  unfold QInv. simpl. split; [now rewrite length_qset_nth|]. split; [|tauto].
  intros t'. unfold qget. simpl. rewrite nth_qset_nth.
  destruct (Nat.eqb t t') eqn:E.
  - apply Nat.eqb_eq in E. subst t'. apply Nat.ltb_lt in Hlt. rewrite Hlt. exact Hx.
  - eapply task_inv_ext; [exact He|]. apply I2.
Qed.

Lemma QInv_init : forall cfg, QInv cfg (q_init cfg).
Proof.
  intros cfg. unfold QInv, q_init. simpl. split; [now rewrite map_length|].
  split; [|split; [apply cache_ok_nil|split; [reflexivity|lia]]].
  intros t. unfold qget. simpl.
  destruct (Nat.lt_ge_cases t (length (q_scripts cfg))) as [Hl|Hl].
  - set (f := fun sc : list qop => mkQT sc (match sc with [] => QFinished | _ => QIdle end) []).
    replace qdflt with (f []) by reflexivity. rewrite map_nth. fold (orig_script cfg t).
    exists [], (orig_script cfg t). split; [reflexivity|]. left. simpl.
    split; [constructor|]. split; [reflexivity|]. unfold pc_ok. simpl.
    destruct (orig_script cfg t); simpl; [reflexivity|discriminate].
  - rewrite nth_overflow by now rewrite map_length.
    exists [], []. split; [unfold orig_script; now rewrite nth_overflow|]. left. simpl.
    split; [constructor|]. split; reflexivity.
Qed.

Lemma finish_call_inv : forall cfg s t k v f rest,
  QInv cfg s -> t < length (q_tasks s) -> q_script (qget s t) = QCall k f :: rest ->
  nth_error (q_invoked s) v = Some k ->
  QInv cfg (finish_call cfg s t k v f).
Proof.
  intros cfg s t k v f rest HI Hlt Hs Hv. pose proof HI as (I1 & I2 & I3 & I4 & I5).
  unfold finish_call. destruct f.
  - unfold qsett. apply QInv_update; try assumption; [apply ext_refl|].
    eapply task_inv_done; [apply I2|exact Hs|apply ext_refl|]. simpl. now exists k.
  - unfold qsett. simpl. apply QInv_update; try assumption; [apply ext_refl| | |].
    + destruct (q_maxsize cfg) as [[|m]|] eqn:Hm; [assumption| |].
      * apply cache_ok_store; [assumption|assumption|assumption|discriminate].
      * apply cache_ok_store; [assumption|assumption|assumption|discriminate].
    + intros Hm. rewrite Hm. auto.
    + eapply task_inv_done; [apply I2|exact Hs|apply ext_refl|]. simpl. now exists k, false.
Qed.

Theorem QInv_step : forall cfg s a, QInv cfg s -> QInv cfg (qstep cfg s a).
Proof.
  intros cfg s a HI. pose proof HI as (I1 & I2 & I3 & I4 & I5).
  unfold qstep. destruct (negb (qenabled s a)) eqn:Hen; [assumption|].
  destruct a as [t|t]; simpl in Hen.
  - (* QRun t *)
    pose proof (I2 t) as Ht.
    destruct (q_pc (qget s t)) as [|l k v f|] eqn:Hpc; [| |assumption].
    + (* QIdle *)
      assert (Hlt : t < length (q_tasks s)) by (apply qget_lt; congruence).
      destruct (q_script (qget s t)) as [|op rest] eqn:Hs.
      { exfalso. eapply task_inv_script_nonempty; [exact Ht|congruence|exact Hs]. }
      destruct op as [k f| |k].
      * (* QCall *)
        set (hit := match q_maxsize cfg with Some 0 => None | _ => qfind k (q_cache s) end).
        destruct hit as [v|] eqn:Hhit.
        -- (* hit *)
           assert (Hf : qfind k (q_cache s) = Some v /\ q_maxsize cfg <> Some 0).
           { unfold hit in Hhit. destruct (q_maxsize cfg) as [[|m]|]; try discriminate; split; try assumption; discriminate. }
           destruct Hf as [Hf Hm0].
           unfold qsett. simpl. apply QInv_update; try assumption; [apply ext_refl| | |].
           ++ destruct (q_maxsize cfg); [now apply cache_ok_touch|assumption].
           ++ intros Hm. contradiction.
           ++ eapply task_inv_done; [exact Ht|exact Hs|apply ext_refl|]. simpl. exists k, f. split; [reflexivity|].
              destruct I3 as (_ & I3 & _). apply I3. now apply qfind_some_in.
        -- (* miss *)
           destruct (q_susp cfg) as [|j].
           ++ apply (finish_call_inv cfg _ t k _ f rest); simpl; try assumption.
              ** change (QInv cfg (mkQ (q_cache s) (q_hits s) (S (q_misses s)) (q_invoked s ++ [k]) (q_tasks s))).
                 unfold QInv. simpl. split; [assumption|]. split; [|split; [|split; [assumption|]]].
                 --- intros t'. eapply task_inv_ext; [apply ext_app|]. apply I2.
                 --- eapply cache_ok_ext; [apply ext_app|assumption].
                 --- rewrite app_length. simpl. lia.
              ** apply nth_error_snoc.
           ++ unfold qsett. simpl. apply QInv_update; try assumption.
              ** apply ext_app.
              ** eapply cache_ok_ext; [apply ext_app|assumption].
              ** rewrite app_length. simpl. lia.
              ** eapply task_inv_incall; [exact Ht|exact Hs|apply ext_app|apply nth_error_snoc].
      * (* QClear *)
        destruct (q_maxsize cfg) as [[|m]|] eqn:Hm.
        -- unfold qsett. simpl. apply QInv_update; try assumption; [apply ext_refl|auto|lia|].
           eapply task_inv_done; [exact Ht|exact Hs|apply ext_refl|]. simpl. now left.
        -- unfold qsett. simpl. apply QInv_update; try assumption; [apply ext_refl|apply cache_ok_nil|reflexivity|lia|].
           eapply task_inv_done; [exact Ht|exact Hs|apply ext_refl|]. simpl. now left.
        -- unfold qsett. simpl. apply QInv_update; try assumption; [apply ext_refl|apply cache_ok_nil|reflexivity|lia|].
           eapply task_inv_done; [exact Ht|exact Hs|apply ext_refl|]. simpl. now left.
      * (* QDiscard *)
        unfold qsett. simpl. apply QInv_update; try assumption; [apply ext_refl|now apply cache_ok_qremove| |].
        -- intros Hm. rewrite (I4 Hm). reflexivity.
        -- eapply task_inv_done; [exact Ht|exact Hs|apply ext_refl|]. simpl. right. now exists k.
    + (* QInCall *)
      assert (Hlt : t < length (q_tasks s)) by (apply qget_lt; congruence).
      destruct (task_inv_incall_script _ _ _ _ _ _ _ _ Ht Hpc) as [[rest Hs] Hv].
      assert (Hfin : QInv cfg (finish_call cfg s t k v f)) by (now apply (finish_call_inv cfg s t k v f rest)).
      destruct l as [|[|j]]; [exact Hfin|exact Hfin|].
      rewrite Hs. unfold qsett. apply QInv_update; try assumption; [apply ext_refl|].
      eapply task_inv_incall; [exact Ht|exact Hs|apply ext_refl|exact Hv].
  - (* QCancel t *)
    destruct (q_pc (qget s t)) eqn:Hpc; [| |assumption].
    + assert (Hlt : t < length (q_tasks s)) by (apply qget_lt; congruence).
      unfold qsett. apply QInv_update; try assumption; [apply ext_refl|].
      apply task_inv_cancel; [apply I2|congruence].
    + assert (Hlt : t < length (q_tasks s)) by (apply qget_lt; congruence).
      unfold qsett. apply QInv_update; try assumption; [apply ext_refl|].
      apply task_inv_cancel; [apply I2|congruence].
Qed.

Theorem QInv_run : forall cfg sched s, QInv cfg s -> QInv cfg (qrun cfg s sched).
Proof.
  intros cfg sched. induction sched as [|a r IH]; intros s H; simpl; [assumption|].
  apply IH. now apply QInv_step.
Qed.
Theorem QInv_exec : forall cfg sched, QInv cfg (qexec cfg sched).
Proof. intros. apply QInv_run. apply QInv_init. Qed.

(* ================= 1, 2: size and keys ================= *)
Theorem size_bounded_conc : forall cfg sched m,
  q_maxsize cfg = Some m -> length (q_cache (qexec cfg sched)) <= m.
Proof. intros cfg sched m Hm. destruct (QInv_exec cfg sched) as (_ & _ & (_ & _ & H) & _). now apply H. Qed.
Corollary size_zero_conc : forall cfg sched, q_maxsize cfg = Some 0 -> q_cache (qexec cfg sched) = [].
Proof. intros cfg sched Hm. destruct (QInv_exec cfg sched) as (_ & _ & _ & H & _). now apply H. Qed.
Theorem keys_unique_conc : forall cfg sched, NoDup (map fst (q_cache (qexec cfg sched))).
Proof. intros cfg sched. destruct (QInv_exec cfg sched) as (_ & _ & (H & _) & _). exact H. Qed.

(* ================= 3: values ================= *)
(* results versus the original script *)
Theorem results_follow_script : forall cfg sched t,
  let s := qexec cfg sched in let x := qget s t in
  exists pre post, orig_script cfg t = pre ++ post /\
    ((Forall2 (op_res_ok (q_invoked s)) pre (q_results x) /\ q_script x = post /\ pc_ok (q_invoked s) x)
     \/ (exists rs, q_results x = rs ++ [QCancelled] /\ Forall2 (op_res_ok (q_invoked s)) pre rs /\ post <> [] /\
                    q_script x = [] /\ q_pc x = QFinished)).
Proof. intros cfg sched t. destruct (QInv_exec cfg sched) as (_ & H & _). apply H. Qed.

Lemma op_res_ok_not_cancelled : forall inv pre rs, Forall2 (op_res_ok inv) pre rs -> ~ In QCancelled rs.
Proof.
  intros inv pre rs H. induction H as [|a b l1 l2 Hab H IH]; simpl; [tauto|].
  intros [Hb|Hb]; [subst b; exact Hab|tauto].
Qed.
Theorem results_length : forall cfg sched t,
  let x := qget (qexec cfg sched) t in
  length (q_results x) <= length (orig_script cfg t) /\
  (~ In QCancelled (q_results x) -> length (q_results x) + length (q_script x) = length (orig_script cfg t)) /\
  (In QCancelled (q_results x) -> q_script x = [] /\ q_pc x = QFinished /\
                                  exists rs, q_results x = rs ++ [QCancelled] /\ ~ In QCancelled rs).
Proof.
  intros cfg sched t x. destruct (results_follow_script cfg sched t) as (pre & post & Ho & H). fold x in H.
  destruct H as [(H1 & H2 & H3)|(rs & H1 & H2 & H3 & H4 & H5)].
  - pose proof (Forall2_length' _ _ _ _ _ H1) as Hl. pose proof (op_res_ok_not_cancelled _ _ _ H1) as Hn.
    rewrite Ho, app_length, H2. split; [lia|]. split; [lia|tauto].
  - pose proof (Forall2_length' _ _ _ _ _ H2) as Hl. pose proof (op_res_ok_not_cancelled _ _ _ H2) as Hn.
    rewrite Ho, H1, !app_length. simpl. destruct post as [|p post]; [congruence|]. simpl. split; [lia|]. split.
    + intros Hc. exfalso. apply Hc. apply in_or_app. right. now left.
    + intros _. split; [assumption|]. split; [assumption|]. now exists rs.
Qed.

Theorem values_genuine : forall cfg sched,
  let s := qexec cfg sched in
  (forall k v, In (k, v) (q_cache s) -> nth_error (q_invoked s) v = Some k) /\
  (forall t i k f v h,
     nth_error (orig_script cfg t) i = Some (QCall k f) ->
     nth_error (q_results (qget s t)) i = Some (QRet v h) ->
     nth_error (q_invoked s) v = Some k) /\
  (forall t l k v f, q_pc (qget s t) = QInCall l k v f -> nth_error (q_invoked s) v = Some k).
Proof.
  intros cfg sched s. destruct (QInv_exec cfg sched) as (_ & I2 & (_ & I3 & _) & _). fold s in I2, I3.
  split; [exact I3|]. split.
  - intros t i k f v h Ho Hr. destruct (I2 t) as (pre & post & Hpp & H).
    assert (Hgen : forall rs, Forall2 (op_res_ok (q_invoked s)) pre rs -> nth_error rs i = Some (QRet v h) ->
                     nth_error (q_invoked s) v = Some k).
    { intros rs HF Hi. assert (Hlt : i < length pre).
      { rewrite (Forall2_length' _ _ _ _ _ HF). apply nth_error_Some. congruence. }
      rewrite Hpp, nth_error_app1 in Ho by assumption.
      pose proof (Forall2_nth_error _ _ _ _ _ _ _ _ HF Ho Hi) as Hok. simpl in Hok.
      destruct Hok as (k' & f' & E & Hv). now injection E as <- <-. }
    destruct H as [(H1 & _)|(rs & H1 & H2 & _)]; [now apply (Hgen _ H1)|].
    apply (Hgen _ H2). rewrite H1 in Hr.
    destruct (Nat.lt_ge_cases i (length rs)) as [Hl|Hl]; [now rewrite nth_error_app1 in Hr|].
    rewrite nth_error_app2 in Hr by assumption. destruct (i - length rs) as [|[|n]]; discriminate.
  - intros t l k v f Hpc. now destruct (task_inv_incall_script _ _ _ _ _ _ _ _ (I2 t) Hpc).
Qed.

(* ================= 4: statistics ================= *)
Definition completed (r : qres) : nat := match r with QRet _ _ | QRaised => 1 | _ => 0 end.
Definition in_call (p : qpc) : nat := match p with QInCall _ _ _ _ => 1 | _ => 0 end.
(* calls of a task that were started and either completed or are still running *)
Definition task_started (x : qtask) : nat := list_sum (map completed (q_results x)) + in_call (q_pc x).
Definition calls_started (s : qstate) : nat := list_sum (map task_started (q_tasks s)).
(* calls cancelled while suspended inside the wrapped function: counted along the schedule (the final state of
   a cancelled task does not tell whether its last operation had been started) *)
Definition cancel_in_call (s : qstate) (a : qaction) : nat :=
  match a with QCancel t => in_call (q_pc (qget s t)) | QRun _ => 0 end.
Fixpoint cancelled_in_call (cfg : qconfig) (s : qstate) (sched : list qaction) : nat :=
  match sched with [] => 0 | a :: r => cancel_in_call s a + cancelled_in_call cfg (qstep cfg s a) r end.
Definition no_clear (cfg : qconfig) : Prop := forall sc, In sc (q_scripts cfg) -> ~ In QClear sc.

Theorem misses_le_invocations : forall cfg sched,
  q_misses (qexec cfg sched) <= length (q_invoked (qexec cfg sched)).
Proof. intros cfg sched. now destruct (QInv_exec cfg sched) as (_ & _ & _ & _ & H). Qed.

Definition QStat (c : nat) (s : qstate) : Prop :=
  q_misses s = length (q_invoked s) /\ q_hits s + q_misses s = calls_started s + c.

Lemma completed_snoc : forall rs r, list_sum (map completed (rs ++ [r])) = list_sum (map completed rs) + completed r.
Proof. intros. rewrite map_app, list_sum_app. simpl. lia. Qed.
Lemma task_started_qdone : forall x r,
  task_started (qdone x r) = list_sum (map completed (q_results x)) + completed r.
Proof.
  intros x r. unfold task_started. rewrite qdone_eq. simpl q_results. simpl q_pc. rewrite completed_snoc.
  destruct (tl (q_script x)); simpl; lia.
Qed.
Lemma calls_started_update : forall s t c h m inv x,
  t < length (q_tasks s) ->
  calls_started (mkQ c h m inv (qset_nth t x (q_tasks s))) + task_started (qget s t) = calls_started s + task_started x.
Proof. intros. unfold calls_started, qget. simpl. now apply list_sum_qset_nth. Qed.
Lemma no_clear_script : forall cfg inv t x rest,
  no_clear cfg -> task_inv cfg inv t x -> q_script x = QClear :: rest -> False.
Proof.
  intros cfg inv t x rest Hnc (pre & post & Ho & H) Hs.
  destruct H as [(_ & H2 & _)|(rs & _ & _ & _ & H4 & _)]; [|congruence].
  unfold orig_script in Ho.
  destruct (Nat.lt_ge_cases t (length (q_scripts cfg))) as [Hl|Hl].
  - apply (Hnc (nth t (q_scripts cfg) [])); [now apply nth_In|].
    rewrite Ho. apply in_or_app. right. rewrite <- H2, Hs. now left.
  - rewrite nth_overflow in Ho by assumption. destruct pre; simpl in Ho; [|discriminate]. congruence.
Qed.
Lemma QStat_step : forall cfg s a c,
  no_clear cfg -> QInv cfg s -> QStat c s -> QStat (c + cancel_in_call s a) (qstep cfg s a).
Proof.
  intros cfg s a c Hnc HI [S1 S2]. pose proof HI as (I1 & I2 & I3 & I4 & I5).
  assert (Hfin : forall s1 t k v f,
            t < length (q_tasks s1) -> q_misses s1 = length (q_invoked s1) ->
            q_hits s1 + q_misses s1 + in_call (q_pc (qget s1 t)) = calls_started s1 + c + 1 ->
            QStat c (finish_call cfg s1 t k v f)).
  { intros s1 t k v f Hlt T1 T2. unfold finish_call, QStat.
    destruct f; unfold qsett; simpl.
    - split; [assumption|].
      pose proof (calls_started_update s1 t (q_cache s1) (q_hits s1) (q_misses s1) (q_invoked s1) (qdone (qget s1 t) QRaised) Hlt) as E.
      rewrite task_started_qdone in E. unfold task_started in E. simpl completed in *. lia.
    - split; [assumption|].
      match goal with |- context [mkQ ?c' _ _ _ _] =>
        pose proof (calls_started_update s1 t c' (q_hits s1) (q_misses s1) (q_invoked s1) (qdone (qget s1 t) (QRet v false)) Hlt) as E end.
      rewrite task_started_qdone in E. unfold task_started in E. simpl completed in *. lia. }
  unfold qstep. destruct (negb (qenabled s a)) eqn:Hen.
  { destruct a as [t|t]; simpl in *; [rewrite Nat.add_0_r; now split|].
    destruct (q_pc (qget s t)); try discriminate. simpl. rewrite Nat.add_0_r. now split. }
  destruct a as [t|t]; simpl in Hen; simpl cancel_in_call.
  - rewrite Nat.add_0_r. pose proof (I2 t) as Ht.
    destruct (q_pc (qget s t)) as [|l k v f|] eqn:Hpc; [| |now split].
    + assert (Hlt : t < length (q_tasks s)) by (apply qget_lt; congruence).
      destruct (q_script (qget s t)) as [|op rest] eqn:Hs.
      { exfalso. eapply task_inv_script_nonempty; [exact Ht|congruence|exact Hs]. }
      assert (Hdone : forall c' r, completed r = 0 ->
                QStat c (mkQ c' (q_hits s) (q_misses s) (q_invoked s) (qset_nth t (qdone (qget s t) r) (q_tasks s)))).
      { intros c' r Hr. split; simpl; [assumption|].
        pose proof (calls_started_update s t c' (q_hits s) (q_misses s) (q_invoked s) (qdone (qget s t) r) Hlt) as E.
        rewrite task_started_qdone in E. unfold task_started in E. rewrite Hpc, Hr in E. simpl in_call in E. lia. }
      destruct op as [k f| |k].
      * set (hit := match q_maxsize cfg with Some 0 => None | _ => qfind k (q_cache s) end).
        destruct hit as [v|].
        -- unfold qsett. simpl. split; simpl; [assumption|].
           match goal with |- context [mkQ ?c' _ _ _ _] =>
             pose proof (calls_started_update s t c' (S (q_hits s)) (q_misses s) (q_invoked s) (qdone (qget s t) (QRet v true)) Hlt) as E end.
           rewrite task_started_qdone in E. unfold task_started in E. rewrite Hpc in E. simpl in_call in E. simpl completed in E. lia.
        -- destruct (q_susp cfg) as [|j].
           ++ apply Hfin; simpl; [assumption|rewrite app_length; simpl; lia|].
              unfold qget. simpl. fold (qget s t). rewrite Hpc. simpl.
              unfold calls_started in *. simpl. lia.
           ++ unfold qsett. simpl. split; simpl; [rewrite app_length; simpl; lia|].
              match goal with |- context [qset_nth t ?x' _] =>
                pose proof (calls_started_update s t (q_cache s) (q_hits s) (S (q_misses s)) (q_invoked s ++ [k]) x' Hlt) as E end.
              unfold task_started in E. simpl in E. rewrite Hpc in E. simpl in E. lia.
      * exfalso. eapply no_clear_script; [exact Hnc|exact Ht|exact Hs].
      * unfold qsett. simpl. now apply Hdone.
    + assert (Hlt : t < length (q_tasks s)) by (apply qget_lt; congruence).
      assert (Hf : QStat c (finish_call cfg s t k v f)).
      { apply Hfin; [assumption|assumption|]. rewrite Hpc. simpl. lia. }
      destruct l as [|[|j]]; [exact Hf|exact Hf|].
      unfold qsett. split; simpl; [assumption|].
      match goal with |- context [qset_nth t ?x' _] =>
        pose proof (calls_started_update s t (q_cache s) (q_hits s) (q_misses s) (q_invoked s) x' Hlt) as E end.
      unfold task_started in E. simpl in E. rewrite Hpc in E. simpl in E. lia.
  - destruct (q_pc (qget s t)) as [|l k v f|] eqn:Hpc; [| |simpl; rewrite Nat.add_0_r; now split].
    + assert (Hlt : t < length (q_tasks s)) by (apply qget_lt; congruence).
      unfold qsett. split; simpl; [assumption|].
      match goal with |- context [qset_nth t ?x' _] =>
        pose proof (calls_started_update s t (q_cache s) (q_hits s) (q_misses s) (q_invoked s) x' Hlt) as E end.
      unfold task_started in E. simpl in E. rewrite Hpc, completed_snoc in E. simpl in E. lia.
    + assert (Hlt : t < length (q_tasks s)) by (apply qget_lt; congruence).
      unfold qsett. split; simpl; [assumption|].
      match goal with |- context [qset_nth t ?x' _] =>
        pose proof (calls_started_update s t (q_cache s) (q_hits s) (q_misses s) (q_invoked s) x' Hlt) as E end.
      unfold task_started in E. simpl in E. rewrite Hpc, completed_snoc in E. simpl in E. lia.
Qed.

Lemma QStat_run : forall cfg sched s c,
  no_clear cfg -> QInv cfg s -> QStat c s -> QStat (c + cancelled_in_call cfg s sched) (qrun cfg s sched).
Proof.
  intros cfg sched. induction sched as [|a r IH]; intros s c Hnc HI HS; simpl.
  - now rewrite Nat.add_0_r.
  - rewrite Nat.add_assoc. apply IH; [assumption|now apply QInv_step|now apply QStat_step].
Qed.
Lemma calls_started_init : forall cfg, calls_started (q_init cfg) = 0.
Proof.
  intros cfg. unfold calls_started, q_init. simpl. induction (q_scripts cfg) as [|sc l IH]; [reflexivity|].
  simpl. rewrite IH. unfold task_started. simpl. destruct sc; reflexivity.
Qed.
Theorem stats_conc : forall cfg sched, no_clear cfg ->
  let s := qexec cfg sched in
  q_misses s = length (q_invoked s) /\
  q_hits s + q_misses s = calls_started s + cancelled_in_call cfg (q_init cfg) sched.
Proof.
  intros cfg sched Hnc s.
  pose proof (QStat_run cfg sched (q_init cfg) 0 Hnc (QInv_init cfg)) as H. simpl in H. apply H.
  split; [reflexivity|]. rewrite calls_started_init. reflexivity.
Qed.

(* ================= 5: failure and cancellation store nothing ================= *)
Definition qstate_of (s : qstate) : list (nat * nat) * nat * nat * list nat :=
  (q_cache s, q_hits s, q_misses s, q_invoked s).

Lemma qget_update_same : forall s t c h m inv x,
  t < length (q_tasks s) -> qget (mkQ c h m inv (qset_nth t x (q_tasks s))) t = x.
Proof.
  intros s t c h m inv x Hlt. unfold qget. simpl. rewrite nth_qset_nth, Nat.eqb_refl.
  apply Nat.ltb_lt in Hlt. now rewrite Hlt.
Qed.
Lemma qget_update_other : forall s t t' c h m inv x,
  t' <> t -> qget (mkQ c h m inv (qset_nth t x (q_tasks s))) t' = qget s t'.
Proof.
  intros s t t' c h m inv x Hne. unfold qget. simpl. rewrite nth_qset_nth.
  destruct (Nat.eqb t t') eqn:E; [apply Nat.eqb_eq in E; congruence|reflexivity].
Qed.

Theorem failed_or_cancelled_stores_nothing : forall cfg s t,
  (* phase B of a failing call, as such ... *)
  (forall k v, qstate_of (finish_call cfg s t k v true) = qstate_of s) /\
  (* ... and as the step that ends the suspension of a failing call *)
  (forall l k v, q_pc (qget s t) = QInCall l k v true -> l <= 1 ->
     let s' := qstep cfg s (QRun t) in
     qstate_of s' = qstate_of s /\ q_results (qget s' t) = q_results (qget s t) ++ [QRaised]) /\
  (* cancellation, at any point *)
  (let s' := qstep cfg s (QCancel t) in
   qstate_of s' = qstate_of s /\
   (q_pc (qget s t) <> QFinished ->
    q_results (qget s' t) = q_results (qget s t) ++ [QCancelled] /\ q_pc (qget s' t) = QFinished)).
Proof.
  intros cfg s t. split; [reflexivity|]. split.
  - intros l k v Hpc Hl s'. assert (Hlt : t < length (q_tasks s)) by (apply qget_lt; congruence).
    assert (E : s' = finish_call cfg s t k v true).
    { unfold s', qstep. simpl. rewrite Hpc. simpl. destruct l as [|[|l]]; [reflexivity|reflexivity|lia]. }
    rewrite E. split; [reflexivity|]. unfold finish_call, qsett. now rewrite qget_update_same.
  - intros s'. unfold s', qstep. simpl.
    destruct (q_pc (qget s t)) eqn:Hpc; simpl.
    + split; [reflexivity|]. intros _. assert (Hlt : t < length (q_tasks s)) by (apply qget_lt; congruence).
      unfold qsett. rewrite qget_update_same by assumption. now split.
    + split; [reflexivity|]. intros _. assert (Hlt : t < length (q_tasks s)) by (apply qget_lt; congruence).
      unfold qsett. rewrite qget_update_same by assumption. now split.
    + split; [reflexivity|]. congruence.
Qed.

(* ================= 6: a task running alone behaves as the sequential cache ================= *)
Definition seq_state : Type := list (nat * nat) * nat * nat * list nat.   (* cache, hits, misses, invocations *)
(* the atomic cache: Model/Lru.v's l_do with abstract keys (and the invocation list instead of its length) *)
Definition seq_do (cfg : qconfig) (st : seq_state) (op : qop) : seq_state * qres :=
  let '(cache, hits, misses, invoked) := st in
  match op with
  | QCall k fails =>
      let n := length invoked in
      match q_maxsize cfg with
      | Some 0 => ((cache, hits, S misses, invoked ++ [k]), if fails then QRaised else QRet n false)
      | None =>
          match qfind k cache with
          | Some v => ((cache, S hits, misses, invoked), QRet v true)
          | None =>
              if fails then ((cache, hits, S misses, invoked ++ [k]), QRaised)
              else ((cache ++ [(k, n)], hits, S misses, invoked ++ [k]), QRet n false)
          end
      | Some m =>
          match qfind k cache with
          | Some v => ((qremove k cache ++ [(k, v)], S hits, misses, invoked), QRet v true)
          | None =>
              if fails then ((cache, hits, S misses, invoked ++ [k]), QRaised)
              else ((if Nat.leb m (length cache) then tl cache ++ [(k, n)] else cache ++ [(k, n)],
                     hits, S misses, invoked ++ [k]), QRet n false)
          end
      end
  | QClear =>
      (match q_maxsize cfg with Some 0 => (cache, hits, 0, invoked) | _ => ([], 0, 0, invoked) end, QDone)
  | QDiscard k =>
      (match q_maxsize cfg with Some 0 => st | _ => (qremove k cache, hits, misses, invoked) end, QDone)
  end.
(* how many times the task has to be resumed for the operation to complete *)
Definition seq_steps (cfg : qconfig) (st : seq_state) (op : qop) : nat :=
  let '(cache, _, _, _) := st in
  match op with
  | QCall k _ =>
      match (match q_maxsize cfg with Some 0 => None | _ => qfind k cache end) with
      | Some _ => 1
      | None => S (q_susp cfg)
      end
  | _ => 1
  end.

Definition op_result (s : qstate) (t : nat) (s' : qstate) (st : seq_state) (r : qres) (rest : list qop) : Prop :=
  qstate_of s' = st /\
  q_results (qget s' t) = q_results (qget s t) ++ [r] /\
  q_script (qget s' t) = rest /\ q_pc (qget s' t) = pc_of rest /\
  (forall t', t' <> t -> qget s' t' = qget s t').

Lemma done_result : forall s t c h m inv r op rest,
  t < length (q_tasks s) -> q_script (qget s t) = op :: rest ->
  op_result s t (mkQ c h m inv (qset_nth t (qdone (qget s t) r) (q_tasks s))) (c, h, m, inv) r rest.
Proof.
  intros s t c h m inv r op rest Hlt Hs. unfold op_result. rewrite qget_update_same by assumption.
  rewrite qdone_eq, Hs. simpl. repeat split. intros t' Hne. now apply qget_update_other.
Qed.

Lemma finish_call_tick : forall cfg s t k v f pc',
  t < length (q_tasks s) ->
  finish_call cfg (qsett s t (mkQT (q_script (qget s t)) pc' (q_results (qget s t)))) t k v f = finish_call cfg s t k v f.
Proof.
  intros cfg s t k v f pc' Hlt. unfold finish_call, qsett. simpl.
  rewrite !qget_update_same by assumption. unfold qdone. simpl.
  destruct f; now rewrite qset_nth_twice.
Qed.
Lemma run_incall : forall cfg t k v f j s,
  q_pc (qget s t) = QInCall (S j) k v f ->
  qrun cfg s (repeat (QRun t) (S j)) = finish_call cfg s t k v f.
Proof.
  intros cfg t k v f j. induction j as [|j IH]; intros s Hpc.
  - simpl. unfold qstep. simpl. rewrite Hpc. reflexivity.
  - assert (Hlt : t < length (q_tasks s)) by (apply qget_lt; congruence).
    change (repeat (QRun t) (S (S j))) with (QRun t :: repeat (QRun t) (S j)).
    change (qrun cfg s (QRun t :: repeat (QRun t) (S j))) with (qrun cfg (qstep cfg s (QRun t)) (repeat (QRun t) (S j))).
    assert (E : qstep cfg s (QRun t) = qsett s t (mkQT (q_script (qget s t)) (QInCall (S j) k v f) (q_results (qget s t)))).
    { unfold qstep. simpl. rewrite Hpc. reflexivity. }
    rewrite E, IH.
    + now apply finish_call_tick.
    + unfold qsett. now rewrite qget_update_same.
Qed.
(* a missing call: phase A, the suspensions, phase B *)
Lemma run_miss : forall cfg s t k f rest,
  q_pc (qget s t) = QIdle -> q_script (qget s t) = QCall k f :: rest ->
  (match q_maxsize cfg with Some 0 => None | _ => qfind k (q_cache s) end) = None ->
  qrun cfg s (repeat (QRun t) (S (q_susp cfg))) =
  finish_call cfg (mkQ (q_cache s) (q_hits s) (S (q_misses s)) (q_invoked s ++ [k]) (q_tasks s)) t k (length (q_invoked s)) f.
Proof.
  intros cfg s t k f rest Hpc Hs Hmiss.
  assert (Hlt : t < length (q_tasks s)) by (apply qget_lt; congruence).
  change (repeat (QRun t) (S (q_susp cfg))) with (QRun t :: repeat (QRun t) (q_susp cfg)).
  change (qrun cfg s (QRun t :: repeat (QRun t) (q_susp cfg))) with (qrun cfg (qstep cfg s (QRun t)) (repeat (QRun t) (q_susp cfg))).
  set (s1 := mkQ (q_cache s) (q_hits s) (S (q_misses s)) (q_invoked s ++ [k]) (q_tasks s)).
  assert (E : qstep cfg s (QRun t) =
              match q_susp cfg with
              | 0 => finish_call cfg s1 t k (length (q_invoked s)) f
              | S j => qsett s1 t (mkQT (QCall k f :: rest) (QInCall (S j) k (length (q_invoked s)) f) (q_results (qget s1 t)))
              end).
  { unfold qstep. simpl. rewrite Hpc. simpl. rewrite Hs, Hmiss. reflexivity. }
  rewrite E. destruct (q_susp cfg) as [|j]; [reflexivity|].
  rewrite (run_incall cfg t k (length (q_invoked s)) f j).
  - rewrite <- Hs. now apply (finish_call_tick cfg s1 t).
  - unfold qsett. now rewrite qget_update_same.
Qed.

Theorem conc_quiesces_to_seq : forall cfg s t op rest,
  q_pc (qget s t) = QIdle -> q_script (qget s t) = op :: rest ->
  (q_maxsize cfg = Some 0 -> q_cache s = []) ->
  let s' := qrun cfg s (repeat (QRun t) (seq_steps cfg (qstate_of s) op)) in
  op_result s t s' (fst (seq_do cfg (qstate_of s) op)) (snd (seq_do cfg (qstate_of s) op)) rest.
Proof.
  intros cfg s t op rest Hpc Hs H0 s'.
  assert (Hlt : t < length (q_tasks s)) by (apply qget_lt; congruence).
  destruct op as [k f| |k].
  - (* QCall *)
    unfold s', seq_steps, seq_do, qstate_of.
    destruct (match q_maxsize cfg with Some 0 => None | _ => qfind k (q_cache s) end) as [v|] eqn:Hhit.
    + (* hit *)
      assert (E : qstep cfg s (QRun t) =
                  mkQ (match q_maxsize cfg with None => q_cache s | Some _ => qremove k (q_cache s) ++ [(k, v)] end)
                      (S (q_hits s)) (q_misses s) (q_invoked s) (qset_nth t (qdone (qget s t) (QRet v true)) (q_tasks s))).
      { unfold qstep. simpl. rewrite Hpc. simpl. rewrite Hs, Hhit. reflexivity. }
      simpl qrun. rewrite E.
      destruct (q_maxsize cfg) as [[|m]|]; [discriminate| |]; rewrite Hhit; simpl fst; simpl snd;
        eapply done_result; eassumption.
    + (* miss *)
      rewrite (run_miss cfg s t k f rest Hpc Hs Hhit). unfold finish_call, qsett. simpl.
      change (qget (mkQ (q_cache s) (q_hits s) (S (q_misses s)) (q_invoked s ++ [k]) (q_tasks s)) t) with (qget s t).
      destruct (q_maxsize cfg) as [[|m]|] eqn:Hm.
      * destruct f; simpl fst; simpl snd; eapply done_result; eassumption.
      * rewrite Hhit. unfold store. rewrite Hhit.
        destruct f; simpl fst; simpl snd; [eapply done_result; eassumption|].
        change (match length (q_cache s) with 0 => false | S m' => Nat.leb m m' end) with (Nat.leb (S m) (length (q_cache s))).
        destruct (Nat.leb (S m) (length (q_cache s))); eapply done_result; eassumption.
      * rewrite Hhit. unfold store. rewrite Hhit.
        destruct f; simpl fst; simpl snd; eapply done_result; eassumption.
  - (* QClear *)
    unfold s', seq_steps, seq_do, qstate_of. simpl qrun.
    assert (E : qstep cfg s (QRun t) =
                match q_maxsize cfg with
                | Some 0 => mkQ (q_cache s) (q_hits s) 0 (q_invoked s) (qset_nth t (qdone (qget s t) QDone) (q_tasks s))
                | _ => mkQ [] 0 0 (q_invoked s) (qset_nth t (qdone (qget s t) QDone) (q_tasks s))
                end).
    { unfold qstep. simpl. rewrite Hpc. simpl. rewrite Hs. destruct (q_maxsize cfg) as [[|m]|]; reflexivity. }
    rewrite E. destruct (q_maxsize cfg) as [[|m]|]; simpl fst; simpl snd; eapply done_result; eassumption.
  - (* QDiscard *)
    unfold s', seq_steps, seq_do, qstate_of. simpl qrun.
    assert (E : qstep cfg s (QRun t) =
                mkQ (qremove k (q_cache s)) (q_hits s) (q_misses s) (q_invoked s) (qset_nth t (qdone (qget s t) QDone) (q_tasks s))).
    { unfold qstep. simpl. rewrite Hpc. simpl. rewrite Hs. reflexivity. }
    rewrite E. destruct (q_maxsize cfg) as [[|m]|] eqn:Hm; simpl fst; simpl snd; try (eapply done_result; eassumption).
    rewrite (H0 eq_refl). simpl qremove. rewrite <- (H0 eq_refl). eapply done_result; eassumption.
Qed.

(* in particular from every reachable state *)
Corollary conc_quiesces_to_seq_reachable : forall cfg sched t op rest,
  let s := qexec cfg sched in
  q_pc (qget s t) = QIdle -> q_script (qget s t) = op :: rest ->
  let s' := qrun cfg s (repeat (QRun t) (seq_steps cfg (qstate_of s) op)) in
  op_result s t s' (fst (seq_do cfg (qstate_of s) op)) (snd (seq_do cfg (qstate_of s) op)) rest.
Proof.
  intros cfg sched t op rest s Hpc Hs. apply conc_quiesces_to_seq; [assumption|assumption|].
  intros Hm. now apply size_zero_conc.
Qed.

(* ================= further corollaries and examples ================= *)
Corollary stats_conc_lower : forall cfg sched, no_clear cfg ->
  calls_started (qexec cfg sched) <= q_hits (qexec cfg sched) + q_misses (qexec cfg sched).
Proof. intros cfg sched Hnc. destruct (stats_conc cfg sched Hnc) as [_ H]. lia. Qed.

Definition qobs (cfg : qconfig) (sched : list qaction) :=
  let s := qexec cfg sched in (qstate_of s, map q_results (q_tasks s)).

(* maxsize 1, two overlapping misses on different keys: both are invoked, one entry remains *)
Example ex_overlapping_misses :
  qobs (mkQCfg (Some 1) 1 [[QCall 1 false]; [QCall 2 false]]) [QRun 0; QRun 1; QRun 0; QRun 1]
  = (([(2, 1)], 0, 2, [1; 2]), [[QRet 0 false]; [QRet 1 false]]).
Proof. vm_compute. reflexivity. Qed.
(* two overlapping misses on the same key: both invoked, the first stored value stays, the later call of the
   second task hits it *)
Example ex_overlapping_same_key :
  qobs (mkQCfg (Some 2) 1 [[QCall 1 false]; [QCall 1 false; QCall 1 false]]) [QRun 0; QRun 1; QRun 0; QRun 1; QRun 1]
  = (([(1, 0)], 1, 2, [1; 1]), [[QRet 0 false]; [QRet 1 false; QRet 0 true]]).
Proof. vm_compute. reflexivity. Qed.
(* a clear during a call: the call still stores its value afterwards, and the statistics no longer count it;
   so the hypothesis [no_clear] of [stats_conc] cannot be dropped *)
Example ex_clear_during_call :
  qobs (mkQCfg None 2 [[QCall 1 false]; [QClear]]) [QRun 0; QRun 1; QRun 0; QRun 0]
  = (([(1, 0)], 0, 0, [1]), [[QRet 0 false]; [QDone]]).
Proof. vm_compute. reflexivity. Qed.
Theorem stats_conc_with_clear_refuted : exists cfg sched,
  let s := qexec cfg sched in
  q_misses s <> length (q_invoked s) /\
  q_hits s + q_misses s <> calls_started s + cancelled_in_call cfg (q_init cfg) sched.
Proof.
  exists (mkQCfg None 2 [[QCall 1 false]; [QClear]]), [QRun 0; QRun 1; QRun 0; QRun 0].
  vm_compute. split; discriminate.
Qed.
(* a cancelled call stores nothing, is counted as a miss, and the next call for the key invokes again *)
Example ex_cancelled_call :
  let cfg := mkQCfg (Some 2) 1 [[QCall 1 false]; [QCall 1 false]] in
  let sched := [QRun 0; QCancel 0; QRun 1; QRun 1] in
  qobs cfg sched = (([(1, 1)], 0, 2, [1; 1]), [[QCancelled]; [QRet 1 false]]) /\
  calls_started (qexec cfg sched) = 1 /\ cancelled_in_call cfg (q_init cfg) sched = 1.
Proof. vm_compute. repeat split. Qed.
(* a failing call stores nothing; the retry invokes again and stores *)
Example ex_failed_call :
  qobs (mkQCfg (Some 2) 1 [[QCall 1 true; QCall 1 false]]) [QRun 0; QRun 0; QRun 0; QRun 0]
  = (([(1, 1)], 0, 2, [1; 1]), [[QRaised; QRet 1 false]]).
Proof. vm_compute. reflexivity. Qed.

Print Assumptions QInv_step.
Print Assumptions QInv_exec.
Print Assumptions size_bounded_conc.
Print Assumptions size_zero_conc.
Print Assumptions keys_unique_conc.
Print Assumptions results_follow_script.
Print Assumptions results_length.
Print Assumptions values_genuine.
Print Assumptions misses_le_invocations.
Print Assumptions stats_conc.
Print Assumptions stats_conc_lower.
Print Assumptions stats_conc_with_clear_refuted.
Print Assumptions failed_or_cancelled_stores_nothing.
Print Assumptions conc_quiesces_to_seq.
Print Assumptions conc_quiesces_to_seq_reachable.
Print Assumptions ex_overlapping_misses.
Print Assumptions ex_clear_during_call.
Print Assumptions ex_cancelled_call.
