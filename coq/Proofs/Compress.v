(* itertools.compress(data, selectors): source 0 = data, source 1 = selectors. *)
From Coq Require Import List ZArith NArith Bool Arith Lia.
Import ListNotations.
Require Import V.Kernel.Values V.Kernel.Monad V.Model.Builtins V.Model.Itertools V.Proofs.Steps V.Std.Multi
               V.Proofs.MultiSteps V.Proofs.Rows.

Definition compress_consumer : val -> M unit :=
  fun t => match t with
           | VTup [item; keep] => if truthy keep then yield_to item else ret tt
           | _ => ret tt
           end.
Definition compress_out (row : list val) : list event :=
  match row with
  | [item; keep] => if truthy keep then [EYield item] else []
  | _ => []
  end.
Lemma compress_consumer_rows : yield_ok_with compress_consumer compress_out.
Proof.
  intros row ss lg u. destruct row as [|a [|b [|c r]]]; try (exists u; reflexivity).
  unfold compress_consumer, compress_out. destruct (truthy b); [exists (S u)|exists u]; reflexivity.
Qed.
Lemma compress_out_close_free row : close_free (compress_out row) = true.
Proof. destruct row as [|a [|b [|c r]]]; try reflexivity. unfold compress_out. destruct (truthy b); reflexivity. Qed.

(* the readable specification is the row engine instantiated at two sources *)
Lemma compress_trace_rows : forall data sels,
  spec_rows_trace compress_out false data [sels] = spec_compress_trace data sels.
Proof.
  induction data as [|x d IH]; intros sels; [reflexivity|].
  destruct sels as [|s r]; [reflexivity|].
  cbn [spec_rows_trace spec_compress_trace spec_poll forallb nonempty andb map hd tl compress_out app].
  rewrite IH. reflexivity.
Qed.

Theorem compress_trace : forall data sels,
  let '(o, w) := run_gen a_compress (init_world [data; sels] None) in
  o = Ok tt /\ no_closes (rev (log w)) = spec_compress_trace data sels /\ all_released w = true.
Proof.
  intros data sels. rewrite init_worldN. unfold run_gen, a_compress. fold compress_consumer.
  destruct (zip_inner_spec false compress_consumer compress_out compress_consumer_rows data [sels] [] 0)
    as (ss' & u' & Hin & Hlen).
  cbn [length seq map] in Hin, Hlen. rewrite rows_end_nonstrict, compress_trace_rows in Hin.
  destruct ss' as [|a [|b [|c r]]]; try (simpl in Hlen; lia).
  destruct (close_mid [a] b [] 1 (rev (spec_compress_trace data sels) ++ []) u' eq_refl) as (cl1 & u1 & Hc1 & Hcl1).
  destruct (close_mid [] a [closed_src b] 0 (cl1 ++ rev (spec_compress_trace data sels) ++ []) u1 eq_refl)
    as (cl0 & u0 & Hc0 & Hcl0).
  cbn [app] in Hc1, Hc0.
  unfold scoped.
  assert (Hinner : finally (zip_inner false [0; 1] compress_consumer) (close 1) (W [fs data; fs sels] [] 0)
                   = (Ok tt, W [a; closed_src b] (cl1 ++ rev (spec_compress_trace data sels) ++ []) u1))
    by (erewrite finally_ok; [reflexivity | exact Hin | discriminate | exact Hc1 ]).
  erewrite (finally_ok _ (close 0)); [ | exact Hinner | discriminate | exact Hc0 ].
  split; [reflexivity|]. split.
  - cbn [log W]. rewrite app_assoc. apply no_closes_log.
    + apply only_closes_app; assumption.
    + rewrite <- compress_trace_rows. apply rows_trace_close_free. exact compress_out_close_free.
  - unfold all_released. cbn [srcs W forallb]. rewrite !released_closed. reflexivity.
Qed.

Corollary compress_yields : forall data sels, yields (spec_compress_trace data sels) = spec_compress data sels.
Proof.
  induction data as [|x d IH]; intros sels; [reflexivity|].
  destruct sels as [|s r]; [reflexivity|].
  cbn [spec_compress_trace]. rewrite !yields_app, IH. unfold spec_compress. cbn [combine filter snd].
  destruct (truthy s); reflexivity.
Qed.

Example compress_example :
  spec_compress_trace [VInt 1; VInt 2; VInt 3] [VInt 1; VInt 0]
  = [EPull 0; EItem 0 (VInt 1); EPull 1; EItem 1 (VInt 1); EYield (VInt 1);
     EPull 0; EItem 0 (VInt 2); EPull 1; EItem 1 (VInt 0);
     EPull 0; EItem 0 (VInt 3); EPull 1; EEnd 1]
  /\ spec_compress [VInt 1; VInt 2; VInt 3] [VInt 1; VInt 0] = [VInt 1].
Proof. split; reflexivity. Qed.

Print Assumptions compress_trace.
Print Assumptions compress_yields.
