(* Property C14: asyncstdlib's ExitStack unwinds exactly like nested (async) with statements, and over
   whole histories (register / failing enter / pop_all / unwind) every registered exit runs exactly once.
   The model (Model/ExitStack.v) is not edited here. *)
From Coq Require Import List ZArith NArith Bool Arith Lia Sorting.Permutation.
Import ListNotations.
Require Import V.Model.ExitStack.

(* ------------------------------------------------------------------------------------------------ *)
(* 1. the loop of __aexit__ = nested with statements                                                 *)
(* ------------------------------------------------------------------------------------------------ *)

Definition inflight (o : xoutcome) : option nat := match o with XNormal => None | XRaises e => Some e end.
Definition of_exc (e : option nat) : xoutcome := match e with None => XNormal | Some e => XRaises e end.
(* what one exit makes of the outcome of everything inside it *)
Definition exit_step (x : entry) (o : xoutcome) : xoutcome :=
  match behave x (inflight o), x_kind x with
  | BRaise e, _ => XRaises e
  | BTruthy, KExit => XNormal
  | _, _ => o
  end.
(* the value the [async with] statement computes from the final loop state *)
Definition final (block : xoutcome) (exc : option nat) (suppress reraise : bool) : xoutcome :=
  match reraise, exc with
  | true, Some e => XRaises e
  | _, _ => match block with
            | XNormal => XNormal
            | XRaises e => if suppress then XNormal else XRaises e
            end
  end.

Lemma inflight_of_exc : forall e, inflight (of_exc e) = e.
Proof. intros [e|]; reflexivity. Qed.
Lemma of_exc_inflight : forall o, of_exc (inflight o) = o.
Proof. intros [|e]; reflexivity. Qed.

Lemma nested_cons : forall x inner block,
  nested (x :: inner) block =
  (exit_step x (fst (nested inner block)),
   snd (nested inner block) ++ [(x_id x, inflight (fst (nested inner block)))]).
Proof. intros x inner block. simpl. destruct (nested inner block) as [o lg]. reflexivity. Qed.

Lemma nested_snoc : forall l x block,
  nested (l ++ [x]) block =
  (fst (nested l (exit_step x block)), (x_id x, inflight block) :: snd (nested l (exit_step x block))).
Proof.
  induction l as [|y l IH]; intros x block.
  - simpl app. rewrite nested_cons. reflexivity.
  - simpl app. rewrite !nested_cons, IH. reflexivity.
Qed.

Lemma nested_app : forall a b block,
  nested (a ++ b) block =
  (fst (nested a (fst (nested b block))), snd (nested b block) ++ snd (nested a (fst (nested b block)))).
Proof.
  induction a as [|y a IH]; intros b block.
  - simpl. destruct (nested b block) as [o lg]. simpl. now rewrite app_nil_r.
  - change ((y :: a) ++ b) with (y :: (a ++ b)). rewrite !nested_cons, IH. cbn [fst snd]. now rewrite <- app_assoc.
Qed.

Lemma unwind_loop_spec : forall block l exc s r log,
  final block exc s r = of_exc exc ->
  let '(exc', s', r', log') := unwind_loop l exc s r log in
  final block exc' s' r' = fst (nested (rev l) (of_exc exc)) /\
  log' = log ++ snd (nested (rev l) (of_exc exc)).
Proof.
  intros block. induction l as [|x l IH]; intros exc s r log Hinv.
  - simpl. split; [exact Hinv | now rewrite app_nil_r].
  - simpl rev. rewrite nested_snoc. rewrite inflight_of_exc.
    cbn [unwind_loop fst snd]. unfold exit_step. rewrite inflight_of_exc.
    destruct (x_kind x) eqn:K, (behave x exc) eqn:B;
      (lazymatch goal with
       | |- context [unwind_loop l ?e ?s0 ?r0 ?lg] =>
           specialize (IH e s0 r0 lg); destruct (unwind_loop l e s0 r0 lg) as [[[e' s'] r'] lg']
       end);
      (destruct IH as [H1 H2];
       [ first [ exact Hinv | reflexivity | destruct block; reflexivity ]
       | split; [ exact H1 | rewrite H2, <- app_assoc; reflexivity ] ]).
Qed.

Theorem unwind_nested : forall registered block, stack_exit registered block = nested registered block.
Proof.
  intros registered block. unfold stack_exit.
  pose proof (unwind_loop_spec block (rev registered) (inflight block) false false []) as H.
  unfold inflight in H.
  destruct (unwind_loop (rev registered) match block with XNormal => None | XRaises e => Some e end false false [])
    as [[[exc s] r] lg].
  destruct H as [H1 H2]; [destruct block; reflexivity|].
  rewrite rev_involutive in H1, H2. fold (inflight block) in H1, H2. rewrite of_exc_inflight in H1, H2.
  fold (final block exc s r). rewrite H1, H2. simpl. now destruct (nested registered block).
Qed.

(* the exits run in reverse registration order, each exactly once per unwind *)
Lemma nested_ids : forall l block, map fst (snd (nested l block)) = rev (map x_id l).
Proof.
  induction l as [|x l IH]; intros block; [reflexivity|].
  rewrite nested_cons. simpl. rewrite map_app, IH. reflexivity.
Qed.
Theorem unwind_order : forall registered block,
  map fst (snd (stack_exit registered block)) = rev (map x_id registered).
Proof. intros. rewrite unwind_nested. apply nested_ids. Qed.

(* ------------------------------------------------------------------------------------------------ *)
(* 2. callbacks cannot suppress; every exit is handed the exception in flight                       *)
(* ------------------------------------------------------------------------------------------------ *)

Definition never_raises (x : entry) : Prop :=
  (forall e, x_on_none x <> BRaise e) /\ (forall e, x_on_exc x <> BRaise e).

Theorem callbacks_cannot_suppress : forall registered block,
  Forall (fun x => x_kind x = KCallback) registered ->
  Forall never_raises registered ->
  fst (stack_exit registered block) = block.
Proof.
  intros registered block HK HR. rewrite unwind_nested.
  induction registered as [|x l IH]; [reflexivity|].
  inversion HK as [|? ? Kx HK']; subst. inversion HR as [|? ? Rx HR']; subst.
  rewrite nested_cons. cbn [fst]. rewrite (IH HK' HR'). unfold exit_step. rewrite Kx.
  destruct (behave x (inflight block)) eqn:B; try reflexivity.
  exfalso. destruct Rx as [R1 R2]. unfold behave in B. destruct (inflight block); [eapply R2|eapply R1]; exact B.
Qed.

(* ... and each of them runs with the block's own outcome still in flight *)
Theorem callbacks_all_see_block : forall registered block,
  Forall (fun x => x_kind x = KCallback) registered ->
  Forall never_raises registered ->
  snd (stack_exit registered block) = map (fun x => (x_id x, inflight block)) (rev registered).
Proof.
  intros registered block HK HR.
  induction registered as [|x l IH]; [reflexivity|].
  inversion HK as [|? ? Kx HK']; subst. inversion HR as [|? ? Rx HR']; subst.
  pose proof (callbacks_cannot_suppress l block HK' HR') as Hf.
  rewrite unwind_nested in *. rewrite nested_cons. cbn [snd]. rewrite (IH HK' HR'), Hf.
  simpl rev. now rewrite map_app.
Qed.

Theorem exit_receives_in_flight : forall before x after block,
  let handed := match fst (nested after block) with XNormal => None | XRaises e => Some e end in
  snd (stack_exit (before ++ x :: after) block) =
    snd (nested after block) ++ (x_id x, handed) :: snd (nested before (exit_step x (fst (nested after block))))
  /\ length (snd (nested after block)) = length after
  /\ nth (length after) (snd (stack_exit (before ++ x :: after) block)) (0, None) = (x_id x, handed).
Proof.
  intros before x after block handed.
  assert (Hlen : length (snd (nested after block)) = length after).
  { pose proof (f_equal (@length nat) (nested_ids after block)) as HL.
    rewrite map_length, rev_length, map_length in HL. exact HL. }
  assert (Heq : snd (stack_exit (before ++ x :: after) block) =
    snd (nested after block) ++ (x_id x, handed) :: snd (nested before (exit_step x (fst (nested after block))))).
  { rewrite unwind_nested, nested_app. cbn [snd]. rewrite nested_cons. cbn [fst snd].
    rewrite <- app_assoc. reflexivity. }
  split; [exact Heq|]. split; [exact Hlen|].
  rewrite Heq, app_nth2 by lia. rewrite Hlen, Nat.sub_diag. reflexivity.
Qed.

Lemma in_fst_unique : forall (l : list xcall) k h h',
  NoDup (map fst l) -> In (k, h) l -> In (k, h') l -> h = h'.
Proof.
  induction l as [|[k0 h0] l IH]; intros k h h' ND H1 H2; [contradiction|].
  simpl in ND. inversion ND as [|? ? Hn ND']; subst.
  destruct H1 as [H1|H1], H2 as [H2|H2].
  - congruence.
  - inversion H1; subst. exfalso. apply Hn. change k with (fst (k, h')). now apply in_map.
  - inversion H2; subst. exfalso. apply Hn. change k with (fst (k, h)). now apply in_map.
  - eapply IH; eauto.
Qed.

(* with distinct ids: whatever the log says x was handed is exactly the outcome of the later-registered exits *)
Corollary exit_receives_only_in_flight : forall before x after block h,
  NoDup (map x_id (before ++ x :: after)) ->
  In (x_id x, h) (snd (stack_exit (before ++ x :: after) block)) ->
  h = match fst (nested after block) with XNormal => None | XRaises e => Some e end.
Proof.
  intros before x after block h ND Hin.
  destruct (exit_receives_in_flight before x after block) as [Heq _].
  eapply in_fst_unique; [| exact Hin |].
  - rewrite unwind_order. now apply NoDup_rev.
  - rewrite Heq. apply in_or_app. right. left. reflexivity.
Qed.

(* ------------------------------------------------------------------------------------------------ *)
(* 3. histories: every registered exit runs exactly once                                             *)
(* ------------------------------------------------------------------------------------------------ *)

Definition calls_of (o : xobs) : list nat :=
  match o with XUnwound _ calls => map fst calls | _ => [] end.
(* ids of all exit calls of all unwinds, in order *)
Definition executed (obs : list xobs) : list nat := flat_map calls_of obs.
Definition reg_of (op : xop) : list entry := match op with XRegister _ x => [x] | _ => [] end.
Definition registrations (ops : list xop) : list entry := flat_map reg_of ops.
Definition id_of (x : entry) : nat := x_id x.
Definition registered_ids (ops : list xop) : list nat := map id_of (registrations ops).

(* the state after a history *)
Fixpoint x_exec (s : xstate) (ops : list xop) : xstate :=
  match ops with [] => s | op :: r => x_exec (fst (x_do s op)) r end.

(* every XRegister addresses a stack that exists at that time ([n] = current number of stacks).
   (The model silently ignores a registration on a non-existent stack index; the real library has no such
   operation: a stack object always exists.) *)
Fixpoint registers_in_range (n : nat) (ops : list xop) : bool :=
  match ops with
  | [] => true
  | XRegister i _ :: r => (i <? n) && registers_in_range n r
  | XPopAll _ :: r => registers_in_range (S n) r
  | _ :: r => registers_in_range n r
  end.
(* ids of registrations on non-existent stacks *)
Fixpoint dropped (n : nat) (ops : list xop) : list nat :=
  match ops with
  | [] => []
  | XRegister i x :: r => if i <? n then dropped n r else x_id x :: dropped n r
  | XPopAll _ :: r => dropped (S n) r
  | _ :: r => dropped n r
  end.

Definition is_nil {A} (l : list A) : bool := match l with [] => true | _ => false end.
Definition all_empty (s : xstate) : bool := forallb is_nil (stacks s).
Fixpoint nodupb (l : list nat) : bool :=
  match l with [] => true | x :: r => negb (existsb (Nat.eqb x) r) && nodupb r end.

Lemma nodupb_NoDup : forall l, nodupb l = true -> NoDup l.
Proof.
  induction l as [|x l IH]; intros H; [constructor|].
  simpl in H. apply andb_prop in H. destruct H as [H1 H2]. constructor; [|auto].
  intros Hin. apply negb_true_iff in H1.
  assert (existsb (Nat.eqb x) l = true) as E by (apply existsb_exists; exists x; split; [exact Hin|apply Nat.eqb_refl]).
  congruence.
Qed.

Lemma NoDup_app_l : forall (A : Type) (a b : list A), NoDup (a ++ b) -> NoDup a.
Proof.
  induction a as [|x a IH]; intros b H; [constructor|].
  simpl in H. inversion H as [|? ? Hn H']; subst. constructor; [|eauto].
  intros Hin. apply Hn. apply in_or_app. now left.
Qed.

(* --- set_nth --- *)
Lemma set_nth_length : forall (A : Type) (l : list A) i v, length (set_nth i v l) = length l.
Proof. induction l as [|h t IH]; intros [|i] v; simpl; auto. Qed.
Lemma set_nth_out : forall (A : Type) (l : list A) i v, length l <= i -> set_nth i v l = l.
Proof.
  induction l as [|h t IH]; intros [|i] v H; simpl in *; try reflexivity; try lia.
  f_equal. apply IH. lia.
Qed.
Lemma nth_set_nth_eq_nil : forall (A : Type) (l : list (list A)) i, nth i (set_nth i [] l) [] = [].
Proof. induction l as [|h t IH]; intros [|i]; simpl; auto. Qed.
Lemma nth_set_nth_neq : forall (A : Type) (l : list A) i j v d, i <> j -> nth j (set_nth i v l) d = nth j l d.
Proof.
  induction l as [|h t IH]; intros [|i] [|j] v d H; simpl; auto; try congruence.
Qed.
Lemma concat_set_nth_nil : forall (A : Type) (l : list (list A)) i,
  Permutation (concat (set_nth i [] l) ++ nth i l []) (concat l).
Proof.
  induction l as [|h t IH]; intros [|i]; simpl.
  - constructor.
  - constructor.
  - apply Permutation_app_comm.
  - rewrite <- app_assoc. apply Permutation_app_head. apply IH.
Qed.
Lemma concat_set_nth_snoc : forall (A : Type) (l : list (list A)) i v, i < length l ->
  Permutation (concat (set_nth i (nth i l [] ++ v) l)) (concat l ++ v).
Proof.
  induction l as [|h t IH]; intros [|i] v H; simpl in *; try lia.
  - rewrite <- !app_assoc. apply Permutation_app_head. apply Permutation_app_comm.
  - rewrite <- app_assoc. apply Permutation_app_head. apply IH. lia.
Qed.
Lemma concat_all_nil : forall (A : Type) (l : list (list A)),
  (forall j, j < length l -> nth j l [] = []) -> concat l = [].
Proof.
  induction l as [|h t IH]; intros H; [reflexivity|].
  assert (H0 : h = []) by (apply (H 0); simpl; lia). subst h. simpl. apply IH.
  intros j Hj. apply (H (S j)). simpl. lia.
Qed.
Lemma all_empty_concat : forall s, all_empty s = true -> concat (stacks s) = [].
Proof.
  intros [l]. unfold all_empty. simpl. induction l as [|h t IH]; intros H; [reflexivity|].
  simpl in H. apply andb_prop in H. destruct H as [H1 H2]. destruct h; [|discriminate]. simpl. auto.
Qed.

(* --- one step --- *)
Lemma x_run_cons : forall s op r, x_run s (op :: r) = snd (x_do s op) :: x_run (fst (x_do s op)) r.
Proof. intros. simpl. destruct (x_do s op). reflexivity. Qed.
Lemma x_do_unwind : forall s i b,
  x_do s (XUnwind i b) =
  (mkX (set_nth i [] (stacks s)),
   XUnwound (fst (stack_exit (nth i (stacks s) []) b)) (snd (stack_exit (nth i (stacks s) []) b))).
Proof. intros. unfold x_do. destruct (stack_exit (nth i (stacks s) []) b). reflexivity. Qed.

Lemma executed_cons : forall o r, executed (o :: r) = calls_of o ++ executed r.
Proof. reflexivity. Qed.

(* conservation of exits: executed + still held + dropped = initially held + registered *)
Lemma history_balance : forall ops s,
  Permutation
    (executed (x_run s ops) ++ map x_id (concat (stacks (x_exec s ops))) ++ dropped (length (stacks s)) ops)
    (map x_id (concat (stacks s)) ++ registered_ids ops).
Proof.
  induction ops as [|op ops IH]; intros s.
  - simpl. unfold registered_ids. simpl. rewrite !app_nil_r. apply Permutation_refl.
  - rewrite x_run_cons, executed_cons. cbn [x_exec].
    destruct op as [i x|i x|i|i b].
    + (* register *)
      cbn [x_do fst snd calls_of app dropped].
      specialize (IH (mkX (set_nth i (nth i (stacks s) [] ++ [x]) (stacks s)))).
      cbn [stacks] in IH. rewrite set_nth_length in IH.
      unfold registered_ids, registrations in *. cbn [flat_map reg_of app map]. change (id_of x) with (x_id x).
      destruct (i <? length (stacks s)) eqn:Hi.
      * apply Nat.ltb_lt in Hi.
        eapply Permutation_trans; [exact IH|].
        change (x_id x :: map id_of (flat_map reg_of ops)) with ([x_id x] ++ map id_of (flat_map reg_of ops)).
        rewrite app_assoc. apply Permutation_app_tail.
        change [x_id x] with (map x_id [x]). rewrite <- map_app. apply Permutation_map.
        apply concat_set_nth_snoc. exact Hi.
      * apply Nat.ltb_ge in Hi. rewrite set_nth_out in IH by exact Hi. rewrite set_nth_out by exact Hi.
        rewrite app_assoc. eapply Permutation_trans; [apply Permutation_sym, Permutation_middle|].
        eapply Permutation_trans; [|apply Permutation_middle]. apply perm_skip.
        rewrite <- app_assoc. exact IH.
    + (* failing enter *)
      cbn [x_do fst snd calls_of app dropped]. apply IH.
    + (* pop_all *)
      cbn [x_do fst snd calls_of app dropped].
      specialize (IH (mkX (set_nth i [] (stacks s) ++ [nth i (stacks s) []]))).
      cbn [stacks] in IH. rewrite app_length, set_nth_length in IH. simpl length in IH.
      rewrite Nat.add_1_r in IH.
      eapply Permutation_trans; [exact IH|].
      unfold registered_ids, registrations. cbn [flat_map reg_of app].
      apply Permutation_app_tail. apply Permutation_map.
      rewrite concat_app. simpl concat. rewrite app_nil_r. apply concat_set_nth_nil.
    + (* unwind *)
      rewrite x_do_unwind. cbn [fst snd calls_of dropped].
      rewrite unwind_order.
      specialize (IH (mkX (set_nth i [] (stacks s)))). cbn [stacks] in IH. rewrite set_nth_length in IH.
      unfold registered_ids, registrations in *. cbn [flat_map reg_of app].
      rewrite <- app_assoc.
      eapply Permutation_trans; [apply Permutation_app_tail, Permutation_sym, Permutation_rev|].
      eapply Permutation_trans; [apply Permutation_app_head, IH|].
      rewrite app_assoc. apply Permutation_app_tail.
      eapply Permutation_trans; [apply Permutation_app_comm|].
      rewrite <- map_app. apply Permutation_map. apply concat_set_nth_nil.
Qed.

Lemma dropped_in_range : forall ops n, registers_in_range n ops = true -> dropped n ops = [].
Proof.
  induction ops as [|op ops IH]; intros n H; [reflexivity|].
  destruct op as [i x|i x|i|i b]; simpl in *; auto.
  apply andb_prop in H. destruct H as [H1 H2]. rewrite H1. auto.
Qed.

Lemma history_balance_init : forall ops,
  Permutation
    (executed (x_run x_init ops) ++ map x_id (concat (stacks (x_exec x_init ops))) ++ dropped 1 ops)
    (registered_ids ops).
Proof. intros ops. exact (history_balance ops x_init). Qed.

Theorem exits_at_most_once : forall ops,
  NoDup (map id_of (registrations ops)) -> NoDup (executed (x_run x_init ops)).
Proof.
  intros ops ND. eapply NoDup_app_l.
  eapply Permutation_NoDup; [apply Permutation_sym, history_balance_init|exact ND].
Qed.
Corollary exits_at_most_once_b : forall ops,
  nodupb (map id_of (registrations ops)) = true -> NoDup (executed (x_run x_init ops)).
Proof. intros ops H. apply exits_at_most_once, nodupb_NoDup, H. Qed.

Theorem exits_only_registered : forall ops, incl (executed (x_run x_init ops)) (registered_ids ops).
Proof.
  intros ops k Hk. eapply Permutation_in; [apply history_balance_init|].
  apply in_or_app. now left.
Qed.
(* in particular: the context manager of a failing enter_context is never exited *)
Corollary failed_enter_never_executed : forall ops i x,
  In (XEnterFails i x) ops -> ~ In (x_id x) (registered_ids ops) -> ~ In (x_id x) (executed (x_run x_init ops)).
Proof. intros ops i x _ Hn Hin. apply Hn. eapply exits_only_registered; eauto. Qed.

Lemma set_nth_idem : forall (A : Type) (l : list A) i v, set_nth i v (set_nth i v l) = set_nth i v l.
Proof. induction l as [|h t IH]; intros [|i] v; simpl; auto. f_equal. apply IH. Qed.

Theorem unwound_stack_is_empty : forall s i block,
  let s' := fst (x_do s (XUnwind i block)) in
  nth i (stacks s') [] = [] /\
  forall block', x_do s' (XUnwind i block') = (mkX (stacks s'), XUnwound block' []).
Proof.
  intros s i block s'. subst s'. rewrite x_do_unwind. cbn [fst stacks].
  split; [apply nth_set_nth_eq_nil|].
  intros block'. rewrite x_do_unwind. cbn [stacks]. rewrite nth_set_nth_eq_nil.
  rewrite unwind_nested. cbn [nested fst snd]. now rewrite set_nth_idem.
Qed.


Theorem pop_all_transfers : forall s i,
  let s' := fst (x_do s (XPopAll i)) in
  let new := length (stacks s) in
  snd (x_do s (XPopAll i)) = XNewStack new /\
  forall block,
    snd (x_do s' (XUnwind i block)) = XUnwound block [] /\
    snd (x_do s' (XUnwind new block)) = snd (x_do s (XUnwind i block)).
Proof.
  intros s i s' new. subst s' new.
  change (x_do s (XPopAll i))
    with (mkX (set_nth i [] (stacks s) ++ [nth i (stacks s) []]), XNewStack (length (stacks s))).
  cbn [fst snd]. split; [reflexivity|].
  intros block. rewrite !x_do_unwind. cbn [stacks snd].
  assert (H1 : nth i (set_nth i [] (stacks s) ++ [nth i (stacks s) []]) [] = []).
  { destruct (Nat.lt_ge_cases i (length (stacks s))) as [Hi|Hi].
    - rewrite app_nth1 by (rewrite set_nth_length; exact Hi). apply nth_set_nth_eq_nil.
    - rewrite set_nth_out by exact Hi. rewrite (nth_overflow (stacks s)) by exact Hi.
      destruct (Nat.eq_dec i (length (stacks s))) as [->|Hne].
      + rewrite app_nth2 by lia. rewrite Nat.sub_diag. reflexivity.
      + apply nth_overflow. rewrite app_length. simpl. lia. }
  assert (H2 : nth (length (stacks s)) (set_nth i [] (stacks s) ++ [nth i (stacks s) []]) [] = nth i (stacks s) []).
  { rewrite app_nth2 by (rewrite set_nth_length; lia). rewrite set_nth_length, Nat.sub_diag. reflexivity. }
  rewrite H1, H2. split; [|reflexivity]. rewrite unwind_nested. reflexivity.
Qed.

Theorem exits_exactly_once : forall ops,
  registers_in_range 1 ops = true ->
  all_empty (x_exec x_init ops) = true ->
  Permutation (executed (x_run x_init ops)) (registered_ids ops).
Proof.
  intros ops Hr He. pose proof (history_balance_init ops) as H.
  rewrite (dropped_in_range _ _ Hr), (all_empty_concat _ He) in H. simpl in H.
  now rewrite app_nil_r in H.
Qed.
(* with distinct ids: no id twice, and the same ids *)
Corollary exits_exactly_once_nodup : forall ops,
  registers_in_range 1 ops = true ->
  all_empty (x_exec x_init ops) = true ->
  NoDup (map id_of (registrations ops)) ->
  NoDup (executed (x_run x_init ops)) /\
  forall k, In k (executed (x_run x_init ops)) <-> In k (registered_ids ops).
Proof.
  intros ops Hr He ND. split; [now apply exits_at_most_once|].
  intros k. pose proof (exits_exactly_once ops Hr He) as P. split; intros H.
  - eapply Permutation_in; eauto.
  - eapply Permutation_in; [apply Permutation_sym|]; eauto.
Qed.

(* a history that ends by unwinding every stack (with arbitrary block outcomes) *)
Definition unwind_all (blocks : nat -> xoutcome) (n : nat) : list xop :=
  map (fun i => XUnwind i (blocks i)) (seq 0 n).

Lemma x_exec_app : forall a b s, x_exec s (a ++ b) = x_exec (x_exec s a) b.
Proof. induction a as [|op a IH]; intros b s; simpl; auto. Qed.

Lemma x_exec_unwinds : forall blocks (js : list nat) s,
  let s' := x_exec s (map (fun i => XUnwind i (blocks i)) js) in
  length (stacks s') = length (stacks s) /\
  forall j, In j js \/ nth j (stacks s) [] = [] -> nth j (stacks s') [] = [].
Proof.
  intros blocks. induction js as [|i js IH]; intros s.
  - simpl. split; [reflexivity|]. intros j [[]|H]; exact H.
  - cbn [map x_exec]. rewrite x_do_unwind. cbn [fst].
    specialize (IH (mkX (set_nth i [] (stacks s)))). cbn zeta in IH. cbn [stacks] in IH.
    destruct IH as [IH1 IH2]. rewrite set_nth_length in IH1. split; [exact IH1|].
    intros j Hj. apply IH2.
    destruct (Nat.eq_dec i j) as [->|Hne].
    + right. apply nth_set_nth_eq_nil.
    + destruct Hj as [[Hj|Hj]|Hj]; [contradiction|now left|].
      right. rewrite nth_set_nth_neq by exact Hne. exact Hj.
Qed.

Lemma registers_in_range_app : forall b, (forall m, registers_in_range m b = true) ->
  forall a n, registers_in_range n (a ++ b) = registers_in_range n a.
Proof.
  intros b Hb. induction a as [|op a IH]; intros n; [simpl; apply Hb|].
  destruct op; simpl; rewrite ?IH; reflexivity.
Qed.
Lemma registers_in_range_unwinds : forall blocks js m,
  registers_in_range m (map (fun i => XUnwind i (blocks i)) js) = true.
Proof. intros blocks. induction js as [|i js IH]; intros m; simpl; auto. Qed.
Lemma registrations_unwinds : forall blocks js,
  registrations (map (fun i => XUnwind i (blocks i)) js) = [].
Proof. intros blocks. induction js as [|i js IH]; simpl; auto. Qed.

Theorem exits_exactly_once_unwind_all : forall ops blocks,
  registers_in_range 1 ops = true ->
  let n := length (stacks (x_exec x_init ops)) in
  Permutation (executed (x_run x_init (ops ++ unwind_all blocks n))) (registered_ids ops).
Proof.
  intros ops blocks Hr n.
  pose proof (history_balance_init (ops ++ unwind_all blocks n)) as H.
  unfold unwind_all in *.
  rewrite dropped_in_range in H
    by (rewrite registers_in_range_app; [exact Hr|apply registers_in_range_unwinds]).
  assert (Hreg : registered_ids (ops ++ map (fun i => XUnwind i (blocks i)) (seq 0 n)) = registered_ids ops).
  { unfold registered_ids, registrations. rewrite flat_map_app.
    fold (registrations (map (fun i => XUnwind i (blocks i)) (seq 0 n))).
    rewrite registrations_unwinds, app_nil_r. reflexivity. }
  rewrite Hreg in H. rewrite x_exec_app in H.
  destruct (x_exec_unwinds blocks (seq 0 n) (x_exec x_init ops)) as [L E].
  rewrite concat_all_nil in H.
  - simpl in H. now rewrite app_nil_r in H.
  - intros j Hj. apply E. left. apply in_seq. rewrite L in Hj. subst n. lia.
Qed.

(* ------------------------------------------------------------------------------------------------ *)
(* Examples                                                                                          *)
(* ------------------------------------------------------------------------------------------------ *)

(* outermost (id 1) suppresses; the middle one (id 2) raises 7 while handling 5; innermost (id 3) is falsy *)
Example ex_three_entries :
  stack_exit [mkEntry 1 KExit BFalsy BTruthy; mkEntry 2 KExit BFalsy (BRaise 7); mkEntry 3 KExit BFalsy BFalsy]
             (XRaises 5)
  = (XNormal, [(3, Some 5); (2, Some 5); (1, Some 7)]).
Proof. vm_compute. reflexivity. Qed.
(* same without the suppressing outermost: the replacement 7 propagates, not the block's 5 *)
Example ex_replacement_propagates :
  stack_exit [mkEntry 1 KExit BFalsy BFalsy; mkEntry 2 KExit BFalsy (BRaise 7); mkEntry 3 KExit BFalsy BFalsy]
             (XRaises 5)
  = (XRaises 7, [(3, Some 5); (2, Some 5); (1, Some 7)]).
Proof. vm_compute. reflexivity. Qed.
(* suppression by an inner exit: the outer ones see no exception; a callback's truthy result is ignored *)
Example ex_suppressed_then_none :
  stack_exit [mkEntry 1 KCallback BTruthy BTruthy; mkEntry 2 KExit BFalsy BTruthy; mkEntry 3 KCallback BTruthy BTruthy]
             (XRaises 5)
  = (XNormal, [(3, Some 5); (2, Some 5); (1, None)]).
Proof. vm_compute. reflexivity. Qed.

Definition ex_history : list xop :=
  [ XRegister 0 (mkEntry 10 KExit BFalsy BFalsy);
    XRegister 0 (mkEntry 11 KCallback BFalsy BFalsy);
    XEnterFails 0 (mkEntry 12 KExit BFalsy BFalsy);
    XPopAll 0;
    XUnwind 0 XNormal;          (* the old stack: nothing left *)
    XUnwind 1 (XRaises 9);      (* the new stack: both exits, newest first *)
    XUnwind 1 XNormal ].        (* again: nothing *)
Example ex_history_run :
  x_run x_init ex_history =
  [XDone; XDone; XDone; XNewStack 1; XUnwound XNormal []; XUnwound (XRaises 9) [(11, Some 9); (10, Some 9)];
   XUnwound XNormal []].
Proof. vm_compute. reflexivity. Qed.
Example ex_history_hyps :
  nodupb (map id_of (registrations ex_history)) = true /\ registers_in_range 1 ex_history = true /\
  all_empty (x_exec x_init ex_history) = true.
Proof. vm_compute. auto. Qed.
Example ex_history_executed :
  executed (x_run x_init ex_history) = [11; 10] /\ registered_ids ex_history = [10; 11].
Proof. vm_compute. auto. Qed.

(* why [registers_in_range] is needed for exactly-once: the MODEL drops a registration on a non-existent stack
   index (there is no such operation on the real library: a stack object always exists) *)
Example exits_exactly_once_needs_range :
  exists ops, all_empty (x_exec x_init ops) = true /\ nodupb (map id_of (registrations ops)) = true /\
              executed (x_run x_init ops) = [] /\ registered_ids ops = [7].
Proof. exists [XRegister 5 (mkEntry 7 KExit BFalsy BFalsy)]. vm_compute. auto. Qed.

Print Assumptions unwind_nested.
Print Assumptions unwind_order.
Print Assumptions callbacks_cannot_suppress.
Print Assumptions callbacks_all_see_block.
Print Assumptions exit_receives_in_flight.
Print Assumptions exit_receives_only_in_flight.
Print Assumptions exits_at_most_once.
Print Assumptions exits_at_most_once_b.
Print Assumptions exits_only_registered.
Print Assumptions failed_enter_never_executed.
Print Assumptions unwound_stack_is_empty.
Print Assumptions pop_all_transfers.
Print Assumptions exits_exactly_once.
Print Assumptions exits_exactly_once_nodup.
Print Assumptions exits_exactly_once_unwind_all.
