(* Facts shared by the proofs about nlargest/nsmallest and merge: comparisons on orderable
   values, and what applying the key function does on a fault-free world. *)
From Coq Require Import List ZArith NArith Bool Arith Lia.
Import ListNotations.
Require Import V.Kernel.Values V.Kernel.Monad V.Model.Builtins V.Model.Heapq V.Proofs.Steps V.Std.Heapq.

Lemma py_lt_class c a b : in_class c a = true -> in_class c b = true ->
  py_lt a b = Some (Z.ltb (key_of a) (key_of b)).
Proof.
  destruct c as [k|]; destruct a; cbn; try discriminate; destruct b; cbn; try discriminate; intros Ha Hb; try reflexivity.
  apply N.eqb_eq in Ha, Hb. subst. rewrite N.eqb_refl. reflexivity.
Qed.
Lemma py_eq_class c a b : in_class c a = true -> in_class c b = true ->
  py_eq a b = Z.eqb (key_of a) (key_of b).
Proof.
  destruct c as [k|]; destruct a; cbn; try discriminate; destruct b; cbn; try discriminate; intros Ha Hb; try reflexivity.
  apply N.eqb_eq in Ha, Hb. subst. rewrite N.eqb_refl. reflexivity.
Qed.

Lemma keyof_ok key x ss lg u :
  keyof key x (W ss lg u) = (Ok (kv key x), W ss (rev (key_call key x) ++ lg) (length (key_call key x) + u)).
Proof. destruct key; reflexivity. Qed.
Lemma bind_keyof {B} key x (k : val -> M B) ss lg u :
  bind (keyof key x) k (W ss lg u) = k (kv key x) (W ss (rev (key_call key x) ++ lg) (length (key_call key x) + u)).
Proof. destruct key; reflexivity. Qed.
Lemma bind_keyof1 {B} key x (k : val -> M B) xs lg u :
  bind (keyof key x) k (W1 xs lg u) = k (kv key x) (W1 xs (rev (key_call key x) ++ lg) (length (key_call key x) + u)).
Proof. destruct key; reflexivity. Qed.

Lemma forallb_app_inv {A} (p : A -> bool) l1 l2 :
  forallb p (l1 ++ l2) = true -> forallb p l1 = true /\ forallb p l2 = true.
Proof. rewrite forallb_app. apply andb_prop. Qed.
