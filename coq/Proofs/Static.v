(* Obligations over the tables regenerated from /repo on every run (harness/extract.py -> Gen/*.v):
   decided by computation, so they are re-checked against what the source says now. *)
From Coq Require Import List String Bool.
Import ListNotations.
Require Import V.Gen.AwaitGraph V.Gen.Handlers V.Gen.Scoping.
Open Scope string_scope.

(* C17: every await / async for / async with of the library awaits a user-supplied awaitable or a coroutine,
   generator or context manager defined in the library itself -- there is no other source of suspension *)
Definition site_ok (s : string * string * string * origin) : bool :=
  match snd s with Other => false | _ => true end.
Definition await_graph_closed_b : bool := forallb site_ok await_sites.
(* every __await__ implemented by the library hands over to the awaited coroutine's own iterator *)
Definition impl_ok (i : string * string * impl) : bool := match snd i with Delegates => true | NotTransparent => false end.
Definition await_impls_transparent_b : bool := forallb impl_ok await_impls.
(* asyncio is imported solely for coroutine-function detection *)
Definition asyncio_only_detection_b : bool := forallb (fun p => String.eqb (snd p) "iscoroutinefunction") asyncio_imports.
(* the table is not empty (the extractor really looked at the source) *)
Definition await_sites_nonempty_b : bool := Nat.leb 100 (List.length await_sites).

(* C06: in the modules that implement iterator tools and aggregations, a handler intercepts only the iteration
   protocol's StopAsyncIteration, the AttributeError of a missing aclose, or re-raises what it caught *)
Definition tool_module (m : string) : bool :=
  existsb (String.eqb m) ["_core"; "builtins"; "itertools"; "heapq"; "asynctools"].
Definition protocol_exc (n : string) : bool := existsb (String.eqb n) ["StopAsyncIteration"; "AttributeError"].
Definition handler_ok (h : string * string * list string * bool * bool) : bool :=
  let '(m, f, caught, reraises, raises_other) := h in
  negb (tool_module m) || forallb protocol_exc caught || reraises.
Definition handlers_only_protocol_b : bool := forallb handler_ok handlers.

(* C04: every iterable parameter that a tool turns into an iterator is held by a scope or closed in a finally block *)
Definition holding_ok (s : string * string * string * holding) : bool := match snd s with Unscoped => false | _ => true end.
Definition scoping_releases_b : bool := forallb holding_ok scoping.
Definition scoping_nonempty_b : bool := Nat.leb 25 (List.length scoping).

Theorem await_graph_closed : await_graph_closed_b = true.
Proof. vm_compute. reflexivity. Qed.
Theorem await_impls_transparent : await_impls_transparent_b = true.
Proof. vm_compute. reflexivity. Qed.
Theorem asyncio_only_detection : asyncio_only_detection_b = true.
Proof. vm_compute. reflexivity. Qed.
Theorem await_sites_nonempty : await_sites_nonempty_b = true.
Proof. vm_compute. reflexivity. Qed.
Theorem handlers_only_protocol : handlers_only_protocol_b = true.
Proof. vm_compute. reflexivity. Qed.
Theorem scoping_releases : scoping_releases_b = true.
Proof. vm_compute. reflexivity. Qed.
Theorem scoping_nonempty : scoping_nonempty_b = true.
Proof. vm_compute. reflexivity. Qed.

(* ---- what the closed await graph means (PEP 492: `await x` forwards everything x's iterator yields to the
   event loop and everything the loop sends or throws back to x, unchanged) ----
   A running library operation is a tree: inner nodes are library coroutines / generators / context managers
   (sites classified Lib), leaves are user awaitables (sites classified User), each with the tokens it hands to
   the event loop.  There is no third kind of node because [await_graph_closed] excludes Other. *)
Close Scope string_scope.
Open Scope list_scope.
Inductive atree := AUser (tokens : list nat) | ALib (children : list atree).
Fixpoint suspensions (t : atree) : list nat :=
  match t with
  | AUser l => l
  | ALib cs => (fix go (cs : list atree) : list nat := match cs with [] => [] | c :: r => suspensions c ++ go r end) cs
  end.
Fixpoint user_leaves (t : atree) : list (list nat) :=
  match t with
  | AUser l => [l]
  | ALib cs => (fix go (cs : list atree) : list (list nat) := match cs with [] => [] | c :: r => user_leaves c ++ go r end) cs
  end.
Lemma suspensions_concat : forall t, suspensions t = List.concat (user_leaves t).
Proof.
  fix IH 1. intros [l|cs]; cbn.
  - rewrite app_nil_r. reflexivity.
  - induction cs as [|c r IHr]; cbn; [reflexivity|]. rewrite IH, IHr, List.concat_app. reflexivity.
Qed.
(* every suspension of a library operation originates from a user awaitable, in order *)
Theorem suspends_only_where_users_suspend : forall t tok,
  In tok (suspensions t) -> exists l, In l (user_leaves t) /\ In tok l.
Proof.
  intros t tok H. rewrite suspensions_concat in H. apply in_concat in H.
  destruct H as (l & Hl & Ht). exists l. split; assumption.
Qed.
(* with only synchronous arguments (no user awaitable suspends) the operation does not suspend at all *)
Theorem sync_arguments_never_suspend : forall t,
  (forall l, In l (user_leaves t) -> l = []) -> suspensions t = [].
Proof.
  intros t H. rewrite suspensions_concat. induction (user_leaves t) as [|l r IH]; cbn; [reflexivity|].
  rewrite (H l (or_introl eq_refl)). cbn. apply IH. intros l' Hl'. apply H. right. assumption.
Qed.
