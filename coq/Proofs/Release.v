(* Release (C04): every source handed to a tool is released (exhausted, or aclose invoked, or it has
   no aclose) when the tool finishes, fails or is closed, wherever a fault fired. *)
From Coq Require Import List ZArith NArith Bool Arith Lia.
Import ListNotations.
Require Import V.Kernel.Values V.Kernel.Monad V.Kernel.Fn V.Model.Builtins V.Model.Itertools V.Model.Heapq V.Model.Tool.
Require Import V.Proofs.Steps V.Proofs.Regular V.Proofs.RegularTools.

Definition rel_at (i : nat) (w : world) : Prop := released (nth i (srcs w) dead_src) = true.
(* [m] leaves source [i] released whenever it does not run out of fuel (from ANY world: any pending fault) *)
Definition releases {A} (i : nat) (m : M A) : Prop := forall w, fst (m w) <> Fuel -> rel_at i (snd (m w)).

(* ---------- close, finally, scoped, close_all ---------- *)
Lemma close_spec i w : fst (close i w) <> Fuel /\ rel_at i (snd (close i w)).
Proof.
  destruct w as [ss lg p u]. unfold rel_at, close, bind, get_src, emit, use, set_src, ret, set_log, set_srcs. cbn.
  destruct (nth i ss dead_src) as [its ex cg cd ac] eqn:E. cbn.
  destruct ac.
  - assert (L : i < length ss).
    { destruct (Nat.lt_ge_cases i (length ss)) as [H|H]; [exact H|].
      rewrite nth_overflow in E by exact H. discriminate E. }
    apply Nat.ltb_lt in L.
    destruct p as [[[|n] e]|]; cbn; (split; [discriminate|]);
      rewrite ?nth_upd, ?upd_length, Nat.eqb_refl, L; cbn [andb]; apply released_closing.
  - cbn. split; [discriminate|]. rewrite E. unfold released; cbn. rewrite orb_true_r. reflexivity.
Qed.
Lemma close_releases i w : rel_at i (snd (close i w)).
Proof. apply close_spec. Qed.

Lemma finally_cases {A} (m : M A) fin w :
  (fst (m w) = Fuel /\ finally m fin w = (Fuel, snd (m w))) \/
  (fst (m w) <> Fuel /\ snd (finally m fin w) = snd (fin (snd (m w))) /\
   (fst (finally m fin w) = Fuel <-> fst (fin (snd (m w))) = Fuel) /\
   (forall a, fst (finally m fin w) = Ok a -> fst (m w) = Ok a /\ fst (fin (snd (m w))) = Ok tt)).
Proof.
  unfold finally. destruct (m w) as [[a|e|] w1]; cbn; [right|right|left; auto];
    (split; [discriminate|]); destruct (fin w1) as [[[]|e'|] w2]; cbn; repeat split; auto; try discriminate;
    intros; congruence.
Qed.

Theorem scoped_releases {A} i (body : M A) : releases i (scoped i body).
Proof.
  intros w Hf. unfold scoped in *.
  destruct (finally_cases body (close i) w) as [[E1 E2]|(E1 & E2 & _)].
  - rewrite E2 in Hf. cbn in Hf. congruence.
  - rewrite E2. apply close_releases.
Qed.

Lemma keeps {A} (m : M A) i w : wfG true m -> rel_at i w -> rel_at i (snd (m w)).
Proof. intros [Hb _] H. destruct (Hb w) as (_ & _ & _ & R & _). apply R; auto. Qed.

Lemma close_all_not_fuel l : forall w, fst (close_all l w) <> Fuel.
Proof.
  induction l as [|j r IH]; intros w; cbn [close_all]; [discriminate|].
  destruct (finally_cases (close j) (close_all r) w) as [[E1 _]|(_ & _ & E3 & _)].
  - exfalso. apply (proj1 (close_spec j w)). exact E1.
  - intros H. apply E3 in H. apply (IH _ H).
Qed.
Theorem close_all_releases l : forall w i, In i l -> rel_at i (snd (close_all l w)).
Proof.
  induction l as [|j r IH]; intros w i Hi; [destruct Hi|]. cbn [close_all].
  destruct (finally_cases (close j) (close_all r) w) as [[E1 _]|(_ & E2 & _)].
  - exfalso. apply (proj1 (close_spec j w)). exact E1.
  - rewrite E2. destruct Hi as [<-|Hi].
    + apply keeps; [apply wfG_close_all | apply close_releases].
    + apply IH, Hi.
Qed.

(* ---------- how [releases] propagates ---------- *)
Lemma releases_bind_l {A B} i (m : M A) (f : A -> M B) :
  releases i m -> (forall a, wfG true (f a)) -> releases i (bind m f).
Proof.
  intros Hm Hf w Hfu. unfold bind in *. specialize (Hm w).
  destruct (m w) as [[a|e|] w1]; cbn in *.
  - apply keeps; [apply Hf | apply Hm; discriminate].
  - apply Hm; discriminate.
  - congruence.
Qed.
Lemma releases_finally_close_all {A} i l (m : M A) : In i l -> releases i (finally m (close_all l)).
Proof.
  intros Hi w Hf.
  destruct (finally_cases m (close_all l) w) as [[E1 E2]|(E1 & E2 & _)].
  - rewrite E2 in Hf. cbn in Hf. congruence.
  - rewrite E2. apply close_all_releases, Hi.
Qed.
Lemma releases_finally_keep {A} i (m : M A) fin : releases i m -> wfG true fin -> releases i (finally m fin).
Proof.
  intros Hm Hfin w Hf.
  destruct (finally_cases m fin w) as [[E1 E2]|(E1 & E2 & _)].
  - rewrite E2 in Hf. cbn in Hf. congruence.
  - rewrite E2. apply keeps; [exact Hfin | apply Hm, E1].
Qed.
Lemma releases_gen_run i (g : gen) : releases i (g yield_to) -> releases i (gen_run g).
Proof. intros H. unfold gen_run, run_gen. apply releases_bind_l; [exact H | intros _; apply wfG_ret]. Qed.

Lemma all_released_intro w : (forall i, i < length (srcs w) -> rel_at i w) -> all_released w = true.
Proof.
  intros H. unfold all_released. apply forallb_forall. intros s Hs.
  destruct (In_nth _ _ dead_src Hs) as (i & Hi & <-). apply H, Hi.
Qed.
Lemma tool_length t w : length (srcs (snd (run_tool t w))) = length (srcs w).
Proof. destruct (run_tool_wfG t) as [Hb _]. destruct (Hb w) as (_ & _ & L & _). exact L. Qed.
Lemma init_world_length ss k_e : length (srcs (init_world ss k_e)) = length ss.
Proof. cbn. apply map_length. Qed.

(* ---------- per tool family ---------- *)
Ltac rel0 :=
  repeat first
    [ apply scoped_releases
    | apply releases_gen_run
    | apply releases_bind_l; [| intros; wft ] ].

Lemma rel_filter f : releases 0 (run_tool (TFilter f)). Proof. cbn [run_tool]. unfold a_filter. rel0. Qed.
Lemma rel_enumerate s : releases 0 (run_tool (TEnumerate s)). Proof. cbn [run_tool]. unfold a_enumerate. rel0. Qed.
Lemma rel_all : releases 0 (run_tool TAll). Proof. cbn [run_tool]. unfold a_all. rel0. Qed.
Lemma rel_any : releases 0 (run_tool TAny). Proof. cbn [run_tool]. unfold a_any. rel0. Qed.
Lemma rel_min k d : releases 0 (run_tool (TMin k d)). Proof. cbn [run_tool]. unfold a_min_max. rel0. Qed.
Lemma rel_max k d : releases 0 (run_tool (TMax k d)). Proof. cbn [run_tool]. unfold a_min_max. rel0. Qed.
Lemma rel_sum s : releases 0 (run_tool (TSum s)). Proof. cbn [run_tool]. unfold a_sum. rel0. Qed.
Lemma rel_list : releases 0 (run_tool TList). Proof. cbn [run_tool]. unfold a_list. rel0. Qed.
Lemma rel_tuple : releases 0 (run_tool TTuple). Proof. cbn [run_tool]. unfold a_tuple. rel0. Qed.
Lemma rel_set : releases 0 (run_tool TSet). Proof. cbn [run_tool]. unfold a_set. rel0. Qed.
Lemma rel_dict : releases 0 (run_tool TDict). Proof. cbn [run_tool]. unfold a_dict. rel0. Qed.
Lemma rel_sorted k r : releases 0 (run_tool (TSorted k r)). Proof. cbn [run_tool]. unfold a_sorted. rel0. Qed.
Lemma rel_cycle p : releases 0 (run_tool (TCycle p)). Proof. cbn [run_tool]. unfold a_cycle. rel0. Qed.
Lemma rel_accumulate f i : releases 0 (run_tool (TAccumulate f i)).
Proof. cbn [run_tool]. unfold a_accumulate. rel0. Qed.
Lemma rel_batched n s : (1 <=? n)%Z = true -> releases 0 (run_tool (TBatched n s)).
Proof.
  intros Hn. cbn [run_tool]. unfold a_batched.
  replace (n <? 1)%Z with false by (symmetry; apply Z.ltb_ge; apply Z.leb_le; exact Hn). rel0.
Qed.
Lemma rel_dropwhile f : releases 0 (run_tool (TDropwhile f)). Proof. cbn [run_tool]. unfold a_dropwhile. rel0. Qed.
Lemma rel_takewhile f : releases 0 (run_tool (TTakewhile f)). Proof. cbn [run_tool]. unfold a_takewhile. rel0. Qed.
Lemma rel_filterfalse f : releases 0 (run_tool (TFilterfalse f)). Proof. cbn [run_tool]. unfold a_filterfalse. rel0. Qed.
Lemma rel_starmap f : releases 0 (run_tool (TStarmap f)). Proof. cbn [run_tool]. unfold a_starmap. rel0. Qed.
Lemma rel_islice a b c : releases 0 (run_tool (TIslice a b c)). Proof. cbn [run_tool]. unfold a_islice. rel0. Qed.
Lemma rel_pairwise : releases 0 (run_tool TPairwise). Proof. cbn [run_tool]. unfold a_pairwise. rel0. Qed.
Lemma rel_nlargest n k : releases 0 (run_tool (TNlargest n k)).
Proof. cbn [run_tool]. unfold a_nlargest, a_largest. rel0. Qed.
Lemma rel_nsmallest n k : releases 0 (run_tool (TNsmallest n k)).
Proof. cbn [run_tool]. unfold a_nsmallest, a_largest. rel0. Qed.
Lemma rel_reduce f i : releases 0 (run_tool (TReduce f i)). Proof. cbn [run_tool]. unfold a_reduce. rel0. Qed.

(* zip / map / merge: the finally-block closes every iterator *)
Lemma releases_a_zip i strict ss yield : In i ss -> releases i (a_zip strict ss yield).
Proof.
  intros Hi. unfold a_zip. destruct ss as [|j r]; [destruct Hi|]. apply releases_finally_close_all, Hi.
Qed.
Lemma rel_zip strict n i : i < n -> releases i (run_tool (TZip strict n)).
Proof. intros Hi. cbn [run_tool]. rel0. apply releases_a_zip. apply in_seq. lia. Qed.
Lemma rel_map f n i : i < n -> releases i (run_tool (TMap f n)).
Proof. intros Hi. cbn [run_tool]. rel0. unfold a_map. apply releases_a_zip. apply in_seq. lia. Qed.
Lemma rel_merge n k r i : i < n -> releases i (run_tool (TMerge n k r)).
Proof. intros Hi. cbn [run_tool]. rel0. unfold a_merge. apply releases_finally_close_all. apply in_seq. lia. Qed.
(* compress: two nested scopes *)
Lemma rel_compress i : i < 2 -> releases i (run_tool TCompress).
Proof.
  intros Hi. cbn [run_tool]. apply releases_gen_run. unfold a_compress.
  destruct i as [|[|i]]; [apply scoped_releases | | lia].
  apply releases_finally_keep; [apply scoped_releases | apply wfG_close].
Qed.
(* closing a chain that was never advanced *)
Lemma rel_chain_unstarted n i : i < n -> releases i (run_tool (TChainUnstartedClose n)).
Proof.
  intros Hi. cbn [run_tool]. apply releases_bind_l; [|intros _; apply wfG_ret].
  intros w _. apply close_all_releases. apply in_seq. lia.
Qed.

(* ---------- chain ---------- *)
(* the consumer's close (GeneratorExit at a yield) releases every owned iterator *)
Lemma chain_yield_genexit_releases owned v w w' i :
  yield_to v w = (Exn XGenExit, w') -> In i owned -> rel_at i (snd (chain_yield owned v w)).
Proof.
  intros E Hi. unfold chain_yield. rewrite E. unfold bind.
  pose proof (close_all_releases owned w' i Hi) as H. pose proof (close_all_not_fuel owned w') as N.
  destruct (close_all owned w') as [[u|e|] w2]; cbn in *; auto.
Qed.
(* a chain that ran to completion has released everything *)
Lemma chain_body_ok_releases yield : (forall v, wfG true (yield v)) ->
  forall ss w i, fst (chain_body ss yield w) = Ok tt -> In i ss -> rel_at i (snd (chain_body ss yield w)).
Proof.
  intros Hy ss. induction ss as [|j r IH]; intros w i Ho Hi; [destruct Hi|].
  cbn [chain_body] in *. unfold bind in *.
  pose proof (scoped_releases j (each j yield) w) as Hj.
  destruct (scoped j (each j yield) w) as [[u|e|] w1]; cbn in *; try discriminate.
  destruct Hi as [<-|Hi].
  - apply keeps; [apply wfG_chain_body, Hy | apply Hj; discriminate].
  - apply IH; assumption.
Qed.

(* ---------- zip_longest ---------- *)
(* no aclose has completed yet: then a pull that reports the end leaves the source exhausted *)
Definition unclosed (w : world) : Prop := forall i, s_closed (nth i (srcs w) dead_src) = 0.
Lemma pull_unclosed i w : unclosed w -> unclosed (snd (pull i w)).
Proof.
  destruct w as [ss lg p u]. intros H j. specialize (H j) as Hj. specialize (H i). cbn [srcs] in *.
  rewrite pull_eq.
  assert (X : forall its ex, s_closed (nth j (upd i (mkSrc its ex (s_closing (nth i ss dead_src)) (s_closed (nth i ss dead_src))
                                                     (s_acl (nth i ss dead_src))) ss) dead_src) = 0).
  { intros its ex. rewrite nth_upd. destruct (Nat.eqb i j && Nat.ltb i (length ss)); [exact H | exact Hj]. }
  destruct p as [[[|n] e]|]; cbn - [Nat.ltb]; auto;
    (destruct ((0 <? s_closed (nth i ss dead_src)) || s_exh (nth i ss dead_src));
      [|destruct (s_items (nth i ss dead_src))]; cbn [snd srcs]; auto).
Qed.
Lemma pull_none_released i w : unclosed w -> fst (pull i w) = Ok None -> rel_at i (snd (pull i w)).
Proof.
  destruct w as [ss lg p u]. intros H. specialize (H i). cbn [srcs] in H. unfold rel_at. rewrite pull_eq.
  destruct (nth i ss dead_src) as [its ex cg cd ac] eqn:E. cbn [s_closed] in H. subst cd.
  assert (L : ex = false -> i < length ss).
  { intros ->. destruct (Nat.lt_ge_cases i (length ss)) as [L|L]; [exact L|].
    rewrite nth_overflow in E by exact L. discriminate E. }
  destruct p as [[[|n] e]|]; cbn; try discriminate;
    (destruct ex; cbn;
     [ intros _; rewrite E; reflexivity
     | destruct its; cbn; [intros _|discriminate];
       rewrite nth_upd, Nat.eqb_refl, (proj2 (Nat.ltb_lt _ _) (L eq_refl)); reflexivity ]).
Qed.

Lemma live_slots_app a b : live_slots (a ++ b) = live_slots a ++ live_slots b.
Proof. unfold live_slots. apply flat_map_app. Qed.


Definition zl_inv (Q : nat -> Prop) (sl : list (option nat)) (w : world) : Prop :=
  unclosed w /\ forall i, Q i -> In i (live_slots sl) \/ rel_at i w.

Lemma zl_inv_pull Q sl j w : zl_inv Q sl w -> zl_inv Q sl (snd (pull j w)).
Proof.
  intros [U H]. split; [apply pull_unclosed, U|].
  intros i Hi. destruct (H i Hi) as [H1|H1]; [left; exact H1 | right; apply keeps; [apply wfG_pull | exact H1]].
Qed.

Lemma zl_row_inv Q fillv : forall todo pos done_ vals rem w,
  zl_inv Q (done_ ++ todo) w ->
  zl_inv Q (snd (longest_row_st pos todo done_ vals fillv rem w))
           (snd (fst (longest_row_st pos todo done_ vals fillv rem w))).
Proof.
  induction todo as [|[j|] r IH]; intros pos done_ vals rem w Hinv; cbn [longest_row_st].
  - cbn. rewrite app_nil_r in Hinv. exact Hinv.
  - pose proof (zl_inv_pull Q _ j w Hinv) as H1.
    pose proof (pull_none_released j w (proj1 Hinv)) as H2.
    destruct (pull j w) as [[[x|]|e|] w1]; cbn [fst snd] in *; try exact H1.
    + apply IH. rewrite <- app_assoc. exact H1.
    + assert (H3 : zl_inv Q ((done_ ++ [None]) ++ r) w1).
      { destruct H1 as [U H1]. split; [exact U|]. intros i Hi. destruct (H1 i Hi) as [H4|H4]; [|right; exact H4].
        rewrite live_slots_app in H4. cbn in H4. apply in_app_or in H4. destruct H4 as [H4|[<-|H4]].
        - left. rewrite !live_slots_app. apply in_or_app. left. apply in_or_app. left. exact H4.
        - right. apply H2. reflexivity.
        - left. rewrite live_slots_app. apply in_or_app. right. exact H4. }
      destruct rem as [|[|rem]]; cbn [fst snd]; try exact H1. apply IH, H3.
  - apply IH. rewrite <- app_assoc. exact Hinv.
Qed.

Lemma zl_loop_inv Q fillv : forall fuel slots rem w,
  zl_inv Q slots w ->
  zl_inv Q (snd (longest_loop_st fuel slots fillv rem yield_to w))
           (snd (fst (longest_loop_st fuel slots fillv rem yield_to w))).
Proof.
  induction fuel as [|f IH]; intros slots rem w Hinv; cbn [longest_loop_st]; [exact Hinv|].
  pose proof (zl_row_inv Q fillv slots 0 [] [] rem w Hinv) as H1.
  destruct (longest_row_st 0 slots [] [] fillv rem w) as [[[[[[|] vs] rem']|e|] w1] sl]; cbn [fst snd] in *;
    try exact H1.
  assert (H2 : zl_inv Q sl (snd (yield_to (VTup vs) w1))).
  { destruct H1 as [U H1]. assert (E : srcs (snd (yield_to (VTup vs) w1)) = srcs w1).
    { unfold yield_to, bind, emit, use, set_log. cbn. destruct (pending w1) as [[[|n] e]|]; reflexivity. }
    split; [intros i; rewrite E; apply U | intros i Hi; unfold rel_at; rewrite E; apply H1, Hi]. }
  destruct (yield_to (VTup vs) w1) as [[u|e|] w2]; cbn [fst snd] in *; try exact H2.
  apply IH, H2.
Qed.

Lemma releases_zip_longest_from Q ss fillv w i :
  zl_inv Q (map Some ss) w -> Q i ->
  fst (a_zip_longest ss fillv yield_to w) <> Fuel -> rel_at i (snd (a_zip_longest ss fillv yield_to w)).
Proof.
  intros Hinv Hi. unfold a_zip_longest. destruct ss as [|j r].
  - cbn. intros _. destruct Hinv as [_ H]. destruct (H i Hi) as [[]|H1]. exact H1.
  - pose proof (zl_loop_inv Q fillv (S (total_left w)) (map Some (j :: r)) (length (j :: r)) w Hinv) as [_ H1].
    destruct (longest_loop_st (S (total_left w)) (map Some (j :: r)) fillv (length (j :: r)) yield_to w) as [[o w1] sl].
    cbn [fst snd] in H1.
    pose proof (close_all_not_fuel (live_slots sl) w1) as N.
    assert (R : rel_at i (snd (close_all (live_slots sl) w1))).
    { destruct (H1 i Hi) as [H2|H2]; [apply close_all_releases, H2 | apply keeps; [apply wfG_close_all | exact H2]]. }
    destruct o as [u|e|]; [| |intros H; exfalso; apply H; reflexivity];
      destruct (close_all (live_slots sl) w1) as [[u'|e'|] w2]; cbn in *; auto; congruence.
Qed.

Lemma init_unclosed ss k_e : unclosed (init_world ss k_e).
Proof.
  intros i. cbn. destruct (Nat.lt_ge_cases i (length ss)) as [L|L].
  - rewrite (nth_indep _ dead_src (fresh_src true []) ) by (rewrite map_length; exact L).
    change (fresh_src true []) with (fresh_src true []). rewrite (map_nth (fresh_src true)). reflexivity.
  - rewrite nth_overflow by (rewrite map_length; exact L). reflexivity.
Qed.
Lemma live_slots_map_some l : live_slots (map Some l) = l.
Proof. induction l as [|x r IH]; cbn; [reflexivity | f_equal; exact IH]. Qed.

Lemma rel_zip_longest n v ss k_e i : i < n ->
  fst (run_tool (TZipLongest n v) (init_world ss k_e)) <> Fuel ->
  rel_at i (snd (run_tool (TZipLongest n v) (init_world ss k_e))).
Proof.
  intros Hi. cbn [run_tool]. unfold gen_run, run_gen, bind.
  assert (Hinv : zl_inv (fun i => i < n) (map Some (seq 0 n)) (init_world ss k_e)).
  { split; [apply init_unclosed|]. intros j Hj. left. rewrite live_slots_map_some. apply in_seq. lia. }
  pose proof (releases_zip_longest_from (fun i => i < n) (seq 0 n) v (init_world ss k_e) i Hinv Hi) as H.
  destruct (a_zip_longest (seq 0 n) v yield_to (init_world ss k_e)) as [[u|e|] w1]; cbn in *; intros Hf.
  - apply H. discriminate.
  - apply H. discriminate.
  - congruence.
Qed.

(* ---------- all tools ---------- *)
(* [valid t n]: tool [t] applied to [n] sources.  Excluded: batched with n < 1 (raises before it owns
   anything) and iter(callable, sentinel) (its "source" is a script). *)
Definition valid (t : tool) (n : nat) : bool :=
  match t with
  | TZip _ k | TMap _ k | TChain k | TChainUnstartedClose k | TZipLongest k _ | TMerge k _ _ => Nat.eqb n k
  | TCompress => Nat.eqb n 2
  | TIterSentinel _ => false
  | TBatched z _ => (1 <=? z)%Z && Nat.eqb n 1
  | _ => Nat.eqb n 1
  end.
Definition is_ok {A} (o : outcome A) : bool := match o with Ok _ => true | _ => false end.
Definition is_chain (t : tool) : bool := match t with TChain _ => true | _ => false end.

(* every family but chain (chain: Proofs/ReleaseChain.v; all tools together: Proofs/ReleaseAll.v) *)
Theorem tool_releases_nonchain : forall t ss k_e, valid t (length ss) = true -> is_chain t = false ->
  let w0 := init_world ss k_e in
  fst (run_tool t w0) <> Fuel -> all_released (snd (run_tool t w0)) = true.
Proof.
  intros t ss k_e Hv Hc w0 Hf. apply all_released_intro. intros i Hi.
  rewrite tool_length in Hi. unfold w0 in Hi. rewrite init_world_length in Hi.
  destruct t; cbn [valid] in Hv; try discriminate Hv; try discriminate Hc;
    try (apply andb_prop in Hv; destruct Hv as [Hz Hv]);
    apply Nat.eqb_eq in Hv; rewrite Hv in Hi;
    try (assert (i = 0) by lia; subst i).
  - apply rel_zip; assumption.
  - apply rel_map; assumption.
  - apply rel_filter; assumption.
  - apply rel_enumerate; assumption.
  - apply rel_all; assumption.
  - apply rel_any; assumption.
  - apply rel_min; assumption.
  - apply rel_max; assumption.
  - apply rel_sum; assumption.
  - apply rel_list; assumption.
  - apply rel_tuple; assumption.
  - apply rel_set; assumption.
  - apply rel_dict; assumption.
  - apply rel_sorted; assumption.
  - apply rel_cycle; assumption.
  - apply rel_accumulate; assumption.
  - apply rel_batched; assumption.
  - apply rel_chain_unstarted; assumption.
  - apply rel_compress; assumption.
  - apply rel_dropwhile; assumption.
  - apply rel_takewhile; assumption.
  - apply rel_filterfalse; assumption.
  - apply rel_starmap; assumption.
  - apply rel_islice; assumption.
  - apply rel_pairwise; assumption.
  - apply rel_zip_longest; assumption.
  - apply rel_merge; assumption.
  - apply rel_nlargest; assumption.
  - apply rel_nsmallest; assumption.
  - apply rel_reduce; assumption.
Qed.

Example valid_ex : valid (TZipLongest 3 VFill) (length [[VInt 1]; []; [VInt 2; VInt 3]]) = true
                   /\ valid (TBatched 2 true) 1 = true /\ valid (TChainUnstartedClose 2) 2 = true
                   /\ valid (TChain 3) 3 = true.
Proof. repeat split. Qed.

Print Assumptions scoped_releases.
Print Assumptions close_all_releases.
Print Assumptions chain_yield_genexit_releases.
Print Assumptions tool_releases_nonchain.
