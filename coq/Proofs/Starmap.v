(* filterfalse / starmap *)
From Coq Require Import List ZArith NArith Bool Arith Lia.
Import ListNotations.
Require Import V.Kernel.Values V.Kernel.Monad V.Model.Builtins V.Model.Itertools.
Require Import V.Proofs.Steps V.Proofs.ItSteps V.Std.Filter V.Std.Itertools1.

(* ================= filterfalse ================= *)
Lemma filterfalse_iter p : forall xs n lg u, length xs < n -> exists u',
  iter_src n 0 (fun (_ : unit) x =>
     (match p with
      | None => if truthy x then ret tt else yield_to x
      | Some q => r <- call 0 q [x] ;; if truthy r then ret tt else yield_to x
      end) ;;; ret (tt, true)) tt (W1 xs lg u)
  = (Ok (tt, false), WE (rev (spec_filterfalse_trace p xs) ++ lg) u').
Proof.
  induction xs as [|x xs IH]; intros n lg u Hn; destruct n as [|n]; try (simpl in Hn; lia).
  - exists (S u). cbn [iter_src]. mstep'. reflexivity.
  - assert (Hlen : length xs < n) by (simpl in Hn; lia).
    cbn [iter_src]. mstep'. cbn [spec_filterfalse_trace keep].
    destruct p as [q|]; mstep'.
    + destruct (truthy (q [x])) eqn:Hq; mstep'; cbn [snd fst].
      * destruct (IH n (ECall 0 [x] :: EItem 0 x :: EPull 0 :: lg) (S (S u)) Hlen) as [u' H].
        exists u'. rewrite H. f_equal. f_equal. cbn [keep]. rewrite ?Hq, ?Hx. logeq.
      * destruct (IH n (EYield x :: ECall 0 [x] :: EItem 0 x :: EPull 0 :: lg) (S (S (S u))) Hlen) as [u' H].
        exists u'. rewrite H. f_equal. f_equal. cbn [keep]. rewrite ?Hq, ?Hx. logeq.
    + destruct (truthy x) eqn:Hx; mstep'; cbn [snd fst].
      * destruct (IH n (EItem 0 x :: EPull 0 :: lg) (S u) Hlen) as [u' H].
        exists u'. rewrite H. f_equal. f_equal. cbn [keep]. rewrite ?Hq, ?Hx. logeq.
      * destruct (IH n (EYield x :: EItem 0 x :: EPull 0 :: lg) (S (S u)) Hlen) as [u' H].
        exists u'. rewrite H. f_equal. f_equal. cbn [keep]. rewrite ?Hq, ?Hx. logeq.
Qed.

Lemma filterfalse_nc p xs : nc (spec_filterfalse_trace p xs) = true.
Proof.
  induction xs as [|x xs IH]; [reflexivity|]. cbn [spec_filterfalse_trace]. rewrite !nc_app, IH.
  destruct p; destruct (keep _ x); reflexivity.
Qed.

Theorem filterfalse_trace : forall p xs,
  let '(o, w) := run_gen (a_filterfalse p) (init_world [xs] None) in
  o = Ok tt /\ no_closes (rev (log w)) = spec_filterfalse_trace p xs /\ all_released w = true.
Proof.
  intros p xs. unfold run_gen, a_filterfalse, each.
  destruct (filterfalse_iter p xs (S (length xs)) [] 0 (Nat.lt_succ_diag_r _)) as [u' H].
  rewrite app_nil_r in H.
  apply (finish_scoped _ xs (Ok tt) [] true _ u'); [|discriminate|apply filterfalse_nc].
  rewrite bind_loop_src, items_left1. rewrite (bind_ok _ _ _ _ _ H). reflexivity.
Qed.

Corollary filterfalse_yields : forall p xs, yields (spec_filterfalse_trace p xs) = spec_filterfalse p xs.
Proof.
  intros p xs. unfold spec_filterfalse. induction xs as [|x xs IH]; [reflexivity|].
  cbn [spec_filterfalse_trace filter]. rewrite !yields_app, IH.
  destruct (keep p x); destruct p; reflexivity.
Qed.

(* ================= starmap ================= *)
Lemma starmap_iter f : forall xs n lg u, length xs < n -> exists l e u',
  (iter_src n 0 (fun (_ : unit) x =>
     (match x with
      | VTup args | VList args => r <- call 0 f args ;; yield_to r
      | _ => raise XTypeError
      end) ;;; ret (tt, true)) tt ;;; ret tt) (W1 xs lg u)
  = (spec_starmap_end xs, WS l e (rev (spec_starmap_trace f xs) ++ lg) u').
Proof.
  induction xs as [|x xs IH]; intros n lg u Hn; destruct n as [|n]; try (simpl in Hn; lia).
  - exists [], true, (S u). cbn [iter_src]. mstep'. reflexivity.
  - assert (Hlen : length xs < n) by (simpl in Hn; lia).
    cbn [iter_src]. mstep'. cbn [spec_starmap_trace spec_starmap_end].
    destruct x as [i k c|z|b| | |a|a]; cbn [star_args]; mstep';
      try (exists xs, false, (S u); reflexivity); cbn [snd fst].
    + destruct (IH n (EYield (f a) :: ECall 0 a :: EItem 0 (VTup a) :: EPull 0 :: lg) (S (S (S u))) Hlen)
        as [l [e [u' H]]].
      exists l, e, u'. rewrite H. f_equal. f_equal. logeq.
    + destruct (IH n (EYield (f a) :: ECall 0 a :: EItem 0 (VList a) :: EPull 0 :: lg) (S (S (S u))) Hlen)
        as [l [e [u' H]]].
      exists l, e, u'. rewrite H. f_equal. f_equal. logeq.
Qed.

Lemma starmap_nc f xs : nc (spec_starmap_trace f xs) = true.
Proof.
  induction xs as [|x xs IH]; [reflexivity|]. cbn [spec_starmap_trace].
  destruct (star_args x); cbn; [apply IH|reflexivity].
Qed.
Lemma starmap_end_not_fuel xs : spec_starmap_end xs <> Fuel.
Proof.
  induction xs as [|x xs IH]; cbn [spec_starmap_end]; [discriminate|].
  destruct (star_args x); [apply IH|discriminate].
Qed.

Theorem starmap_trace : forall f xs,
  let '(o, w) := run_gen (a_starmap f) (init_world [xs] None) in
  o = spec_starmap_end xs /\ no_closes (rev (log w)) = spec_starmap_trace f xs /\ all_released w = true.
Proof.
  intros f xs. unfold run_gen, a_starmap, each.
  destruct (starmap_iter f xs (S (length xs)) [] 0 (Nat.lt_succ_diag_r _)) as [l [e [u' H]]].
  rewrite app_nil_r in H.
  apply (finish_scoped _ xs _ l e _ u'); [|apply starmap_end_not_fuel|apply starmap_nc].
  rewrite bind_loop_src, items_left1. exact H.
Qed.

Corollary starmap_yields : forall f xs, yields (spec_starmap_trace f xs) = spec_starmap f xs.
Proof.
  intros f xs. induction xs as [|x xs IH]; [reflexivity|].
  cbn [spec_starmap_trace spec_starmap]. destruct (star_args x); yields_step; [|reflexivity].
  rewrite IH. reflexivity.
Qed.

Example starmap_end_ex : spec_starmap_end [VTup [VInt 1]; VInt 2; VTup []] = Exn XTypeError.
Proof. reflexivity. Qed.

Print Assumptions filterfalse_trace.
Print Assumptions filterfalse_yields.
Print Assumptions starmap_trace.
Print Assumptions starmap_yields.
