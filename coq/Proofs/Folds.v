(* sum / list / tuple / set / dict / functools.reduce : values as left folds, release of the
   source; reduce also its call trace *)
From Coq Require Import List ZArith NArith Bool Arith Lia.
Import ListNotations.
Require Import V.Kernel.Values V.Kernel.Monad V.Model.Builtins V.Model.Heapq V.Proofs.Steps V.Std.Builtins V.Proofs.Loop.

(* ---------- loops that never break and emit nothing: the result is the fold ---------- *)
Definition evsNil {St} (_ : St) (_ : val) : list event := [].
Lemma fold_loop {St} (body : St -> val -> M (St * bool)) (f : St -> val -> outcome St) :
  body_is body (fun s x => omap (fun a => (a, true)) (f s x)) evsNil ->
  forall xs s0 lg u, exists rest exh lg' u',
    loop_src 0 body s0 (W1 xs lg u) = (omap (fun a => (a, false)) (ofold f xs s0), Wr rest exh lg' u').
Proof.
  intros Hb xs s0 lg u. destruct (loop_pure _ _ _ Hb xs s0 lg u) as [u' Hl].
  rewrite pure_loop_fold in Hl. eauto.
Qed.
Lemma ofold_no_fuel {A} (f : A -> val -> outcome A) :
  (forall a x, f a x <> Fuel) -> forall xs a, ofold f xs a <> Fuel.
Proof.
  intros Hf. induction xs as [|x xs IH]; intros a; [cbn; congruence|].
  rewrite ofold_cons. specialize (Hf a x). destruct (f a x); try congruence; try apply IH.
Qed.
Lemma ofold_ext_in {A} (f g : A -> val -> outcome A) : forall xs a,
  (forall a x, In x xs -> f a x = g a x) -> ofold f xs a = ofold g xs a.
Proof.
  induction xs as [|x xs IH]; intros a H; [reflexivity|].
  rewrite !ofold_cons, (H a x (or_introl eq_refl)). destruct (g a x); try reflexivity.
  apply IH. intros; apply H; right; assumption.
Qed.
Lemma omap_id {A} (o : outcome A) : omap (fun a => a) o = o.
Proof. destruct o; reflexivity. Qed.

(* ---------- sum ---------- *)
Lemma spec_add_py_add a b :
  spec_add a b = match py_add a b with Some v => Ok v | None => Exn XTypeError end.
Proof. destruct a, b; reflexivity. Qed.
Lemma spec_add_no_fuel a b : spec_add a b <> Fuel.
Proof. rewrite spec_add_py_add. destruct (py_add a b); congruence. Qed.
Lemma bodySum :
  body_is (fun total x => t <- lift_val (py_add total x) ;; ret (t, true))
          (fun s x => omap (fun a => (a, true)) (spec_add s x)) evsNil.
Proof.
  intros s x xs lg u. exists u. rewrite spec_add_py_add. destruct (py_add s x); reflexivity.
Qed.

Theorem sum_spec : forall start xs,
  let '(o, w) := a_sum start (init_world [xs] None) in
  o = spec_sum start xs /\ all_released w = true.
Proof.
  intros start xs. unfold a_sum. rewrite init_world1.
  destruct (fold_loop _ _ bodySum xs start [] 0) as (rest & exh & lg' & u' & Hl).
  erewrite (bind_ret_map _ (fun r : val * bool => fst r)).
  2:{ apply scoped_r; [exact Hl|]. apply omap_no_fuel, ofold_no_fuel. intros; apply spec_add_no_fuel. }
  split; [|apply released_Wc]. rewrite omap_omap. cbn [fst]. apply omap_id.
Qed.
Lemma spec_sum_no_fuel start xs : spec_sum start xs <> Fuel.
Proof. apply ofold_no_fuel. intros; apply spec_add_no_fuel. Qed.

(* ---------- list / tuple ---------- *)
Lemma bodyCollect :
  body_is (fun (acc : list val) x => ret (x :: acc, true))
          (fun s x => omap (fun a => (a, true)) (Ok (x :: s))) evsNil.
Proof. intros s x xs lg u. exists u. reflexivity. Qed.
Lemma ofold_cons_rev : forall xs acc, ofold (fun s x => Ok (x :: s)) xs acc = Ok (rev xs ++ acc).
Proof.
  induction xs as [|x xs IH]; intros acc; [reflexivity|].
  rewrite ofold_cons, IH. cbn [rev]. rewrite <- app_assoc. reflexivity.
Qed.
Lemma collect_run xs : exists rest exh lg u,
  collect (W1 xs [] 0) = (Ok xs, Wr rest exh lg u).
Proof.
  unfold collect.
  destruct (fold_loop _ _ bodyCollect xs [] [] 0) as (rest & exh & lg' & u' & Hl).
  rewrite ofold_cons_rev in Hl. exists rest, exh, lg', u'.
  rewrite (bind_ok _ _ _ _ _ Hl). cbn [fst]. rewrite app_nil_r, rev_involutive. reflexivity.
Qed.
Theorem list_spec : forall xs,
  let '(o, w) := a_list (init_world [xs] None) in o = spec_list xs /\ all_released w = true.
Proof.
  intros xs. unfold a_list. rewrite init_world1.
  destruct (collect_run xs) as (rest & exh & lg & u & Hc).
  erewrite bind_ok; [|apply scoped_r; [exact Hc|congruence]].
  split; [reflexivity|apply released_Wc].
Qed.
Theorem tuple_spec : forall xs,
  let '(o, w) := a_tuple (init_world [xs] None) in o = spec_tuple xs /\ all_released w = true.
Proof.
  intros xs. unfold a_tuple. rewrite init_world1.
  destruct (collect_run xs) as (rest & exh & lg & u & Hc).
  erewrite bind_ok; [|apply scoped_r; [exact Hc|congruence]].
  split; [reflexivity|apply released_Wc].
Qed.

(* ---------- set ---------- *)
Lemma spec_set_step_no_fuel a x : spec_set_step a x <> Fuel.
Proof. unfold spec_set_step. destruct (hashable x); congruence. Qed.
Lemma bodySet :
  body_is (fun acc x => if hashable x then ret (set_add acc x, true) else raise XTypeError)
          (fun s x => omap (fun a => (a, true)) (spec_set_step s x)) evsNil.
Proof. intros s x xs lg u. exists u. unfold spec_set_step. destruct (hashable x); reflexivity. Qed.
Theorem set_spec : forall xs,
  let '(o, w) := a_set (init_world [xs] None) in o = spec_set xs /\ all_released w = true.
Proof.
  intros xs. unfold a_set. rewrite init_world1.
  destruct (fold_loop _ _ bodySet xs [] [] 0) as (rest & exh & lg' & u' & Hl).
  erewrite (bind_ret_map _ (fun r : list val * bool => VList (fst r))).
  2:{ apply scoped_r; [exact Hl|]. apply omap_no_fuel, ofold_no_fuel. intros; apply spec_set_step_no_fuel. }
  split; [|apply released_Wc]. rewrite omap_omap. reflexivity.
Qed.
Lemma spec_set_no_fuel xs : spec_set xs <> Fuel.
Proof. apply omap_no_fuel, ofold_no_fuel. intros; apply spec_set_step_no_fuel. Qed.

(* ---------- dict ---------- *)
Lemma spec_dict_put_eq acc k v : dict_put acc k v = spec_dict_put acc k v.
Proof. induction acc as [|[k' v'] r IH]; cbn; [reflexivity|]. rewrite IH. reflexivity. Qed.
Lemma spec_dict_step_no_fuel a x : spec_dict_step a x <> Fuel.
Proof.
  unfold spec_dict_step, unpack2. destruct x as [| | | | |l|l]; try congruence;
  destruct l as [|k [|v [|? ?]]]; try congruence; destruct (hashable k); congruence.
Qed.
(* the item unpacking of the model is "k, v = item" of the specification: 2-tuples and 2-lists *)
Lemma bodyDict :
  body_is (fun acc x =>
             match x with
             | VTup [k; v] | VList [k; v] => if hashable k then ret (dict_put acc k v, true) else raise XTypeError
             | VTup _ | VList _ => raise XValueError
             | _ => raise XTypeError
             end)
          (fun s x => omap (fun a => (a, true)) (spec_dict_step s x)) evsNil.
Proof.
  intros s x xs lg u. exists u. unfold spec_dict_step, unpack2. destruct x as [| | | | |l|l]; try reflexivity;
  (destruct l as [|k [|v [|? ?]]]; try reflexivity; rewrite spec_dict_put_eq; destruct (hashable k); reflexivity).
Qed.
Definition dict_val (l : list (val * val)) : val := VList (map (fun kv => VTup [fst kv; snd kv]) l).

(* dict(iterable_of_pairs), all inputs: pairs may be 2-tuples or 2-lists *)
Theorem dict_spec : forall xs,
  let '(o, w) := a_dict (init_world [xs] None) in o = spec_dict xs /\ all_released w = true.
Proof.
  intros xs. unfold a_dict. rewrite init_world1.
  destruct (fold_loop _ _ bodyDict xs [] [] 0) as (rest & exh & lg' & u' & Hl).
  erewrite (bind_ret_map _ (fun r : list (val * val) * bool => dict_val (fst r))).
  2:{ apply scoped_r; [exact Hl|]. apply omap_no_fuel, ofold_no_fuel. intros; apply spec_dict_step_no_fuel. }
  split; [|apply released_Wc]. rewrite omap_omap. reflexivity.
Qed.
Lemma spec_dict_no_fuel xs : spec_dict xs <> Fuel.
Proof.
  apply omap_no_fuel, ofold_no_fuel. intros a x. unfold spec_dict_step.
  destruct (unpack2 x) as [[k v]|e|] eqn:E; try congruence.
  - destruct (hashable k); congruence.
  - exfalso. unfold unpack2 in E. destruct x as [| | | | |l|l]; try discriminate;
    destruct l as [|k [|v [|? ?]]]; discriminate.
Qed.
Example dict_example :
  spec_dict [VTup [VInt 1; VInt 5]; VList [VInt 2; VInt 6]; VTup [VBool true; VInt 7]]
     = Ok (VList [VTup [VInt 1; VInt 7]; VTup [VInt 2; VInt 6]])
  /\ spec_dict [VList [VInt 1; VInt 5]; VList [VInt 2]] = Exn XValueError
  /\ spec_dict [VTup [VList []; VInt 5]] = Exn XTypeError
  /\ spec_dict [VInt 3] = Exn XTypeError.
Proof. repeat split; reflexivity. Qed.

(* ---------- functools.reduce ---------- *)
Definition stepR (f : list val -> val) (value head : val) : outcome (val * bool) := Ok (f [value; head], true).
Definition evsR (value head : val) : list event := [ECall 0 [value; head]].
Lemma bodyR f : body_is (fun value head => v <- call 0 f [value; head] ;; ret (v, true)) (stepR f) evsR.
Proof. intros s x xs lg u. exists (S u). rewrite bind_call1. reflexivity. Qed.
Lemma pureR f : forall xs v,
  l_out (pure_loop (stepR f) evsR v xs) = Ok (fold_left (fun a x => f [a; x]) xs v, false)
  /\ l_tr (pure_loop (stepR f) evsR v xs) = reduce_trace f v xs.
Proof.
  induction xs as [|x xs IH]; intros v; [split; reflexivity|].
  cbn [pure_loop stepR l_out l_tr fold_left reduce_trace]. destruct (IH (f [v; x])) as [-> ->].
  split; reflexivity.
Qed.
Lemma reduce_trace_no_close f xs v e : In e (reduce_trace f v xs) -> is_close e = false.
Proof.
  destruct (pureR f xs v) as [_ <-]. apply pure_loop_no_close.
  intros a y e' [<-|[]]. reflexivity.
Qed.

Theorem reduce_spec : forall f initial xs,
  let '(o, w) := a_reduce f initial (init_world [xs] None) in
  o = spec_reduce f initial xs
  /\ no_closes (rev (log w)) = spec_reduce_trace f initial xs
  /\ all_released w = true.
Proof.
  intros f initial xs. unfold a_reduce. rewrite init_world1.
  destruct initial as [v|]; [|destruct xs as [|x r]].
  - destruct (loop_pure _ _ _ (bodyR f) xs v [] 0) as [u' Hl].
    destruct (pureR f xs v) as [Ho Ht]. rewrite Ho in Hl.
    erewrite scoped_r; [| rewrite bind_ret; rewrite (bind_ok _ _ _ _ _ Hl); reflexivity | congruence].
    split; [reflexivity|]. split; [|apply released_Wc].
    rewrite log_Wc, no_closes_scoped_pre.
    + rewrite Ht. reflexivity.
    + rewrite Ht. apply reduce_trace_no_close.
    + intros e [].
  - erewrite scoped_r; [| rewrite bind_pull1_end; reflexivity | congruence].
    split; [reflexivity|]. split; reflexivity.
  - destruct (loop_pure _ _ _ (bodyR f) r x [EItem 0 x; EPull 0] 1) as [u' Hl].
    destruct (pureR f r x) as [Ho Ht]. rewrite Ho in Hl.
    erewrite scoped_r; [| rewrite bind_pull1_item; rewrite (bind_ok _ _ _ _ _ Hl); reflexivity | congruence].
    split; [reflexivity|]. split; [|apply released_Wc].
    rewrite log_Wc, no_closes_scoped_pre.
    + rewrite Ht. reflexivity.
    + rewrite Ht. apply reduce_trace_no_close.
    + intros e [<-|[<-|[]]]; reflexivity.
Qed.

Example folds_example :
  spec_sum (VInt 10) [VInt 1; VObj 7 2 0; VInt 3] = Ok (VInt 16)
  /\ spec_sum (VInt 0) [VInt 1; VNone; VInt 3] = Exn XTypeError
  /\ spec_set [VInt 1; VInt 2; VBool true; VInt 2] = Ok (VList [VInt 1; VInt 2])
  /\ spec_set [VInt 1; VList []] = Exn XTypeError
  /\ spec_reduce (fun a => VTup a) None [VInt 1; VInt 2; VInt 3] = Ok (VTup [VTup [VInt 1; VInt 2]; VInt 3]).
Proof. repeat split. Qed.

Print Assumptions sum_spec.
Print Assumptions list_spec.
Print Assumptions tuple_spec.
Print Assumptions set_spec.
Print Assumptions dict_spec.
Print Assumptions reduce_spec.
