(* pairwise *)
From Coq Require Import List ZArith NArith Bool Arith Lia.
Import ListNotations.
Require Import V.Kernel.Values V.Kernel.Monad V.Model.Builtins V.Model.Itertools.
Require Import V.Proofs.Steps V.Proofs.ItSteps V.Std.Filter V.Std.Itertools1.

Lemma pairwise_iter : forall xs n a lg u, length xs < n -> exists u' a',
  iter_src n 0 (fun prev cur => yield_to (VTup [prev; cur]) ;;; ret (cur, true)) a (W1 xs lg u)
  = (Ok (a', false), WE (rev (pairwise_from a xs) ++ lg) u').
Proof.
  induction xs as [|x xs IH]; intros n a lg u Hn; destruct n as [|n]; try (simpl in Hn; lia).
  - exists (S u), a. cbn [iter_src]. mstep'. reflexivity.
  - assert (Hlen : length xs < n) by (simpl in Hn; lia).
    cbn [iter_src]. mstep'. cbn [snd fst pairwise_from].
    destruct (IH n x (EYield (VTup [a; x]) :: EItem 0 x :: EPull 0 :: lg) (S (S u)) Hlen) as [u' [a' H]].
    exists u', a'. rewrite H. f_equal. f_equal. logeq.
Qed.

Lemma pairwise_from_nc : forall xs a, nc (pairwise_from a xs) = true.
Proof. induction xs as [|x xs IH]; intros a; [reflexivity|]. cbn. apply IH. Qed.
Lemma pairwise_nc xs : nc (spec_pairwise_trace xs) = true.
Proof. destruct xs as [|a r]; [reflexivity|]. cbn. apply pairwise_from_nc. Qed.

Theorem pairwise_trace : forall xs,
  let '(o, w) := run_gen a_pairwise (init_world [xs] None) in
  o = Ok tt /\ no_closes (rev (log w)) = spec_pairwise_trace xs /\ all_released w = true.
Proof.
  intros xs. unfold run_gen, a_pairwise. destruct xs as [|a r].
  - apply (finish_scoped _ [] (Ok tt) [] true _ 1); [|discriminate|reflexivity].
    mstep'. reflexivity.
  - destruct (pairwise_iter r (S (length r)) a [EItem 0 a; EPull 0] 1 (Nat.lt_succ_diag_r _)) as [u' [a' H]].
    apply (finish_scoped _ (a :: r) (Ok tt) [] true _ u'); [|discriminate|apply pairwise_nc].
    mstep'. rewrite bind_loop_src, items_left1. rewrite (bind_ok _ _ _ _ _ H). rewrite ret_app.
    unfold WE, WS. f_equal. f_equal. cbn [spec_pairwise_trace]. logeq.
Qed.

Lemma pairwise_from_yields : forall xs a,
  yields (pairwise_from a xs) = map (fun ab => VTup [fst ab; snd ab]) (combine (a :: xs) xs).
Proof.
  induction xs as [|x xs IH]; intros a; [reflexivity|].
  cbn [pairwise_from]. yields_step. rewrite IH. reflexivity.
Qed.
Corollary pairwise_yields : forall xs, yields (spec_pairwise_trace xs) = spec_pairwise xs.
Proof.
  intros [|a r]; [reflexivity|]. unfold spec_pairwise, spec_pairwise_trace. yields_step.
  apply pairwise_from_yields.
Qed.

Print Assumptions pairwise_trace.
Print Assumptions pairwise_yields.
