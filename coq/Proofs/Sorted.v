(* sorted(xs, key=, reverse=) : stable insertion sort specification, permutation, sortedness,
   stability, key-call trace *)
From Coq Require Import List ZArith NArith Bool Arith Lia Permutation Sorted.
Import ListNotations.
Require Import V.Kernel.Values V.Kernel.Monad V.Model.Builtins V.Proofs.Steps V.Std.Builtins V.Proofs.Loop.

(* ================= part 1: insertion sorts over an integer measure ================= *)
(* insR: insertion of an OLDER element (before its equals), as in the model's insert_by;
   insL: insertion of a NEWER element (after its equals), as in the specification *)
Fixpoint insR {A} (m : A -> Z) (x : A) (l : list A) : list A :=
  match l with
  | [] => [x]
  | y :: r => if (m y <? m x)%Z then y :: insR m x r else x :: y :: r
  end.
Fixpoint sortR {A} (m : A -> Z) (l : list A) : list A :=
  match l with [] => [] | x :: r => insR m x (sortR m r) end.
Fixpoint insL {A} (m : A -> Z) (x : A) (l : list A) : list A :=
  match l with
  | [] => [x]
  | y :: r => if (m x <? m y)%Z then x :: y :: r else y :: insL m x r
  end.
Definition sortL {A} (m : A -> Z) (l : list A) : list A := fold_left (fun acc p => insL m p acc) l [].

Lemma insR_insL {A} (m : A -> Z) a x : forall s, insR m a (insL m x s) = insL m x (insR m a s).
Proof.
  induction s as [|y r IH]; cbn [insR insL].
  - destruct (m x <? m a)%Z eqn:E1; reflexivity.
  - destruct (m x <? m y)%Z eqn:E1; destruct (m y <? m a)%Z eqn:E2; cbn [insR insL]; rewrite ?E1, ?E2.
    + assert (E3 : (m x <? m a)%Z = true) by (apply Z.ltb_lt; apply Z.ltb_lt in E1, E2; lia).
      rewrite ?E3, ?E2, ?E1. reflexivity.
    + destruct (m x <? m a)%Z eqn:E3; rewrite ?E1, ?E2; reflexivity.
    + rewrite IH. reflexivity.
    + assert (E3 : (m x <? m a)%Z = false) by (apply Z.ltb_ge; apply Z.ltb_ge in E1, E2; lia).
      rewrite ?E3, ?E1, ?E2. reflexivity.
Qed.
Lemma sortR_snoc {A} (m : A -> Z) x : forall l, sortR m (l ++ [x]) = insL m x (sortR m l).
Proof.
  induction l as [|a l IH]; [reflexivity|]. cbn [app sortR]. rewrite IH. apply insR_insL.
Qed.
Lemma sortL_snoc {A} (m : A -> Z) x l : sortL m (l ++ [x]) = insL m x (sortL m l).
Proof. unfold sortL. rewrite fold_left_app. reflexivity. Qed.
Lemma sortL_sortR {A} (m : A -> Z) l : sortL m l = sortR m l.
Proof.
  induction l as [|x l IH] using rev_ind; [reflexivity|]. rewrite sortL_snoc, sortR_snoc, IH. reflexivity.
Qed.

Lemma insL_perm {A} (m : A -> Z) x : forall l, Permutation (insL m x l) (x :: l).
Proof.
  induction l as [|y r IH]; cbn [insL]; [reflexivity|].
  destruct (m x <? m y)%Z; [reflexivity|]. rewrite IH. apply perm_swap.
Qed.
Lemma sortL_perm {A} (m : A -> Z) l : Permutation (sortL m l) l.
Proof.
  induction l as [|x l IH] using rev_ind; [reflexivity|].
  rewrite sortL_snoc, insL_perm, IH. apply Permutation_cons_append.
Qed.

Lemma insL_sorted {A} (m : A -> Z) x : forall l,
  StronglySorted (fun a b => (m a <= m b)%Z) l -> StronglySorted (fun a b => (m a <= m b)%Z) (insL m x l).
Proof.
  induction l as [|y r IH]; intros Hs; cbn [insL].
  - repeat constructor.
  - inversion Hs as [|? ? Hr Hy]; subst. destruct (m x <? m y)%Z eqn:E.
    + apply Z.ltb_lt in E. constructor; [exact Hs|]. constructor; [lia|].
      eapply Forall_impl; [|exact Hy]. cbn. intros; lia.
    + apply Z.ltb_ge in E. constructor; [auto|].
      eapply Permutation_Forall; [symmetry; apply insL_perm|]. constructor; auto.
Qed.
Lemma sortL_sorted {A} (m : A -> Z) l : StronglySorted (fun a b => (m a <= m b)%Z) (sortL m l).
Proof.
  induction l as [|x l IH] using rev_ind; [constructor|]. rewrite sortL_snoc. apply insL_sorted, IH.
Qed.

Lemma insL_stable {A} (m : A -> Z) z x : forall l,
  StronglySorted (fun a b => (m a <= m b)%Z) l ->
  filter (fun p => (m p =? z)%Z) (insL m x l)
  = filter (fun p => (m p =? z)%Z) l ++ filter (fun p => (m p =? z)%Z) [x].
Proof.
  induction l as [|y r IH]; intros Hs; cbn [insL]; [reflexivity|].
  inversion Hs as [|? ? Hr Hy]; subst. destruct (m x <? m y)%Z eqn:E.
  - apply Z.ltb_lt in E. cbn [filter]. destruct (m x =? z)%Z eqn:Ex; [|rewrite app_nil_r; reflexivity].
    apply Z.eqb_eq in Ex.
    assert (Hn : filter (fun p => (m p =? z)%Z) (y :: r) = []).
    { clear IH Hs Hr. cbn [filter].
      assert (Ey : (m y =? z)%Z = false) by (apply Z.eqb_neq; lia). rewrite Ey.
      induction Hy as [|q r' Hq Hy IHy]; [reflexivity|]. cbn [filter].
      assert (Eq : (m q =? z)%Z = false) by (apply Z.eqb_neq; lia). rewrite Eq. exact IHy. }
    cbn [filter] in Hn. rewrite Hn. reflexivity.
  - cbn [filter]. rewrite (IH Hr). destruct (m y =? z)%Z; reflexivity.
Qed.
Lemma sortL_stable {A} (m : A -> Z) z l :
  filter (fun p => (m p =? z)%Z) (sortL m l) = filter (fun p => (m p =? z)%Z) l.
Proof.
  induction l as [|x l IH] using rev_ind; [reflexivity|].
  rewrite sortL_snoc, insL_stable by apply sortL_sorted. rewrite IH, filter_app. reflexivity.
Qed.
Lemma sortR_perm {A} (m : A -> Z) l : Permutation (sortR m l) l.
Proof. rewrite <- sortL_sortR. apply sortL_perm. Qed.

(* ================= part 2: orderable key values as integers ================= *)
(* the measure: the integer view of the key value, negated for reverse=True *)
Definition mz (reverse : bool) (p : val * val) : Z :=
  if reverse then (- key_of (fst p))%Z else key_of (fst p).
Definition Dom (k0 : val) (l : list (val * val)) : Prop := Forall (fun p => same_kind k0 (fst p) = true) l.

Lemma same_kind_py_lt a b c :
  same_kind a b = true -> same_kind a c = true -> py_lt b c = Some (key_of b <? key_of c)%Z.
Proof.
  destruct a, b; cbn; try discriminate; destruct c; cbn; try discriminate; intros H1 H2; try reflexivity.
  apply N.eqb_eq in H1, H2. subst. rewrite N.eqb_refl. reflexivity.
Qed.
Lemma ltb_opp a b : (- a <? - b)%Z = (b <? a)%Z.
Proof. destruct (Z.ltb_spec (- a) (- b)), (Z.ltb_spec b a); try reflexivity; lia. Qed.
Lemma lt_dir_mz reverse k0 p q :
  same_kind k0 (fst p) = true -> same_kind k0 (fst q) = true ->
  lt_dir reverse (fst p) (fst q) = Some (mz reverse p <? mz reverse q)%Z.
Proof.
  intros Hp Hq. unfold lt_dir, mz. destruct reverse.
  - rewrite (same_kind_py_lt k0 _ _ Hq Hp), ltb_opp. reflexivity.
  - apply (same_kind_py_lt k0 _ _ Hp Hq).
Qed.
Lemma ltb_dir_mz reverse k0 p q :
  same_kind k0 (fst p) = true -> same_kind k0 (fst q) = true ->
  ltb_dir reverse (fst p) (fst q) = (mz reverse p <? mz reverse q)%Z.
Proof.
  intros Hp Hq. pose proof (lt_dir_mz reverse k0 p q Hp Hq) as H. unfold lt_dir in H. unfold ltb_dir.
  rewrite H. destruct (mz reverse p <? mz reverse q)%Z; reflexivity.
Qed.

(* the model's sort on orderable keys *)
Lemma insert_by_insR reverse k0 x : forall l,
  Dom k0 (x :: l) -> insert_by (lt_dir reverse) x l = Some (insR (mz reverse) x l).
Proof.
  induction l as [|y r IH]; intros Hd; [reflexivity|].
  inversion Hd as [|? ? Hx Hyr]; subst. inversion Hyr as [|? ? Hy Hr]; subst.
  cbn [insert_by insR]. rewrite (lt_dir_mz reverse k0 y x Hy Hx).
  destruct (mz reverse y <? mz reverse x)%Z; [|reflexivity].
  rewrite IH; [reflexivity|]. constructor; assumption.
Qed.
Lemma sort_by_sortR reverse k0 : forall l,
  Dom k0 l -> sort_by (lt_dir reverse) l = Some (sortR (mz reverse) l).
Proof.
  induction l as [|x r IH]; intros Hd; [reflexivity|].
  inversion Hd as [|? ? Hx Hr]; subst. cbn [sort_by sortR]. rewrite (IH Hr).
  apply (insert_by_insR reverse k0). constructor; [exact Hx|].
  eapply Permutation_Forall; [symmetry; apply sortR_perm|exact Hr].
Qed.

(* the specification's sort on orderable keys *)
Lemma ins_stable_insL reverse k0 p : forall l,
  Dom k0 (p :: l) -> ins_stable reverse p l = insL (mz reverse) p l.
Proof.
  induction l as [|q r IH]; intros Hd; [reflexivity|].
  inversion Hd as [|? ? Hp Hqr]; subst. inversion Hqr as [|? ? Hq Hr]; subst.
  cbn [ins_stable insL]. rewrite (ltb_dir_mz reverse k0 p q Hp Hq).
  destruct (mz reverse p <? mz reverse q)%Z; [reflexivity|].
  rewrite IH; [reflexivity|]. constructor; assumption.
Qed.
Lemma sort_stable_snoc reverse l x : sort_stable reverse (l ++ [x]) = ins_stable reverse x (sort_stable reverse l).
Proof. unfold sort_stable. rewrite fold_left_app. reflexivity. Qed.
Lemma sort_stable_sortL reverse k0 : forall l,
  Dom k0 l -> sort_stable reverse l = sortL (mz reverse) l.
Proof.
  induction l as [|x l IH] using rev_ind; intros Hd; [reflexivity|].
  unfold Dom in Hd. apply Forall_app in Hd. destruct Hd as [Hl Hx]. inversion Hx as [|? ? Hx' _]; subst.
  rewrite sort_stable_snoc, sortL_snoc, (IH Hl).
  apply (ins_stable_insL reverse k0). constructor; [exact Hx'|].
  eapply Permutation_Forall; [symmetry; apply sortL_perm|exact Hl].
Qed.

Lemma orderable_dom key xs : orderable_keys key xs = true -> exists k0, Dom k0 (keyed key xs).
Proof.
  destruct xs as [|x r]; intros H.
  - exists VNone. constructor.
  - exists (keyf key x). cbn [orderable_keys] in H. rewrite forallb_forall in H.
    unfold Dom, keyed. apply Forall_forall. intros p Hp. apply in_map_iff in Hp.
    destruct Hp as (y & <- & Hy). cbn [fst]. apply H, Hy.
Qed.

(* the model's list.sort agrees with the stable insertion sort of the specification *)
Lemma py_sorted_spec key reverse xs :
  orderable_keys key xs = true ->
  py_sorted reverse (keyed key xs) = Some (spec_sorted_list key reverse xs).
Proof.
  intros H. destruct (orderable_dom key xs H) as [k0 Hd].
  unfold py_sorted, spec_sorted_list. rewrite (sort_by_sortR reverse k0 _ Hd), (sort_stable_sortL reverse k0 _ Hd).
  rewrite sortL_sortR. reflexivity.
Qed.

(* ================= part 3: the run of the model ================= *)
Definition stepS (key : option (list val -> val)) (acc : list (val * val)) (x : val)
  : outcome (list (val * val) * bool) := Ok ((keyf key x, x) :: acc, true).
Definition evsS (key : option (list val -> val)) (_ : list (val * val)) (x : val) : list event := kcall key x.

Lemma bodyS key :
  body_is (fun (acc : list (val * val)) x =>
             match key with
             | None => ret ((x, x) :: acc, true)
             | Some k => kx <- call 0 k [x] ;; ret ((kx, x) :: acc, true)
             end) (stepS key) (evsS key).
Proof.
  intros acc x xs lg u. destruct key as [k|].
  - exists (S u). rewrite bind_call1. reflexivity.
  - exists u. reflexivity.
Qed.
Lemma pureS key : forall xs acc,
  l_out (pure_loop (stepS key) (evsS key) acc xs) = Ok (rev (keyed key xs) ++ acc, false)
  /\ l_tr (pure_loop (stepS key) (evsS key) acc xs) = spec_sorted_trace key xs.
Proof.
  induction xs as [|x xs IH]; intros acc; [split; reflexivity|].
  cbn [pure_loop stepS l_out l_tr]. destruct (IH ((keyf key x, x) :: acc)) as [-> ->]. split.
  - unfold keyed. cbn [map rev]. rewrite <- app_assoc. reflexivity.
  - unfold spec_sorted_trace, evsS. cbn [flat_map]. rewrite <- !app_assoc. reflexivity.
Qed.

Lemma sorted_trace_no_close key xs e : In e (spec_sorted_trace key xs) -> is_close e = false.
Proof.
  destruct (pureS key xs []) as [_ <-]. apply pure_loop_no_close.
  intros acc y e'. unfold evsS. destruct key; cbn; [intros [<-|[]]; reflexivity | intros []].
Qed.

Lemma sorted_run key reverse xs :
  exists w, a_sorted key reverse (init_world [xs] None)
            = (match py_sorted reverse (keyed key xs) with
               | Some l => Ok (VList l) | None => Exn XTypeError end, w)
  /\ no_closes (rev (log w)) = spec_sorted_trace key xs /\ all_released w = true.
Proof.
  unfold a_sorted. rewrite init_world1.
  destruct (loop_pure _ _ _ (bodyS key) xs [] [] 0) as [u' Hl].
  destruct (pureS key xs []) as [Ho Ht].
  rewrite Ho in Hl.
  eexists. split.
  - erewrite bind_ok.
    2:{ apply scoped_r.
        - rewrite (bind_ok _ _ _ _ _ Hl). reflexivity.
        - congruence. }
    cbn [fst]. rewrite app_nil_r, rev_involutive.
    destruct (py_sorted reverse (keyed key xs)); reflexivity.
  - split; [|apply released_Wc]. rewrite log_Wc, no_closes_scoped_pre.
    + rewrite Ht. reflexivity.
    + rewrite Ht. apply sorted_trace_no_close.
    + intros e [].
Qed.

(* ================= part 4: the theorems ================= *)
(* on orderable key values the model returns the stable insertion sort of the specification;
   the key function is called once per item, in input order, before anything is compared *)
Theorem sorted_spec : forall key reverse xs,
  orderable_keys key xs = true ->
  let '(o, w) := a_sorted key reverse (init_world [xs] None) in
  o = spec_sorted key reverse xs
  /\ no_closes (rev (log w)) = spec_sorted_trace key xs
  /\ all_released w = true.
Proof.
  intros key reverse xs H. destruct (sorted_run key reverse xs) as (w & -> & Ht & Hr).
  rewrite (py_sorted_spec key reverse xs H). auto.
Qed.

(* on arbitrary key values: same trace and release, the result is a list or TypeError *)
Theorem sorted_trace_any : forall key reverse xs,
  let '(o, w) := a_sorted key reverse (init_world [xs] None) in
  (o = Exn XTypeError \/ exists l, o = Ok (VList l))
  /\ no_closes (rev (log w)) = spec_sorted_trace key xs
  /\ all_released w = true.
Proof.
  intros key reverse xs. destruct (sorted_run key reverse xs) as (w & -> & Ht & Hr).
  split; [|auto]. destruct (py_sorted reverse (keyed key xs)); eauto.
Qed.

(* --- the specification yields a permutation (for all inputs) --- *)
Lemma ins_stable_perm reverse p : forall l, Permutation (ins_stable reverse p l) (p :: l).
Proof.
  induction l as [|q r IH]; cbn [ins_stable]; [reflexivity|].
  destruct (ltb_dir reverse (fst p) (fst q)); [reflexivity|]. rewrite IH. apply perm_swap.
Qed.
Lemma sort_stable_perm reverse l : Permutation (sort_stable reverse l) l.
Proof.
  induction l as [|x l IH] using rev_ind; [reflexivity|].
  rewrite sort_stable_snoc, ins_stable_perm, IH. apply Permutation_cons_append.
Qed.
Lemma map_snd_keyed key xs : map snd (keyed key xs) = xs.
Proof. unfold keyed. rewrite map_map. cbn. apply map_id. Qed.
Theorem spec_sorted_perm : forall key reverse xs, Permutation (spec_sorted_list key reverse xs) xs.
Proof.
  intros. unfold spec_sorted_list. rewrite <- (map_snd_keyed key xs) at 2.
  apply Permutation_map, sort_stable_perm.
Qed.

(* --- sorted: no later element of the result goes strictly before an earlier one --- *)
Lemma StronglySorted_map_in {A B} (f : A -> B) (R : A -> A -> Prop) (R' : B -> B -> Prop) (Q : A -> Prop) l :
  (forall p q, Q p -> Q q -> R p q -> R' (f p) (f q)) ->
  Forall Q l -> StronglySorted R l -> StronglySorted R' (map f l).
Proof.
  intros HR HQ Hs. induction Hs as [|p l Hs IH Hp]; cbn [map]; [constructor|].
  inversion HQ as [|? ? Qp Ql]; subst. constructor; [auto|].
  rewrite Forall_forall in *. intros b Hb. apply in_map_iff in Hb. destruct Hb as (q & <- & Hq). auto.
Qed.
Lemma keyed_fst key xs : Forall (fun p => fst p = keyf key (snd p)) (keyed key xs).
Proof. unfold keyed. apply Forall_forall. intros p Hp. apply in_map_iff in Hp. destruct Hp as (x & <- & _). reflexivity. Qed.

Theorem spec_sorted_sorted : forall key reverse xs,
  orderable_keys key xs = true ->
  StronglySorted (fun a b => ltb_dir reverse (keyf key b) (keyf key a) = false)
                 (spec_sorted_list key reverse xs).
Proof.
  intros key reverse xs H. destruct (orderable_dom key xs H) as [k0 Hd].
  unfold spec_sorted_list. rewrite (sort_stable_sortL reverse k0 _ Hd).
  apply (StronglySorted_map_in snd (fun a b => (mz reverse a <= mz reverse b)%Z) _
           (fun p => fst p = keyf key (snd p) /\ same_kind k0 (fst p) = true)).
  - intros p q [Ep Kp] [Eq Kq] Hle. rewrite <- Ep, <- Eq.
    rewrite (ltb_dir_mz reverse k0 q p Kq Kp). apply Z.ltb_ge. exact Hle.
  - eapply Permutation_Forall; [symmetry; apply sortL_perm|].
    apply Forall_forall. intros p Hp. split.
    + exact (proj1 (Forall_forall _ _) (keyed_fst key xs) p Hp).
    + exact (proj1 (Forall_forall _ _) Hd p Hp).
  - apply sortL_sorted.
Qed.

(* --- stable: items with equal key values keep their input order, in both directions --- *)
Lemma filter_map_swap {A B} (f : A -> B) (g : B -> bool) l :
  filter g (map f l) = map f (filter (fun x => g (f x)) l).
Proof. induction l as [|a l IH]; [reflexivity|]. cbn. destruct (g (f a)); cbn; rewrite IH; reflexivity. Qed.

Theorem spec_sorted_stable : forall key reverse xs z,
  orderable_keys key xs = true ->
  filter (fun x => (key_of (keyf key x) =? z)%Z) (spec_sorted_list key reverse xs)
  = filter (fun x => (key_of (keyf key x) =? z)%Z) xs.
Proof.
  intros key reverse xs z H. destruct (orderable_dom key xs H) as [k0 Hd].
  unfold spec_sorted_list. rewrite (sort_stable_sortL reverse k0 _ Hd).
  rewrite <- (map_snd_keyed key xs) at 2. rewrite !filter_map_swap. f_equal.
  set (z' := if reverse then (- z)%Z else z).
  assert (E : forall l, Forall (fun p => fst p = keyf key (snd p)) l ->
              filter (fun p => (key_of (keyf key (snd p)) =? z)%Z) l
              = filter (fun p => (mz reverse p =? z')%Z) l).
  { intros l Hl. apply filter_ext_in. intros p Hp.
    rewrite <- (proj1 (Forall_forall _ _) Hl p Hp). unfold mz, z'. destruct reverse; [|reflexivity].
    destruct (Z.eqb_spec (key_of (fst p)) z), (Z.eqb_spec (- key_of (fst p)) (- z)); try reflexivity; lia. }
  rewrite !E.
  - apply sortL_stable.
  - apply keyed_fst.
  - eapply Permutation_Forall; [symmetry; apply sortL_perm|apply keyed_fst].
Qed.

(* the same with Python's == on the key values: the items whose key equals that of a given item *)
Lemma same_kind_py_eq a b c :
  same_kind a b = true -> same_kind a c = true -> py_eq b c = (key_of b =? key_of c)%Z.
Proof.
  destruct a, b; cbn; try discriminate; destruct c; cbn; try discriminate; intros H1 H2; try reflexivity.
  apply N.eqb_eq in H1, H2. subst. rewrite N.eqb_refl. reflexivity.
Qed.
Corollary spec_sorted_stable_eq : forall key reverse xs y,
  orderable_keys key xs = true -> In y xs ->
  filter (fun x => py_eq (keyf key x) (keyf key y)) (spec_sorted_list key reverse xs)
  = filter (fun x => py_eq (keyf key x) (keyf key y)) xs.
Proof.
  intros key reverse xs y H Hy. destruct (orderable_dom key xs H) as [k0 Hd].
  assert (K : forall x, In x xs -> same_kind k0 (keyf key x) = true).
  { intros x Hx. unfold Dom in Hd. rewrite Forall_forall in Hd.
    apply (Hd (keyf key x, x)). unfold keyed. apply in_map_iff. eauto. }
  rewrite (filter_ext_in _ (fun x => (key_of (keyf key x) =? key_of (keyf key y))%Z)).
  2:{ intros x Hx. apply (same_kind_py_eq k0); apply K; [|exact Hy].
      eapply Permutation_in; [apply spec_sorted_perm|exact Hx]. }
  rewrite (filter_ext_in (fun x => py_eq (keyf key x) (keyf key y))
                         (fun x => (key_of (keyf key x) =? key_of (keyf key y))%Z) xs).
  2:{ intros x Hx. apply (same_kind_py_eq k0); apply K; assumption. }
  apply spec_sorted_stable, H.
Qed.

Example sorted_example :
  let key := Some (fun a => match a with [VTup [k; _]] => k | _ => VNone end) in
  let xs := [VTup [VInt 2; VInt 0]; VTup [VInt 1; VInt 1]; VTup [VInt 2; VInt 2]; VTup [VInt 1; VInt 3]] in
  orderable_keys key xs = true
  /\ spec_sorted key false xs
     = Ok (VList [VTup [VInt 1; VInt 1]; VTup [VInt 1; VInt 3]; VTup [VInt 2; VInt 0]; VTup [VInt 2; VInt 2]])
  /\ spec_sorted key true xs
     = Ok (VList [VTup [VInt 2; VInt 0]; VTup [VInt 2; VInt 2]; VTup [VInt 1; VInt 1]; VTup [VInt 1; VInt 3]])
  /\ orderable_keys None [VObj 1 5 2; VObj 2 3 2; VObj 3 3 2] = true.
Proof. repeat split. Qed.

(* ================= part 5: exactly when sorted raises TypeError ================= *)
(* --- the model's insertion sort: permutation, and when it meets an unorderable comparison --- *)
Lemma insert_by_perm lt x : forall l s, insert_by lt x l = Some s -> Permutation s (x :: l).
Proof.
  induction l as [|y r IH]; intros s H; cbn [insert_by] in H.
  - injection H as <-. reflexivity.
  - destruct (lt (fst y) (fst x)) as [[|]|]; try discriminate.
    + destruct (insert_by lt x r) as [s'|] eqn:E; try discriminate. cbn in H. injection H as <-.
      rewrite (IH s' eq_refl). apply perm_swap.
    + injection H as <-. reflexivity.
Qed.
Lemma sort_by_perm lt : forall l s, sort_by lt l = Some s -> Permutation s l.
Proof.
  induction l as [|x r IH]; intros s H; cbn [sort_by] in H.
  - injection H as <-. reflexivity.
  - destruct (sort_by lt r) as [s'|] eqn:E; try discriminate.
    rewrite (insert_by_perm _ _ _ _ H). constructor. apply IH. reflexivity.
Qed.

(* inserting x into the sorted list s compares x with the elements of s from the left, for as
   long as they go strictly before x; it fails iff it reaches an element unorderable with x *)
Definition ins_hits (lt : val -> val -> option bool) (x : val * val) (s : list (val * val)) : Prop :=
  exists s1 y s2, s = s1 ++ y :: s2
    /\ Forall (fun z => lt (fst z) (fst x) = Some true) s1 /\ lt (fst y) (fst x) = None.
(* the sort (which inserts the items from the last to the first) fails iff some item x meets an
   unorderable comparison when it is inserted into the sorted list of the items after it *)
Definition hits_unorderable (lt : val -> val -> option bool) (l : list (val * val)) : Prop :=
  exists pre x post s, l = pre ++ x :: post /\ sort_by lt post = Some s /\ ins_hits lt x s.

Lemma insert_by_none_iff lt x : forall s, insert_by lt x s = None <-> ins_hits lt x s.
Proof.
  induction s as [|y r IH]; cbn [insert_by].
  - split; [discriminate|]. intros (s1 & y & s2 & E & _). destruct s1; discriminate.
  - destruct (lt (fst y) (fst x)) as [[|]|] eqn:L.
    + split.
      * intros H. destruct (insert_by lt x r) eqn:E; [discriminate|].
        destruct (proj1 IH eq_refl) as (s1 & y0 & s2 & -> & F & N).
        exists (y :: s1), y0, s2. repeat split; auto.
      * intros (s1 & y0 & s2 & E & F & N). destruct s1 as [|z s1]; cbn in E; injection E as <- ->.
        { congruence. }
        inversion F as [|? ? _ F']; subst.
        assert (Hn : insert_by lt x (s1 ++ y0 :: s2) = None) by (apply IH; exists s1, y0, s2; auto).
        rewrite Hn. reflexivity.
    + split; [discriminate|]. intros (s1 & y0 & s2 & E & F & N).
      destruct s1 as [|z s1]; cbn in E; injection E as <- ->; [congruence|].
      inversion F as [|? ? Hz _]; subst. congruence.
    + split; [|reflexivity]. intros _. exists [], y, r. repeat split; auto.
Qed.
Lemma sort_by_none_iff lt : forall l, sort_by lt l = None <-> hits_unorderable lt l.
Proof.
  induction l as [|x r IH]; cbn [sort_by].
  - split; [discriminate|]. intros (pre & x & post & s & E & _). destruct pre; discriminate.
  - destruct (sort_by lt r) as [s'|] eqn:E.
    + split.
      * intros H. exists [], x, r, s'. repeat split; auto. apply insert_by_none_iff, H.
      * intros (pre & x0 & post & s & El & Es & Hh). destruct pre as [|z pre]; cbn in El; injection El as <- ->.
        { rewrite E in Es. injection Es as <-. apply insert_by_none_iff, Hh. }
        assert (Hn : @None (list (val * val)) = None) by reflexivity.
        enough (Some s' = None) by discriminate. apply IH. exists pre, x0, post, s. auto.
    + split; [|reflexivity]. intros _. destruct (proj1 IH eq_refl) as (pre & x0 & post & s & -> & Es & Hh).
      exists (x :: pre), x0, post, s. auto.
Qed.

(* --- orderability of two values is [same_kind], a partial equivalence --- *)
Lemma same_kind_py_lt_iff a b : same_kind a b = true <-> py_lt a b <> None.
Proof. destruct a, b; cbn; try destruct (N.eqb _ _); split; congruence. Qed.
Lemma same_kind_sym a b : same_kind a b = true -> same_kind b a = true.
Proof. destruct a, b; cbn; try discriminate; auto. rewrite N.eqb_sym. auto. Qed.
Lemma same_kind_trans a b c : same_kind a b = true -> same_kind b c = true -> same_kind a c = true.
Proof.
  destruct a, b; cbn; try discriminate; destruct c; cbn; try discriminate; intros H1 H2; try reflexivity.
  apply N.eqb_eq in H1, H2. subst. apply N.eqb_refl.
Qed.
Lemma py_lt_none_sym a b : py_lt a b = None -> py_lt b a = None.
Proof.
  intros H. destruct (py_lt b a) eqn:E; [|reflexivity]. exfalso.
  assert (K : same_kind b a = true) by (apply same_kind_py_lt_iff; congruence).
  apply same_kind_sym, same_kind_py_lt_iff in K. congruence.
Qed.
Lemma lt_dir_some_iff reverse a b : lt_dir reverse a b <> None <-> same_kind a b = true.
Proof.
  unfold lt_dir. destruct reverse; [|symmetry; apply same_kind_py_lt_iff].
  rewrite <- same_kind_py_lt_iff. split; apply same_kind_sym.
Qed.

(* if the sort of at least two items succeeds, all key values are of one kind *)
Definition AllKind (l : list (val * val)) : Prop :=
  forall p q, In p l -> In q l -> same_kind (fst p) (fst q) = true.
Lemma sort_by_some_kind reverse : forall l s,
  sort_by (lt_dir reverse) l = Some s -> 2 <= length l -> AllKind l.
Proof.
  induction l as [|x r IH]; intros s H Hlen; [cbn in Hlen; lia|].
  cbn [sort_by] in H. destruct (sort_by (lt_dir reverse) r) as [s'|] eqn:E; [|discriminate].
  pose proof (sort_by_perm _ _ _ E) as Hp.
  destruct s' as [|h t].
  { apply Permutation_nil in Hp. subst r. cbn in Hlen. lia. }
  cbn [insert_by] in H. destruct (lt_dir reverse (fst h) (fst x)) as [c|] eqn:L; [|discriminate].
  assert (Hk : same_kind (fst h) (fst x) = true) by (apply (lt_dir_some_iff reverse); congruence).
  assert (Hh : In h r) by (eapply Permutation_in; [exact Hp|left; reflexivity]).
  assert (Hr : AllKind r).
  { destruct r as [|y [|y' r']].
    - destruct Hh.
    - destruct Hh as [<-|[]]. intros p q [<-|[]] [<-|[]].
      eapply same_kind_trans; [exact Hk|apply same_kind_sym, Hk].
    - apply (IH _ eq_refl). cbn. lia. }
  intros p q [<-|Hp'] [<-|Hq'].
  - apply (same_kind_trans _ (fst h)); [apply same_kind_sym, Hk|exact Hk].
  - apply (same_kind_trans _ (fst h)); [apply same_kind_sym, Hk|apply Hr; assumption].
  - apply (same_kind_trans _ (fst h)); [apply Hr; assumption|exact Hk].
  - apply Hr; assumption.
Qed.

Lemma in_keyed key xs y : In y xs -> In (keyf key y, y) (keyed key xs).
Proof. intros H. unfold keyed. apply in_map_iff. eauto. Qed.
Lemma AllKind_orderable key xs : AllKind (keyed key xs) -> orderable_keys key xs = true.
Proof.
  intros H. destruct xs as [|x r]; [reflexivity|]. cbn [orderable_keys]. apply forallb_forall.
  intros y Hy. apply (H (keyf key x, x) (keyf key y, y)); apply in_keyed; [left; reflexivity|exact Hy].
Qed.
Lemma orderable_pairwise key xs a b :
  orderable_keys key xs = true -> In a xs -> In b xs -> same_kind (keyf key a) (keyf key b) = true.
Proof.
  intros H Ha Hb. destruct (orderable_dom key xs H) as [k0 Hd]. unfold Dom in Hd. rewrite Forall_forall in Hd.
  pose proof (Hd _ (in_keyed key xs a Ha)) as Ka. pose proof (Hd _ (in_keyed key xs b Hb)) as Kb. cbn [fst] in Ka, Kb.
  eapply same_kind_trans; [apply same_kind_sym, Ka|exact Kb].
Qed.

Lemma sort_by_perm_items lt key xs s :
  sort_by lt (keyed key xs) = Some s -> Permutation (map snd s) xs.
Proof.
  intros E. rewrite <- (map_snd_keyed key xs) at 1. apply Permutation_map, (sort_by_perm _ _ _ E).
Qed.

(* the outcome of the model, read off [sorted_run] *)
Lemma sorted_outcome key reverse xs :
  fst (a_sorted key reverse (init_world [xs] None))
  = match sort_by (lt_dir reverse) (keyed key xs) with
    | Some s => Ok (VList (map snd s)) | None => Exn XTypeError end.
Proof.
  destruct (sorted_run key reverse xs) as (w & -> & _). cbn [fst]. unfold py_sorted.
  destruct (sort_by (lt_dir reverse) (keyed key xs)); reflexivity.
Qed.

(* --- the theorems --- *)
(* TypeError iff the insertion sort of the model meets an unorderable comparison: some item,
   inserted into the sorted list of the items after it, reaches (after elements that go strictly
   before it) an element whose key value cannot be compared with its own *)
Theorem sorted_type_error_iff : forall key reverse xs,
  fst (a_sorted key reverse (init_world [xs] None)) = Exn XTypeError
  <-> hits_unorderable (lt_dir reverse) (keyed key xs).
Proof.
  intros key reverse xs. rewrite sorted_outcome, <- sort_by_none_iff.
  destruct (sort_by (lt_dir reverse) (keyed key xs)); split; congruence.
Qed.

(* the same as a decidable condition on the input: at least two items, and the key values are
   not all ints / all objects of one class *)
Theorem sorted_type_error_exact : forall key reverse xs,
  fst (a_sorted key reverse (init_world [xs] None)) = Exn XTypeError
  <-> (2 <=? length xs) = true /\ orderable_keys key xs = false.
Proof.
  intros key reverse xs. rewrite sorted_outcome. split.
  - intros H. split.
    + destruct xs as [|x [|y r]]; [discriminate H|discriminate H|reflexivity].
    + destruct (orderable_keys key xs) eqn:O; [|reflexivity].
      pose proof (py_sorted_spec key reverse xs O) as P. unfold py_sorted in P.
      destruct (sort_by (lt_dir reverse) (keyed key xs)); discriminate.
  - intros [Hlen O]. destruct (sort_by (lt_dir reverse) (keyed key xs)) as [s|] eqn:E; [|reflexivity].
    exfalso. apply Nat.leb_le in Hlen.
    assert (K : AllKind (keyed key xs)).
    { apply (sort_by_some_kind reverse _ s E). unfold keyed. rewrite map_length. exact Hlen. }
    rewrite (AllKind_orderable key xs K) in O. discriminate.
Qed.

(* (a) pairwise orderable key values: the outcome is Ok, namely the specification's sort *)
Theorem sorted_ok_pairwise : forall key reverse xs,
  (forall a b, In a xs -> In b xs -> py_lt (keyf key a) (keyf key b) <> None) ->
  fst (a_sorted key reverse (init_world [xs] None)) = spec_sorted key reverse xs.
Proof.
  intros key reverse xs H.
  assert (O : orderable_keys key xs = true).
  { destruct xs as [|x r]; [reflexivity|]. cbn [orderable_keys]. apply forallb_forall. intros y Hy.
    apply same_kind_py_lt_iff, H; [left; reflexivity|exact Hy]. }
  pose proof (sorted_spec key reverse xs O) as S.
  destruct (a_sorted key reverse (init_world [xs] None)) as [o w]. apply S.
Qed.
(* and conversely (b): with at least two items, ANY two items (possibly the same one) whose key
   values are unorderable make the outcome TypeError *)
Theorem sorted_type_error_unorderable_pair : forall key reverse xs a b,
  (2 <=? length xs) = true -> In a xs -> In b xs -> py_lt (keyf key a) (keyf key b) = None ->
  fst (a_sorted key reverse (init_world [xs] None)) = Exn XTypeError.
Proof.
  intros key reverse xs a b Hlen Ha Hb N. apply sorted_type_error_exact. split; [exact Hlen|].
  destruct (orderable_keys key xs) eqn:O; [|reflexivity]. exfalso.
  apply (proj1 (same_kind_py_lt_iff _ _) (orderable_pairwise key xs a b O Ha Hb)), N.
Qed.
(* so for at least two items: Ok iff pairwise orderable *)
Corollary sorted_ok_iff_pairwise : forall key reverse xs,
  (2 <=? length xs) = true ->
  ((exists l, fst (a_sorted key reverse (init_world [xs] None)) = Ok (VList l))
   <-> (forall a b, In a xs -> In b xs -> py_lt (keyf key a) (keyf key b) <> None)).
Proof.
  intros key reverse xs Hlen. split.
  - intros [l E] a b Ha Hb N.
    rewrite (sorted_type_error_unorderable_pair key reverse xs a b Hlen Ha Hb N) in E. discriminate.
  - intros H. rewrite (sorted_ok_pairwise key reverse xs H). eexists. reflexivity.
Qed.

(* (a') the sharp sufficient condition: only the comparisons the insertion sort can make are
   needed: a LATER item's key against an EARLIER item's key, in the model's direction
   (reverse=False: key(later) < key(earlier); reverse=True: key(earlier) < key(later)) *)
Lemma insert_by_some lt x : forall l,
  Forall (fun y => lt (fst y) (fst x) <> None) l -> exists s, insert_by lt x l = Some s.
Proof.
  induction l as [|y r IH]; intros F; [eexists; reflexivity|].
  inversion F as [|? ? Hy Hr]; subst. cbn [insert_by].
  destruct (lt (fst y) (fst x)) as [[|]|]; [|eexists; reflexivity|congruence].
  destruct (IH Hr) as [s ->]. eexists; reflexivity.
Qed.
Lemma sort_by_some lt : forall l,
  ForallOrdPairs (fun p q => lt (fst q) (fst p) <> None) l -> exists s, sort_by lt l = Some s.
Proof.
  induction l as [|x r IH]; intros F; [eexists; reflexivity|].
  inversion F as [|? ? Hx Hr]; subst. cbn [sort_by]. destruct (IH Hr) as [s E]. rewrite E.
  apply insert_by_some. eapply Permutation_Forall; [symmetry; apply (sort_by_perm _ _ _ E)|exact Hx].
Qed.
Lemma FOP_keyed key (R : val -> val -> Prop) (R' : val * val -> val * val -> Prop) :
  (forall x y, R x y -> R' (keyf key x, x) (keyf key y, y)) ->
  forall xs, ForallOrdPairs R xs -> ForallOrdPairs R' (keyed key xs).
Proof.
  intros HR xs F. induction F as [|x r Hx _ IH]; cbn; constructor; [|exact IH].
  apply Forall_forall. intros p Hp. apply in_map_iff in Hp. destruct Hp as (y & <- & Hy).
  apply HR. exact (proj1 (Forall_forall _ _) Hx y Hy).
Qed.
Theorem sorted_ok_needed_comparisons : forall key reverse xs,
  ForallOrdPairs (fun x y => lt_dir reverse (keyf key y) (keyf key x) <> None) xs ->
  exists l, fst (a_sorted key reverse (init_world [xs] None)) = Ok (VList l) /\ Permutation l xs.
Proof.
  intros key reverse xs F. rewrite sorted_outcome.
  destruct (sort_by_some (lt_dir reverse) (keyed key xs)) as [s E].
  { revert F. apply FOP_keyed. intros x y H. exact H. }
  rewrite E. eexists. split; [reflexivity|]. apply (sort_by_perm_items _ _ _ _ E).
Qed.

(* (c) two items: the model makes exactly one comparison, key(y) against key(x) in its direction *)
Theorem sorted_two_type_error : forall key reverse x y,
  lt_dir reverse (keyf key y) (keyf key x) = None ->
  fst (a_sorted key reverse (init_world [[x; y]] None)) = Exn XTypeError.
Proof.
  intros key reverse x y N. rewrite sorted_outcome. unfold keyed. cbn [map sort_by insert_by fst].
  rewrite N. reflexivity.
Qed.
Theorem sorted_two_ok : forall key reverse x y c,
  lt_dir reverse (keyf key y) (keyf key x) = Some c ->
  fst (a_sorted key reverse (init_world [[x; y]] None)) = Ok (VList (if c then [y; x] else [x; y])).
Proof.
  intros key reverse x y c N. rewrite sorted_outcome. unfold keyed. cbn [map sort_by insert_by fst].
  rewrite N. destruct c; reflexivity.
Qed.
(* unorderability does not depend on the direction *)
Corollary sorted_two_type_error_sym : forall key reverse x y,
  py_lt (keyf key x) (keyf key y) = None ->
  fst (a_sorted key reverse (init_world [[x; y]] None)) = Exn XTypeError.
Proof.
  intros key reverse x y N. apply sorted_two_type_error. unfold lt_dir.
  destruct reverse; [exact N|apply py_lt_none_sym, N].
Qed.

(* the outcome is always a permutation of the input or TypeError, never anything else; the
   trace (all items read, all key calls made, before anything is compared) and the release of the
   source do not depend on the outcome *)
Theorem sorted_outcome_cases : forall key reverse xs,
  let '(o, w) := a_sorted key reverse (init_world [xs] None) in
  ((exists l, o = Ok (VList l) /\ Permutation l xs) \/ o = Exn XTypeError)
  /\ no_closes (rev (log w)) = spec_sorted_trace key xs
  /\ all_released w = true.
Proof.
  intros key reverse xs. pose proof (sorted_outcome key reverse xs) as O.
  destruct (sorted_run key reverse xs) as (w & E & Ht & Hr). rewrite E in O |- *. cbn [fst] in O.
  split; [|auto]. rewrite O.
  destruct (sort_by (lt_dir reverse) (keyed key xs)) as [s|] eqn:Es; [left|right; reflexivity].
  eexists. split; [reflexivity|]. apply (sort_by_perm_items _ _ _ _ Es).
Qed.

Example sorted_type_error_example :
  (* mixed ints and None: TypeError; a single None: fine; objects of two classes: TypeError *)
  fst (a_sorted None false (init_world [[VInt 2; VNone; VInt 1]] None)) = Exn XTypeError
  /\ fst (a_sorted None true (init_world [[VNone]] None)) = Ok (VList [VNone])
  /\ fst (a_sorted None false (init_world [[VObj 1 5 2; VObj 2 3 7]] None)) = Exn XTypeError
  /\ (2 <=? length [VInt 2; VNone; VInt 1]) = true /\ orderable_keys None [VInt 2; VNone; VInt 1] = false.
Proof. repeat split. Qed.

Print Assumptions sorted_spec.
Print Assumptions sorted_trace_any.
Print Assumptions spec_sorted_perm.
Print Assumptions spec_sorted_sorted.
Print Assumptions spec_sorted_stable.
Print Assumptions spec_sorted_stable_eq.
Print Assumptions sorted_type_error_iff.
Print Assumptions sorted_type_error_exact.
Print Assumptions sorted_ok_pairwise.
Print Assumptions sorted_type_error_unorderable_pair.
Print Assumptions sorted_ok_iff_pairwise.
Print Assumptions sorted_ok_needed_comparisons.
Print Assumptions sorted_two_type_error.
Print Assumptions sorted_two_ok.
Print Assumptions sorted_two_type_error_sym.
Print Assumptions sorted_outcome_cases.
