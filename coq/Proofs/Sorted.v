(* sorted(xs, key=, reverse=) : stable insertion sort specification, permutation, sortedness,
   stability, key-call trace *)
From Coq Require Import List ZArith NArith Bool Arith Lia Permutation Sorted.
Import ListNotations.
Require Import V.Kernel.Values V.Kernel.Monad V.Model.Builtins V.Proofs.Steps V.Std.Builtins V.Proofs.Loop.

(* ================= part 1: insertion sorts over an integer measure ================= *)
(* insR: insertion of an OLDER element (before its equals), as in the model's insert_by;
   insL: insertion of a NEWER element (after its equals), as in the specification *)
Fixpoint insR {A} (m : A -> Z) (x : A) (l : list A) : list A :=
  match l with
  | [] => [x]
  | y :: r => if (m y <? m x)%Z then y :: insR m x r else x :: y :: r
  end.
Fixpoint sortR {A} (m : A -> Z) (l : list A) : list A :=
  match l with [] => [] | x :: r => insR m x (sortR m r) end.
Fixpoint insL {A} (m : A -> Z) (x : A) (l : list A) : list A :=
  match l with
  | [] => [x]
  | y :: r => if (m x <? m y)%Z then x :: y :: r else y :: insL m x r
  end.
Definition sortL {A} (m : A -> Z) (l : list A) : list A := fold_left (fun acc p => insL m p acc) l [].

Lemma insR_insL {A} (m : A -> Z) a x : forall s, insR m a (insL m x s) = insL m x (insR m a s).
Proof.
  induction s as [|y r IH]; cbn [insR insL].
  - destruct (m x <? m a)%Z eqn:E1; reflexivity.
  - destruct (m x <? m y)%Z eqn:E1; destruct (m y <? m a)%Z eqn:E2; cbn [insR insL]; rewrite ?E1, ?E2.
    + assert (E3 : (m x <? m a)%Z = true) by (apply Z.ltb_lt; apply Z.ltb_lt in E1, E2; lia).
      rewrite ?E3, ?E2, ?E1. reflexivity.
    + destruct (m x <? m a)%Z eqn:E3; rewrite ?E1, ?E2; reflexivity.
    + rewrite IH. reflexivity.
    + assert (E3 : (m x <? m a)%Z = false) by (apply Z.ltb_ge; apply Z.ltb_ge in E1, E2; lia).
      rewrite ?E3, ?E1, ?E2. reflexivity.
Qed.
Lemma sortR_snoc {A} (m : A -> Z) x : forall l, sortR m (l ++ [x]) = insL m x (sortR m l).
Proof.
  induction l as [|a l IH]; [reflexivity|]. cbn [app sortR]. rewrite IH. apply insR_insL.
Qed.
Lemma sortL_snoc {A} (m : A -> Z) x l : sortL m (l ++ [x]) = insL m x (sortL m l).
Proof. unfold sortL. rewrite fold_left_app. reflexivity. Qed.
Lemma sortL_sortR {A} (m : A -> Z) l : sortL m l = sortR m l.
Proof.
  induction l as [|x l IH] using rev_ind; [reflexivity|]. rewrite sortL_snoc, sortR_snoc, IH. reflexivity.
Qed.

Lemma insL_perm {A} (m : A -> Z) x : forall l, Permutation (insL m x l) (x :: l).
Proof.
  induction l as [|y r IH]; cbn [insL]; [reflexivity|].
  destruct (m x <? m y)%Z; [reflexivity|]. rewrite IH. apply perm_swap.
Qed.
Lemma sortL_perm {A} (m : A -> Z) l : Permutation (sortL m l) l.
Proof.
  induction l as [|x l IH] using rev_ind; [reflexivity|].
  rewrite sortL_snoc, insL_perm, IH. apply Permutation_cons_append.
Qed.

Lemma insL_sorted {A} (m : A -> Z) x : forall l,
  StronglySorted (fun a b => (m a <= m b)%Z) l -> StronglySorted (fun a b => (m a <= m b)%Z) (insL m x l).
Proof.
  induction l as [|y r IH]; intros Hs; cbn [insL].
  - repeat constructor.
  - inversion Hs as [|? ? Hr Hy]; subst. destruct (m x <? m y)%Z eqn:E.
    + apply Z.ltb_lt in E. constructor; [exact Hs|]. constructor; [lia|].
      eapply Forall_impl; [|exact Hy]. cbn. intros; lia.
    + apply Z.ltb_ge in E. constructor; [auto|].
      eapply Permutation_Forall; [symmetry; apply insL_perm|]. constructor; auto.
Qed.
Lemma sortL_sorted {A} (m : A -> Z) l : StronglySorted (fun a b => (m a <= m b)%Z) (sortL m l).
Proof.
  induction l as [|x l IH] using rev_ind; [constructor|]. rewrite sortL_snoc. apply insL_sorted, IH.
Qed.

Lemma insL_stable {A} (m : A -> Z) z x : forall l,
  StronglySorted (fun a b => (m a <= m b)%Z) l ->
  filter (fun p => (m p =? z)%Z) (insL m x l)
  = filter (fun p => (m p =? z)%Z) l ++ filter (fun p => (m p =? z)%Z) [x].
Proof.
  induction l as [|y r IH]; intros Hs; cbn [insL]; [reflexivity|].
  inversion Hs as [|? ? Hr Hy]; subst. destruct (m x <? m y)%Z eqn:E.
  - apply Z.ltb_lt in E. cbn [filter]. destruct (m x =? z)%Z eqn:Ex; [|rewrite app_nil_r; reflexivity].
    apply Z.eqb_eq in Ex.
    assert (Hn : filter (fun p => (m p =? z)%Z) (y :: r) = []).
    { clear IH Hs Hr. cbn [filter].
      assert (Ey : (m y =? z)%Z = false) by (apply Z.eqb_neq; lia). rewrite Ey.
      induction Hy as [|q r' Hq Hy IHy]; [reflexivity|]. cbn [filter].
      assert (Eq : (m q =? z)%Z = false) by (apply Z.eqb_neq; lia). rewrite Eq. exact IHy. }
    cbn [filter] in Hn. rewrite Hn. reflexivity.
  - cbn [filter]. rewrite (IH Hr). destruct (m y =? z)%Z; reflexivity.
Qed.
Lemma sortL_stable {A} (m : A -> Z) z l :
  filter (fun p => (m p =? z)%Z) (sortL m l) = filter (fun p => (m p =? z)%Z) l.
Proof.
  induction l as [|x l IH] using rev_ind; [reflexivity|].
  rewrite sortL_snoc, insL_stable by apply sortL_sorted. rewrite IH, filter_app. reflexivity.
Qed.
Lemma sortR_perm {A} (m : A -> Z) l : Permutation (sortR m l) l.
Proof. rewrite <- sortL_sortR. apply sortL_perm. Qed.

(* ================= part 2: orderable key values as integers ================= *)
(* the measure: the integer view of the key value, negated for reverse=True *)
Definition mz (reverse : bool) (p : val * val) : Z :=
  if reverse then (- key_of (fst p))%Z else key_of (fst p).
Definition Dom (k0 : val) (l : list (val * val)) : Prop := Forall (fun p => same_kind k0 (fst p) = true) l.

Lemma same_kind_py_lt a b c :
  same_kind a b = true -> same_kind a c = true -> py_lt b c = Some (key_of b <? key_of c)%Z.
Proof.
  destruct a, b; cbn; try discriminate; destruct c; cbn; try discriminate; intros H1 H2; try reflexivity.
  apply N.eqb_eq in H1, H2. subst. rewrite N.eqb_refl. reflexivity.
Qed.
Lemma ltb_opp a b : (- a <? - b)%Z = (b <? a)%Z.
Proof. destruct (Z.ltb_spec (- a) (- b)), (Z.ltb_spec b a); try reflexivity; lia. Qed.
Lemma lt_dir_mz reverse k0 p q :
  same_kind k0 (fst p) = true -> same_kind k0 (fst q) = true ->
  lt_dir reverse (fst p) (fst q) = Some (mz reverse p <? mz reverse q)%Z.
Proof.
  intros Hp Hq. unfold lt_dir, mz. destruct reverse.
  - rewrite (same_kind_py_lt k0 _ _ Hq Hp), ltb_opp. reflexivity.
  - apply (same_kind_py_lt k0 _ _ Hp Hq).
Qed.
Lemma ltb_dir_mz reverse k0 p q :
  same_kind k0 (fst p) = true -> same_kind k0 (fst q) = true ->
  ltb_dir reverse (fst p) (fst q) = (mz reverse p <? mz reverse q)%Z.
Proof.
  intros Hp Hq. pose proof (lt_dir_mz reverse k0 p q Hp Hq) as H. unfold lt_dir in H. unfold ltb_dir.
  rewrite H. destruct (mz reverse p <? mz reverse q)%Z; reflexivity.
Qed.

(* the model's sort on orderable keys *)
Lemma insert_by_insR reverse k0 x : forall l,
  Dom k0 (x :: l) -> insert_by (lt_dir reverse) x l = Some (insR (mz reverse) x l).
Proof.
  induction l as [|y r IH]; intros Hd; [reflexivity|].
  inversion Hd as [|? ? Hx Hyr]; subst. inversion Hyr as [|? ? Hy Hr]; subst.
  cbn [insert_by insR]. rewrite (lt_dir_mz reverse k0 y x Hy Hx).
  destruct (mz reverse y <? mz reverse x)%Z; [|reflexivity].
  rewrite IH; [reflexivity|]. constructor; assumption.
Qed.
Lemma sort_by_sortR reverse k0 : forall l,
  Dom k0 l -> sort_by (lt_dir reverse) l = Some (sortR (mz reverse) l).
Proof.
  induction l as [|x r IH]; intros Hd; [reflexivity|].
  inversion Hd as [|? ? Hx Hr]; subst. cbn [sort_by sortR]. rewrite (IH Hr).
  apply (insert_by_insR reverse k0). constructor; [exact Hx|].
  eapply Permutation_Forall; [symmetry; apply sortR_perm|exact Hr].
Qed.

(* the specification's sort on orderable keys *)
Lemma ins_stable_insL reverse k0 p : forall l,
  Dom k0 (p :: l) -> ins_stable reverse p l = insL (mz reverse) p l.
Proof.
  induction l as [|q r IH]; intros Hd; [reflexivity|].
  inversion Hd as [|? ? Hp Hqr]; subst. inversion Hqr as [|? ? Hq Hr]; subst.
  cbn [ins_stable insL]. rewrite (ltb_dir_mz reverse k0 p q Hp Hq).
  destruct (mz reverse p <? mz reverse q)%Z; [reflexivity|].
  rewrite IH; [reflexivity|]. constructor; assumption.
Qed.
Lemma sort_stable_snoc reverse l x : sort_stable reverse (l ++ [x]) = ins_stable reverse x (sort_stable reverse l).
Proof. unfold sort_stable. rewrite fold_left_app. reflexivity. Qed.
Lemma sort_stable_sortL reverse k0 : forall l,
  Dom k0 l -> sort_stable reverse l = sortL (mz reverse) l.
Proof.
  induction l as [|x l IH] using rev_ind; intros Hd; [reflexivity|].
  unfold Dom in Hd. apply Forall_app in Hd. destruct Hd as [Hl Hx]. inversion Hx as [|? ? Hx' _]; subst.
  rewrite sort_stable_snoc, sortL_snoc, (IH Hl).
  apply (ins_stable_insL reverse k0). constructor; [exact Hx'|].
  eapply Permutation_Forall; [symmetry; apply sortL_perm|exact Hl].
Qed.

Lemma orderable_dom key xs : orderable_keys key xs = true -> exists k0, Dom k0 (keyed key xs).
Proof.
  destruct xs as [|x r]; intros H.
  - exists VNone. constructor.
  - exists (keyf key x). cbn [orderable_keys] in H. rewrite forallb_forall in H.
    unfold Dom, keyed. apply Forall_forall. intros p Hp. apply in_map_iff in Hp.
    destruct Hp as (y & <- & Hy). cbn [fst]. apply H, Hy.
Qed.

(* the model's list.sort agrees with the stable insertion sort of the specification *)
Lemma py_sorted_spec key reverse xs :
  orderable_keys key xs = true ->
  py_sorted reverse (keyed key xs) = Some (spec_sorted_list key reverse xs).
Proof.
  intros H. destruct (orderable_dom key xs H) as [k0 Hd].
  unfold py_sorted, spec_sorted_list. rewrite (sort_by_sortR reverse k0 _ Hd), (sort_stable_sortL reverse k0 _ Hd).
  rewrite sortL_sortR. reflexivity.
Qed.

(* ================= part 3: the run of the model ================= *)
Definition stepS (key : option (list val -> val)) (acc : list (val * val)) (x : val)
  : outcome (list (val * val) * bool) := Ok ((keyf key x, x) :: acc, true).
Definition evsS (key : option (list val -> val)) (_ : list (val * val)) (x : val) : list event := kcall key x.

Lemma bodyS key :
  body_is (fun (acc : list (val * val)) x =>
             match key with
             | None => ret ((x, x) :: acc, true)
             | Some k => kx <- call 0 k [x] ;; ret ((kx, x) :: acc, true)
             end) (stepS key) (evsS key).
Proof.
  intros acc x xs lg u. destruct key as [k|].
  - exists (S u). rewrite bind_call1. reflexivity.
  - exists u. reflexivity.
Qed.
Lemma pureS key : forall xs acc,
  l_out (pure_loop (stepS key) (evsS key) acc xs) = Ok (rev (keyed key xs) ++ acc, false)
  /\ l_tr (pure_loop (stepS key) (evsS key) acc xs) = spec_sorted_trace key xs.
Proof.
  induction xs as [|x xs IH]; intros acc; [split; reflexivity|].
  cbn [pure_loop stepS l_out l_tr]. destruct (IH ((keyf key x, x) :: acc)) as [-> ->]. split.
  - unfold keyed. cbn [map rev]. rewrite <- app_assoc. reflexivity.
  - unfold spec_sorted_trace, evsS. cbn [flat_map]. rewrite <- !app_assoc. reflexivity.
Qed.

Lemma sorted_trace_no_close key xs e : In e (spec_sorted_trace key xs) -> is_close e = false.
Proof.
  destruct (pureS key xs []) as [_ <-]. apply pure_loop_no_close.
  intros acc y e'. unfold evsS. destruct key; cbn; [intros [<-|[]]; reflexivity | intros []].
Qed.

Lemma sorted_run key reverse xs :
  exists w, a_sorted key reverse (init_world [xs] None)
            = (match py_sorted reverse (keyed key xs) with
               | Some l => Ok (VList l) | None => Exn XTypeError end, w)
  /\ no_closes (rev (log w)) = spec_sorted_trace key xs /\ all_released w = true.
Proof.
  unfold a_sorted. rewrite init_world1.
  destruct (loop_pure _ _ _ (bodyS key) xs [] [] 0) as [u' Hl].
  destruct (pureS key xs []) as [Ho Ht].
  rewrite Ho in Hl.
  eexists. split.
  - erewrite bind_ok.
    2:{ apply scoped_r.
        - rewrite (bind_ok _ _ _ _ _ Hl). reflexivity.
        - congruence. }
    cbn [fst]. rewrite app_nil_r, rev_involutive.
    destruct (py_sorted reverse (keyed key xs)); reflexivity.
  - split; [|apply released_Wc]. rewrite log_Wc, no_closes_scoped_pre.
    + rewrite Ht. reflexivity.
    + rewrite Ht. apply sorted_trace_no_close.
    + intros e [].
Qed.

(* ================= part 4: the theorems ================= *)
(* on orderable key values the model returns the stable insertion sort of the specification;
   the key function is called once per item, in input order, before anything is compared *)
Theorem sorted_spec : forall key reverse xs,
  orderable_keys key xs = true ->
  let '(o, w) := a_sorted key reverse (init_world [xs] None) in
  o = spec_sorted key reverse xs
  /\ no_closes (rev (log w)) = spec_sorted_trace key xs
  /\ all_released w = true.
Proof.
  intros key reverse xs H. destruct (sorted_run key reverse xs) as (w & -> & Ht & Hr).
  rewrite (py_sorted_spec key reverse xs H). auto.
Qed.

(* on arbitrary key values: same trace and release, the result is a list or TypeError *)
Theorem sorted_trace_any : forall key reverse xs,
  let '(o, w) := a_sorted key reverse (init_world [xs] None) in
  (o = Exn XTypeError \/ exists l, o = Ok (VList l))
  /\ no_closes (rev (log w)) = spec_sorted_trace key xs
  /\ all_released w = true.
Proof.
  intros key reverse xs. destruct (sorted_run key reverse xs) as (w & -> & Ht & Hr).
  split; [|auto]. destruct (py_sorted reverse (keyed key xs)); eauto.
Qed.

(* --- the specification yields a permutation (for all inputs) --- *)
Lemma ins_stable_perm reverse p : forall l, Permutation (ins_stable reverse p l) (p :: l).
Proof.
  induction l as [|q r IH]; cbn [ins_stable]; [reflexivity|].
  destruct (ltb_dir reverse (fst p) (fst q)); [reflexivity|]. rewrite IH. apply perm_swap.
Qed.
Lemma sort_stable_perm reverse l : Permutation (sort_stable reverse l) l.
Proof.
  induction l as [|x l IH] using rev_ind; [reflexivity|].
  rewrite sort_stable_snoc, ins_stable_perm, IH. apply Permutation_cons_append.
Qed.
Lemma map_snd_keyed key xs : map snd (keyed key xs) = xs.
Proof. unfold keyed. rewrite map_map. cbn. apply map_id. Qed.
Theorem spec_sorted_perm : forall key reverse xs, Permutation (spec_sorted_list key reverse xs) xs.
Proof.
  intros. unfold spec_sorted_list. rewrite <- (map_snd_keyed key xs) at 2.
  apply Permutation_map, sort_stable_perm.
Qed.

(* --- sorted: no later element of the result goes strictly before an earlier one --- *)
Lemma StronglySorted_map_in {A B} (f : A -> B) (R : A -> A -> Prop) (R' : B -> B -> Prop) (Q : A -> Prop) l :
  (forall p q, Q p -> Q q -> R p q -> R' (f p) (f q)) ->
  Forall Q l -> StronglySorted R l -> StronglySorted R' (map f l).
Proof.
  intros HR HQ Hs. induction Hs as [|p l Hs IH Hp]; cbn [map]; [constructor|].
  inversion HQ as [|? ? Qp Ql]; subst. constructor; [auto|].
  rewrite Forall_forall in *. intros b Hb. apply in_map_iff in Hb. destruct Hb as (q & <- & Hq). auto.
Qed.
Lemma keyed_fst key xs : Forall (fun p => fst p = keyf key (snd p)) (keyed key xs).
Proof. unfold keyed. apply Forall_forall. intros p Hp. apply in_map_iff in Hp. destruct Hp as (x & <- & _). reflexivity. Qed.

Theorem spec_sorted_sorted : forall key reverse xs,
  orderable_keys key xs = true ->
  StronglySorted (fun a b => ltb_dir reverse (keyf key b) (keyf key a) = false)
                 (spec_sorted_list key reverse xs).
Proof.
  intros key reverse xs H. destruct (orderable_dom key xs H) as [k0 Hd].
  unfold spec_sorted_list. rewrite (sort_stable_sortL reverse k0 _ Hd).
  apply (StronglySorted_map_in snd (fun a b => (mz reverse a <= mz reverse b)%Z) _
           (fun p => fst p = keyf key (snd p) /\ same_kind k0 (fst p) = true)).
  - intros p q [Ep Kp] [Eq Kq] Hle. rewrite <- Ep, <- Eq.
    rewrite (ltb_dir_mz reverse k0 q p Kq Kp). apply Z.ltb_ge. exact Hle.
  - eapply Permutation_Forall; [symmetry; apply sortL_perm|].
    apply Forall_forall. intros p Hp. split.
    + exact (proj1 (Forall_forall _ _) (keyed_fst key xs) p Hp).
    + exact (proj1 (Forall_forall _ _) Hd p Hp).
  - apply sortL_sorted.
Qed.

(* --- stable: items with equal key values keep their input order, in both directions --- *)
Lemma filter_map_swap {A B} (f : A -> B) (g : B -> bool) l :
  filter g (map f l) = map f (filter (fun x => g (f x)) l).
Proof. induction l as [|a l IH]; [reflexivity|]. cbn. destruct (g (f a)); cbn; rewrite IH; reflexivity. Qed.

Theorem spec_sorted_stable : forall key reverse xs z,
  orderable_keys key xs = true ->
  filter (fun x => (key_of (keyf key x) =? z)%Z) (spec_sorted_list key reverse xs)
  = filter (fun x => (key_of (keyf key x) =? z)%Z) xs.
Proof.
  intros key reverse xs z H. destruct (orderable_dom key xs H) as [k0 Hd].
  unfold spec_sorted_list. rewrite (sort_stable_sortL reverse k0 _ Hd).
  rewrite <- (map_snd_keyed key xs) at 2. rewrite !filter_map_swap. f_equal.
  set (z' := if reverse then (- z)%Z else z).
  assert (E : forall l, Forall (fun p => fst p = keyf key (snd p)) l ->
              filter (fun p => (key_of (keyf key (snd p)) =? z)%Z) l
              = filter (fun p => (mz reverse p =? z')%Z) l).
  { intros l Hl. apply filter_ext_in. intros p Hp.
    rewrite <- (proj1 (Forall_forall _ _) Hl p Hp). unfold mz, z'. destruct reverse; [|reflexivity].
    destruct (Z.eqb_spec (key_of (fst p)) z), (Z.eqb_spec (- key_of (fst p)) (- z)); try reflexivity; lia. }
  rewrite !E.
  - apply sortL_stable.
  - apply keyed_fst.
  - eapply Permutation_Forall; [symmetry; apply sortL_perm|apply keyed_fst].
Qed.

(* the same with Python's == on the key values: the items whose key equals that of a given item *)
Lemma same_kind_py_eq a b c :
  same_kind a b = true -> same_kind a c = true -> py_eq b c = (key_of b =? key_of c)%Z.
Proof.
  destruct a, b; cbn; try discriminate; destruct c; cbn; try discriminate; intros H1 H2; try reflexivity.
  apply N.eqb_eq in H1, H2. subst. rewrite N.eqb_refl. reflexivity.
Qed.
Corollary spec_sorted_stable_eq : forall key reverse xs y,
  orderable_keys key xs = true -> In y xs ->
  filter (fun x => py_eq (keyf key x) (keyf key y)) (spec_sorted_list key reverse xs)
  = filter (fun x => py_eq (keyf key x) (keyf key y)) xs.
Proof.
  intros key reverse xs y H Hy. destruct (orderable_dom key xs H) as [k0 Hd].
  assert (K : forall x, In x xs -> same_kind k0 (keyf key x) = true).
  { intros x Hx. unfold Dom in Hd. rewrite Forall_forall in Hd.
    apply (Hd (keyf key x, x)). unfold keyed. apply in_map_iff. eauto. }
  rewrite (filter_ext_in _ (fun x => (key_of (keyf key x) =? key_of (keyf key y))%Z)).
  2:{ intros x Hx. apply (same_kind_py_eq k0); apply K; [|exact Hy].
      eapply Permutation_in; [apply spec_sorted_perm|exact Hx]. }
  rewrite (filter_ext_in (fun x => py_eq (keyf key x) (keyf key y))
                         (fun x => (key_of (keyf key x) =? key_of (keyf key y))%Z) xs).
  2:{ intros x Hx. apply (same_kind_py_eq k0); apply K; assumption. }
  apply spec_sorted_stable, H.
Qed.

Example sorted_example :
  let key := Some (fun a => match a with [VTup [k; _]] => k | _ => VNone end) in
  let xs := [VTup [VInt 2; VInt 0]; VTup [VInt 1; VInt 1]; VTup [VInt 2; VInt 2]; VTup [VInt 1; VInt 3]] in
  orderable_keys key xs = true
  /\ spec_sorted key false xs
     = Ok (VList [VTup [VInt 1; VInt 1]; VTup [VInt 1; VInt 3]; VTup [VInt 2; VInt 0]; VTup [VInt 2; VInt 2]])
  /\ spec_sorted key true xs
     = Ok (VList [VTup [VInt 2; VInt 0]; VTup [VInt 2; VInt 2]; VTup [VInt 1; VInt 1]; VTup [VInt 1; VInt 3]])
  /\ orderable_keys None [VObj 1 5 2; VObj 2 3 2; VObj 3 3 2] = true.
Proof. repeat split. Qed.

Print Assumptions sorted_spec.
Print Assumptions sorted_trace_any.
Print Assumptions spec_sorted_perm.
Print Assumptions spec_sorted_sorted.
Print Assumptions spec_sorted_stable.
Print Assumptions spec_sorted_stable_eq.
