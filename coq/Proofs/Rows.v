(* The row engine shared by zip, map and compress: pull_row / zip_loop / zip_strict_loop / a_zip
   for an arbitrary consumer [y] of the rows, against [spec_rows_trace]. *)
From Coq Require Import List ZArith NArith Bool Arith Lia.
Import ListNotations.
Require Import V.Kernel.Values V.Kernel.Monad V.Model.Builtins V.Proofs.Steps V.Std.Multi V.Proofs.MultiSteps.

Lemma pull0_item post x l lg u :
  pull 0 (W (fs (x :: l) :: post) lg u) = (Ok (Some x), W (fs l :: post) (EItem 0 x :: EPull 0 :: lg) (S u)).
Proof. exact (pull_mid_item [] post 0 x l lg u eq_refl). Qed.
Lemma pull0_end post lg u :
  pull 0 (W (fs [] :: post) lg u) = (Ok None, W (es :: post) (EEnd 0 :: EPull 0 :: lg) (S u)).
Proof. exact (pull_mid_end [] post 0 lg u eq_refl). Qed.

(* ---------- one row ---------- *)
Fixpoint row_res (p : nat) (yss : list (list val)) : row :=
  match yss with
  | [] => Row []
  | [] :: _ => EndedAt p
  | (x :: _) :: r => match row_res (S p) r with Row xs => Row (x :: xs) | EndedAt q => EndedAt q end
  end.
Fixpoint row_srcs (yss : list (list val)) : list src :=
  match yss with
  | [] => []
  | [] :: r => es :: map fs r
  | (_ :: l) :: r => fs l :: row_srcs r
  end.

Lemma pull_row_spec : forall yss pre p lg u, length pre = p -> exists u',
  pull_row p (seq p (length yss)) (W (pre ++ map fs yss) lg u)
  = (Ok (row_res p yss), W (pre ++ row_srcs yss) (rev (spec_poll p yss) ++ lg) u').
Proof.
  induction yss as [|[|x l] r IH]; intros pre p lg u Hp.
  - exists u. reflexivity.
  - exists (S u). cbn [length seq pull_row map].
    erewrite bind_ok by (apply pull_mid_end; exact Hp). reflexivity.
  - cbn [length seq pull_row map].
    erewrite bind_ok by (apply pull_mid_item; exact Hp).
    assert (Hp' : length (pre ++ [fs l]) = S p) by (rewrite app_length; simpl; lia).
    destruct (IH (pre ++ [fs l]) (S p) (EItem p x :: EPull p :: lg) (S u) Hp') as [u' Hrow].
    rewrite <- !app_assoc in Hrow. cbn [app] in Hrow.
    exists u'. erewrite bind_ok by exact Hrow.
    cbn [row_res row_srcs spec_poll]. rewrite rev_app_distr, <- app_assoc. reflexivity.
Qed.

Lemma row_srcs_length yss : length (row_srcs yss) = length yss.
Proof.
  induction yss as [|[|x l] r IH]; cbn [row_srcs length]; [reflexivity| |].
  - rewrite map_length. reflexivity.
  - rewrite IH. reflexivity.
Qed.
Lemma row_full : forall yss p, forallb nonempty yss = true ->
  row_res p yss = Row (map (hd VNone) yss) /\ row_srcs yss = map fs (map (@tl val) yss).
Proof.
  induction yss as [|[|x l] r IH]; intros p H; cbn in H; try discriminate.
  - split; reflexivity.
  - destruct (IH (S p) H) as [H1 H2]. cbn [row_res row_srcs map hd tl]. rewrite H1, H2. split; reflexivity.
Qed.
Lemma row_short : forall yss p, forallb nonempty yss = false -> exists q, row_res p yss = EndedAt q /\ p <= q.
Proof.
  induction yss as [|[|x l] r IH]; intros p H; cbn in H; try discriminate.
  - exists p. split; [reflexivity|lia].
  - destruct (IH (S p) H) as (q & Hq & Hle). exists q. cbn [row_res]. rewrite Hq. split; [reflexivity|lia].
Qed.

(* ---------- the strict check of the other sources ---------- *)
Definition all_empty (yss : list (list val)) : bool := forallb (fun l => negb (nonempty l)) yss.
Lemma strict_rest_spec : forall yss pre p lg u, length pre = p -> exists ss' u',
  strict_rest (seq p (length yss)) (W (pre ++ map fs yss) lg u)
  = (if all_empty yss then Ok tt else Exn XValueError,
     W (pre ++ ss') (rev (spec_strict_check p yss) ++ lg) u') /\ length ss' = length yss.
Proof.
  induction yss as [|[|x l] r IH]; intros pre p lg u Hp.
  - exists [], u. split; reflexivity.
  - cbn [length seq strict_rest map].
    erewrite bind_ok by (apply pull_mid_end; exact Hp).
    assert (Hp' : length (pre ++ [es]) = S p) by (rewrite app_length; simpl; lia).
    destruct (IH (pre ++ [es]) (S p) (EEnd p :: EPull p :: lg) (S u) Hp') as (ss' & u' & Hr & Hlen).
    rewrite <- !app_assoc in Hr. cbn [app] in Hr.
    exists (es :: ss'), u'. split; [|simpl; lia].
    rewrite Hr. cbn [all_empty forallb nonempty negb andb spec_strict_check].
    rewrite rev_app_distr, <- !app_assoc. reflexivity.
  - cbn [length seq strict_rest map].
    erewrite bind_ok by (apply pull_mid_item; exact Hp).
    exists (fs l :: map fs r), (S u). split; [reflexivity|]. simpl. rewrite map_length. reflexivity.
Qed.

(* ---------- the loops ---------- *)
Definition yield_ok_with (y : val -> M unit) (out : list val -> list event) : Prop :=
  forall row ss lg u, exists u', y (VTup row) (W ss lg u) = (Ok tt, W ss (rev (out row) ++ lg) u').

Fixpoint rows_end (strict : bool) (xs : list val) (rest : list (list val)) : outcome unit :=
  match xs with
  | [] => if strict && negb (all_empty rest) then Exn XValueError else Ok tt
  | _ :: xs' => if forallb nonempty rest then rows_end strict xs' (map (@tl val) rest)
                else if strict then Exn XValueError else Ok tt
  end.

Lemma zip_loop_S f ss y :
  zip_loop (S f) ss y = (r <- pull_row 0 ss ;; match r with EndedAt _ => ret tt | Row xs => y (VTup xs) ;;; zip_loop f ss y end).
Proof. reflexivity. Qed.
Lemma zip_strict_loop_S f ss y :
  zip_strict_loop (S f) ss y
  = (r <- pull_row 0 ss ;; match r with
                           | EndedAt 0 => strict_rest (tl ss)
                           | EndedAt (S _) => raise XValueError
                           | Row xs => y (VTup xs) ;;; zip_strict_loop f ss y
                           end).
Proof. reflexivity. Qed.
Lemma pull_row_cons pos i r :
  pull_row pos (i :: r)
  = (o <- pull i ;; match o with
                    | None => ret (EndedAt pos)
                    | Some x => rest <- pull_row (S pos) r ;;
                                ret (match rest with Row xs => Row (x :: xs) | EndedAt p => EndedAt p end)
                    end).
Proof. reflexivity. Qed.

Lemma zip_loop_spec y out : yield_ok_with y out -> forall xs rest n lg u, length xs < n -> exists ss' u',
  zip_loop n (0 :: seq 1 (length rest)) y (W (fs xs :: map fs rest) lg u)
  = (rows_end false xs rest, W ss' (rev (spec_rows_trace out false xs rest) ++ lg) u')
  /\ length ss' = S (length rest).
Proof.
  intros Hy. induction xs as [|x xs IH]; intros rest n lg u Hn; destruct n as [|n]; try (simpl in Hn; lia).
  - exists (es :: map fs rest), (S u). split; [|simpl; rewrite map_length; reflexivity].
    rewrite zip_loop_S, pull_row_cons, bind_assoc.
    erewrite bind_ok by apply pull0_end. reflexivity.
  - assert (Hlen : length xs < n) by (simpl in Hn; lia).
    rewrite zip_loop_S, pull_row_cons, bind_assoc.
    erewrite bind_ok by apply pull0_item. cbv beta iota. rewrite bind_assoc.
    destruct (pull_row_spec rest [fs xs] 1 (EItem 0 x :: EPull 0 :: lg) (S u) eq_refl) as [u1 Hrow].
    cbn [app] in Hrow. erewrite bind_ok by exact Hrow. rewrite bind_ret.
    cbn [spec_rows_trace rows_end].
    destruct (forallb nonempty rest) eqn:Hne.
    + destruct (row_full rest 1 Hne) as [-> ->].
      destruct (Hy (x :: map (hd VNone) rest) (fs xs :: map fs (map (@tl val) rest))
                  (rev (spec_poll 1 rest) ++ EItem 0 x :: EPull 0 :: lg) u1) as [u2 Hy2].
      erewrite bind_ok by exact Hy2.
      destruct (IH (map (@tl val) rest) n
                  (rev (out (x :: map (hd VNone) rest)) ++ rev (spec_poll 1 rest) ++ EItem 0 x :: EPull 0 :: lg)
                  u2 Hlen) as (ss' & u3 & Hloop & Hl).
      rewrite map_length in Hloop, Hl.
      exists ss', u3. split; [|exact Hl]. rewrite Hloop. f_equal. f_equal.
      rewrite !rev_app_distr, <- !app_assoc. reflexivity.
    + destruct (row_short rest 1 Hne) as (q & -> & _).
      exists (fs xs :: row_srcs rest), u1. split; [|simpl; rewrite row_srcs_length; reflexivity].
      unfold ret. f_equal. f_equal.
      rewrite app_nil_r, !rev_app_distr, <- !app_assoc. reflexivity.
Qed.

Lemma zip_strict_loop_spec y out : yield_ok_with y out -> forall xs rest n lg u, length xs < n -> exists ss' u',
  zip_strict_loop n (0 :: seq 1 (length rest)) y (W (fs xs :: map fs rest) lg u)
  = (rows_end true xs rest, W ss' (rev (spec_rows_trace out true xs rest) ++ lg) u')
  /\ length ss' = S (length rest).
Proof.
  intros Hy. induction xs as [|x xs IH]; intros rest n lg u Hn; destruct n as [|n]; try (simpl in Hn; lia).
  - rewrite zip_strict_loop_S, pull_row_cons, bind_assoc.
    erewrite bind_ok by apply pull0_end. cbv beta iota. rewrite bind_ret. cbv beta iota. cbn [tl].
    destruct (strict_rest_spec rest [es] 1 (EEnd 0 :: EPull 0 :: lg) (S u) eq_refl) as (ss' & u' & Hr & Hl).
    cbn [app] in Hr. exists (es :: ss'), u'. split; [|simpl; lia].
    rewrite Hr. cbn [rows_end spec_rows_trace andb].
    destruct (all_empty rest); cbn [negb]; rewrite rev_app_distr, <- app_assoc; reflexivity.
  - assert (Hlen : length xs < n) by (simpl in Hn; lia).
    rewrite zip_strict_loop_S, pull_row_cons, bind_assoc.
    erewrite bind_ok by apply pull0_item. cbv beta iota. rewrite bind_assoc.
    destruct (pull_row_spec rest [fs xs] 1 (EItem 0 x :: EPull 0 :: lg) (S u) eq_refl) as [u1 Hrow].
    cbn [app] in Hrow. erewrite bind_ok by exact Hrow. rewrite bind_ret.
    cbn [spec_rows_trace rows_end].
    destruct (forallb nonempty rest) eqn:Hne.
    + destruct (row_full rest 1 Hne) as [-> ->].
      destruct (Hy (x :: map (hd VNone) rest) (fs xs :: map fs (map (@tl val) rest))
                  (rev (spec_poll 1 rest) ++ EItem 0 x :: EPull 0 :: lg) u1) as [u2 Hy2].
      erewrite bind_ok by exact Hy2.
      destruct (IH (map (@tl val) rest) n
                  (rev (out (x :: map (hd VNone) rest)) ++ rev (spec_poll 1 rest) ++ EItem 0 x :: EPull 0 :: lg)
                  u2 Hlen) as (ss' & u3 & Hloop & Hl).
      rewrite map_length in Hloop, Hl.
      exists ss', u3. split; [|exact Hl]. rewrite Hloop. f_equal. f_equal.
      rewrite !rev_app_distr, <- !app_assoc. reflexivity.
    + destruct (row_short rest 1 Hne) as (q & -> & Hq).
      destruct q as [|q]; [lia|].
      exists (fs xs :: row_srcs rest), u1. split; [|simpl; rewrite row_srcs_length; reflexivity].
      unfold raise. f_equal. f_equal.
      rewrite app_nil_r, !rev_app_distr, <- !app_assoc. reflexivity.
Qed.

Lemma total_left_cons xs post lg u : total_left (W (fs xs :: post) lg u) = length xs + total_left (W post lg u).
Proof. reflexivity. Qed.

Lemma zip_inner_spec strict y out : yield_ok_with y out -> forall xs rest lg u, exists ss' u',
  zip_inner strict (seq 0 (S (length rest))) y (W (fs xs :: map fs rest) lg u)
  = (rows_end strict xs rest, W ss' (rev (spec_rows_trace out strict xs rest) ++ lg) u')
  /\ length ss' = S (length rest).
Proof.
  intros Hy xs rest lg u. unfold zip_inner, with_fuel. change (seq 0 (S (length rest))) with (0 :: seq 1 (length rest)).
  assert (Hn : length xs < S (total_left (W (fs xs :: map fs rest) lg u))) by (rewrite total_left_cons; lia).
  destruct strict.
  - apply (zip_strict_loop_spec y out Hy xs rest _ lg u Hn).
  - apply (zip_loop_spec y out Hy xs rest _ lg u Hn).
Qed.

Lemma rows_end_not_fuel strict : forall xs rest, rows_end strict xs rest <> Fuel.
Proof.
  induction xs as [|x xs IH]; intros rest; cbn [rows_end].
  - destruct (strict && negb (all_empty rest)); discriminate.
  - destruct (forallb nonempty rest); [apply IH|]. destruct strict; discriminate.
Qed.

(* ---------- traces contain no closes ---------- *)
Lemma spec_poll_close_free : forall yss p, close_free (spec_poll p yss) = true.
Proof. induction yss as [|[|x l] r IH]; intros p; cbn; auto. Qed.
Lemma spec_strict_check_close_free : forall yss p, close_free (spec_strict_check p yss) = true.
Proof. induction yss as [|[|x l] r IH]; intros p; cbn; auto. Qed.
Lemma rows_trace_close_free out strict : (forall row, close_free (out row) = true) ->
  forall xs rest, close_free (spec_rows_trace out strict xs rest) = true.
Proof.
  intros Hout. induction xs as [|x xs IH]; intros rest; cbn [spec_rows_trace].
  - rewrite close_free_app. destruct strict; [|reflexivity]. rewrite spec_strict_check_close_free. reflexivity.
  - rewrite !close_free_app, spec_poll_close_free. destruct (forallb nonempty rest); [|reflexivity].
    rewrite close_free_app, Hout, IH. reflexivity.
Qed.

(* ---------- a_zip with an arbitrary consumer of the rows ---------- *)
Lemma a_zip_rows strict y out : yield_ok_with y out -> (forall row, close_free (out row) = true) ->
  forall xs rest,
  let '(o, w) := a_zip strict (seq 0 (length (xs :: rest))) y (init_world (xs :: rest) None) in
  o = rows_end strict xs rest /\ no_closes (rev (log w)) = spec_rows_trace out strict xs rest
  /\ all_released w = true.
Proof.
  intros Hy Hout xs rest. rewrite init_worldN. cbn [length map].
  destruct (zip_inner_spec strict y out Hy xs rest [] 0) as (ss' & u' & Hin & Hlen).
  destruct (close_all_seq ss' [] (rev (spec_rows_trace out strict xs rest) ++ []) u') as (cl & u'' & Hcl & Hcl').
  cbn [length app] in Hcl. rewrite Hlen in Hcl.
  change (a_zip strict (seq 0 (S (length rest))) y)
    with (finally (zip_inner strict (seq 0 (S (length rest))) y) (close_all (seq 0 (S (length rest))))).
  erewrite finally_ok; [ | exact Hin | apply rows_end_not_fuel | exact Hcl ].
  split; [reflexivity|]. split.
  - cbn [log W]. apply no_closes_log; [exact Hcl'|]. apply rows_trace_close_free; exact Hout.
  - unfold all_released. cbn [srcs W]. apply all_released_closed.
Qed.

(* ---------- endings and yields as plain list functions ---------- *)
Lemma rows_end_nonstrict : forall xs rest, rows_end false xs rest = Ok tt.
Proof. induction xs as [|x xs IH]; intros rest; cbn [rows_end andb]; [reflexivity|]. destruct (forallb nonempty rest); auto. Qed.

Lemma same_len_step a rest : forallb nonempty rest = true ->
  forallb (fun l : list val => Nat.eqb (length l) (S a)) rest
  = forallb (fun l => Nat.eqb (length l) a) (map (@tl val) rest).
Proof.
  induction rest as [|[|y l] r IH]; intros H; cbn in H; try discriminate; [reflexivity|].
  cbn [forallb map tl length Nat.eqb]. rewrite IH by exact H. reflexivity.
Qed.
Lemma same_len_short a rest : forallb nonempty rest = false ->
  forallb (fun l : list val => Nat.eqb (length l) (S a)) rest = false.
Proof.
  induction rest as [|[|y l] r IH]; intros H; cbn in H; try discriminate; [reflexivity|].
  cbn [forallb]. rewrite IH by exact H. apply andb_false_r.
Qed.
Lemma same_len_nil rest : forallb (fun l : list val => Nat.eqb (length l) 0) rest = all_empty rest.
Proof. induction rest as [|[|y l] r IH]; cbn; auto. Qed.

Lemma rows_end_spec strict : forall xs rest, rows_end strict xs rest = spec_zip_end strict (xs :: rest).
Proof.
  destruct strict; [|intros; rewrite rows_end_nonstrict; reflexivity].
  unfold spec_zip_end, same_lengths. induction xs as [|x xs IH]; intros rest; cbn [rows_end andb length].
  - rewrite same_len_nil. reflexivity.
  - destruct (forallb nonempty rest) eqn:Hne.
    + rewrite IH, (same_len_step _ rest Hne). reflexivity.
    + rewrite (same_len_short _ rest Hne). reflexivity.
Qed.

Lemma yields_poll : forall yss p, yields (spec_poll p yss) = [].
Proof. induction yss as [|[|x l] r IH]; intros p; cbn; auto. Qed.
Lemma yields_strict_check : forall yss p, yields (spec_strict_check p yss) = [].
Proof. induction yss as [|[|x l] r IH]; intros p; cbn; auto. Qed.

Lemma min_fold_short a rest : forallb nonempty rest = false ->
  fold_right (fun (l : list val) m => Nat.min (length l) m) a rest = 0.
Proof.
  induction rest as [|[|y l] r IH]; intros H; cbn in H; try discriminate; [reflexivity|].
  cbn [fold_right]. rewrite IH by exact H. apply Nat.min_0_r.
Qed.
Lemma min_fold_step a rest : forallb nonempty rest = true ->
  fold_right (fun (l : list val) m => Nat.min (length l) m) (S a) rest
  = S (fold_right (fun (l : list val) m => Nat.min (length l) m) a (map (@tl val) rest)).
Proof.
  induction rest as [|[|y l] r IH]; intros H; cbn in H; try discriminate; [reflexivity|].
  cbn [fold_right map tl length]. rewrite IH by exact H. reflexivity.
Qed.
Lemma min_fold_zero rest : fold_right (fun (l : list val) m => Nat.min (length l) m) 0 rest = 0.
Proof. induction rest as [|l r IH]; cbn [fold_right]; [reflexivity|]. rewrite IH. apply Nat.min_0_r. Qed.

Lemma column_0 d x xs rest : column d 0 ((x :: xs) :: rest) = x :: map (hd d) rest.
Proof. unfold column. cbn [map nth]. f_equal. apply map_ext. intros [|a l]; reflexivity. Qed.
Lemma column_S d j x (xs : list val) rest : column d (S j) ((x :: xs) :: rest) = column d j (xs :: map (@tl val) rest).
Proof.
  unfold column. cbn [map nth]. f_equal. rewrite map_map. apply map_ext.
  intros [|a l]; cbn [tl nth]; [destruct j; reflexivity|reflexivity].
Qed.
Lemma flat_map_shift {A} (g : nat -> list A) a n : flat_map g (seq (S a) n) = flat_map (fun j => g (S j)) (seq a n).
Proof. rewrite <- seq_shift. rewrite !flat_map_concat_map, map_map. reflexivity. Qed.

Lemma flat_map_single {A B} (g : A -> B) l : flat_map (fun j => [g j]) l = map g l.
Proof. induction l as [|a l IH]; cbn; [reflexivity|]. rewrite IH. reflexivity. Qed.

(* what is yielded: [out] applied to the first [min_len] rows of the transposition *)
Lemma rows_yields out strict : forall xs rest,
  yields (spec_rows_trace out strict xs rest)
  = flat_map (fun j => yields (out (column VNone j (xs :: rest)))) (seq 0 (min_len (xs :: rest))).
Proof.
  induction xs as [|x xs IH]; intros rest; cbn [spec_rows_trace min_len length].
  - rewrite min_fold_zero. rewrite yields_app. destruct strict; [rewrite yields_strict_check|]; reflexivity.
  - rewrite !yields_app, yields_poll. change (yields [EPull 0; EItem 0 x]) with (@nil val). cbn [app].
    destruct (forallb nonempty rest) eqn:Hne.
    + rewrite (min_fold_step _ rest Hne). cbn [seq flat_map]. rewrite column_0.
      rewrite yields_app, IH. cbn [app min_len]. f_equal.
      rewrite flat_map_shift. apply flat_map_ext. intros j. rewrite column_S. reflexivity.
    + rewrite (min_fold_short _ rest Hne). reflexivity.
Qed.
