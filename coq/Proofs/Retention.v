(* C20: what the models of the windowed tools keep between two consumer steps is bounded by the window,
   whatever the length of the stream.  (For the remaining streaming tools the loop state of the model is a fixed
   tuple of values -- loop_src at type val, val * val, Z -- so it cannot hold more items than its arity.) *)
From Coq Require Import List ZArith NArith Bool Arith Lia.
Import ListNotations.
Require Import V.Kernel.Values V.Kernel.Monad V.Model.Builtins V.Model.Itertools V.Model.Heapq V.Model.Tee.
Require Import V.Proofs.Tee.

(* tee: a live child's buffer holds exactly the items fetched that it has not yielded yet *)
Theorem tee_buffer_is_lead : forall cfg sched c buf,
  guarded cfg -> let s := texec cfg sched in
  In (c, buf) (t_peers s) -> length buf = length (t_fetched s) - length (c_out (getc s c)).
Proof.
  intros cfg sched c buf G s Hin.
  destruct (tee_inv cfg sched G) as (_ & Hb & _).
  specialize (Hb c buf Hin). fold s in Hb. rewrite <- Hb, app_length. lia.
Qed.
(* ... and children that are done hold nothing (their buffer is not registered any more) *)
Theorem tee_done_children_hold_nothing : forall cfg sched c,
  guarded cfg -> let s := texec cfg sched in
  c_dead (getc s c) = true -> ~ In c (map fst (t_peers s)).
Proof.
  intros cfg sched c G s Hd Hin.
  destruct (tee_inv cfg sched G) as (_ & _ & Hp & _).
  apply Hp in Hin. fold s in Hin. destruct Hin as [_ Hl]. congruence.
Qed.

(* nlargest / nsmallest: the heap never holds more than n entries *)
Lemma largest_fill_bound : forall n idx key w l w',
  largest_fill n idx key w = (Ok l, w') -> length l <= n.
Proof.
  induction n as [|n IH]; intros idx key w l w' H; cbn [largest_fill] in H.
  - inversion H; subst; cbn; lia.
  - unfold bind in H. destruct (pull 0 w) as [[[x|]|e|] w1]; try discriminate.
    + destruct (keyof key x w1) as [[k|e|] w2]; try discriminate.
      destruct (largest_fill n (idx + 1)%Z key w2) as [[rest|e|] w3] eqn:E; try discriminate.
      inversion H; subst. cbn. apply IH in E. lia.
    + inversion H; subst; cbn; lia.
Qed.
Lemma replace_lent_length : forall old new l, length (replace_lent old new l) = length l.
Proof. intros. unfold replace_lent. apply map_length. Qed.

(* merge: one head per source at most *)
Lemma merge_heads_bound : forall ss key w l w', merge_heads ss key w = (Ok l, w') -> length l <= length ss.
Proof.
  induction ss as [|i r IH]; intros key w l w' H; cbn [merge_heads] in H.
  - inversion H; subst; cbn; lia.
  - unfold bind in H. destruct (pull i w) as [[[h|]|e|] w1]; try discriminate.
    + destruct (keyof key h w1) as [[k|e|] w2]; try discriminate.
      destruct (merge_heads r key w2) as [[rest|e|] w3] eqn:E; try discriminate.
      inversion H; subst. cbn. apply IH in E. lia.
    + apply IH in H. cbn. lia.
Qed.
Lemma put_src_length : forall e l, length (put_src e l) = length l.
Proof. intros. unfold put_src. apply map_length. Qed.
Lemma drop_src_length : forall i l, length (drop_src i l) <= length l.
Proof. intros. unfold drop_src. induction l as [|x l IH]; cbn; [lia|]. destruct (negb _); cbn; lia. Qed.

(* batched: a batch under construction never exceeds the batch size *)
Lemma fill_batch_bound : forall n acc w l b w', fill_batch n acc w = (Ok (l, b), w') -> length l <= n + length acc.
Proof.
  induction n as [|n IH]; intros acc w l b w' H; cbn [fill_batch] in H.
  - inversion H; subst; lia.
  - unfold bind in H. destruct (pull 0 w) as [[[x|]|e|] w1]; try discriminate.
    + apply IH in H. rewrite app_length in H. cbn in H. lia.
    + inversion H; subst; lia.
Qed.
Print Assumptions tee_buffer_is_lead.
Print Assumptions largest_fill_bound.
Print Assumptions merge_heads_bound.
Print Assumptions fill_batch_bound.
