(* End-to-end corollaries: the property theorems (trace / spec) proved about the hand-written models in
   Proofs/{Filter,Enumerate,Map,Zip,TakeDrop,Starmap,Pairwise,Accumulate,Islice,Compress,Batched,AllAny,
   Folds,MinMax}.v, restated about the terms TRANSLATED FROM THE PYTHON SOURCE (Gen/PylSrc.v).

   Each statement is the model theorem's statement with the model term [a_T params] replaced by
   [run_genfn src_T args] / [run_corofn src_T args], where [args] is exactly the argument list of the
   equivalence theorem [src_T_ok] (Proofs/PylEquiv{Agg,Iter,Zip}.v).  Hypotheses are copied verbatim.
   Each proof is: rewrite with [src_T_ok] (an equation that holds for every consumer and every world),
   then [exact] the model theorem.  Nothing else is used. *)
From Coq Require Import String.
From Coq Require Import List ZArith NArith Bool Arith Lia.
Import ListNotations.
Require Import V.Kernel.Values V.Kernel.Monad.
Require Import V.Model.Builtins V.Model.Itertools V.Model.Heapq.
Require Import V.Std.Filter V.Std.Builtins V.Std.Itertools1 V.Std.Multi.
Require Import V.Model.Pyl V.Gen.PylSrc.
Require Import V.Proofs.Zip V.Proofs.Map V.Proofs.Filter V.Proofs.Enumerate V.Proofs.Accumulate
               V.Proofs.Batched V.Proofs.Compress V.Proofs.TakeDrop V.Proofs.Starmap V.Proofs.Islice
               V.Proofs.Pairwise V.Proofs.MinMax V.Proofs.AllAny V.Proofs.Folds V.Proofs.Chain V.Proofs.Cycle.
Require V.Proofs.PylEquivIter V.Proofs.PylEquivZip V.Proofs.PylEquivChain.

(* the split into an iterator and an aggregation file keeps a change to one family from breaking the other's corollaries *)

(* ====================================================================================================== *)
(* Iterator tools (async generators): [run_gen (run_genfn src_T args)]                                     *)
(* ====================================================================================================== *)

Theorem filter_source_trace : forall p xs,
  let '(o, w) := run_gen (run_genfn src_filter [AFn (PylEquivIter.fn_arg p); AIter 0]) (init_world [xs] None) in
  o = Ok tt /\ no_closes (rev (log w)) = spec_filter_trace p xs /\ all_released w = true.
Proof.
  intros p xs. unfold run_gen. rewrite PylEquivIter.src_filter_ok. exact (filter_trace p xs).
Qed.
Print Assumptions filter_source_trace.

Theorem enumerate_source_trace : forall start xs,
  let '(o, w) := run_gen (run_genfn src_enumerate [AIter 0; AVal (VInt start)]) (init_world [xs] None) in
  o = Ok tt /\ no_closes (rev (log w)) = spec_enumerate_trace start xs /\ all_released w = true.
Proof.
  intros start xs. unfold run_gen. rewrite PylEquivIter.src_enumerate_ok. exact (enumerate_trace start xs).
Qed.
Print Assumptions enumerate_source_trace.

Theorem map_source_trace : forall f xss, (1 <=? length xss) = true ->
  let '(o, w) := run_gen (run_genfn src_map [AFn (CUser 0 f); AIters (seq 0 (length xss))]) (init_world xss None) in
  o = Ok tt /\ no_closes (rev (log w)) = spec_map_trace f xss /\ all_released w = true.
Proof.
  intros f xss Hn. unfold run_gen. rewrite PylEquivIter.src_map_ok. exact (map_trace f xss Hn).
Qed.
Print Assumptions map_source_trace.

(* zip: both the lenient and the strict variant ([strict] is universally quantified); the two helper
   generators [_zip_inner] / [_zip_inner_strict] that [zip] delegates to are themselves the translated
   sources ([zip_lib] binds the names to [run_genfn src_zip_inner] / [run_genfn src_zip_inner_strict]). *)
Theorem zip_source_trace : forall strict xss,
  let '(o, w) := run_gen (run_genfn_in PylEquivZip.zip_lib src_zip [AIters (seq 0 (length xss)); AVal (VBool strict)])
                         (init_world xss None) in
  o = spec_zip_end strict xss /\ no_closes (rev (log w)) = spec_zip_trace strict xss /\ all_released w = true.
Proof.
  intros strict xss. unfold run_gen. rewrite PylEquivZip.src_zip_ok. exact (zip_trace strict xss).
Qed.
Print Assumptions zip_source_trace.

Theorem takewhile_source_trace : forall p xs,
  let '(o, w) := run_gen (run_genfn src_takewhile [AFn (CUser 0 p); AIter 0]) (init_world [xs] None) in
  o = Ok tt /\ no_closes (rev (log w)) = spec_takewhile_trace p xs /\ all_released w = true.
Proof.
  intros p xs. unfold run_gen. rewrite PylEquivIter.src_takewhile_ok. exact (takewhile_trace p xs).
Qed.
Print Assumptions takewhile_source_trace.

Theorem dropwhile_source_trace : forall p xs,
  let '(o, w) := run_gen (run_genfn src_dropwhile [AFn (CUser 0 p); AIter 0]) (init_world [xs] None) in
  o = Ok tt /\ no_closes (rev (log w)) = spec_dropwhile_trace p xs /\ all_released w = true.
Proof.
  intros p xs. unfold run_gen. rewrite PylEquivIter.src_dropwhile_ok. exact (dropwhile_trace p xs).
Qed.
Print Assumptions dropwhile_source_trace.

Theorem filterfalse_source_trace : forall p xs,
  let '(o, w) := run_gen (run_genfn src_filterfalse [AFn (PylEquivIter.fn_arg p); AIter 0]) (init_world [xs] None) in
  o = Ok tt /\ no_closes (rev (log w)) = spec_filterfalse_trace p xs /\ all_released w = true.
Proof.
  intros p xs. unfold run_gen. rewrite PylEquivIter.src_filterfalse_ok. exact (filterfalse_trace p xs).
Qed.
Print Assumptions filterfalse_source_trace.

Theorem starmap_source_trace : forall f xs,
  let '(o, w) := run_gen (run_genfn src_starmap [AFn (CUser 0 f); AIter 0]) (init_world [xs] None) in
  o = spec_starmap_end xs /\ no_closes (rev (log w)) = spec_starmap_trace f xs /\ all_released w = true.
Proof.
  intros f xs. unfold run_gen. rewrite PylEquivIter.src_starmap_ok. exact (starmap_trace f xs).
Qed.
Print Assumptions starmap_source_trace.

Theorem pairwise_source_trace : forall xs,
  let '(o, w) := run_gen (run_genfn src_pairwise [AIter 0]) (init_world [xs] None) in
  o = Ok tt /\ no_closes (rev (log w)) = spec_pairwise_trace xs /\ all_released w = true.
Proof.
  intros xs. unfold run_gen. rewrite PylEquivIter.src_pairwise_ok. exact (pairwise_trace xs).
Qed.
Print Assumptions pairwise_source_trace.

(* accumulate: the model theorem is the [_partial] one (domain hypothesis [accumulate_domain], copied
   verbatim), plus the empty-input TypeError. *)
Theorem accumulate_source_trace_partial : forall f initial xs, accumulate_domain initial xs = true ->
  let '(o, w) := run_gen (run_genfn src_accumulate [AIter 0; AFn (PylEquivIter.fn_arg_add f); AOpt initial])
                         (init_world [xs] None) in
  o = spec_accumulate_end f initial xs
  /\ no_closes (rev (log w)) = spec_accumulate_trace f initial xs
  /\ all_released w = true.
Proof.
  intros f initial xs Hd. unfold run_gen. rewrite PylEquivIter.src_accumulate_ok.
  exact (accumulate_trace_partial f initial xs Hd).
Qed.
Print Assumptions accumulate_source_trace_partial.

Theorem accumulate_source_empty_typeerror : forall f,
  let '(o, w) := run_gen (run_genfn src_accumulate [AIter 0; AFn (PylEquivIter.fn_arg_add f); AOpt None])
                         (init_world [[]] None) in
  o = Exn XTypeError
  /\ no_closes (rev (log w)) = spec_accumulate_trace f None []
  /\ all_released w = true.
Proof.
  intros f. unfold run_gen. rewrite PylEquivIter.src_accumulate_ok. exact (accumulate_empty_typeerror f).
Qed.
Print Assumptions accumulate_source_empty_typeerror.

Theorem islice_source_trace : forall start stop step xs, islice_domain start stop step = true ->
  let '(o, w) := run_gen (run_genfn src_islice
                            [AIter 0; AVal (VInt start);
                             AVal (match stop with None => VNone | Some s => VInt s end); AVal (VInt step)])
                         (init_world [xs] None) in
  o = Ok tt /\ no_closes (rev (log w)) = spec_islice_trace start stop step xs /\ all_released w = true.
Proof.
  intros start stop step xs Hd. unfold run_gen. rewrite PylEquivIter.src_islice_ok.
  exact (islice_trace start stop step xs Hd).
Qed.
Print Assumptions islice_source_trace.

Theorem compress_source_trace : forall data sels,
  let '(o, w) := run_gen (run_genfn src_compress [AIter 0; AIter 1]) (init_world [data; sels] None) in
  o = Ok tt /\ no_closes (rev (log w)) = spec_compress_trace data sels /\ all_released w = true.
Proof.
  intros data sels. unfold run_gen. rewrite PylEquivIter.src_compress_ok. exact (compress_trace data sels).
Qed.
Print Assumptions compress_source_trace.

(* batched: as for the model, the general statement is the [_partial] one (the trace up to the events
   [batched_missing]); it is exact when [strict] or the length is a multiple of [n]. *)
Theorem batched_source_trace_partial : forall n strict xs, (1 <=? n)%Z = true ->
  let '(o, w) := run_gen (run_genfn src_batched [AIter 0; AVal (VInt n); AVal (VBool strict)]) (init_world [xs] None) in
  o = spec_batched_end n strict xs
  /\ no_closes (rev (log w)) ++ batched_missing n strict xs = spec_batched_trace n strict xs
  /\ all_released w = true.
Proof.
  intros n strict xs Hn. unfold run_gen. rewrite PylEquivZip.src_batched_ok.
  exact (batched_trace_partial n strict xs Hn).
Qed.
Print Assumptions batched_source_trace_partial.

Theorem batched_source_trace_exact : forall n strict xs, (1 <=? n)%Z = true ->
  strict || Nat.eqb (length xs mod Z.to_nat n) 0 = true ->
  let '(o, w) := run_gen (run_genfn src_batched [AIter 0; AVal (VInt n); AVal (VBool strict)]) (init_world [xs] None) in
  o = spec_batched_end n strict xs
  /\ no_closes (rev (log w)) = spec_batched_trace n strict xs
  /\ all_released w = true.
Proof.
  intros n strict xs Hn Hex. unfold run_gen. rewrite PylEquivZip.src_batched_ok.
  exact (batched_trace_exact n strict xs Hn Hex).
Qed.
Print Assumptions batched_source_trace_exact.


(* chain: the class [chain] drives the generator [chain._chain_iterator] (translated) and adds the closing of the
   owned iterators around it ([chain_yield] / the [match] of [run_chain], hand-written: Model/Itertools.v).
   [run_chain_source] is [run_chain] with the generator replaced by the translated source. *)
Definition run_chain_source (ss : list nat) : M unit := fun w =>
  match run_genfn src_chain_iterator [AIters ss] (chain_yield ss) w with
  | (Exn XGenExit, w') => (Exn XGenExit, w')
  | (Exn e, w') => (close_all ss ;;; raise e) w'
  | r => r
  end.
Theorem chain_source_trace : forall xss,
  let '(o, w) := run_chain_source (seq 0 (length xss)) (init_world xss None) in
  o = Ok tt /\ no_closes (rev (log w)) = spec_chain_trace xss /\ all_released w = true.
Proof.
  intros xss. unfold run_chain_source. rewrite PylEquivChain.src_chain_iterator_ok. exact (chain_trace xss).
Qed.
Print Assumptions chain_source_trace.

(* cycle: the translated [while True] takes its fuel from the world, the model [a_cycle passes] takes the number
   of replays as a parameter; every run of the source is the run of the model for some [passes]
   (PylEquivChain.a_cycle_wf_passes), and [cycle_trace] holds for all of them. *)
Theorem cycle_source_trace : forall xs, exists passes,
  let '(o, w) := run_gen (run_genfn src_cycle [AIter 0]) (init_world [xs] None) in
  o = spec_cycle_end xs /\ no_closes (rev (log w)) = spec_cycle_trace passes xs /\ all_released w = true.
Proof.
  intros xs. destruct (PylEquivChain.a_cycle_wf_passes yield_to (init_world [xs] None)) as [passes Hp].
  exists passes. unfold run_gen. rewrite PylEquivChain.src_cycle_ok, Hp. exact (cycle_trace passes xs).
Qed.
Print Assumptions cycle_source_trace.
