(* Further step lemmas shared by the itertools proofs: the exhausted single-source world,
   closing a single source in any state, and the final bookkeeping of a scoped generator. *)
From Coq Require Import List ZArith NArith Bool Arith Lia.
Import ListNotations.
Require Import V.Kernel.Values V.Kernel.Monad V.Model.Builtins V.Proofs.Steps.

(* the single source after it signalled its end *)
Definition WE (lg : list event) (u : nat) : world := W [mkSrc [] true 0 0 true] lg u.
(* the single source in any not-yet-closed state *)
Definition WS (l : list val) (e : bool) (lg : list event) (u : nat) : world := W [mkSrc l e 0 0 true] lg u.

Lemma W1_WS xs lg u : W1 xs lg u = WS xs false lg u. Proof. reflexivity. Qed.
Lemma WE_WS lg u : WE lg u = WS [] true lg u. Proof. reflexivity. Qed.

Lemma bind_pull1_end' {B} (k : option val -> M B) lg u :
  bind (pull 0) k (W1 [] lg u) = k None (WE (EEnd 0 :: EPull 0 :: lg) (S u)).
Proof. reflexivity. Qed.
Lemma bind_pullE {B} (k : option val -> M B) lg u :
  bind (pull 0) k (WE lg u) = k None (WE (EEnd 0 :: EPull 0 :: lg) (S u)).
Proof. reflexivity. Qed.
Lemma bind_yieldE {B} v (k : unit -> M B) lg u :
  bind (yield_to v) k (WE lg u) = k tt (WE (EYield v :: lg) (S u)).
Proof. reflexivity. Qed.
Lemma bind_callE {B} f impl args (k : val -> M B) lg u :
  bind (call f impl args) k (WE lg u) = k (impl args) (WE (ECall f args :: lg) (S u)).
Proof. reflexivity. Qed.
Lemma yieldE_ok v lg u : yield_to v (WE lg u) = (Ok tt, WE (EYield v :: lg) (S u)).
Proof. reflexivity. Qed.
Lemma items_leftE lg u : items_left 0 (WE lg u) = 0.
Proof. reflexivity. Qed.
Lemma total_left1 xs lg u : total_left (W1 xs lg u) = length xs.
Proof. unfold total_left, W1, W; cbn. lia. Qed.

Ltac mstep' :=
  repeat first
    [ rewrite bind_assoc | rewrite bind_ret | rewrite bind_raise
    | rewrite bind_call1 | rewrite bind_yield1 | rewrite bind_pull1_item | rewrite bind_pull1_end'
    | rewrite bind_pullE | rewrite bind_yieldE | rewrite bind_callE
    | rewrite bind_call | rewrite bind_yield | rewrite bind_emit ].

(* scoped body over the single source, left in any state *)
Lemma scoped1_any {A} (body : M A) w (o : outcome A) l e lg u :
  body w = (o, WS l e lg u) -> o <> Fuel ->
  scoped 0 body w = (o, W [mkSrc l e 1 1 true] (EClose 0 :: lg) (S u)).
Proof. intros H Ho. unfold scoped, finally. rewrite H. destruct o; try reflexivity; congruence. Qed.

(* "contains no close event", as a boolean *)
Definition nc (l : list event) : bool := forallb (fun e => negb (is_close e)) l.
Lemma nc_app l1 l2 : nc (l1 ++ l2) = nc l1 && nc l2.
Proof. apply forallb_app. Qed.
Lemma nc_no_closes l : nc l = true -> no_closes l = l.
Proof.
  intros H. apply no_closes_id. intros e He. unfold nc in H. rewrite forallb_forall in H.
  specialize (H e He). destruct (is_close e); [discriminate|reflexivity].
Qed.

Lemma final_log t : nc t = true -> no_closes (rev (EClose 0 :: rev t)) = t.
Proof.
  intros H. cbn [rev]. rewrite rev_involutive, no_closes_app. cbn. rewrite app_nil_r.
  apply nc_no_closes, H.
Qed.

(* a generator [scoped 0 body] whose body leaves the log [rev t] *)
Lemma finish_scoped (body : M unit) xs (o : outcome unit) l e t u :
  body (W1 xs [] 0) = (o, WS l e (rev t) u) -> o <> Fuel -> nc t = true ->
  let '(o', w) := scoped 0 body (init_world [xs] None) in
  o' = o /\ no_closes (rev (log w)) = t /\ all_released w = true.
Proof.
  intros H Ho Ht. rewrite init_world1. rewrite (scoped1_any _ _ _ _ _ _ _ H Ho).
  split; [reflexivity|]. split.
  - cbn [log W]. apply final_log, Ht.
  - cbn. destruct e; reflexivity.
Qed.

(* equality of two logs up to reassociation of [rev]/[++] *)
Ltac logeq :=
  cbn [app rev]; rewrite ?rev_app_distr; cbn [app rev]; rewrite <- ?app_assoc; cbn [app]; reflexivity.

Lemma yields_cons e l :
  yields (e :: l) = match e with EYield v => v :: yields l | _ => yields l end.
Proof. destruct e; reflexivity. Qed.
Lemma yields_nil : yields [] = []. Proof. reflexivity. Qed.
(* compute [yields] of an explicit prefix without unfolding it on the opaque tail *)
Ltac yields_step := rewrite ?yields_app; repeat (rewrite yields_cons; cbv iota); rewrite ?yields_nil; cbn [app].
