(* itertools.zip_longest over n sources (any n). *)
From Coq Require Import List ZArith NArith Bool Arith Lia.
Import ListNotations.
Require Import V.Kernel.Values V.Kernel.Monad V.Model.Builtins V.Model.Itertools V.Proofs.Steps V.Std.Multi
               V.Proofs.MultiSteps.

(* ---------- one step of a row ---------- *)
Lemma step_none pos r d v f rem w :
  longest_row_st pos (None :: r) d v f rem w = longest_row_st (S pos) r (d ++ [None]) (v ++ [f]) f rem w.
Proof. reflexivity. Qed.
Lemma step_item pre post p x l lg u pos r d v f rem : length pre = p ->
  longest_row_st pos (Some p :: r) d v f rem (W (pre ++ fs (x :: l) :: post) lg u)
  = longest_row_st (S pos) r (d ++ [Some p]) (v ++ [x]) f rem
      (W (pre ++ fs l :: post) (EItem p x :: EPull p :: lg) (S u)).
Proof. intros Hp. cbn [longest_row_st]. rewrite (pull_mid_item pre post p x l lg u Hp). reflexivity. Qed.
Lemma step_end_go pre post p lg u pos r d v f k : length pre = p ->
  longest_row_st pos (Some p :: r) d v f (S (S k)) (W (pre ++ fs [] :: post) lg u)
  = longest_row_st (S pos) r (d ++ [None]) (v ++ [f]) f (S k)
      (W (pre ++ es :: post) (EEnd p :: EPull p :: lg) (S u)).
Proof. intros Hp. cbn [longest_row_st]. rewrite (pull_mid_end pre post p lg u Hp). reflexivity. Qed.
Lemma step_end_stop pre post p lg u pos r d v f : length pre = p ->
  longest_row_st pos (Some p :: r) d v f 1 (W (pre ++ fs [] :: post) lg u)
  = ((Ok (false, v, 0), W (pre ++ es :: post) (EEnd p :: EPull p :: lg) (S u)), d ++ Some p :: r).
Proof. intros Hp. cbn [longest_row_st]. rewrite (pull_mid_end pre post p lg u Hp). reflexivity. Qed.

(* ---------- the state at the start of row j ---------- *)
Definition cnt (j : nat) (yss : list (list val)) : nat := length (filter (fun l => j <=? length l) yss).
Definition slot_at (j i : nat) (l : list val) : option nat := if j <=? length l then Some i else None.
Fixpoint slots_at (j p : nat) (yss : list (list val)) : list (option nat) :=
  match yss with
  | [] => []
  | l :: r => slot_at j p l :: slots_at j (S p) r
  end.
Definition src_at (j : nat) (l : list val) : src := if j <=? length l then fs (skipn j l) else es.

Lemma cnt_cons j l r : cnt j (l :: r) = (if j <=? length l then 1 else 0) + cnt j r.
Proof. unfold cnt. cbn [filter]. destruct (j <=? length l); reflexivity. Qed.
Lemma cnt_mono j : forall r, cnt (S j) r <= cnt j r.
Proof.
  induction r as [|l r IH]; [reflexivity|]. rewrite !cnt_cons.
  destruct (Nat.leb_spec (S j) (length l)), (Nat.leb_spec j (length l)); lia.
Qed.

(* the three kinds of cell *)
Lemma cell_lt j (l : list val) : j < length l ->
  (j <=? length l) = true /\ (S j <=? length l) = true /\ (j ?= length l) = Lt
  /\ skipn j l = nth j l VNone :: skipn (S j) l.
Proof.
  intros H. repeat split; try (apply Nat.leb_le; lia). - apply Nat.compare_lt_iff; exact H.
  - revert j H. induction l as [|a l IH]; intros [|j] H; simpl in H; try lia; [reflexivity|].
    cbn [skipn nth]. apply IH. lia.
Qed.
Lemma cell_eq j (l : list val) : j = length l ->
  (j <=? length l) = true /\ (S j <=? length l) = false /\ (j ?= length l) = Eq /\ skipn j l = [].
Proof.
  intros ->. repeat split; [apply Nat.leb_le; lia | apply Nat.leb_gt; lia | apply Nat.compare_refl | apply skipn_all].
Qed.
Lemma cell_gt j (l : list val) : length l < j ->
  (j <=? length l) = false /\ (S j <=? length l) = false /\ (j ?= length l) = Gt.
Proof. intros H. repeat split; try (apply Nat.leb_gt; lia). apply Nat.compare_gt_iff; exact H. Qed.

Lemma app_one {A} (pre : list A) s post : pre ++ s :: post = (pre ++ [s]) ++ post.
Proof. rewrite <- app_assoc. reflexivity. Qed.
Lemma len_app_one {A} (pre : list A) s p : length pre = p -> length (pre ++ [s]) = S p.
Proof. intros <-. rewrite app_length. simpl. lia. Qed.

(* ---------- a row that completes: some source is longer than j ---------- *)
Lemma row_goes fillv j : forall yss pre p pos done_ vals c lg u,
  length pre = p -> 1 <= c + cnt (S j) yss -> exists u',
  longest_row_st pos (slots_at j p yss) done_ vals fillv (c + cnt j yss) (W (pre ++ map (src_at j) yss) lg u)
  = ((Ok (true, vals ++ column fillv j yss, c + cnt (S j) yss),
      W (pre ++ map (src_at (S j)) yss) (rev (zl_cells j p yss) ++ lg) u'),
     done_ ++ slots_at (S j) p yss).
Proof.
  induction yss as [|l r IH]; intros pre p pos done_ vals c lg u Hp Hc.
  - exists u. cbn. rewrite !app_nil_r, !Nat.add_0_r. reflexivity.
  - cbn [slots_at map zl_cells]. unfold slot_at at 1 2, src_at at 1 3, zl_cell at 1.
    unfold column. cbn [map]. fold (column fillv j r).
    rewrite (cnt_cons j), (cnt_cons (S j)). rewrite (cnt_cons (S j)) in Hc.
    destruct (Nat.lt_total j (length l)) as [Hlt|[Heq|Hgt]].
    + destruct (cell_lt j l Hlt) as (-> & H2 & -> & ->). rewrite H2 in Hc |- *.
      rewrite (step_item pre _ p _ _ lg u pos _ done_ vals fillv _ Hp).
      destruct (IH (pre ++ [fs (skipn (S j) l)]) (S p) (S pos) (done_ ++ [Some p]) (vals ++ [nth j l VNone])
                  (S c) (EItem p (nth j l VNone) :: EPull p :: lg) (S u) (len_app_one _ _ _ Hp) ltac:(lia))
        as [u' Hr].
      rewrite <- !app_one in Hr. exists u'.
      replace (c + (1 + cnt j r)) with (S c + cnt j r) by lia. rewrite Hr.
      rewrite (nth_indep l fillv VNone Hlt).
      replace (c + (1 + cnt (S j) r)) with (S c + cnt (S j) r) by lia.
      rewrite rev_app_distr, <- !app_assoc. reflexivity.
    + destruct (cell_eq j l Heq) as (-> & H2 & -> & ->). rewrite H2 in Hc |- *.
      pose proof (cnt_mono j r) as Hm.
      replace (c + (1 + cnt j r)) with (S (c + cnt j r)) by lia.
      destruct (c + cnt j r) as [|k] eqn:Hk; [lia|].
      rewrite (step_end_go pre _ p lg u pos _ done_ vals fillv k Hp). rewrite <- Hk.
      destruct (IH (pre ++ [es]) (S p) (S pos) (done_ ++ [None]) (vals ++ [fillv])
                  c (EEnd p :: EPull p :: lg) (S u) (len_app_one _ _ _ Hp) ltac:(lia))
        as [u' Hr].
      rewrite <- !app_one in Hr. exists u'. rewrite Hr.
      rewrite (nth_overflow l fillv) by lia.
      rewrite rev_app_distr, <- !app_assoc. reflexivity.
    + destruct (cell_gt j l Hgt) as (-> & H2 & ->). rewrite H2 in Hc |- *.
      rewrite step_none.
      destruct (IH (pre ++ [es]) (S p) (S pos) (done_ ++ [None]) (vals ++ [fillv])
                  c lg u (len_app_one _ _ _ Hp) ltac:(lia))
        as [u' Hr].
      rewrite <- !app_one in Hr. exists u'. cbn [Nat.add]. rewrite Hr.
      rewrite (nth_overflow l fillv) by lia. reflexivity.
Qed.

(* ---------- the last row: no source is longer than j, at least one has exactly j items ---------- *)
Definition exh (s : src) : Prop := s_exh s = true.

Lemma none_left j : forall r p, cnt j r = 0 -> zl_cells j p r = [] /\ Forall exh (map (src_at j) r).
Proof.
  induction r as [|l r IH]; intros p H; [split; [reflexivity|constructor]|].
  rewrite cnt_cons in H. destruct (Nat.leb_spec j (length l)) as [Hle|Hgt]; [lia|].
  destruct (IH (S p) ltac:(lia)) as [H1 H2].
  destruct (cell_gt j l Hgt) as (Hb & _ & Hcmp).
  cbn [zl_cells map]. unfold zl_cell, src_at at 1. rewrite Hb, Hcmp, H1. split; [reflexivity|].
  constructor; [reflexivity|exact H2].
Qed.

Lemma row_stops fillv j : forall yss pre p pos done_ vals lg u,
  length pre = p -> forallb (fun l => length l <=? j) yss = true -> 1 <= cnt j yss ->
  exists vals' ss' sl u',
  longest_row_st pos (slots_at j p yss) done_ vals fillv (cnt j yss) (W (pre ++ map (src_at j) yss) lg u)
  = ((Ok (false, vals', 0), W (pre ++ ss') (rev (zl_cells j p yss) ++ lg) u'), sl)
  /\ Forall exh ss'.
Proof.
  induction yss as [|l r IH]; intros pre p pos done_ vals lg u Hp Hall Hc.
  - cbn in Hc. lia.
  - cbn [forallb] in Hall. apply andb_prop in Hall. destruct Hall as [Hl Hall]. apply Nat.leb_le in Hl.
    cbn [slots_at map zl_cells]. unfold slot_at at 1, src_at at 1, zl_cell at 1.
    rewrite cnt_cons in Hc |- *.
    destruct (Nat.eq_dec j (length l)) as [Heq|Hne].
    + destruct (cell_eq j l Heq) as (Hb & _ & -> & ->). rewrite Hb in Hc |- *.
      destruct (cnt j r) as [|k] eqn:Hk.
      * destruct (none_left j r (S p) Hk) as [Hcells Hex].
        rewrite (step_end_stop pre _ p lg u pos _ done_ vals fillv Hp).
        exists vals, (es :: map (src_at j) r), (done_ ++ Some p :: slots_at j (S p) r), (S u).
        split; [|constructor; [reflexivity|exact Hex]].
        rewrite Hcells. reflexivity.
      * cbn [Nat.add].
        rewrite (step_end_go pre _ p lg u pos _ done_ vals fillv k Hp).
        destruct (IH (pre ++ [es]) (S p) (S pos) (done_ ++ [None]) (vals ++ [fillv])
                    (EEnd p :: EPull p :: lg) (S u) (len_app_one _ _ _ Hp) Hall ltac:(lia))
          as (vals' & ss' & sl & u' & Hr & Hex).
        rewrite <- !app_one in Hr. exists vals', (es :: ss'), sl, u'.
        split; [|constructor; [reflexivity|exact Hex]].
        rewrite Hr. rewrite rev_app_distr, <- !app_assoc. reflexivity.
    + destruct (cell_gt j l ltac:(lia)) as (Hb & _ & ->). rewrite Hb in Hc |- *. cbn [Nat.add] in Hc |- *.
      rewrite step_none.
      destruct (IH (pre ++ [es]) (S p) (S pos) (done_ ++ [None]) (vals ++ [fillv])
                  lg u (len_app_one _ _ _ Hp) Hall Hc)
        as (vals' & ss' & sl & u' & Hr & Hex).
      rewrite <- !app_one in Hr. exists vals', (es :: ss'), sl, u'.
      split; [|constructor; [reflexivity|exact Hex]].
      rewrite Hr. reflexivity.
Qed.

(* ---------- facts about max_len ---------- *)
Lemma max_len_bound : forall xss, forallb (fun l : list val => length l <=? max_len xss) xss = true.
Proof.
  induction xss as [|l r IH]; [reflexivity|]. cbn [forallb max_len fold_right]. fold (max_len r).
  apply andb_true_intro. split; [apply Nat.leb_le; lia|].
  rewrite forallb_forall in IH |- *. intros x Hx. specialize (IH x Hx). apply Nat.leb_le in IH. apply Nat.leb_le. lia.
Qed.
Lemma cnt_below_max : forall xss j, j < max_len xss -> 1 <= cnt (S j) xss.
Proof.
  induction xss as [|l r IH]; intros j H; [cbn in H; lia|].
  cbn [max_len fold_right] in H. fold (max_len r) in H. rewrite cnt_cons.
  destruct (Nat.leb_spec (S j) (length l)); [lia|]. specialize (IH j ltac:(lia)). lia.
Qed.
Lemma cnt_at_max : forall xss, xss <> [] -> 1 <= cnt (max_len xss) xss.
Proof.
  induction xss as [|l r IH]; intros H; [congruence|].
  cbn [max_len fold_right]. fold (max_len r). rewrite cnt_cons.
  destruct (Nat.leb_spec (Nat.max (length l) (max_len r)) (length l)) as [Hle|Hgt]; [lia|].
  destruct r as [|l' r']; [cbn in Hgt; lia|].
  specialize (IH ltac:(discriminate)).
  replace (Nat.max (length l) (max_len (l' :: r'))) with (max_len (l' :: r')) by lia. lia.
Qed.
Lemma max_len_total : forall xss lg u, max_len xss <= total_left (W (map fs xss) lg u).
Proof.
  induction xss as [|l r IH]; intros lg u; [cbn; lia|].
  specialize (IH lg u). unfold total_left in *. cbn [srcs W map fold_right max_len s_items fs] in *.
  fold (max_len r). lia.
Qed.

(* ---------- the loop ---------- *)
Definition zl_row_trace (fillv : val) (xss : list (list val)) (j : nat) : list event :=
  zl_cells j 0 xss ++ [EYield (VTup (column fillv j xss))].

Lemma longest_loop_S f slots fillv rem y w :
  longest_loop_st (S f) slots fillv rem y w
  = match longest_row_st 0 slots [] [] fillv rem w with
    | ((Ok (true, vs, rem'), w1), sl) =>
        match y (VTup vs) w1 with
        | (Ok _, w2) => longest_loop_st f sl fillv rem' y w2
        | (Exn e, w2) => ((Exn e, w2), sl)
        | (Fuel, w2) => ((Fuel, w2), sl)
        end
    | ((Ok (false, _, _), w1), sl) => ((Ok tt, w1), sl)
    | ((Exn e, w1), sl) => ((Exn e, w1), sl)
    | ((Fuel, w1), sl) => ((Fuel, w1), sl)
    end.
Proof. reflexivity. Qed.

Lemma loop_spec fillv xss : xss <> [] -> forall k j fuel lg u, j + k = max_len xss -> k < fuel ->
  exists ss' sl u',
  longest_loop_st fuel (slots_at j 0 xss) fillv (cnt j xss) yield_to (W (map (src_at j) xss) lg u)
  = ((Ok tt, W ss' (rev (flat_map (zl_row_trace fillv xss) (seq j k) ++ zl_cells (max_len xss) 0 xss) ++ lg) u'), sl)
  /\ Forall exh ss'.
Proof.
  intros Hne. induction k as [|k IH]; intros j fuel lg u Hj Hf; destruct fuel as [|fuel]; try lia.
  - rewrite Nat.add_0_r in Hj. subst j.
    destruct (row_stops fillv (max_len xss) xss [] 0 0 [] [] lg u eq_refl (max_len_bound xss) (cnt_at_max xss Hne))
      as (vals' & ss' & sl & u' & Hr & Hex).
    cbn [app] in Hr. rewrite longest_loop_S, Hr.
    exists ss', sl, u'. split; [reflexivity|exact Hex].
  - destruct (row_goes fillv j xss [] 0 0 [] [] 0 lg u eq_refl (cnt_below_max xss j ltac:(lia))) as [u1 Hr].
    cbn [app Nat.add] in Hr. rewrite longest_loop_S, Hr. rewrite yield_ok.
    destruct (IH (S j) fuel (EYield (VTup (column fillv j xss)) :: rev (zl_cells j 0 xss) ++ lg) (S u1)
                ltac:(lia) ltac:(lia)) as (ss' & sl & u' & Hl & Hex).
    exists ss', sl, u'. split; [|exact Hex]. rewrite Hl.
    cbn [seq flat_map]. unfold zl_row_trace at 2.
    rewrite <- !app_assoc. rewrite (rev_app_distr (zl_cells j 0 xss)).
    rewrite (rev_app_distr [EYield (VTup (column fillv j xss))]). rewrite <- !app_assoc. reflexivity.
Qed.

(* ---------- closing keeps exhausted sources exhausted ---------- *)
Lemma exh_nth ss i : Forall exh ss -> s_exh (nth i ss dead_src) = true.
Proof.
  intros H. revert i. induction H as [|s ss Hs H IH]; intros [|i]; try reflexivity; [exact Hs|apply IH].
Qed.
Lemma exh_upd ss i s : Forall exh ss -> exh s -> Forall exh (upd i s ss).
Proof.
  intros H Hs. revert i. induction H as [|a ss Ha H IH]; intros [|i]; cbn [upd]; constructor; auto.
Qed.
Lemma close_exh i ss lg u : Forall exh ss -> exists ss' cl u',
  close i (W ss lg u) = (Ok tt, W ss' (cl ++ lg) u') /\ only_closes cl /\ Forall exh ss'.
Proof.
  intros H. pose proof (exh_nth ss i H) as He.
  destruct (nth i ss dead_src) as [l e c d a] eqn:Hn. cbn in He. subst e. destruct a.
  - exists (upd i (mkSrc l true (S c) (S d) true) ss), [EClose i], (S u). split; [|split].
    + unfold close, bind, emit, use, get_src, set_src, ret, W; cbn. rewrite Hn; cbn. rewrite upd_upd. reflexivity.
    + apply only_closes_one.
    + apply exh_upd; [exact H|reflexivity].
  - exists ss, [], u. split; [|split; [apply only_closes_nil|exact H]].
    unfold close, bind, get_src. cbn. rewrite Hn. reflexivity.
Qed.
Lemma close_all_exh : forall l ss lg u, Forall exh ss -> exists ss' cl u',
  close_all l (W ss lg u) = (Ok tt, W ss' (cl ++ lg) u') /\ only_closes cl /\ Forall exh ss'.
Proof.
  induction l as [|i l IH]; intros ss lg u H.
  - exists ss, [], u. split; [reflexivity|split; [apply only_closes_nil|exact H]].
  - destruct (close_exh i ss lg u H) as (ss1 & cl1 & u1 & Hc1 & Ho1 & H1).
    destruct (IH ss1 (cl1 ++ lg) u1 H1) as (ss2 & cl2 & u2 & Hc2 & Ho2 & H2).
    exists ss2, (cl2 ++ cl1), u2. split; [|split; [apply only_closes_app; assumption|exact H2]].
    cbn [close_all]. erewrite finally_ok; [ | exact Hc1 | discriminate | exact Hc2 ].
    rewrite <- app_assoc. reflexivity.
Qed.
Lemma exh_released ss : Forall exh ss -> forallb released ss = true.
Proof.
  intros H. induction H as [|s ss Hs H IH]; [reflexivity|]. cbn [forallb]. rewrite IH.
  unfold released. unfold exh in Hs. rewrite Hs. reflexivity.
Qed.

(* ---------- the state at row 0 is the initial state ---------- *)
Lemma slots_at_0 : forall xss p, slots_at 0 p xss = map Some (seq p (length xss)).
Proof. induction xss as [|l r IH]; intros p; [reflexivity|]. cbn [slots_at length seq map]. rewrite IH. reflexivity. Qed.
Lemma src_at_0 xss : map (src_at 0) xss = map fs xss.
Proof. apply map_ext. intros l. reflexivity. Qed.
Lemma cnt_0 xss : cnt 0 xss = length xss.
Proof. unfold cnt. induction xss as [|l r IH]; [reflexivity|]. cbn [filter]. change (0 <=? length l) with true. cbn [length]. rewrite IH. reflexivity. Qed.

Lemma zl_cells_close_free j : forall xss p, close_free (zl_cells j p xss) = true.
Proof.
  induction xss as [|l r IH]; intros p; [reflexivity|]. cbn [zl_cells]. rewrite close_free_app, IH.
  unfold zl_cell. destruct (j ?= length l); reflexivity.
Qed.
Lemma zl_trace_close_free xss fillv : close_free (spec_zip_longest_trace xss fillv) = true.
Proof.
  destruct xss as [|l0 r0]; [reflexivity|]. unfold spec_zip_longest_trace.
  rewrite close_free_app, zl_cells_close_free, andb_true_r.
  induction (seq 0 (max_len (l0 :: r0))) as [|j js IH]; [reflexivity|].
  cbn [flat_map]. rewrite !close_free_app, zl_cells_close_free, IH. reflexivity.
Qed.

Theorem zip_longest_trace : forall xss fillv,
  let '(o, w) := run_gen (a_zip_longest (seq 0 (length xss)) fillv) (init_world xss None) in
  o = Ok tt /\ no_closes (rev (log w)) = spec_zip_longest_trace xss fillv /\ all_released w = true.
Proof.
  intros xss fillv. destruct xss as [|l0 r0]; [cbn; repeat split; reflexivity|].
  set (xss := l0 :: r0). assert (Hne : xss <> []) by discriminate.
  rewrite init_worldN. unfold run_gen.
  assert (Hfuel : max_len xss < S (total_left (W (map fs xss) [] 0))) by (pose proof (max_len_total xss [] 0); lia).
  destruct (loop_spec fillv xss Hne (max_len xss) 0 _ [] 0 eq_refl Hfuel) as (ss' & sl & u' & Hl & Hex).
  rewrite slots_at_0, cnt_0 in Hl. change (map (src_at 0) xss) with (map fs xss) in Hl.
  destruct (close_all_exh (live_slots sl) ss'
              (rev (flat_map (zl_row_trace fillv xss) (seq 0 (max_len xss)) ++ zl_cells (max_len xss) 0 xss) ++ [])
              u' Hex) as (ss2 & cl & u2 & Hc & Hcl & Hex2).
  change (a_zip_longest (seq 0 (length xss)) fillv yield_to (W (map fs xss) [] 0))
    with (let '((o, w1), sl) := longest_loop_st (S (total_left (W (map fs xss) [] 0))) (map Some (seq 0 (length xss)))
                                   fillv (length (seq 0 (length xss))) yield_to (W (map fs xss) [] 0) in
          match o with
          | Fuel => (Fuel, w1)
          | _ => match close_all (live_slots sl) w1 with
                 | (Ok _, w2) => (o, w2)
                 | (Exn e, w2) => (Exn e, w2)
                 | (Fuel, w2) => (Fuel, w2)
                 end
          end).
  rewrite seq_length, Hl. cbv beta iota. rewrite Hc.
  split; [reflexivity|]. split.
  - cbn [log W]. apply no_closes_log; [exact Hcl|]. apply (zl_trace_close_free xss fillv).
  - unfold all_released. cbn [srcs W]. apply exh_released. exact Hex2.
Qed.

Lemma yields_cells j : forall xss p, yields (zl_cells j p xss) = [].
Proof.
  induction xss as [|l r IH]; intros p; [reflexivity|]. cbn [zl_cells]. rewrite yields_app, IH.
  unfold zl_cell. destruct (j ?= length l); reflexivity.
Qed.

Corollary zip_longest_yields : forall xss fillv,
  yields (spec_zip_longest_trace xss fillv) = spec_zip_longest xss fillv.
Proof.
  intros xss fillv. destruct xss as [|l0 r0]; [reflexivity|].
  unfold spec_zip_longest_trace, spec_zip_longest. rewrite yields_app, yields_cells, app_nil_r.
  induction (seq 0 (max_len (l0 :: r0))) as [|j js IH]; [reflexivity|].
  cbn [flat_map map]. rewrite !yields_app, yields_cells, IH. reflexivity.
Qed.

Example zip_longest_example :
  spec_zip_longest_trace [[VInt 1]; [VInt 2; VInt 3]; []] (VInt 0)
  = [EPull 0; EItem 0 (VInt 1); EPull 1; EItem 1 (VInt 2); EPull 2; EEnd 2;
     EYield (VTup [VInt 1; VInt 2; VInt 0]);
     EPull 0; EEnd 0; EPull 1; EItem 1 (VInt 3); EYield (VTup [VInt 0; VInt 3; VInt 0]);
     EPull 1; EEnd 1]
  /\ spec_zip_longest [[VInt 1]; [VInt 2; VInt 3]; []] (VInt 0)
     = [VTup [VInt 1; VInt 2; VInt 0]; VTup [VInt 0; VInt 3; VInt 0]].
Proof. split; reflexivity. Qed.

Print Assumptions zip_longest_trace.
Print Assumptions zip_longest_yields.
