(* map(f, *xss) over n >= 1 sources. *)
From Coq Require Import List ZArith NArith Bool Arith Lia.
Import ListNotations.
Require Import V.Kernel.Values V.Kernel.Monad V.Model.Builtins V.Proofs.Steps V.Std.Multi
               V.Proofs.MultiSteps V.Proofs.Rows.

Definition map_consumer (f : list val -> val) : val -> M unit :=
  fun t => match t with
           | VTup xs => r <- call 0 f xs ;; yield_to r
           | _ => ret tt
           end.
Lemma map_consumer_rows f : yield_ok_with (map_consumer f) (fun row => [ECall 0 row; EYield (f row)]).
Proof. intros row ss lg u. exists (S (S u)). reflexivity. Qed.

(* Domain: at least one iterable (CPython's map(f) with no iterable is a TypeError at call time). *)
Theorem map_trace : forall f xss, (1 <=? length xss) = true ->
  let '(o, w) := run_gen (a_map f (seq 0 (length xss))) (init_world xss None) in
  o = Ok tt /\ no_closes (rev (log w)) = spec_map_trace f xss /\ all_released w = true.
Proof.
  intros f [|xs rest] Hn; [discriminate|].
  unfold run_gen, a_map. fold (map_consumer f).
  pose proof (a_zip_rows false (map_consumer f) (fun row => [ECall 0 row; EYield (f row)])
                (map_consumer_rows f) (fun _ => eq_refl) xs rest) as H.
  destruct (a_zip false (seq 0 (length (xs :: rest))) (map_consumer f) (init_world (xs :: rest) None)) as [o w].
  destruct H as (Ho & Htr & Hrel). rewrite rows_end_nonstrict in Ho. repeat split; assumption.
Qed.

Corollary map_yields : forall f xss, yields (spec_map_trace f xss) = spec_map f xss.
Proof.
  intros f [|xs rest]; [reflexivity|].
  unfold spec_map_trace, spec_map. rewrite rows_yields.
  apply (flat_map_single (fun j => f (column VNone j (xs :: rest)))).
Qed.

Example map_domain_example : (1 <=? length [[VInt 1; VInt 2]; [VInt 3]]) = true.
Proof. reflexivity. Qed.
Example map_example :
  spec_map_trace (fun a => VTup a) [[VInt 1; VInt 2]; [VInt 3]]
  = [EPull 0; EItem 0 (VInt 1); EPull 1; EItem 1 (VInt 3); ECall 0 [VInt 1; VInt 3];
     EYield (VTup [VInt 1; VInt 3]); EPull 0; EItem 0 (VInt 2); EPull 1; EEnd 1].
Proof. reflexivity. Qed.

Print Assumptions map_trace.
Print Assumptions map_yields.
