(* The specification [spec_merge] of heapq.merge is a permutation of the inputs, and sorted
   whenever every input is sorted (in the requested direction). *)
From Coq Require Import List ZArith NArith Bool Arith Lia Permutation Sorted.
Import ListNotations.
Require Import V.Kernel.Values V.Std.Heapq V.Proofs.Merge.

(* rank: ascending in the output *)
Definition mrank (rev : bool) (key : option (list val -> val)) (x : val) : Z :=
  if rev then (- zkey key x)%Z else zkey key x.
Definition mle (rev : bool) (key : option (list val -> val)) (a b : val) : Prop := (mrank rev key a <= mrank rev key b)%Z.

Lemma merge_first_rank rev key a b : merge_first rev key a b = (mrank rev key a <? mrank rev key b)%Z.
Proof.
  unfold merge_first, mrank. destruct rev; [|reflexivity].
  destruct (Z.ltb_spec (zkey key b) (zkey key a)), (Z.ltb_spec (- zkey key a) (- zkey key b)); try reflexivity; lia.
Qed.

Lemma perm_pop : forall ls i x t, nth i ls [] = x :: t -> Permutation (concat ls) (x :: concat (pop i ls)).
Proof.
  induction ls as [|l r IH]; intros [|i] x t H; cbn in H; try discriminate.
  - subst l. reflexivity.
  - cbn [pop concat]. rewrite (IH i x t H). symmetry. apply Permutation_middle.
Qed.
Lemma best_src_none first : forall ls j, best_src first j ls = None -> concat ls = [].
Proof.
  induction ls as [|l r IH]; intros j H; [reflexivity|]. destruct l; [|discriminate]. cbn in *. eapply IH; exact H.
Qed.
Lemma merge_fuel_perm first : forall fuel ls, (length (concat ls) <= fuel)%nat -> Permutation (merge_fuel fuel first ls) (concat ls).
Proof.
  induction fuel as [|f IH]; intros ls Hf.
  - destruct (concat ls); [constructor | cbn in Hf; lia].
  - cbn [merge_fuel]. destruct (best_src first 0 ls) as [[i x]|] eqn:Hb.
    + destruct (best_src_nth first ls 0 i x Hb) as (p & t & Hp & Hn). cbn [plus] in Hp. subst p.
      rewrite (perm_pop ls i x t Hn). constructor. apply IH. rewrite (concat_pop_length ls i x t Hn) in Hf. lia.
    + rewrite (best_src_none first ls 0 Hb). constructor.
Qed.
Theorem spec_merge_perm : forall key rev ls, Permutation (spec_merge key rev ls) (concat ls).
Proof. intros. apply merge_fuel_perm. lia. Qed.

(* the picked head is least among the heads *)
Lemma best_from_least rev key : forall ls j best,
  mle rev key (snd (best_from (merge_first rev key) best j ls)) (snd best) /\
  Forall (fun l => match l with [] => True | y :: _ => mle rev key (snd (best_from (merge_first rev key) best j ls)) y end) ls.
Proof.
  unfold mle. induction ls as [|l r IH]; intros j best; [cbn [best_from]; split; [lia | constructor]|]. destruct l as [|y t]; cbn [best_from].
  - destruct (IH (S j) best) as [H1 H2]. split; [exact H1|]. constructor; [exact I | exact H2].
  - rewrite merge_first_rank. destruct (Z.ltb_spec (mrank rev key y) (mrank rev key (snd best))) as [H|H].
    + destruct (IH (S j) (j, y)) as [H1 H2]. cbn [snd] in H1. split; [lia|]. constructor; [exact H1 | exact H2].
    + destruct (IH (S j) best) as [H1 H2]. split; [exact H1|]. constructor; [lia | exact H2].
Qed.
Lemma best_src_least rev key : forall ls j i x, best_src (merge_first rev key) j ls = Some (i, x) ->
  Forall (fun l => match l with [] => True | y :: _ => mle rev key x y end) ls.
Proof.
  induction ls as [|l r IH]; intros j i x H; [constructor|]. destruct l as [|y t]; cbn [best_src] in H.
  - constructor; [exact I|]. eapply IH; exact H.
  - injection H as H. destruct (best_from_least rev key r (S j) (j, y)) as [H1 H2]. rewrite H in H1, H2. cbn [snd] in *.
    constructor; assumption.
Qed.

Definition all_sorted rev key (ls : list (list val)) : Prop := Forall (StronglySorted (mle rev key)) ls.
Lemma all_sorted_pop rev key : forall ls i, all_sorted rev key ls -> all_sorted rev key (pop i ls).
Proof.
  unfold all_sorted. induction ls as [|l r IH]; intros [|i] H; cbn [pop]; try assumption; inversion H as [|? ? Hl Hr]; subst; constructor; auto.
  destruct l; [constructor|]. inversion Hl; assumption.
Qed.
Lemma least_all rev key x : forall ls, all_sorted rev key ls ->
  Forall (fun l => match l with [] => True | y :: _ => mle rev key x y end) ls -> Forall (mle rev key x) (concat ls).
Proof.
  unfold all_sorted. induction ls as [|l r IH]; intros Hs Hh; [constructor|]. inversion Hs as [|? ? Hl Hr]; subst.
  inversion Hh as [|? ? Hy Hh']; subst. cbn [concat]. apply Forall_app. split; [|apply IH; assumption].
  destruct l as [|y t]; [constructor|]. inversion Hl as [|? ? _ Hyt]; subst. constructor; [exact Hy|].
  eapply Forall_impl; [|exact Hyt]. unfold mle in *. intros z Hz. lia.
Qed.
Lemma merge_fuel_sorted rev key : forall fuel ls, (length (concat ls) <= fuel)%nat -> all_sorted rev key ls ->
  StronglySorted (mle rev key) (merge_fuel fuel (merge_first rev key) ls).
Proof.
  induction fuel as [|f IH]; intros ls Hf Hs; [constructor|]. cbn [merge_fuel].
  destruct (best_src (merge_first rev key) 0 ls) as [[i x]|] eqn:Hb; [|constructor].
  destruct (best_src_nth _ ls 0 i x Hb) as (p & t & Hp & Hn). cbn [plus] in Hp. subst p.
  assert (Hf' : (length (concat (pop i ls)) <= f)%nat) by (rewrite (concat_pop_length ls i x t Hn) in Hf; lia).
  constructor; [apply IH; [exact Hf' | apply all_sorted_pop; exact Hs]|].
  eapply Permutation_Forall; [symmetry; apply merge_fuel_perm; exact Hf'|].
  pose proof (least_all rev key x ls Hs (best_src_least rev key ls 0 i x Hb)) as Hall.
  eapply Permutation_Forall in Hall; [|apply (perm_pop ls i x t Hn)]. inversion Hall; assumption.
Qed.
(* for rev = false: ascending keys; for rev = true: descending keys *)
Theorem spec_merge_sorted : forall key rev ls,
  Forall (StronglySorted (mle rev key)) ls -> StronglySorted (mle rev key) (spec_merge key rev ls).
Proof. intros. apply merge_fuel_sorted; [lia | assumption]. Qed.

Print Assumptions spec_merge_perm.
Print Assumptions spec_merge_sorted.
