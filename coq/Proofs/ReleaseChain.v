(* chain: what IS true about release.  The owned iterators are all released when the chain runs to
   completion, and when the consumer closes it at a yield (chain.aclose: GeneratorExit delivered at
   the use of an EYield).  Without a fault it never raises. *)
From Coq Require Import List ZArith NArith Bool Arith Lia.
Import ListNotations.
Require Import V.Kernel.Values V.Kernel.Monad V.Kernel.Fn V.Model.Builtins V.Model.Itertools V.Model.Heapq V.Model.Tool.
Require Import V.Proofs.Steps V.Proofs.Regular V.Proofs.RegularTools V.Proofs.Release.

(* the newest non-aclose event is a yield: the run stopped at a yield *)
Definition last_is_yield (lg : list event) : bool :=
  match no_closes lg with EYield _ :: _ => true | _ => false end.
(* the only fault around, if any, is a GeneratorExit *)
Definition pend_ge (w : world) : Prop :=
  match pending w with None => True | Some (_, e) => e = XGenExit end.

(* exceptions only come from the fault; once raised the fault is spent; and if the run then stands
   at a yield, every owned iterator has been released *)
Definition chain_inv (owned : list nat) {A} (m : M A) : Prop :=
  forall w, pend_ge w ->
    pend_ge (snd (m w)) /\
    (pending w = None -> pending (snd (m w)) = None) /\
    (forall e, fst (m w) = Exn e ->
       pending w <> None /\ pending (snd (m w)) = None /\
       (last_is_yield (log (snd (m w))) = true -> forall i, In i owned -> rel_at i (snd (m w)))).

Lemma ci_ret owned {A} (a : A) : chain_inv owned (ret a).
Proof. intros w H. cbn. repeat split; auto; discriminate. Qed.
Lemma ci_bind owned {A B} (m : M A) (f : A -> M B) :
  chain_inv owned m -> (forall a, chain_inv owned (f a)) -> chain_inv owned (bind m f).
Proof.
  intros Hm Hf w Hw. unfold bind. destruct (Hm w Hw) as (H1 & H2 & H3).
  destruct (m w) as [[a|e|] w1]; cbn in *.
  - destruct (Hf a w1 H1) as (G1 & G2 & G3). split; [exact G1|]. split; [auto|].
    intros e E. destruct (G3 e E) as (K1 & K2 & K3). split; [intros P; apply K1; auto|]. split; assumption.
  - split; [exact H1|]. split; [exact H2|]. intros e' E. injection E as <-. apply (H3 e eq_refl).
  - split; [exact H1|]. split; [exact H2|]. intros e' E. discriminate E.
Qed.

Lemma ci_pull owned i : chain_inv owned (pull i).
Proof.
  intros [ss lg p u]. unfold pend_ge. cbn [pending]. intros Hw. rewrite pull_eq.
  destruct p as [[[|n] e]|]; cbn - [Nat.ltb].
  - repeat split; auto; try discriminate.
  - destruct ((0 <? s_closed (nth i ss dead_src)) || s_exh (nth i ss dead_src));
      [|destruct (s_items (nth i ss dead_src))]; cbn; repeat split; auto; discriminate.
  - destruct ((0 <? s_closed (nth i ss dead_src)) || s_exh (nth i ss dead_src));
      [|destruct (s_items (nth i ss dead_src))]; cbn; repeat split; auto; discriminate.
Qed.

Lemma ci_chain_yield owned v : chain_inv owned (chain_yield owned v).
Proof.
  intros [ss lg p u]. unfold pend_ge. cbn [pending]. intros Hw.
  unfold chain_yield, yield_to, bind, emit, use, set_log. cbn.
  destruct p as [[[|n] e]|]; cbn.
  - subst e.
    pose proof (close_all_releases owned (mkW ss (EYield v :: lg) None (S u))) as R.
    pose proof (close_all_not_fuel owned (mkW ss (EYield v :: lg) None (S u))) as N.
    pose proof (proj1 (wfG_close_all true owned) (mkW ss (EYield v :: lg) None (S u))) as (P & _).
    specialize (P eq_refl).
    destruct (close_all owned (mkW ss (EYield v :: lg) None (S u))) as [[[]|e|] w2]; cbn in *;
      repeat split; auto; try discriminate; try rewrite P; auto; congruence.
  - repeat split; auto; discriminate.
  - repeat split; auto; discriminate.
Qed.

Lemma ci_iter_src owned {St} i (body : St -> val -> M (St * bool)) :
  (forall s x, chain_inv owned (body s x)) -> forall fuel s, chain_inv owned (iter_src fuel i body s).
Proof.
  intros Hb fuel. induction fuel as [|f IH]; intros s; cbn [iter_src].
  - intros w H. cbn. repeat split; auto; discriminate.
  - apply ci_bind; [apply ci_pull | intros [x|]]; [|apply ci_ret].
    apply ci_bind; [apply Hb | intros r]. destruct (snd r); [apply IH | apply ci_ret].
Qed.
Lemma ci_each owned i : chain_inv owned (each i (chain_yield owned)).
Proof.
  unfold each. apply ci_bind; [|intros _; apply ci_ret].
  intros w. unfold loop_src. apply ci_iter_src. intros _ x.
  apply ci_bind; [apply ci_chain_yield | intros _; apply ci_ret].
Qed.

(* a loop over a source that ends normally stands at the EEnd of that source *)
Lemma pull_none_log i w : fst (pull i w) = Ok None -> exists lg, log (snd (pull i w)) = EEnd i :: lg.
Proof.
  destruct w as [ss lg p u]. rewrite pull_eq.
  destruct p as [[[|n] e]|]; cbn - [Nat.ltb]; try discriminate;
    (destruct ((0 <? s_closed (nth i ss dead_src)) || s_exh (nth i ss dead_src));
      [|destruct (s_items (nth i ss dead_src))]; cbn; try discriminate; intros _; eexists; reflexivity).
Qed.
Lemma iter_src_S {St} fuel i (body : St -> val -> M (St * bool)) s w :
  iter_src (S fuel) i body s w =
  match pull i w with
  | (Ok (Some x), w1) =>
      match body s x w1 with
      | (Ok r, w2) => if snd r then iter_src fuel i body (fst r) w2 else (Ok (fst r, true), w2)
      | (Exn e, w2) => (Exn e, w2)
      | (Fuel, w2) => (Fuel, w2)
      end
  | (Ok None, w1) => (Ok (s, false), w1)
  | (Exn e, w1) => (Exn e, w1)
  | (Fuel, w1) => (Fuel, w1)
  end.
Proof.
  cbn [iter_src]. unfold bind. destruct (pull i w) as [[[x|]|e|] w1]; try reflexivity.
  destruct (body s x w1) as [[r|e|] w2]; try reflexivity. destruct (snd r); reflexivity.
Qed.
Lemma each_ok_not_yield i (yield : val -> M unit) : forall fuel w r,
  fst (iter_src fuel i (fun (_ : unit) x => yield x ;;; ret (tt, true)) tt w) = Ok r ->
  last_is_yield (log (snd (iter_src fuel i (fun (_ : unit) x => yield x ;;; ret (tt, true)) tt w))) = false.
Proof.
  induction fuel as [|f IH]; intros w r; [discriminate|].
  rewrite iter_src_S. pose proof (pull_none_log i w) as HN.
  destruct (pull i w) as [[[x|]|e|] w1]; cbn [fst snd] in *; try discriminate.
  - unfold bind. destruct (yield x w1) as [[[]|e|] w2]; cbn [fst snd ret]; try discriminate. apply IH.
  - intros _. destruct (HN eq_refl) as [lg ->]. reflexivity.
Qed.

Lemma bind_unfold {A B} (m : M A) (f : A -> M B) w :
  bind m f w = match m w with (Ok a, w1) => f a w1 | (Exn e, w1) => (Exn e, w1) | (Fuel, w1) => (Fuel, w1) end.
Proof. reflexivity. Qed.
Lemma close_log j w : log (snd (close j w)) = log w \/ log (snd (close j w)) = EClose j :: log w.
Proof.
  destruct w as [ss lg p u]. unfold close, bind, get_src, emit, use, set_src, ret, set_log, set_srcs. cbn.
  destruct (s_acl (nth j ss dead_src)); cbn; [|left; reflexivity].
  destruct p as [[[|n] e]|]; cbn; right; reflexivity.
Qed.
Lemma last_is_yield_close j lg : last_is_yield (EClose j :: lg) = last_is_yield lg.
Proof. reflexivity. Qed.

Lemma ci_scoped_each owned j : chain_inv owned (scoped j (each j (chain_yield owned))).
Proof.
  intros w Hw. unfold scoped.
  destruct (ci_each owned j w Hw) as (H1 & H2 & H3).
  assert (HOK : forall r, fst (each j (chain_yield owned) w) = Ok r ->
                          last_is_yield (log (snd (each j (chain_yield owned) w))) = false).
  { unfold each. rewrite bind_unfold. unfold loop_src.
    pose proof (each_ok_not_yield j (chain_yield owned) (S (items_left j w)) w) as E.
    destruct (iter_src (S (items_left j w)) j (fun (_ : unit) x => chain_yield owned x;;; ret (tt, true)) tt w)
      as [[r0|e|] w1]; cbn [fst snd ret] in *; try (intros ? X; discriminate X). intros _ _. apply (E r0 eq_refl). }
  destruct (finally_cases (each j (chain_yield owned)) (close j) w) as [[E1 E2]|(E1 & E2 & _ & _)].
  - rewrite E2. cbn. repeat split; auto; discriminate.
  - assert (CL : forall w, pend_ge w -> pend_ge (snd (close j w)) /\
                   (pending w = None -> pending (snd (close j w)) = None) /\
                   (forall e, fst (close j w) = Exn e -> pending w <> None /\ pending (snd (close j w)) = None)).
    { clear. intros [ss lg p u]. unfold pend_ge. cbn [pending]. intros Hw.
      unfold close, bind, get_src, emit, use, set_src, ret, set_log, set_srcs. cbn.
      destruct (s_acl (nth j ss dead_src)); cbn; [|repeat split; auto; discriminate].
      destruct p as [[[|n] e]|]; cbn; repeat split; auto; try discriminate. }
    destruct (CL _ H1) as (G1 & G2 & G3).
    rewrite E2. split; [exact G1|]. split; [auto|].
    intros e He. unfold finally in He.
    destruct (each j (chain_yield owned) w) as [[r|e0|] w1] eqn:Em; cbn [fst snd] in *; try congruence.
    + (* the body ended normally: an exception can only come from the aclose, not at a yield *)
      destruct (close j w1) as [[[]|e1|] w2] eqn:Ec; cbn [fst snd] in *; try discriminate.
      injection He as ->. destruct (G3 e eq_refl) as (K1 & K2).
      split; [intros P; apply K1; auto|]. split; [exact K2|].
      intros Y. exfalso. pose proof (close_log j w1) as L. rewrite Ec in L. cbn [snd] in L.
      specialize (HOK r eq_refl). destruct L as [L|L]; rewrite L in Y; [|rewrite last_is_yield_close in Y]; congruence.
    + (* the body raised: the fault is spent, the aclose runs fault-free *)
      destruct (H3 e0 eq_refl) as (K1 & K2 & K3).
      split; [exact K1|]. split; [auto|].
      intros Y i Hi. pose proof (close_log j w1) as L.
      assert (Y1 : last_is_yield (log w1) = true).
      { destruct L as [L|L]; rewrite L in Y; [|rewrite last_is_yield_close in Y]; exact Y. }
      apply keeps; [apply wfG_close | apply K3; assumption].
Qed.

Lemma ci_chain_body owned : forall ss, chain_inv owned (chain_body ss (chain_yield owned)).
Proof.
  induction ss as [|j r IH]; cbn [chain_body]; [apply ci_ret|].
  apply ci_bind; [apply ci_scoped_each | intros _; exact IH].
Qed.

(* ---------- the consumer-facing statements ---------- *)
Definition ge_or_none (k_e : option (nat * exn)) : bool :=
  match k_e with None => true | Some (_, XGenExit) => true | _ => false end.

(* a chain that is only ever closed by the consumer: it completes, or it is closed at a yield; in
   both cases every owned iterator is released *)
Theorem chain_releases_partial : forall n ss k_e, length ss = n -> ge_or_none k_e = true ->
  let r := run_tool (TChain n) (init_world ss k_e) in
  fst r <> Fuel ->
  is_ok (fst r) || last_is_yield (log (snd r)) = true ->
  all_released (snd r) = true.
Proof.
  intros n ss k_e Hn Hk r Hf Hy. apply all_released_intro. intros i Hi. unfold r in *. clear r.
  rewrite tool_length, init_world_length, Hn in Hi.
  destruct (fst (run_tool (TChain n) (init_world ss k_e))) as [v|e|] eqn:E; [| |congruence].
  - eapply rel_chain_ok; eassumption.
  - cbn [is_ok orb] in Hy. revert E Hy. cbn [run_tool]. unfold run_chain, bind.
    assert (Hw : pend_ge (init_world ss k_e)).
    { unfold pend_ge. cbn. destruct k_e as [[k [| | | | | | |]]|]; cbn in Hk; try discriminate; auto. }
    destruct (ci_chain_body (seq 0 n) (seq 0 n) _ Hw) as (_ & _ & H3).
    destruct (chain_body (seq 0 n) (chain_yield (seq 0 n)) (init_world ss k_e)) as [[[]|e0|] w1]; cbn in *;
      try discriminate.
    intros _ Y. destruct (H3 e0 eq_refl) as (_ & _ & K). apply K; [exact Y | apply in_seq; lia].
Qed.

(* without a fault a chain never raises, and releases everything *)
Theorem chain_faultfree : forall n ss, length ss = n ->
  let r := run_tool (TChain n) (init_world ss None) in
  fst r <> Fuel -> fst r = Ok VNone /\ all_released (snd r) = true.
Proof.
  intros n ss Hn r Hf.
  assert (E : fst r = Ok VNone).
  { unfold r in *. revert Hf. cbn [run_tool]. unfold run_chain, bind.
    destruct (ci_chain_body (seq 0 n) (seq 0 n) (init_world ss None) I) as (_ & _ & H3).
    destruct (chain_body (seq 0 n) (chain_yield (seq 0 n)) (init_world ss None)) as [[[]|e0|] w1]; cbn in *; auto.
    - destruct (H3 e0 eq_refl) as (K & _). exfalso. apply K. reflexivity.
    - congruence. }
  split; [exact E|]. apply (chain_releases_partial n ss None Hn eq_refl Hf). fold r. rewrite E. reflexivity.
Qed.

(* the hypotheses are satisfiable: a two-iterable chain closed at its first yield *)
Example chain_closed_at_yield_ex :
  let r := run_tool (TChain 2) (init_world [[VInt 1]; [VInt 2]] (Some (1, XGenExit))) in
  fst r = Exn XGenExit /\ last_is_yield (log (snd r)) = true /\ all_released (snd r) = true.
Proof. vm_compute. repeat split. Qed.
(* ... and needed: another exception thrown in at the yield, or a close/cancel that reaches the chain
   while it awaits a source, leaves the later iterables unreleased *)
Example chain_throw_at_yield_leaks :
  let r := run_tool (TChain 2) (init_world [[VInt 1]; [VInt 2]] (Some (1, XInj 0 true))) in
  last_is_yield (log (snd r)) = true /\ all_released (snd r) = false.
Proof. vm_compute. repeat split. Qed.
Example chain_cancel_in_pull_leaks :
  let r := run_tool (TChain 2) (init_world [[VInt 1]; [VInt 2]] (Some (0, XGenExit))) in
  fst r = Exn XGenExit /\ all_released (snd r) = false.
Proof. vm_compute. repeat split. Qed.

Print Assumptions chain_releases_partial.
Print Assumptions chain_faultfree.
