(* chain and release.  chain.__anext__ closes the owned iterators when advancing fails with anything but
   the consumer's GeneratorExit; chain.aclose (GeneratorExit delivered at the use of an EYield) closes
   them itself.  So every owned iterator is released when the chain completes, fails, is cancelled, or
   is closed at a yield.  What remains false in the MODEL: a GeneratorExit that surfaces at a use that is
   not a yield (a source's __anext__/aclose "raising GeneratorExit") passes through [run_chain]
   unhandled. *)
From Coq Require Import List ZArith NArith Bool Arith Lia.
Import ListNotations.
Require Import V.Kernel.Values V.Kernel.Monad V.Kernel.Fn V.Model.Builtins V.Model.Itertools V.Model.Heapq V.Model.Tool.
Require Import V.Proofs.Steps V.Proofs.Regular V.Proofs.RegularTools V.Proofs.Release.

(* the newest non-aclose event is a yield: the run stopped at a yield *)
Definition last_is_yield (lg : list event) : bool :=
  match no_closes lg with EYield _ :: _ => true | _ => false end.
(* the only fault around, if any, raises [e0] *)
Definition pend_is (e0 : exn) (w : world) : Prop :=
  match pending w with None => True | Some (_, e) => e = e0 end.

(* exceptions only come from the fault and are the fault's; once raised the fault is spent; and if it
   was a GeneratorExit and the run then stands at a yield, every owned iterator has been released *)
Definition chain_inv (e0 : exn) (owned : list nat) {A} (m : M A) : Prop :=
  forall w, pend_is e0 w ->
    pend_is e0 (snd (m w)) /\
    (pending w = None -> pending (snd (m w)) = None) /\
    (forall e, fst (m w) = Exn e ->
       pending w <> None /\ pending (snd (m w)) = None /\ e = e0 /\
       (e0 = XGenExit -> last_is_yield (log (snd (m w))) = true -> forall i, In i owned -> rel_at i (snd (m w)))).

Lemma ci_ret e0 owned {A} (a : A) : chain_inv e0 owned (ret a).
Proof. intros w H. cbn. split; [exact H|]. split; [auto|]. intros e E. discriminate E. Qed.
Lemma ci_bind e0 owned {A B} (m : M A) (f : A -> M B) :
  chain_inv e0 owned m -> (forall a, chain_inv e0 owned (f a)) -> chain_inv e0 owned (bind m f).
Proof.
  intros Hm Hf w Hw. unfold bind. destruct (Hm w Hw) as (H1 & H2 & H3).
  destruct (m w) as [[a|e|] w1]; cbn in *.
  - destruct (Hf a w1 H1) as (G1 & G2 & G3). split; [exact G1|]. split; [auto|].
    intros e E. destruct (G3 e E) as (K1 & K2 & K3). split; [intros P; apply K1; auto|]. split; assumption.
  - split; [exact H1|]. split; [exact H2|]. intros e' E. injection E as <-. apply (H3 e eq_refl).
  - split; [exact H1|]. split; [exact H2|]. intros e' E. discriminate E.
Qed.

Lemma ci_pull e0 owned i : chain_inv e0 owned (pull i).
Proof.
  intros [ss lg p u]. unfold pend_is. cbn [pending]. intros Hw. rewrite pull_eq.
  destruct p as [[[|n] e]|]; cbn - [Nat.ltb].
  - split; [exact I|]. split; [intros X; discriminate X|]. intros e' E. injection E as <-.
    split; [discriminate|]. split; [reflexivity|]. split; [exact Hw|]. intros _ Y. discriminate Y.
  - destruct ((0 <? s_closed (nth i ss dead_src)) || s_exh (nth i ss dead_src));
      [|destruct (s_items (nth i ss dead_src))]; cbn; (split; [exact Hw|]); (split; [intros X; discriminate X|]);
      intros e' E; discriminate E.
  - destruct ((0 <? s_closed (nth i ss dead_src)) || s_exh (nth i ss dead_src));
      [|destruct (s_items (nth i ss dead_src))]; cbn; (split; [exact I|]); (split; [reflexivity|]);
      intros e' E; discriminate E.
Qed.

Lemma ci_chain_yield e0 owned v : chain_inv e0 owned (chain_yield owned v).
Proof.
  intros [ss lg p u]. unfold pend_is. cbn [pending]. intros Hw.
  unfold chain_yield, yield_to, bind, emit, use, set_log. cbn.
  destruct p as [[[|n] e]|]; cbn.
  - subst e.
    pose proof (close_all_releases owned (mkW ss (EYield v :: lg) None (S u))) as R.
    pose proof (close_all_not_fuel owned (mkW ss (EYield v :: lg) None (S u))) as N.
    pose proof (proj1 (wfG_close_all true owned) (mkW ss (EYield v :: lg) None (S u))) as (P & _).
    pose proof (proj2 (cleanupG_close_all true owned) (mkW ss (EYield v :: lg) None (S u)) eq_refl) as (O & _).
    specialize (P eq_refl).
    destruct e0;
      try (cbn; split; [exact I|]; split; [intros X; discriminate X|]; intros e' E; injection E as <-;
           split; [discriminate|]; split; [reflexivity|]; split; [reflexivity|]; intros X; discriminate X).
    destruct (close_all owned (mkW ss (EYield v :: lg) None (S u))) as [[[]|e|] w2]; cbn in *; try discriminate O.
    split; [rewrite P; exact I|]. split; [intros X; discriminate X|]. intros e' E. injection E as <-.
    split; [discriminate|]. split; [exact P|]. split; [reflexivity|]. intros _ _. exact R.
  - split; [exact Hw|]. split; [intros X; discriminate X|]. intros e' E. discriminate E.
  - split; [exact I|]. split; [reflexivity|]. intros e' E. discriminate E.
Qed.

Lemma ci_iter_src e0 owned {St} i (body : St -> val -> M (St * bool)) :
  (forall s x, chain_inv e0 owned (body s x)) -> forall fuel s, chain_inv e0 owned (iter_src fuel i body s).
Proof.
  intros Hb fuel. induction fuel as [|f IH]; intros s; cbn [iter_src].
  - intros w H. cbn. split; [exact H|]. split; [auto|]. intros e E. discriminate E.
  - apply ci_bind; [apply ci_pull | intros [x|]]; [|apply ci_ret].
    apply ci_bind; [apply Hb | intros r]. destruct (snd r); [apply IH | apply ci_ret].
Qed.
Lemma ci_each e0 owned i : chain_inv e0 owned (each i (chain_yield owned)).
Proof.
  unfold each. apply ci_bind; [|intros _; apply ci_ret].
  intros w. unfold loop_src. apply ci_iter_src. intros _ x.
  apply ci_bind; [apply ci_chain_yield | intros _; apply ci_ret].
Qed.

(* a loop over a source that ends normally stands at the EEnd of that source *)
Lemma pull_none_log i w : fst (pull i w) = Ok None -> exists lg, log (snd (pull i w)) = EEnd i :: lg.
Proof.
  destruct w as [ss lg p u]. rewrite pull_eq.
  destruct p as [[[|n] e]|]; cbn - [Nat.ltb]; try discriminate;
    (destruct ((0 <? s_closed (nth i ss dead_src)) || s_exh (nth i ss dead_src));
      [|destruct (s_items (nth i ss dead_src))]; cbn; try discriminate; intros _; eexists; reflexivity).
Qed.
Lemma iter_src_S {St} fuel i (body : St -> val -> M (St * bool)) s w :
  iter_src (S fuel) i body s w =
  match pull i w with
  | (Ok (Some x), w1) =>
      match body s x w1 with
      | (Ok r, w2) => if snd r then iter_src fuel i body (fst r) w2 else (Ok (fst r, true), w2)
      | (Exn e, w2) => (Exn e, w2)
      | (Fuel, w2) => (Fuel, w2)
      end
  | (Ok None, w1) => (Ok (s, false), w1)
  | (Exn e, w1) => (Exn e, w1)
  | (Fuel, w1) => (Fuel, w1)
  end.
Proof.
  cbn [iter_src]. unfold bind. destruct (pull i w) as [[[x|]|e|] w1]; try reflexivity.
  destruct (body s x w1) as [[r|e|] w2]; try reflexivity. destruct (snd r); reflexivity.
Qed.
Lemma each_ok_not_yield i (yield : val -> M unit) : forall fuel w r,
  fst (iter_src fuel i (fun (_ : unit) x => yield x ;;; ret (tt, true)) tt w) = Ok r ->
  last_is_yield (log (snd (iter_src fuel i (fun (_ : unit) x => yield x ;;; ret (tt, true)) tt w))) = false.
Proof.
  induction fuel as [|f IH]; intros w r; [discriminate|].
  rewrite iter_src_S. pose proof (pull_none_log i w) as HN.
  destruct (pull i w) as [[[x|]|e|] w1]; cbn [fst snd] in *; try discriminate.
  - unfold bind. destruct (yield x w1) as [[[]|e|] w2]; cbn [fst snd ret]; try discriminate. apply IH.
  - intros _. destruct (HN eq_refl) as [lg ->]. reflexivity.
Qed.

Lemma bind_unfold {A B} (m : M A) (f : A -> M B) w :
  bind m f w = match m w with (Ok a, w1) => f a w1 | (Exn e, w1) => (Exn e, w1) | (Fuel, w1) => (Fuel, w1) end.
Proof. reflexivity. Qed.
Lemma close_log j w : log (snd (close j w)) = log w \/ log (snd (close j w)) = EClose j :: log w.
Proof.
  destruct w as [ss lg p u]. unfold close, bind, get_src, emit, use, set_src, ret, set_log, set_srcs. cbn.
  destruct (s_acl (nth j ss dead_src)); cbn; [|left; reflexivity].
  destruct p as [[[|n] e]|]; cbn; right; reflexivity.
Qed.
Lemma last_is_yield_close j lg : last_is_yield (EClose j :: lg) = last_is_yield lg.
Proof. reflexivity. Qed.

Lemma ci_scoped_each e0 owned j : chain_inv e0 owned (scoped j (each j (chain_yield owned))).
Proof.
  intros w Hw. unfold scoped.
  destruct (ci_each e0 owned j w Hw) as (H1 & H2 & H3).
  assert (HOK : forall r, fst (each j (chain_yield owned) w) = Ok r ->
                          last_is_yield (log (snd (each j (chain_yield owned) w))) = false).
  { unfold each. rewrite bind_unfold. unfold loop_src.
    pose proof (each_ok_not_yield j (chain_yield owned) (S (items_left j w)) w) as E.
    destruct (iter_src (S (items_left j w)) j (fun (_ : unit) x => chain_yield owned x;;; ret (tt, true)) tt w)
      as [[r0|e|] w1]; cbn [fst snd ret] in *; try (intros ? X; discriminate X). intros _ _. apply (E r0 eq_refl). }
  destruct (finally_cases (each j (chain_yield owned)) (close j) w) as [[E1 E2]|(E1 & E2 & _ & _)].
  - rewrite E2. cbn. split; [exact H1|]. split; [exact H2|]. intros e E. discriminate E.
  - assert (CL : forall w, pend_is e0 w -> pend_is e0 (snd (close j w)) /\
                   (pending w = None -> pending (snd (close j w)) = None) /\
                   (forall e, fst (close j w) = Exn e -> pending w <> None /\ pending (snd (close j w)) = None /\ e = e0)).
    { clear. intros [ss lg p u]. unfold pend_is. cbn [pending]. intros Hw.
      unfold close, bind, get_src, emit, use, set_src, ret, set_log, set_srcs. cbn.
      destruct (s_acl (nth j ss dead_src)); cbn;
        [|split; [exact Hw|]; split; [auto|]; intros e E; discriminate E].
      destruct p as [[[|n] e]|]; cbn.
      - split; [exact I|]. split; [intros X; discriminate X|]. intros e' E. injection E as <-.
        split; [discriminate|]. split; [reflexivity | exact Hw].
      - split; [exact Hw|]. split; [intros X; discriminate X|]. intros e' E. discriminate E.
      - split; [exact I|]. split; [reflexivity|]. intros e' E. discriminate E. }
    destruct (CL _ H1) as (G1 & G2 & G3).
    rewrite E2. split; [exact G1|]. split; [auto|].
    intros e He. unfold finally in He.
    destruct (each j (chain_yield owned) w) as [[r|e1|] w1] eqn:Em; cbn [fst snd] in *; try congruence.
    + (* the body ended normally: an exception can only come from the aclose, not at a yield *)
      destruct (close j w1) as [[[]|e2|] w2] eqn:Ec; cbn [fst snd] in *; try discriminate.
      injection He as ->. destruct (G3 e eq_refl) as (K1 & K2 & K4).
      split; [intros P; apply K1; auto|]. split; [exact K2|]. split; [exact K4|].
      intros _ Y. exfalso. pose proof (close_log j w1) as L. rewrite Ec in L. cbn [snd] in L.
      specialize (HOK r eq_refl). destruct L as [L|L]; rewrite L in Y; [|rewrite last_is_yield_close in Y]; congruence.
    + (* the body raised: the fault is spent, the aclose runs fault-free *)
      destruct (H3 e1 eq_refl) as (K1 & K2 & K4 & K3).
      assert (Ee : e = e1).
      { destruct (close j w1) as [[[]|e2|] w2] eqn:Ec; cbn [fst snd] in *; try congruence.
        destruct (G3 e2 eq_refl) as (X & _). congruence. }
      subst e.
      split; [exact K1|]. split; [auto|]. split; [exact K4|].
      intros Hg Y i Hi. pose proof (close_log j w1) as L.
      assert (Y1 : last_is_yield (log w1) = true).
      { destruct L as [L|L]; rewrite L in Y; [|rewrite last_is_yield_close in Y]; exact Y. }
      apply keeps; [apply wfG_close | apply K3; assumption].
Qed.

Lemma ci_chain_body e0 owned : forall ss, chain_inv e0 owned (chain_body ss (chain_yield owned)).
Proof.
  induction ss as [|j r IH]; cbn [chain_body]; [apply ci_ret|].
  apply ci_bind; [apply ci_scoped_each | intros _; exact IH].
Qed.

(* ---------- run_chain ---------- *)
Lemma run_chain_cases ss w :
  (run_chain ss w = chain_body ss (chain_yield ss) w /\
   forall e, fst (chain_body ss (chain_yield ss) w) = Exn e -> e = XGenExit) \/
  (exists e, fst (chain_body ss (chain_yield ss) w) = Exn e /\ e <> XGenExit /\
             snd (run_chain ss w) = snd (close_all ss (snd (chain_body ss (chain_yield ss) w))) /\
             fst (run_chain ss w) <> Fuel).
Proof.
  unfold run_chain. destruct (chain_body ss (chain_yield ss) w) as [[u|e|] w1]; cbn [fst snd].
  - left. split; [reflexivity|]. intros e E. discriminate E.
  - pose proof (close_all_not_fuel ss w1) as N.
    destruct e; try (left; split; [reflexivity|]; intros e E; injection E as <-; reflexivity);
      right; eexists; (split; [reflexivity|]); (split; [discriminate|]); unfold bind;
      destruct (close_all ss w1) as [[[]|e'|] w2]; cbn in *; split; auto; try discriminate; congruence.
  - left. split; [reflexivity|]. intros e E. discriminate E.
Qed.

Definition genexit_fault (k_e : option (nat * exn)) : bool :=
  match k_e with Some (_, XGenExit) => true | _ => false end.
Definition fault_exn (k_e : option (nat * exn)) : exn := match k_e with Some (_, e) => e | None => XTypeError end.
Lemma init_pend_is ss k_e : pend_is (fault_exn k_e) (init_world ss k_e).
Proof. unfold pend_is. cbn. destruct k_e as [[k e]|]; cbn; auto. Qed.

(* source [i] of a chain is released, from any start world whose only fault raises [e0], provided that
   -- if that fault is a GeneratorExit -- the run completed or stands at a yield (chain.aclose) *)
Lemma rel_chain e0 n w i : i < n -> pend_is e0 w ->
  fst (run_tool (TChain n) w) <> Fuel ->
  (e0 = XGenExit -> pending w <> None ->
     is_ok (fst (run_tool (TChain n) w)) || last_is_yield (log (snd (run_tool (TChain n) w))) = true) ->
  rel_at i (snd (run_tool (TChain n) w)).
Proof.
  intros Hi Hw. cbn [run_tool]. rewrite bind_unfold.
  assert (Hin : In i (seq 0 n)) by (apply in_seq; lia).
  destruct (ci_chain_body e0 (seq 0 n) (seq 0 n) w Hw) as (_ & _ & H3).
  pose proof (chain_body_ok_releases (chain_yield (seq 0 n)) (fun v => wfG_chain_yield true _ v) (seq 0 n) w i) as HOk.
  destruct (run_chain_cases (seq 0 n) w) as [[E Hg]|(e & E1 & E2 & E3 & E4)].
  - rewrite E. destruct (chain_body (seq 0 n) (chain_yield (seq 0 n)) w) as [[[]|e|] w1]; cbn [fst snd ret] in *.
    + intros _ _. apply HOk; auto.
    + intros _ Hc. destruct (H3 e eq_refl) as (K1 & _ & K4 & K3). pose proof (Hg e eq_refl) as ->.
      apply K3; auto.
    + intros X. exfalso. apply X. reflexivity.
  - intros _ _.
    assert (R : rel_at i (snd (run_chain (seq 0 n) w))) by (rewrite E3; apply close_all_releases, Hin).
    destruct (run_chain (seq 0 n) w) as [[[]|e'|] w2]; cbn [fst snd ret] in *; auto.
Qed.

(* ---------- the consumer-facing statements ---------- *)
(* a chain releases every owned iterator when it completes, fails, or is cancelled (any exception but
   GeneratorExit, at any use) ... *)
Theorem chain_releases : forall n ss k_e, length ss = n -> genexit_fault k_e = false ->
  let r := run_tool (TChain n) (init_world ss k_e) in
  fst r <> Fuel -> all_released (snd r) = true.
Proof.
  intros n ss k_e Hn Hk r Hf. apply all_released_intro. intros i Hi. unfold r in *. clear r.
  rewrite tool_length, init_world_length, Hn in Hi.
  apply (rel_chain (fault_exn k_e)); auto using init_pend_is.
  intros Hg. exfalso. destruct k_e as [[k e]|]; cbn in *; [subst e; discriminate Hk | discriminate Hg].
Qed.
(* ... and when the consumer closes it (chain.aclose: GeneratorExit at a yield) *)
Theorem chain_close_releases : forall n ss k, length ss = n ->
  let r := run_tool (TChain n) (init_world ss (Some (k, XGenExit))) in
  fst r <> Fuel ->
  is_ok (fst r) || last_is_yield (log (snd r)) = true ->
  all_released (snd r) = true.
Proof.
  intros n ss k Hn r Hf Hy. apply all_released_intro. intros i Hi. unfold r in *. clear r.
  rewrite tool_length, init_world_length, Hn in Hi.
  apply (rel_chain XGenExit); auto. reflexivity.
Qed.

(* without a fault a chain never raises, and releases everything *)
Theorem chain_faultfree : forall n ss, length ss = n ->
  let r := run_tool (TChain n) (init_world ss None) in
  fst r <> Fuel -> fst r = Ok VNone /\ all_released (snd r) = true.
Proof.
  intros n ss Hn r Hf. split; [|apply (chain_releases n ss None Hn eq_refl Hf)].
  unfold r in *. revert Hf. cbn [run_tool]. rewrite bind_unfold.
  destruct (ci_chain_body XTypeError (seq 0 n) (seq 0 n) (init_world ss None) I) as (_ & _ & H3).
  destruct (run_chain_cases (seq 0 n) (init_world ss None)) as [[E _]|(e & E1 & _)].
  - rewrite E. destruct (chain_body (seq 0 n) (chain_yield (seq 0 n)) (init_world ss None)) as [[[]|e0|] w1]; cbn in *; auto.
    + destruct (H3 e0 eq_refl) as (K & _). exfalso. apply K. reflexivity.
    + congruence.
  - destruct (H3 e E1) as (K & _). exfalso. apply K. reflexivity.
Qed.

(* a failing first iterable no longer leaks the later ones (the finding, fixed) *)
Example chain_fail_releases_ex :
  let r := run_tool (TChain 2) (init_world [[VInt 1]; [VInt 2]] (Some (0, XInj 0 false))) in
  fst r = Exn (XInj 0 false) /\ all_released (snd r) = true.
Proof. vm_compute. repeat split. Qed.
(* cancellation / another exception thrown in at a yield: released as well *)
Example chain_throw_at_yield_ex :
  let r := run_tool (TChain 2) (init_world [[VInt 1]; [VInt 2]] (Some (1, XInj 0 true))) in
  last_is_yield (log (snd r)) = true /\ all_released (snd r) = true.
Proof. vm_compute. repeat split. Qed.
(* a two-iterable chain closed at its first yield *)
Example chain_closed_at_yield_ex :
  let r := run_tool (TChain 2) (init_world [[VInt 1]; [VInt 2]] (Some (1, XGenExit))) in
  fst r = Exn XGenExit /\ last_is_yield (log (snd r)) = true /\ all_released (snd r) = true.
Proof. vm_compute. repeat split. Qed.
(* what is still false in the model: a GeneratorExit surfacing inside a source's __anext__ *)
Example chain_genexit_in_pull_leaks :
  let r := run_tool (TChain 2) (init_world [[VInt 1]; [VInt 2]] (Some (0, XGenExit))) in
  fst r = Exn XGenExit /\ last_is_yield (log (snd r)) = false /\ all_released (snd r) = false.
Proof. vm_compute. repeat split. Qed.

Print Assumptions rel_chain.
Print Assumptions chain_releases.
Print Assumptions chain_close_releases.
Print Assumptions chain_faultfree.
