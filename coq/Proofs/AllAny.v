(* all(xs) / any(xs): value, short-circuiting event trace, release of the source *)
From Coq Require Import List ZArith NArith Bool Arith Lia.
Import ListNotations.
Require Import V.Kernel.Values V.Kernel.Monad V.Model.Builtins V.Proofs.Steps V.Std.Builtins V.Proofs.Loop.

Definition stepAll (_ : unit) (x : val) : outcome (unit * bool) := Ok (tt, truthy x).
Definition stepAny (_ : unit) (x : val) : outcome (unit * bool) := Ok (tt, negb (truthy x)).
Definition evs0 (_ : unit) (_ : val) : list event := [].

Lemma bodyAll : body_is (fun (_ : unit) x => ret (tt, truthy x)) stepAll evs0.
Proof. intros s x xs lg u. exists u. reflexivity. Qed.
Lemma bodyAny : body_is (fun (_ : unit) x => ret (tt, negb (truthy x))) stepAny evs0.
Proof. intros s x xs lg u. exists u. reflexivity. Qed.

Lemma pureAll : forall xs,
  l_out (pure_loop stepAll evs0 tt xs) = Ok (tt, negb (forallb truthy xs))
  /\ l_tr (pure_loop stepAll evs0 tt xs) = spec_all_trace xs.
Proof.
  induction xs as [|x xs [IHo IHt]]; [split; reflexivity|].
  cbn [pure_loop stepAll spec_all_trace forallb evs0]. destruct (truthy x); cbn [l_out l_tr andb negb].
  - rewrite IHo, IHt. split; reflexivity.
  - split; [reflexivity|]. cbn. reflexivity.
Qed.
Lemma pureAny : forall xs,
  l_out (pure_loop stepAny evs0 tt xs) = Ok (tt, existsb truthy xs)
  /\ l_tr (pure_loop stepAny evs0 tt xs) = spec_any_trace xs.
Proof.
  induction xs as [|x xs [IHo IHt]]; [split; reflexivity|].
  cbn [pure_loop stepAny spec_any_trace existsb evs0]. destruct (truthy x); cbn [l_out l_tr orb negb].
  - split; [reflexivity|]. cbn. reflexivity.
  - rewrite IHo, IHt. split; reflexivity.
Qed.

Theorem all_spec : forall xs,
  let '(o, w) := a_all (init_world [xs] None) in
  o = spec_all xs /\ no_closes (rev (log w)) = spec_all_trace xs /\ all_released w = true.
Proof.
  intros xs. unfold a_all. rewrite init_world1.
  destruct (loop_pure _ _ _ bodyAll xs tt [] 0) as [u' Hl].
  destruct (pureAll xs) as [Ho Ht].
  erewrite (bind_ret_map _ (fun r : unit * bool => VBool (negb (snd r)))).
  2:{ apply scoped_r; [exact Hl|]. rewrite Ho. congruence. }
  split; [rewrite Ho; cbn; rewrite negb_involutive; reflexivity|]. split; [|apply released_Wc].
  rewrite log_Wc, no_closes_scoped_pre.
  - rewrite Ht. reflexivity.
  - apply pure_loop_no_close. intros c y e [].
  - intros e [].
Qed.

Theorem any_spec : forall xs,
  let '(o, w) := a_any (init_world [xs] None) in
  o = spec_any xs /\ no_closes (rev (log w)) = spec_any_trace xs /\ all_released w = true.
Proof.
  intros xs. unfold a_any. rewrite init_world1.
  destruct (loop_pure _ _ _ bodyAny xs tt [] 0) as [u' Hl].
  destruct (pureAny xs) as [Ho Ht].
  erewrite (bind_ret_map _ (fun r : unit * bool => VBool (snd r))).
  2:{ apply scoped_r; [exact Hl|]. rewrite Ho. congruence. }
  split; [rewrite Ho; reflexivity|]. split; [|apply released_Wc].
  rewrite log_Wc, no_closes_scoped_pre.
  - rewrite Ht. reflexivity.
  - apply pure_loop_no_close. intros c y e [].
  - intros e [].
Qed.

(* where the trace stops: exactly the items up to and including the first deciding one are read;
   the end of the source is only seen when no item decides *)
Fixpoint take_through (p : val -> bool) (xs : list val) : list val :=
  match xs with [] => [] | x :: r => x :: (if p x then [] else take_through p r) end.
Lemma spec_all_trace_closed xs :
  spec_all_trace xs = flat_map rd (take_through (fun x => negb (truthy x)) xs)
                      ++ (if forallb truthy xs then rd_end else []).
Proof.
  induction xs as [|x xs IH]; [reflexivity|].
  cbn [spec_all_trace take_through forallb flat_map]. destruct (truthy x); cbn [negb andb].
  - rewrite IH, <- app_assoc. reflexivity.
  - reflexivity.
Qed.
Lemma spec_any_trace_closed xs :
  spec_any_trace xs = flat_map rd (take_through truthy xs)
                      ++ (if existsb truthy xs then [] else rd_end).
Proof.
  induction xs as [|x xs IH]; [reflexivity|].
  cbn [spec_any_trace take_through existsb flat_map]. destruct (truthy x); cbn [orb].
  - reflexivity.
  - rewrite IH, <- app_assoc. reflexivity.
Qed.

Example all_any_example :
  spec_all [VInt 1; VInt 0; VInt 2] = Ok (VBool false)
  /\ spec_all_trace [VInt 1; VInt 0; VInt 2] = [EPull 0; EItem 0 (VInt 1); EPull 0; EItem 0 (VInt 0)]
  /\ spec_any [VInt 0; VNone] = Ok (VBool false)
  /\ spec_any_trace [VInt 0; VInt 3; VNone] = [EPull 0; EItem 0 (VInt 0); EPull 0; EItem 0 (VInt 3)].
Proof. repeat split. Qed.

Print Assumptions all_spec.
Print Assumptions any_spec.
Print Assumptions spec_all_trace_closed.
Print Assumptions spec_any_trace_closed.
