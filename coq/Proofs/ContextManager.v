(* Property C13: asyncstdlib.contextlib.contextmanager behaves like contextlib.asynccontextmanager
   (CPython 3.12) for EVERY generator response and EVERY way the with-block ends, except for the
   deliberate GeneratorExit difference.  The model (Model/ContextManager.v) is not edited here.

   Summary of what is established (details in the statements below):
   * [aenter_equal]                    __aenter__ agrees unconditionally.
   * [aexit_equal] AS LITERALLY ASKED IS FALSE in the model: [resp_wf] constrains the generator's
     response but not the block's exception, and a block exception with the reserved id 0 (the id of
     the interpreter-made StopAsyncIteration [fresh_stop]) is "the same object" as [fresh_stop] for
     [std_handlers].  See [aexit_equal_refuted].  This is an artefact of the id convention (no real
     exception raised in the block is the interpreter's fresh StopAsyncIteration), not a divergence
     of the implementations.  With the missing side condition [block_wf] (id of the block exception
     is not 0) the theorem holds: [aexit_equal_partial].
   * [aexit_equal_iff] gives the EXACT condition [agree_cond] under which the two __aexit__ agree,
     [aexit_equal_wf14] the version using only conjuncts 1 and 4 of [resp_wf] (the only ones needed),
     and [aexit_equal_refuted_without_wf] / [.._conj1_needed] / [.._conj4_needed] show they are needed.
   * the outcome classification (3a-3e, None cases) on the asyncstdlib side and, via 2, the stdlib side.
   * the GeneratorExit difference: [genexit_propagates], [genexit_close_fails] (known finding). *)
From Coq Require Import List Bool Arith Lia.
Import ListNotations.
Require Import V.Model.ContextManager.

(* ------------------------------------------------------------------------------------------------ *)
(* 0. small facts                                                                                    *)
(* ------------------------------------------------------------------------------------------------ *)

Lemma ekind_eqb_eq : forall a b, ekind_eqb a b = true <-> a = b.
Proof. intros a b; destruct a, b; simpl; split; intro H; try reflexivity; discriminate. Qed.
Lemma ekind_eqb_refl : forall a, ekind_eqb a a = true.
Proof. destruct a; reflexivity. Qed.
Lemma ekind_eqb_neq : forall a b, ekind_eqb a b = false <-> a <> b.
Proof. intros a b; destruct a, b; simpl; split; intro H; try reflexivity; try discriminate; try congruence. Qed.
Lemma subclass_refl : forall a, subclass a a = true.
Proof. destruct a; reflexivity. Qed.
Lemma same_ex_refl : forall v, same_ex v v = true.
Proof. intros v; unfold same_ex; apply Nat.eqb_refl. Qed.
Lemma same_ex_sym : forall a b, same_ex a b = same_ex b a.
Proof. intros a b; unfold same_ex; apply Nat.eqb_sym. Qed.
(* same identity + same class = the same record *)
Lemma same_ex_kind_eq : forall a b, same_ex a b = true -> e_kind a = e_kind b -> a = b.
Proof.
  intros [ka ia] [kb ib]; unfold same_ex; simpl; intros Hs Hk.
  apply Nat.eqb_eq in Hs; subst; reflexivity.
Qed.

(* "the block did not end with a GeneratorExit" *)
Definition not_genexit (block : option ex) : Prop :=
  match block with Some v => e_kind v <> KGenExit | None => True end.
(* the side condition missing from [resp_wf]: the block's exception is not the interpreter-made
   StopAsyncIteration (id 0 is reserved for it) *)
Definition block_wf (block : option ex) : bool :=
  match block with Some v => negb (Nat.eqb (e_id v) 0) | None => true end.

(* ------------------------------------------------------------------------------------------------ *)
(* 1. __aenter__                                                                                     *)
(* ------------------------------------------------------------------------------------------------ *)

Theorem aenter_equal : forall first, asl_aenter first = std_aenter first.
Proof. intros first; destruct first; reflexivity. Qed.

(* ------------------------------------------------------------------------------------------------ *)
(* 2. __aexit__                                                                                      *)
(* ------------------------------------------------------------------------------------------------ *)

(* The EXACT condition under which the two __aexit__ agree (for a non-GeneratorExit block):
   - the generator finished: the block's exception must not have the reserved id 0;
   - the generator raised the very object that was thrown in: that object must not be a
     StopAsyncIteration (asyncstdlib's first clause would suppress it) and it must be caught by
     [except RuntimeError] or [except exc_type] (its class is a subclass of the thrown class).
   Nothing is required when the generator raises a different object, yields, or the block ended normally. *)
Definition agree_cond (block : option ex) (resp : gresp) : bool :=
  match block, resp with
  | Some v, GStop => negb (Nat.eqb (e_id v) 0)
  | Some v, GRaise e _ =>
      negb (same_ex e v)
      || (negb (ekind_eqb (e_kind e) KStopAsync)
          && (ekind_eqb (e_kind e) KRuntime || subclass (e_kind e) (e_kind v)))
  | _, _ => true
  end.

Theorem aexit_equal_iff : forall block resp,
  not_genexit block ->
  (asl_aexit block resp = std_aexit block resp <-> agree_cond block resp = true).
Proof.
  intros [[k i]|] resp Hg; simpl in Hg.
  - destruct resp as [| | [k' i'] c].
    + simpl; split; reflexivity.
    + unfold asl_aexit, std_aexit, asl_handlers, std_handlers, agree_cond, same_ex, fresh_stop.
      simpl. destruct i as [|i]; destruct k; simpl; split; intro H;
        try reflexivity; try discriminate; try congruence.
    + unfold asl_aexit, std_aexit, asl_handlers, std_handlers, agree_cond, same_ex.
      simpl. destruct (Nat.eqb i' i); destruct k, k'; destruct c; simpl; split; intro H;
        try reflexivity; try discriminate; try congruence.
  - destruct resp; simpl; split; reflexivity.
Qed.

(* conjuncts 1 and 4 of [resp_wf] only (conjunct 2, "the raised exception does not have id 0", and
   conjunct 3, "__cause__ is the thrown value only on RuntimeError", are not needed for agreement) *)
Definition resp_wf14 (block : option ex) (resp : gresp) : bool :=
  match resp, block with
  | GRaise e _, Some v =>
      negb (ekind_eqb (e_kind e) KStopAsync)
      && (negb (same_ex e v) || ekind_eqb (e_kind e) (e_kind v))
  | _, _ => true
  end.

Lemma resp_wf_wf14 : forall block resp, resp_wf block resp = true -> resp_wf14 block resp = true.
Proof.
  intros block resp H. destruct resp as [| | e c]; try reflexivity.
  destruct block as [v|]; try reflexivity.
  unfold resp_wf in H; unfold resp_wf14.
  apply andb_true_iff in H; destruct H as [H H4].
  apply andb_true_iff in H; destruct H as [H _].
  apply andb_true_iff in H; destruct H as [H1 _].
  rewrite H1, H4; reflexivity.
Qed.

Lemma wf14_agree : forall block resp,
  resp_wf14 block resp = true -> block_wf block = true -> agree_cond block resp = true.
Proof.
  intros [v|] resp Hwf Hb; [|destruct resp; reflexivity].
  destruct resp as [| | e c]; simpl in *; try assumption; try reflexivity.
  apply andb_true_iff in Hwf; destruct Hwf as [H1 H4].
  apply orb_true_iff in H4; destruct H4 as [H4|H4].
  - rewrite H4; reflexivity.
  - rewrite H1. apply ekind_eqb_eq in H4. rewrite H4, subclass_refl.
    simpl. rewrite orb_true_r, orb_true_r; reflexivity.
Qed.

(* The statement as asked is FALSE in the model: block exception with the reserved id 0. *)
Theorem aexit_equal_refuted :
  exists block resp,
    resp_wf block resp = true /\ not_genexit block /\
    asl_aexit block resp <> std_aexit block resp /\
    with_outcome block (asl_aexit block resp) <> with_outcome block (std_aexit block resp).
Proof.
  exists (Some (mkEx KExc 0)), GStop. vm_compute.
  repeat split; try discriminate.
Qed.

(* The strongest true variants. *)
Theorem aexit_equal_weakest : forall block resp,
  agree_cond block resp = true -> not_genexit block ->
  asl_aexit block resp = std_aexit block resp.
Proof. intros block resp Ha Hg. apply aexit_equal_iff; assumption. Qed.

Theorem aexit_equal_wf14 : forall block resp,
  resp_wf14 block resp = true -> block_wf block = true -> not_genexit block ->
  asl_aexit block resp = std_aexit block resp.
Proof.
  intros block resp Hwf Hb Hg. apply aexit_equal_weakest; [apply wf14_agree|]; assumption.
Qed.

Theorem aexit_equal_partial : forall block resp,
  resp_wf block resp = true -> block_wf block = true ->
  (match block with Some v => e_kind v <> KGenExit | None => True end) ->
  asl_aexit block resp = std_aexit block resp.
Proof.
  intros block resp Hwf Hb Hg. apply aexit_equal_wf14; [apply resp_wf_wf14| |]; assumption.
Qed.

Corollary with_outcome_equal_partial : forall block resp,
  resp_wf block resp = true -> block_wf block = true ->
  (match block with Some v => e_kind v <> KGenExit | None => True end) ->
  with_outcome block (asl_aexit block resp) = with_outcome block (std_aexit block resp).
Proof. intros block resp Hwf Hb Hg. rewrite (aexit_equal_partial block resp Hwf Hb Hg). reflexivity. Qed.

(* when the generator does not finish by returning (yields or raises), [block_wf] is not needed, and
   when the block ended normally neither hypothesis is *)
Theorem aexit_equal_not_stop : forall block resp,
  resp_wf block resp = true -> resp <> GStop ->
  (match block with Some v => e_kind v <> KGenExit | None => True end) ->
  asl_aexit block resp = std_aexit block resp.
Proof.
  intros block resp Hwf Hs Hg. apply aexit_equal_weakest; [|assumption].
  destruct block as [v|]; [|destruct resp; reflexivity].
  destruct resp as [| | e c]; try reflexivity; try congruence.
  apply resp_wf_wf14 in Hwf. simpl in *.
  apply andb_true_iff in Hwf; destruct Hwf as [H1 H4].
  apply orb_true_iff in H4; destruct H4 as [H4|H4].
  - rewrite H4; reflexivity.
  - rewrite H1. apply ekind_eqb_eq in H4. rewrite H4, subclass_refl.
    simpl. rewrite orb_true_r, orb_true_r; reflexivity.
Qed.
Theorem aexit_equal_normal_block : forall resp, asl_aexit None resp = std_aexit None resp.
Proof. intros resp; destruct resp; reflexivity. Qed.

(* [resp_wf] is really needed: a generator "raising" the thrown StopAsyncIteration itself (impossible
   for a real async generator, PEP 525) is suppressed by asyncstdlib and propagated by the stdlib. *)
Theorem aexit_equal_refuted_without_wf :
  exists block resp,
    block_wf block = true /\ not_genexit block /\
    asl_aexit block resp <> std_aexit block resp /\
    with_outcome block (asl_aexit block resp) <> with_outcome block (std_aexit block resp).
Proof.
  exists (Some (mkEx KStopAsync 5)), (GRaise (mkEx KStopAsync 5) false). vm_compute.
  repeat split; try discriminate.
Qed.

(* each of the two conjuncts used is needed on its own: a witness violating ONLY that conjunct *)
Definition wf_c1 (resp : gresp) : bool :=
  match resp with GRaise e _ => negb (ekind_eqb (e_kind e) KStopAsync) | _ => true end.
Definition wf_c2 (resp : gresp) : bool :=
  match resp with GRaise e _ => negb (Nat.eqb (e_id e) 0) | _ => true end.
Definition wf_c3 (resp : gresp) : bool :=
  match resp with GRaise e c => negb c || ekind_eqb (e_kind e) KRuntime | _ => true end.
Definition wf_c4 (block : option ex) (resp : gresp) : bool :=
  match resp with
  | GRaise e c => match block with
                  | Some v => negb (same_ex e v) || ekind_eqb (e_kind e) (e_kind v)
                  | None => negb c
                  end
  | _ => true
  end.
Lemma resp_wf_conjuncts : forall block resp,
  resp_wf block resp = wf_c1 resp && wf_c2 resp && wf_c3 resp && wf_c4 block resp.
Proof. intros block resp; destruct resp; reflexivity. Qed.

Theorem aexit_equal_conj1_needed :
  exists block resp,
    wf_c1 resp = false /\ wf_c2 resp = true /\ wf_c3 resp = true /\ wf_c4 block resp = true /\
    block_wf block = true /\ not_genexit block /\ asl_aexit block resp <> std_aexit block resp.
Proof.
  exists (Some (mkEx KStopAsync 5)), (GRaise (mkEx KStopAsync 5) false). vm_compute.
  repeat split; try discriminate.
Qed.
(* e.g. the generator raises an object with the identity of the thrown Exception but class
   KeyboardInterrupt: [except exc_type] does not catch it *)
Theorem aexit_equal_conj4_needed :
  exists block resp,
    wf_c1 resp = true /\ wf_c2 resp = true /\ wf_c3 resp = true /\ wf_c4 block resp = false /\
    block_wf block = true /\ not_genexit block /\ asl_aexit block resp <> std_aexit block resp.
Proof.
  exists (Some (mkEx KExc 5)), (GRaise (mkEx KKbd 5) false). vm_compute.
  repeat split; try discriminate.
Qed.
(* conjuncts 2 and 3 are not needed: agreement holds for responses violating both *)
Theorem aexit_equal_conj23_not_needed : forall block e c,
  wf_c1 (GRaise e c) = true -> wf_c4 block (GRaise e c) = true -> not_genexit block ->
  asl_aexit block (GRaise e c) = std_aexit block (GRaise e c).
Proof.
  intros block e c H1 H4 Hg. destruct block as [v|]; [|reflexivity].
  apply aexit_equal_weakest; [|assumption].
  simpl in *. apply orb_true_iff in H4; destruct H4 as [H4|H4].
  - rewrite H4; reflexivity.
  - rewrite H1. apply ekind_eqb_eq in H4. rewrite H4, subclass_refl.
    simpl. rewrite orb_true_r, orb_true_r; reflexivity.
Qed.
Example conj23_violated_still_equal :
  let block := Some (mkEx KExc 7) in let resp := GRaise (mkEx KExc 0) true in
  wf_c2 resp = false /\ wf_c3 resp = false /\ asl_aexit block resp = std_aexit block resp.
Proof. vm_compute. repeat split. Qed.

(* ------------------------------------------------------------------------------------------------ *)
(* 3. outcome classification, asyncstdlib side                                                       *)
(* ------------------------------------------------------------------------------------------------ *)

(* (a) the generator lets the thrown exception through / re-raises it: the with statement raises that
   same object.  Uses conjuncts 1 and 4 of [resp_wf]. *)
Theorem cls_passthrough : forall v v' c,
  e_kind v <> KGenExit -> resp_wf (Some v) (GRaise v' c) = true -> same_ex v' v = true ->
  with_outcome (Some v) (asl_aexit (Some v) (GRaise v' c)) = WRaises v.
Proof.
  intros [k i] [k' i'] c Hg Hwf Hs. apply resp_wf_wf14 in Hwf.
  unfold resp_wf14, asl_aexit, asl_handlers in *. simpl in *. rewrite Hs in *. simpl in *.
  destruct k, k'; simpl in *; try discriminate; try reflexivity; congruence.
Qed.
(* ... and then the object raised by the generator is literally [v] *)
Lemma cls_passthrough_same_object : forall v v' c,
  resp_wf (Some v) (GRaise v' c) = true -> same_ex v' v = true -> v' = v.
Proof.
  intros v v' c Hwf Hs. apply resp_wf_wf14 in Hwf. simpl in Hwf. rewrite Hs in Hwf. simpl in Hwf.
  apply andb_true_iff in Hwf; destruct Hwf as [_ Hk]. apply ekind_eqb_eq in Hk.
  apply same_ex_kind_eq; assumption.
Qed.

(* (b) the generator finishes: the exception is suppressed (no well-formedness needed) *)
Theorem cls_suppressed : forall v,
  e_kind v <> KGenExit ->
  asl_aexit (Some v) GStop = RetTrue /\ with_outcome (Some v) (asl_aexit (Some v) GStop) = WNormal.
Proof.
  intros [k i] Hg. simpl in Hg. destruct k; simpl; try (split; reflexivity); congruence.
Qed.

(* (c) the generator yields again: the library's RuntimeError *)
Theorem cls_yields_again : forall v,
  e_kind v <> KGenExit -> with_outcome (Some v) (asl_aexit (Some v) GYield) = WRuntimeLib.
Proof. intros v _. reflexivity. Qed.

(* (d) the generator raises a different exception, not caused by the thrown one: it propagates.
   Uses conjunct 1 of [resp_wf] only. *)
Theorem cls_other_exception : forall v e,
  e_kind v <> KGenExit -> resp_wf (Some v) (GRaise e false) = true -> same_ex e v = false ->
  with_outcome (Some v) (asl_aexit (Some v) (GRaise e false)) = WRaises e.
Proof.
  intros [k i] [k' i'] Hg Hwf Hs. apply resp_wf_wf14 in Hwf.
  unfold resp_wf14, asl_aexit, asl_handlers in *. simpl in *. rewrite Hs in *. simpl in *.
  destruct k, k'; simpl in *; try discriminate; try reflexivity; congruence.
Qed.
(* more generally, with any cause flag, as long as it is not the StopIteration/StopAsyncIteration
   misattribution case (e) *)
Theorem cls_other_exception_gen : forall v e c,
  e_kind v <> KGenExit -> resp_wf (Some v) (GRaise e c) = true -> same_ex e v = false ->
  (c = false \/ e_kind e <> KRuntime \/ (e_kind v <> KStopIter /\ e_kind v <> KStopAsync)) ->
  with_outcome (Some v) (asl_aexit (Some v) (GRaise e c)) = WRaises e.
Proof.
  intros [k i] [k' i'] c Hg Hwf Hs Hc. apply resp_wf_wf14 in Hwf.
  unfold resp_wf14, asl_aexit, asl_handlers in *. simpl in *. rewrite Hs in *. simpl in *.
  destruct Hc as [Hc|[Hc|[Hc1 Hc2]]].
  - subst c. destruct k, k'; simpl in *; try discriminate; try reflexivity; congruence.
  - destruct k, k'; simpl in *; try discriminate; try reflexivity; congruence.
  - destruct k, k'; simpl in *; try discriminate; try reflexivity; congruence.
Qed.

(* (e) misattribution: a StopIteration / StopAsyncIteration raised in the block that the interpreter
   converted to a RuntimeError (whose __cause__ is it) comes out as the original exception.  No
   well-formedness needed. *)
Theorem cls_stop_misattribution : forall v r,
  (e_kind v = KStopIter \/ e_kind v = KStopAsync) -> e_kind r = KRuntime ->
  asl_aexit (Some v) (GRaise r true) = RetFalse /\
  with_outcome (Some v) (asl_aexit (Some v) (GRaise r true)) = WRaises v.
Proof.
  intros [k i] [k' i'] Hv Hr. simpl in *. subst k'.
  unfold asl_handlers, same_ex; simpl.
  destruct (Nat.eqb i' i); destruct Hv as [Hv|Hv]; subst k; simpl; split; reflexivity.
Qed.
(* ... and a RuntimeError raised in the block that comes back as the same object propagates as itself *)
Theorem cls_runtime_same_object : forall v r c,
  e_kind v = KRuntime -> e_kind r = KRuntime -> same_ex r v = true ->
  asl_aexit (Some v) (GRaise r c) = RetFalse /\
  with_outcome (Some v) (asl_aexit (Some v) (GRaise r c)) = WRaises v.
Proof.
  intros [k i] [k' i'] c Hv Hr Hs. simpl in *. subst k k'.
  unfold asl_handlers; simpl. rewrite Hs. split; reflexivity.
Qed.
(* a RuntimeError caused by a thrown exception of another class is NOT misattributed *)
Theorem cls_runtime_other_cause : forall v r c,
  e_kind v <> KGenExit -> e_kind v <> KStopIter -> e_kind v <> KStopAsync ->
  e_kind r = KRuntime -> same_ex r v = false ->
  with_outcome (Some v) (asl_aexit (Some v) (GRaise r c)) = WRaises r.
Proof.
  intros [k i] [k' i'] c Hg H1 H2 Hr Hs. simpl in *. subst k'.
  unfold asl_handlers; simpl. rewrite Hs.
  destruct k; simpl; try reflexivity; congruence.
Qed.

(* the block ended normally *)
Theorem cls_normal_stop : with_outcome None (asl_aexit None GStop) = WNormal.
Proof. reflexivity. Qed.
Theorem cls_normal_yield : with_outcome None (asl_aexit None GYield) = WRuntimeLib.
Proof. reflexivity. Qed.
Theorem cls_normal_raise : forall e c, with_outcome None (asl_aexit None (GRaise e c)) = WRaises e.
Proof. reflexivity. Qed.

(* total classification in one statement (asyncstdlib side, exception in the block) *)
Theorem cls_total : forall v resp,
  e_kind v <> KGenExit -> resp_wf (Some v) resp = true ->
  with_outcome (Some v) (asl_aexit (Some v) resp) =
  match resp with
  | GStop => WNormal
  | GYield => WRuntimeLib
  | GRaise e c =>
      if same_ex e v then WRaises v
      else if ekind_eqb (e_kind e) KRuntime && c
              && (ekind_eqb (e_kind v) KStopIter || ekind_eqb (e_kind v) KStopAsync)
           then WRaises v
           else WRaises e
  end.
Proof.
  intros [k i] [| | [k' i'] c] Hg Hwf.
  - reflexivity.
  - simpl in *. destruct k; simpl; try reflexivity; congruence.
  - apply resp_wf_wf14 in Hwf.
    unfold resp_wf14, asl_aexit, asl_handlers, same_ex in *. simpl in *.
    destruct (Nat.eqb i' i); destruct k, k'; destruct c; simpl in *;
      try discriminate; try reflexivity; congruence.
Qed.

(* ------------------------------------------------------------------------------------------------ *)
(* 3'. the same classification on the stdlib side, by 2                                              *)
(* ------------------------------------------------------------------------------------------------ *)

Lemma std_as_asl : forall v resp,
  e_kind v <> KGenExit -> resp_wf (Some v) resp = true -> block_wf (Some v) = true ->
  with_outcome (Some v) (std_aexit (Some v) resp) = with_outcome (Some v) (asl_aexit (Some v) resp).
Proof.
  intros v resp Hg Hwf Hb. symmetry. apply with_outcome_equal_partial; assumption.
Qed.

Theorem std_cls_passthrough : forall v v' c,
  e_kind v <> KGenExit -> block_wf (Some v) = true ->
  resp_wf (Some v) (GRaise v' c) = true -> same_ex v' v = true ->
  with_outcome (Some v) (std_aexit (Some v) (GRaise v' c)) = WRaises v.
Proof. intros v v' c Hg Hb Hwf Hs. rewrite std_as_asl by assumption. apply cls_passthrough; assumption. Qed.
Theorem std_cls_suppressed : forall v,
  e_kind v <> KGenExit -> block_wf (Some v) = true ->
  with_outcome (Some v) (std_aexit (Some v) GStop) = WNormal.
Proof. intros v Hg Hb. rewrite std_as_asl by (assumption || reflexivity). apply cls_suppressed; assumption. Qed.
Theorem std_cls_yields_again : forall v,
  with_outcome (Some v) (std_aexit (Some v) GYield) = WRuntimeLib.
Proof. reflexivity. Qed.
Theorem std_cls_other_exception : forall v e,
  e_kind v <> KGenExit -> block_wf (Some v) = true ->
  resp_wf (Some v) (GRaise e false) = true -> same_ex e v = false ->
  with_outcome (Some v) (std_aexit (Some v) (GRaise e false)) = WRaises e.
Proof. intros v e Hg Hb Hwf Hs. rewrite std_as_asl by assumption. apply cls_other_exception; assumption. Qed.
Theorem std_cls_stop_misattribution : forall v r,
  (e_kind v = KStopIter \/ e_kind v = KStopAsync) -> e_kind r = KRuntime ->
  block_wf (Some v) = true -> resp_wf (Some v) (GRaise r true) = true ->
  with_outcome (Some v) (std_aexit (Some v) (GRaise r true)) = WRaises v.
Proof.
  intros v r Hv Hr Hb Hwf.
  rewrite std_as_asl; try assumption.
  - apply cls_stop_misattribution; assumption.
  - destruct Hv as [Hv|Hv]; rewrite Hv; discriminate.
Qed.
Theorem std_cls_total : forall v resp,
  e_kind v <> KGenExit -> block_wf (Some v) = true -> resp_wf (Some v) resp = true ->
  with_outcome (Some v) (std_aexit (Some v) resp) =
  match resp with
  | GStop => WNormal
  | GYield => WRuntimeLib
  | GRaise e c =>
      if same_ex e v then WRaises v
      else if ekind_eqb (e_kind e) KRuntime && c
              && (ekind_eqb (e_kind v) KStopIter || ekind_eqb (e_kind v) KStopAsync)
           then WRaises v
           else WRaises e
  end.
Proof. intros v resp Hg Hb Hwf. rewrite std_as_asl by assumption. apply cls_total; assumption. Qed.
Theorem std_cls_normal : forall resp,
  with_outcome None (std_aexit None resp) =
  match resp with GStop => WNormal | GYield => WRuntimeLib | GRaise e _ => WRaises e end.
Proof. intros resp; destruct resp; reflexivity. Qed.

(* ------------------------------------------------------------------------------------------------ *)
(* 4. the deliberate difference: GeneratorExit                                                       *)
(* ------------------------------------------------------------------------------------------------ *)

Theorem genexit_uses_aclose : forall v, e_kind v = KGenExit -> asl_uses_aclose (Some v) = true.
Proof. intros [k i] H; simpl in *; subst k; reflexivity. Qed.
Theorem not_genexit_uses_athrow : forall block, not_genexit block -> asl_uses_aclose block = false.
Proof.
  intros [[k i]|] H; simpl in *; [|reflexivity]. destruct k; try reflexivity; congruence.
Qed.

Theorem genexit_propagates : forall v resp,
  e_kind v = KGenExit -> resp = GStop ->
  with_outcome (Some v) (asl_aexit (Some v) resp) = WRaises v.
Proof. intros [k i] resp Hk Hr; simpl in *; subst k resp; reflexivity. Qed.

(* known finding: if closing the generator raises, that error replaces the GeneratorExit *)
Theorem genexit_close_fails : forall v e c,
  e_kind v = KGenExit -> resp_wf (Some v) (GRaise e c) = true -> same_ex e v = false ->
  with_outcome (Some v) (asl_aexit (Some v) (GRaise e c)) = WRaises e.
Proof.
  intros [k i] [k' i'] c Hk Hwf Hs. apply resp_wf_wf14 in Hwf.
  unfold resp_wf14, asl_aexit, asl_handlers in *. simpl in *. subst k. rewrite Hs in *. simpl in *.
  destruct k'; simpl in *; try discriminate; reflexivity.
Qed.
(* only conjunct 1 of [resp_wf] is used ... *)
Theorem genexit_close_fails_c1 : forall v e c,
  e_kind v = KGenExit -> e_kind e <> KStopAsync -> same_ex e v = false ->
  with_outcome (Some v) (asl_aexit (Some v) (GRaise e c)) = WRaises e.
Proof.
  intros [k i] [k' i'] c Hk H1 Hs.
  unfold asl_aexit, asl_handlers in *. simpl in *. subst k. rewrite Hs. simpl.
  destruct k'; simpl in *; try reflexivity; congruence.
Qed.
(* ... and it is needed *)
Theorem genexit_close_fails_refuted_without_wf :
  exists v e c, e_kind v = KGenExit /\ same_ex e v = false /\
    with_outcome (Some v) (asl_aexit (Some v) (GRaise e c)) <> WRaises e.
Proof. exists (mkEx KGenExit 3), (mkEx KStopAsync 4), false. vm_compute. repeat split; discriminate. Qed.
(* the generator swallowing the close request and yielding: the library's RuntimeError *)
Theorem genexit_yield : forall v,
  e_kind v = KGenExit -> with_outcome (Some v) (asl_aexit (Some v) GYield) = WRuntimeLib.
Proof. intros v _; reflexivity. Qed.
(* closing re-raises the very GeneratorExit: same object propagates *)
Theorem genexit_close_reraises : forall v e c,
  e_kind v = KGenExit -> resp_wf (Some v) (GRaise e c) = true -> same_ex e v = true ->
  with_outcome (Some v) (asl_aexit (Some v) (GRaise e c)) = WRaises v.
Proof.
  intros [k i] [k' i'] c Hk Hwf Hs. apply resp_wf_wf14 in Hwf.
  unfold resp_wf14, asl_aexit, asl_handlers in *. simpl in *. subst k. rewrite Hs in *. simpl in *.
  destruct k'; simpl in *; try discriminate; reflexivity.
Qed.
(* why it is a DIFFERENCE: the stdlib formula applied to the same response (generator finished)
   suppresses the GeneratorExit instead *)
Theorem genexit_std_formula_differs : forall v,
  e_kind v = KGenExit -> block_wf (Some v) = true ->
  with_outcome (Some v) (std_aexit (Some v) GStop) = WNormal /\
  with_outcome (Some v) (asl_aexit (Some v) GStop) <> with_outcome (Some v) (std_aexit (Some v) GStop).
Proof.
  intros [k i] Hk Hb. simpl in *. subst k.
  unfold std_handlers, same_ex; simpl.
  destruct i as [|i]; simpl in *; [discriminate|]. split; [reflexivity|discriminate].
Qed.

(* ------------------------------------------------------------------------------------------------ *)
(* Examples                                                                                          *)
(* ------------------------------------------------------------------------------------------------ *)

Definition vExc := mkEx KExc 11.
Definition vStopIter := mkEx KStopIter 12.
Definition vStopAsync := mkEx KStopAsync 13.
Definition vRt := mkEx KRuntime 14.
Definition vGenExit := mkEx KGenExit 15.
Definition vKbd := mkEx KKbd 16.
Definition other := mkEx KExc 21.
Definition conv := mkEx KRuntime 22.      (* the interpreter's "generator raised StopIteration" *)

Example ex_enter : map asl_aenter [GYield; GStop; GRaise other false]
                   = [Entered; RuntimeNoYield; EnterRaises other].
Proof. vm_compute. reflexivity. Qed.
Example ex_passthrough : with_outcome (Some vExc) (asl_aexit (Some vExc) (GRaise vExc false)) = WRaises vExc.
Proof. vm_compute. reflexivity. Qed.
Example ex_suppressed : with_outcome (Some vKbd) (asl_aexit (Some vKbd) GStop) = WNormal.
Proof. vm_compute. reflexivity. Qed.
Example ex_yield_again : with_outcome (Some vExc) (asl_aexit (Some vExc) GYield) = WRuntimeLib.
Proof. vm_compute. reflexivity. Qed.
Example ex_other : with_outcome (Some vKbd) (asl_aexit (Some vKbd) (GRaise other false)) = WRaises other.
Proof. vm_compute. reflexivity. Qed.
Example ex_misattr_stopiter :
  with_outcome (Some vStopIter) (asl_aexit (Some vStopIter) (GRaise conv true)) = WRaises vStopIter
  /\ with_outcome (Some vStopIter) (std_aexit (Some vStopIter) (GRaise conv true)) = WRaises vStopIter.
Proof. vm_compute. split; reflexivity. Qed.
Example ex_misattr_stopasync :
  with_outcome (Some vStopAsync) (asl_aexit (Some vStopAsync) (GRaise conv true)) = WRaises vStopAsync.
Proof. vm_compute. reflexivity. Qed.
Example ex_not_misattr :    (* RuntimeError caused by a plain Exception propagates as itself *)
  with_outcome (Some vExc) (asl_aexit (Some vExc) (GRaise conv true)) = WRaises conv.
Proof. vm_compute. reflexivity. Qed.
Example ex_runtime_same : with_outcome (Some vRt) (asl_aexit (Some vRt) (GRaise vRt false)) = WRaises vRt.
Proof. vm_compute. reflexivity. Qed.
Example ex_genexit : with_outcome (Some vGenExit) (asl_aexit (Some vGenExit) GStop) = WRaises vGenExit
                     /\ asl_uses_aclose (Some vGenExit) = true.
Proof. vm_compute. split; reflexivity. Qed.
Example ex_genexit_close_fails :
  with_outcome (Some vGenExit) (asl_aexit (Some vGenExit) (GRaise other false)) = WRaises other.
Proof. vm_compute. reflexivity. Qed.
Example ex_normal : map (fun r => with_outcome None (asl_aexit None r)) [GStop; GYield; GRaise other false]
                    = [WNormal; WRuntimeLib; WRaises other].
Proof. vm_compute. reflexivity. Qed.
(* the hypotheses of [aexit_equal_partial] are satisfiable non-trivially *)
Example ex_hyps_ok :
  resp_wf (Some vStopIter) (GRaise conv true) = true /\ block_wf (Some vStopIter) = true
  /\ resp_wf (Some vExc) (GRaise vExc false) = true /\ resp_wf (Some vKbd) (GRaise other false) = true.
Proof. vm_compute. repeat split. Qed.
(* exhaustive agreement on a grid: all 6 non-GeneratorExit kinds (+ normal end) x all wf responses
   built from 7 kinds x 3 ids x 2 cause flags, compared with [agree_cond] *)
Definition kinds := [KExc; KBaseExc; KStopIter; KStopAsync; KRuntime; KGenExit; KKbd].
Definition grid_blocks : list (option ex) :=
  None :: flat_map (fun k => map (fun i => Some (mkEx k i)) [0; 1; 2]) kinds.
Definition grid_resps : list gresp :=
  GYield :: GStop ::
  flat_map (fun k => flat_map (fun i => [GRaise (mkEx k i) false; GRaise (mkEx k i) true]) [0; 1; 2]) kinds.
Definition aexit_eqb (a b : aexit) : bool :=
  match a, b with
  | RetTrue, RetTrue | RetFalse, RetFalse | RuntimeNotStopped, RuntimeNotStopped => true
  | Raises e, Raises e' => ex_eqb e e'
  | _, _ => false
  end.
Example ex_grid :
  forallb (fun b => forallb (fun r =>
     asl_uses_aclose b || eqb (aexit_eqb (asl_aexit b r) (std_aexit b r)) (agree_cond b r)) grid_resps)
     grid_blocks = true.
Proof. vm_compute. reflexivity. Qed.

Print Assumptions aenter_equal.
Print Assumptions aexit_equal_iff.
Print Assumptions aexit_equal_refuted.
Print Assumptions aexit_equal_weakest.
Print Assumptions aexit_equal_wf14.
Print Assumptions aexit_equal_partial.
Print Assumptions with_outcome_equal_partial.
Print Assumptions aexit_equal_not_stop.
Print Assumptions aexit_equal_normal_block.
Print Assumptions aexit_equal_refuted_without_wf.
Print Assumptions aexit_equal_conj1_needed.
Print Assumptions aexit_equal_conj4_needed.
Print Assumptions aexit_equal_conj23_not_needed.
Print Assumptions cls_passthrough.
Print Assumptions cls_passthrough_same_object.
Print Assumptions cls_suppressed.
Print Assumptions cls_yields_again.
Print Assumptions cls_other_exception.
Print Assumptions cls_other_exception_gen.
Print Assumptions cls_stop_misattribution.
Print Assumptions cls_runtime_same_object.
Print Assumptions cls_runtime_other_cause.
Print Assumptions cls_normal_stop.
Print Assumptions cls_normal_yield.
Print Assumptions cls_normal_raise.
Print Assumptions cls_total.
Print Assumptions std_cls_passthrough.
Print Assumptions std_cls_suppressed.
Print Assumptions std_cls_yields_again.
Print Assumptions std_cls_other_exception.
Print Assumptions std_cls_stop_misattribution.
Print Assumptions std_cls_total.
Print Assumptions std_cls_normal.
Print Assumptions genexit_uses_aclose.
Print Assumptions not_genexit_uses_athrow.
Print Assumptions genexit_propagates.
Print Assumptions genexit_close_fails.
Print Assumptions genexit_close_fails_c1.
Print Assumptions genexit_close_fails_refuted_without_wf.
Print Assumptions genexit_yield.
Print Assumptions genexit_close_reraises.
Print Assumptions genexit_std_formula_differs.
