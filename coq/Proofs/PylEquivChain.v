(* Fifth batch of generator functions: chain._chain_iterator and cycle (itertools.py).
   chain's generator walks a tuple of iterables ([SWithStar], [SForStar]); cycle keeps a buffer list
   ([SAppend]) and replays it forever ([SWhileTrue] over [SForList]).
   As in the other PylEquiv files: the translated source (Gen/PylSrc.v, regenerated from /repo on every run)
   denotes exactly the hand-written model, for every argument, consumer and world.
   For cycle the model [a_cycle passes] takes the number of replays it may perform as a parameter, where the
   translated [while True] takes its fuel from [with_fuel]; [src_cycle_ok] therefore states equality with
   [a_cycle_wf] (the same body with that fuel), and [a_cycle_wf_passes] says that every run of [a_cycle_wf] is
   the run of [a_cycle passes] for some [passes] -- which is what the theorems of Proofs/Cycle.v (for all
   [passes]) are about. *)
From Coq Require Import List ZArith NArith Bool Arith String Lia.
Import ListNotations.
Require Import V.Kernel.Values V.Kernel.Monad V.Model.Builtins V.Model.Itertools V.Model.Pyl V.Gen.PylSrc V.Proofs.PylRel V.Proofs.PylTac.

(* ---------- unfolding equations (stated before the primitives are declared [simpl never]) ---------- *)
Lemma bind_with_fuel {A B} (g : nat -> M A) (k : A -> M B) w :
  bind (with_fuel g) k w = bind (g (S (total_left w))) k w.
Proof. reflexivity. Qed.
Lemma while_fuel_S f body en :
  while_fuel (S f) body en =
  (r <- body en ;; match snd r with Normal => while_fuel f body (fst r) | Brk => ret (fst r, Normal) | _ => ret r end).
Proof. reflexivity. Qed.
Lemma for_star_cons i r it body en :
  for_star (i :: r) it body en =
  (rr <- body (set_it en it i) ;;
   match snd rr with Normal => for_star r it body (fst rr) | Brk => ret (fst rr, Normal) | _ => ret rr end).
Proof. reflexivity. Qed.
Lemma for_list_cons v r x body en :
  for_list (v :: r) x body en =
  (rr <- body (set_var en x v) ;;
   match snd rr with Normal => for_list r x body (fst rr) | Brk => ret (fst rr, Normal) | _ => ret rr end).
Proof. reflexivity. Qed.
Lemma chain_body_cons i r yield :
  chain_body (i :: r) yield = (scoped i (each i yield) ;;; chain_body r yield).
Proof. reflexivity. Qed.
Lemma replay_cons x r yield : replay (x :: r) yield = (yield x ;;; replay r yield).
Proof. reflexivity. Qed.
Lemma cycle_again_S f buffer yield :
  cycle_again (S f) buffer yield = (replay buffer yield ;;; cycle_again f buffer yield).
Proof. reflexivity. Qed.

#[local] Arguments bind : simpl never.
#[local] Arguments ret : simpl never.
#[local] Arguments raise : simpl never.
#[local] Arguments pull : simpl never.
#[local] Arguments call : simpl never.
#[local] Arguments close : simpl never.
#[local] Arguments scoped : simpl never.
#[local] Arguments finally : simpl never.
#[local] Arguments loop_src : simpl never.
#[local] Arguments iter_src : simpl never.
#[local] Arguments each : simpl never.
#[local] Arguments with_fuel : simpl never.
#[local] Arguments while_fuel : simpl never.
#[local] Arguments for_star : simpl never.
#[local] Arguments for_list : simpl never.
#[local] Arguments chain_body : simpl never.
#[local] Arguments replay : simpl never.
#[local] Arguments cycle_again : simpl never.

(* the loops of this file never leave by break *)
Definition never_rel {A B} (_ : A) (_ : B) : Prop := False.

(* ---------- chain._chain_iterator ---------- *)
Definition ch_inner : stmt :=
  SWith "iterator" "iterable" (SFor "item" "iterator" (SYield (EVar "item")) SSkip).

Lemma for_star_chain yield : forall ss en w,
  orel (fun (r : env * sig) (_ : unit) => snd r = Normal)
       (for_star ss "iterable" (fun e => exec ch_inner e yield) en w) (chain_body ss yield w).
Proof.
  induction ss as [|i r IH]; intros en w.
  - apply orel_ret. reflexivity.
  - rewrite for_star_cons, chain_body_cons.
    apply (bind_rel (fun (r1 : env * sig) (_ : unit) => snd r1 = Normal)).
    + unfold ch_inner, each. norm. apply scoped_rel. norm.
      apply (bind_rel (exit_rel (fun (st1 : env * sig) (_ : unit) => snd st1 = Normal) never_rel)).
      * apply loop_src_rel; [|reflexivity].
        intros st1 st2 x w1 HR. norm. apply bind_same. intros u w2. norm.
        apply orel_ret, step_rel_cont. reflexivity.
      * intros [[en1 sg] c] [u c2] w1 [Hc HR]. cbn [fst snd] in Hc, HR |- *. subst c2.
        destruct c; cbn [fst snd] in HR; [destruct HR|].
        subst sg. norm. apply orel_ret. reflexivity.
    + intros [en1 sg] u w1 HR. cbn [fst snd] in HR |- *. subst sg. apply IH.
Qed.

Theorem src_chain_iterator_ok : forall ss yield w,
  run_genfn src_chain_iterator [AIters ss] yield w = chain_body ss yield w.
Proof.
  intros ss yield w. unfold run_genfn, run_genfn_in, src_chain_iterator. apply orel_eq.
  fold ch_inner. norm.
  eapply bind_rel_l; [apply for_star_chain|].
  intros [en sg] u w1 HR. cbn [fst snd] in HR |- *. subst sg. norm. apply unit_ret_rel.
Qed.

(* ---------- cycle ---------- *)
Definition a_cycle_wf : gen := fun yield =>
  r <- scoped 0 (loop_src 0 (fun buf x => yield x ;;; ret (x :: buf, true)) []) ;;
  match fst r with
  | [] => ret tt
  | b => with_fuel (fun f => cycle_again f (rev b) yield)
  end.

(* every run of the fuel-from-the-world version is the run of [a_cycle passes] for some [passes] *)
Theorem a_cycle_wf_passes : forall yield w, exists passes, a_cycle_wf yield w = a_cycle passes yield w.
Proof.
  intros yield w. unfold a_cycle_wf, a_cycle.
  set (m := scoped 0 (loop_src 0 (fun buf x => yield x ;;; ret (x :: buf, true)) [])).
  unfold bind. destruct (m w) as [[r|e|] w1].
  - exists (S (total_left w1)). destruct (fst r); reflexivity.
  - exists 0. reflexivity.
  - exists 0. reflexivity.
Qed.

Definition cy_replay : stmt := SForList "item" "buffer" (SYield (EVar "item")).

Lemma for_list_replay yield : forall l en w,
  orel (fun (r : env * sig) (_ : unit) =>
          snd r = Normal /\ lookup "buffer"%string (e_vars (fst r)) = lookup "buffer"%string (e_vars en))
       (for_list l "item" (fun e => exec (SYield (EVar "item")) e yield) en w) (replay l yield w).
Proof.
  induction l as [|x r IH]; intros en w.
  - apply orel_ret. split; reflexivity.
  - rewrite for_list_cons, replay_cons. norm. apply bind_same. intros u w1. norm.
    eapply orel_mono; [|apply IH]. intros [en1 sg] u1 [H1 H2]. cbn [fst snd] in H1, H2 |- *. split; [exact H1|exact H2].
Qed.

Lemma cycle_while yield b : forall f en w,
  lookup "buffer"%string (e_vars en) = Some (Some (VList b)) ->
  orel (fun (r : env * sig) (_ : unit) => sig_noexc r)
       (while_fuel f (fun e => exec cy_replay e yield) en w) (cycle_again f b yield w).
Proof.
  induction f as [|f IH]; intros en w Hb.
  - apply orel_fuel.
  - rewrite while_fuel_S, cycle_again_S. unfold cy_replay at 1. norm. rewrite Hb. norm.
    eapply bind_rel; [apply for_list_replay|].
    intros [en1 sg] u w1 [H1 H2]. cbn [fst snd] in H1, H2 |- *. subst sg. apply IH. rewrite H2. exact Hb.
Qed.

Theorem src_cycle_ok : forall yield w,
  run_genfn src_cycle [AIter 0] yield w = a_cycle_wf yield w.
Proof.
  intros yield w. unfold run_genfn, run_genfn_in, src_cycle, a_cycle_wf. apply orel_eq.
  fold cy_replay. norm.
  apply (bind_rel (fun (r1 : env * sig) (r2 : list val * bool) =>
                     snd r1 = Normal /\ lookup "buffer"%string (e_vars (fst r1)) = Some (Some (VList (rev (fst r2)))))).
  - apply scoped_rel. norm.
    apply (bind_rel_l (exit_rel (fun (st1 : env * sig) (buf : list val) =>
                                 snd st1 = Normal /\
                                 lookup "buffer"%string (e_vars (fst st1)) = Some (Some (VList (rev buf)))) never_rel)).
    + apply loop_src_rel; [|split; reflexivity].
      intros st1 buf x w1 [HS HB]. norm. rewrite HB. norm. apply bind_same. intros u w2. norm.
      apply orel_ret, step_rel_cont. split; reflexivity.
    + intros [[en1 sg] c] [buf c2] w1 [Hc HR]. cbn [fst snd] in Hc, HR |- *. subst c2.
      destruct c; cbn [fst snd] in HR; [destruct HR|].
      destruct HR as [HS HB]. cbn [fst snd] in HS, HB. subst sg. norm. apply orel_ret. split; [reflexivity|exact HB].
  - intros [en1 sg] [buf c] w1 [HS HB]. cbn [fst snd] in HS, HB |- *. subst sg.
    assert (Hm : match buf with [] => ret tt | v :: l => with_fuel (fun f => cycle_again f (rev l ++ [v]) yield) end
                 = match rev buf with [] => ret tt | b' => with_fuel (fun f => cycle_again f b' yield) end).
    { destruct buf as [|v l]; [reflexivity|]. change (rev l ++ [v]) with (rev (v :: l)). destruct (rev (v :: l)) eqn:Hr; [|reflexivity].
      apply (f_equal (@rev val)) in Hr. rewrite rev_involutive in Hr. discriminate. }
    rewrite Hm. clear Hm. norm. rewrite HB. norm.
    destruct (rev buf) as [|v l] eqn:Hr; norm.
    + apply orel_ret. reflexivity.
    + rewrite bind_with_fuel. unfold with_fuel.
      eapply bind_rel_l; [apply (cycle_while yield (v :: l)); exact HB|].
      intros [en2 sg] u w2 HR. destruct sg; try contradiction; norm; apply unit_ret_rel.
Qed.

(* the two functions of this file are inside the translated fragment and listed in Gen/PylSrc.v *)
Theorem chain_sources_supported :
  forallb (fun f => supported (f_body f)) [src_chain_iterator; src_cycle] = true.
Proof. vm_compute. reflexivity. Qed.
Theorem chain_sources_listed :
  forallb (fun f => existsb (fun g => String.eqb (f_name f) (f_name g)) iter_sources
                    && existsb (fun g => String.eqb (f_name f) (f_name g)) all_sources)
          [src_chain_iterator; src_cycle] = true.
Proof. vm_compute. reflexivity. Qed.

Print Assumptions src_chain_iterator_ok.
Print Assumptions src_cycle_ok.
Print Assumptions a_cycle_wf_passes.
Print Assumptions chain_sources_supported.
Print Assumptions chain_sources_listed.
