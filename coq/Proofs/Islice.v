(* islice: the model performs exactly the pulls / yields of itertools.islice *)
From Coq Require Import List ZArith NArith Bool Arith Lia.
Import ListNotations.
Require Import V.Kernel.Values V.Kernel.Monad V.Model.Builtins V.Model.Itertools.
Require Import V.Proofs.Steps V.Proofs.ItSteps V.Std.Filter V.Std.Itertools1.
Local Open Scope Z_scope.

(* ---- facts about the specification ---- *)
Lemma done_before start stop i : i < start -> islice_done start stop i = false.
Proof. intros H. unfold islice_done. destruct stop as [st|]; [|reflexivity]. apply Z.leb_gt. lia. Qed.
Lemma sel_before start stop step i : i < start -> islice_sel start stop step i = false.
Proof. intros H. unfold islice_sel. replace (start <=? i) with false; [reflexivity|]. symmetry; apply Z.leb_gt; lia. Qed.
Lemma sel_at_none start step idx : 0 <= idx ->
  islice_sel start None step (start + idx) = (idx mod step =? 0).
Proof.
  intros H. unfold islice_sel. replace (start + idx - start) with idx by lia.
  replace (start <=? start + idx) with true; [reflexivity|]. symmetry; apply Z.leb_le; lia.
Qed.
Lemma sel_at_some start st step idx : 0 <= idx -> start + idx < st ->
  islice_sel start (Some st) step (start + idx) = (idx mod step =? 0).
Proof.
  intros H H'. unfold islice_sel. replace (start + idx - start) with idx by lia.
  replace (start <=? start + idx) with true by (symmetry; apply Z.leb_le; lia).
  replace (start + idx <? st) with true by (symmetry; apply Z.ltb_lt; lia). reflexivity.
Qed.
Lemma done_some_false start st i : i < st -> islice_done start (Some st) i = false.
Proof. intros H. unfold islice_done. apply Z.leb_gt. lia. Qed.
Lemma done_some_true start st i : start <= i -> st <= i -> islice_done start (Some st) i = true.
Proof. intros H H'. unfold islice_done. apply Z.leb_le. lia. Qed.

Lemma islice_from_nc start stop step : forall xs i, nc (islice_from start stop step i xs) = true.
Proof.
  induction xs as [|x xs IH]; intros i; cbn [islice_from]; destruct (islice_done start stop i); try reflexivity.
  cbn [app]. destruct (islice_sel start stop step i); cbn; apply IH.
Qed.

(* ---- phase 1: skipping [start] items ---- *)
Lemma skip_iter start stop step : forall xs n c lg u, (length xs < n)%nat -> 1 <= c <= start ->
  exists u' c',
    iter_src n 0 (fun (c : Z) (_ : val) => if Z.eqb c start then ret (c, false) else ret ((c + 1)%Z, true)) c (W1 xs lg u)
      = (Ok (c', false), WE (rev (islice_from start stop step (c - 1) xs) ++ lg) u')
    \/ exists pre xs',
      iter_src n 0 (fun (c : Z) (_ : val) => if Z.eqb c start then ret (c, false) else ret ((c + 1)%Z, true)) c (W1 xs lg u)
        = (Ok (c', true), W1 xs' (rev pre ++ lg) u')
      /\ islice_from start stop step (c - 1) xs = pre ++ islice_from start stop step start xs'.
Proof.
  induction xs as [|x xs IH]; intros n c lg u Hn Hc; destruct n as [|n]; try (simpl in Hn; lia).
  - exists (S u), c. left. cbn [iter_src]. mstep'. cbn [islice_from]. rewrite done_before by lia. reflexivity.
  - assert (Hlen : (length xs < n)%nat) by (simpl in Hn; lia).
    cbn [iter_src]. mstep'. cbn [islice_from]. rewrite done_before, sel_before by lia.
    destruct (Z.eqb_spec c start) as [Heq|Hne]; mstep'; cbn [snd fst].
    + exists (S u), c. right. exists [EPull 0; EItem 0 x], xs. split; [reflexivity|].
      replace (c - 1 + 1) with start by lia. reflexivity.
    + destruct (IH n (c + 1) (EItem 0 x :: EPull 0 :: lg) (S u) Hlen ltac:(lia)) as [u' [c' [H|[pre [xs' [H H']]]]]];
        replace (c + 1 - 1) with (c - 1 + 1) in * by lia.
      * exists u', c'. left. rewrite H. f_equal. f_equal. logeq.
      * exists u', c'. right. exists ([EPull 0; EItem 0 x] ++ pre), xs'. split.
        -- rewrite H. f_equal. f_equal. logeq.
        -- rewrite H'. reflexivity.
Qed.

(* ---- phase 2, stop = None: run to the end ---- *)
Lemma loop_none start step : forall xs n idx lg u, (length xs < n)%nat -> 0 <= idx ->
  exists u' c',
    iter_src n 0 (fun (idx : Z) (x : val) => (if Z.eqb (Z.modulo idx step) 0 then yield_to x else ret tt) ;;;
                                            ret ((idx + 1)%Z, true)) idx (W1 xs lg u)
    = (Ok (c', false), WE (rev (islice_from start None step (start + idx) xs) ++ lg) u').
Proof.
  induction xs as [|x xs IH]; intros n idx lg u Hn Hidx; destruct n as [|n]; try (simpl in Hn; lia).
  - exists (S u), idx. cbn [iter_src]. mstep'. reflexivity.
  - assert (Hlen : (length xs < n)%nat) by (simpl in Hn; lia).
    cbn [iter_src]. mstep'. cbn [islice_from islice_done]. rewrite sel_at_none by lia.
    replace (start + idx + 1) with (start + (idx + 1)) by lia.
    destruct (idx mod step =? 0); mstep'; cbn [snd fst].
    + destruct (IH n (idx + 1) (EYield x :: EItem 0 x :: EPull 0 :: lg) (S (S u)) Hlen ltac:(lia)) as [u' [c' H]].
      exists u', c'. rewrite H. f_equal. f_equal. logeq.
    + destruct (IH n (idx + 1) (EItem 0 x :: EPull 0 :: lg) (S u) Hlen ltac:(lia)) as [u' [c' H]].
      exists u', c'. rewrite H. f_equal. f_equal. logeq.
Qed.

(* ---- phase 2, stop = Some st > start: run until position st - 1 was handled ---- *)
Lemma loop_some start st step : start < st -> forall xs n idx lg u, (length xs < n)%nat ->
  0 <= idx <= st - (start + 1) ->
  exists u' c' b l e,
    iter_src n 0 (fun (idx : Z) (x : val) => (if Z.eqb (Z.modulo idx step) 0 then yield_to x else ret tt) ;;;
                                            ret ((idx + 1)%Z, negb (Z.leb (st - (start + 1)) idx))) idx (W1 xs lg u)
    = (Ok (c', b), WS l e (rev (islice_from start (Some st) step (start + idx) xs) ++ lg) u').
Proof.
  intros Hst.
  induction xs as [|x xs IH]; intros n idx lg u Hn Hidx; destruct n as [|n]; try (simpl in Hn; lia).
  - exists (S u), idx, false, [], true. cbn [iter_src]. mstep'. cbn [islice_from].
    rewrite done_some_false by lia. reflexivity.
  - assert (Hlen : (length xs < n)%nat) by (simpl in Hn; lia).
    cbn [iter_src]. mstep'. cbn [islice_from]. rewrite done_some_false by lia.
    rewrite sel_at_some by lia.
    replace (start + idx + 1) with (start + (idx + 1)) by lia.
    destruct (Z.leb_spec (st - (start + 1)) idx) as [Hlast|Hmore].
    + (* the last wanted position: the loop is left by break *)
      assert (Hdone : islice_from start (Some st) step (start + (idx + 1)) xs = []).
      { destruct xs; cbn [islice_from]; rewrite done_some_true by lia; reflexivity. }
      rewrite Hdone.
      destruct (idx mod step =? 0); mstep'; cbn [snd fst negb].
      * exists (S (S u)), (idx + 1), true, xs, false. reflexivity.
      * exists (S u), (idx + 1), true, xs, false. reflexivity.
    + destruct (idx mod step =? 0); mstep'; cbn [snd fst negb].
      * destruct (IH n (idx + 1) (EYield x :: EItem 0 x :: EPull 0 :: lg) (S (S u)) Hlen ltac:(lia))
          as [u' [c' [b [l [e H]]]]].
        exists u', c', b, l, e. rewrite H. f_equal. f_equal. logeq.
      * destruct (IH n (idx + 1) (EItem 0 x :: EPull 0 :: lg) (S u) Hlen ltac:(lia))
          as [u' [c' [b [l [e H]]]]].
        exists u', c', b, l, e. rewrite H. f_equal. f_equal. logeq.
Qed.

(* ---- the part after the skipping, started at position [start] ---- *)
Definition islice_rest (start : Z) (stop : option Z) (step : Z) : M unit :=
  match stop with
  | None =>
      loop_src 0 (fun idx x => (if Z.eqb (Z.modulo idx step) 0 then yield_to x else ret tt) ;;;
                               ret ((idx + 1)%Z, true)) 0%Z ;;; ret tt
  | Some st =>
      if Z.leb st start then ret tt
      else let last := (st - (start + 1))%Z in
           loop_src 0 (fun idx x => (if Z.eqb (Z.modulo idx step) 0 then yield_to x else ret tt) ;;;
                                    ret ((idx + 1)%Z, negb (Z.leb last idx))) 0%Z ;;; ret tt
  end.

Lemma islice_rest_ok start stop step xs lg u : 0 <= start ->
  exists l e u',
    islice_rest start stop step (W1 xs lg u)
    = (Ok tt, WS l e (rev (islice_from start stop step start xs) ++ lg) u').
Proof.
  intros Hs. unfold islice_rest. destruct stop as [st|].
  - destruct (Z.leb_spec st start) as [Hle|Hgt].
    + exists xs, false, u. rewrite ret_app.
      replace (islice_from start (Some st) step start xs) with (@nil event); [reflexivity|].
      destruct xs; cbn [islice_from]; rewrite done_some_true by lia; reflexivity.
    + cbv zeta. rewrite bind_loop_src, items_left1.
      destruct (loop_some start st step Hgt xs (S (length xs)) 0 lg u (Nat.lt_succ_diag_r _) ltac:(lia))
        as [u' [c' [b [l [e H]]]]].
      exists l, e, u'. rewrite (bind_ok _ _ _ _ _ H). rewrite ret_app.
      replace (start + 0) with start by lia. reflexivity.
  - rewrite bind_loop_src, items_left1.
    destruct (loop_none start step xs (S (length xs)) 0 lg u (Nat.lt_succ_diag_r _) ltac:(lia)) as [u' [c' H]].
    exists [], true, u'. rewrite (bind_ok _ _ _ _ _ H). rewrite ret_app.
    replace (start + 0) with start by lia. reflexivity.
Qed.

Lemma islice_body start stop step xs : 0 <= start ->
  exists l e u,
    (skipped <- (if Z.ltb 0 start
                 then r <- loop_src 0 (fun c _ => if Z.eqb c start then ret (c, false) else ret ((c + 1)%Z, true)) 1%Z ;;
                      ret (snd r)
                 else ret true) ;;
     if negb skipped then ret tt else islice_rest start stop step) (W1 xs [] 0)
    = (Ok tt, WS l e (rev (spec_islice_trace start stop step xs)) u).
Proof.
  intros Hs. unfold spec_islice_trace. destruct (Z.ltb_spec 0 start) as [Hpos|Hzero].
  - rewrite bind_assoc, bind_loop_src, items_left1.
    destruct (skip_iter start stop step xs (S (length xs)) 1 [] 0 (Nat.lt_succ_diag_r _) ltac:(lia))
      as [u' [c' [H|[pre [xs' [H H']]]]]]; replace (1 - 1) with 0 in * by lia.
    + exists [], true, u'. rewrite (bind_ok _ _ _ _ _ H). rewrite bind_ret. cbn [snd negb].
      rewrite ret_app, app_nil_r. reflexivity.
    + rewrite (bind_ok _ _ _ _ _ H). rewrite bind_ret. cbn [snd negb].
      destruct (islice_rest_ok start stop step xs' (rev pre ++ []) u' Hs) as [l [e [u'' Hr]]].
      exists l, e, u''. rewrite Hr. f_equal. f_equal. rewrite H', rev_app_distr, app_nil_r. reflexivity.
  - assert (start = 0) by lia. subst start. rewrite bind_ret. cbn [negb].
    destruct (islice_rest_ok 0 stop step xs [] 0 Hs) as [l [e [u'' Hr]]].
    exists l, e, u''. rewrite Hr, app_nil_r. reflexivity.
Qed.

Definition islice_domain (start : Z) (stop : option Z) (step : Z) : bool :=
  (0 <=? start) && (match stop with None => true | Some st => 0 <=? st end) && (1 <=? step).

Theorem islice_trace : forall start stop step xs, islice_domain start stop step = true ->
  let '(o, w) := run_gen (a_islice start stop step) (init_world [xs] None) in
  o = Ok tt /\ no_closes (rev (log w)) = spec_islice_trace start stop step xs /\ all_released w = true.
Proof.
  intros start stop step xs Hd. unfold islice_domain in Hd.
  apply andb_prop in Hd; destruct Hd as [Hd _]. apply andb_prop in Hd; destruct Hd as [Hs _].
  apply Z.leb_le in Hs.
  destruct (islice_body start stop step xs Hs) as [l [e [u H]]].
  unfold run_gen, a_islice.
  apply (finish_scoped _ xs (Ok tt) l e _ u H); [discriminate|]. apply islice_from_nc.
Qed.

Example islice_domain_ex : islice_domain 2 (Some 9) 3 = true. Proof. reflexivity. Qed.
Example islice_trace_ex :
  spec_islice_trace 1 (Some 4) 2 [VInt 10; VInt 11; VInt 12; VInt 13; VInt 14; VInt 15]
  = [EPull 0; EItem 0 (VInt 10); EPull 0; EItem 0 (VInt 11); EYield (VInt 11);
     EPull 0; EItem 0 (VInt 12); EPull 0; EItem 0 (VInt 13); EYield (VInt 13)].
Proof. reflexivity. Qed.

(* ---- the yielded items are those at positions start, start+step, ... < stop ---- *)
Lemma sel_after_done start stop step i j : islice_done start stop i = true -> i <= j ->
  islice_sel start stop step j = false.
Proof.
  unfold islice_done, islice_sel. destruct stop as [st|]; [|discriminate]. intros H Hij.
  apply Z.leb_le in H. replace (j <? st) with false by (symmetry; apply Z.ltb_ge; lia).
  rewrite andb_false_r. reflexivity.
Qed.
Lemma filter_after_done start stop step : forall xs k, islice_done start stop (Z.of_nat k) = true ->
  filter (fun ix : Z * val => islice_sel start stop step (fst ix)) (combine (map Z.of_nat (seq k (length xs))) xs) = [].
Proof.
  induction xs as [|x xs IH]; intros k Hk; [reflexivity|]. cbn [length seq map combine filter fst].
  rewrite (sel_after_done _ _ _ _ _ Hk) by lia.
  destruct (islice_done start stop (Z.of_nat (S k))) eqn:Hk'; [apply IH, Hk'|].
  exfalso. unfold islice_done in *. destruct stop as [st|]; [|discriminate].
  apply Z.leb_le in Hk. apply Z.leb_gt in Hk'. lia.
Qed.
Lemma islice_yields_from start stop step : forall xs k,
  yields (islice_from start stop step (Z.of_nat k) xs)
  = map snd (filter (fun ix : Z * val => islice_sel start stop step (fst ix))
                    (combine (map Z.of_nat (seq k (length xs))) xs)).
Proof.
  induction xs as [|x xs IH]; intros k; cbn [islice_from].
  - destruct (islice_done start stop (Z.of_nat k)); reflexivity.
  - destruct (islice_done start stop (Z.of_nat k)) eqn:Hk.
    + rewrite (filter_after_done _ _ _ (x :: xs) k Hk). reflexivity.
    + cbn [length seq map combine filter fst]. rewrite !yields_app.
      replace (Z.of_nat k + 1) with (Z.of_nat (S k)) by lia. rewrite IH.
      destruct (islice_sel start stop step (Z.of_nat k)); reflexivity.
Qed.
Corollary islice_yields : forall start stop step xs,
  yields (spec_islice_trace start stop step xs) = spec_islice start stop step xs.
Proof. intros. unfold spec_islice_trace, spec_islice. apply (islice_yields_from start stop step xs 0%nat). Qed.

(* ---- how many items are pulled: all of them and the end, or exactly max(start, stop) and no end ---- *)
Definition pulls (l : list event) : nat := length (filter (fun e => match e with EItem _ _ => true | _ => false end) l).
Definition sees_end (l : list event) : bool := existsb (fun e => match e with EEnd _ => true | _ => false end) l.
Lemma pulls_app l1 l2 : pulls (l1 ++ l2) = (pulls l1 + pulls l2)%nat.
Proof. unfold pulls. rewrite filter_app, app_length. reflexivity. Qed.
Lemma islice_pulls_from start stop step : forall xs k,
  pulls (islice_from start stop step (Z.of_nat k) xs)
  = match stop with
    | None => length xs
    | Some st => Nat.min (length xs) (Z.to_nat (Z.max start st) - k)
    end
  /\ sees_end (islice_from start stop step (Z.of_nat k) xs)
  = match stop with
    | None => true
    | Some st => Nat.ltb (length xs) (Z.to_nat (Z.max start st) - k)
    end.
Proof.
  induction xs as [|x xs IH]; intros k; cbn [islice_from]; unfold islice_done; destruct stop as [st|].
  - cbn [length]. destruct (Z.leb_spec (Z.max start st) (Z.of_nat k)) as [H|H].
    + replace (Z.to_nat (Z.max start st) - k)%nat with 0%nat by lia. split; reflexivity.
    + split; [reflexivity|]. symmetry. apply Nat.ltb_lt. lia.
  - split; reflexivity.
  - destruct (Z.leb_spec (Z.max start st) (Z.of_nat k)) as [H|H].
    + replace (Z.to_nat (Z.max start st) - k)%nat with 0%nat by lia. cbn [length]. rewrite Nat.min_0_r. split; reflexivity.
    + replace (Z.of_nat k + 1) with (Z.of_nat (S k)) by lia. destruct (IH (S k)) as [IH1 IH2].
      change ([EPull 0; EItem 0 x] ++ ?a ++ ?b) with (EPull 0 :: EItem 0 x :: a ++ b).
      split.
      * change (pulls (EPull 0 :: EItem 0 x :: ?l)) with (S (pulls l)). rewrite pulls_app, IH1.
        replace (pulls (if islice_sel start (Some st) step (Z.of_nat k) then [EYield x] else [])) with 0%nat
          by (destruct (islice_sel start (Some st) step (Z.of_nat k)); reflexivity).
        cbn [length]. lia.
      * cbn [sees_end existsb orb]. fold (sees_end ((if islice_sel start (Some st) step (Z.of_nat k) then [EYield x] else [])
               ++ islice_from start (Some st) step (Z.of_nat (S k)) xs)).
        unfold sees_end at 1. rewrite existsb_app. fold (sees_end (islice_from start (Some st) step (Z.of_nat (S k)) xs)).
        rewrite IH2.
        replace (existsb _ (if islice_sel start (Some st) step (Z.of_nat k) then [EYield x] else [])) with false
          by (destruct (islice_sel start (Some st) step (Z.of_nat k)); reflexivity).
        cbn [orb length]. destruct (Nat.ltb_spec (length xs) (Z.to_nat (Z.max start st) - S k));
          symmetry; [apply Nat.ltb_lt|apply Nat.ltb_ge]; lia.
  - replace (Z.of_nat k + 1) with (Z.of_nat (S k)) by lia. destruct (IH (S k)) as [IH1 IH2].
    change ([EPull 0; EItem 0 x] ++ ?a ++ ?b) with (EPull 0 :: EItem 0 x :: a ++ b).
    split.
    + change (pulls (EPull 0 :: EItem 0 x :: ?l)) with (S (pulls l)). rewrite pulls_app, IH1.
      replace (pulls (if islice_sel start None step (Z.of_nat k) then [EYield x] else [])) with 0%nat
        by (destruct (islice_sel start None step (Z.of_nat k)); reflexivity).
      reflexivity.
    + cbn [sees_end existsb orb]. unfold sees_end in IH2. rewrite existsb_app, IH2. apply orb_true_r.
Qed.
Corollary islice_pulls : forall start stop step xs,
  pulls (spec_islice_trace start stop step xs) = spec_islice_pulled start stop (length xs)
  /\ sees_end (spec_islice_trace start stop step xs) = spec_islice_sees_end start stop (length xs).
Proof.
  intros. unfold spec_islice_trace, spec_islice_pulled, spec_islice_sees_end.
  destruct (islice_pulls_from start stop step xs 0) as [H1 H2]. cbn [Z.of_nat] in *. rewrite H1, H2.
  destruct stop; rewrite ?Nat.sub_0_r; split; reflexivity.
Qed.

Print Assumptions islice_trace.
Print Assumptions islice_yields.
Print Assumptions islice_pulls.
