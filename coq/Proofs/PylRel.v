(* Generic, pointwise (no functional extensionality) reasoning principles for the state+error monad of
   Kernel/Monad.v: monad laws, congruences, and a logical relation [orel] on results
   (outcome * world) that is preserved by [bind], [finally]/[scoped] and by the loops
   [iter_src]/[loop_src] with different state types (simulation).  Used by Proofs/PylEquivAgg.v and Proofs/PylEquivIter.v. *)
From Coq Require Import List ZArith NArith Bool Arith Lia.
Import ListNotations.
Require Import V.Kernel.Values V.Kernel.Monad V.Model.Builtins.

(* ---------- monad laws, pointwise ---------- *)
Lemma mbind_ret_l {A B} (a : A) (f : A -> M B) w : bind (ret a) f w = f a w.
Proof. reflexivity. Qed.
Lemma mbind_ret_r {A} (m : M A) w : bind m ret w = m w.
Proof. unfold bind, ret. destruct (m w) as [[a|e|] w1]; reflexivity. Qed.
Lemma mbind_ret_r' {A} (m : M A) w : bind m (fun a => ret a) w = m w.
Proof. apply mbind_ret_r. Qed.
Lemma mbind_assoc {A B C} (m : M A) (f : A -> M B) (g : B -> M C) w :
  bind (bind m f) g w = bind m (fun a => bind (f a) g) w.
Proof. unfold bind. destruct (m w) as [[a|e|] w1]; reflexivity. Qed.
Lemma mbind_raise {A B} e (k : A -> M B) w : bind (raise e) k w = raise e w.
Proof. reflexivity. Qed.
Lemma mbind_cong_r {A B} (m : M A) (f g : A -> M B) :
  (forall a w, f a w = g a w) -> forall w, bind m f w = bind m g w.
Proof. intros Hfg w. unfold bind. destruct (m w) as [[a|e|] w1]; [apply Hfg|reflexivity|reflexivity]. Qed.
Lemma mbind_cong_l {A B} (m1 m2 : M A) (f : A -> M B) :
  (forall w, m1 w = m2 w) -> forall w, bind m1 f w = bind m2 f w.
Proof. intros Hm w. unfold bind. rewrite Hm. reflexivity. Qed.
Lemma mbind_cong {A B} (m1 m2 : M A) (f g : A -> M B) :
  (forall w, m1 w = m2 w) -> (forall a w, f a w = g a w) -> forall w, bind m1 f w = bind m2 g w.
Proof. intros Hm Hfg w. rewrite (mbind_cong_l m1 m2 f Hm). apply mbind_cong_r, Hfg. Qed.
Lemma mbind_if {A B} (c : bool) (m1 m2 : M A) (k : A -> M B) w :
  bind (if c then m1 else m2) k w = if c then bind m1 k w else bind m2 k w.
Proof. destruct c; reflexivity. Qed.

Lemma finally_cong {A} (m1 m2 : M A) (fin1 fin2 : M unit) :
  (forall w, m1 w = m2 w) -> (forall w, fin1 w = fin2 w) -> forall w, finally m1 fin1 w = finally m2 fin2 w.
Proof. intros Hm Hf w. unfold finally. rewrite Hm. destruct (m2 w) as [[a|e|] w1]; rewrite ?Hf; reflexivity. Qed.
Lemma scoped_cong {A} i (m1 m2 : M A) :
  (forall w, m1 w = m2 w) -> forall w, scoped i m1 w = scoped i m2 w.
Proof. intros Hm. unfold scoped. apply finally_cong; [exact Hm|reflexivity]. Qed.

Lemma iter_src_cong {St} i (body1 body2 : St -> val -> M (St * bool)) :
  (forall s x w, body1 s x w = body2 s x w) ->
  forall n s w, iter_src n i body1 s w = iter_src n i body2 s w.
Proof.
  intros Hb. induction n as [|n IHn]; intros s w; [reflexivity|].
  cbn [iter_src]. apply mbind_cong_r. intros [x|] w1; [|reflexivity].
  apply mbind_cong; [apply Hb|]. intros [s' [|]] w2; cbn [fst snd]; [apply IHn|reflexivity].
Qed.
Lemma loop_src_cong {St} i (body1 body2 : St -> val -> M (St * bool)) :
  (forall s x w, body1 s x w = body2 s x w) ->
  forall s w, loop_src i body1 s w = loop_src i body2 s w.
Proof. intros Hb s w. unfold loop_src. apply iter_src_cong, Hb. Qed.

(* ---------- a logical relation on results ---------- *)
Definition orel {A B} (R : A -> B -> Prop) (r1 : outcome A * world) (r2 : outcome B * world) : Prop :=
  snd r1 = snd r2 /\
  match fst r1, fst r2 with
  | Ok a, Ok b => R a b
  | Exn e1, Exn e2 => e1 = e2
  | Fuel, Fuel => True
  | _, _ => False
  end.

Lemma orel_eq {A} (r1 r2 : outcome A * world) : orel eq r1 r2 -> r1 = r2.
Proof.
  destruct r1 as [o1 w1], r2 as [o2 w2]. unfold orel. cbn [fst snd]. intros [Hw Ho]. subst w2.
  destruct o1 as [a1|e1|], o2 as [a2|e2|]; try contradiction; subst; reflexivity.
Qed.
Lemma orel_refl {A} (r : outcome A * world) : orel eq r r.
Proof. destruct r as [[a|e|] w]; split; reflexivity. Qed.
Lemma orel_of_eq {A} (r1 r2 : outcome A * world) : r1 = r2 -> orel eq r1 r2.
Proof. intros ->. apply orel_refl. Qed.
Lemma orel_mono {A B} (R Q : A -> B -> Prop) r1 r2 :
  (forall a b, R a b -> Q a b) -> orel R r1 r2 -> orel Q r1 r2.
Proof.
  intros HRQ [Hw Ho]. split; [exact Hw|].
  destruct (fst r1) as [a1|e1|], (fst r2) as [a2|e2|]; try contradiction; auto.
Qed.
Lemma orel_ret {A B} (R : A -> B -> Prop) a b w : R a b -> orel R (ret a w) (ret b w).
Proof. intros HR. split; [reflexivity|exact HR]. Qed.
Lemma orel_raise {A B} (R : A -> B -> Prop) e w : orel R (raise e w) (raise e w).
Proof. split; reflexivity. Qed.
Lemma orel_fuel {A B} (R : A -> B -> Prop) w : orel R (out_of_fuel w) (out_of_fuel w).
Proof. split; reflexivity. Qed.

Lemma bind_rel {A1 A2 B1 B2} (R : A1 -> A2 -> Prop) (Q : B1 -> B2 -> Prop)
  (m1 : M A1) (m2 : M A2) (f1 : A1 -> M B1) (f2 : A2 -> M B2) w :
  orel R (m1 w) (m2 w) ->
  (forall a1 a2 w', R a1 a2 -> orel Q (f1 a1 w') (f2 a2 w')) ->
  orel Q (bind m1 f1 w) (bind m2 f2 w).
Proof.
  intros Hm Hf. unfold bind. destruct (m1 w) as [o1 w1], (m2 w) as [o2 w2].
  destruct Hm as [Hw Ho]. cbn [fst snd] in Hw, Ho. subst w2.
  destruct o1 as [a1|e1|], o2 as [a2|e2|]; try contradiction.
  - apply Hf, Ho.
  - subst e2. split; reflexivity.
  - split; reflexivity.
Qed.
(* the same computation on both sides, different continuations *)
Lemma bind_same {A B1 B2} (Q : B1 -> B2 -> Prop) (m : M A) (f1 : A -> M B1) (f2 : A -> M B2) w :
  (forall a w', orel Q (f1 a w') (f2 a w')) ->
  orel Q (bind m f1 w) (bind m f2 w).
Proof.
  intros Hf. apply (bind_rel eq); [apply orel_refl|]. intros a1 a2 w' <-. apply Hf.
Qed.
(* a bind on one side only *)
Lemma bind_rel_l {A1 A2 B1} (R : A1 -> A2 -> Prop) (Q : B1 -> A2 -> Prop)
  (m1 : M A1) (m2 : M A2) (f1 : A1 -> M B1) w :
  orel R (m1 w) (m2 w) ->
  (forall a1 a2 w', R a1 a2 -> orel Q (f1 a1 w') (ret a2 w')) ->
  orel Q (bind m1 f1 w) (m2 w).
Proof. intros Hm Hf. rewrite <- (mbind_ret_r m2 w). apply (bind_rel R); assumption. Qed.
Lemma bind_rel_r {A1 A2 B2} (R : A1 -> A2 -> Prop) (Q : A1 -> B2 -> Prop)
  (m1 : M A1) (m2 : M A2) (f2 : A2 -> M B2) w :
  orel R (m1 w) (m2 w) ->
  (forall a1 a2 w', R a1 a2 -> orel Q (ret a1 w') (f2 a2 w')) ->
  orel Q (m1 w) (bind m2 f2 w).
Proof. intros Hm Hf. rewrite <- (mbind_ret_r m1 w). apply (bind_rel R); assumption. Qed.

Lemma finally_rel {A1 A2} (R : A1 -> A2 -> Prop) (m1 : M A1) (m2 : M A2) (fin : M unit) w :
  orel R (m1 w) (m2 w) -> orel R (finally m1 fin w) (finally m2 fin w).
Proof.
  intros Hm. unfold finally. destruct (m1 w) as [o1 w1], (m2 w) as [o2 w2].
  destruct Hm as [Hw Ho]. cbn [fst snd] in Hw, Ho. subst w2.
  destruct o1 as [a1|e1|], o2 as [a2|e2|]; try contradiction;
    try (split; reflexivity);
    destruct (fin w1) as [[u|e|] w3]; split; cbn [fst snd]; auto.
Qed.
Lemma scoped_rel {A1 A2} (R : A1 -> A2 -> Prop) i (m1 : M A1) (m2 : M A2) w :
  orel R (m1 w) (m2 w) -> orel R (scoped i m1 w) (scoped i m2 w).
Proof. unfold scoped. apply finally_rel. Qed.

(* ---------- simulation of loops with different state types ---------- *)
(* [R]: relation between the loop states while the loop runs (and at exhaustion);
   [Rb]: relation between the states with which the bodies leave the loop by break. *)
Definition step_rel {S1 S2} (R Rb : S1 -> S2 -> Prop) (r1 : S1 * bool) (r2 : S2 * bool) : Prop :=
  snd r1 = snd r2 /\ if snd r1 then R (fst r1) (fst r2) else Rb (fst r1) (fst r2).
Definition exit_rel {S1 S2} (R Rb : S1 -> S2 -> Prop) (r1 : S1 * bool) (r2 : S2 * bool) : Prop :=
  snd r1 = snd r2 /\ if snd r1 then Rb (fst r1) (fst r2) else R (fst r1) (fst r2).

Lemma step_rel_cont {S1 S2} (R Rb : S1 -> S2 -> Prop) s1 s2 : R s1 s2 -> step_rel R Rb (s1, true) (s2, true).
Proof. intros H; split; [reflexivity|exact H]. Qed.
Lemma step_rel_break {S1 S2} (R Rb : S1 -> S2 -> Prop) s1 s2 : Rb s1 s2 -> step_rel R Rb (s1, false) (s2, false).
Proof. intros H; split; [reflexivity|exact H]. Qed.

Lemma iter_src_rel {S1 S2} (R Rb : S1 -> S2 -> Prop) i
  (body1 : S1 -> val -> M (S1 * bool)) (body2 : S2 -> val -> M (S2 * bool)) :
  (forall s1 s2 x w, R s1 s2 -> orel (step_rel R Rb) (body1 s1 x w) (body2 s2 x w)) ->
  forall n s1 s2 w, R s1 s2 ->
    orel (exit_rel R Rb) (iter_src n i body1 s1 w) (iter_src n i body2 s2 w).
Proof.
  intros Hb. induction n as [|n IHn]; intros s1 s2 w HR.
  - apply orel_fuel.
  - cbn [iter_src]. apply bind_same. intros [x|] w1.
    + apply (bind_rel (step_rel R Rb)); [apply Hb, HR|].
      intros [t1 c1] [t2 c2] w2 [Hc Ht]. cbn [fst snd] in Hc, Ht |- *. subst c2.
      destruct c1.
      * apply IHn, Ht.
      * apply orel_ret. split; [reflexivity|exact Ht].
    + apply orel_ret. split; [reflexivity|exact HR].
Qed.
Lemma loop_src_rel {S1 S2} (R Rb : S1 -> S2 -> Prop) i
  (body1 : S1 -> val -> M (S1 * bool)) (body2 : S2 -> val -> M (S2 * bool)) :
  (forall s1 s2 x w, R s1 s2 -> orel (step_rel R Rb) (body1 s1 x w) (body2 s2 x w)) ->
  forall s1 s2 w, R s1 s2 ->
    orel (exit_rel R Rb) (loop_src i body1 s1 w) (loop_src i body2 s2 w).
Proof. intros Hb s1 s2 w HR. unfold loop_src. apply iter_src_rel; assumption. Qed.

(* the functional special case of the simulation: the second state is a function of the first *)
Lemma iter_src_map {S1 S2} (g : S1 -> S2) i
  (body1 : S1 -> val -> M (S1 * bool)) (body2 : S2 -> val -> M (S2 * bool)) :
  (forall s x w, body2 (g s) x w = bind (body1 s x) (fun r => ret (g (fst r), snd r)) w) ->
  forall n s w, iter_src n i body2 (g s) w = bind (iter_src n i body1 s) (fun r => ret (g (fst r), snd r)) w.
Proof.
  intros Hb n s w. symmetry. apply orel_eq.
  apply (bind_rel_l (exit_rel (fun s1 s2 => s2 = g s1) (fun s1 s2 => s2 = g s1))).
  - apply iter_src_rel; [|reflexivity].
    intros s1 s2 x w' ->. rewrite Hb. apply bind_rel_r with (R := eq); [apply orel_refl|].
    intros [t1 c1] ? w2 <-. apply orel_ret. cbn [fst snd]. split; [reflexivity|]. destruct c1; reflexivity.
  - intros [t1 c1] [t2 c2] w' [Hc Ht]. cbn [fst snd] in Hc, Ht |- *. subst c2.
    apply orel_of_eq. destruct c1; subst t2; reflexivity.
Qed.
Lemma loop_src_map {S1 S2} (g : S1 -> S2) i
  (body1 : S1 -> val -> M (S1 * bool)) (body2 : S2 -> val -> M (S2 * bool)) :
  (forall s x w, body2 (g s) x w = bind (body1 s x) (fun r => ret (g (fst r), snd r)) w) ->
  forall s w, loop_src i body2 (g s) w = bind (loop_src i body1 s) (fun r => ret (g (fst r), snd r)) w.
Proof. intros Hb s w. unfold loop_src at 1. rewrite (iter_src_map g i body1 body2 Hb). reflexivity. Qed.

(* ---------- zip: the continuation is only ever applied to tuples of the right length ---------- *)
Lemma pull_row_len : forall l pos w xs w',
  pull_row pos l w = (Ok (Row xs), w') -> length xs = length l.
Proof.
  induction l as [|i r IH]; intros pos w xs w' H.
  - cbn in H. inversion H. reflexivity.
  - cbn [pull_row] in H. unfold bind in H.
    destruct (pull i w) as [[[x|]|e|] w1]; try discriminate H.
    destruct (pull_row (S pos) r w1) as [[[ys|p]|e|] w2] eqn:Hr; try discriminate H.
    cbn in H. inversion H. subst xs w'. cbn [length]. f_equal. eapply IH, Hr.
Qed.

Lemma zip_loop_cong ss (k1 k2 : val -> M unit) :
  (forall xs w, length xs = length ss -> k1 (VTup xs) w = k2 (VTup xs) w) ->
  forall n w, zip_loop n ss k1 w = zip_loop n ss k2 w.
Proof.
  intros Hk. induction n as [|n IHn]; intros w; [reflexivity|].
  cbn [zip_loop]. unfold bind at 1 3.
  destruct (pull_row 0 ss w) as [[[xs|p]|e|] w1] eqn:Hrow; try reflexivity.
  apply mbind_cong; [intros w2; apply Hk|intros _ w2; apply IHn].
  eapply pull_row_len, Hrow.
Qed.
Lemma zip_strict_loop_cong ss (k1 k2 : val -> M unit) :
  (forall xs w, length xs = length ss -> k1 (VTup xs) w = k2 (VTup xs) w) ->
  forall n w, zip_strict_loop n ss k1 w = zip_strict_loop n ss k2 w.
Proof.
  intros Hk. induction n as [|n IHn]; intros w; [reflexivity|].
  cbn [zip_strict_loop]. unfold bind at 1 3.
  destruct (pull_row 0 ss w) as [[[xs|p]|e|] w1] eqn:Hrow; try reflexivity.
  apply mbind_cong; [intros w2; apply Hk|intros _ w2; apply IHn].
  eapply pull_row_len, Hrow.
Qed.
Lemma zip_inner_cong strict ss (k1 k2 : val -> M unit) :
  (forall xs w, length xs = length ss -> k1 (VTup xs) w = k2 (VTup xs) w) ->
  forall w, zip_inner strict ss k1 w = zip_inner strict ss k2 w.
Proof.
  intros Hk w. unfold zip_inner, with_fuel.
  destruct strict; [apply zip_strict_loop_cong|apply zip_loop_cong]; exact Hk.
Qed.
Lemma a_zip_cong strict ss (k1 k2 : val -> M unit) :
  (forall xs w, length xs = length ss -> k1 (VTup xs) w = k2 (VTup xs) w) ->
  forall w, a_zip strict ss k1 w = a_zip strict ss k2 w.
Proof.
  intros Hk w. unfold a_zip. destruct ss as [|i r]; [reflexivity|].
  apply finally_cong; [apply zip_inner_cong; exact Hk|reflexivity].
Qed.

Print Assumptions zip_inner_cong.
Print Assumptions a_zip_cong.
