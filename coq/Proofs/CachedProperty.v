(* Property C12: asyncstdlib.functools.cached_property computes once, serves one value to all awaiters,
   and recomputes after `del`.  Proofs about the small-step machine of Model/CachedProperty.v, for ALL
   configurations and ALL schedules (unless a statement restricts them).  The model is not edited. *)
From Coq Require Import List ZArith NArith Bool Arith Lia.
From V Require Import Model.CachedProperty.
Import ListNotations.

(* ====================================================================================================== *)
(* 0. Lists                                                                                                *)
(* ====================================================================================================== *)
Lemma pset_nth_length : forall A n (x : A) l, length (pset_nth n x l) = length l.
Proof. intros A n x l; revert n; induction l as [|h l IH]; intros [|n]; simpl; auto. Qed.

Lemma nth_pset_nth_eq : forall A n (x d : A) l, n < length l -> nth n (pset_nth n x l) d = x.
Proof.
  intros A n x d l; revert n; induction l as [|h l IH]; intros [|n] H; simpl in *; try lia; auto.
  apply IH; lia.
Qed.

Lemma nth_pset_nth_neq : forall A n m (x d : A) l, n <> m -> nth m (pset_nth n x l) d = nth m l d.
Proof.
  intros A n m x d l; revert n m; induction l as [|h l IH]; intros [|n] [|m] H; simpl; auto; try lia.
Qed.

Lemma pset_nth_twice : forall A n (x y : A) l, pset_nth n x (pset_nth n y l) = pset_nth n x l.
Proof. intros A n x y l; revert n; induction l as [|h l IH]; intros [|n]; simpl; auto. now rewrite IH. Qed.

Lemma pset_nth_same : forall A n (d : A) l, pset_nth n (nth n l d) l = l.
Proof. intros A n d l; revert n; induction l as [|h l IH]; intros [|n]; simpl; auto. now rewrite IH. Qed.

Lemma pset_nth_restore : forall A n (x d : A) l, pset_nth n (nth n l d) (pset_nth n x l) = l.
Proof. intros. rewrite pset_nth_twice. apply pset_nth_same. Qed.

Lemma nth_snoc_default : forall A n (d : A) l, nth n (l ++ [d]) d = nth n l d.
Proof.
  intros A n d l; revert n; induction l as [|h l IH]; intros [|n]; simpl; auto. now destruct n.
Qed.

Lemma nth_pset_nth_opt : forall A n m (x : option A) l,
  nth m (pset_nth n x l) None = if Nat.eqb n m then (if Nat.ltb n (length l) then x else None) else nth m l None.
Proof.
  intros A n m x l. destruct (Nat.eqb_spec n m) as [->|Hne].
  - destruct (Nat.ltb_spec m (length l)) as [Hlt|Hge].
    + now apply nth_pset_nth_eq.
    + apply nth_overflow. now rewrite pset_nth_length.
  - now apply nth_pset_nth_neq.
Qed.

Lemma tl_skipn : forall A n (l : list A), tl (skipn n l) = skipn (S n) l.
Proof. intros A n; induction n as [|n IH]; intros [|h l]; simpl; auto. now rewrite IH. Qed.

Lemma filter_length_le : forall A (f g : A -> bool) l,
  (forall x, In x l -> g x = true -> f x = true) -> length (filter g l) <= length (filter f l).
Proof.
  intros A f g l; induction l as [|h l IH]; intros H; simpl; auto.
  assert (IH' : length (filter g l) <= length (filter f l)) by (apply IH; intros; apply H; simpl; auto).
  destruct (g h) eqn:Hg.
  - rewrite (H h (or_introl eq_refl) Hg). simpl; lia.
  - destruct (f h); simpl; lia.
Qed.

Lemma filter_length_lt : forall A (f g : A -> bool) l q,
  (forall x, In x l -> g x = true -> f x = true) -> In q l -> f q = true -> g q = false ->
  S (length (filter g l)) <= length (filter f l).
Proof.
  intros A f g l q; induction l as [|h l IH]; intros H Hin Hf Hg; simpl in *; [tauto|].
  assert (Hle : length (filter g l) <= length (filter f l)) by (apply filter_length_le; intros; apply H; auto).
  destruct Hin as [->|Hin].
  - rewrite Hf, Hg. simpl; lia.
  - assert (IH' : S (length (filter g l)) <= length (filter f l)) by (apply IH; auto).
    destruct (g h) eqn:Hgh.
    + rewrite (H h (or_introl eq_refl) Hgh). simpl; lia.
    + destruct (f h); simpl; lia.
Qed.

(* ====================================================================================================== *)
(* 1. Tasks of a state                                                                                     *)
(* ====================================================================================================== *)
Lemma pget_psett_same : forall s t x, t < length (p_tasks s) -> pget (psett s t x) t = x.
Proof. intros s t x H. unfold pget, psett; simpl. now apply nth_pset_nth_eq. Qed.

Lemma pget_psett_other : forall s t t' x, t <> t' -> pget (psett s t x) t' = pget s t'.
Proof. intros s t t' x H. unfold pget, psett; simpl. now apply nth_pset_nth_neq. Qed.

Lemma pget_active : forall s t, p_pc (pget s t) <> PFinished -> t < length (p_tasks s).
Proof.
  intros s t H. destruct (Nat.lt_ge_cases t (length (p_tasks s))) as [|Hge]; auto.
  exfalso; apply H. unfold pget. now rewrite nth_overflow.
Qed.

Lemma psett_psett : forall s t x y, psett (psett s t y) t x = psett s t x.
Proof. intros. unfold psett; simpl. now rewrite pset_nth_twice. Qed.

(* ====================================================================================================== *)
(* 2. Counting deletions and live placeholders                                                             *)
(* ====================================================================================================== *)
(* a successful deletion: result PDone at a position whose original script operation is PDel *)
Definition del_done (c : pop * pres) : bool := match c with (PDel, PDone) => true | _ => false end.
Definition ndel (orig : list pop) (res : list pres) : nat := length (filter del_done (combine orig res)).
Fixpoint dels_of (origs : list (list pop)) (tk : list ptask) : nat :=
  match origs, tk with
  | o :: os, x :: xs => ndel o (p_results x) + dels_of os xs
  | _, _ => 0
  end.
Definition dels (cfg : pconfig) (s : pstate) : nat := dels_of (p_scripts cfg) (p_tasks s).

Lemma ndel_snoc_le : forall o res r, ndel o res <= ndel o (res ++ [r]).
Proof.
  unfold ndel. induction o as [|a o IH]; intros [|r0 res] r; simpl; try apply Nat.le_0_l.
  specialize (IH res r). destruct a, r0; simpl; lia.
Qed.

Lemma ndel_snoc_del : forall o res rest,
  skipn (length res) o = PDel :: rest -> ndel o (res ++ [PDone]) = S (ndel o res).
Proof.
  unfold ndel. induction o as [|a o IH]; intros res rest H.
  - now rewrite skipn_nil in H.
  - destruct res as [|r0 res]; simpl in *.
    + inversion H; subst. simpl. now destruct rest.
    + specialize (IH res rest H). destruct a, r0; simpl; now rewrite IH.
Qed.

Lemma ndel_no_del : forall o res, ~ In PDel o -> ndel o res = 0.
Proof.
  unfold ndel. induction o as [|a o IH]; intros [|r res] H; simpl in *; auto.
  destruct a; simpl; try (apply IH; tauto). exfalso; apply H; auto.
Qed.

Lemma dels_of_update : forall origs tk t x k,
  t < length tk -> length tk = length origs ->
  ndel (nth t origs []) (p_results (nth t tk pdflt)) + k <= ndel (nth t origs []) (p_results x) ->
  dels_of origs tk + k <= dels_of origs (pset_nth t x tk).
Proof.
  induction origs as [|o os IH]; intros [|y tk] t x k Ht Hl H; simpl in *; try lia.
  destruct t as [|t]; simpl in *; [lia|].
  assert (dels_of os tk + k <= dels_of os (pset_nth t x tk)) by (apply IH; auto; lia). lia.
Qed.

Lemma dels_of_no_del : forall origs tk, (forall o, In o origs -> ~ In PDel o) -> dels_of origs tk = 0.
Proof.
  induction origs as [|o os IH]; intros [|y tk] H; simpl in *; auto.
  rewrite ndel_no_del by (apply H; auto). rewrite IH; auto.
Qed.

(* placeholder p can still deliver a successful getter run: it is the stored one, or a task computes on it *)
Definition alive (s : pstate) (p : nat) : Prop :=
  p_slot s = SPlace p \/ exists t j r, p_pc (pget s t) = PInGetter p j r.
Definition in_getter_b (p : nat) (x : ptask) : bool :=
  match p_pc x with PInGetter q _ _ => Nat.eqb q p | _ => false end.
Definition alive_b (s : pstate) (p : nat) : bool :=
  match p_slot s with SPlace q => Nat.eqb q p | _ => false end || existsb (in_getter_b p) (p_tasks s).
Definition alive_cnt (s : pstate) : nat := length (filter (alive_b s) (seq 0 (length (p_locks s)))).

Lemma alive_b_iff : forall s p, alive_b s p = true <-> alive s p.
Proof.
  intros s p. unfold alive_b, alive. rewrite orb_true_iff, existsb_exists. split.
  - intros [H|[x [Hin Hx]]].
    + left. destruct (p_slot s); try discriminate. apply Nat.eqb_eq in H. now subst.
    + right. destruct (In_nth _ _ pdflt Hin) as [t [Ht Hn]]. exists t.
      unfold in_getter_b in Hx. unfold pget. rewrite Hn.
      destruct (p_pc x); try discriminate. apply Nat.eqb_eq in Hx. subst. eauto.
  - intros [H|[t [j [r H]]]].
    + left. rewrite H. apply Nat.eqb_refl.
    + right. exists (pget s t). split.
      * apply nth_In. apply pget_active. now rewrite H.
      * unfold in_getter_b. rewrite H. apply Nat.eqb_refl.
Qed.

Lemma alive_cnt_le : forall s s',
  length (p_locks s') = length (p_locks s) -> (forall p, alive s' p -> alive s p) -> alive_cnt s' <= alive_cnt s.
Proof.
  intros s s' Hl H. unfold alive_cnt. rewrite Hl. apply filter_length_le.
  intros p _ Hp. apply alive_b_iff. apply H. now apply alive_b_iff.
Qed.

Lemma alive_cnt_lt : forall s s' q,
  length (p_locks s') = length (p_locks s) -> (forall p, alive s' p -> alive s p) ->
  q < length (p_locks s) -> alive s q -> ~ alive s' q -> S (alive_cnt s') <= alive_cnt s.
Proof.
  intros s s' q Hl H Hq Ha Hn. unfold alive_cnt. rewrite Hl. apply filter_length_lt with (q := q).
  - intros p _ Hp. apply alive_b_iff. apply H. now apply alive_b_iff.
  - apply in_seq. lia.
  - now apply alive_b_iff.
  - destruct (alive_b s' q) eqn:E; auto. exfalso. apply Hn. now apply alive_b_iff.
Qed.

Lemma alive_cnt_grow : forall s s',
  length (p_locks s') = S (length (p_locks s)) ->
  (forall p, p < length (p_locks s) -> alive s' p -> alive s p) -> alive_cnt s' <= S (alive_cnt s).
Proof.
  intros s s' Hl H. unfold alive_cnt. rewrite Hl, seq_S, filter_app, app_length. simpl.
  assert (length (filter (alive_b s') (seq 0 (length (p_locks s)))) <=
          length (filter (alive_b s) (seq 0 (length (p_locks s))))).
  { apply filter_length_le. intros p Hp Hp'. apply in_seq in Hp. apply alive_b_iff. apply H; [lia|].
    now apply alive_b_iff. }
  destruct (alive_b s' (length (p_locks s))); simpl; lia.
Qed.

(* ====================================================================================================== *)
(* 3. The invariant                                                                                        *)
(* ====================================================================================================== *)
(* v is a value some getter run returned *)
Definition genuine (cfg : pconfig) (s : pstate) (v : nat) : Prop :=
  In v (p_completed s) /\ ~ In v (p_fail_runs cfg) /\ v < p_runs s.
Definition obj_ok (cfg : pconfig) (s : pstate) (o : option obj) : Prop :=
  match o with
  | Some (HPlace p) => p < length (p_locks s)
  | Some (HValue v) => genuine cfg s v
  | None => True
  end.
Definition pc_ok (cfg : pconfig) (s : pstate) (t : nat) (pc : ppc) : Prop :=
  match pc with
  | PWaitLock p => p < length (p_locks s) /\ p_use_lock cfg = true
  | PInGetter p _ r =>
      p < length (p_locks s) /\ r < p_runs s /\ (p_use_lock cfg = true -> nth p (p_locks s) None = Some t)
  | _ => True
  end.
Definition slot_ok (cfg : pconfig) (s : pstate) : Prop :=
  match p_slot s with
  | SPlace p => p < length (p_locks s)
  | SValue v => genuine cfg s v
  | SAbsent => True
  end.
(* the task's remaining script is a suffix of its original script, aligned with its results *)
Definition script_ok (cfg : pconfig) (t : nat) (x : ptask) : Prop :=
  p_script x = [] \/ p_script x = skipn (length (p_results x)) (nth t (p_scripts cfg) []).
Definition absent01 (sl : slot) : nat := match sl with SAbsent => 1 | _ => 0 end.
Definition task_ok (cfg : pconfig) (s : pstate) (t : nat) (x : ptask) : Prop :=
  obj_ok cfg s (p_held x) /\ pc_ok cfg s t (p_pc x) /\
  (forall v, In (PRet v) (p_results x) -> genuine cfg s v) /\ script_ok cfg t x.

Record Inv (cfg : pconfig) (s : pstate) : Prop := {
  inv_len : length (p_tasks s) = length (p_scripts cfg);
  inv_slot : slot_ok cfg s;
  inv_task : forall t, task_ok cfg s t (pget s t);
  inv_lock : forall p t, nth p (p_locks s) None = Some t -> exists j r, p_pc (pget s t) = PInGetter p j r;
  inv_nolock : p_use_lock cfg = false -> forall p, nth p (p_locks s) None = None;
  inv_completed : forall v, In v (p_completed s) -> v < p_runs s /\ ~ In v (p_fail_runs cfg);
  inv_alive : p_use_lock cfg = true -> length (p_completed s) + alive_cnt s <= length (p_locks s);
  inv_dels : length (p_locks s) + absent01 (p_slot s) <= 1 + dels cfg s
}.

Lemma genuine_mono : forall cfg s s' v,
  genuine cfg s v -> incl (p_completed s) (p_completed s') -> p_runs s <= p_runs s' -> genuine cfg s' v.
Proof. intros cfg s s' v (H1 & H2 & H3) Hi Hr. repeat split; auto. lia. Qed.

Lemma task_ok_mono : forall cfg s s' t x,
  task_ok cfg s t x ->
  length (p_locks s) <= length (p_locks s') -> p_runs s <= p_runs s' ->
  incl (p_completed s) (p_completed s') ->
  (forall p j r, p_pc x = PInGetter p j r -> nth p (p_locks s) None = Some t -> nth p (p_locks s') None = Some t) ->
  task_ok cfg s' t x.
Proof.
  intros cfg s s' t x (Ho & Hp & Hr & Hs) Hl Hru Hc Hk. split; [|split; [|split]]; auto.
  - unfold obj_ok in *. destruct (p_held x) as [[p|v]|]; auto; [lia|eapply genuine_mono; eauto].
  - unfold pc_ok in *. destruct (p_pc x) as [|p|p j r|]; auto.
    + destruct Hp; split; auto; lia.
    + destruct Hp as (A & B & C). repeat split; try lia. intros U. eapply Hk; eauto.
  - intros v Hv. eapply genuine_mono; eauto.
Qed.

Lemma slot_ok_mono : forall cfg s s',
  slot_ok cfg s -> p_slot s' = p_slot s ->
  length (p_locks s) <= length (p_locks s') -> p_runs s <= p_runs s' ->
  incl (p_completed s) (p_completed s') -> slot_ok cfg s'.
Proof.
  intros cfg s s' H E Hl Hr Hc. unfold slot_ok in *. rewrite E.
  destruct (p_slot s); auto; [lia|eapply genuine_mono; eauto].
Qed.

Lemma pdone_not_getter : forall x r p j k, p_pc (pdone x r) <> PInGetter p j k.
Proof. intros x r p j k. unfold pdone; simpl. destruct (tl (p_script x)); discriminate. Qed.

Lemma task_ok_pdone : forall cfg s t x r,
  task_ok cfg s t x -> match r with PRet v => genuine cfg s v | _ => True end ->
  task_ok cfg s t (pdone x r).
Proof.
  intros cfg s t x r (Ho & Hp & Hr & Hs) Hg. unfold pdone. split; [|split; [|split]]; simpl; auto.
  - destruct (tl (p_script x)); exact I.
  - intros v Hv. apply in_app_or in Hv. destruct Hv as [Hv|[Hv|[]]]; auto. now subst r.
  - unfold script_ok in *; simpl. destruct Hs as [Hs|Hs]; rewrite Hs; [now left|right].
    rewrite app_length; simpl. rewrite Nat.add_1_r. apply tl_skipn.
Qed.

(* ---------- transition 1: a new placeholder is stored (the slot was absent) ---------- *)
Lemma Inv_new_place : forall cfg s, Inv cfg s -> p_slot s = SAbsent -> Inv cfg (fst (new_place s)).
Proof.
  intros cfg s [Hlen Hslot Htask Hlock Hnol Hcomp Halive Hdels] Habs. unfold new_place; simpl.
  constructor; simpl.
  - exact Hlen.
  - unfold slot_ok; simpl. rewrite app_length; simpl; lia.
  - intros t. eapply task_ok_mono; [exact (Htask t)| | | |]; simpl; auto using incl_refl.
    + rewrite app_length; lia.
    + intros p j r _ H. now rewrite nth_snoc_default.
  - intros p t H. rewrite nth_snoc_default in H. exact (Hlock p t H).
  - intros U p. rewrite nth_snoc_default. auto.
  - exact Hcomp.
  - intros U. specialize (Halive U). rewrite app_length; simpl.
    match goal with |- _ + alive_cnt ?s' <= _ => assert (alive_cnt s' <= S (alive_cnt s)) end.
    { apply alive_cnt_grow; simpl; [rewrite app_length; simpl; lia|].
      intros p Hp [H|H]; simpl in H; [inversion H; lia|right; exact H]. }
    lia.
  - rewrite Habs in Hdels; simpl in Hdels. rewrite app_length; simpl. unfold dels in *; simpl. lia.
Qed.

(* ---------- transition 2: a task that is not inside the getter is replaced; the slot may be cleared ---------- *)
Lemma Inv_task_update : forall cfg s t x' sl',
  Inv cfg s -> t < length (p_tasks s) ->
  (forall p j r, p_pc (pget s t) <> PInGetter p j r) ->
  (forall p j r, p_pc x' <> PInGetter p j r) ->
  task_ok cfg s t x' ->
  sl' = p_slot s \/ sl' = SAbsent ->
  absent01 sl' + ndel (nth t (p_scripts cfg) []) (p_results (pget s t))
    <= absent01 (p_slot s) + ndel (nth t (p_scripts cfg) []) (p_results x') ->
  Inv cfg (psett (set_slot s sl') t x').
Proof.
  intros cfg s t x' sl' [Hlen Hslot Htask Hlock Hnol Hcomp Halive Hdels] Ht Hng Hng' Hok Hsl Hnd.
  constructor.
  - unfold psett; simpl. now rewrite pset_nth_length.
  - unfold slot_ok in *; simpl. destruct Hsl as [->| ->]; auto.
  - intros t0. destruct (Nat.eq_dec t t0) as [<-|Hne].
    + rewrite pget_psett_same by exact Ht. exact Hok.
    + rewrite pget_psett_other by exact Hne. exact (Htask t0).
  - intros p t0 Hl. destruct (Hlock p t0 Hl) as [j [r E]].
    destruct (Nat.eq_dec t t0) as [<-|Hne].
    + exfalso; eapply Hng; eauto.
    + rewrite pget_psett_other by exact Hne. eauto.
  - exact Hnol.
  - exact Hcomp.
  - intros U. specialize (Halive U).
    assert (alive_cnt (psett (set_slot s sl') t x') <= alive_cnt s).
    { apply alive_cnt_le; [reflexivity|]. intros p [Hs|[t0 [j [r E]]]].
      - left. simpl in Hs. destruct Hsl as [->| ->]; [exact Hs|discriminate].
      - right. destruct (Nat.eq_dec t t0) as [<-|Hne].
        + rewrite pget_psett_same in E by exact Ht. exfalso; eapply Hng'; eauto.
        + rewrite pget_psett_other in E by exact Hne. eauto. }
    simpl. simpl in H. lia.
  - unfold dels; simpl.
    assert (forall k, ndel (nth t (p_scripts cfg) []) (p_results (nth t (p_tasks s) pdflt)) + k
                      <= ndel (nth t (p_scripts cfg) []) (p_results x') ->
                      dels_of (p_scripts cfg) (p_tasks s) + k <= dels_of (p_scripts cfg) (pset_nth t x' (p_tasks s)))
      as Hup by (intros k; apply dels_of_update; auto).
    unfold dels in Hdels. unfold pget in Hnd.
    destruct Hsl as [->| ->].
    + specialize (Hup 0). lia.
    + destruct (p_slot s); simpl in *; [specialize (Hup 0)|specialize (Hup 1)|specialize (Hup 1)]; lia.
Qed.

Lemma set_slot_same : forall s t x, psett (set_slot s (p_slot s)) t x = psett s t x.
Proof. reflexivity. Qed.

Lemma Inv_task_update0 : forall cfg s t x',
  Inv cfg s -> t < length (p_tasks s) ->
  (forall p j r, p_pc (pget s t) <> PInGetter p j r) ->
  (forall p j r, p_pc x' <> PInGetter p j r) ->
  task_ok cfg s t x' ->
  ndel (nth t (p_scripts cfg) []) (p_results (pget s t)) <= ndel (nth t (p_scripts cfg) []) (p_results x') ->
  Inv cfg (psett s t x').
Proof.
  intros. rewrite <- set_slot_same. apply Inv_task_update; auto. lia.
Qed.

(* ---------- transition 3: a task enters the getter of the stored placeholder p (lock p is free) ---------- *)
Definition enter (cfg : pconfig) (s : pstate) (t p j : nat) : pstate :=
  let x := pget s t in
  mkP (p_slot s) (if p_use_lock cfg then pset_nth p (Some t) (p_locks s) else p_locks s) (S (p_runs s))
      (p_completed s)
      (pset_nth t (mkPT (p_script x) (PInGetter p j (p_runs s)) (p_held x) (p_results x)) (p_tasks s)).

Lemma Inv_enter : forall cfg s t p j,
  Inv cfg s -> t < length (p_tasks s) ->
  (forall q k r, p_pc (pget s t) <> PInGetter q k r) ->
  p_slot s = SPlace p -> nth p (p_locks s) None = None ->
  Inv cfg (enter cfg s t p j).
Proof.
  intros cfg s t p j [Hlen Hslot Htask Hlock Hnol Hcomp Halive Hdels] Ht Hng Hsl Hfree.
  assert (Hp : p < length (p_locks s)) by (unfold slot_ok in Hslot; rewrite Hsl in Hslot; exact Hslot).
  unfold enter.
  remember (if p_use_lock cfg then pset_nth p (Some t) (p_locks s) else p_locks s) as L' eqn:EL.
  assert (HlenL : length L' = length (p_locks s)).
  { subst L'. destruct (p_use_lock cfg); auto using pset_nth_length. }
  assert (HL1 : forall q t0, nth q (p_locks s) None = Some t0 -> nth q L' None = Some t0).
  { intros q t0 H. destruct (Nat.eq_dec p q) as [<-|Hne]; [congruence|].
    subst L'. destruct (p_use_lock cfg); auto. now rewrite nth_pset_nth_neq. }
  assert (HL2 : forall q t0, nth q L' None = Some t0 ->
                 (q = p /\ t0 = t /\ p_use_lock cfg = true) \/ nth q (p_locks s) None = Some t0).
  { intros q t0 H. subst L'. destruct (p_use_lock cfg); auto.
    destruct (Nat.eq_dec p q) as [<-|Hne].
    - rewrite nth_pset_nth_eq in H by exact Hp. inversion H; auto.
    - rewrite nth_pset_nth_neq in H by exact Hne. auto. }
  assert (HL3 : p_use_lock cfg = true -> nth p L' None = Some t).
  { intros U. subst L'. rewrite U. now apply nth_pset_nth_eq. }
  clear EL.
  constructor; simpl.
  - now rewrite pset_nth_length.
  - unfold slot_ok; simpl. rewrite Hsl. lia.
  - intros t0. unfold pget; simpl. destruct (Nat.eq_dec t t0) as [<-|Hne].
    + rewrite nth_pset_nth_eq by exact Ht.
      assert (T : task_ok cfg (mkP (p_slot s) L' (S (p_runs s)) (p_completed s) (p_tasks s)) t (pget s t)).
      { eapply task_ok_mono; [exact (Htask t)| | | |]; simpl; auto using incl_refl; try lia. }
      destruct T as (A & _ & C & D). split; [exact A|split; [|split; [exact C|exact D]]].
      simpl. repeat split; auto; lia.
    + rewrite nth_pset_nth_neq by exact Hne.
      eapply task_ok_mono; [exact (Htask t0)| | | |]; simpl; auto using incl_refl; try lia.
  - intros q t0 H. unfold pget; simpl. destruct (HL2 q t0 H) as [(-> & -> & _)|H'].
    + rewrite nth_pset_nth_eq by exact Ht. simpl. eauto.
    + destruct (Hlock q t0 H') as [k [r E]].
      destruct (Nat.eq_dec t t0) as [<-|Hne]; [exfalso; eapply Hng; eauto|].
      rewrite nth_pset_nth_neq by exact Hne. eauto.
  - intros U q. specialize (Hnol U q). destruct (nth q L' None) as [t0|] eqn:E; auto.
    destruct (HL2 q t0 E) as [(_ & _ & U')|H']; congruence.
  - intros v Hv. destruct (Hcomp v Hv). split; auto.
  - intros U. specialize (Halive U). rewrite HlenL.
    match goal with |- _ + alive_cnt ?s' <= _ => assert (alive_cnt s' <= alive_cnt s) end.
    { apply alive_cnt_le; simpl; [exact HlenL|]. intros q [H|[t0 [k [r E]]]]; simpl in *.
      - left; exact H.
      - unfold pget in E; simpl in E. destruct (Nat.eq_dec t t0) as [<-|Hne].
        + rewrite nth_pset_nth_eq in E by exact Ht. simpl in E. inversion E; subst. left; exact Hsl.
        + rewrite nth_pset_nth_neq in E by exact Hne. right; eauto. }
    lia.
  - rewrite HlenL. unfold dels in *; simpl.
    match goal with |- _ <= S (dels_of _ (pset_nth t ?x _)) =>
      pose proof (dels_of_update (p_scripts cfg) (p_tasks s) t x 0 Ht Hlen) as Hup end.
    simpl in Hup. unfold pget in *. lia.
Qed.

(* ---------- transition 4: a task inside the getter stays inside (one more suspension) ---------- *)
Lemma Inv_tick : forall cfg s t p j j' r,
  Inv cfg s -> p_pc (pget s t) = PInGetter p j r -> Inv cfg (set_pc s t (PInGetter p j' r)).
Proof.
  intros cfg s t p j j' r [Hlen Hslot Htask Hlock Hnol Hcomp Halive Hdels] Hpc.
  assert (Ht : t < length (p_tasks s)) by (apply pget_active; rewrite Hpc; discriminate).
  unfold set_pc. constructor.
  - unfold psett; simpl. now rewrite pset_nth_length.
  - exact Hslot.
  - intros t0. destruct (Nat.eq_dec t t0) as [<-|Hne].
    + rewrite pget_psett_same by exact Ht. destruct (Htask t) as (A & B & C & D).
      split; [exact A|split; [|split; [exact C|exact D]]]. simpl. rewrite Hpc in B. exact B.
    + rewrite pget_psett_other by exact Hne. exact (Htask t0).
  - intros q t0 H. destruct (Hlock q t0 H) as [k [r0 E]].
    destruct (Nat.eq_dec t t0) as [<-|Hne].
    + rewrite pget_psett_same by exact Ht. simpl. rewrite Hpc in E. inversion E; subst. eauto.
    + rewrite pget_psett_other by exact Hne. eauto.
  - exact Hnol.
  - exact Hcomp.
  - intros U. specialize (Halive U).
    match goal with |- _ + alive_cnt ?s' <= _ => assert (alive_cnt s' <= alive_cnt s) end.
    { apply alive_cnt_le; [reflexivity|]. intros q [H|[t0 [k [r0 E]]]]; [left; exact H|right].
      destruct (Nat.eq_dec t t0) as [<-|Hne].
      - rewrite pget_psett_same in E by exact Ht. simpl in E. inversion E; subst. eauto.
      - rewrite pget_psett_other in E by exact Hne. eauto. }
    simpl; lia.
  - unfold dels in *; simpl.
    match goal with |- _ <= S (dels_of _ (pset_nth t ?x _)) =>
      pose proof (dels_of_update (p_scripts cfg) (p_tasks s) t x 0 Ht Hlen) as Hup end.
    simpl in Hup. unfold pget in *. lia.
Qed.

(* ---------- transition 5: a task leaves the getter of p (failure, cancellation, or success = store) ---------- *)
Lemma unlock_if_spec : forall s p t,
  exists L, unlock_if s p t = mkP (p_slot s) L (p_runs s) (p_completed s) (p_tasks s) /\
            length L = length (p_locks s) /\
            (forall q t0, nth q L None = Some t0 -> nth q (p_locks s) None = Some t0 /\ ~ (q = p /\ t0 = t)) /\
            (forall q t0, nth q (p_locks s) None = Some t0 -> t0 <> t -> nth q L None = Some t0).
Proof.
  intros s p t. unfold unlock_if.
  destruct (nth p (p_locks s) None) as [h|] eqn:E; [destruct (Nat.eqb_spec h t) as [->|Hne]|].
  - exists (pset_nth p None (p_locks s)). split; [reflexivity|]. split; [apply pset_nth_length|]. split.
    + intros q t0 H. rewrite nth_pset_nth_opt in H. destruct (Nat.eqb_spec p q) as [<-|Hne].
      * destruct (p <? length (p_locks s)); discriminate.
      * split; auto. intros [-> _]. congruence.
    + intros q t0 H Hne. rewrite nth_pset_nth_opt. destruct (Nat.eqb_spec p q) as [<-|Hne']; auto. congruence.
  - exists (p_locks s). destruct s; simpl in *. repeat split; auto. intros [-> ->]. congruence.
  - exists (p_locks s). destruct s; simpl in *. repeat split; auto. intros [-> ->]. congruence.
Qed.

Definition leave (s : pstate) (t p : nat) (store : option nat) : pstate :=
  let x := pget s t in
  mkP (match store with Some r => SValue r | None => p_slot s end)
      (p_locks (unlock_if s p t)) (p_runs s)
      (match store with Some r => p_completed s ++ [r] | None => p_completed s end)
      (pset_nth t (mkPT (p_script x) PIdle (p_held x) (p_results x)) (p_tasks s)).

Lemma Inv_leave : forall cfg s t p j r store,
  Inv cfg s -> p_pc (pget s t) = PInGetter p j r ->
  match store with Some r' => r' = r /\ ~ In r (p_fail_runs cfg) | None => True end ->
  Inv cfg (leave s t p store).
Proof.
  intros cfg s t p j r store [Hlen Hslot Htask Hlock Hnol Hcomp Halive Hdels] Hpc Hst.
  assert (Ht : t < length (p_tasks s)) by (apply pget_active; rewrite Hpc; discriminate).
  destruct (Htask t) as (Tobj & Tpc & Tres & Tscr). rewrite Hpc in Tpc. destruct Tpc as (Hp & Hr & Hheld).
  unfold leave. destruct (unlock_if_spec s p t) as (L & -> & HlenL & K1 & K2). simpl.
  set (cp' := match store with Some r0 => p_completed s ++ [r0] | None => p_completed s end).
  assert (Hincl : incl (p_completed s) cp').
  { unfold cp'. destruct store; auto using incl_refl, incl_appl. }
  constructor; simpl.
  - now rewrite pset_nth_length.
  - unfold slot_ok in *; simpl. destruct store as [r'|].
    + destruct Hst as [-> Hnf]. unfold cp'. repeat split; simpl; auto. apply in_or_app; simpl; auto.
    + destruct (p_slot s); auto; try lia; eapply genuine_mono; eauto.
  - intros t0. unfold pget; simpl. destruct (Nat.eq_dec t t0) as [<-|Hne].
    + rewrite nth_pset_nth_eq by exact Ht.
      assert (T : task_ok cfg (mkP (p_slot s) L (p_runs s) cp' (p_tasks s)) t
                          (mkPT (p_script (pget s t)) PIdle (p_held (pget s t)) (p_results (pget s t)))).
      { eapply task_ok_mono with (s := s); simpl; auto; try lia; [|discriminate].
        split; [exact Tobj|split; [exact I|split; [exact Tres|exact Tscr]]]. }
      exact T.
    + rewrite nth_pset_nth_neq by exact Hne.
      eapply task_ok_mono; [exact (Htask t0)| | | |]; simpl; auto; try lia.
  - intros q t0 H. destruct (K1 q t0 H) as [H' Hnot]. destruct (Hlock q t0 H') as [k [r0 E]].
    unfold pget; simpl. destruct (Nat.eq_dec t t0) as [<-|Hne].
    + exfalso. apply Hnot. rewrite Hpc in E. inversion E; auto.
    + rewrite nth_pset_nth_neq by exact Hne. eauto.
  - intros U q. destruct (nth q L None) as [t0|] eqn:E; auto.
    destruct (K1 q t0 E) as [H' _]. rewrite (Hnol U q) in H'. discriminate.
  - intros v Hv. unfold cp' in Hv. destruct store as [r'|]; auto.
    destruct Hst as [-> Hnf]. apply in_app_or in Hv. destruct Hv as [Hv|[<-|[]]]; auto.
  - intros U. specialize (Halive U). specialize (Hheld U). rewrite HlenL.
    match goal with |- _ + alive_cnt ?s1 <= _ => set (s' := s1) end.
    assert (Hsub : forall q, alive s' q -> alive s q \/ (exists r', store = Some r' /\ p_slot s' = SPlace q)).
    { intros q [H|[t0 [k [r0 E]]]].
      - simpl in H. destruct store; [discriminate|left; left; exact H].
      - left. unfold pget in E; simpl in E. destruct (Nat.eq_dec t t0) as [<-|Hne].
        + rewrite nth_pset_nth_eq in E by exact Ht. discriminate.
        + rewrite nth_pset_nth_neq in E by exact Hne. right; eauto. }
    assert (Hsub' : forall q, alive s' q -> alive s q).
    { intros q H. destruct (Hsub q H) as [H'|[r' [-> H']]]; auto. discriminate. }
    destruct store as [r'|].
    + assert (S (alive_cnt s') <= alive_cnt s).
      { apply alive_cnt_lt with (q := p); auto.
        - right; eauto.
        - intros [H|[t0 [k [r0 E]]]]; [discriminate|].
          unfold pget in E; simpl in E. destruct (Nat.eq_dec t t0) as [<-|Hne].
          + rewrite nth_pset_nth_eq in E by exact Ht. discriminate.
          + rewrite nth_pset_nth_neq in E by exact Hne.
            destruct (Htask t0) as (_ & B & _). unfold pget in B. rewrite E in B.
            destruct B as (_ & _ & B). specialize (B U). congruence. }
      unfold cp'. rewrite app_length; simpl. lia.
    + assert (alive_cnt s' <= alive_cnt s) by (apply alive_cnt_le; auto).
      unfold cp'. lia.
  - rewrite HlenL. unfold dels in *; simpl.
    match goal with |- _ <= S (dels_of _ (pset_nth t ?x _)) =>
      pose proof (dels_of_update (p_scripts cfg) (p_tasks s) t x 0 Ht Hlen) as Hup end.
    simpl in Hup. unfold pget in *.
    assert (absent01 (match store with Some r0 => SValue r0 | None => p_slot s end) <= absent01 (p_slot s))
      by (destruct store; simpl; lia).
    lia.
Qed.

(* ====================================================================================================== *)
(* 4. The model's operations preserve the invariant                                                        *)
(* ====================================================================================================== *)
Lemma fails_iff : forall cfg r, existsb (Nat.eqb r) (p_fail_runs cfg) = true <-> In r (p_fail_runs cfg).
Proof.
  intros. rewrite existsb_exists. split.
  - intros [x [H E]]. apply Nat.eqb_eq in E. now subst.
  - intros H. exists r. split; auto. apply Nat.eqb_refl.
Qed.

Lemma task_ok_pdone' : forall cfg s t x r,
  obj_ok cfg s (p_held x) -> (forall v, In (PRet v) (p_results x) -> genuine cfg s v) -> script_ok cfg t x ->
  match r with PRet v => genuine cfg s v | _ => True end ->
  task_ok cfg s t (pdone x r).
Proof.
  intros cfg s t x r Ho Hr Hs Hg. unfold pdone. split; [|split; [|split]]; simpl; auto.
  - destruct (tl (p_script x)); exact I.
  - intros v Hv. apply in_app_or in Hv. destruct Hv as [Hv|[Hv|[]]]; auto. now subst r.
  - unfold script_ok in *; simpl. destruct Hs as [Hs|Hs]; rewrite Hs; [now left|right].
    rewrite app_length; simpl. rewrite Nat.add_1_r. apply tl_skipn.
Qed.

(* finishing the current operation of a task outside the getter with result r, possibly updating what it holds *)
Lemma Inv_finish : forall cfg s t x' r,
  Inv cfg s -> t < length (p_tasks s) ->
  (forall p j k, p_pc (pget s t) <> PInGetter p j k) ->
  p_script x' = p_script (pget s t) -> p_results x' = p_results (pget s t) ->
  obj_ok cfg s (p_held x') ->
  match r with PRet v => genuine cfg s v | _ => True end ->
  Inv cfg (psett s t (pdone x' r)).
Proof.
  intros cfg s t x' r I Ht Hng Hsc Hrs Ho Hg.
  destruct (inv_task cfg s I t) as (_ & _ & Tres & Tscr).
  apply Inv_task_update0; auto.
  - apply pdone_not_getter.
  - apply task_ok_pdone'; auto.
    + now rewrite Hrs.
    + unfold script_ok in *. now rewrite Hsc, Hrs.
  - simpl. rewrite Hrs. apply ndel_snoc_le.
Qed.

Lemma Inv_finish_same : forall cfg s t r,
  Inv cfg s -> t < length (p_tasks s) ->
  (forall p j k, p_pc (pget s t) <> PInGetter p j k) ->
  match r with PRet v => genuine cfg s v | _ => True end ->
  Inv cfg (psett s t (pdone (pget s t) r)).
Proof.
  intros cfg s t r I Ht Hng Hg. apply Inv_finish; auto.
  exact (proj1 (inv_task cfg s I t)).
Qed.

Lemma pget_leave : forall s t p st, t < length (p_tasks s) ->
  pget (leave s t p st) t = mkPT (p_script (pget s t)) PIdle (p_held (pget s t)) (p_results (pget s t)).
Proof. intros. unfold leave, pget; simpl. now rewrite nth_pset_nth_eq. Qed.

Lemma leave_tasks_length : forall s t p st, length (p_tasks (leave s t p st)) = length (p_tasks s).
Proof. intros. unfold leave; simpl. apply pset_nth_length. Qed.

Lemma complete_getter_eq : forall cfg s t p r, t < length (p_tasks s) ->
  complete_getter cfg s t p r =
  if existsb (Nat.eqb r) (p_fail_runs cfg)
  then psett (leave s t p None) t (pdone (pget (leave s t p None) t) PRaised)
  else psett (leave s t p (Some r)) t (pdone (pget (leave s t p (Some r)) t) (PRet r)).
Proof.
  intros cfg s t p r Ht. unfold complete_getter.
  destruct (existsb (Nat.eqb r) (p_fail_runs cfg)); rewrite pget_leave by exact Ht;
    unfold leave, unlock_if; simpl;
    (destruct (nth p (p_locks s) None) as [h|]; [destruct (Nat.eqb h t)|]); simpl;
    unfold psett, pget; simpl; rewrite pset_nth_twice; reflexivity.
Qed.

Lemma complete_getter_Inv : forall cfg s t p j r,
  Inv cfg s -> p_pc (pget s t) = PInGetter p j r -> Inv cfg (complete_getter cfg s t p r).
Proof.
  intros cfg s t p j r I Hpc.
  assert (Ht : t < length (p_tasks s)) by (apply pget_active; rewrite Hpc; discriminate).
  rewrite complete_getter_eq by exact Ht.
  destruct (existsb (Nat.eqb r) (p_fail_runs cfg)) eqn:F.
  - assert (I1 : Inv cfg (leave s t p None)) by (eapply Inv_leave; eauto).
    apply Inv_finish_same; auto.
    + now rewrite leave_tasks_length.
    + rewrite pget_leave by exact Ht. discriminate.
  - assert (Hnf : ~ In r (p_fail_runs cfg)) by (rewrite <- fails_iff; congruence).
    assert (I1 : Inv cfg (leave s t p (Some r))) by (eapply Inv_leave; eauto).
    apply Inv_finish_same; auto.
    + now rewrite leave_tasks_length.
    + rewrite pget_leave by exact Ht. discriminate.
    + pose proof (inv_slot cfg _ I1) as Hs. exact Hs.
Qed.

Lemma complete_getter_set_pc : forall cfg s t p r pc, t < length (p_tasks s) ->
  complete_getter cfg (set_pc s t pc) t p r = complete_getter cfg s t p r.
Proof.
  intros cfg s t p r pc Ht. unfold complete_getter, set_pc.
  destruct (existsb (Nat.eqb r) (p_fail_runs cfg)); unfold unlock_if; simpl;
    (destruct (nth p (p_locks s) None) as [h|]; [destruct (Nat.eqb h t)|]); simpl;
    unfold psett, pget; simpl; rewrite pset_nth_twice, nth_pset_nth_eq by exact Ht; reflexivity.
Qed.

Lemma start_getter_eq : forall cfg s t p, t < length (p_tasks s) ->
  start_getter cfg (if p_use_lock cfg then set_lock s p (Some t) else s) t p =
  match p_susp cfg with
  | 0 => complete_getter cfg (enter cfg s t p 0) t p (p_runs s)
  | S j => enter cfg s t p (S j)
  end.
Proof.
  intros cfg s t p Ht. unfold start_getter.
  assert (E : forall j, set_pc (mkP (p_slot (if p_use_lock cfg then set_lock s p (Some t) else s))
                                   (p_locks (if p_use_lock cfg then set_lock s p (Some t) else s))
                                   (S (p_runs (if p_use_lock cfg then set_lock s p (Some t) else s)))
                                   (p_completed (if p_use_lock cfg then set_lock s p (Some t) else s))
                                   (p_tasks (if p_use_lock cfg then set_lock s p (Some t) else s)))
                              t (PInGetter p j (p_runs (if p_use_lock cfg then set_lock s p (Some t) else s)))
                     = enter cfg s t p j).
  { intros j. unfold enter. destruct (p_use_lock cfg); reflexivity. }
  destruct (p_susp cfg) as [|j].
  - rewrite <- E. rewrite complete_getter_set_pc.
    + destruct (p_use_lock cfg); reflexivity.
    + destruct (p_use_lock cfg); exact Ht.
  - apply E.
Qed.

Lemma start_getter_Inv : forall cfg s t p,
  Inv cfg s -> t < length (p_tasks s) ->
  (forall q k r, p_pc (pget s t) <> PInGetter q k r) ->
  p_slot s = SPlace p -> nth p (p_locks s) None = None ->
  Inv cfg (start_getter cfg (if p_use_lock cfg then set_lock s p (Some t) else s) t p).
Proof.
  intros cfg s t p I Ht Hng Hsl Hfree. rewrite start_getter_eq by exact Ht.
  destruct (p_susp cfg) as [|j].
  - apply complete_getter_Inv with (j := 0).
    + now apply Inv_enter.
    + unfold enter, pget; simpl. now rewrite nth_pset_nth_eq.
  - now apply Inv_enter.
Qed.

Lemma lock_held_false : forall s p, lock_held s p = false -> nth p (p_locks s) None = None.
Proof. intros s p. unfold lock_held. destruct (nth p (p_locks s) None); auto; discriminate. Qed.

Lemma await_place_Inv : forall cfg f s t p,
  Inv cfg s -> t < length (p_tasks s) ->
  (forall q k r, p_pc (pget s t) <> PInGetter q k r) ->
  Inv cfg (await_place f cfg s t p).
Proof.
  intros cfg f; induction f as [|f IH]; intros s t p I Ht Hng; simpl; auto.
  destruct (p_slot s) as [|q|v] eqn:Sl.
  - apply IH; auto. exact (Inv_new_place cfg s I Sl).
  - destruct (Nat.eqb_spec q p) as [->|Hne].
    + destruct (p_use_lock cfg && lock_held s p) eqn:W.
      * apply andb_true_iff in W. destruct W as [U _].
        destruct (inv_task cfg s I t) as (A & _ & C & D).
        unfold set_pc. apply Inv_task_update0; auto.
        -- simpl. discriminate.
        -- split; [exact A|split; [|split; [exact C|exact D]]]. simpl. split; auto.
           pose proof (inv_slot cfg s I) as Hs. unfold slot_ok in Hs. now rewrite Sl in Hs.
      * apply start_getter_Inv; auto.
        apply andb_false_iff in W. destruct W as [U|W].
        -- exact (inv_nolock cfg s I U p).
        -- now apply lock_held_false.
    + apply IH; auto.
  - apply Inv_finish_same; auto.
    pose proof (inv_slot cfg s I) as Hs. unfold slot_ok in Hs. now rewrite Sl in Hs.
Qed.

Lemma after_lock_eq : forall cfg s t p, nth p (p_locks s) None = None ->
  after_lock cfg s t p =
  match p_slot s with
  | SPlace q => if Nat.eqb q p then start_getter cfg (set_lock s p (Some t)) t p else await_place 4 cfg s t q
  | SValue v => psett s t (pdone (pget s t) (PRet v))
  | SAbsent => await_place 4 cfg (fst (new_place s)) t (length (p_locks s))
  end.
Proof.
  intros cfg s t p Hfree. unfold after_lock.
  assert (E : set_lock (set_lock s p (Some t)) p None = s).
  { unfold set_lock; simpl. rewrite pset_nth_twice. rewrite <- Hfree. rewrite pset_nth_same. now destruct s. }
  rewrite E. change (p_slot (set_lock s p (Some t))) with (p_slot s).
  destruct (p_slot s); auto.
Qed.

Lemma after_lock_Inv : forall cfg s t p,
  Inv cfg s -> p_pc (pget s t) = PWaitLock p -> nth p (p_locks s) None = None ->
  Inv cfg (after_lock cfg s t p).
Proof.
  intros cfg s t p I Hpc Hfree.
  assert (Ht : t < length (p_tasks s)) by (apply pget_active; rewrite Hpc; discriminate).
  assert (Hng : forall q k r, p_pc (pget s t) <> PInGetter q k r) by (intros; rewrite Hpc; discriminate).
  assert (U : p_use_lock cfg = true).
  { destruct (inv_task cfg s I t) as (_ & B & _). rewrite Hpc in B. apply B. }
  rewrite after_lock_eq by exact Hfree.
  destruct (p_slot s) as [|q|v] eqn:Sl.
  - apply await_place_Inv; auto. exact (Inv_new_place cfg s I Sl).
  - destruct (Nat.eqb_spec q p) as [->|Hne].
    + pose proof (start_getter_Inv cfg s t p I Ht Hng Sl Hfree) as H. now rewrite U in H.
    + apply await_place_Inv; auto.
  - apply Inv_finish_same; auto.
    pose proof (inv_slot cfg s I) as Hs. unfold slot_ok in Hs. now rewrite Sl in Hs.
Qed.

Lemma stop_getter_eq : forall s t p, t < length (p_tasks s) ->
  (let s1 := unlock_if s p t in
   let x1 := pget s1 t in psett s1 t (mkPT [] PFinished (p_held x1) (p_results x1 ++ [PCancelled]))) =
  psett (leave s t p None) t
        (mkPT [] PFinished (p_held (pget s t)) (p_results (pget s t) ++ [PCancelled])).
Proof.
  intros s t p Ht. unfold leave, unlock_if; simpl.
  (destruct (nth p (p_locks s) None) as [h|]; [destruct (Nat.eqb h t)|]); simpl;
    unfold psett, pget; simpl; rewrite pset_nth_twice; reflexivity.
Qed.

Lemma Inv_stop : forall cfg s t,
  Inv cfg s -> t < length (p_tasks s) ->
  (forall q k r, p_pc (pget s t) <> PInGetter q k r) ->
  Inv cfg (psett s t (mkPT [] PFinished (p_held (pget s t)) (p_results (pget s t) ++ [PCancelled]))).
Proof.
  intros cfg s t I Ht Hng. destruct (inv_task cfg s I t) as (A & _ & C & D).
  apply Inv_task_update0; auto.
  - simpl; discriminate.
  - split; [exact A|split; [exact Logic.I|split]].
    + simpl. intros v Hv. apply in_app_or in Hv. destruct Hv as [Hv|[Hv|[]]]; auto. discriminate.
    + left; reflexivity.
  - simpl. apply ndel_snoc_le.
Qed.

Theorem pstep_Inv : forall cfg s a, Inv cfg s -> Inv cfg (pstep cfg s a).
Proof.
  intros cfg s a I. unfold pstep. destruct (negb (penabled s a)) eqn:En; auto.
  apply negb_false_iff in En. destruct a as [t|t]; simpl in En.
  - destruct (p_pc (pget s t)) as [|p|p j r|] eqn:Pc; try discriminate.
    + (* PIdle *)
      assert (Ht : t < length (p_tasks s)) by (apply pget_active; rewrite Pc; discriminate).
      assert (Hng : forall q k r, p_pc (pget s t) <> PInGetter q k r) by (intros; rewrite Pc; discriminate).
      destruct (inv_task cfg s I t) as (A & _ & C & D).
      destruct (p_script (pget s t)) as [|[| |] rest] eqn:Sc.
      * apply Inv_task_update0; auto; try (simpl; discriminate).
        split; [exact A|split; [exact Logic.I|split; [exact C|left; reflexivity]]].
      * (* PAccess *)
        destruct (p_slot s) as [|q|v] eqn:Sl.
        -- simpl. pose proof (Inv_new_place cfg s I Sl) as I1.
           apply (Inv_finish cfg (fst (new_place s)) t); auto.
           simpl. rewrite app_length; simpl; lia.
        -- apply Inv_finish; auto. simpl.
           pose proof (inv_slot cfg s I) as Hs. unfold slot_ok in Hs. now rewrite Sl in Hs.
        -- apply Inv_finish; auto. simpl.
           pose proof (inv_slot cfg s I) as Hs. unfold slot_ok in Hs. now rewrite Sl in Hs.
      * (* PAwait *)
        destruct (p_held (pget s t)) as [[p|v]|] eqn:Hd.
        -- apply await_place_Inv; auto.
        -- apply Inv_finish_same; auto.
        -- apply Inv_finish_same; auto.
      * (* PDel *)
        destruct (p_slot s) as [|q|v] eqn:Sl.
        -- apply Inv_finish_same; auto.
        -- simpl. apply Inv_task_update; auto.
           ++ apply pdone_not_getter.
           ++ apply task_ok_pdone'; auto.
           ++ rewrite Sl. simpl. destruct D as [D|D]; [rewrite Sc in D; discriminate|].
              rewrite Sc in D. symmetry in D.
              change (pget (set_slot s SAbsent) t) with (pget s t). rewrite (ndel_snoc_del _ _ _ D). lia.
        -- simpl. apply Inv_task_update; auto.
           ++ apply pdone_not_getter.
           ++ apply task_ok_pdone'; auto.
           ++ rewrite Sl. simpl. destruct D as [D|D]; [rewrite Sc in D; discriminate|].
              rewrite Sc in D. symmetry in D.
              change (pget (set_slot s SAbsent) t) with (pget s t). rewrite (ndel_snoc_del _ _ _ D). lia.
    + (* PWaitLock *)
      apply after_lock_Inv; auto. apply negb_true_iff in En. now apply lock_held_false.
    + (* PInGetter *)
      destruct j as [|[|j]].
      * eapply complete_getter_Inv; eauto.
      * eapply complete_getter_Inv; eauto.
      * eapply Inv_tick; eauto.
  - destruct (p_pc (pget s t)) as [|p|p j r|] eqn:Pc; try discriminate.
    + apply Inv_stop; auto; [apply pget_active|intros]; rewrite Pc; discriminate.
    + apply Inv_stop; auto; [apply pget_active|intros]; rewrite Pc; discriminate.
    + assert (Ht : t < length (p_tasks s)) by (apply pget_active; rewrite Pc; discriminate).
      rewrite stop_getter_eq by exact Ht.
      assert (I1 : Inv cfg (leave s t p None)) by (eapply Inv_leave; eauto).
      assert (Ht1 : t < length (p_tasks (leave s t p None))) by now rewrite leave_tasks_length.
      assert (Hng1 : forall q k r0, p_pc (pget (leave s t p None) t) <> PInGetter q k r0)
        by (intros; rewrite pget_leave by exact Ht; discriminate).
      pose proof (Inv_stop cfg _ t I1 Ht1 Hng1) as H.
      rewrite pget_leave in H by exact Ht. exact H.
Qed.

Lemma Inv_init : forall cfg, Inv cfg (p_init cfg).
Proof.
  intros cfg.
  assert (G : forall t, pget (p_init cfg) t =
                        (fun sc => mkPT sc (match sc with [] => PFinished | _ => PIdle end) None [])
                          (nth t (p_scripts cfg) [])).
  { intros t. unfold pget, p_init; simpl.
    change pdflt with ((fun sc => mkPT sc (match sc with [] => PFinished | _ => PIdle end) None []) []).
    apply map_nth. }
  constructor.
  - unfold p_init; simpl. apply map_length.
  - exact I.
  - intros t. rewrite G. split; [exact I|split; [|split]]; simpl.
    + destruct (nth t (p_scripts cfg) []); exact I.
    + intros v [].
    + right; reflexivity.
  - intros p t H. simpl in H. destruct p; discriminate.
  - intros _ p. simpl. now destruct p.
  - intros v [].
  - intros _. simpl. apply le_n.
  - unfold dels; simpl. lia.
Qed.

Lemma prun_Inv : forall cfg sched s, Inv cfg s -> Inv cfg (prun cfg s sched).
Proof. intros cfg sched; induction sched as [|a r IH]; intros s I; simpl; auto using pstep_Inv. Qed.

Theorem pexec_Inv : forall cfg sched, Inv cfg (pexec cfg sched).
Proof. intros. apply prun_Inv, Inv_init. Qed.

(* ====================================================================================================== *)
(* 5. Part 1: general properties (any configuration, any schedule)                                         *)
(* ====================================================================================================== *)
Lemma In_tasks_pget : forall s x, In x (p_tasks s) -> exists t, t < length (p_tasks s) /\ pget s t = x.
Proof. intros s x H. destruct (In_nth _ _ pdflt H) as [t [Ht E]]. exists t. split; auto. Qed.

(* every awaiter receives a value some getter run returned; so does the cache *)
Theorem values_genuine : forall cfg sched,
  let s := pexec cfg sched in
  (forall t v, In (PRet v) (p_results (pget s t)) ->
     In v (p_completed s) /\ ~ In v (p_fail_runs cfg) /\ v < p_runs s) /\
  (forall v, p_slot s = SValue v ->
     In v (p_completed s) /\ ~ In v (p_fail_runs cfg) /\ v < p_runs s).
Proof.
  intros cfg sched s. pose proof (pexec_Inv cfg sched) as I. fold s in I. split.
  - intros t v H. destruct (inv_task cfg s I t) as (_ & _ & C & _). exact (C v H).
  - intros v H. pose proof (inv_slot cfg s I) as Hs. unfold slot_ok in Hs. now rewrite H in Hs.
Qed.

Corollary values_genuine_tasks : forall cfg sched x v,
  In x (p_tasks (pexec cfg sched)) -> In (PRet v) (p_results x) ->
  In v (p_completed (pexec cfg sched)) /\ ~ In v (p_fail_runs cfg) /\ v < p_runs (pexec cfg sched).
Proof.
  intros cfg sched x v Hx Hv. destruct (In_tasks_pget _ _ Hx) as [t [_ E]]. subst x.
  exact (proj1 (values_genuine cfg sched) t v Hv).
Qed.

(* completed runs are runs that were started and did not fail *)
Theorem completed_genuine : forall cfg sched v,
  In v (p_completed (pexec cfg sched)) -> v < p_runs (pexec cfg sched) /\ ~ In v (p_fail_runs cfg).
Proof. intros cfg sched. exact (inv_completed cfg _ (pexec_Inv cfg sched)). Qed.

(* a lock is only held by a task inside the getter of that placeholder *)
Theorem lock_discipline : forall cfg sched,
  let s := pexec cfg sched in
  (forall p t, nth p (p_locks s) None = Some t -> exists j r, p_pc (pget s t) = PInGetter p j r) /\
  (p_use_lock cfg = false -> forall p, nth p (p_locks s) None = None).
Proof.
  intros cfg sched s. pose proof (pexec_Inv cfg sched) as I. fold s in I. split.
  - exact (inv_lock cfg s I).
  - exact (inv_nolock cfg s I).
Qed.

Corollary no_lock_all_free : forall cfg sched h,
  p_use_lock cfg = false -> In h (p_locks (pexec cfg sched)) -> h = None.
Proof.
  intros cfg sched h U H. destruct (In_nth _ _ None H) as [p [_ E]].
  rewrite <- E. exact (proj2 (lock_discipline cfg sched) U p).
Qed.

(* in particular a task that is finished (cancelled, failed, done) or waiting holds no lock *)
Corollary finished_holds_no_lock : forall cfg sched t p,
  (forall q j r, p_pc (pget (pexec cfg sched) t) <> PInGetter q j r) ->
  nth p (p_locks (pexec cfg sched)) None <> Some t.
Proof.
  intros cfg sched t p Hng H. destruct (proj1 (lock_discipline cfg sched) p t H) as [j [r E]].
  eapply Hng; eauto.
Qed.

(* with the lock, a task inside the getter holds the lock of its placeholder *)
Theorem getter_holds_lock : forall cfg sched t p j r,
  p_use_lock cfg = true -> p_pc (pget (pexec cfg sched) t) = PInGetter p j r ->
  nth p (p_locks (pexec cfg sched)) None = Some t.
Proof.
  intros cfg sched t p j r U H. destruct (inv_task cfg _ (pexec_Inv cfg sched) t) as (_ & B & _).
  rewrite H in B. now apply B.
Qed.

Lemma unlock_if_slot : forall s p t, p_slot (unlock_if s p t) = p_slot s.
Proof. intros. destruct (unlock_if_spec s p t) as (L & -> & _). reflexivity. Qed.
Lemma unlock_if_runs : forall s p t, p_runs (unlock_if s p t) = p_runs s.
Proof. intros. destruct (unlock_if_spec s p t) as (L & -> & _). reflexivity. Qed.
Lemma unlock_if_completed : forall s p t, p_completed (unlock_if s p t) = p_completed s.
Proof. intros. destruct (unlock_if_spec s p t) as (L & -> & _). reflexivity. Qed.
Lemma unlock_if_tasks : forall s p t, p_tasks (unlock_if s p t) = p_tasks s.
Proof. intros. destruct (unlock_if_spec s p t) as (L & -> & _). reflexivity. Qed.

(* a cancellation stores nothing (in ANY state) *)
Theorem cancelled_caches_nothing : forall cfg s t,
  p_slot (pstep cfg s (PCancel t)) = p_slot s /\ p_completed (pstep cfg s (PCancel t)) = p_completed s.
Proof.
  intros cfg s t. unfold pstep. destruct (negb (penabled s (PCancel t))); auto.
  destruct (p_pc (pget s t)); simpl; auto. now rewrite unlock_if_slot, unlock_if_completed.
Qed.

(* the completion of a failing getter run stores nothing (in ANY state) *)
Theorem failed_caches_nothing : forall cfg s t p j r,
  p_pc (pget s t) = PInGetter p j r -> j <= 1 -> In r (p_fail_runs cfg) ->
  let s' := pstep cfg s (PRun t) in
  p_slot s' = p_slot s /\ p_completed s' = p_completed s /\
  p_results (pget s' t) = p_results (pget s t) ++ [PRaised].
Proof.
  intros cfg s t p j r Hpc Hj Hf s'.
  assert (Ht : t < length (p_tasks s)) by (apply pget_active; rewrite Hpc; discriminate).
  assert (E : s' = complete_getter cfg s t p r).
  { unfold s', pstep. simpl. rewrite Hpc. simpl. destruct j as [|[|j]]; auto. lia. }
  rewrite E. unfold complete_getter. rewrite (proj2 (fails_iff cfg r) Hf).
  simpl. rewrite unlock_if_slot, unlock_if_completed. repeat split; auto.
  rewrite pget_psett_same by (now rewrite unlock_if_tasks).
  simpl. unfold pget. now rewrite unlock_if_tasks.
Qed.

Theorem failed_or_cancelled_caches_nothing : forall cfg s t,
  p_slot (pstep cfg s (PCancel t)) = p_slot s /\
  (forall p j r, p_pc (pget s t) = PInGetter p j r -> j <= 1 -> In r (p_fail_runs cfg) ->
     p_slot (pstep cfg s (PRun t)) = p_slot s).
Proof.
  intros cfg s t. split.
  - exact (proj1 (cancelled_caches_nothing cfg s t)).
  - intros p j r H1 H2 H3. exact (proj1 (failed_caches_nothing cfg s t p j r H1 H2 H3)).
Qed.

(* ====================================================================================================== *)
(* 6. Part 3: with a lock, at most one successful run per placeholder, hence per successful deletion       *)
(* ====================================================================================================== *)
(* [dels cfg s] counts, over all tasks, the results PDone at positions whose ORIGINAL script operation is PDel.
   The bound holds in the model: a task holding a stale placeholder re-checks the slot before computing. *)
Theorem computes_once_per_deletion : forall cfg sched,
  p_use_lock cfg = true ->
  length (p_completed (pexec cfg sched)) <= 1 + dels cfg (pexec cfg sched).
Proof.
  intros cfg sched U. pose proof (pexec_Inv cfg sched) as I.
  pose proof (inv_alive cfg _ I U). pose proof (inv_dels cfg _ I). lia.
Qed.

(* finer: successful runs never outnumber the placeholders created, which never outnumber 1 + deletions *)
Theorem completed_le_placeholders : forall cfg sched,
  p_use_lock cfg = true ->
  length (p_completed (pexec cfg sched)) <= length (p_locks (pexec cfg sched)) /\
  length (p_locks (pexec cfg sched)) <= 1 + dels cfg (pexec cfg sched).
Proof.
  intros cfg sched U. pose proof (pexec_Inv cfg sched) as I.
  pose proof (inv_alive cfg _ I U). pose proof (inv_dels cfg _ I). lia.
Qed.

Theorem placeholders_le_deletions : forall cfg sched,
  length (p_locks (pexec cfg sched)) <= 1 + dels cfg (pexec cfg sched).
Proof. intros cfg sched. pose proof (inv_dels cfg _ (pexec_Inv cfg sched)). lia. Qed.

(* ====================================================================================================== *)
(* 7. Part 2: with a lock and no deletion                                                                  *)
(* ====================================================================================================== *)
Definition no_del (cfg : pconfig) : Prop := forall sc, In sc (p_scripts cfg) -> ~ In PDel sc.

Lemma no_del_dels : forall cfg s, no_del cfg -> dels cfg s = 0.
Proof. intros cfg s H. unfold dels. now apply dels_of_no_del. Qed.

Theorem computes_once : forall cfg sched,
  p_use_lock cfg = true -> no_del cfg -> length (p_completed (pexec cfg sched)) <= 1.
Proof.
  intros cfg sched U N. pose proof (computes_once_per_deletion cfg sched U) as H.
  now rewrite no_del_dels in H.
Qed.

Lemma short_list_eq : forall (l : list nat) a b, length l <= 1 -> In a l -> In b l -> a = b.
Proof.
  intros [|x [|y l]] a b H Ha Hb; simpl in *; try lia; intuition congruence.
Qed.

(* all awaiters (including those that arrived during the computation) receive the same value *)
Theorem all_results_equal : forall cfg sched t t' v v',
  p_use_lock cfg = true -> no_del cfg ->
  In (PRet v) (p_results (pget (pexec cfg sched) t)) ->
  In (PRet v') (p_results (pget (pexec cfg sched) t')) -> v = v'.
Proof.
  intros cfg sched t t' v v' U N H H'.
  apply (short_list_eq (p_completed (pexec cfg sched))).
  - now apply computes_once.
  - exact (proj1 (proj1 (values_genuine cfg sched) t v H)).
  - exact (proj1 (proj1 (values_genuine cfg sched) t' v' H')).
Qed.

(* ... and it is the cached value *)
Theorem results_equal_cache : forall cfg sched t v v',
  p_use_lock cfg = true -> no_del cfg ->
  In (PRet v) (p_results (pget (pexec cfg sched) t)) -> p_slot (pexec cfg sched) = SValue v' -> v = v'.
Proof.
  intros cfg sched t v v' U N H H'.
  apply (short_list_eq (p_completed (pexec cfg sched))).
  - now apply computes_once.
  - exact (proj1 (proj1 (values_genuine cfg sched) t v H)).
  - exact (proj1 (proj2 (values_genuine cfg sched) v' H')).
Qed.

Theorem getter_mutex : forall cfg sched t t' p p' j j' r r',
  p_use_lock cfg = true -> no_del cfg ->
  p_pc (pget (pexec cfg sched) t) = PInGetter p j r ->
  p_pc (pget (pexec cfg sched) t') = PInGetter p' j' r' -> t = t'.
Proof.
  intros cfg sched t t' p p' j j' r r' U N H H'.
  pose proof (pexec_Inv cfg sched) as I.
  pose proof (placeholders_le_deletions cfg sched) as Hl. rewrite no_del_dels in Hl by exact N.
  destruct (inv_task cfg _ I t) as (_ & B & _). rewrite H in B. destruct B as (B1 & _ & B3).
  destruct (inv_task cfg _ I t') as (_ & B' & _). rewrite H' in B'. destruct B' as (B1' & _ & B3').
  specialize (B3 U). specialize (B3' U).
  assert (p = 0) by lia. assert (p' = 0) by lia. subst. congruence.
Qed.

(* with deletions allowed the mutual exclusion is per placeholder *)
Theorem getter_mutex_per_placeholder : forall cfg sched t t' p j j' r r',
  p_use_lock cfg = true ->
  p_pc (pget (pexec cfg sched) t) = PInGetter p j r ->
  p_pc (pget (pexec cfg sched) t') = PInGetter p j' r' -> t = t'.
Proof.
  intros cfg sched t t' p j j' r r' U H H'.
  pose proof (getter_holds_lock cfg sched t p j r U H).
  pose proof (getter_holds_lock cfg sched t' p j' r' U H'). congruence.
Qed.

Lemma alive_cnt_pos : forall s p, p < length (p_locks s) -> alive s p -> 1 <= alive_cnt s.
Proof.
  intros s p Hp Ha. unfold alive_cnt.
  assert (In p (filter (alive_b s) (seq 0 (length (p_locks s))))).
  { apply filter_In. split; [apply in_seq; lia|now apply alive_b_iff]. }
  destruct (filter (alive_b s) (seq 0 (length (p_locks s)))); simpl in *; [tauto|lia].
Qed.

Lemma await_place_slot_value : forall cfg f s t p v,
  p_slot s = SValue v -> p_slot (await_place f cfg s t p) = SValue v.
Proof. intros cfg [|f] s t p v H; simpl; auto. now rewrite H. Qed.

(* what can change a cached value: only a deletion, or the completion of a computation still in flight *)
Lemma slot_value_step : forall cfg s a v,
  p_slot s = SValue v ->
  p_slot (pstep cfg s a) = SValue v \/
  (exists t rest, p_script (pget s t) = PDel :: rest) \/
  (exists t p j r, p_pc (pget s t) = PInGetter p j r).
Proof.
  intros cfg s a v Hs. unfold pstep. destruct (negb (penabled s a)); auto.
  destruct a as [t|t].
  - destruct (p_pc (pget s t)) as [|p|p j r|] eqn:Pc; auto.
    + destruct (p_script (pget s t)) as [|[| |] rest] eqn:Sc; auto.
      * rewrite Hs. auto.
      * destruct (p_held (pget s t)) as [[p|w]|]; auto. left. now apply await_place_slot_value.
      * right; left; eauto.
    + left. unfold after_lock. simpl. rewrite Hs. simpl. exact Hs.
    + right; right; eauto.
  - left. rewrite (proj1 (cancelled_caches_nothing cfg s t)) || idtac.
    destruct (p_pc (pget s t)); simpl; auto. now rewrite unlock_if_slot.
Qed.

Theorem value_stable_step : forall cfg sched a v,
  p_use_lock cfg = true -> no_del cfg ->
  p_slot (pexec cfg sched) = SValue v -> p_slot (pstep cfg (pexec cfg sched) a) = SValue v.
Proof.
  intros cfg sched a v U N Hs. set (s := pexec cfg sched) in *.
  pose proof (pexec_Inv cfg sched) as I. fold s in I.
  destruct (slot_value_step cfg s a v Hs) as [H|[[t [rest H]]|[t [p [j [r H]]]]]]; auto.
  - exfalso. destruct (inv_task cfg s I t) as (_ & _ & _ & D).
    destruct D as [D|D]; [rewrite H in D; discriminate|].
    assert (Hin : In PDel (nth t (p_scripts cfg) [])).
    { assert (Hin' : In PDel (p_script (pget s t))) by (rewrite H; simpl; auto).
      rewrite D in Hin'. rewrite <- (firstn_skipn (length (p_results (pget s t))) (nth t (p_scripts cfg) [])).
      apply in_or_app; auto. }
    destruct (Nat.lt_ge_cases t (length (p_scripts cfg))) as [Hlt|Hge].
    + exact (N _ (nth_In _ _ Hlt) Hin).
    + rewrite nth_overflow in Hin by exact Hge. exact Hin.
  - exfalso.
    pose proof (inv_alive cfg s I U) as Ha. pose proof (inv_dels cfg s I) as Hd.
    rewrite no_del_dels in Hd by exact N.
    destruct (inv_task cfg s I t) as (_ & B & _). rewrite H in B. destruct B as (B1 & _).
    assert (1 <= alive_cnt s) by (apply alive_cnt_pos with (p := p); auto; right; eauto).
    pose proof (inv_slot cfg s I) as Hv. unfold slot_ok in Hv. rewrite Hs in Hv. destruct Hv as (Hv & _).
    destruct (p_completed s); simpl in *; [tauto|lia].
Qed.

Lemma prun_app : forall cfg a b s, prun cfg s (a ++ b) = prun cfg (prun cfg s a) b.
Proof. intros cfg a; induction a as [|x a IH]; intros b s; simpl; auto. Qed.

Lemma pexec_app : forall cfg a b, pexec cfg (a ++ b) = prun cfg (pexec cfg a) b.
Proof. intros. unfold pexec. apply prun_app. Qed.

(* once a value is cached it stays cached under every further schedule *)
Theorem value_stable : forall cfg sched more v,
  p_use_lock cfg = true -> no_del cfg ->
  p_slot (pexec cfg sched) = SValue v -> p_slot (pexec cfg (sched ++ more)) = SValue v.
Proof.
  intros cfg sched more v U N. revert sched. induction more as [|a more IH]; intros sched Hs.
  - now rewrite app_nil_r.
  - change (a :: more) with ([a] ++ more). rewrite app_assoc. apply IH.
    rewrite pexec_app. simpl. now apply value_stable_step.
Qed.

(* ====================================================================================================== *)
(* 8. Part 4: a cached value is served without running the getter (any configuration, ANY state)           *)
(* ====================================================================================================== *)
Theorem served_from_cache : forall cfg s t rest v,
  p_pc (pget s t) = PIdle -> p_script (pget s t) = PAccess :: PAwait :: rest -> p_slot s = SValue v ->
  let s2 := pstep cfg (pstep cfg s (PRun t)) (PRun t) in
  p_results (pget s2 t) = p_results (pget s t) ++ [PDone; PRet v] /\
  p_runs s2 = p_runs s /\ p_slot s2 = SValue v /\ p_completed s2 = p_completed s /\ p_locks s2 = p_locks s.
Proof.
  intros cfg s t rest v Hpc Hsc Hs.
  assert (Ht : t < length (p_tasks s)) by (apply pget_active; rewrite Hpc; discriminate).
  set (x1 := mkPT (PAwait :: rest) PIdle (Some (HValue v)) (p_results (pget s t) ++ [PDone])).
  assert (E1 : pstep cfg s (PRun t) = psett s t x1).
  { unfold pstep; simpl. rewrite Hpc; simpl. rewrite Hsc, Hs. reflexivity. }
  assert (G1 : pget (psett s t x1) t = x1) by (now apply pget_psett_same).
  intros s2. unfold s2. rewrite E1. unfold pstep; simpl. rewrite G1. unfold x1; simpl.
  rewrite psett_psett. rewrite pget_psett_same by exact Ht. simpl.
  rewrite <- app_assoc. simpl. auto.
Qed.

(* ====================================================================================================== *)
(* 9. Part 5: sequential semantics (one task, any script, any number of getter suspensions)                *)
(* ====================================================================================================== *)
Lemma seq_locks_free : forall cfg s,
  Inv cfg s -> length (p_scripts cfg) = 1 ->
  (forall q k r, p_pc (pget s 0) <> PInGetter q k r) ->
  forall p, nth p (p_locks s) None = None.
Proof.
  intros cfg s I H1 Hng p. destruct (nth p (p_locks s) None) as [t|] eqn:E; auto.
  destruct (inv_lock cfg s I p t E) as [j [r Hpc]]. destruct t as [|t].
  - exfalso; eapply Hng; eauto.
  - unfold pget in Hpc. rewrite nth_overflow in Hpc; [discriminate|].
    rewrite (inv_len cfg s I), H1. lia.
Qed.

Lemma await_place_S : forall f cfg s t p,
  await_place (S f) cfg s t p =
  match p_slot s with
  | SPlace q =>
      if Nat.eqb q p then
        if p_use_lock cfg && lock_held s p then set_pc s t (PWaitLock p)
        else start_getter cfg (if p_use_lock cfg then set_lock s p (Some t) else s) t p
      else await_place f cfg s t q
  | SValue v => psett s t (pdone (pget s t) (PRet v))
  | SAbsent => await_place f cfg (fst (new_place s)) t (length (p_locks s))
  end.
Proof. reflexivity. Qed.

(* with all locks free, awaiting a placeholder either serves the cached value or starts the getter on the stored
   (possibly freshly created) placeholder; the fuel 4 of the model is more than enough *)
Lemma await_place_free : forall f cfg s t p,
  (forall q, nth q (p_locks s) None = None) ->
  await_place (S (S f)) cfg s t p =
  match p_slot s with
  | SPlace q => start_getter cfg (if p_use_lock cfg then set_lock s q (Some t) else s) t q
  | SValue v => psett s t (pdone (pget s t) (PRet v))
  | SAbsent => let s1 := fst (new_place s) in
               start_getter cfg (if p_use_lock cfg then set_lock s1 (length (p_locks s)) (Some t) else s1) t
                            (length (p_locks s))
  end.
Proof.
  intros f cfg s t p Hfree. rewrite await_place_S.
  assert (Hl : forall q, lock_held s q = false) by (intros q; unfold lock_held; now rewrite Hfree).
  destruct (p_slot s) as [|q|v] eqn:Sl; auto.
  - rewrite await_place_S. unfold new_place at 1. cbn [fst p_slot]. rewrite Nat.eqb_refl.
    assert (Hl1 : lock_held (fst (new_place s)) (length (p_locks s)) = false).
    { unfold lock_held; simpl. now rewrite nth_snoc_default, Hfree. }
    rewrite Hl1, andb_false_r. reflexivity.
  - destruct (Nat.eqb_spec q p) as [->|Hne].
    + now rewrite Hl, andb_false_r.
    + rewrite await_place_S, Sl, Nat.eqb_refl, Hl, andb_false_r. reflexivity.
Qed.

Lemma getter_ticks : forall cfg t p r j s,
  p_pc (pget s t) = PInGetter p (S j) r ->
  prun cfg s (repeat (PRun t) (S j)) = complete_getter cfg s t p r.
Proof.
  intros cfg t p r j; induction j as [|j IH]; intros s H.
  - simpl. unfold pstep; simpl. rewrite H; simpl. reflexivity.
  - assert (Ht : t < length (p_tasks s)) by (apply pget_active; rewrite H; discriminate).
    change (repeat (PRun t) (S (S j))) with (PRun t :: repeat (PRun t) (S j)).
    change (prun cfg s (PRun t :: repeat (PRun t) (S j)))
      with (prun cfg (pstep cfg s (PRun t)) (repeat (PRun t) (S j))).
    assert (E : pstep cfg s (PRun t) = set_pc s t (PInGetter p (S j) r)).
    { unfold pstep; simpl. rewrite H; simpl. reflexivity. }
    rewrite E, IH.
    + now apply complete_getter_set_pc.
    + unfold set_pc. now rewrite pget_psett_same.
Qed.

Lemma enter_set_pc : forall cfg s t p j j', t < length (p_tasks s) ->
  set_pc (enter cfg s t p j') t (PInGetter p j (p_runs s)) = enter cfg s t p j.
Proof.
  intros cfg s t p j j' Ht. unfold set_pc, enter, psett, pget; simpl.
  rewrite pset_nth_twice, nth_pset_nth_eq by exact Ht. reflexivity.
Qed.

(* starting the getter and running the task through its suspensions = one completed run *)
Lemma start_then_ticks : forall cfg s t p, t < length (p_tasks s) ->
  prun cfg (start_getter cfg (if p_use_lock cfg then set_lock s p (Some t) else s) t p)
       (repeat (PRun t) (p_susp cfg))
  = complete_getter cfg (enter cfg s t p 0) t p (p_runs s).
Proof.
  intros cfg s t p Ht. rewrite start_getter_eq by exact Ht.
  destruct (p_susp cfg) as [|j]; [reflexivity|].
  rewrite getter_ticks with (p := p) (r := p_runs s).
  - rewrite <- (enter_set_pc cfg s t p (S j) 0) by exact Ht.
    apply complete_getter_set_pc. unfold enter; simpl. now rewrite pset_nth_length.
  - unfold enter, pget; simpl. now rewrite nth_pset_nth_eq.
Qed.

Lemma start_getter_runs : forall cfg s t p, p_runs (start_getter cfg s t p) = S (p_runs s).
Proof.
  intros cfg s t p. unfold start_getter. destruct (p_susp cfg); [|reflexivity].
  unfold complete_getter. destruct (existsb _ _); simpl; now rewrite unlock_if_runs.
Qed.

Definition next_pc (sc : list pop) : ppc := match tl sc with [] => PFinished | _ => PIdle end.

(* the state after one complete getter run started by task t on the stored placeholder p *)
Lemma complete_enter_facts : forall cfg s t p, t < length (p_tasks s) ->
  let r := p_runs s in
  let sC := complete_getter cfg (enter cfg s t p 0) t p r in
  p_runs sC = S r /\
  p_script (pget sC t) = tl (p_script (pget s t)) /\ p_pc (pget sC t) = next_pc (p_script (pget s t)) /\
  p_held (pget sC t) = p_held (pget s t) /\
  (In r (p_fail_runs cfg) ->
     p_slot sC = p_slot s /\ p_completed sC = p_completed s /\
     p_results (pget sC t) = p_results (pget s t) ++ [PRaised]) /\
  (~ In r (p_fail_runs cfg) ->
     p_slot sC = SValue r /\ p_completed sC = p_completed s ++ [r] /\
     p_results (pget sC t) = p_results (pget s t) ++ [PRet r]).
Proof.
  intros cfg s t p Ht r sC.
  assert (Ht' : t < length (p_tasks (enter cfg s t p 0))) by (unfold enter; simpl; now rewrite pset_nth_length).
  assert (G : pget (enter cfg s t p 0) t =
              mkPT (p_script (pget s t)) (PInGetter p 0 r) (p_held (pget s t)) (p_results (pget s t))).
  { unfold enter, pget; simpl. now rewrite nth_pset_nth_eq. }
  unfold sC, complete_getter.
  destruct (existsb (Nat.eqb r) (p_fail_runs cfg)) eqn:F.
  - assert (Hf : In r (p_fail_runs cfg)) by (now apply fails_iff).
    rewrite pget_psett_same by (now rewrite unlock_if_tasks).
    assert (G' : pget (unlock_if (enter cfg s t p 0) p t) t = pget (enter cfg s t p 0) t)
      by (unfold pget; now rewrite unlock_if_tasks).
    rewrite G', G. simpl. rewrite unlock_if_runs, unlock_if_slot, unlock_if_completed. simpl.
    repeat split; auto; intros; tauto.
  - assert (Hf : ~ In r (p_fail_runs cfg)) by (rewrite <- fails_iff; congruence).
    rewrite pget_psett_same by (now rewrite unlock_if_tasks).
    match goal with |- context [unlock_if ?s0 p t] =>
      assert (G' : pget (unlock_if s0 p t) t = pget (enter cfg s t p 0) t)
        by (unfold pget; now rewrite unlock_if_tasks) end.
    rewrite G', G. simpl. rewrite unlock_if_runs, unlock_if_slot, unlock_if_completed. simpl.
    repeat split; auto; intros; tauto.
Qed.

(* --- an await of a placeholder when a value is cached: served, no getter run (any state, any config) --- *)
Theorem await_cached : forall cfg s t rest p v,
  p_pc (pget s t) = PIdle -> p_script (pget s t) = PAwait :: rest -> p_held (pget s t) = Some (HPlace p) ->
  p_slot s = SValue v ->
  let s' := pstep cfg s (PRun t) in
  p_runs s' = p_runs s /\ p_slot s' = SValue v /\ p_completed s' = p_completed s /\
  p_results (pget s' t) = p_results (pget s t) ++ [PRet v].
Proof.
  intros cfg s t rest p v Hpc Hsc Hh Hs s'.
  assert (Ht : t < length (p_tasks s)) by (apply pget_active; rewrite Hpc; discriminate).
  assert (E : s' = psett s t (pdone (pget s t) (PRet v))).
  { unfold s', pstep; simpl. rewrite Hpc; simpl. rewrite Hsc, Hh. rewrite Hs. reflexivity. }
  rewrite E. rewrite pget_psett_same by exact Ht. simpl. auto.
Qed.

(* --- an await of a placeholder when no value is cached, the task running alone: exactly one getter run --- *)
Theorem seq_await_computes : forall cfg sched rest p,
  length (p_scripts cfg) = 1 ->
  let s := pexec cfg sched in
  p_pc (pget s 0) = PIdle -> p_script (pget s 0) = PAwait :: rest -> p_held (pget s 0) = Some (HPlace p) ->
  (forall v, p_slot s <> SValue v) ->
  let r := p_runs s in
  let sF := prun cfg s (repeat (PRun 0) (S (p_susp cfg))) in
  p_runs (pstep cfg s (PRun 0)) = S r /\ p_runs sF = S r /\
  p_script (pget sF 0) = rest /\ p_pc (pget sF 0) = match rest with [] => PFinished | _ => PIdle end /\
  (In r (p_fail_runs cfg) ->
     (forall v, p_slot sF <> SValue v) /\ p_slot sF <> SAbsent /\ p_completed sF = p_completed s /\
     p_results (pget sF 0) = p_results (pget s 0) ++ [PRaised]) /\
  (~ In r (p_fail_runs cfg) ->
     p_slot sF = SValue r /\ p_completed sF = p_completed s ++ [r] /\
     p_results (pget sF 0) = p_results (pget s 0) ++ [PRet r]).
Proof.
  intros cfg sched rest p H1 s Hpc Hsc Hh Hnv r sF.
  pose proof (pexec_Inv cfg sched) as I. fold s in I.
  assert (Ht : 0 < length (p_tasks s)) by (apply pget_active; rewrite Hpc; discriminate).
  assert (Hfree : forall q, nth q (p_locks s) None = None).
  { apply (seq_locks_free cfg s I H1). intros; rewrite Hpc; discriminate. }
  assert (E : pstep cfg s (PRun 0) = await_place 4 cfg s 0 p).
  { unfold pstep; simpl. rewrite Hpc; simpl. rewrite Hsc, Hh. reflexivity. }
  assert (EF : sF = prun cfg (await_place 4 cfg s 0 p) (repeat (PRun 0) (p_susp cfg))).
  { unfold sF. simpl. now rewrite E. }
  rewrite E, EF. rewrite await_place_free by exact Hfree.
  destruct (p_slot s) as [|q|v] eqn:Sl.
  - (* absent: a new placeholder is stored, then computed *)
    cbv zeta. set (s1 := fst (new_place s)).
    assert (Ht1 : 0 < length (p_tasks s1)) by exact Ht.
    rewrite start_getter_runs. rewrite (start_then_ticks cfg s1 0 (length (p_locks s)) Ht1).
    destruct (complete_enter_facts cfg s1 0 (length (p_locks s)) Ht1) as (A & B & C & D & Ef & Es).
    change (pget s1 0) with (pget s 0) in *. change (p_runs s1) with r in *.
    change (p_completed s1) with (p_completed s) in *.
    rewrite Hsc in B, C. unfold next_pc in C. simpl in B, C.
    split; [destruct (p_use_lock cfg); reflexivity|]. split; [exact A|]. split; [exact B|]. split; [exact C|].
    split.
    + intros Hf. destruct (Ef Hf) as (X & Y & Z). rewrite X. simpl. repeat split; auto; discriminate.
    + intros Hf. exact (Es Hf).
  - rewrite start_getter_runs. rewrite (start_then_ticks cfg s 0 q Ht).
    destruct (complete_enter_facts cfg s 0 q Ht) as (A & B & C & D & Ef & Es).
    rewrite Hsc in B, C. unfold next_pc in C. simpl in B, C.
    split; [destruct (p_use_lock cfg); reflexivity|]. split; [exact A|]. split; [exact B|]. split; [exact C|].
    split.
    + intros Hf. destruct (Ef Hf) as (X & Y & Z). rewrite X, Sl. repeat split; auto; discriminate.
    + intros Hf. exact (Es Hf).
  - exfalso. exact (Hnv v eq_refl).
Qed.

(* an await (of a placeholder) runs the getter iff no value is cached at that moment *)
Theorem getter_runs_iff_not_cached : forall cfg sched rest p,
  length (p_scripts cfg) = 1 ->
  let s := pexec cfg sched in
  p_pc (pget s 0) = PIdle -> p_script (pget s 0) = PAwait :: rest -> p_held (pget s 0) = Some (HPlace p) ->
  let s' := pstep cfg s (PRun 0) in
  (p_runs s' = S (p_runs s) <-> (forall v, p_slot s <> SValue v)) /\
  (p_runs s' = p_runs s <-> (exists v, p_slot s = SValue v)).
Proof.
  intros cfg sched rest p H1 s Hpc Hsc Hh s'.
  destruct (p_slot s) as [|q|v] eqn:Sl.
  - assert (Hnv : forall v, p_slot s <> SValue v) by (intros; rewrite Sl; discriminate).
    destruct (seq_await_computes cfg sched rest p H1 Hpc Hsc Hh Hnv) as (A & _).
    fold s in A. fold s' in A. split; split; intros; auto; try discriminate; try lia.
    destruct H as [v H]; discriminate.
  - assert (Hnv : forall v, p_slot s <> SValue v) by (intros; rewrite Sl; discriminate).
    destruct (seq_await_computes cfg sched rest p H1 Hpc Hsc Hh Hnv) as (A & _).
    fold s in A. fold s' in A. split; split; intros; auto; try discriminate; try lia.
    destruct H as [w H]; discriminate.
  - destruct (await_cached cfg s 0 rest p v Hpc Hsc Hh Sl) as (A & _). fold s' in A.
    split; split; intros; eauto; try lia. exfalso. exact (H v eq_refl).
Qed.

(* after a successful await the cache holds the returned value: both cases *)
Theorem successful_await_caches : forall cfg sched rest p,
  length (p_scripts cfg) = 1 ->
  let s := pexec cfg sched in
  p_pc (pget s 0) = PIdle -> p_script (pget s 0) = PAwait :: rest -> p_held (pget s 0) = Some (HPlace p) ->
  let sF := match p_slot s with
            | SValue _ => pstep cfg s (PRun 0)
            | _ => prun cfg s (repeat (PRun 0) (S (p_susp cfg)))
            end in
  forall v, p_results (pget sF 0) = p_results (pget s 0) ++ [PRet v] -> p_slot sF = SValue v.
Proof.
  intros cfg sched rest p H1 s Hpc Hsc Hh sF v Hres.
  destruct (p_slot s) as [|q|w] eqn:Sl.
  - assert (Hnv : forall v, p_slot s <> SValue v) by (intros; rewrite Sl; discriminate).
    destruct (seq_await_computes cfg sched rest p H1 Hpc Hsc Hh Hnv) as (_ & _ & _ & _ & Ef & Es).
    fold s in Ef, Es. destruct (in_dec Nat.eq_dec (p_runs s) (p_fail_runs cfg)) as [Hf|Hf].
    + destruct (Ef Hf) as (_ & _ & _ & Z). unfold sF in Hres. rewrite Z in Hres.
      apply app_inv_head in Hres. discriminate.
    + destruct (Es Hf) as (X & _ & Z). unfold sF in Hres. rewrite Z in Hres.
      apply app_inv_head in Hres. inversion Hres; subst. exact X.
  - assert (Hnv : forall v, p_slot s <> SValue v) by (intros; rewrite Sl; discriminate).
    destruct (seq_await_computes cfg sched rest p H1 Hpc Hsc Hh Hnv) as (_ & _ & _ & _ & Ef & Es).
    fold s in Ef, Es. destruct (in_dec Nat.eq_dec (p_runs s) (p_fail_runs cfg)) as [Hf|Hf].
    + destruct (Ef Hf) as (_ & _ & _ & Z). unfold sF in Hres. rewrite Z in Hres.
      apply app_inv_head in Hres. discriminate.
    + destruct (Es Hf) as (X & _ & Z). unfold sF in Hres. rewrite Z in Hres.
      apply app_inv_head in Hres. inversion Hres; subst. exact X.
  - destruct (await_cached cfg s 0 rest p w Hpc Hsc Hh Sl) as (_ & X & _ & Z).
    unfold sF in *. rewrite Z in Hres. apply app_inv_head in Hres. inversion Hres; subst. exact X.
Qed.

(* --- after a deletion the next access + await recomputes --- *)
Lemma step_del : forall cfg s t rest,
  p_pc (pget s t) = PIdle -> p_script (pget s t) = PDel :: rest ->
  let s1 := pstep cfg s (PRun t) in
  p_slot s1 = SAbsent /\ p_runs s1 = p_runs s /\ p_locks s1 = p_locks s /\ p_completed s1 = p_completed s /\
  pget s1 t = pdone (pget s t) (match p_slot s with SAbsent => PDelError | _ => PDone end).
Proof.
  intros cfg s t rest Hpc Hsc.
  assert (Ht : t < length (p_tasks s)) by (apply pget_active; rewrite Hpc; discriminate).
  unfold pstep; simpl. rewrite Hpc; simpl. rewrite Hsc.
  destruct (p_slot s) eqn:Sl; simpl; rewrite ?Sl; repeat split; auto;
    (rewrite pget_psett_same by exact Ht); reflexivity.
Qed.

Lemma step_access_absent : forall cfg s t rest,
  p_pc (pget s t) = PIdle -> p_script (pget s t) = PAccess :: rest -> p_slot s = SAbsent ->
  let s1 := pstep cfg s (PRun t) in
  p_slot s1 = SPlace (length (p_locks s)) /\ p_runs s1 = p_runs s /\ p_completed s1 = p_completed s /\
  pget s1 t = pdone (mkPT (p_script (pget s t)) (p_pc (pget s t)) (Some (HPlace (length (p_locks s))))
                          (p_results (pget s t))) PDone.
Proof.
  intros cfg s t rest Hpc Hsc Hs.
  assert (Ht : t < length (p_tasks s)) by (apply pget_active; rewrite Hpc; discriminate).
  unfold pstep; simpl. rewrite Hpc; simpl. rewrite Hsc, Hs. simpl. repeat split; auto.
  rewrite pget_psett_same by exact Ht.
  match goal with |- context [pget ?s0 t] =>
    lazymatch s0 with s => fail | _ => change (pget s0 t) with (pget s t) end end.
  now rewrite Hpc, Hsc.
Qed.

Theorem seq_recompute_after_del : forall cfg sched rest,
  length (p_scripts cfg) = 1 ->
  let s := pexec cfg sched in
  p_pc (pget s 0) = PIdle -> p_script (pget s 0) = PDel :: PAccess :: PAwait :: rest ->
  let r := p_runs s in
  let d := match p_slot s with SAbsent => PDelError | _ => PDone end in
  let sF := prun cfg s (repeat (PRun 0) (3 + p_susp cfg)) in
  p_runs sF = S r /\
  (In r (p_fail_runs cfg) -> p_results (pget sF 0) = p_results (pget s 0) ++ [d; PDone; PRaised]) /\
  (~ In r (p_fail_runs cfg) ->
     p_results (pget sF 0) = p_results (pget s 0) ++ [d; PDone; PRet r] /\ p_slot sF = SValue r /\
     p_completed sF = p_completed s ++ [r]).
Proof.
  intros cfg sched rest H1 s Hpc Hsc r d sF.
  destruct (step_del cfg s 0 _ Hpc Hsc) as (A1 & A2 & A3 & A4 & A5).
  set (s1 := pstep cfg s (PRun 0)) in *.
  assert (G1 : pget s1 0 = mkPT (PAccess :: PAwait :: rest) PIdle (p_held (pget s 0)) (p_results (pget s 0) ++ [d])).
  { rewrite A5. unfold pdone. rewrite Hsc. reflexivity. }
  assert (Hpc1 : p_pc (pget s1 0) = PIdle) by now rewrite G1.
  assert (Hsc1 : p_script (pget s1 0) = PAccess :: PAwait :: rest) by now rewrite G1.
  destruct (step_access_absent cfg s1 0 _ Hpc1 Hsc1 A1) as (B1 & B2 & B3 & B4).
  set (s2 := pstep cfg s1 (PRun 0)) in *.
  assert (G2 : pget s2 0 = mkPT (PAwait :: rest) PIdle (Some (HPlace (length (p_locks s1))))
                               ((p_results (pget s 0) ++ [d]) ++ [PDone])).
  { rewrite B4. unfold pdone. rewrite G1. reflexivity. }
  assert (E2 : s2 = pexec cfg (sched ++ [PRun 0; PRun 0])) by (rewrite pexec_app; reflexivity).
  assert (EF : sF = prun cfg s2 (repeat (PRun 0) (S (p_susp cfg)))) by reflexivity.
  assert (Hnv : forall v, p_slot s2 <> SValue v) by (intros v; rewrite B1; discriminate).
  rewrite E2 in G2, Hnv, EF, B2, B3.
  assert (P1 : p_pc (pget (pexec cfg (sched ++ [PRun 0; PRun 0])) 0) = PIdle) by now rewrite G2.
  assert (P2 : p_script (pget (pexec cfg (sched ++ [PRun 0; PRun 0])) 0) = PAwait :: rest) by now rewrite G2.
  assert (P3 : p_held (pget (pexec cfg (sched ++ [PRun 0; PRun 0])) 0) = Some (HPlace (length (p_locks s1))))
    by now rewrite G2.
  destruct (seq_await_computes cfg (sched ++ [PRun 0; PRun 0]) rest (length (p_locks s1)) H1 P1 P2 P3 Hnv)
    as (_ & R & _ & _ & Ef & Es).
  rewrite G2 in Ef, Es. cbn [p_results] in Ef, Es.
  rewrite <- EF in R, Ef, Es. rewrite B2, A2 in R, Ef, Es. rewrite B3, A4 in Ef, Es.
  fold r in R, Ef, Es.
  split; [exact R|]. split.
  - intros Hf. destruct (Ef Hf) as (_ & _ & _ & Z). rewrite Z. now rewrite <- !app_assoc.
  - intros Hf. destruct (Es Hf) as (X & Y & Z). rewrite Z. rewrite <- !app_assoc. auto.
Qed.

(* ====================================================================================================== *)
(* 10. Examples (vm_compute on the model)                                                                  *)
(* ====================================================================================================== *)
Definition ex_results (cfg : pconfig) (sched : list paction) : list (list pres) :=
  map p_results (p_tasks (pexec cfg sched)).

(* three awaiters with a lock; the first computation is cancelled: the lock is released, nothing is cached,
   the next waiter recomputes, and the third is served the same value *)
Definition ex3_cfg : pconfig := mkPCfg true 1 [] [[PAccess; PAwait]; [PAccess; PAwait]; [PAccess; PAwait]].
Definition ex3_sched : list paction :=
  [PRun 0; PRun 1; PRun 2; PRun 0; PRun 1; PRun 2; PCancel 0; PRun 1; PRun 2; PRun 1; PRun 2].
Example ex3_cancelled_first :
  ex_results ex3_cfg ex3_sched = [[PDone; PCancelled]; [PDone; PRet 1]; [PDone; PRet 1]] /\
  p_completed (pexec ex3_cfg ex3_sched) = [1] /\ p_runs (pexec ex3_cfg ex3_sched) = 2 /\
  p_slot (pexec ex3_cfg ex3_sched) = SValue 1 /\ p_locks (pexec ex3_cfg ex3_sched) = [None] /\
  (* right after the cancellation: lock free, still the placeholder in the slot *)
  p_slot (pexec ex3_cfg (firstn 7 ex3_sched)) = SPlace 0 /\ p_locks (pexec ex3_cfg (firstn 7 ex3_sched)) = [None].
Proof. vm_compute. repeat split. Qed.

(* WITHOUT the lock two tasks that both hold the placeholder both run the getter and receive DIFFERENT values:
   [computes_once], [all_results_equal] and [getter_mutex] need [p_use_lock cfg = true] *)
Definition exrace_cfg : pconfig := mkPCfg false 1 [] [[PAccess; PAwait]; [PAccess; PAwait]].
Definition exrace_sched : list paction := [PRun 0; PRun 1; PRun 0; PRun 1; PRun 0; PRun 1].
Example computes_once_nolock_refuted :
  no_del exrace_cfg /\
  ex_results exrace_cfg exrace_sched = [[PDone; PRet 0]; [PDone; PRet 1]] /\
  p_completed (pexec exrace_cfg exrace_sched) = [0; 1] /\
  p_slot (pexec exrace_cfg exrace_sched) = SValue 1 /\
  (* both inside the getter after four steps *)
  map p_pc (p_tasks (pexec exrace_cfg (firstn 4 exrace_sched))) = [PInGetter 0 1 0; PInGetter 0 1 1].
Proof.
  split.
  - intros sc [<-|[<-|[]]] [H|[H|[]]]; discriminate.
  - vm_compute. repeat split.
Qed.

(* a deletion during a computation (with the lock): the deleting task creates a second placeholder and computes
   on it while the first computation is still running (two tasks inside the getter: [getter_mutex] needs
   [no_del]); the first computation then stores its value unconditionally, the second overwrites it.
   Two successful runs, one successful deletion: the bound of [computes_once_per_deletion] is tight. *)
Definition exdel_cfg : pconfig := mkPCfg true 1 [] [[PAccess; PAwait]; [PDel; PAccess; PAwait]].
Definition exdel_sched : list paction := [PRun 0; PRun 0; PRun 1; PRun 1; PRun 1; PRun 0; PRun 1].
Example deletion_during_computation :
  ex_results exdel_cfg exdel_sched = [[PDone; PRet 0]; [PDone; PDone; PRet 1]] /\
  p_completed (pexec exdel_cfg exdel_sched) = [0; 1] /\
  dels exdel_cfg (pexec exdel_cfg exdel_sched) = 1 /\
  p_slot (pexec exdel_cfg exdel_sched) = SValue 1 /\
  map p_pc (p_tasks (pexec exdel_cfg (firstn 5 exdel_sched))) = [PInGetter 0 1 0; PInGetter 1 1 1] /\
  p_locks (pexec exdel_cfg (firstn 5 exdel_sched)) = [Some 0; Some 1] /\
  (* the stale computation re-populates the deleted attribute *)
  p_slot (pexec exdel_cfg (firstn 3 exdel_sched)) = SAbsent /\
  p_slot (pexec exdel_cfg (firstn 6 exdel_sched)) = SValue 0.
Proof. vm_compute. repeat split. Qed.

(* sequential: compute, serve from the cache, delete, recompute; a failing run caches nothing *)
Definition exseq_cfg : pconfig :=
  mkPCfg true 2 [1] [[PAccess; PAwait; PAccess; PAwait; PDel; PAccess; PAwait; PAccess; PAwait; PDel; PDel]].
Example sequential_run :
  ex_results exseq_cfg (repeat (PRun 0) 17) =
    [[PDone; PRet 0; PDone; PRet 0; PDone; PDone; PRaised; PDone; PRet 2; PDone; PDelError]] /\
  p_runs (pexec exseq_cfg (repeat (PRun 0) 17)) = 3 /\
  p_completed (pexec exseq_cfg (repeat (PRun 0) 17)) = [0; 2].
Proof. vm_compute. repeat split. Qed.

(* why [getter_runs_iff_not_cached] is stated for an await of a PLACEHOLDER: a task may also hold the cached VALUE
   itself (it evaluated `instance.attr` after the computation); using that value after a deletion runs no getter
   although nothing is cached.  The unrestricted reading "every PAwait runs the getter iff no value is cached"
   is therefore false in the model (and in Python: the name is then bound to the plain value). *)
Definition exheld_cfg : pconfig := mkPCfg true 0 [] [[PAccess; PAwait; PAccess; PDel; PAwait]].
Example getter_runs_iff_not_cached_unrestricted_refuted :
  let s := pexec exheld_cfg (repeat (PRun 0) 4) in
  p_pc (pget s 0) = PIdle /\ p_script (pget s 0) = [PAwait] /\ p_held (pget s 0) = Some (HValue 0) /\
  p_slot s = SAbsent /\ p_runs (pstep exheld_cfg s (PRun 0)) = p_runs s /\
  p_results (pget (pstep exheld_cfg s (PRun 0)) 0) = [PDone; PRet 0; PDone; PDone; PRet 0].
Proof. vm_compute. repeat split. Qed.

Print Assumptions pstep_Inv.
Print Assumptions pexec_Inv.
Print Assumptions values_genuine.
Print Assumptions values_genuine_tasks.
Print Assumptions completed_genuine.
Print Assumptions lock_discipline.
Print Assumptions no_lock_all_free.
Print Assumptions finished_holds_no_lock.
Print Assumptions getter_holds_lock.
Print Assumptions cancelled_caches_nothing.
Print Assumptions failed_caches_nothing.
Print Assumptions failed_or_cancelled_caches_nothing.
Print Assumptions computes_once_per_deletion.
Print Assumptions completed_le_placeholders.
Print Assumptions placeholders_le_deletions.
Print Assumptions computes_once.
Print Assumptions all_results_equal.
Print Assumptions results_equal_cache.
Print Assumptions getter_mutex.
Print Assumptions getter_mutex_per_placeholder.
Print Assumptions value_stable_step.
Print Assumptions value_stable.
Print Assumptions served_from_cache.
Print Assumptions await_cached.
Print Assumptions seq_await_computes.
Print Assumptions getter_runs_iff_not_cached.
Print Assumptions successful_await_caches.
Print Assumptions seq_recompute_after_del.
Print Assumptions ex3_cancelled_first.
Print Assumptions computes_once_nolock_refuted.
Print Assumptions deletion_during_computation.
Print Assumptions sequential_run.
Print Assumptions getter_runs_iff_not_cached_unrestricted_refuted.
