(* Step lemmas: what each primitive does on a fault-free world.  Later proofs rewrite with
   these instead of unfolding the primitives. *)
From Coq Require Import List ZArith NArith Bool Arith Lia.
Import ListNotations.
Require Import V.Kernel.Values V.Kernel.Monad V.Model.Builtins.

Lemma bind_ok {A B} (m : M A) (f : A -> M B) w a w' : m w = (Ok a, w') -> bind m f w = f a w'.
Proof. unfold bind; intros ->; reflexivity. Qed.
Lemma bind_exn {A B} (m : M A) (f : A -> M B) w e w' : m w = (Exn e, w') -> bind m f w = (Exn e, w').
Proof. unfold bind; intros ->; reflexivity. Qed.
Lemma bind_ret {A B} (a : A) (f : A -> M B) w : bind (ret a) f w = f a w.
Proof. reflexivity. Qed.
Lemma bind_assoc {A B C} (m : M A) (f : A -> M B) (g : B -> M C) w :
  bind (bind m f) g w = bind m (fun a => bind (f a) g) w.
Proof. unfold bind. destruct (m w) as [[a|e|] w1]; reflexivity. Qed.

(* fault-free worlds *)
Definition W (ss : list src) (lg : list event) (u : nat) : world := mkW ss lg None u.

Lemma emit_ok ev ss lg u : emit ev (W ss lg u) = (Ok tt, W ss (ev :: lg) u).
Proof. reflexivity. Qed.
Lemma use_ok ss lg u : use (W ss lg u) = (Ok tt, W ss lg (S u)).
Proof. reflexivity. Qed.
Lemma call_ok f impl args ss lg u :
  call f impl args (W ss lg u) = (Ok (impl args), W ss (ECall f args :: lg) (S u)).
Proof. reflexivity. Qed.
Lemma yield_ok v ss lg u : yield_to v (W ss lg u) = (Ok tt, W ss (EYield v :: lg) (S u)).
Proof. reflexivity. Qed.

Lemma nth_upd_same {A} i (x d : A) l : i < length l -> nth i (upd i x l) d = x.
Proof. revert i; induction l as [|h t IH]; intros [|i] H; simpl in *; try lia; auto. apply IH; lia. Qed.
Lemma nth_upd_other {A} i j (x d : A) l : i <> j -> nth j (upd i x l) d = nth j l d.
Proof. revert i j; induction l as [|h t IH]; intros [|i] [|j] H; simpl; auto; try congruence. Qed.
Lemma upd_length {A} i (x : A) l : length (upd i x l) = length l.
Proof. revert i; induction l as [|h t IH]; intros [|i]; simpl; auto. Qed.
Lemma upd_upd {A} i (x y : A) l : upd i x (upd i y l) = upd i x l.
Proof. revert i; induction l as [|h t IH]; intros [|i]; simpl; auto. f_equal; auto. Qed.

(* pulling from source i of a fault-free world *)
Lemma pull_item i ss lg u x xs c a :
  nth i ss dead_src = mkSrc (x :: xs) false c 0 a -> 
  pull i (W ss lg u) = (Ok (Some x), W (upd i (mkSrc xs false c 0 a) ss) (EItem i x :: EPull i :: lg) (S u)).
Proof. intros H. unfold pull, bind, emit, use, get_src, set_src, ret, W; cbn. rewrite H; cbn. reflexivity. Qed.
Lemma pull_end i ss lg u c a :
  nth i ss dead_src = mkSrc [] false c 0 a ->
  pull i (W ss lg u) = (Ok None, W (upd i (mkSrc [] true c 0 a) ss) (EEnd i :: EPull i :: lg) (S u)).
Proof. intros H. unfold pull, bind, emit, use, get_src, set_src, ret, W; cbn. rewrite H; cbn. reflexivity. Qed.
Lemma pull_exhausted i ss lg u l c d a :
  nth i ss dead_src = mkSrc l true c d a ->
  pull i (W ss lg u) = (Ok None, W ss (EEnd i :: EPull i :: lg) (S u)).
Proof. intros H. unfold pull, bind, emit, use, get_src, set_src, ret, W; cbn. rewrite H; cbn.
  rewrite orb_true_r. reflexivity. Qed.

(* closing source i (that has aclose) of a fault-free world *)
Lemma close_ok i ss lg u l e c d :
  nth i ss dead_src = mkSrc l e c d true -> i < length ss ->
  close i (W ss lg u) = (Ok tt, W (upd i (mkSrc l e (S c) (S d) true) ss) (EClose i :: lg) (S u)).
Proof. intros H Hi. unfold close, bind, emit, use, get_src, set_src, ret, W; cbn. rewrite H; cbn.
  rewrite upd_upd. reflexivity. Qed.

Lemma finally_ok {A} (m : M A) fin w o w1 w2 :
  m w = (o, w1) -> o <> Fuel -> fin w1 = (Ok tt, w2) -> finally m fin w = (o, w2).
Proof. unfold finally. intros -> Ho ->. destruct o; try reflexivity. congruence. Qed.

(* single-source worlds *)
Definition W1 (xs : list val) (lg : list event) (u : nat) : world := W [mkSrc xs false 0 0 true] lg u.
Lemma init_world1 xs : init_world [xs] None = W1 xs [] 0.
Proof. reflexivity. Qed.
Lemma pull1_item x xs lg u : pull 0 (W1 (x :: xs) lg u) = (Ok (Some x), W1 xs (EItem 0 x :: EPull 0 :: lg) (S u)).
Proof. reflexivity. Qed.
Lemma pull1_end lg u : pull 0 (W1 [] lg u) = (Ok None, W [mkSrc [] true 0 0 true] (EEnd 0 :: EPull 0 :: lg) (S u)).
Proof. reflexivity. Qed.
Lemma close1_end lg u : close 0 (W [mkSrc [] true 0 0 true] lg u) = (Ok tt, W [mkSrc [] true 1 1 true] (EClose 0 :: lg) (S u)).
Proof. reflexivity. Qed.
Lemma items_left1 xs lg u : items_left 0 (W1 xs lg u) = length xs.
Proof. reflexivity. Qed.

Lemma no_closes_app l1 l2 : no_closes (l1 ++ l2) = no_closes l1 ++ no_closes l2.
Proof. unfold no_closes. apply filter_app. Qed.
Lemma yields_app l1 l2 : yields (l1 ++ l2) = yields l1 ++ yields l2.
Proof. unfold yields. apply flat_map_app. Qed.
Lemma call1_ok f impl args xs lg u :
  call f impl args (W1 xs lg u) = (Ok (impl args), W1 xs (ECall f args :: lg) (S u)).
Proof. reflexivity. Qed.
Lemma yield1_ok v xs lg u : yield_to v (W1 xs lg u) = (Ok tt, W1 xs (EYield v :: lg) (S u)).
Proof. reflexivity. Qed.
Lemma emit1_ok ev xs lg u : emit ev (W1 xs lg u) = (Ok tt, W1 xs (ev :: lg) u).
Proof. reflexivity. Qed.

(* ---- bind-fused step lemmas: rewrite these anywhere [bind prim k w] occurs ---- *)
Lemma bind_emit {B} ev (k : unit -> M B) ss lg u : bind (emit ev) k (W ss lg u) = k tt (W ss (ev :: lg) u).
Proof. reflexivity. Qed.
Lemma bind_call {B} f impl args (k : val -> M B) ss lg u :
  bind (call f impl args) k (W ss lg u) = k (impl args) (W ss (ECall f args :: lg) (S u)).
Proof. reflexivity. Qed.
Lemma bind_yield {B} v (k : unit -> M B) ss lg u :
  bind (yield_to v) k (W ss lg u) = k tt (W ss (EYield v :: lg) (S u)).
Proof. reflexivity. Qed.
Lemma bind_raise {A B} e (k : A -> M B) w : bind (raise e) k w = (Exn e, w).
Proof. reflexivity. Qed.
Lemma bind_call1 {B} f impl args (k : val -> M B) xs lg u :
  bind (call f impl args) k (W1 xs lg u) = k (impl args) (W1 xs (ECall f args :: lg) (S u)).
Proof. reflexivity. Qed.
Lemma bind_yield1 {B} v (k : unit -> M B) xs lg u :
  bind (yield_to v) k (W1 xs lg u) = k tt (W1 xs (EYield v :: lg) (S u)).
Proof. reflexivity. Qed.
Lemma bind_pull1_item {B} (k : option val -> M B) x xs lg u :
  bind (pull 0) k (W1 (x :: xs) lg u) = k (Some x) (W1 xs (EItem 0 x :: EPull 0 :: lg) (S u)).
Proof. reflexivity. Qed.
Lemma bind_pull1_end {B} (k : option val -> M B) lg u :
  bind (pull 0) k (W1 [] lg u) = k None (W [mkSrc [] true 0 0 true] (EEnd 0 :: EPull 0 :: lg) (S u)).
Proof. reflexivity. Qed.
Lemma bind_if {A B} (c : bool) (m1 m2 : M A) (k : A -> M B) w :
  bind (if c then m1 else m2) k w = if c then bind m1 k w else bind m2 k w.
Proof. destruct c; reflexivity. Qed.
Lemma ret_app {A} (a : A) w : ret a w = (Ok a, w).
Proof. reflexivity. Qed.

(* normalise a monadic computation applied to a fault-free world by the step lemmas *)
Ltac mstep :=
  repeat first
    [ rewrite bind_assoc | rewrite bind_ret | rewrite bind_raise
    | rewrite bind_call1 | rewrite bind_yield1 | rewrite bind_pull1_item | rewrite bind_pull1_end
    | rewrite bind_call | rewrite bind_yield | rewrite bind_emit ].

Lemma loop_src_eq {St} i (body : St -> val -> M (St * bool)) s w :
  loop_src i body s w = iter_src (S (items_left i w)) i body s w.
Proof. reflexivity. Qed.
Lemma bind_loop_src {St B} i (body : St -> val -> M (St * bool)) s (k : St * bool -> M B) w :
  bind (loop_src i body s) k w = bind (iter_src (S (items_left i w)) i body s) k w.
Proof. reflexivity. Qed.
(* a scoped body over a single source that ran the source to exhaustion *)
Lemma scoped1_exhausted {A} (body : M A) w (a : A) lg u :
  body w = (Ok a, W [mkSrc [] true 0 0 true] lg u) ->
  scoped 0 body w = (Ok a, W [mkSrc [] true 1 1 true] (EClose 0 :: lg) (S u)).
Proof. intros H. unfold scoped, finally. rewrite H. reflexivity. Qed.
Lemma no_closes_id l : (forall e, In e l -> is_close e = false) -> no_closes l = l.
Proof.
  induction l as [|e l IHl]; intros Hl; [reflexivity|]. unfold no_closes in *. cbn.
  rewrite (Hl e (or_introl eq_refl)). cbn. f_equal. apply IHl. intros; apply Hl; right; assumption.
Qed.
