From Coq Require Import List ZArith NArith Bool Arith Lia.
Import ListNotations.
Require Import V.Kernel.Values V.Kernel.Monad V.Model.Builtins V.Proofs.Steps V.Std.Filter.

Lemma filter_iter p : forall xs n lg u, length xs < n -> exists u',
  iter_src n 0 (fun (_ : unit) x =>
     (match p with
      | None => if truthy x then yield_to x else ret tt
      | Some q => r <- call 0 q [x] ;; if truthy r then yield_to x else ret tt
      end) ;;; ret (tt, true)) tt (W1 xs lg u)
  = (Ok (tt, false), W [mkSrc [] true 0 0 true] (rev (spec_filter_trace p xs) ++ lg) u').
Proof.
  induction xs as [|x xs IH]; intros n lg u Hn; destruct n as [|n]; try (simpl in Hn; lia).
  - eexists. cbn [iter_src]. mstep. reflexivity.
  - assert (Hlen : length xs < n) by (simpl in Hn; lia).
    cbn [iter_src]. mstep. cbn [spec_filter_trace keep].
    destruct p as [q|]; mstep.
    + destruct (truthy (q [x])) eqn:Hq; mstep; cbn [snd fst].
      * destruct (IH n (EYield x :: ECall 0 [x] :: EItem 0 x :: EPull 0 :: lg) (S (S (S u))) Hlen) as [u' ->].
        exists u'. f_equal. f_equal. cbn. rewrite ?Hq, ?Hx. cbn. rewrite ?rev_app_distr. cbn. rewrite <- ?app_assoc. reflexivity.
      * destruct (IH n (ECall 0 [x] :: EItem 0 x :: EPull 0 :: lg) (S (S u)) Hlen) as [u' ->].
        exists u'. f_equal. f_equal. cbn. rewrite ?Hq, ?Hx. cbn. rewrite ?rev_app_distr. cbn. rewrite <- ?app_assoc. reflexivity.
    + destruct (truthy x) eqn:Hx; mstep; cbn [snd fst].
      * destruct (IH n (EYield x :: EItem 0 x :: EPull 0 :: lg) (S (S u)) Hlen) as [u' ->].
        exists u'. f_equal. f_equal. cbn. rewrite ?Hq, ?Hx. cbn. rewrite ?rev_app_distr. cbn. rewrite <- ?app_assoc. reflexivity.
      * destruct (IH n (EItem 0 x :: EPull 0 :: lg) (S u) Hlen) as [u' ->].
        exists u'. f_equal. f_equal. cbn. rewrite ?Hq, ?Hx. cbn. rewrite ?rev_app_distr. cbn. rewrite <- ?app_assoc. reflexivity.
Qed.

Lemma spec_filter_trace_no_close p xs e : In e (spec_filter_trace p xs) -> is_close e = false.
Proof.
  induction xs as [|x xs IHx]; cbn; intros He.
  - destruct He as [<-|[<-|[]]]; reflexivity.
  - destruct He as [<-|[<-|He]]; try reflexivity.
    apply in_app_or in He. destruct He as [He|He].
    { destruct p; cbn in He; [destruct He as [<-|[]]; reflexivity | destruct He]. }
    apply in_app_or in He. destruct He as [He|He]; [|auto].
    destruct (keep p x); cbn in He; [destruct He as [<-|[]]; reflexivity | destruct He].
Qed.

Theorem filter_trace : forall p xs,
  let '(o, w) := run_gen (a_filter p) (init_world [xs] None) in
  o = Ok tt /\ no_closes (rev (log w)) = spec_filter_trace p xs /\ all_released w = true.
Proof.
  intros p xs. unfold run_gen, a_filter, each. rewrite init_world1.
  destruct (filter_iter p xs (S (length xs)) [] 0 (Nat.lt_succ_diag_r _)) as [u' Hit].
  erewrite scoped1_exhausted.
  2:{ rewrite bind_loop_src, items_left1. unfold bind at 1. rewrite Hit. reflexivity. }
  split; [reflexivity|]. split; [|reflexivity]. cbn [log W].
  cbn [rev]. rewrite app_nil_r, rev_involutive, no_closes_app. cbn. rewrite app_nil_r.
  apply no_closes_id. apply spec_filter_trace_no_close.
Qed.

Corollary filter_yields : forall p xs, yields (spec_filter_trace p xs) = spec_filter p xs.
Proof.
  intros p xs. induction xs as [|x xs IH]; [reflexivity|].
  cbn [spec_filter_trace]. rewrite !yields_app. rewrite IH. unfold spec_filter. cbn [filter].
  destruct (keep p x); destruct p; reflexivity.
Qed.
Print Assumptions filter_trace.
Print Assumptions filter_yields.
