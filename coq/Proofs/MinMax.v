(* min / max : value, TypeError / ValueError behaviour, event trace, first-minimal characterisation *)
From Coq Require Import List ZArith NArith Bool Arith Lia.
Import ListNotations.
Require Import V.Kernel.Values V.Kernel.Monad V.Model.Builtins V.Proofs.Steps V.Std.Builtins V.Proofs.Loop.

(* ---------- the two loop bodies of the model as pure steps ---------- *)
Definition stepN (invert : bool) (best item : val) : outcome (val * bool) :=
  match mm_replace invert best item with
  | Some c => Ok (if c then item else best, true)
  | None => Exn XTypeError
  end.
Definition stepK (invert : bool) (k : list val -> val) (st : val * val) (item : val)
  : outcome ((val * val) * bool) :=
  match mm_replace invert (snd st) (k [item]) with
  | Some c => Ok (if c then (item, k [item]) else st, true)
  | None => Exn XTypeError
  end.

Lemma bodyN invert :
  body_is (fun best item => c <- lift_lt (minmax_replace invert best item) ;;
                            ret (if c then item else best, true))
          (stepN invert) (fun _ _ => []).
Proof.
  intros s x xs lg u. exists u. unfold stepN, mm_replace, minmax_replace.
  destruct invert; destruct (py_lt _ _); reflexivity.
Qed.
Lemma bodyK invert k :
  body_is (fun (st : val * val) item =>
             ik <- call 0 k [item] ;;
             c <- lift_lt (minmax_replace invert (snd st) ik) ;;
             ret (if c then (item, ik) else st, true))
          (stepK invert k) (fun _ item => [ECall 0 [item]]).
Proof.
  intros s x xs lg u. exists (S u). rewrite bind_call1. unfold stepK, mm_replace, minmax_replace.
  destruct invert; destruct (py_lt _ _); reflexivity.
Qed.

Lemma pureN invert : forall r b,
  l_out (pure_loop (stepN invert) (fun _ _ => []) b r)
  = omap (fun st => (fst st, false)) (ofold (mm_step invert None) r (b, b))
  /\ l_tr (pure_loop (stepN invert) (fun _ _ => []) b r) = mm_scan_trace invert None b r.
Proof.
  induction r as [|x r IH]; intros b; [split; reflexivity|].
  cbn [pure_loop mm_scan_trace]. rewrite ofold_cons.
  assert (Hs : stepN invert b x = match mm_replace invert b x with
                                  | Some c => Ok (if c then x else b, true)
                                  | None => Exn XTypeError end) by reflexivity.
  assert (Hm : mm_step invert None (b, b) x = match mm_replace invert b x with
                                  | Some c => Ok (if c then (x, x) else (b, b))
                                  | None => Exn XTypeError end) by reflexivity.
  rewrite Hs, Hm. cbn [keyf kcall].
  destruct (mm_replace invert b x) as [[|]|]; cbn [l_out l_tr omap]; try (split; reflexivity).
  - destruct (IH x) as [-> ->]. split; reflexivity.
  - destruct (IH b) as [-> ->]. split; reflexivity.
Qed.
Lemma pureK invert k : forall r st,
  l_out (pure_loop (stepK invert k) (fun _ item => [ECall 0 [item]]) st r)
  = omap (fun st => (st, false)) (ofold (mm_step invert (Some k)) r st)
  /\ l_tr (pure_loop (stepK invert k) (fun _ item => [ECall 0 [item]]) st r)
     = mm_scan_trace invert (Some k) (snd st) r.
Proof.
  induction r as [|x r IH]; intros st; [split; reflexivity|].
  cbn [pure_loop mm_scan_trace]. rewrite ofold_cons.
  assert (Hs : stepK invert k st x = match mm_replace invert (snd st) (k [x]) with
                                  | Some c => Ok (if c then (x, k [x]) else st, true)
                                  | None => Exn XTypeError end) by reflexivity.
  assert (Hm : mm_step invert (Some k) st x = match mm_replace invert (snd st) (k [x]) with
                                  | Some c => Ok (if c then (x, k [x]) else st)
                                  | None => Exn XTypeError end) by reflexivity.
  rewrite Hs, Hm. cbn [keyf kcall].
  destruct (mm_replace invert (snd st) (k [x])) as [[|]|]; cbn [l_out l_tr omap]; try (split; reflexivity).
  - destruct (IH (x, k [x])) as [-> ->]. split; reflexivity.
  - destruct (IH st) as [-> ->]. split; reflexivity.
Qed.

Lemma stepN_no_fuel invert s x : stepN invert s x <> Fuel.
Proof. unfold stepN. destruct (mm_replace _ _ _); congruence. Qed.
Lemma stepK_no_fuel invert k s x : stepK invert k s x <> Fuel.
Proof. unfold stepK. destruct (mm_replace _ _ _); congruence. Qed.

(* ---------- main theorem: value, trace, release ---------- *)
Theorem min_max_spec : forall invert key default xs,
  let '(o, w) := a_min_max invert key default (init_world [xs] None) in
  o = spec_min_max invert key default xs
  /\ no_closes (rev (log w)) = spec_min_max_trace invert key xs
  /\ all_released w = true.
Proof.
  intros invert key default xs. unfold a_min_max. rewrite init_world1.
  destruct xs as [|x r].
  - destruct default as [d|].
    + erewrite scoped_r; [| rewrite bind_pull1_end; reflexivity | congruence].
      split; [reflexivity|]. split; reflexivity.
    + erewrite scoped_r; [| rewrite bind_pull1_end; reflexivity | congruence].
      split; [reflexivity|]. split; reflexivity.
  - destruct key as [k|].
    + destruct (loop_pure _ _ _ (bodyK invert k) r (x, k [x])
                  (ECall 0 [x] :: EItem 0 x :: EPull 0 :: []) 2) as [u' Hl].
      erewrite scoped_r.
      2:{ rewrite bind_pull1_item, bind_call1. apply bind_ret_map. exact Hl. }
      2:{ apply omap_no_fuel, pure_loop_no_fuel, stepK_no_fuel. }
      destruct (pureK invert k r (x, k [x])) as [Ho Ht].
      split; [|split].
      * rewrite Ho, omap_omap. cbn [spec_min_max keyf]. apply omap_ext. reflexivity.
      * rewrite log_Wc, no_closes_scoped_pre.
        -- rewrite Ht. reflexivity.
        -- apply pure_loop_no_close. intros _ y e [<-|[]]. reflexivity.
        -- intros e [<-|[<-|[<-|[]]]]; reflexivity.
      * apply released_Wc.
    + destruct (loop_pure _ _ _ (bodyN invert) r x (EItem 0 x :: EPull 0 :: []) 1) as [u' Hl].
      erewrite scoped_r.
      2:{ rewrite bind_pull1_item. apply bind_ret_map. exact Hl. }
      2:{ apply omap_no_fuel, pure_loop_no_fuel, stepN_no_fuel. }
      destruct (pureN invert r x) as [Ho Ht].
      split; [|split].
      * rewrite Ho, omap_omap. cbn [spec_min_max keyf]. apply omap_ext. reflexivity.
      * rewrite log_Wc, no_closes_scoped_pre.
        -- rewrite Ht. reflexivity.
        -- apply pure_loop_no_close. intros _ y e [].
        -- intros e [<-|[<-|[]]]; reflexivity.
      * apply released_Wc.
Qed.
Print Assumptions min_max_spec.

(* ---------- what the specification says: properties of [spec_min_max] ---------- *)
Lemma spec_min_max_no_fuel invert key default xs : spec_min_max invert key default xs <> Fuel.
Proof.
  destruct xs as [|x r]; cbn [spec_min_max]; [destruct default; congruence|].
  apply omap_no_fuel. generalize (x, keyf key x). induction r as [|y r IH]; intros st; [cbn; congruence|].
  rewrite ofold_cons. unfold mm_step. destruct (mm_replace _ _ _); [apply IH|congruence].
Qed.

(* empty input: the default is returned as it is, the key function is not called *)
Lemma spec_min_max_empty invert key d :
  spec_min_max invert key (Some d) [] = Ok d /\ spec_min_max invert key None [] = Exn XValueError
  /\ spec_min_max_trace invert key [] = [EPull 0; EEnd 0].
Proof. repeat split. Qed.

(* order facts about py_lt *)
Lemma py_lt_some a b t : py_lt a b = Some t ->
  (exists i k i' k' c, a = VObj i k c /\ b = VObj i' k' c /\ t = Z.ltb k k') \/
  (exists z z', a = VInt z /\ b = VInt z' /\ t = Z.ltb z z').
Proof.
  destruct a, b; cbn; try discriminate.
  - destruct (N.eqb cls cls0) eqn:E; [|discriminate]. apply N.eqb_eq in E. subst.
    intros H. injection H as <-. left. repeat eexists.
  - intros H. injection H as <-. right. repeat eexists.
Qed.
Ltac lt_inv H :=
  apply py_lt_some in H;
  let E := fresh "E" in
  destruct H as [(?&?&?&?&?&->&->&E)|(?&?&->&->&E)]; symmetry in E;
  first [apply Z.ltb_lt in E | apply Z.ltb_ge in E].
Ltac lt_inv2 H :=
  apply py_lt_some in H;
  let E := fresh "E" in let F := fresh "F" in let G := fresh "G" in
  destruct H as [(?&?&?&?&?&F&G&E)|(?&?&F&G&E)]; try discriminate;
  try (injection F as ?); try (injection G as ?); subst; symmetry in E;
  first [apply Z.ltb_lt in E | apply Z.ltb_ge in E].
Ltac lt_fin := cbn; rewrite ?N.eqb_refl; f_equal; first [apply Z.ltb_lt; lia | apply Z.ltb_ge; lia].
Lemma py_lt_trans a b c : py_lt a b = Some true -> py_lt b c = Some true -> py_lt a c = Some true.
Proof. intros H1 H2. lt_inv H1; lt_inv2 H2; lt_fin. Qed.
Lemma py_lt_lt_nlt a b c : py_lt a b = Some true -> py_lt c b = Some false -> py_lt a c = Some true.
Proof. intros H1 H2. lt_inv H1; lt_inv2 H2; lt_fin. Qed.
Lemma py_lt_nlt_lt a b c : py_lt b a = Some false -> py_lt b c = Some true -> py_lt a c = Some true.
Proof. intros H1 H2. lt_inv H1; lt_inv2 H2; lt_fin. Qed.

(* [mm_replace invert ky kx = Some true] : x is strictly better than y (smaller for min, larger for max) *)
Lemma better_trans invert ky kb kx :
  mm_replace invert ky kb = Some true -> mm_replace invert kb kx = Some true ->
  mm_replace invert ky kx = Some true.
Proof. destruct invert; cbn; eauto using py_lt_trans. Qed.
Lemma notbetter_better invert ky kb kx :
  mm_replace invert kb ky = Some false -> mm_replace invert kb kx = Some true ->
  mm_replace invert ky kx = Some true.
Proof. destruct invert; cbn; eauto using py_lt_lt_nlt, py_lt_nlt_lt. Qed.

Lemma mm_scan_inv invert key : forall r pre b mid st,
  Forall (fun y => mm_replace invert (keyf key y) (keyf key b) = Some true) pre ->
  Forall (fun y => mm_replace invert (keyf key b) (keyf key y) = Some false) mid ->
  ofold (mm_step invert key) r (b, keyf key b) = Ok st ->
  snd st = keyf key (fst st) /\
  exists pre' post', pre ++ b :: mid ++ r = pre' ++ fst st :: post'
    /\ Forall (fun y => mm_replace invert (keyf key y) (keyf key (fst st)) = Some true) pre'
    /\ Forall (fun y => mm_replace invert (keyf key (fst st)) (keyf key y) = Some false) post'.
Proof.
  induction r as [|x r IH]; intros pre b mid st Hpre Hmid Hf.
  - cbn in Hf. injection Hf as <-. split; [reflexivity|]. exists pre, mid. rewrite app_nil_r. auto.
  - rewrite ofold_cons in Hf. unfold mm_step in Hf. cbn [snd] in Hf.
    destruct (mm_replace invert (keyf key b) (keyf key x)) as [[|]|] eqn:Hc; try discriminate.
    + (* x is strictly better: it becomes the best; everything before it is strictly worse *)
      destruct (IH (pre ++ b :: mid) x [] st) as [Hk (pre' & post' & He & H1 & H2)]; auto.
      * apply Forall_app. split; [|constructor].
        -- eapply Forall_impl; [|exact Hpre]. cbn. intros y Hy. eapply better_trans; eauto.
        -- exact Hc.
        -- eapply Forall_impl; [|exact Hmid]. cbn. intros y Hy. eapply notbetter_better; eauto.
      * split; [exact Hk|]. exists pre', post'. split; auto.
        rewrite <- He. rewrite <- !app_assoc. cbn. reflexivity.
    + destruct (IH pre b (mid ++ [x]) st) as [Hk (pre' & post' & He & H1 & H2)]; auto.
      * apply Forall_app. split; auto.
      * split; [exact Hk|]. exists pre', post'. split; auto.
        rewrite <- He. rewrite <- !app_assoc. cbn. reflexivity.
Qed.

(* min: the result is the FIRST minimal element under py_lt on the key values *)
Theorem spec_min_first_minimal key default xs b :
  xs <> [] -> spec_min_max false key default xs = Ok b ->
  exists pre post, xs = pre ++ b :: post
    /\ Forall (fun y => py_lt (keyf key b) (keyf key y) = Some true) pre
    /\ Forall (fun y => py_lt (keyf key y) (keyf key b) = Some false) post.
Proof.
  destruct xs as [|x r]; [congruence|]. intros _. cbn [spec_min_max].
  destruct (ofold (mm_step false key) r (x, keyf key x)) as [st|e|] eqn:Hf; cbn; try discriminate.
  intros Hb. injection Hb as <-.
  destruct (mm_scan_inv false key r [] x [] st) as [_ (pre & post & He & H1 & H2)]; auto.
  exists pre, post. auto.
Qed.
(* max: the result is the FIRST maximal element *)
Theorem spec_max_first_maximal key default xs b :
  xs <> [] -> spec_min_max true key default xs = Ok b ->
  exists pre post, xs = pre ++ b :: post
    /\ Forall (fun y => py_lt (keyf key y) (keyf key b) = Some true) pre
    /\ Forall (fun y => py_lt (keyf key b) (keyf key y) = Some false) post.
Proof.
  destruct xs as [|x r]; [congruence|]. intros _. cbn [spec_min_max].
  destruct (ofold (mm_step true key) r (x, keyf key x)) as [st|e|] eqn:Hf; cbn; try discriminate.
  intros Hb. injection Hb as <-.
  destruct (mm_scan_inv true key r [] x [] st) as [_ (pre & post & He & H1 & H2)]; auto.
  exists pre, post. auto.
Qed.

(* TypeError exactly when the scan meets an item whose key value cannot be compared with the
   best key value of the items before it *)
Lemma ofold_app {A} (f : A -> val -> outcome A) l1 l2 a :
  ofold f (l1 ++ l2) a = match ofold f l1 a with Ok a' => ofold f l2 a' | Exn e => Exn e | Fuel => Fuel end.
Proof.
  revert a; induction l1 as [|x l1 IH]; intros a; [reflexivity|].
  cbn [app]. rewrite !ofold_cons. destruct (f a x); auto.
Qed.
Lemma ofold_exn {A} (f : A -> val -> outcome A) e : forall xs a,
  ofold f xs a = Exn e -> exists pre y post a', xs = pre ++ y :: post /\ ofold f pre a = Ok a' /\ f a' y = Exn e.
Proof.
  induction xs as [|x xs IH]; intros a H; [discriminate|].
  rewrite ofold_cons in H. destruct (f a x) as [a1|e1|] eqn:Hx; try discriminate.
  - destruct (IH a1 H) as (pre & y & post & a' & -> & Hp & Hy).
    exists (x :: pre), y, post, a'. split; [reflexivity|]. split; [|exact Hy].
    rewrite ofold_cons, Hx. exact Hp.
  - injection H as ->. exists [], x, xs, a. auto.
Qed.
Theorem spec_min_max_type_error invert key default xs :
  spec_min_max invert key default xs = Exn XTypeError <->
  exists pre y post best, xs = pre ++ y :: post /\ pre <> []
    /\ spec_min_max invert key None pre = Ok best
    /\ mm_replace invert (keyf key best) (keyf key y) = None.
Proof.
  split.
  - destruct xs as [|x r]; cbn [spec_min_max]; [destruct default; discriminate|].
    destruct (ofold (mm_step invert key) r (x, keyf key x)) as [st|e|] eqn:Hf; cbn; try discriminate.
    intros He. injection He as ->.
    destruct (ofold_exn _ _ _ _ Hf) as (pre & y & post & st & -> & Hp & Hy).
    destruct (mm_scan_inv invert key pre [] x [] st) as [Hk _]; auto.
    exists (x :: pre), y, post, (fst st). split; [reflexivity|]. split; [congruence|].
    cbn [spec_min_max]. rewrite Hp. split; [reflexivity|].
    unfold mm_step in Hy. rewrite Hk in Hy. destruct (mm_replace _ _ _); [discriminate|reflexivity].
  - intros (pre & y & post & best & -> & Hne & Hp & Hy).
    destruct pre as [|x pre]; [congruence|]. cbn [app spec_min_max] in *.
    destruct (ofold (mm_step invert key) pre (x, keyf key x)) as [st|e|] eqn:Hf; cbn in Hp; try discriminate.
    injection Hp as <-.
    destruct (mm_scan_inv invert key pre [] x [] st) as [Hk _]; auto.
    rewrite ofold_app, Hf, ofold_cons. unfold mm_step at 1. rewrite Hk, Hy. reflexivity.
Qed.

(* the only other outcomes: ValueError iff empty without default *)
Theorem spec_min_max_value_error invert key default xs :
  spec_min_max invert key default xs = Exn XValueError <-> xs = [] /\ default = None.
Proof.
  split.
  - destruct xs as [|x r]; cbn [spec_min_max].
    + destruct default; [discriminate|auto].
    + assert (H : forall r st, omap fst (ofold (mm_step invert key) r st) <> Exn XValueError).
      { clear. induction r as [|y r IH]; intros st; [cbn; congruence|].
        rewrite ofold_cons. unfold mm_step. destruct (mm_replace _ _ _); [apply IH|cbn; congruence]. }
      intros He. exfalso. eapply H; eauto.
  - intros [-> ->]. reflexivity.
Qed.

(* on orderable key values (all ints, or all objects of one class) there is no TypeError *)
Lemma same_kind_lt a b c : same_kind a b = true -> same_kind a c = true -> exists t, py_lt b c = Some t.
Proof.
  destruct a, b; cbn; try discriminate; destruct c; cbn; try discriminate; intros; eauto.
  apply N.eqb_eq in H, H0. subst. rewrite N.eqb_refl. eauto.
Qed.
Theorem spec_min_max_orderable invert key default x r :
  orderable_keys key (x :: r) = true -> exists b, spec_min_max invert key default (x :: r) = Ok b.
Proof.
  cbn [orderable_keys spec_min_max]. intros H.
  assert (G : forall r st, same_kind (keyf key x) (snd st) = true ->
              forallb (fun y => same_kind (keyf key x) (keyf key y)) r = true ->
              exists st', ofold (mm_step invert key) r st = Ok st').
  { clear. induction r as [|y r IH]; intros st Hs Hr; [eexists; reflexivity|].
    cbn [forallb] in Hr. apply andb_prop in Hr. destruct Hr as [Hy Hr].
    rewrite ofold_cons. unfold mm_step.
    assert (exists c, mm_replace invert (snd st) (keyf key y) = Some c) as [c ->].
    { destruct invert; cbn; eapply same_kind_lt; eauto. }
    apply IH; auto. destruct c; auto. }
  cbn [forallb] in H. apply andb_prop in H. destruct H as [Hx Hr].
  destruct (G r (x, keyf key x) Hx Hr) as [st' ->]. eexists. reflexivity.
Qed.

(* if no comparison fails, every item is read and then keyed, in order *)
Theorem spec_min_max_trace_ok invert key default xs b :
  xs <> [] -> spec_min_max invert key default xs = Ok b ->
  spec_min_max_trace invert key xs = flat_map (fun x => [EPull 0; EItem 0 x] ++ kcall key x) xs ++ [EPull 0; EEnd 0].
Proof.
  destruct xs as [|x r]; [congruence|]. intros _. cbn [spec_min_max spec_min_max_trace flat_map].
  destruct (ofold (mm_step invert key) r (x, keyf key x)) as [st|e|] eqn:Hf; cbn [omap]; try discriminate.
  intros _. unfold rd. rewrite <- !app_assoc. do 2 f_equal. f_equal.
  assert (G : forall r st st', ofold (mm_step invert key) r st = Ok st' ->
          mm_scan_trace invert key (snd st) r
          = flat_map (fun x => [EPull 0; EItem 0 x] ++ kcall key x) r ++ [EPull 0; EEnd 0]).
  { clear. induction r as [|y r IH]; intros st st' Hf; [reflexivity|].
    rewrite ofold_cons in Hf. unfold mm_step in Hf. cbn [mm_scan_trace flat_map].
    destruct (mm_replace invert (snd st) (keyf key y)) as [c|]; [|discriminate].
    unfold rd. rewrite <- !app_assoc. do 2 f_equal. f_equal.
    rewrite <- (IH _ _ Hf). destruct c; reflexivity. }
  exact (G r _ _ Hf).
Qed.

Example min_max_example :
  spec_min_max false (Some (fun a => match a with [VTup [_; k]] => k | _ => VNone end)) None
     [VTup [VInt 0; VInt 5]; VTup [VInt 1; VInt 3]; VTup [VInt 2; VInt 3]; VTup [VInt 3; VInt 7]]
  = Ok (VTup [VInt 1; VInt 3])
  /\ spec_min_max true None None [VInt 2; VInt 9; VInt 9; VInt 1] = Ok (VInt 9)
  /\ spec_min_max true None None [VInt 2; VNone; VInt 9] = Exn XTypeError
  /\ spec_min_max_trace true None [VInt 2; VNone; VInt 9]
     = [EPull 0; EItem 0 (VInt 2); EPull 0; EItem 0 VNone]
  /\ orderable_keys None [VObj 1 5 2; VObj 2 3 2; VObj 3 3 2] = true.
Proof. repeat split. Qed.

Print Assumptions spec_min_max_no_fuel.
Print Assumptions spec_min_first_minimal.
Print Assumptions spec_max_first_maximal.
Print Assumptions spec_min_max_type_error.
Print Assumptions spec_min_max_value_error.
Print Assumptions spec_min_max_orderable.
Print Assumptions spec_min_max_trace_ok.
