(* Generator functions.  The translated source (Gen/PylSrc.v, regenerated from /repo on every run) denotes,
   through the semantics of Model/Pyl.v, exactly the hand-written models of Model/Builtins.v and
   Model/Itertools.v: equal as world transformers, for every argument, consumer and world (sources, fault plan,
   use counter).  All theorems of Props/ about these models therefore hold of what the code says now.
   The aggregations are in Proofs/PylEquivAgg.v; _zip_inner, _zip_inner_strict, zip and batched (fourth batch) are in
   Proofs/PylEquivZip.v. *)
From Coq Require Import List ZArith NArith Bool Arith String Lia.
Import ListNotations.
Require Import V.Kernel.Values V.Kernel.Monad V.Model.Builtins V.Model.Itertools V.Model.Heapq V.Model.Pyl V.Gen.PylSrc V.Proofs.PylRel V.Proofs.PylTac.

(* the same definition as PylEquivAgg.fn_arg: restated so that this file does not depend on the proofs about
   the aggregations *)
Definition fn_arg (f : option (list val -> val)) : callee :=
  match f with None => CNoneFn | Some p => CUser 0 p end.
Definition fn_arg_add (f : option (list val -> val)) : callee :=
  match f with None => CAdd | Some g => CUser 0 g end.

(* keep the primitives of the calculus folded while [cbn] evaluates [exec]/[eval] and the environments *)
#[local] Arguments bind : simpl never.
#[local] Arguments ret : simpl never.
#[local] Arguments raise : simpl never.
#[local] Arguments pull : simpl never.
#[local] Arguments call : simpl never.
#[local] Arguments close : simpl never.
#[local] Arguments scoped : simpl never.
#[local] Arguments finally : simpl never.
#[local] Arguments loop_src : simpl never.
#[local] Arguments iter_src : simpl never.
#[local] Arguments each : simpl never.
#[local] Arguments collect : simpl never.
#[local] Arguments a_zip : simpl never.
#[local] Arguments zip_inner : simpl never.

Theorem src_filter_ok : forall f yield w,
  run_genfn src_filter [AFn (fn_arg f); AIter 0] yield w = a_filter f yield w.
Proof.
  intros f yield w. rewrite run_genfn_noexc by reflexivity. unfold src_filter, a_filter, each. apply orel_eq.
  destruct f as [p|]; norm; gen_frame; apply scoped_rel; norm.
  - apply (bind_rel (exit_rel (fun (st1 : env * sig) (_ : unit) =>
                                 lookup "function" (e_fns (fst st1)) = Some (CUser 0 p)) any_rel));
      [|trailing].
    apply loop_src_rel; [|reflexivity].
    intros st1 st2 x w1 HR. norm. rewrite HR. norm. apply bind_same. intros r w2. norm.
    destruct (truthy r); norm.
    + apply bind_same. intros u w3. norm. apply orel_ret, step_rel_cont. exact HR.
    + apply orel_ret, step_rel_cont. exact HR.
  - apply (bind_rel (exit_rel (fun (st1 : env * sig) (_ : unit) => True) any_rel)); [|trailing].
    apply loop_src_rel; [|exact I].
    intros st1 st2 x w1 HR. norm. destruct (truthy x); norm.
    + apply bind_same. intros u w3. norm. apply orel_ret, step_rel_cont. exact I.
    + apply orel_ret, step_rel_cont. exact I.
Qed.

Theorem src_enumerate_ok : forall start yield w,
  run_genfn src_enumerate [AIter 0; AVal (VInt start)] yield w = a_enumerate start yield w.
Proof.
  intros start yield w. rewrite run_genfn_noexc by reflexivity. unfold src_enumerate, a_enumerate. apply orel_eq.
  norm. gen_frame. apply scoped_rel. norm.
  apply (bind_rel (exit_rel (fun (st1 : env * sig) (c : Z) =>
                               lookup "count" (e_vars (fst st1)) = Some (Some (VInt c))) any_rel)); [|trailing].
  apply loop_src_rel; [|reflexivity].
  intros st1 c x w1 HR. norm. rewrite HR. norm. apply bind_same. intros u w2. norm.
  rewrite HR. norm. apply orel_ret, step_rel_cont. reflexivity.
Qed.

Theorem src_takewhile_ok : forall p yield w,
  run_genfn src_takewhile [AFn (CUser 0 p); AIter 0] yield w = a_takewhile p yield w.
Proof.
  intros p yield w. rewrite run_genfn_noexc by reflexivity. unfold src_takewhile, a_takewhile. apply orel_eq.
  norm. gen_frame. apply scoped_rel. norm.
  apply (bind_rel (exit_rel (fun (st1 : env * sig) (_ : unit) =>
                               lookup "predicate" (e_fns (fst st1)) = Some (CUser 0 p)) any_rel)); [|trailing].
  apply loop_src_rel; [|reflexivity].
  intros st1 st2 x w1 HR. norm. rewrite HR. norm. apply bind_same. intros r w2. norm.
  destruct (truthy r); norm.
  - apply bind_same. intros u w3. norm. apply orel_ret, step_rel_cont. exact HR.
  - apply orel_ret, step_rel_break. exact I.
Qed.

Theorem src_dropwhile_ok : forall p yield w,
  run_genfn src_dropwhile [AFn (CUser 0 p); AIter 0] yield w = a_dropwhile p yield w.
Proof.
  intros p yield w. rewrite run_genfn_noexc by reflexivity. unfold src_dropwhile, a_dropwhile, each. apply orel_eq.
  norm. gen_frame. apply scoped_rel. norm.
  pose (inv := fun (sg : sig) (st1 : env * sig) (_ : unit) =>
                 lookup "predicate" (e_fns (fst st1)) = Some (CUser 0 p) /\
                 lookup "async_iter" (e_its (fst st1)) = Some 0 /\ snd st1 = sg).
  apply (bind_rel (exit_rel (inv Normal) (inv Brk))).
  - apply loop_src_rel; [|repeat split].
    intros st1 st2 x w1 HR. destruct HR as (HF & HI & HS). norm. rewrite HF. norm.
    apply bind_same. intros r w2. norm. destruct (truthy r); norm.
    + apply orel_ret, step_rel_cont. repeat split; assumption.
    + apply bind_same. intros u w3. norm. apply orel_ret, step_rel_break. repeat split; assumption.
  - intros [[en sg] c1] [u c2] w1 [Hc HR]. cbn [fst snd] in Hc, HR |- *. subst c2.
    destruct c1; destruct HR as (HF & HI & HS); cbn [fst snd] in HF, HI, HS; subst sg; norm.
    + rewrite HI. norm.
      apply (bind_rel (exit_rel (fun (st1 : env * sig) (_ : unit) => True) any_rel)); [|trailing].
      apply loop_src_rel; [|exact I].
      intros st1 st2 x w2 HR. norm. apply bind_same. intros u' w3. norm.
      apply orel_ret, step_rel_cont. exact I.
    + apply orel_ret. exact I.
Qed.

Theorem src_filterfalse_ok : forall f yield w,
  run_genfn src_filterfalse [AFn (fn_arg f); AIter 0] yield w = a_filterfalse f yield w.
Proof.
  intros f yield w. rewrite run_genfn_noexc by reflexivity. unfold src_filterfalse, a_filterfalse, each. apply orel_eq.
  destruct f as [p|]; norm; gen_frame; apply scoped_rel; norm.
  - apply (bind_rel (exit_rel (fun (st1 : env * sig) (_ : unit) =>
                                 lookup "predicate" (e_fns (fst st1)) = Some (CUser 0 p)) any_rel));
      [|trailing].
    apply loop_src_rel; [|reflexivity].
    intros st1 st2 x w1 HR. norm. rewrite HR. norm. apply bind_same. intros r w2. norm.
    destruct (truthy r); norm.
    + apply orel_ret, step_rel_cont. exact HR.
    + apply bind_same. intros u w3. norm. apply orel_ret, step_rel_cont. exact HR.
  - apply (bind_rel (exit_rel (fun (st1 : env * sig) (_ : unit) =>
                                 lookup "predicate" (e_fns (fst st1)) = Some CBool) any_rel));
      [|trailing].
    apply loop_src_rel; [|reflexivity].
    intros st1 st2 x w1 HR. norm. rewrite HR. norm. destruct (truthy x); norm.
    + apply orel_ret, step_rel_cont. exact HR.
    + apply bind_same. intros u w3. norm. apply orel_ret, step_rel_cont. exact HR.
Qed.

Theorem src_starmap_ok : forall f yield w,
  run_genfn src_starmap [AFn (CUser 0 f); AIter 0] yield w = a_starmap f yield w.
Proof.
  intros f yield w. rewrite run_genfn_noexc by reflexivity. unfold src_starmap, a_starmap, each. apply orel_eq.
  norm. gen_frame. apply scoped_rel. norm.
  apply (bind_rel (exit_rel (fun (st1 : env * sig) (_ : unit) =>
                               lookup "function" (e_fns (fst st1)) = Some (CUser 0 f)) any_rel)); [|trailing].
  apply loop_src_rel; [|reflexivity].
  intros st1 st2 x w1 HR. norm. rewrite HR. norm.
  destruct x as [cls k tag|z|b| | |args|args]; norm; try apply orel_raise;
    (apply bind_same; intros r w2; norm; apply bind_same; intros u w3; norm;
     apply orel_ret, step_rel_cont; exact HR).
Qed.

Theorem src_pairwise_ok : forall yield w,
  run_genfn src_pairwise [AIter 0] yield w = a_pairwise yield w.
Proof.
  intros yield w. rewrite run_genfn_noexc by reflexivity. unfold src_pairwise, a_pairwise. apply orel_eq.
  norm. gen_frame. apply scoped_rel. norm.
  apply bind_same. intros [first|] w1; norm.
  - apply (bind_rel (exit_rel (fun (st1 : env * sig) (prev : val) =>
                                 lookup "prev" (e_vars (fst st1)) = Some (Some prev)) any_rel)); [|trailing].
    apply loop_src_rel; [|reflexivity].
    intros st1 prev x w2 HR. norm. rewrite HR. norm. apply bind_same. intros u w3. norm.
    apply orel_ret, step_rel_cont. reflexivity.
  - apply orel_ret. exact I.
Qed.

Theorem src_accumulate_ok : forall f initial yield w,
  run_genfn src_accumulate [AIter 0; AFn (fn_arg_add f); AOpt initial] yield w = a_accumulate f initial yield w.
Proof.
  intros f initial yield w. rewrite run_genfn_noexc by reflexivity. unfold src_accumulate, a_accumulate. apply orel_eq.
  pose (inv := fun (st1 : env * sig) (v : val) =>
                 lookup "function" (e_fns (fst st1)) = Some (fn_arg_add f) /\
                 lookup "value" (e_vars (fst st1)) = Some (Some v)).
  assert (Hbody : forall (st1 : env * sig) (t x : val) w2, inv st1 t ->
            orel (step_rel inv any_rel)
              ((r <- exec (SSeq (SAssign "value" (EAwaitCall2 "function" (EVar "value") (EVar "head")))
                                (SYield (EVar "value")))
                       (set_var (fst st1) "head" x) yield;;
                match snd r with Normal => ret (r, true) | _ => ret (r, false) end) w2)
              ((v <- match f with
                     | Some g => call 0 g [t; x]
                     | None => lift_val (py_add t x)
                     end;; yield v;;; ret (v, true)) w2)).
  { intros st1 t x w2 (HF' & HR). norm. rewrite HF', HR. norm.
    apply (bind_rel eq).
    - destruct f as [g|]; apply orel_refl.
    - intros r ? w3 <-. norm. apply bind_same. intros u w4. norm.
      apply orel_ret, step_rel_cont. split; [exact HF'|reflexivity]. }
  destruct initial as [v0|]; norm; gen_frame; apply scoped_rel; norm.
  - apply bind_same. intros u w1. norm.
    apply (bind_rel (exit_rel inv any_rel)); [|trailing].
    apply loop_src_rel; [exact Hbody|split; reflexivity].
  - apply bind_same. intros [first|] w1; norm; [|apply orel_raise].
    apply bind_same. intros u w2. norm.
    apply (bind_rel (exit_rel inv any_rel)); [|trailing].
    apply loop_src_rel; [exact Hbody|split; reflexivity].
Qed.

(* ---------- third batch: map, compress, islice ---------- *)
Theorem src_map_ok : forall f ss yield w,
  run_genfn src_map [AFn (CUser 0 f); AIters ss] yield w = a_map f ss yield w.
Proof.
  intros f ss yield w. rewrite run_genfn_noexc by reflexivity. unfold src_map, a_map. apply orel_eq.
  norm. gen_frame. apply orel_any_of_eq, a_zip_cong. intros xs w1 _. norm.
  apply mbind_cong_r. intros r w2. norm. apply mbind_unit_end. intros u w3. norm. reflexivity.
Qed.

Theorem src_compress_ok : forall yield w,
  run_genfn src_compress [AIter 0; AIter 1] yield w = a_compress yield w.
Proof.
  intros yield w. rewrite run_genfn_noexc by reflexivity. unfold src_compress, a_compress. apply orel_eq.
  norm. gen_frame. apply scoped_rel. norm. apply scoped_rel. norm.
  apply bind_rel_l with (R := any_rel); [|intros ? ? ? _; apply orel_ret; exact I].
  apply orel_any_of_eq, zip_inner_cong. intros xs w1 Hlen.
  destruct xs as [|a [|b [|c xs]]]; try discriminate Hlen. norm.
  destruct (truthy b); norm; [|reflexivity].
  apply mbind_unit_end. intros u w3. norm. reflexivity.
Qed.

Theorem src_islice_ok : forall start stop step yield w,
  run_genfn src_islice [AIter 0; AVal (VInt start); AVal (match stop with None => VNone | Some s => VInt s end); AVal (VInt step)] yield w
  = a_islice start stop step yield w.
Proof.
  intros start stop step yield w. rewrite run_genfn_noexc by reflexivity. unfold src_islice, a_islice. apply orel_eq.
  pose (envok := fun en : env =>
          lookup "start" (e_vars en) = Some (Some (VInt start)) /\
          lookup "stop" (e_vars en) = Some (Some (match stop with None => VNone | Some s => VInt s end)) /\
          lookup "step" (e_vars en) = Some (Some (VInt step)) /\
          lookup "async_iter" (e_its en) = Some 0).
  pose (Q := fun (r1 : env * sig) (sk : bool) =>
          if sk then snd r1 = Normal /\ envok (fst r1) else snd r1 = Ret VNone).
  norm. gen_frame. apply scoped_rel. norm.
  apply (bind_rel Q).
  - (* skipping the first [start] items *)
    destruct (0 <? start)%Z; norm.
    + apply (bind_rel (exit_rel
               (fun (st1 : env * sig * Z) (c : Z) =>
                  snd (fst st1) = Normal /\ snd st1 = c /\ envok (fst (fst st1)))
               (fun (st1 : env * sig * Z) (c : Z) =>
                  snd (fst st1) = Brk /\ envok (fst (fst st1))))).
      * apply loop_src_rel; [|repeat split].
        intros [[en sg] c1] c x w1 (HS & Hc & H1 & H2 & H3 & H4). cbn [fst snd] in HS, Hc, H1, H2, H3, H4.
        subst sg c1. norm. rewrite H1. norm.
        destruct (c =? start)%Z; norm; apply orel_ret.
        -- apply step_rel_break. repeat split; assumption.
        -- apply step_rel_cont. repeat split; assumption.
      * intros [[[en sg] c1] b1] [c2 b2] w1 [Hb HR]. cbn [fst snd] in Hb, HR |- *. subst b2.
        destruct b1; cbn [fst snd] in HR.
        -- destruct HR as [HS HE]. subst sg. norm. apply orel_ret. split; [reflexivity|exact HE].
        -- destruct HR as (HS & Hc & HE). subst sg. norm. apply orel_ret. reflexivity.
    + apply orel_ret. repeat split.
  - intros [en sg] sk w1 HQ. destruct sk; cbn [Q fst snd negb] in HQ |- *.
    + destruct HQ as (HS & H1 & H2 & H3 & H4). subst sg. norm. rewrite H2. norm.
      destruct stop as [st|]; norm.
      * rewrite H1. norm. destruct (st <=? start)%Z; norm; [apply orel_ret; exact I|].
        rewrite H4. norm.
        apply (bind_rel (exit_rel
                 (fun (st1 : env * sig * Z) (idx : Z) =>
                    snd (fst st1) = Normal /\ snd st1 = idx /\
                    lookup "step" (e_vars (fst (fst st1))) = Some (Some (VInt step)) /\
                    lookup "stop" (e_vars (fst (fst st1))) = Some (Some (VInt (st - (start + 1)))))
                 any_rel)).
        -- apply loop_src_rel; [|repeat split; assumption].
           intros [[en1 sg] c1] idx x w2 (HS & Hc & H3' & H2'). cbn [fst snd] in HS, Hc, H3', H2'.
           subst sg c1. norm. rewrite H3'. norm.
           destruct (idx mod step =? 0)%Z; norm.
           ++ apply bind_same. intros u w3. norm. rewrite H2'. norm.
              destruct (st - (start + 1) <=? idx)%Z; norm; apply orel_ret.
              ** apply step_rel_break. exact I.
              ** apply step_rel_cont. repeat split; assumption.
           ++ rewrite H2'. norm.
              destruct (st - (start + 1) <=? idx)%Z; norm; apply orel_ret.
              ** apply step_rel_break. exact I.
              ** apply step_rel_cont. repeat split; assumption.
        -- intros [[[en1 sg] c1] b1] r2 w2 _. destruct sg; norm; apply orel_ret; exact I.
      * rewrite H4. norm.
        apply (bind_rel (exit_rel
                 (fun (st1 : env * sig * Z) (idx : Z) =>
                    snd st1 = idx /\
                    lookup "step" (e_vars (fst (fst st1))) = Some (Some (VInt step)))
                 any_rel)).
        -- apply loop_src_rel; [|repeat split; assumption].
           intros [[en1 sg] c1] idx x w2 (Hc & H3'). cbn [fst snd] in Hc, H3'.
           subst c1. norm. rewrite H3'. norm.
           destruct (idx mod step =? 0)%Z; norm.
           ++ apply bind_same. intros u w3. norm. apply orel_ret, step_rel_cont. repeat split; assumption.
           ++ apply orel_ret, step_rel_cont. repeat split; assumption.
        -- intros [[[en1 sg] c1] b1] r2 w2 _. destruct sg; norm; apply orel_ret; exact I.
    + destruct sg; try discriminate HQ. norm. apply orel_ret. exact I.
Qed.

Theorem iter_sources_supported : forallb (fun f => supported (f_body f)) iter_sources = true.
Proof. vm_compute. reflexivity. Qed.

(* (the whole-table check would tie this file to the aggregations as well: agg_sources_supported lives in PylEquivAgg.v) *)

Print Assumptions src_filter_ok.
Print Assumptions src_enumerate_ok.
Print Assumptions src_takewhile_ok.
Print Assumptions src_dropwhile_ok.
Print Assumptions src_filterfalse_ok.
Print Assumptions src_starmap_ok.
Print Assumptions src_pairwise_ok.
Print Assumptions src_accumulate_ok.
Print Assumptions src_map_ok.
Print Assumptions src_compress_ok.
Print Assumptions src_islice_ok.
Print Assumptions iter_sources_supported.
