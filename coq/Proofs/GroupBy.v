(* C16: asyncstdlib.itertools.groupby (Model/GroupBy.v: g_do / g_run) against the positional
   specification of itertools.groupby (sp_do / sp_run), for all key functions, item lists and
   operation lists. *)
From Coq Require Import List ZArith NArith Bool Arith Lia.
Import ListNotations.
Require Import V.Kernel.Values V.Model.GroupBy.

(* ------------------------------------------------------------------------------------------ *)
(* Unfolding equations                                                                         *)
(* ------------------------------------------------------------------------------------------ *)
Lemma g_scan_S : forall f key tgt s,
  g_scan (S f) key tgt s =
  if opt_eq (g_curkey s) (Some tgt)
  then match g_step key s with
       | (Some s', _) => g_scan f key tgt s'
       | (None, s') => (None, s')
       end
  else (Some s, s).
Proof. reflexivity. Qed.

Lemma skip_run_cons : forall key t x l,
  skip_run key t (x :: l) = if py_eq (key x) t then skip_run key t l else x :: l.
Proof. reflexivity. Qed.

Lemma g_run_cons : forall key s op r,
  g_run key s (op :: r) =
  (snd (g_do key s op) :: fst (g_run key (fst (g_do key s op)) r),
   snd (g_run key (fst (g_do key s op)) r)).
Proof.
  intros. simpl. destruct (g_do key s op) as [s' o]. simpl.
  destruct (g_run key s' r) as [os sf]. reflexivity.
Qed.

Lemma sp_run_cons : forall key s op r,
  sp_run key s (op :: r) = snd (sp_do key s op) :: sp_run key (fst (sp_do key s op)) r.
Proof. intros. simpl. destruct (sp_do key s op). reflexivity. Qed.

Lemma g_run_app : forall key a b s,
  g_run key s (a ++ b) =
  (fst (g_run key s a) ++ fst (g_run key (snd (g_run key s a)) b),
   snd (g_run key (snd (g_run key s a)) b)).
Proof.
  intros key a b. induction a as [|op a IH]; intros s.
  - simpl. destruct (g_run key s b). reflexivity.
  - rewrite <- app_comm_cons. rewrite !g_run_cons. rewrite IH. reflexivity.
Qed.

(* ------------------------------------------------------------------------------------------ *)
(* 1. Refinement: the scan of the implementation is the positional skip of the specification   *)
(* ------------------------------------------------------------------------------------------ *)
Lemma scan_spec : forall key t tg gr tgs rest v p fuel,
  length rest < fuel ->
  (exists x r p', skip_run key t (v :: rest) = x :: r /\
      g_scan fuel key t (mkG rest p 0 (Some v) (Some (key v)) tg gr tgs)
      = (Some (mkG r p' 0 (Some x) (Some (key x)) tg gr tgs),
         mkG r p' 0 (Some x) (Some (key x)) tg gr tgs))
  \/ (exists v' p', skip_run key t (v :: rest) = [] /\ py_eq (key v') t = true /\
      g_scan fuel key t (mkG rest p 0 (Some v) (Some (key v)) tg gr tgs)
      = (None, mkG [] p' 0 (Some v') (Some (key v')) tg gr tgs)).
Proof.
  intros key t tg gr tgs rest. induction rest as [|x r IH]; intros v p fuel Hf.
  - destruct fuel as [|f]; [inversion Hf|]. rewrite g_scan_S, skip_run_cons.
    cbn [g_curkey opt_eq]. destruct (py_eq (key v) t) eqn:E.
    + right. exists v, (S p). cbn. auto.
    + left. exists v, [], p. auto.
  - destruct fuel as [|f]; [inversion Hf|]. rewrite g_scan_S, skip_run_cons.
    cbn [g_curkey opt_eq]. destruct (py_eq (key v) t) eqn:E.
    + cbn [g_step g_rest g_closed Nat.ltb Nat.leb g_pulls g_target g_group g_targets].
      apply IH. simpl in Hf. lia.
    + left. exists v, (x :: r), p. auto.
Qed.

(* The simulation relation: the specification's remaining items are the cached look-ahead followed
   by the undelivered items; after a scan ran off the end, the stale look-ahead (whose key equals
   the target) stands for the empty remainder. *)
Definition R (key : val -> val) (g : gstate) (s : sstate) : Prop :=
  g_closed g = 0 /\ sp_tgt s = g_target g /\ sp_live s = g_group g /\
  sp_count s = length (g_targets g) /\
  (forall i, g_group g = Some i ->
     exists t, g_target g = Some t /\ nth_error (g_targets g) i = Some t) /\
  ( (g_value g = None /\ sp_rest s = g_rest g)
    \/ (exists v, g_value g = Some v /\ g_curkey g = Some (key v) /\ sp_rest s = v :: g_rest g)
    \/ (exists v t, g_value g = Some v /\ g_curkey g = Some (key v) /\ g_target g = Some t /\
          py_eq (key v) t = true /\ g_rest g = [] /\ sp_rest s = [] /\ g_group g = None)).

Lemma R_init : forall key items, R key (g_init items) (sp_init items).
Proof.
  intros. unfold R, g_init, sp_init. cbn. repeat split; auto.
  intros i H; discriminate.
Qed.

Lemma nth_error_snoc : forall (A : Type) (l : list A) (x : A), nth_error (l ++ [x]) (length l) = Some x.
Proof. intros. rewrite nth_error_app2 by lia. rewrite Nat.sub_diag. reflexivity. Qed.

(* new group after a successful (possibly empty) scan *)
Lemma R_new_group : forall key r p x tgs,
  R key (mkG r p 0 (Some x) (Some (key x)) (Some (key x)) (Some (length tgs)) (tgs ++ [key x]))
        (mkS (x :: r) (Some (key x)) (Some (length tgs)) (S (length tgs))).
Proof.
  intros. unfold R. cbn. repeat split; auto.
  - rewrite app_length. simpl. lia.
  - intros i H. inversion H; subst. exists (key x). split; auto. apply nth_error_snoc.
  - right; left. exists x. auto.
Qed.

Lemma sim_adv : forall key g s, R key g s ->
  snd (g_do key g GAdv) = snd (sp_do key s GAdv) /\
  R key (fst (g_do key g GAdv)) (fst (sp_do key s GAdv)).
Proof.
  intros key g s HR.
  destruct g as [rest p c val ck tg gr tgs]. destruct s as [srest stg slive scnt].
  unfold R in HR. cbn in HR.
  destruct HR as (Hc & Ht & Hl & Hn & Hnth & Hcase). subst c stg slive scnt.
  destruct Hcase as [(Hv & Hr) | [(v & Hv & Hk & Hr) | (v & t & Hv & Hk & Htg & Hpe & Hr0 & Hr & Hg)]].
  - (* no look-ahead *)
    subst val srest. destruct rest as [|x r].
    + cbn. destruct tg as [t|]; cbn; (split; [reflexivity|]); unfold R; cbn;
        repeat split; auto; intros i H; discriminate.
    + destruct tg as [t|].
      * unfold g_do, sp_do, set_group, g_maybe_step. cbn [ g_value g_step g_rest g_closed Nat.ltb Nat.leb
                                  g_pulls g_curkey g_target g_group g_targets sp_tgt sp_rest sp_count].
        destruct (scan_spec key t (Some t) None tgs r x (S p) (S (length r)) (Nat.lt_succ_diag_r _))
          as [(x' & r' & p' & Hsk & Hsc) | (v' & p' & Hsk & Hpe & Hsc)]; rewrite Hsc, Hsk.
        -- cbn. split; [reflexivity|]. apply (R_new_group key r' p' x' tgs).
        -- cbn. split; [reflexivity|]. unfold R; cbn.
           repeat split; auto; try (intros i H; discriminate H).
           right; right. exists v', t. repeat split; auto.
      * cbn. split; [reflexivity|]. apply (R_new_group key r (S p) x tgs).
  - (* look-ahead cached *)
    subst val ck srest. destruct tg as [t|].
    + unfold g_do, sp_do, set_group, g_maybe_step. cbn [ g_value g_step g_rest g_closed
                                g_pulls g_curkey g_target g_group g_targets sp_tgt sp_rest sp_count].
      destruct (scan_spec key t (Some t) None tgs rest v p (S (length rest)) (Nat.lt_succ_diag_r _))
        as [(x' & r' & p' & Hsk & Hsc) | (v' & p' & Hsk & Hpe & Hsc)]; rewrite Hsc, Hsk.
      * cbn. split; [reflexivity|]. apply (R_new_group key r' p' x' tgs).
      * cbn. split; [reflexivity|]. unfold R; cbn.
        repeat split; auto; try (intros i H; discriminate H).
        right; right. exists v', t. repeat split; auto.
    + cbn. split; [reflexivity|]. apply (R_new_group key rest p v tgs).
  - (* stale look-ahead after an exhausting scan *)
    subst val ck tg rest srest gr.
    unfold g_do, sp_do, set_group, g_maybe_step. cbn [ g_value g_step g_rest g_closed
                              g_pulls g_curkey g_target g_group g_targets sp_tgt sp_rest sp_count].
    destruct (scan_spec key t (Some t) None tgs [] v p (S (length (@nil Values.val))) (Nat.lt_succ_diag_r _))
      as [(x' & r' & p' & Hsk & Hsc) | (v' & p' & Hsk & Hpe' & Hsc)].
    + rewrite skip_run_cons, Hpe in Hsk. simpl in Hsk. discriminate.
    + rewrite Hsc. cbn. split; [reflexivity|]. unfold R; cbn.
      repeat split; auto; try (intros i H; discriminate H).
      right; right. exists v', t. repeat split; auto.
Qed.

Lemma sim_group : forall key g s i, R key g s ->
  snd (g_do key g (GGroup i)) = snd (sp_do key s (GGroup i)) /\
  R key (fst (g_do key g (GGroup i))) (fst (sp_do key s (GGroup i))).
Proof.
  intros key g s i HR.
  destruct g as [rest p c val ck tg gr tgs]. destruct s as [srest stg slive scnt].
  assert (HR' := HR). unfold R in HR. cbn in HR.
  destruct HR as (Hc & Ht & Hl & Hn & Hnth & Hcase). subst c stg slive scnt.
  destruct gr as [j|].
  - destruct (Hnth j eq_refl) as (t & Htg & Hj). subst tg.
    destruct (Nat.eqb i j) eqn:E.
    + apply Nat.eqb_eq in E. subst i.
      destruct Hcase as [(Hv & Hr) | [(v & Hv & Hk & Hr) | (v & t' & Hv & Hk & Htg & Hpe & Hr0 & Hr & Hg)]];
        [| |discriminate Hg].
      * subst val srest. destruct rest as [|x r].
        -- cbn. rewrite Nat.eqb_refl. cbn. split; [reflexivity|].
           unfold R; cbn. repeat split; auto.
        -- cbn. rewrite Nat.eqb_refl. cbn. rewrite Hj.
           destruct (py_eq t (key x)) eqn:Epe; cbn; (split; [reflexivity|]);
             unfold R; cbn; repeat split; auto.
           right; left. exists x. auto.
      * subst val ck srest. cbn. rewrite Nat.eqb_refl. cbn. rewrite Hj.
        destruct (py_eq t (key v)) eqn:Epe; cbn; (split; [reflexivity|]).
        -- unfold R; cbn; repeat split; auto.
        -- exact HR'.
    + cbn. rewrite E. cbn. destruct srest; (split; [reflexivity|exact HR']).
  - cbn. split; [reflexivity|exact HR'].
Qed.

Lemma sim_run : forall key ops g s, R key g s -> only_adv ops = true ->
  fst (g_run key g ops) = sp_run key s ops.
Proof.
  intros key ops. induction ops as [|op ops IH]; intros g s HR Hops.
  - reflexivity.
  - simpl in Hops. apply andb_prop in Hops. destruct Hops as [Hop Hops].
    rewrite g_run_cons, sp_run_cons. cbn [fst].
    destruct op as [|i|i|]; try discriminate Hop.
    + destruct (sim_adv key g s HR) as [Ho HR1]. rewrite Ho. f_equal. apply IH; assumption.
    + destruct (sim_group key g s i HR) as [Ho HR1]. rewrite Ho. f_equal. apply IH; assumption.
Qed.

Theorem groupby_refines : forall key items ops, only_adv ops = true ->
  fst (g_run key (g_init items) ops) = sp_run key (sp_init items) ops.
Proof. intros. apply sim_run; [apply R_init|assumption]. Qed.

(* ------------------------------------------------------------------------------------------ *)
(* Frame facts about step / maybe_step / scan, valid in every state (closed or not)            *)
(* ------------------------------------------------------------------------------------------ *)
Definition ahead (g : gstate) : list val := match g_value g with Some v => [v] | None => [] end.
(* everything that can still be delivered: the cached look-ahead, then the undelivered items *)
Definition pend (g : gstate) : list val := ahead g ++ g_rest g.

Definition frame (s s' : gstate) : Prop :=
  g_closed s' = g_closed s /\ g_group s' = g_group s /\ g_targets s' = g_targets s /\
  (exists pre, pend s = pre ++ pend s') /\
  (1 <= g_closed s -> g_rest s' = g_rest s /\ g_value s' = g_value s /\ g_curkey s' = g_curkey s) /\
  g_target s' = g_target s.

Lemma frame_refl : forall s, frame s s.
Proof. intros s. unfold frame. repeat split; auto. exists []. reflexivity. Qed.

Lemma frame_trans : forall a b c, frame a b -> frame b c -> frame a c.
Proof.
  intros a b c (H1 & H2 & H3 & (p1 & H4) & H5 & H6) (K1 & K2 & K3 & (p2 & K4) & K5 & K6).
  unfold frame. repeat split; try congruence.
  - exists (p1 ++ p2). rewrite H4, K4. apply app_assoc.
  - destruct (H5 H) as (A & B & C). rewrite <- H1 in H. destruct (K5 H) as (D & E & F). congruence.
  - destruct (H5 H) as (A & B & C). rewrite <- H1 in H. destruct (K5 H) as (D & E & F). congruence.
  - destruct (H5 H) as (A & B & C). rewrite <- H1 in H. destruct (K5 H) as (D & E & F). congruence.
Qed.

Lemma step_snd : forall key s s', fst (g_step key s) = Some s' -> snd (g_step key s) = s'.
Proof.
  intros key s s'. unfold g_step. destruct (g_rest s); [discriminate|].
  destruct (Nat.ltb 0 (g_closed s)); cbn; congruence.
Qed.

Lemma step_frame : forall key s, frame s (snd (g_step key s)).
Proof.
  intros key s. destruct s as [rest p c vl ck tg gr tgs]. unfold g_step. cbn [g_rest g_closed].
  destruct rest as [|x r].
  - cbn. unfold frame. cbn. repeat split; auto. exists []. reflexivity.
  - destruct c as [|c]; cbn.
    + unfold frame. cbn. repeat split; auto; try lia.
      exists (ahead (mkG (x :: r) p 0 vl ck tg gr tgs)). unfold pend, ahead. cbn. reflexivity.
    + unfold frame. cbn. repeat split; auto. exists []. reflexivity.
Qed.

Lemma maybe_step_snd : forall key s s', fst (g_maybe_step key s) = Some s' -> snd (g_maybe_step key s) = s'.
Proof.
  intros key s s'. unfold g_maybe_step. destruct (g_value s); [cbn; congruence|]. apply step_snd.
Qed.

Lemma maybe_step_frame : forall key s, frame s (snd (g_maybe_step key s)).
Proof.
  intros key s. unfold g_maybe_step. destruct (g_value s); [apply frame_refl|apply step_frame].
Qed.

Lemma maybe_step_value : forall key s s', fst (g_maybe_step key s) = Some s' -> exists v, g_value s' = Some v.
Proof.
  intros key s s'. unfold g_maybe_step. destruct (g_value s) eqn:E.
  - cbn. intros H; inversion H; subst. eauto.
  - unfold g_step. destruct (g_rest s); [discriminate|].
    destruct (Nat.ltb 0 (g_closed s)); cbn; [discriminate|]. intros H; inversion H; subst. cbn. eauto.
Qed.

Lemma scan_snd : forall key t fuel s s', fst (g_scan fuel key t s) = Some s' -> snd (g_scan fuel key t s) = s'.
Proof.
  intros key t fuel. induction fuel as [|f IH]; intros s s'.
  - discriminate.
  - rewrite g_scan_S. destruct (opt_eq (g_curkey s) (Some t)).
    + destruct (g_step key s) as [[s1|] s2]; [apply IH|discriminate].
    + cbn. congruence.
Qed.

Lemma scan_frame : forall key t fuel s, frame s (snd (g_scan fuel key t s)).
Proof.
  intros key t fuel. induction fuel as [|f IH]; intros s.
  - apply frame_refl.
  - rewrite g_scan_S. destruct (opt_eq (g_curkey s) (Some t)); [|apply frame_refl].
    pose proof (step_frame key s) as Hf. pose proof (step_snd key s) as Hs.
    destruct (g_step key s) as [[s1|] s2]; cbn in *.
    + rewrite (Hs s1 eq_refl) in Hf. eapply frame_trans; [exact Hf|apply IH].
    + exact Hf.
Qed.

Lemma scan_value : forall key t fuel s s',
  (exists v, g_value s = Some v) -> fst (g_scan fuel key t s) = Some s' -> exists v, g_value s' = Some v.
Proof.
  intros key t fuel. induction fuel as [|f IH]; intros s s' Hv.
  - discriminate.
  - rewrite g_scan_S. destruct (opt_eq (g_curkey s) (Some t)).
    + destruct (g_step key s) as [[s1|] s2] eqn:E; [|discriminate].
      apply IH. revert E. unfold g_step. destruct (g_rest s); [discriminate|].
      destruct (Nat.ltb 0 (g_closed s)); [discriminate|]. intros E; inversion E; subst. cbn. eauto.
    + cbn. intros H; inversion H; subst. assumption.
Qed.

(* What one operation does, in terms of [frame] *)
Definition new_group_state (s2 : gstate) (k : val) : gstate :=
  mkG (g_rest s2) (g_pulls s2) (g_closed s2) (g_value s2) (g_curkey s2) (Some k)
      (Some (length (g_targets s2))) (g_targets s2 ++ [k]).
Definition consumed_state (s1 : gstate) : gstate :=
  mkG (g_rest s1) (g_pulls s1) (g_closed s1) None (g_curkey s1) (g_target s1) (g_group s1) (g_targets s1).

Lemma g_do_adv_cases : forall key s,
  (exists s2, frame (set_group s None) s2 /\ g_do key s GAdv = (s2, OStop)) \/
  (exists s2 k v, frame (set_group s None) s2 /\ g_value s2 = Some v /\ g_curkey s2 = Some k /\
     g_do key s GAdv = (new_group_state s2 k, ONewGroup k (length (g_targets s2)))).
Proof.
  intros key s. unfold g_do.
  pose proof (maybe_step_frame key (set_group s None)) as Hf.
  pose proof (maybe_step_snd key (set_group s None)) as Hs.
  pose proof (maybe_step_value key (set_group s None)) as Hv.
  destruct (g_maybe_step key (set_group s None)) as [[s1|] s1']; cbn [fst snd] in *.
  - rewrite (Hs s1 eq_refl) in Hf. specialize (Hv s1 eq_refl). clear Hs.
    assert (Hsc : exists sc, (sc = (Some s1, s1) \/ exists t fuel, sc = g_scan fuel key t s1) /\
              match g_target s1 with Some tgt => g_scan (S (length (g_rest s1))) key tgt s1
                                   | None => (Some s1, s1) end = sc).
    { destruct (g_target s1) as [tgt|].
      - exists (g_scan (S (length (g_rest s1))) key tgt s1). split; [right; eauto|reflexivity].
      - exists (Some s1, s1). split; [left|]; reflexivity. }
    destruct Hsc as (sc & Hsc & ->).
    assert (Hf2 : frame s1 (snd sc)).
    { destruct Hsc as [->|(t & fuel & ->)]; [apply frame_refl|apply scan_frame]. }
    assert (Hs2 : forall s2, fst sc = Some s2 -> snd sc = s2 /\ exists v, g_value s2 = Some v).
    { destruct Hsc as [->|(t & fuel & ->)]; cbn.
      - intros s2 H; inversion H; subst; auto.
      - intros s2 H. split; [apply scan_snd; assumption|eapply scan_value; eauto]. }
    destruct sc as [[s2|] s2']; cbn [fst snd] in *.
    + destruct (Hs2 s2 eq_refl) as [-> [v Hv2]].
      destruct (g_curkey s2) as [k|] eqn:Ek.
      * right. exists s2, k, v. split; [eapply frame_trans; eauto|]. split; [assumption|]. split; [assumption|].
        unfold new_group_state. rewrite Ek. reflexivity.
      * left. exists s2. split; [eapply frame_trans; eauto|reflexivity].
    + left. exists s2'. split; [eapply frame_trans; eauto|reflexivity].
  - left. exists s1'. split; [assumption|reflexivity].
Qed.

Lemma g_do_group_cases : forall key s i,
  (exists s1, frame s s1 /\ g_do key s (GGroup i) = (s1, OStop)) \/
  (exists s1 v, frame s s1 /\ g_value s1 = Some v /\ g_group s = Some i /\
     g_do key s (GGroup i) = (consumed_state s1, OItem v)).
Proof.
  intros key s i. unfold g_do.
  destruct (g_group s) as [j|] eqn:Eg; [|left; exists s; split; [apply frame_refl|reflexivity]].
  destruct (Nat.eqb i j) eqn:E; [|left; exists s; split; [apply frame_refl|reflexivity]].
  apply Nat.eqb_eq in E. subst j.
  pose proof (maybe_step_frame key s) as Hf.
  pose proof (maybe_step_snd key s) as Hs.
  destruct (g_maybe_step key s) as [[s1|] s1']; cbn [fst snd] in *.
  - rewrite (Hs s1 eq_refl) in Hf.
    destruct (nth_error (g_targets s1) i) as [tk|]; [|left; exists s1; auto].
    destruct (g_curkey s1) as [ck|] eqn:Ek; [|left; exists s1; auto].
    destruct (g_value s1) as [v|] eqn:Ev; [|left; exists s1; auto].
    destruct (py_eq tk ck); [|left; exists s1; auto].
    right. exists s1, v. unfold consumed_state. rewrite Ek. auto.
  - left. exists s1'. auto.
Qed.

(* ------------------------------------------------------------------------------------------ *)
(* 2. A group that is not the most recently returned one is exhausted                          *)
(* ------------------------------------------------------------------------------------------ *)
(* the number of the last group announced in a list of observations *)
Fixpoint last_group (os : list gobs) (acc : option nat) : option nat :=
  match os with
  | [] => acc
  | ONewGroup _ i :: r => last_group r (Some i)
  | _ :: r => last_group r acc
  end.

Lemma group_step : forall key s op,
  match snd (g_do key s op) with
  | ONewGroup _ i => g_group (fst (g_do key s op)) = Some i
  | _ => forall j, g_group (fst (g_do key s op)) = Some j -> g_group s = Some j
  end.
Proof.
  intros key s op. destruct op as [|i|i|].
  - destruct (g_do_adv_cases key s) as [(s2 & Hf & ->) | (s2 & k & v & Hf & Hv & Hck & ->)]; cbn.
    + destruct Hf as (_ & Hg & _). rewrite Hg. cbn. intros j H; discriminate H.
    + reflexivity.
  - destruct (g_do_group_cases key s i) as [(s1 & Hf & ->) | (s1 & v & Hf & Hv & Hg & ->)]; cbn;
      destruct Hf as (_ & Hg' & _); rewrite Hg'; auto.
  - cbn. destruct (g_group s) as [j|] eqn:Eg; [destruct (Nat.eqb i j)|]; cbn; intros j' H;
      first [discriminate H | congruence].
  - cbn. intros j H; discriminate H.
Qed.

Lemma run_last_group : forall key ops s acc,
  (forall j, g_group s = Some j -> acc = Some j) ->
  forall j, g_group (snd (g_run key s ops)) = Some j -> last_group (fst (g_run key s ops)) acc = Some j.
Proof.
  intros key ops. induction ops as [|op ops IH]; intros s acc Hacc j Hj.
  - cbn in *. auto.
  - rewrite g_run_cons in *. cbn [fst snd] in *.
    pose proof (group_step key s op) as Hst.
    destruct (snd (g_do key s op)) as [k i| v | |]; cbn [last_group];
      apply IH; auto.
    intros j' Hj'. congruence.
Qed.

(* state form: only the live group can deliver; any other group stops without touching anything *)
Lemma stale_group_stops_state : forall key s i,
  g_group s <> Some i -> g_do key s (GGroup i) = (s, OStop).
Proof.
  intros key s i H. unfold g_do. destruct (g_group s) as [j|]; [|reflexivity].
  destruct (Nat.eqb i j) eqn:E; [|reflexivity]. apply Nat.eqb_eq in E. congruence.
Qed.

(* observational form, for arbitrary operation lists (closes included) *)
Theorem stale_group_stops_gen : forall key items ops i,
  last_group (fst (g_run key (g_init items) ops)) None <> Some i ->
  g_do key (snd (g_run key (g_init items) ops)) (GGroup i) = (snd (g_run key (g_init items) ops), OStop).
Proof.
  intros key items ops i H. apply stale_group_stops_state. intros Hg. apply H.
  apply run_last_group; auto; cbn; intros j Hj; discriminate Hj.
Qed.

Theorem stale_group_stops : forall key items ops i, only_adv ops = true ->
  last_group (fst (g_run key (g_init items) ops)) None <> Some i ->
  snd (g_do key (snd (g_run key (g_init items) ops)) (GGroup i)) = OStop /\
  fst (g_do key (snd (g_run key (g_init items) ops)) (GGroup i)) = snd (g_run key (g_init items) ops).
Proof. intros key items ops i _ H. rewrite (stale_group_stops_gen key items ops i H). auto. Qed.

(* groups are numbered 0, 1, 2, ... in the order in which they are returned *)
Definition new_nums (os : list gobs) : list nat :=
  flat_map (fun o => match o with ONewGroup _ i => [i] | _ => [] end) os.

Lemma targets_step : forall key s op,
  match snd (g_do key s op) with
  | ONewGroup _ i => i = length (g_targets s) /\ length (g_targets (fst (g_do key s op))) = S i
  | _ => g_targets (fst (g_do key s op)) = g_targets s
  end.
Proof.
  intros key s op. destruct op as [|i|i|].
  - destruct (g_do_adv_cases key s) as [(s2 & Hf & ->) | (s2 & k & v & Hf & Hv & Hck & ->)]; cbn;
      destruct Hf as (_ & _ & Ht & _); rewrite Ht; cbn; auto.
    rewrite app_length. cbn. split; [reflexivity|lia].
  - destruct (g_do_group_cases key s i) as [(s1 & Hf & ->) | (s1 & v & Hf & Hv & Hg & ->)]; cbn;
      destruct Hf as (_ & _ & Ht & _); auto.
  - cbn. destruct (g_group s) as [j|]; [destruct (Nat.eqb i j)|]; reflexivity.
  - reflexivity.
Qed.

Lemma group_numbers_from : forall key ops s,
  exists n, new_nums (fst (g_run key s ops)) = seq (length (g_targets s)) n /\
            length (g_targets (snd (g_run key s ops))) = length (g_targets s) + n.
Proof.
  intros key ops. induction ops as [|op ops IH]; intros s.
  - exists 0. cbn. auto.
  - rewrite g_run_cons. cbn [fst snd]. pose proof (targets_step key s op) as Hst.
    destruct (IH (fst (g_do key s op))) as (n & Hn & Hl).
    destruct (snd (g_do key s op)) as [k i| v | |]; cbn [new_nums flat_map app];
      try (exists n; fold (new_nums (fst (g_run key (fst (g_do key s op)) ops))); rewrite Hn, Hl, Hst; auto).
    destruct Hst as [-> Hst]. exists (S n).
    fold (new_nums (fst (g_run key (fst (g_do key s op)) ops))). rewrite Hn, Hl, Hst. cbn. split; [reflexivity|lia].
Qed.

Theorem group_numbers_sequential : forall key items ops,
  new_nums (fst (g_run key (g_init items) ops))
  = seq 0 (length (new_nums (fst (g_run key (g_init items) ops)))).
Proof.
  intros. destruct (group_numbers_from key ops (g_init items)) as (n & Hn & _).
  rewrite Hn. rewrite seq_length. reflexivity.
Qed.

(* ------------------------------------------------------------------------------------------ *)
(* 3. Delivered items form a subsequence of the input                                          *)
(* ------------------------------------------------------------------------------------------ *)
Inductive subseq {A : Type} : list A -> list A -> Prop :=
| sub_nil : forall l, subseq [] l
| sub_skip : forall l1 x l2, subseq l1 l2 -> subseq l1 (x :: l2)
| sub_take : forall x l1 l2, subseq l1 l2 -> subseq (x :: l1) (x :: l2).

Lemma subseq_app_l : forall (A : Type) (pre l1 l2 : list A), subseq l1 l2 -> subseq l1 (pre ++ l2).
Proof. intros A pre. induction pre; intros; cbn; [assumption|apply sub_skip; auto]. Qed.

Lemma subseq_In : forall (A : Type) (l1 l2 : list A), subseq l1 l2 -> forall x, In x l1 -> In x l2.
Proof.
  intros A l1 l2 H. induction H; intros y Hy; cbn in *; auto.
  - contradiction.
  - destruct Hy; auto.
Qed.

Lemma subseq_NoDup : forall (A : Type) (l1 l2 : list A), subseq l1 l2 -> NoDup l2 -> NoDup l1.
Proof.
  intros A l1 l2 H. induction H; intros Hnd.
  - constructor.
  - inversion Hnd; auto.
  - inversion Hnd; subst. constructor; auto. intros Hin. eapply subseq_In in Hin; eauto.
Qed.

Lemma subseq_length : forall (A : Type) (l1 l2 : list A), subseq l1 l2 -> length l1 <= length l2.
Proof. intros A l1 l2 H. induction H; cbn; lia. Qed.

Definition obs_items (os : list gobs) : list val :=
  flat_map (fun o => match o with OItem v => [v] | _ => [] end) os.

Lemma item_step : forall key s op,
  match snd (g_do key s op) with
  | OItem v => exists pre, pend s = pre ++ v :: pend (fst (g_do key s op))
  | _ => exists pre, pend s = pre ++ pend (fst (g_do key s op))
  end.
Proof.
  intros key s op. destruct op as [|i|i|].
  - destruct (g_do_adv_cases key s) as [(s2 & Hf & ->) | (s2 & k & v & Hf & Hv & Hck & ->)]; cbn;
      destruct Hf as (_ & _ & _ & Hp & _); exact Hp.
  - destruct (g_do_group_cases key s i) as [(s1 & Hf & ->) | (s1 & v & Hf & Hv & Hg & ->)]; cbn;
      destruct Hf as (_ & _ & _ & (pre & Hp) & _); exists pre; rewrite Hp; [reflexivity|].
    unfold pend at 1, ahead. rewrite Hv. reflexivity.
  - cbn. destruct (g_group s) as [j|]; [destruct (Nat.eqb i j)|]; cbn; exists []; reflexivity.
  - cbn. exists []. reflexivity.
Qed.

Lemma run_items : forall key ops s, subseq (obs_items (fst (g_run key s ops))) (pend s).
Proof.
  intros key ops. induction ops as [|op ops IH]; intros s.
  - cbn. constructor.
  - rewrite g_run_cons. cbn [fst]. pose proof (item_step key s op) as Hst.
    specialize (IH (fst (g_do key s op))).
    destruct (snd (g_do key s op)) as [k i| v | |]; cbn [obs_items flat_map app];
      fold (obs_items (fst (g_run key (fst (g_do key s op)) ops)));
      destruct Hst as (pre & ->); apply subseq_app_l; auto.
    apply sub_take. assumption.
Qed.

(* for arbitrary operation lists (closes included) *)
Theorem group_items_in_order_gen : forall key items ops,
  subseq (obs_items (fst (g_run key (g_init items) ops))) items.
Proof. intros. apply (run_items key ops (g_init items)). Qed.

Theorem group_items_in_order : forall key items ops, only_adv ops = true ->
  subseq (obs_items (fst (g_run key (g_init items) ops))) items.
Proof. intros. apply group_items_in_order_gen. Qed.

Corollary group_items_no_duplicates : forall key items ops,
  NoDup items -> NoDup (obs_items (fst (g_run key (g_init items) ops))).
Proof. intros. eapply subseq_NoDup; [apply group_items_in_order_gen|assumption]. Qed.

(* ------------------------------------------------------------------------------------------ *)
(* 4. Closing                                                                                  *)
(* ------------------------------------------------------------------------------------------ *)
Lemma py_eq_refl : forall v, py_eq v v = true.
Proof.
  fix IH 1. intros v. destruct v as [id k c|z|b| | |l|l]; cbn.
  - rewrite N.eqb_refl, Z.eqb_refl. reflexivity.
  - apply Z.eqb_refl.
  - apply eqb_reflx.
  - reflexivity.
  - reflexivity.
  - induction l as [|x l IHl]; [reflexivity|]. rewrite IH. exact IHl.
  - induction l as [|x l IHl]; [reflexivity|]. rewrite IH. exact IHl.
Qed.

Theorem groupby_close_releases : forall key items ops,
  let '(os, s) := g_run key (g_init items) (ops ++ [GClose]) in
  last os ODone = ODone /\ 1 <= g_closed s /\ g_group s = None.
Proof.
  intros key items ops. rewrite g_run_app. cbn.
  split; [apply last_last|]. split; [lia|reflexivity].
Qed.

(* closing works from EVERY state, reachable or not *)
Lemma close_from_any_state : forall key s,
  snd (g_do key s GClose) = ODone /\ g_closed (fst (g_do key s GClose)) = S (g_closed s) /\
  g_group (fst (g_do key s GClose)) = None /\ g_rest (fst (g_do key s GClose)) = g_rest s.
Proof. intros. cbn. auto. Qed.

(* one operation on a closed groupby: the source is never pulled again; the only item that can still
   come out is the cached look-ahead *)
Lemma closed_step : forall key s op, 1 <= g_closed s ->
  1 <= g_closed (fst (g_do key s op)) /\ g_rest (fst (g_do key s op)) = g_rest s /\
  match snd (g_do key s op) with
  | OItem v => g_value s = Some v /\ g_value (fst (g_do key s op)) = None
  | _ => g_value (fst (g_do key s op)) = g_value s
  end.
Proof.
  intros key s op Hc. destruct op as [|i|i|].
  - destruct (g_do_adv_cases key s) as [(s2 & Hf & ->) | (s2 & k & v & Hf & Hv & Hck & ->)]; cbn;
      destruct Hf as (Hcl & _ & _ & _ & Hk & _); destruct (Hk Hc) as (A & B & C); cbn in *;
      repeat split; auto; lia.
  - destruct (g_do_group_cases key s i) as [(s1 & Hf & ->) | (s1 & v & Hf & Hv & Hg & ->)]; cbn;
      destruct Hf as (Hcl & _ & _ & _ & Hk & _); destruct (Hk Hc) as (A & B & C);
      repeat split; auto; try lia. congruence.
  - cbn. destruct (g_group s) as [j|]; [destruct (Nat.eqb i j)|]; cbn; auto.
  - cbn. repeat split; auto.
Qed.

Lemma closed_run : forall key ops s, 1 <= g_closed s ->
  1 <= g_closed (snd (g_run key s ops)) /\ g_rest (snd (g_run key s ops)) = g_rest s /\
  subseq (obs_items (fst (g_run key s ops))) (ahead s).
Proof.
  intros key ops. induction ops as [|op ops IH]; intros s Hc.
  - cbn. repeat split; auto. constructor.
  - rewrite g_run_cons. cbn [fst snd].
    destruct (closed_step key s op Hc) as (Hc1 & Hr1 & Hst).
    destruct (IH _ Hc1) as (Hc2 & Hr2 & Hs2).
    split; [assumption|]. split; [congruence|].
    destruct (snd (g_do key s op)) as [k i| v | |]; cbn [obs_items flat_map app];
      fold (obs_items (fst (g_run key (fst (g_do key s op)) ops)));
      try (unfold ahead in *; rewrite Hst in Hs2; exact Hs2).
    destruct Hst as [Hv Hn]. unfold ahead in *. rewrite Hn in Hs2. rewrite Hv.
    apply sub_take. exact Hs2.
Qed.

(* without a cached look-ahead a closed groupby only stops *)
Lemma closed_empty_step : forall key s op, 1 <= g_closed s -> g_value s = None ->
  match op with GAdv | GGroup _ => snd (g_do key s op) = OStop | _ => snd (g_do key s op) = ODone end.
Proof.
  intros key s op Hc Hv. destruct op as [|i|i|].
  - destruct (g_do_adv_cases key s) as [(s2 & Hf & ->) | (s2 & k & v & Hf & Hv2 & Hck & ->)]; [reflexivity|].
    destruct Hf as (_ & _ & _ & _ & Hk & _). destruct (Hk Hc) as (A & B & C). cbn in B. congruence.
  - destruct (g_do_group_cases key s i) as [(s1 & Hf & ->) | (s1 & v & Hf & Hv2 & Hg & ->)]; [reflexivity|].
    destruct Hf as (_ & _ & _ & _ & Hk & _). destruct (Hk Hc) as (A & B & C). congruence.
  - cbn. destruct (g_group s) as [j|]; [destruct (Nat.eqb i j)|]; reflexivity.
  - reflexivity.
Qed.

Lemma closed_empty_run : forall key ops s, 1 <= g_closed s -> g_value s = None -> only_adv ops = true ->
  Forall (fun o => o = OStop) (fst (g_run key s ops)).
Proof.
  intros key ops. induction ops as [|op ops IH]; intros s Hc Hv Hops.
  - constructor.
  - cbn in Hops. apply andb_prop in Hops. destruct Hops as [Hop Hops].
    rewrite g_run_cons. cbn [fst].
    destruct (closed_step key s op Hc) as (Hc1 & Hr1 & Hst).
    pose proof (closed_empty_step key s op Hc Hv) as Ho.
    assert (Eo : snd (g_do key s op) = OStop) by (destruct op; try discriminate Hop; exact Ho).
    constructor; [exact Eo|]. apply IH; auto. rewrite Eo in Hst. congruence.
Qed.

(* after a look-ahead was turned into a group in the closed state, no further group can appear *)
Definition spent (s : gstate) : Prop :=
  1 <= g_closed s /\ (g_value s = None \/ opt_eq (g_curkey s) (g_target s) = true).

Lemma spent_adv_stops : forall key s, spent s -> exists s', g_do key s GAdv = (s', OStop).
Proof.
  intros key s [Hc [Hv|He]].
  - pose proof (closed_empty_step key s GAdv Hc Hv) as H. cbn beta iota in H.
    exists (fst (g_do key s GAdv)). rewrite <- H. apply surjective_pairing.
  - destruct s as [rest p c vl ck tg gr tgs]. cbn in Hc, He.
    destruct vl as [v|].
    + destruct ck as [k|]; [|discriminate He]. destruct tg as [t|]; [|discriminate He]. cbn in He.
      unfold g_do, set_group, g_maybe_step.
      cbn [g_value g_rest g_pulls g_closed g_curkey g_target g_group g_targets].
      rewrite g_scan_S. cbn [g_curkey opt_eq]. rewrite He.
      unfold g_step. cbn [g_value g_rest g_pulls g_closed g_curkey g_target g_group g_targets].
      destruct rest as [|x r]; [eexists; reflexivity|].
      destruct c as [|c]; [lia|]. cbn. eexists; reflexivity.
    + pose proof (closed_empty_step key (mkG rest p c None ck tg gr tgs) GAdv Hc eq_refl) as H.
      cbn beta iota in H. eexists. rewrite <- H. apply surjective_pairing.
Qed.

Lemma spent_step : forall key s op, spent s ->
  spent (fst (g_do key s op)) /\ (forall k i, snd (g_do key s op) <> ONewGroup k i).
Proof.
  intros key s op Hsp. assert (Hc : 1 <= g_closed s) by apply Hsp.
  destruct (closed_step key s op Hc) as (Hc1 & _ & Hst).
  destruct op as [|i|i|].
  - destruct (spent_adv_stops key s Hsp) as (s' & Hs'). pose proof (g_do_adv_cases key s) as Hcases.
    rewrite Hs' in *. cbn [fst snd] in *. split; [|discriminate].
    destruct Hcases as [(s2 & Hf & E) | (s2 & k & v & Hf & Hv & Hck & E)]; [|discriminate E].
    inversion E; subst s2. destruct Hf as (_ & _ & _ & _ & Hk & Ht). destruct (Hk Hc) as (A & B & C).
    cbn in *. split; [assumption|]. destruct Hsp as [_ [Hv|He]]; [left; congruence|right].
    rewrite C, Ht. exact He.
  - destruct (g_do_group_cases key s i) as [(s1 & Hf & E) | (s1 & v & Hf & Hv & Hg & E)];
      rewrite E in *; cbn [fst snd] in *; (split; [|discriminate]).
    + destruct Hf as (_ & _ & _ & _ & Hk & Ht). destruct (Hk Hc) as (A & B & C).
      split; [assumption|]. destruct Hsp as [_ [Hv|He]]; [left; congruence|right].
      rewrite C, Ht. exact He.
    + split; [assumption|]. left. reflexivity.
  - cbn. split; [|destruct (g_group s) as [j|]; [destruct (Nat.eqb i j)|]; discriminate].
    destruct (g_group s) as [j|]; [destruct (Nat.eqb i j)|]; cbn; exact Hsp.
  - split; [|cbn; discriminate]. destruct Hsp as [_ H]. unfold spent. cbn. split; [lia|exact H].
Qed.

Lemma closed_new_group_spent : forall key s op k i, 1 <= g_closed s ->
  snd (g_do key s op) = ONewGroup k i -> spent (fst (g_do key s op)).
Proof.
  intros key s op k i Hc Ho. destruct (closed_step key s op Hc) as (Hc1 & _ & _).
  split; [assumption|]. destruct op as [|j|j|].
  - destruct (g_do_adv_cases key s) as [(s2 & Hf & E) | (s2 & k' & v & Hf & Hv & Hck & E)];
      rewrite E in *; cbn [fst snd] in *; [discriminate Ho|].
    right. cbn. rewrite Hck. cbn. apply py_eq_refl.
  - destruct (g_do_group_cases key s j) as [(s1 & Hf & E) | (s1 & v & Hf & Hv & Hg & E)];
      rewrite E in Ho; discriminate Ho.
  - cbn in Ho. destruct (g_group s) as [j'|]; [destruct (Nat.eqb j j')|]; discriminate Ho.
  - discriminate Ho.
Qed.

Lemma spent_run : forall key ops s, spent s -> new_nums (fst (g_run key s ops)) = [].
Proof.
  intros key ops. induction ops as [|op ops IH]; intros s Hsp.
  - reflexivity.
  - rewrite g_run_cons. cbn [fst]. destruct (spent_step key s op Hsp) as [Hsp1 Hno].
    specialize (IH _ Hsp1). unfold new_nums in *. cbn [flat_map]. rewrite IH.
    destruct (snd (g_do key s op)) as [k i| | |]; try reflexivity. exfalso. eapply Hno; reflexivity.
Qed.

Lemma closed_run_groups : forall key ops s, 1 <= g_closed s ->
  length (new_nums (fst (g_run key s ops))) <= 1.
Proof.
  intros key ops. induction ops as [|op ops IH]; intros s Hc.
  - cbn. lia.
  - rewrite g_run_cons. cbn [fst]. destruct (closed_step key s op Hc) as (Hc1 & _ & _).
    pose proof (closed_new_group_spent key s op) as Hsp.
    specialize (IH _ Hc1). unfold new_nums in *. cbn [flat_map].
    destruct (snd (g_do key s op)) as [k i| | |]; cbn [app]; try exact IH.
    specialize (Hsp k i Hc eq_refl). pose proof (spent_run key ops _ Hsp) as Hn.
    unfold new_nums in Hn. rewrite Hn. cbn. lia.
Qed.

(* The requested statement "after GClose every further GAdv / GGroup yields OStop" ... *)
Definition closed_groupby_stops_statement : Prop :=
  forall key items ops ops', only_adv ops' = true ->
    let s := snd (g_run key (g_init items) (ops ++ [GClose])) in
    Forall (fun o => o = OStop) (fst (g_run key s ops')) /\
    g_rest (snd (g_run key s ops')) = g_rest s.

(* ... is FALSE for the model: a look-ahead item that was pulled by an exhausted group and is still
   cached when the groupby is closed is turned into a new group (and delivered) afterwards. *)
Theorem closed_groupby_stops_refuted :
  exists key items ops ops', only_adv ops = true /\ only_adv ops' = true /\
    fst (g_run key (snd (g_run key (g_init items) (ops ++ [GClose]))) ops')
    = [ONewGroup (VInt 2) 1; OItem (VInt 2); OStop; OStop].
Proof.
  exists (fun v => v), [VInt 1; VInt 2], [GAdv; GGroup 0; GGroup 0], [GAdv; GGroup 1; GAdv; GGroup 1].
  vm_compute. auto.
Qed.

Theorem closed_groupby_stops_false : ~ closed_groupby_stops_statement.
Proof.
  intros H.
  destruct (H (fun v => v) [VInt 1; VInt 2] [GAdv; GGroup 0; GGroup 0] [GAdv] eq_refl) as [HF _].
  vm_compute in HF. inversion HF as [|o l Ho Hl]. discriminate Ho.
Qed.

(* Strongest true variants.
   (a) for ARBITRARY operations before and after the close (further closes included): the source
       is never pulled again (g_rest unchanged), the groupby stays closed, at most one item -- the
       look-ahead cached at close time -- is still delivered, and at most one more group appears. *)
Theorem closed_groupby_stops_partial : forall key items ops ops',
  let s := snd (g_run key (g_init items) (ops ++ [GClose])) in
  g_rest (snd (g_run key s ops')) = g_rest s /\
  1 <= g_closed (snd (g_run key s ops')) /\
  subseq (obs_items (fst (g_run key s ops'))) (ahead s) /\
  length (obs_items (fst (g_run key s ops'))) <= 1 /\
  length (new_nums (fst (g_run key s ops'))) <= 1.
Proof.
  intros key items ops ops' s.
  assert (Hc : 1 <= g_closed s).
  { pose proof (groupby_close_releases key items ops) as H. fold s in H.
    destruct (g_run key (g_init items) (ops ++ [GClose])) as [os sf] eqn:E.
    subst s. cbn. apply H. }
  destruct (closed_run key ops' s Hc) as (A & B & C).
  repeat split; auto.
  - apply subseq_length in C. unfold ahead in C. destruct (g_value s); cbn in C; lia.
  - apply closed_run_groups. assumption.
Qed.

(* (b) the requested statement holds whenever no look-ahead is cached at close time ... *)
Theorem closed_groupby_stops_no_lookahead : forall key items ops ops',
  let s := snd (g_run key (g_init items) (ops ++ [GClose])) in
  g_value s = None -> only_adv ops' = true ->
  Forall (fun o => o = OStop) (fst (g_run key s ops')) /\
  g_rest (snd (g_run key s ops')) = g_rest s.
Proof.
  intros key items ops ops' s Hv Hops.
  destruct (closed_groupby_stops_partial key items ops ops') as (A & B & _). fold s in A, B.
  split; [|exact A]. apply closed_empty_run; auto.
  pose proof (groupby_close_releases key items ops) as H.
  destruct (g_run key (g_init items) (ops ++ [GClose])) as [os sf] eqn:E. subst s. cbn. apply H.
Qed.

(* ... in particular for a groupby that is closed before it was ever advanced *)
Corollary closed_unstarted_groupby_stops : forall key items ops', only_adv ops' = true ->
  Forall (fun o => o = OStop) (fst (g_run key (snd (g_run key (g_init items) [GClose])) ops')) /\
  g_rest (snd (g_run key (snd (g_run key (g_init items) [GClose])) ops')) = items.
Proof.
  intros key items ops' H.
  exact (closed_groupby_stops_no_lookahead key items [] ops' eq_refl H).
Qed.

(* (c) single-step form, from ANY closed state: GAdv / GGroup never pull; without look-ahead they stop *)
Theorem closed_groupby_step : forall key s op, 1 <= g_closed s ->
  g_rest (fst (g_do key s op)) = g_rest s /\ 1 <= g_closed (fst (g_do key s op)) /\
  (g_value s = None -> match op with GAdv | GGroup _ => snd (g_do key s op) = OStop
                                   | _ => snd (g_do key s op) = ODone end).
Proof.
  intros key s op Hc. destruct (closed_step key s op Hc) as (A & B & _).
  repeat split; auto. intros Hv. apply closed_empty_step; assumption.
Qed.

(* ------------------------------------------------------------------------------------------ *)
(* Example: keys a a b a a, interleaving stale and live groups                                  *)
(* ------------------------------------------------------------------------------------------ *)
Definition ex_key (v : val) : val := VInt (key_of v).
Definition ex_items : list val := [VObj 1 1 0; VObj 2 1 0; VObj 3 2 0; VObj 4 1 0; VObj 5 1 0].
Definition ex_ops : list gop :=
  [GGroup 0; GAdv; GGroup 0; GAdv; GGroup 0; GGroup 1; GGroup 1; GGroup 1; GAdv; GGroup 1;
   GGroup 2; GGroup 0; GGroup 2; GGroup 2; GAdv; GGroup 2; GAdv].

Example groupby_example :
  only_adv ex_ops = true /\
  fst (g_run ex_key (g_init ex_items) ex_ops)
  = [OStop; ONewGroup (VInt 1) 0; OItem (VObj 1 1 0);
     ONewGroup (VInt 2) 1;            (* the second a (VObj 2) is skipped and never reappears *)
     OStop;                           (* group 0 is stale *)
     OItem (VObj 3 2 0); OStop; OStop;
     ONewGroup (VInt 1) 2;            (* a new group for the same key a *)
     OStop; OItem (VObj 4 1 0); OStop; OItem (VObj 5 1 0); OStop; OStop; OStop; OStop] /\
  sp_run ex_key (sp_init ex_items) ex_ops = fst (g_run ex_key (g_init ex_items) ex_ops) /\
  g_pulls (snd (g_run ex_key (g_init ex_items) ex_ops)) = 8 /\
  obs_items (fst (g_run ex_key (g_init ex_items) ex_ops)) = [VObj 1 1 0; VObj 3 2 0; VObj 4 1 0; VObj 5 1 0] /\
  new_nums (fst (g_run ex_key (g_init ex_items) ex_ops)) = [0; 1; 2].
Proof. vm_compute. repeat split. Qed.

Example groupby_close_example :
  g_run ex_key (g_init ex_items) ([GAdv; GGroup 0] ++ [GClose] ++ [GAdv; GGroup 0; GGroup 1])
  = ([ONewGroup (VInt 1) 0; OItem (VObj 1 1 0); ODone; OStop; OStop; OStop],
     mkG [VObj 2 1 0; VObj 3 2 0; VObj 4 1 0; VObj 5 1 0] 2 1 None (Some (VInt 1)) (Some (VInt 1)) None [VInt 1]).
Proof. vm_compute. reflexivity. Qed.

Print Assumptions groupby_refines.
Print Assumptions stale_group_stops.
Print Assumptions stale_group_stops_gen.
Print Assumptions stale_group_stops_state.
Print Assumptions group_numbers_sequential.
Print Assumptions group_items_in_order.
Print Assumptions group_items_in_order_gen.
Print Assumptions group_items_no_duplicates.
Print Assumptions groupby_close_releases.
Print Assumptions close_from_any_state.
Print Assumptions closed_groupby_stops_refuted.
Print Assumptions closed_groupby_stops_false.
Print Assumptions closed_groupby_stops_partial.
Print Assumptions closed_groupby_stops_no_lookahead.
Print Assumptions closed_unstarted_groupby_stops.
Print Assumptions closed_groupby_step.
Print Assumptions py_eq_refl.
Print Assumptions groupby_example.
Print Assumptions groupby_close_example.
