(* C10, part 2: asyncstdlib's lru_cache (l_do / l_run) refines functools.lru_cache (f_do / f_run) over
   every sequential operation history, for every maxsize and typed; and the corollaries on the
   implementation model. *)
From Coq Require Import List ZArith NArith Bool Arith Lia.
From V Require Import Model.Lru Proofs.LruKeys.
Import ListNotations.

(* ================= generic facts about c_find / c_remove (association lists up to ckey_eq) ================= *)
Lemma c_find_congr : forall k k' l, ckey_eq k k' = true -> c_find k l = c_find k' l.
Proof.
  intros k k' l H. induction l as [|[k0 v] l IH]; simpl; [reflexivity|].
  now rewrite (ckey_eq_congr_l k k' k0 H), IH.
Qed.

Lemma c_find_app : forall k l1 l2,
  c_find k (l1 ++ l2) = match c_find k l1 with Some v => Some v | None => c_find k l2 end.
Proof.
  intros k l1 l2. induction l1 as [|[k0 v] l1 IH]; simpl; [reflexivity|].
  destruct (ckey_eq k k0); [reflexivity|apply IH].
Qed.

Lemma c_find_none_iff : forall k l,
  c_find k l = None <-> Forall (fun e => ckey_eq k (fst e) = false) l.
Proof.
  intros k l. induction l as [|[k0 v] l IH]; simpl.
  - split; constructor.
  - destruct (ckey_eq k k0) eqn:E.
    + split; [discriminate|]. intros H. inversion H; subst. simpl in *. congruence.
    + rewrite IH. split; intros H; [constructor; auto|inversion H; auto].
Qed.

Lemma c_find_rev_none : forall k l, c_find k (rev l) = None <-> c_find k l = None.
Proof.
  intros k l. rewrite !c_find_none_iff. split; intros H.
  - apply Forall_rev in H. now rewrite rev_involutive in H.
  - now apply Forall_rev.
Qed.

Lemma c_find_some_in : forall k l v, c_find k l = Some v -> exists k0, In (k0, v) l /\ ckey_eq k k0 = true.
Proof.
  intros k l v. induction l as [|[k0 v0] l IH]; simpl; [discriminate|].
  destruct (ckey_eq k k0) eqn:E.
  - intros [= ->]. exists k0. auto.
  - intros H. destruct (IH H) as [k1 [Hin He]]. exists k1. auto.
Qed.

Lemma c_remove_app : forall k l1 l2,
  c_remove k (l1 ++ l2) = match c_find k l1 with Some _ => c_remove k l1 ++ l2 | None => l1 ++ c_remove k l2 end.
Proof.
  intros k l1 l2. induction l1 as [|[k0 v] l1 IH]; simpl; [reflexivity|].
  destruct (ckey_eq k k0); [reflexivity|]. rewrite IH. destruct (c_find k l1); reflexivity.
Qed.

Lemma c_remove_none : forall k l, c_find k l = None -> c_remove k l = l.
Proof.
  intros k l. induction l as [|[k0 v] l IH]; simpl; [reflexivity|].
  destruct (ckey_eq k k0); [discriminate|]. intros H. now rewrite IH.
Qed.

Lemma length_c_remove : forall k l,
  length (c_remove k l) = match c_find k l with Some _ => pred (length l) | None => length l end.
Proof.
  intros k l. induction l as [|[k0 v] l IH]; simpl; [reflexivity|].
  destruct (ckey_eq k k0); [reflexivity|]. simpl. rewrite IH.
  destruct (c_find k l) eqn:E; [|reflexivity]. destruct l; [discriminate|reflexivity].
Qed.

Lemma c_find_remove_other : forall k k' l, ckey_eq k k' = false -> c_find k (c_remove k' l) = c_find k l.
Proof.
  intros k k' l H. induction l as [|[k0 v] l IH]; simpl; [reflexivity|].
  destruct (ckey_eq k' k0) eqn:E.
  - rewrite <- (ckey_eq_congr_r k' k0 k E), H. reflexivity.
  - simpl. now rewrite IH.
Qed.

Lemma c_find_remove_none : forall k k' l, c_find k l = None -> c_find k (c_remove k' l) = None.
Proof.
  intros k k' l. induction l as [|[k0 v] l IH]; simpl; [reflexivity|].
  destruct (ckey_eq k k0) eqn:E; [discriminate|]. intros H.
  destruct (ckey_eq k' k0); [exact H|]. simpl. rewrite E. auto.
Qed.

(* removal deletes exactly one entry (the first one with an equal key), or nothing *)
Lemma c_remove_shape : forall k l,
  (c_find k l = None /\ c_remove k l = l) \/
  (exists l1 k0 v l2, l = l1 ++ (k0, v) :: l2 /\ c_remove k l = l1 ++ l2 /\
                      ckey_eq k k0 = true /\ c_find k l1 = None /\ c_find k l = Some v).
Proof.
  intros k l. induction l as [|[k0 v] l IH]; simpl; [left; auto|].
  destruct (ckey_eq k k0) eqn:E.
  - right. exists [], k0, v, l. simpl. auto.
  - destruct IH as [[H1 H2]|[l1 [k1 [v1 [l2 [H1 [H2 [H3 [H4 H5]]]]]]]]].
    + left. now rewrite H2.
    + right. exists ((k0, v) :: l1), k1, v1, l2. simpl. rewrite E, H2, H5. subst l. auto.
Qed.

(* no two entries with equal keys *)
Fixpoint kuniq (l : list (ckey * nat)) : Prop :=
  match l with [] => True | (k, _) :: r => c_find k r = None /\ kuniq r end.

Lemma c_find_remove_same : forall k k' l, kuniq l -> ckey_eq k k' = true -> c_find k (c_remove k' l) = None.
Proof.
  intros k k' l Hu H. induction l as [|[k0 v] l IH]; simpl in *; [reflexivity|].
  destruct Hu as [H0 Hl]. destruct (ckey_eq k' k0) eqn:E.
  - rewrite (c_find_congr k k0 l); [exact H0|]. eapply ckey_eq_trans; eauto.
  - simpl. rewrite (ckey_eq_congr_l k k' k0 H), E. auto.
Qed.

Lemma kuniq_remove : forall k l, kuniq l -> kuniq (c_remove k l).
Proof.
  intros k l. induction l as [|[k0 v] l IH]; simpl; [auto|]. intros [H0 Hl].
  destruct (ckey_eq k k0); [exact Hl|]. simpl. split; [now apply c_find_remove_none|auto].
Qed.

Lemma kuniq_snoc_iff : forall l k v, kuniq (l ++ [(k, v)]) <-> kuniq l /\ c_find k l = None.
Proof.
  intros l k v. induction l as [|[k0 v0] l IH]; simpl; [tauto|].
  rewrite c_find_app, IH. simpl. rewrite (ckey_eq_sym k k0).
  destruct (c_find k0 l); destruct (ckey_eq k0 k); intuition congruence.
Qed.

Lemma c_find_rev : forall k l, kuniq l -> c_find k (rev l) = c_find k l.
Proof.
  intros k l. induction l as [|[k0 v0] l IH]; simpl; [reflexivity|]. intros [H0 Hl].
  rewrite c_find_app, IH by assumption. simpl. destruct (ckey_eq k k0) eqn:E.
  - now rewrite (c_find_congr k k0 l E), H0.
  - destruct (c_find k l); reflexivity.
Qed.

Lemma c_remove_rev : forall k l, kuniq l -> c_remove k (rev l) = rev (c_remove k l).
Proof.
  intros k l. induction l as [|[k0 v0] l IH]; simpl; [reflexivity|]. intros [H0 Hl].
  rewrite c_remove_app, c_find_rev by assumption. destruct (ckey_eq k k0) eqn:E.
  - rewrite (c_find_congr k k0 l E), H0. simpl. rewrite E. apply app_nil_r.
  - destruct (c_find k l) eqn:F.
    + rewrite IH by assumption. reflexivity.
    + simpl. rewrite E. now rewrite (c_remove_none k l F).
Qed.

Lemma kuniq_rev : forall l, kuniq l -> kuniq (rev l).
Proof.
  induction l as [|[k0 v0] l IH]; simpl; [auto|]. intros [H0 Hl].
  apply kuniq_snoc_iff. split; [auto|now apply c_find_rev_none].
Qed.

Lemma kuniq_tl : forall l, kuniq l -> kuniq (tl l).
Proof. intros [|[k v] l]; simpl; tauto. Qed.
Lemma c_find_tl_none : forall k l, c_find k l = None -> c_find k (tl l) = None.
Proof. intros k [|[k0 v] l]; simpl; [auto|]. destruct (ckey_eq k k0); [discriminate|auto]. Qed.

Lemma kuniq_move : forall k v l, kuniq l -> kuniq (c_remove k l ++ [(k, v)]).
Proof.
  intros k v l H. apply kuniq_snoc_iff. split; [now apply kuniq_remove|].
  apply c_find_remove_same; [assumption|apply ckey_eq_refl].
Qed.
Lemma length_move : forall k v v' l, c_find k l = Some v -> length (c_remove k l ++ [(k, v')]) = length l.
Proof.
  intros k v v' l H. rewrite app_length, length_c_remove, H. simpl.
  destruct l; [discriminate|simpl; lia].
Qed.

(* the explicit reading of kuniq: entries at different positions have different keys *)
Lemma kuniq_nth : forall l, kuniq l ->
  forall i j e e', i <> j -> nth_error l i = Some e -> nth_error l j = Some e' -> ckey_eq (fst e) (fst e') = false.
Proof.
  induction l as [|[k v] l IH]; intros Hu i j e e' Hij Hi Hj.
  - destruct i; discriminate.
  - destruct Hu as [H0 Hl]. pose proof (proj1 (c_find_none_iff k l) H0) as HF.
    rewrite Forall_forall in HF.
    destruct i as [|i], j as [|j]; simpl in *.
    + congruence.
    + injection Hi as <-. simpl. apply HF. eapply nth_error_In; eauto.
    + injection Hj as <-. simpl. rewrite ckey_eq_sym. apply HF. eapply nth_error_In; eauto.
    + apply (IH Hl i j e e'); auto.
Qed.

(* ================= entries related call-by-call through key_classes ================= *)
Definition krel (typed : bool) (a b : ckey * nat) : Prop :=
  snd a = snd b /\ exists c, fst a = asl_key typed c /\ fst b = std_key typed c.

Lemma krel_find : forall typed c L F, Forall2 (krel typed) L F ->
  c_find (asl_key typed c) L = c_find (std_key typed c) F.
Proof.
  intros typed c L F H. induction H as [|[ka va] [ks vs] L F [Hv [c0 [Ha Hs]]] HF IH]; simpl in *; [reflexivity|].
  subst. now rewrite key_classes, IH.
Qed.
Lemma krel_remove : forall typed c L F, Forall2 (krel typed) L F ->
  Forall2 (krel typed) (c_remove (asl_key typed c) L) (c_remove (std_key typed c) F).
Proof.
  intros typed c L F H. induction H as [|[ka va] [ks vs] L F [Hv [c0 [Ha Hs]]] HF IH]; simpl in *; [constructor|].
  subst. rewrite key_classes. destruct (ckey_eq (std_key typed c) (std_key typed c0)); [assumption|].
  constructor; [|assumption]. split; [reflexivity|]. exists c0. auto.
Qed.
Lemma krel_kuniq : forall typed L F, Forall2 (krel typed) L F -> (kuniq L <-> kuniq F).
Proof.
  intros typed L F H. induction H as [|[ka va] [ks vs] L F [Hv [c0 [Ha Hs]]] HF IH]; simpl in *; [tauto|].
  subst. rewrite (krel_find typed c0 L F HF), IH. tauto.
Qed.
Lemma F2_length : forall A B (R : A -> B -> Prop) l l', Forall2 R l l' -> length l = length l'.
Proof. intros A B R l l' H. induction H; simpl; congruence. Qed.
Lemma F2_tl : forall A B (R : A -> B -> Prop) l l', Forall2 R l l' -> Forall2 R (tl l) (tl l').
Proof. intros A B R l l' H. destruct H; simpl; [constructor|assumption]. Qed.
Lemma krel_new : forall typed c n, krel typed (asl_key typed c, n) (std_key typed c, n).
Proof. intros. split; [reflexivity|]. exists c. auto. Qed.

(* ================= the refinement relation ================= *)
Local Arguments Nat.leb : simpl never.
Definition stats_eq (s : lstate) (t : fstate) : Prop :=
  l_hits s = f_hits t /\ l_misses s = f_misses t /\ l_invocations s = f_invocations t.

Definition Rel (maxsize : option nat) (typed : bool) (s : lstate) (t : fstate) : Prop :=
  match maxsize with
  | Some 0 =>         (* uncached on both sides; the implementation never touches its hit counter / cache *)
      f_recent t = [] /\ f_hits t = 0 /\ l_misses s = f_misses t /\ l_invocations s = f_invocations t
  | Some m =>         (* the recency list is the reverse of the OrderedDict *)
      stats_eq s t /\
      exists R, f_recent t = rev R /\ Forall2 (krel typed) (l_cache s) R /\
                kuniq (l_cache s) /\ length (l_cache s) <= m
  | None =>           (* same entries up to order and up to the choice of representative key *)
      stats_eq s t /\ kuniq (l_cache s) /\ kuniq (f_recent t) /\
      length (l_cache s) = length (f_recent t) /\
      forall c, c_find (asl_key typed c) (l_cache s) = c_find (std_key typed c) (f_recent t)
  end.

Lemma Rel_init : forall maxsize typed, Rel maxsize typed l_init f_init.
Proof.
  intros [[|m]|] typed; unfold Rel, stats_eq; simpl.
  - auto.
  - split; [auto|]. exists []. simpl. repeat split; auto. lia.
  - repeat split; auto.
Qed.

Lemma step_zero : forall typed s t op, Rel (Some 0) typed s t ->
  snd (l_do (Some 0) typed s op) = snd (f_do (Some 0) typed t op) /\
  Rel (Some 0) typed (fst (l_do (Some 0) typed s op)) (fst (f_do (Some 0) typed t op)).
Proof.
  intros typed [L h mi inv] [F h' mi' inv'] op H. unfold Rel in *. simpl in H.
  destruct H as (-> & -> & -> & ->). destruct op as [c fails| | |c]; simpl; auto.
Qed.

Lemma step_bounded : forall m typed s t op, Rel (Some (S m)) typed s t ->
  snd (l_do (Some (S m)) typed s op) = snd (f_do (Some (S m)) typed t op) /\
  Rel (Some (S m)) typed (fst (l_do (Some (S m)) typed s op)) (fst (f_do (Some (S m)) typed t op)).
Proof.
  intros m typed [L h mi inv] [F h' mi' inv'] op H. unfold Rel, stats_eq in *. simpl in H.
  destruct H as ((-> & -> & ->) & R & -> & HF & Hu & Hlen).
  assert (HuR : kuniq R) by (apply (krel_kuniq typed L R HF); exact Hu).
  assert (HlenR : length R = length L) by (symmetry; eapply F2_length; eauto).
  destruct op as [c fails| | |c]; simpl.
  - (* LCall *)
    rewrite (c_find_rev _ R HuR), <- (krel_find typed c L R HF).
    destruct (c_find (asl_key typed c) L) as [v|] eqn:E; simpl.
    + (* hit: move_to_end / move to front *)
      split; [reflexivity|]. split; [auto|].
      unfold move_to_end. rewrite E.
      exists (c_remove (std_key typed c) R ++ [(std_key typed c, v)]). repeat split.
      * rewrite rev_app_distr. simpl. now rewrite c_remove_rev.
      * apply Forall2_app; [now apply krel_remove|]. constructor; [apply krel_new|constructor].
      * now apply kuniq_move.
      * rewrite (length_move _ v v L E). exact Hlen.
    + destruct fails; simpl.
      * (* the wrapped function raises: nothing is stored *)
        split; [reflexivity|]. split; [auto|]. exists R. auto.
      * split; [reflexivity|]. split; [auto|]. rewrite Nat.sub_0_r.
        destruct (S m <=? length L) eqn:Em.
        -- (* full: popitem(last=False) / drop the least recently used *)
           apply Nat.leb_le in Em.
           destruct L as [|e L]; [simpl in Em; lia|]. destruct R as [|e' R]; [discriminate|].
           simpl in Em, Hlen, HlenR. injection HlenR as HlenR. assert (EL : length L = m) by lia.
           exists (R ++ [(std_key typed c, inv')]). simpl tl. repeat split.
           ++ rewrite rev_app_distr. simpl. f_equal.
              rewrite firstn_app, rev_length, HlenR, EL, Nat.sub_diag. simpl.
              rewrite app_nil_r. apply firstn_all2. rewrite rev_length. lia.
           ++ inversion HF; subst. apply Forall2_app; [assumption|]. constructor; [apply krel_new|constructor].
           ++ apply kuniq_snoc_iff. split; [apply (kuniq_tl _ Hu)|apply (c_find_tl_none _ _ E)].
           ++ rewrite app_length. simpl. lia.
        -- (* room left *)
           apply Nat.leb_gt in Em.
           exists (R ++ [(std_key typed c, inv')]). repeat split.
           ++ rewrite rev_app_distr. simpl. f_equal. apply firstn_all2. rewrite rev_length. lia.
           ++ apply Forall2_app; [assumption|]. constructor; [apply krel_new|constructor].
           ++ apply kuniq_snoc_iff. auto.
           ++ rewrite app_length. simpl. lia.
  - (* LClear *)
    split; [reflexivity|]. split; [auto|]. exists []. simpl. repeat split; auto. lia.
  - (* LInfo *)
    split; [now rewrite rev_length, HlenR|]. split; [auto|]. exists R. auto.
  - (* LDiscard *)
    split; [reflexivity|]. split; [auto|]. exists (c_remove (std_key typed c) R). repeat split.
    + now apply c_remove_rev.
    + now apply krel_remove.
    + now apply kuniq_remove.
    + rewrite length_c_remove. destruct (c_find (asl_key typed c) L); lia.
Qed.

Lemma step_none : forall typed s t op, Rel None typed s t ->
  snd (l_do None typed s op) = snd (f_do None typed t op) /\
  Rel None typed (fst (l_do None typed s op)) (fst (f_do None typed t op)).
Proof.
  intros typed [L h mi inv] [F h' mi' inv'] op H. unfold Rel, stats_eq in *. simpl in H.
  destruct H as ((-> & -> & ->) & Hu & HuF & Hlen & Hf).
  destruct op as [c fails| | |c]; simpl.
  - (* LCall *)
    rewrite <- (Hf c).
    destruct (c_find (asl_key typed c) L) as [v|] eqn:E; simpl.
    + (* hit *)
      split; [reflexivity|]. repeat split; auto.
      * apply c_find_remove_same; [assumption|apply ckey_eq_refl].
      * now apply kuniq_remove.
      * rewrite length_c_remove, <- (Hf c), E. destruct F; [|simpl in *; lia].
        rewrite Hf in E. discriminate.
      * intros c2. destruct (ckey_eq (std_key typed c2) (std_key typed c)) eqn:E2.
        -- rewrite <- key_classes in E2. now rewrite (c_find_congr _ _ L E2).
        -- rewrite (c_find_remove_other _ _ F E2). apply Hf.
    + destruct fails; simpl.
      * split; [reflexivity|]. repeat split; auto.
      * split; [reflexivity|]. repeat split; auto.
        -- apply kuniq_snoc_iff. auto.
        -- now rewrite <- (Hf c).
        -- rewrite app_length. simpl. lia.
        -- intros c2. rewrite c_find_app. simpl. rewrite (Hf c2), key_classes.
           destruct (ckey_eq (std_key typed c2) (std_key typed c)) eqn:E2; [|destruct (c_find (std_key typed c2) F); reflexivity].
           rewrite <- key_classes in E2. rewrite <- (Hf c2), (c_find_congr _ _ L E2), E. reflexivity.
  - split; [reflexivity|]. simpl. repeat split; auto.
  - split; [now rewrite Hlen|]. repeat split; auto.
  - split; [reflexivity|]. repeat split; auto.
    + now apply kuniq_remove.
    + now apply kuniq_remove.
    + rewrite !length_c_remove, <- (Hf c), Hlen. reflexivity.
    + intros c2. destruct (ckey_eq (asl_key typed c2) (asl_key typed c)) eqn:E2.
      * rewrite (c_find_remove_same _ _ L Hu E2). rewrite key_classes in E2.
        now rewrite (c_find_remove_same _ _ F HuF E2).
      * rewrite (c_find_remove_other _ _ L E2). rewrite key_classes in E2.
        rewrite (c_find_remove_other _ _ F E2). apply Hf.
Qed.

Lemma lru_step : forall maxsize typed s t op, Rel maxsize typed s t ->
  snd (l_do maxsize typed s op) = snd (f_do maxsize typed t op) /\
  Rel maxsize typed (fst (l_do maxsize typed s op)) (fst (f_do maxsize typed t op)).
Proof.
  intros [[|m]|] typed s t op H; [now apply step_zero|now apply step_bounded|now apply step_none].
Qed.

Lemma lru_run_rel : forall maxsize typed ops s t, Rel maxsize typed s t ->
  l_run maxsize typed s ops = f_run maxsize typed t ops.
Proof.
  intros maxsize typed ops. induction ops as [|op ops IH]; intros s t H; simpl; [reflexivity|].
  destruct (lru_step maxsize typed s t op H) as [Ho Hr].
  destruct (l_do maxsize typed s op) as [s' o], (f_do maxsize typed t op) as [t' o']. simpl in *.
  subst o'. f_equal. now apply IH.
Qed.

(* ---------- 2. the main theorem ---------- *)
Theorem lru_refines : forall maxsize typed ops,
  l_run maxsize typed l_init ops = f_run maxsize typed f_init ops.
Proof. intros. apply lru_run_rel, Rel_init. Qed.

(* through the decorator front-end: maxsize=None / any integer, negative ones meaning 0 *)
Corollary lru_refines_decorator : forall (m : option Z) typed ops,
  l_run (norm_maxsize m) typed l_init ops = f_run (norm_maxsize m) typed f_init ops.
Proof. intros. apply lru_refines. Qed.

(* ================= 3. corollaries on the implementation model ================= *)
Fixpoint l_exec (maxsize : option nat) (typed : bool) (s : lstate) (ops : list lop) : lstate :=
  match ops with [] => s | op :: r => l_exec maxsize typed (fst (l_do maxsize typed s op)) r end.
Definition l_reachable (maxsize : option nat) (typed : bool) (s : lstate) : Prop :=
  exists ops, s = l_exec maxsize typed l_init ops.

Definition l_inv (maxsize : option nat) (s : lstate) : Prop :=
  kuniq (l_cache s) /\ match maxsize with Some m => length (l_cache s) <= m | None => True end.

Lemma l_inv_step : forall maxsize typed s op, l_inv maxsize s -> l_inv maxsize (fst (l_do maxsize typed s op)).
Proof.
  intros maxsize typed [L h mi inv] op [Hu Hlen]. unfold l_inv in *. simpl in *.
  destruct op as [c fails| | |c]; simpl.
  - destruct maxsize as [[|m]|]; simpl.
    + auto.
    + destruct (c_find (asl_key typed c) L) as [v|] eqn:E; simpl.
      * unfold move_to_end. rewrite E. split; [now apply kuniq_move|]. now rewrite (length_move _ v v L E).
      * destruct fails; simpl; [auto|].
        destruct (S m <=? length L) eqn:Em.
        -- apply Nat.leb_le in Em.
           split; [apply kuniq_snoc_iff; split; [apply (kuniq_tl _ Hu)|apply (c_find_tl_none _ _ E)]|].
           destruct L; [simpl in Em; lia|]. simpl in *. rewrite app_length. simpl. lia.
        -- apply Nat.leb_gt in Em. split; [apply kuniq_snoc_iff; auto|]. rewrite app_length. simpl. lia.
    + destruct (c_find (asl_key typed c) L) as [v|] eqn:E; simpl; [auto|].
      destruct fails; simpl; [auto|]. split; [apply kuniq_snoc_iff; auto|auto].
  - destruct maxsize as [[|m]|]; simpl; auto. split; [auto|lia].
  - auto.
  - destruct maxsize as [[|m]|]; simpl; auto.
    + split; [now apply kuniq_remove|]. rewrite length_c_remove. destruct (c_find (asl_key typed c) L); lia.
    + split; [now apply kuniq_remove|auto].
Qed.

Lemma l_inv_exec : forall maxsize typed ops s, l_inv maxsize s -> l_inv maxsize (l_exec maxsize typed s ops).
Proof.
  intros maxsize typed ops. induction ops as [|op ops IH]; intros s H; simpl; [exact H|].
  apply IH. now apply l_inv_step.
Qed.

Lemma l_inv_reachable : forall maxsize typed s, l_reachable maxsize typed s -> l_inv maxsize s.
Proof.
  intros maxsize typed s [ops ->]. apply l_inv_exec. unfold l_inv. simpl. split; [exact I|].
  destruct maxsize; [lia|exact I].
Qed.

(* l_run is the list of observations along l_exec *)
Lemma l_run_app : forall maxsize typed ops1 ops2 s,
  l_run maxsize typed s (ops1 ++ ops2) =
  l_run maxsize typed s ops1 ++ l_run maxsize typed (l_exec maxsize typed s ops1) ops2.
Proof.
  intros maxsize typed ops1 ops2. induction ops1 as [|op ops1 IH]; intros s; simpl; [reflexivity|].
  destruct (l_do maxsize typed s op) as [s' o] eqn:E. simpl. now rewrite IH.
Qed.

(* a call whose wrapped function raises leaves the cache untouched and counts exactly one miss
   (any state, any variant) *)
Theorem errors_never_cached : forall maxsize typed s c fails,
  snd (l_do maxsize typed s (LCall c fails)) = LRaised ->
  let s' := fst (l_do maxsize typed s (LCall c fails)) in
  fails = true /\
  l_cache s' = l_cache s /\ l_misses s' = S (l_misses s) /\ l_hits s' = l_hits s /\
  l_invocations s' = S (l_invocations s).
Proof.
  intros [[|m]|] typed [L h mi inv] c fails; simpl.
  - destruct fails; simpl; [auto|discriminate].
  - destruct (c_find (asl_key typed c) L); simpl; [discriminate|]. destruct fails; simpl; [auto|discriminate].
  - destruct (c_find (asl_key typed c) L); simpl; [discriminate|]. destruct fails; simpl; [auto|discriminate].
Qed.
(* ... so the same call pattern is still absent afterwards and the next call runs the function again *)
Theorem errors_never_cached_absent : forall maxsize typed s c,
  maxsize <> Some 0 ->
  snd (l_do maxsize typed s (LCall c true)) = LRaised ->
  c_find (asl_key typed c) (l_cache (fst (l_do maxsize typed s (LCall c true)))) = None.
Proof.
  intros [[|m]|] typed [L h mi inv] c Hm; simpl; [congruence| |];
    destruct (c_find (asl_key typed c) L) eqn:E; simpl; try discriminate; auto.
Qed.

Theorem size_bounded : forall m typed s, l_reachable (Some m) typed s -> length (l_cache s) <= m.
Proof. intros m typed s H. exact (proj2 (l_inv_reachable _ _ _ H)). Qed.

Theorem keys_unique : forall maxsize typed s, l_reachable maxsize typed s -> kuniq (l_cache s).
Proof. intros maxsize typed s H. exact (proj1 (l_inv_reachable _ _ _ H)). Qed.
Corollary keys_unique_nth : forall maxsize typed s, l_reachable maxsize typed s ->
  forall i j e e', i <> j -> nth_error (l_cache s) i = Some e -> nth_error (l_cache s) j = Some e' ->
                   ckey_eq (fst e) (fst e') = false.
Proof. intros maxsize typed s H. apply kuniq_nth. eapply keys_unique; eauto. Qed.

Theorem discard_exact : forall maxsize typed s c, l_reachable maxsize typed s ->
  let k := asl_key typed c in
  let s' := fst (l_do maxsize typed s (LDiscard c)) in
  snd (l_do maxsize typed s (LDiscard c)) = LDone /\
  c_find k (l_cache s') = None /\
  (forall k', ckey_eq k' k = false -> c_find k' (l_cache s') = c_find k' (l_cache s)) /\
  ((c_find k (l_cache s) = None /\ l_cache s' = l_cache s) \/
   (exists l1 k0 v l2, l_cache s = l1 ++ (k0, v) :: l2 /\ l_cache s' = l1 ++ l2 /\ ckey_eq k k0 = true)) /\
  l_hits s' = l_hits s /\ l_misses s' = l_misses s /\ l_invocations s' = l_invocations s.
Proof.
  intros maxsize typed s c Hr. pose proof (l_inv_reachable _ _ _ Hr) as [Hu Hlen].
  destruct s as [L h mi inv]. simpl in *.
  assert (Hgen : c_find (asl_key typed c) (c_remove (asl_key typed c) L) = None /\
                 (forall k', ckey_eq k' (asl_key typed c) = false ->
                             c_find k' (c_remove (asl_key typed c) L) = c_find k' L) /\
                 ((c_find (asl_key typed c) L = None /\ c_remove (asl_key typed c) L = L) \/
                  (exists l1 k0 v l2, L = l1 ++ (k0, v) :: l2 /\ c_remove (asl_key typed c) L = l1 ++ l2 /\
                                      ckey_eq (asl_key typed c) k0 = true))).
  { split; [apply c_find_remove_same; [assumption|apply ckey_eq_refl]|].
    split; [intros k' Hk; now apply c_find_remove_other|].
    destruct (c_remove_shape (asl_key typed c) L) as [H|[l1 [k0 [v [l2 [H1 [H2 [H3 _]]]]]]]]; [left; exact H|].
    right. exists l1, k0, v, l2. auto. }
  destruct maxsize as [[|m]|]; simpl.
  - (* Some 0: the reachable cache is empty *)
    assert (L = []) by (destruct L; [reflexivity|simpl in Hlen; lia]). subst L. simpl.
    repeat split; auto.
  - destruct Hgen as (H1 & H2 & H3). repeat split; auto.
  - destruct Hgen as (H1 & H2 & H3). repeat split; auto.
Qed.

Theorem zero_disables : forall typed s,
  (forall c fails,
     snd (l_do (Some 0) typed s (LCall c fails)) = (if fails then LRaised else LRet (l_invocations s) true) /\
     l_invocations (fst (l_do (Some 0) typed s (LCall c fails))) = S (l_invocations s)) /\
  snd (l_do (Some 0) typed s LInfo) = LInfoIs 0 (l_misses s) (Some 0) 0 /\
  (l_reachable (Some 0) typed s -> l_cache s = []).
Proof.
  intros typed s. split; [intros c fails; simpl; auto|]. split; [reflexivity|].
  intros H. apply size_bounded in H. destruct (l_cache s); [reflexivity|simpl in H; lia].
Qed.
(* over whole histories: every LCall observation says "invoked" (or raised), every LInfo says currsize 0 *)
Definition obs_uncached (o : lobs) : bool :=
  match o with LRet _ invoked => invoked | LInfoIs h _ ms cs => Nat.eqb h 0 && Nat.eqb cs 0 | _ => true end.
Theorem zero_disables_run : forall typed ops s,
  forallb obs_uncached (l_run (Some 0) typed s ops) = true.
Proof.
  intros typed ops. induction ops as [|op ops IH]; intros s; [reflexivity|].
  destruct op as [c [|]| | |c]; simpl; apply IH.
Qed.

Theorem hit_returns_cached : forall maxsize typed s c fails v,
  maxsize <> Some 0 ->
  c_find (asl_key typed c) (l_cache s) = Some v ->
  let s' := fst (l_do maxsize typed s (LCall c fails)) in
  snd (l_do maxsize typed s (LCall c fails)) = LRet v false /\
  l_invocations s' = l_invocations s /\ l_hits s' = S (l_hits s) /\ l_misses s' = l_misses s /\
  length (l_cache s') = length (l_cache s).
Proof.
  intros [[|m]|] typed [L h mi inv] c fails v Hm E; simpl in *; [congruence| |]; rewrite E; simpl.
  - repeat split; auto. unfold move_to_end. rewrite E. apply (length_move _ v v L E).
  - repeat split; auto.
Qed.
(* on reachable states no side condition is needed (for maxsize 0 the cache is empty), and the entry
   stays cached with the same result *)
Theorem hit_returns_cached_reachable : forall maxsize typed s c fails v,
  l_reachable maxsize typed s ->
  c_find (asl_key typed c) (l_cache s) = Some v ->
  let s' := fst (l_do maxsize typed s (LCall c fails)) in
  snd (l_do maxsize typed s (LCall c fails)) = LRet v false /\
  l_invocations s' = l_invocations s /\
  c_find (asl_key typed c) (l_cache s') = Some v.
Proof.
  intros maxsize typed s c fails v Hr E. pose proof (l_inv_reachable _ _ _ Hr) as [Hu Hlen].
  destruct s as [L h mi inv]. simpl in *.
  destruct maxsize as [[|m]|]; simpl.
  - destruct L; [discriminate|simpl in Hlen; lia].
  - rewrite E. simpl. repeat split; auto.
    unfold move_to_end. rewrite E, c_find_app.
    rewrite (c_find_remove_same _ _ L Hu (ckey_eq_refl _)). simpl. now rewrite ckey_eq_refl.
  - rewrite E. simpl. auto.
Qed.

(* statistics after every prefix of the history: cache_info() agrees at every reachable pair of states *)
Fixpoint f_exec (maxsize : option nat) (typed : bool) (t : fstate) (ops : list lop) : fstate :=
  match ops with [] => t | op :: r => f_exec maxsize typed (fst (f_do maxsize typed t op)) r end.
Lemma Rel_exec : forall maxsize typed ops s t, Rel maxsize typed s t ->
  Rel maxsize typed (l_exec maxsize typed s ops) (f_exec maxsize typed t ops).
Proof.
  intros maxsize typed ops. induction ops as [|op ops IH]; intros s t H; simpl; [exact H|].
  apply IH. now apply lru_step.
Qed.
Theorem lru_refines_info : forall maxsize typed ops,
  snd (l_do maxsize typed (l_exec maxsize typed l_init ops) LInfo) =
  snd (f_do maxsize typed (f_exec maxsize typed f_init ops) LInfo).
Proof. intros. apply lru_step, Rel_exec, Rel_init. Qed.

(* ================= examples ================= *)
Definition call1 (v : pv) : lop := LCall (mkCall [v] []) false.
Definition hist1 : list lop :=
  [call1 (PInt 1); call1 (PFloat 2); call1 (PBool true); call1 (PInt 2); call1 (PInt 1); LInfo].

(* maxsize 2, calls 1, 1.0, True, 2, 1, then cache_info().  Untyped: 1 is a bare fast-path key, 1.0 and True
   share a wrapped entry (a hit), 2 evicts 1 (the least recently used), so the last call misses. *)
Example ex_untyped_2 :
  l_run (Some 2) false l_init hist1 =
    [LRet 0 true; LRet 1 true; LRet 1 false; LRet 2 true; LRet 3 true; LInfoIs 1 4 (Some 2) 2] /\
  f_run (Some 2) false f_init hist1 = l_run (Some 2) false l_init hist1 /\
  l_cache (l_exec (Some 2) false l_init hist1) = [(KFast (PInt 2), 2); (KFast (PInt 1), 3)].
Proof. vm_compute. auto. Qed.
(* typed: all five patterns are distinct *)
Example ex_typed_2 :
  l_run (Some 2) true l_init hist1 =
    [LRet 0 true; LRet 1 true; LRet 2 true; LRet 3 true; LRet 4 true; LInfoIs 0 5 (Some 2) 2] /\
  f_run (Some 2) true f_init hist1 = l_run (Some 2) true l_init hist1.
Proof. vm_compute. auto. Qed.
(* unbounded: nothing is evicted, the last call hits the very first entry *)
Example ex_untyped_none :
  l_run None false l_init hist1 =
    [LRet 0 true; LRet 1 true; LRet 1 false; LRet 2 true; LRet 0 false; LInfoIs 2 3 None 3] /\
  f_run None false f_init hist1 = l_run None false l_init hist1.
Proof. vm_compute. auto. Qed.
(* maxsize 0 (also any negative maxsize): every call runs the function; cache_clear resets the misses *)
Example ex_zero :
  l_run (norm_maxsize (Some (-3)%Z)) false l_init (hist1 ++ [LClear; LInfo]) =
    [LRet 0 true; LRet 1 true; LRet 2 true; LRet 3 true; LRet 4 true; LInfoIs 0 5 (Some 0) 0; LDone;
     LInfoIs 0 0 (Some 0) 0] /\
  f_run (Some 0) false f_init (hist1 ++ [LClear; LInfo]) = l_run (Some 0) false l_init (hist1 ++ [LClear; LInfo]).
Proof. vm_compute. auto. Qed.

(* keywords, failing calls, cache_discard, cache_clear *)
Definition kwc (a : list pv) (k : list (N * pv)) (f : bool) : lop := LCall (mkCall a k) f.
Definition hist2 : list lop :=
  [kwc [PInt 1] [(7%N, PStr 1)] false; kwc [PFloat 2] [(7%N, PStr 1)] false;
   kwc [PInt 5] [] true; kwc [PInt 5] [] true;           (* raises twice: never cached *)
   kwc [PInt 5] [] false; kwc [PInt 5] [] true;          (* now cached: the function is not run, nothing raised *)
   LInfo; LDiscard (mkCall [PBool true] [(7%N, PStr 1)]); LInfo;
   kwc [PInt 1] [(7%N, PStr 1)] false;
   kwc [] [(1%N, PInt 1); (2%N, PInt 2)] false; kwc [] [(2%N, PInt 2); (1%N, PInt 1)] false;   (* keyword order matters *)
   kwc [PInt 5] [] false; LInfo; LClear; LInfo; kwc [PInt 5] [] false].
Example ex_hist2_untyped :
  l_run (Some 2) false l_init hist2 =
    [LRet 0 true; LRet 0 false; LRaised; LRaised; LRet 3 true; LRet 3 false; LInfoIs 2 4 (Some 2) 2; LDone;
     LInfoIs 2 4 (Some 2) 1; LRet 4 true; LRet 5 true; LRet 6 true; LRet 7 true; LInfoIs 2 8 (Some 2) 2; LDone;
     LInfoIs 0 0 (Some 2) 0; LRet 8 true] /\
  f_run (Some 2) false f_init hist2 = l_run (Some 2) false l_init hist2.
Proof. vm_compute. auto. Qed.
Example ex_hist2_typed :
  l_run (Some 2) true l_init hist2 =
    [LRet 0 true; LRet 1 true; LRaised; LRaised; LRet 4 true; LRet 4 false; LInfoIs 1 5 (Some 2) 2; LDone;
     LInfoIs 1 5 (Some 2) 2; LRet 5 true; LRet 6 true; LRet 7 true; LRet 8 true; LInfoIs 1 9 (Some 2) 2; LDone;
     LInfoIs 0 0 (Some 2) 0; LRet 9 true] /\
  f_run (Some 2) true f_init hist2 = l_run (Some 2) true l_init hist2.
Proof. vm_compute. auto. Qed.
Example ex_hist2_none_typed :
  l_run None true l_init hist2 =
    [LRet 0 true; LRet 1 true; LRaised; LRaised; LRet 4 true; LRet 4 false; LInfoIs 1 5 None 3; LDone;
     LInfoIs 1 5 None 3; LRet 0 false; LRet 5 true; LRet 6 true; LRet 4 false; LInfoIs 3 7 None 5; LDone;
     LInfoIs 0 0 None 0; LRet 7 true] /\
  f_run None true f_init hist2 = l_run None true l_init hist2.
Proof. vm_compute. auto. Qed.
(* the refinement relation on a concrete pair of states: the recency list is the reversed OrderedDict *)
Example ex_rel_reverse :
  let t := fst (f_do (Some 2) false (mkF [(KFast (PInt 2), 2); (KWrapped [KVal (PBool true)], 1)] 1 3 3) (call1 (PInt 1))) in
  f_recent t = rev (l_cache (l_exec (Some 2) false l_init hist1)).
Proof. vm_compute. reflexivity. Qed.

Print Assumptions lru_refines.
Print Assumptions lru_refines_decorator.
Print Assumptions lru_refines_info.
Print Assumptions errors_never_cached.
Print Assumptions errors_never_cached_absent.
Print Assumptions size_bounded.
Print Assumptions keys_unique.
Print Assumptions keys_unique_nth.
Print Assumptions discard_exact.
Print Assumptions zero_disables.
Print Assumptions zero_disables_run.
Print Assumptions hit_returns_cached.
Print Assumptions hit_returns_cached_reachable.
