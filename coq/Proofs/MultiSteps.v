(* Step lemmas for worlds with several sources. *)
From Coq Require Import List ZArith NArith Bool Arith Lia.
Import ListNotations.
Require Import V.Kernel.Values V.Kernel.Monad V.Model.Builtins V.Proofs.Steps.

(* a fresh closable source, and a source that ran out *)
Definition fs (l : list val) : src := mkSrc l false 0 0 true.
Definition es : src := mkSrc [] true 0 0 true.

Lemma init_worldN xss : init_world xss None = W (map fs xss) [] 0.
Proof. reflexivity. Qed.

Lemma nth_mid {A} (pre : list A) s post d p : length pre = p -> nth p (pre ++ s :: post) d = s.
Proof. intros <-. apply nth_middle. Qed.
Lemma upd_mid {A} (pre : list A) s s' post p : length pre = p -> upd p s' (pre ++ s :: post) = pre ++ s' :: post.
Proof. intros <-. induction pre as [|h t IH]; simpl; [reflexivity|]. f_equal. exact IH. Qed.

Lemma pull_mid_item pre post p x l lg u : length pre = p ->
  pull p (W (pre ++ fs (x :: l) :: post) lg u)
  = (Ok (Some x), W (pre ++ fs l :: post) (EItem p x :: EPull p :: lg) (S u)).
Proof.
  intros Hp. erewrite pull_item by (apply nth_mid; exact Hp).
  rewrite upd_mid by exact Hp. reflexivity.
Qed.
Lemma pull_mid_end pre post p lg u : length pre = p ->
  pull p (W (pre ++ fs [] :: post) lg u)
  = (Ok None, W (pre ++ es :: post) (EEnd p :: EPull p :: lg) (S u)).
Proof.
  intros Hp. erewrite pull_end by (apply nth_mid; exact Hp).
  rewrite upd_mid by exact Hp. reflexivity.
Qed.

(* closing *)
Definition closed_src (s : src) : src :=
  if s_acl s then mkSrc (s_items s) (s_exh s) (S (s_closing s)) (S (s_closed s)) true else s.
Lemma released_closed s : released (closed_src s) = true.
Proof. unfold closed_src, released. destruct s as [l e c d a]; destruct a; cbn; rewrite ?orb_true_r; reflexivity. Qed.
Lemma closed_src_exh s : s_exh (closed_src s) = s_exh s.
Proof. unfold closed_src. destruct (s_acl s); reflexivity. Qed.

Definition only_closes (l : list event) : Prop := no_closes (rev l) = [].
Lemma only_closes_nil : only_closes [].
Proof. reflexivity. Qed.
Lemma only_closes_app a b : only_closes a -> only_closes b -> only_closes (a ++ b).
Proof. unfold only_closes. intros Ha Hb. rewrite rev_app_distr, no_closes_app, Ha, Hb. reflexivity. Qed.
Lemma only_closes_one i : only_closes [EClose i].
Proof. reflexivity. Qed.

Lemma close_mid pre s post p lg u : length pre = p -> exists cl u',
  close p (W (pre ++ s :: post) lg u) = (Ok tt, W (pre ++ closed_src s :: post) (cl ++ lg) u') /\ only_closes cl.
Proof.
  intros Hp. destruct s as [l e c d a]. destruct a.
  - exists [EClose p], (S u). split; [|apply only_closes_one].
    erewrite close_ok; [ | apply nth_mid; exact Hp | rewrite app_length; simpl; lia ].
    rewrite upd_mid by exact Hp. reflexivity.
  - exists [], u. split; [|apply only_closes_nil].
    unfold close, bind, get_src. cbn. rewrite (nth_mid pre _ post dead_src p Hp). reflexivity.
Qed.

Lemma close_all_seq : forall cur pre lg u, exists cl u',
  close_all (seq (length pre) (length cur)) (W (pre ++ cur) lg u)
  = (Ok tt, W (pre ++ map closed_src cur) (cl ++ lg) u') /\ only_closes cl.
Proof.
  induction cur as [|s cur IH]; intros pre lg u.
  - exists [], u. split; [reflexivity|apply only_closes_nil].
  - cbn [length seq close_all map].
    destruct (close_mid pre s cur (length pre) lg u eq_refl) as (cl1 & u1 & Hc & Hcl1).
    specialize (IH (pre ++ [closed_src s]) (cl1 ++ lg) u1).
    destruct IH as (cl2 & u2 & Hc2 & Hcl2).
    rewrite app_length in Hc2. cbn [length] in Hc2. rewrite Nat.add_1_r in Hc2.
    rewrite <- !app_assoc in Hc2. cbn [app] in Hc2.
    exists (cl2 ++ cl1), u2. split; [|apply only_closes_app; assumption].
    erewrite finally_ok; [ | exact Hc | discriminate | exact Hc2 ].
    rewrite <- app_assoc. reflexivity.
Qed.

Lemma all_released_closed ss : forallb released (map closed_src ss) = true.
Proof. induction ss as [|s ss IH]; cbn [map forallb]; [reflexivity|]. rewrite released_closed, IH. reflexivity. Qed.

(* traces without closes *)
Definition close_free (l : list event) : bool := forallb (fun e => negb (is_close e)) l.
Lemma close_free_app a b : close_free (a ++ b) = close_free a && close_free b.
Proof. apply forallb_app. Qed.
Lemma no_closes_free l : close_free l = true -> no_closes l = l.
Proof.
  intros H. apply no_closes_id. intros e He. unfold close_free in H. rewrite forallb_forall in H.
  specialize (H e He). destruct (is_close e); [discriminate|reflexivity].
Qed.
(* the log [cl ++ rev tr ++ lg0] seen oldest first, closes removed *)
Lemma no_closes_log cl tr : only_closes cl -> close_free tr = true ->
  no_closes (rev (cl ++ rev tr ++ [])) = tr.
Proof.
  intros Hcl Htr. rewrite app_nil_r, rev_app_distr, rev_involutive, no_closes_app.
  unfold only_closes in Hcl. rewrite Hcl, app_nil_r. apply no_closes_free; exact Htr.
Qed.
