(* C11 -> C10: the sequential machine [seq_do] of Proofs/LruConc.v (abstract keys [nat]) IS the sequential cache
   [l_do] of Model/Lru.v on calls: abstract key k stands for the call f(k) with the int argument k.
   Hence a task of the concurrent machine that runs alone from a reachable state behaves as Model/Lru.v's
   cache, and so (Proofs/Lru.v) as functools.lru_cache, from the current contents. *)
From Coq Require Import List ZArith NArith Bool Arith Lia.
From V Require Import Model.Lru Model.LruConc Proofs.LruKeys Proofs.Lru Proofs.LruConc.
Import ListNotations.
Local Arguments Nat.leb : simpl never.

(* ================= the embedding of abstract keys ================= *)
Definition call_of_key (k : nat) : call := mkCall [PInt (Z.of_nat k)] [].
Definition akey (typed : bool) (k : nat) : ckey := asl_key typed (call_of_key k).
Definition lop_of (op : qop) : lop :=
  match op with
  | QCall k fails => LCall (call_of_key k) fails
  | QClear => LClear
  | QDiscard k => LDiscard (call_of_key k)
  end.
(* QRet value hit  <->  LRet result invoked, with invoked = not hit.  QCancelled has no sequential
   counterpart (it is never a result of [seq_do], see [seq_do_not_cancelled]); it is sent to LDone. *)
Definition obs_of (r : qres) : lobs :=
  match r with
  | QRet v hit => LRet v (negb hit)
  | QRaised => LRaised
  | QDone | QCancelled => LDone
  end.
Definition amap (typed : bool) (c : list (nat * nat)) : list (ckey * nat) :=
  map (fun p => (akey typed (fst p), snd p)) c.
(* (cache, hits, misses, invocation list)  |->  lstate *)
Definition abs_state (typed : bool) (st : seq_state) : lstate :=
  let '(cache, hits, misses, invoked) := st in mkL (amap typed cache) hits misses (length invoked).

Lemma akey_untyped k : akey false k = KFast (PInt (Z.of_nat k)).
Proof. reflexivity. Qed.
Lemma akey_typed k : akey true k = KWrapped [KVal (PInt (Z.of_nat k)); KType TyInt].
Proof. reflexivity. Qed.
Lemma pv_eq_int a b : pv_eq (PInt a) (PInt b) = (a =? b)%Z.
Proof.
  change (pv_eq (PInt a) (PInt b)) with (2 * a =? 2 * b)%Z.
  destruct (Z.eqb_spec a b), (Z.eqb_spec (2 * a) (2 * b)); try reflexivity; lia.
Qed.
Lemma of_nat_eqb k k' : (Z.of_nat k =? Z.of_nat k')%Z = Nat.eqb k k'.
Proof. destruct (Z.eqb_spec (Z.of_nat k) (Z.of_nat k')), (Nat.eqb_spec k k'); try reflexivity; lia. Qed.

(* the embedding is faithful: two abstract keys are the same cache key iff they are the same number *)
Theorem akey_eq : forall typed k k', ckey_eq (akey typed k) (akey typed k') = Nat.eqb k k'.
Proof.
  intros [|] k k'.
  - rewrite !akey_typed. cbn [ckey_eq klist_eq kelem_eq pty_eqb]. rewrite pv_eq_int, of_nat_eqb, !andb_true_r. reflexivity.
  - rewrite !akey_untyped. cbn [ckey_eq type_of pty_eqb andb]. rewrite pv_eq_int. apply of_nat_eqb.
Qed.
Corollary call_of_key_eq : forall k k',
  ckey_eq (asl_key false (call_of_key k)) (asl_key false (call_of_key k')) = Nat.eqb k k'.
Proof. exact (akey_eq false). Qed.
(* the same holds for functools' key construction *)
Corollary std_key_of_key_eq : forall typed k k',
  ckey_eq (std_key typed (call_of_key k)) (std_key typed (call_of_key k')) = Nat.eqb k k'.
Proof. intros. rewrite <- key_classes. apply akey_eq. Qed.

(* ================= the association-list operations commute with the embedding ================= *)
Lemma amap_app typed a b : amap typed (a ++ b) = amap typed a ++ amap typed b.
Proof. apply map_app. Qed.
Lemma amap_tl typed c : amap typed (tl c) = tl (amap typed c).
Proof. destruct c; reflexivity. Qed.
Lemma amap_length typed c : length (amap typed c) = length c.
Proof. apply map_length. Qed.
Lemma c_find_amap typed k : forall c, c_find (akey typed k) (amap typed c) = qfind k c.
Proof.
  induction c as [|[k' v] c IH]; [reflexivity|]. cbn [amap map c_find qfind fst snd].
  rewrite akey_eq. fold (amap typed c). rewrite IH. reflexivity.
Qed.
(* c_remove deletes the first entry with the key, qremove all of them: the same when keys are unique *)
Lemma c_remove_amap typed k : forall c, NoDup (map fst c) ->
  c_remove (akey typed k) (amap typed c) = amap typed (qremove k c).
Proof.
  induction c as [|[k' v] c IH]; intros Hd; [reflexivity|].
  inversion Hd as [|? ? Hn Hd']; subst. cbn [amap map c_remove fst snd]. rewrite akey_eq. fold (amap typed c).
  unfold qremove. cbn [filter fst]. fold (qremove k c). rewrite (Nat.eqb_sym k' k).
  destruct (Nat.eqb_spec k k') as [<-|Hne]; cbn [negb].
  - rewrite qremove_notin_id by exact Hn. reflexivity.
  - cbn [amap map fst snd]. fold (amap typed (qremove k c)). rewrite <- (IH Hd'). reflexivity.
Qed.
Lemma kuniq_amap typed : forall c, NoDup (map fst c) -> kuniq (amap typed c).
Proof.
  induction c as [|[k v] c IH]; intros Hd; [exact I|].
  inversion Hd as [|? ? Hn Hd']; subst. cbn [amap map kuniq fst snd]. fold (amap typed c).
  split; [|apply IH, Hd']. rewrite c_find_amap. apply qfind_notin_none, Hn.
Qed.

(* ================= seq_do is l_do ================= *)
Lemma seq_do_not_cancelled : forall cfg st op, snd (seq_do cfg st op) <> QCancelled.
Proof.
  intros cfg [[[cache hits] misses] invoked] op. unfold seq_do.
  destruct op as [k f| |k]; destruct (q_maxsize cfg) as [[|m]|]; try destruct (qfind k cache); try destruct f;
    cbn [snd]; discriminate.
Qed.
(* on results other than QCancelled the translation of observations loses nothing *)
Lemma obs_of_inj : forall r r', r <> QCancelled -> r' <> QCancelled -> obs_of r = obs_of r' -> r = r'.
Proof.
  intros [v h| | |] [v' h'| | |] H H' E; try congruence; try discriminate E.
  cbn in E. injection E as -> E. destruct h, h'; try discriminate; reflexivity.
Qed.

Definition cache_of (st : seq_state) : list (nat * nat) := fst (fst (fst st)).

Lemma len_snoc (l : list nat) k : length (l ++ [k]) = S (length l).
Proof. rewrite app_length. cbn. lia. Qed.

Theorem seq_do_is_l_do : forall cfg typed st op,
  NoDup (map fst (cache_of st)) ->
  l_do (q_maxsize cfg) typed (abs_state typed st) (lop_of op)
  = (abs_state typed (fst (seq_do cfg st op)), obs_of (snd (seq_do cfg st op))).
Proof.
  intros cfg typed [[[cache hits] misses] invoked] op Hd. cbn [cache_of fst] in Hd.
  unfold seq_do, abs_state. destruct op as [k f| |k]; cbn [lop_of l_do].
  - (* call *)
    fold (akey typed k). cbn [l_cache l_hits l_misses l_invocations].
    destruct (q_maxsize cfg) as [[|m]|].
    + destruct f; cbn [fst snd obs_of negb]; rewrite len_snoc; reflexivity.
    + rewrite c_find_amap. destruct (qfind k cache) as [v|] eqn:Hf.
      * cbn [fst snd obs_of negb]. unfold move_to_end. rewrite c_find_amap, Hf, c_remove_amap by exact Hd.
        rewrite amap_app. reflexivity.
      * destruct f; cbn [fst snd obs_of negb]; rewrite len_snoc; [reflexivity|]. rewrite amap_length.
        destruct (Nat.leb (S m) (length cache)); rewrite amap_app, ?amap_tl; reflexivity.
    + rewrite c_find_amap. destruct (qfind k cache) as [v|] eqn:Hf; [reflexivity|].
      destruct f; cbn [fst snd obs_of negb]; rewrite len_snoc; [reflexivity|]. rewrite amap_app. reflexivity.
  - (* clear *)
    destruct (q_maxsize cfg) as [[|m]|]; reflexivity.
  - (* discard *)
    fold (akey typed k). cbn [l_cache l_hits l_misses l_invocations].
    destruct (q_maxsize cfg) as [[|m]|]; [reflexivity| |]; cbn [fst snd obs_of]; rewrite c_remove_amap by exact Hd; reflexivity.
Qed.

(* the hypothesis cannot be dropped: on a cache with a duplicated key (which the concurrent machine never
   produces, [keys_unique_conc]) the two machines differ, because qremove deletes every entry of the key and
   c_remove only the first *)
Theorem seq_do_is_l_do_without_nodup_refuted : exists cfg typed st op,
  l_do (q_maxsize cfg) typed (abs_state typed st) (lop_of op)
  <> (abs_state typed (fst (seq_do cfg st op)), obs_of (snd (seq_do cfg st op))).
Proof.
  exists (mkQCfg (Some 2) 0 []), false, ([(1, 0); (1, 1)], 0, 0, [1; 1]), (QDiscard 1).
  vm_compute. discriminate.
Qed.

(* ================= a task running alone is the sequential cache of Model/Lru.v ================= *)
(* what one completed operation of task t amounts to, in terms of Model/Lru.v *)
Definition l_op_result (typed : bool) (s : qstate) (t : nat) (s' : qstate) (L : lstate) (o : lobs) (rest : list qop) : Prop :=
  abs_state typed (qstate_of s') = L /\
  (exists r, q_results (qget s' t) = q_results (qget s t) ++ [r] /\ r <> QCancelled /\ obs_of r = o) /\
  q_script (qget s' t) = rest /\ q_pc (qget s' t) = pc_of rest /\
  (forall t', t' <> t -> qget s' t' = qget s t').

Theorem quiescent_conc_is_sequential_lru_gen : forall cfg typed s t op rest,
  q_pc (qget s t) = QIdle -> q_script (qget s t) = op :: rest ->
  (q_maxsize cfg = Some 0 -> q_cache s = []) -> NoDup (map fst (q_cache s)) ->
  let s' := qrun cfg s (repeat (QRun t) (seq_steps cfg (qstate_of s) op)) in
  let Lo := l_do (q_maxsize cfg) typed (abs_state typed (qstate_of s)) (lop_of op) in
  l_op_result typed s t s' (fst Lo) (snd Lo) rest.
Proof.
  intros cfg typed s t op rest Hpc Hs H0 Hd s' Lo.
  pose proof (conc_quiesces_to_seq cfg s t op rest Hpc Hs H0) as (R1 & R2 & R3 & R4 & R5). fold s' in R1, R2, R3, R4, R5.
  unfold Lo. rewrite (seq_do_is_l_do cfg typed (qstate_of s) op) by exact Hd. cbn [fst snd].
  unfold l_op_result. rewrite R1. split; [reflexivity|]. split; [|auto].
  eexists. split; [exact R2|]. split; [apply seq_do_not_cancelled|reflexivity].
Qed.

(* from any reachable state of the concurrent machine in which task t is idle, running its next operation
   alone behaves exactly as Model/Lru.v's l_do on the abstracted state *)
Theorem quiescent_conc_is_sequential_lru : forall cfg typed sched t op rest,
  let s := qexec cfg sched in
  q_pc (qget s t) = QIdle -> q_script (qget s t) = op :: rest ->
  let s' := qrun cfg s (repeat (QRun t) (seq_steps cfg (qstate_of s) op)) in
  let Lo := l_do (q_maxsize cfg) typed (abs_state typed (qstate_of s)) (lop_of op) in
  l_op_result typed s t s' (fst Lo) (snd Lo) rest.
Proof.
  intros cfg typed sched t op rest s Hpc Hs.
  apply quiescent_conc_is_sequential_lru_gen; [exact Hpc|exact Hs| |apply keys_unique_conc].
  intros Hm. apply size_zero_conc, Hm.
Qed.

(* ================= ... and hence functools.lru_cache from the current contents ================= *)
Definition smap (typed : bool) (c : list (nat * nat)) : list (ckey * nat) :=
  map (fun p => (std_key typed (call_of_key (fst p)), snd p)) c.
(* the functools cache with the same contents: most recently used first *)
Definition f_abs (maxsize : option nat) (typed : bool) (st : seq_state) : fstate :=
  let '(cache, hits, misses, invoked) := st in
  match maxsize with
  | Some 0 => mkF [] 0 misses (length invoked)
  | _ => mkF (rev (smap typed cache)) hits misses (length invoked)
  end.

Lemma krel_maps typed : forall c, Forall2 (krel typed) (amap typed c) (smap typed c).
Proof.
  induction c as [|[k v] c IH]; [constructor|]. constructor; [|exact IH].
  split; [reflexivity|]. exists (call_of_key k). split; reflexivity.
Qed.

(* the abstraction of a state with unique keys within the size bound is related, by the refinement relation
   of Proofs/Lru.v, to the functools cache with the same contents *)
Theorem Rel_abs : forall maxsize typed st,
  NoDup (map fst (cache_of st)) -> (forall m, maxsize = Some m -> length (cache_of st) <= m) ->
  Rel maxsize typed (abs_state typed st) (f_abs maxsize typed st).
Proof.
  intros maxsize typed [[[cache hits] misses] invoked] Hd Hb. cbn [cache_of fst] in Hd, Hb.
  pose proof (kuniq_amap typed cache Hd) as Hu. pose proof (krel_maps typed cache) as Hk.
  unfold Rel, f_abs, abs_state. destruct maxsize as [[|m]|].
  - cbn. auto.
  - split; [repeat split|]. exists (smap typed cache). cbn [f_recent l_cache].
    split; [reflexivity|]. split; [exact Hk|]. split; [exact Hu|]. rewrite amap_length. apply Hb. reflexivity.
  - cbn [f_recent l_cache]. assert (Hs : kuniq (smap typed cache)) by (apply (krel_kuniq typed _ _ Hk), Hu).
    split; [repeat split|]. split; [exact Hu|]. split; [apply kuniq_rev, Hs|].
    split; [unfold smap; rewrite rev_length, map_length; apply amap_length|].
    intros c. rewrite (c_find_rev _ _ Hs). apply krel_find, Hk.
Qed.
Corollary Rel_abs_reachable : forall cfg typed sched,
  Rel (q_maxsize cfg) typed (abs_state typed (qstate_of (qexec cfg sched)))
      (f_abs (q_maxsize cfg) typed (qstate_of (qexec cfg sched))).
Proof.
  intros cfg typed sched. apply Rel_abs; cbn [cache_of qstate_of fst].
  - apply keys_unique_conc.
  - intros m Hm. apply size_bounded_conc, Hm.
Qed.

(* the next operation of an idle task, run alone from a reachable state: its observation is the one
   functools.lru_cache gives from the same contents, and the resulting states are related again ... *)
Theorem quiescent_conc_is_functools : forall cfg typed sched t op rest,
  let s := qexec cfg sched in
  q_pc (qget s t) = QIdle -> q_script (qget s t) = op :: rest ->
  let s' := qrun cfg s (repeat (QRun t) (seq_steps cfg (qstate_of s) op)) in
  let Fo := f_do (q_maxsize cfg) typed (f_abs (q_maxsize cfg) typed (qstate_of s)) (lop_of op) in
  (exists r, q_results (qget s' t) = q_results (qget s t) ++ [r] /\ r <> QCancelled /\ obs_of r = snd Fo) /\
  Rel (q_maxsize cfg) typed (abs_state typed (qstate_of s')) (fst Fo).
Proof.
  intros cfg typed sched t op rest s Hpc Hs s' Fo.
  destruct (quiescent_conc_is_sequential_lru cfg typed sched t op rest Hpc Hs) as (R1 & (r & R2 & R3 & R4) & _).
  fold s s' in R1, R2, R4.
  destruct (lru_step (q_maxsize cfg) typed _ _ (lop_of op) (Rel_abs_reachable cfg typed sched)) as [Ho Hr].
  fold s in Ho, Hr. fold Fo in Ho, Hr. split.
  - exists r. split; [exact R2|]. split; [exact R3|]. rewrite R4. exact Ho.
  - rewrite R1. exact Hr.
Qed.
(* ... so any sequential history continued from there (on Model/Lru.v's cache) is observed exactly as
   functools.lru_cache would answer it *)
Corollary quiescent_conc_then_sequential_is_functools : forall cfg typed sched ops,
  let st := qstate_of (qexec cfg sched) in
  l_run (q_maxsize cfg) typed (abs_state typed st) ops = f_run (q_maxsize cfg) typed (f_abs (q_maxsize cfg) typed st) ops.
Proof. intros cfg typed sched ops st. apply lru_run_rel, Rel_abs_reachable. Qed.

(* the initial states correspond *)
Lemma abs_init : forall cfg typed, abs_state typed (qstate_of (q_init cfg)) = l_init.
Proof. reflexivity. Qed.

Example link_example :
  let cfg := mkQCfg (Some 2) 1 [[QCall 1 false]; [QCall 2 false; QCall 1 false; QCall 3 false; QDiscard 2]] in
  let s := qexec cfg [QRun 0; QRun 1; QRun 0; QRun 1] in
  (* both first calls overlapped and are stored; task 1 is idle and goes on alone: a hit on key 1 *)
  qstate_of s = ([(1, 0); (2, 1)], 0, 2, [1; 2])
  /\ l_do (Some 2) false (abs_state false (qstate_of s)) (lop_of (QCall 1 false))
     = (mkL [(KFast (PInt 2), 1); (KFast (PInt 1), 0)] 1 2 2, LRet 0 false)
  /\ q_results (qget (qrun cfg s [QRun 1]) 1) = [QRet 1 false; QRet 0 true].
Proof. vm_compute. repeat split. Qed.

Print Assumptions akey_eq.
Print Assumptions call_of_key_eq.
Print Assumptions std_key_of_key_eq.
Print Assumptions seq_do_is_l_do.
Print Assumptions seq_do_is_l_do_without_nodup_refuted.
Print Assumptions quiescent_conc_is_sequential_lru_gen.
Print Assumptions quiescent_conc_is_sequential_lru.
Print Assumptions Rel_abs.
Print Assumptions Rel_abs_reachable.
Print Assumptions quiescent_conc_is_functools.
Print Assumptions quiescent_conc_then_sequential_is_functools.
