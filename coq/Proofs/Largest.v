(* nlargest / nsmallest: the model returns the first n elements of the stable sort. *)
From Coq Require Import List ZArith NArith Bool Arith Lia Permutation Sorted.
Import ListNotations.
Require Import V.Kernel.Values V.Kernel.Monad V.Model.Builtins V.Model.Heapq V.Proofs.Steps
  V.Std.Heapq V.Proofs.HeapqBase.
Local Open Scope Z_scope.

(* ---------- the entry order, decided on integers ---------- *)
Definition sk (rv : bool) (z : Z) : Z := if rv then - z else z.
Definition G (rv : bool) (e : lent) : Z := sk rv (key_of (l_key e)).
Definition elt (rv : bool) (a b : lent) : bool :=
  if G rv a =? G rv b then l_ord a <? l_ord b else G rv a <? G rv b.
Definition ge (rv : bool) (a b : lent) : Prop := elt rv a b = false.
Definition okl (c : option N) (e : lent) : Prop := in_class c (l_key e) = true.

Lemma elt_true rv a b : elt rv a b = true <-> (G rv a < G rv b \/ (G rv a = G rv b /\ l_ord a < l_ord b)).
Proof. unfold elt. destruct (Z.eqb_spec (G rv a) (G rv b)); [rewrite Z.ltb_lt | rewrite Z.ltb_lt]; lia. Qed.
Lemma elt_false rv a b : elt rv a b = false <-> (G rv b < G rv a \/ (G rv a = G rv b /\ l_ord b <= l_ord a)).
Proof. unfold elt. destruct (Z.eqb_spec (G rv a) (G rv b)); [rewrite Z.ltb_ge | rewrite Z.ltb_ge]; lia. Qed.

Lemma ord_lt_ok c rv a b : in_class c a = true -> in_class c b = true ->
  ord_lt rv a b = Some (sk rv (key_of a) <? sk rv (key_of b)).
Proof.
  intros Ha Hb. unfold ord_lt, sk. destruct rv.
  - rewrite (py_lt_class c) by assumption. f_equal.
    destruct (Z.ltb_spec (key_of b) (key_of a)), (Z.ltb_spec (- key_of a) (- key_of b)); try reflexivity; lia.
  - apply (py_lt_class c); assumption.
Qed.
Lemma lent_lt_ok c rv a b : okl c a -> okl c b -> lent_lt rv a b = Some (elt rv a b).
Proof.
  unfold okl. intros Ha Hb. unfold lent_lt. rewrite (py_eq_class c) by assumption.
  rewrite (ord_lt_ok c) by assumption. unfold elt, G.
  destruct (Z.eqb_spec (key_of (l_key a)) (key_of (l_key b))) as [E|E],
           (Z.eqb_spec (sk rv (key_of (l_key a))) (sk rv (key_of (l_key b)))) as [E'|E']; try reflexivity;
  exfalso; unfold sk in E'; destruct rv; lia.
Qed.

(* pure versions of the heap operations *)
Fixpoint minl (rv : bool) (best : lent) (l : list lent) : lent :=
  match l with [] => best | e :: r => if elt rv e best then minl rv e r else minl rv best r end.
Fixpoint insd (rv : bool) (x : lent) (l : list lent) : list lent :=
  match l with [] => [x] | y :: r => if elt rv y x then x :: y :: r else y :: insd rv x r end.
Definition sortd (rv : bool) (l : list lent) : list lent := fold_right (insd rv) [] l.

Lemma min_lent_pure c rv : forall l best, okl c best -> Forall (okl c) l -> min_lent rv best l = Some (minl rv best l).
Proof.
  induction l as [|e r IH]; intros best Hb Hl; [reflexivity|]. inversion Hl as [|? ? He Hr]; subst.
  cbn [min_lent minl]. rewrite (lent_lt_ok c) by assumption. destruct (elt rv e best); apply IH; assumption.
Qed.
Lemma insd_perm rv x : forall l, Permutation (insd rv x l) (x :: l).
Proof.
  induction l as [|y r IH]; cbn [insd]; [reflexivity|]. destruct (elt rv y x); [reflexivity|].
  rewrite IH. apply perm_swap.
Qed.
Lemma sortd_perm rv : forall l, Permutation (sortd rv l) l.
Proof. induction l as [|x r IH]; cbn; [constructor|]. rewrite insd_perm. constructor. exact IH. Qed.
Lemma insert_desc_pure c rv x : forall l, okl c x -> Forall (okl c) l -> insert_desc rv x l = Some (insd rv x l).
Proof.
  induction l as [|y r IH]; intros Hx Hl; [reflexivity|]. inversion Hl as [|? ? Hy Hr]; subst.
  cbn [insert_desc insd]. rewrite (lent_lt_ok c) by assumption. destruct (elt rv y x); [reflexivity|].
  rewrite IH by assumption. reflexivity.
Qed.
Lemma sort_desc_pure c rv : forall l, Forall (okl c) l -> sort_desc rv l = Some (sortd rv l).
Proof.
  induction l as [|x r IH]; intros Hl; [reflexivity|]. inversion Hl as [|? ? Hx Hr]; subst.
  cbn [sort_desc sortd fold_right]. rewrite IH by assumption. apply (insert_desc_pure c); [assumption|].
  eapply Permutation_Forall; [symmetry; apply sortd_perm | assumption].
Qed.

Lemma minl_spec rv : forall l best,
  In (minl rv best l) (best :: l) /\ ge rv best (minl rv best l) /\ Forall (fun e => ge rv e (minl rv best l)) l.
Proof.
  unfold ge. induction l as [|e r IH]; intros best; cbn [minl].
  - split; [left; reflexivity|]. split; [|constructor]. apply elt_false. lia.
  - destruct (elt rv e best) eqn:Heb.
    + destruct (IH e) as (Hin & Hge & Hall). split; [right; exact Hin|].
      apply elt_true in Heb. rewrite elt_false in Hge. split.
      * apply elt_false. lia.
      * constructor; [apply elt_false; lia | exact Hall].
    + destruct (IH best) as (Hin & Hge & Hall). split; [destruct Hin as [<-|Hin]; [left; reflexivity | right; right; exact Hin]|].
      split; [exact Hge|]. constructor; [|exact Hall].
      rewrite elt_false in *. lia.
Qed.

Lemma ge_trans rv a b d : ge rv a b -> ge rv b d -> ge rv a d.
Proof. unfold ge. rewrite !elt_false. lia. Qed.

Lemma insd_sorted rv x : forall l, StronglySorted (ge rv) l -> StronglySorted (ge rv) (insd rv x l).
Proof.
  induction l as [|y r IH]; intros Hs; cbn [insd]; [repeat constructor|].
  inversion Hs as [|? ? Hr Hy]; subst. destruct (elt rv y x) eqn:Hyx.
  - constructor; [exact Hs|]. assert (Hxy : ge rv x y) by (unfold ge; apply elt_true in Hyx; apply elt_false; lia).
    constructor; [exact Hxy|]. eapply Forall_impl; [|exact Hy]. intros z Hz. eapply ge_trans; eassumption.
  - constructor; [apply IH; exact Hr|]. eapply Permutation_Forall; [symmetry; apply insd_perm|].
    constructor; [exact Hyx | exact Hy].
Qed.
Lemma sortd_sorted rv : forall l, StronglySorted (ge rv) (sortd rv l).
Proof. induction l as [|x r IH]; cbn; [constructor|]. apply insd_sorted, IH. Qed.

(* a list sorted by an antisymmetric (on its elements) preorder is determined by its elements *)
Lemma sorted_unique {A} (R : A -> A -> Prop) : forall l1 l2,
  StronglySorted R l1 -> StronglySorted R l2 -> Permutation l1 l2 ->
  (forall a b, In a l1 -> In b l1 -> R a b -> R b a -> a = b) -> l1 = l2.
Proof.
  induction l1 as [|x l1 IH]; intros l2 H1 H2 HP Hanti.
  - apply Permutation_nil in HP. subst; reflexivity.
  - destruct l2 as [|y l2]; [apply Permutation_sym, Permutation_nil in HP; discriminate|].
    inversion H1 as [|? ? H1' Hx]; subst. inversion H2 as [|? ? H2' Hy]; subst.
    assert (Exy : x = y).
    { assert (Hyin : In y (x :: l1)) by (eapply Permutation_in; [symmetry; exact HP | left; reflexivity]).
      assert (Hxin : In x (y :: l2)) by (eapply Permutation_in; [exact HP | left; reflexivity]).
      destruct Hyin as [E|Hyin]; [exact E|]. destruct Hxin as [E|Hxin]; [symmetry; exact E|].
      rewrite Forall_forall in Hx, Hy. apply Hanti; [left; reflexivity | right; exact Hyin | apply Hx, Hyin | apply Hy, Hxin]. }
    subst y. f_equal. apply IH; try assumption.
    + eapply Permutation_cons_inv; exact HP.
    + intros a b Ha Hb. apply Hanti; right; assumption.
Qed.

Lemma nodup_map_inj {A B} (f : A -> B) : forall l a b, NoDup (map f l) -> In a l -> In b l -> f a = f b -> a = b.
Proof.
  induction l as [|x l IH]; intros a b Hnd Ha Hb E; [destruct Ha|]. cbn in Hnd. inversion Hnd as [|? ? Hnot Hnd']; subst.
  destruct Ha as [<-|Ha], Hb as [<-|Hb]; try reflexivity.
  - exfalso. apply Hnot. rewrite E. apply in_map, Hb.
  - exfalso. apply Hnot. rewrite <- E. apply in_map, Ha.
  - apply IH; assumption.
Qed.
Lemma ge_antisym rv l a b : NoDup (map l_ord l) -> In a l -> In b l -> ge rv a b -> ge rv b a -> a = b.
Proof.
  unfold ge. rewrite !elt_false. intros Hnd Ha Hb H1 H2. eapply nodup_map_inj; try eassumption. lia.
Qed.

(* ---------- the stable sort on items, by an integer rank [g] (descending) ---------- *)
Fixpoint ins_front (g : val -> Z) (x : val) (l : list val) : list val :=
  match l with [] => [x] | y :: r => if g x <? g y then y :: ins_front g x r else x :: y :: r end.
Fixpoint ins_back (g : val -> Z) (x : val) (l : list val) : list val :=
  match l with [] => [x] | y :: r => if g x <=? g y then y :: ins_back g x r else x :: y :: r end.
Definition ssort (g : val -> Z) (l : list val) : list val := fold_right (ins_front g) [] l.
Definition gi (rv : bool) (key : option (list val -> val)) (x : val) : Z := sk rv (zkey key x).

Lemma ins_first_front rv key x : forall l, ins_first (sorts_before rv key) x l = ins_front (gi rv key) x l.
Proof.
  induction l as [|y r IH]; [reflexivity|]. cbn [ins_first ins_front]. rewrite IH.
  replace (sorts_before rv key y x) with (gi rv key x <? gi rv key y); [reflexivity|].
  unfold sorts_before, gi, sk. destruct rv; [|reflexivity].
  destruct (Z.ltb_spec (- zkey key x) (- zkey key y)), (Z.ltb_spec (zkey key y) (zkey key x)); try reflexivity; lia.
Qed.
Lemma stable_sort_ssort rv key : forall xs, stable_sort (sorts_before rv key) xs = ssort (gi rv key) xs.
Proof. unfold stable_sort, ssort. induction xs as [|x r IH]; [reflexivity|]. cbn [fold_right]. rewrite IH. apply ins_first_front. Qed.

Lemma ins_front_length g x : forall l, length (ins_front g x l) = S (length l).
Proof. induction l as [|y r IH]; [reflexivity|]. cbn [ins_front]. destruct (g x <? g y); cbn; [rewrite IH|]; reflexivity. Qed.
Lemma ins_back_length g x : forall l, length (ins_back g x l) = S (length l).
Proof. induction l as [|y r IH]; [reflexivity|]. cbn [ins_back]. destruct (g x <=? g y); cbn; [rewrite IH|]; reflexivity. Qed.
Lemma ssort_cons g x l : ssort g (x :: l) = ins_front g x (ssort g l).
Proof. reflexivity. Qed.
Lemma ssort_length g : forall l, length (ssort g l) = length l.
Proof. induction l as [|x r IH]; [reflexivity|]. rewrite ssort_cons, ins_front_length, IH. reflexivity. Qed.

Lemma ins_front_back g x y : forall s, ins_front g y (ins_back g x s) = ins_back g x (ins_front g y s).
Proof.
  induction s as [|z s IH]; cbn [ins_front ins_back].
  - destruct (Z.ltb_spec (g y) (g x)), (Z.leb_spec (g x) (g y)); try reflexivity; lia.
  - destruct (Z.leb_spec (g x) (g z)) as [Hxz|Hxz], (Z.ltb_spec (g y) (g z)) as [Hyz|Hyz]; cbn [ins_front ins_back].
    + destruct (Z.leb_spec (g x) (g z)), (Z.ltb_spec (g y) (g z)); try lia. rewrite IH. reflexivity.
    + destruct (Z.leb_spec (g x) (g z)), (Z.ltb_spec (g y) (g z)), (Z.leb_spec (g x) (g y)); try lia. reflexivity.
    + destruct (Z.leb_spec (g x) (g z)), (Z.ltb_spec (g y) (g z)), (Z.ltb_spec (g y) (g x)); try lia. reflexivity.
    + destruct (Z.leb_spec (g x) (g z)), (Z.ltb_spec (g y) (g z)), (Z.ltb_spec (g y) (g x)), (Z.leb_spec (g x) (g y)); try lia; reflexivity.
Qed.
Lemma ssort_snoc g x : forall l, ssort g (l ++ [x]) = ins_back g x (ssort g l).
Proof. induction l as [|y l IH]; [reflexivity|]. cbn [app]. rewrite !ssort_cons, IH. apply ins_front_back. Qed.
Lemma firstn_ins_back g x : forall l n, firstn n (ins_back g x l) = firstn n (ins_back g x (firstn n l)).
Proof.
  induction l as [|y r IH]; intros [|n]; try reflexivity. cbn [firstn ins_back].
  destruct (g x <=? g y).
  - cbn [firstn]. f_equal. apply IH.
  - cbn [firstn]. f_equal. change (y :: firstn n r) with (firstn (S n) (y :: r)).
    rewrite firstn_firstn. f_equal. lia.
Qed.
Lemma best_snoc g x n l : firstn n (ssort g (l ++ [x])) = firstn n (ins_back g x (firstn n (ssort g l))).
Proof. rewrite ssort_snoc. apply firstn_ins_back. Qed.

Lemma ins_back_all_ge g x : forall l, Forall (fun y => g x <= g y) l -> ins_back g x l = l ++ [x].
Proof.
  induction l as [|y r IH]; intros H; [reflexivity|]. inversion H as [|? ? Hy Hr]; subst. cbn [ins_back].
  destruct (Z.leb_spec (g x) (g y)); [|lia]. rewrite IH by assumption. reflexivity.
Qed.
Lemma ins_back_last g x y : g y < g x -> forall l, ins_back g x (l ++ [y]) = ins_back g x l ++ [y].
Proof.
  intros Hyx. induction l as [|z r IH]; cbn [ins_back app].
  - destruct (Z.leb_spec (g x) (g y)); [lia|reflexivity].
  - destruct (g x <=? g z); [rewrite IH|]; reflexivity.
Qed.

(* inserting an entry into a sorted list of entries = inserting its item into the list of items *)
Lemma insd_newest rv g (e : lent) : forall s,
  Forall (fun y => G rv y = g (l_item y) /\ l_ord e < l_ord y) s -> G rv e = g (l_item e) ->
  map l_item (insd rv e s) = ins_back g (l_item e) (map l_item s).
Proof.
  intros s Hs He. induction s as [|y r IH]; [reflexivity|]. inversion Hs as [|? ? [Hy Ho] Hr]; subst.
  cbn [insd map ins_back]. rewrite <- He, <- Hy.
  destruct (Z.leb_spec (G rv e) (G rv y)) as [H|H].
  - assert (E : elt rv y e = false) by (apply elt_false; lia). rewrite E. cbn [map]. rewrite IH by assumption. reflexivity.
  - assert (E : elt rv y e = true) by (apply elt_true; lia). rewrite E. reflexivity.
Qed.
Lemma insd_oldest rv g (e : lent) : forall s,
  Forall (fun y => G rv y = g (l_item y) /\ l_ord y < l_ord e) s -> G rv e = g (l_item e) ->
  map l_item (insd rv e s) = ins_front g (l_item e) (map l_item s).
Proof.
  intros s Hs He. induction s as [|y r IH]; [reflexivity|]. inversion Hs as [|? ? [Hy Ho] Hr]; subst.
  cbn [insd map ins_front]. rewrite <- He, <- Hy.
  destruct (Z.ltb_spec (G rv e) (G rv y)) as [H|H].
  - assert (E : elt rv y e = false) by (apply elt_false; lia). rewrite E. cbn [map]. rewrite IH by assumption. reflexivity.
  - assert (E : elt rv y e = true) by (apply elt_true; lia). rewrite E. reflexivity.
Qed.

(* ---------- the invariant of the replacement loop ---------- *)
Definition wf (c : option N) (key : option (list val -> val)) (no : Z) (e : lent) : Prop :=
  l_key e = kv key (l_item e) /\ in_class c (l_key e) = true /\ no < l_ord e.
(* the heap holds (in some order) the entries of the items [B], which are the best of the prefix seen;
   all order numbers are distinct and above the next one [no] *)
Definition Inv c rv key (B : list val) (heap : list lent) (no : Z) : Prop :=
  exists s, Permutation heap s /\ StronglySorted (ge rv) s /\ map l_item s = B /\
            Forall (wf c key no) s /\ NoDup (map l_ord s).

Definition lstep (rv : bool) (key : option (list val -> val)) (st : list lent * Z) (item : val) : list lent * Z :=
  match fst st with
  | [] => st
  | h :: t => if G rv (minl rv h t) <? gi rv key item
              then (replace_lent (minl rv h t) (mkLent (kv key item) (snd st) item) (fst st), snd st - 1)
              else st
  end.

Lemma wf_G c rv key no e : wf c key no e -> G rv e = gi rv key (l_item e).
Proof. intros (Hk & _ & _). unfold G, gi, zkey. rewrite Hk. reflexivity. Qed.

Lemma ss_snoc_inv {A} (R : A -> A -> Prop) m : forall l,
  StronglySorted R (l ++ [m]) -> StronglySorted R l /\ Forall (fun e => R e m) l.
Proof.
  induction l as [|x l IH]; intros H; [split; constructor|]. cbn in H. inversion H as [|? ? Hl Hx]; subst.
  destruct (IH Hl) as [IH1 IH2]. apply Forall_app in Hx. destruct Hx as [Hx1 Hx2]. inversion Hx2; subst.
  split; constructor; assumption.
Qed.
Lemma map_id_in {A} (f : A -> A) l : (forall a, In a l -> f a = a) -> map f l = l.
Proof. intros H. induction l as [|x l IH]; [reflexivity|]. cbn. rewrite H by (left; reflexivity). f_equal. apply IH. intros; apply H; right; assumption. Qed.
Lemma firstn_exact {A} (l1 l2 : list A) n : n = length l1 -> firstn n (l1 ++ l2) = l1.
Proof. intros ->. rewrite firstn_app, Nat.sub_diag, firstn_all. cbn. apply app_nil_r. Qed.

Lemma lstep_inv c rv key B heap no x :
  heap <> [] -> Inv c rv key B heap no -> in_class c (kv key x) = true ->
  Inv c rv key (firstn (length heap) (ins_back (gi rv key) x B))
      (fst (lstep rv key (heap, no) x)) (snd (lstep rv key (heap, no) x)).
Proof.
  intros Hne (s & HP & HS & HB & Hwf & Hnd) Hx.
  destruct heap as [|h t]; [congruence|].
  destruct (minl_spec rv t h) as (Hin & Hgeh & Hall).
  assert (Hmin : forall e, In e s -> ge rv e (minl rv h t)).
  { intros e He. apply (Permutation_in _ (Permutation_sym HP)) in He. destruct He as [<-|He]; [exact Hgeh|].
    rewrite Forall_forall in Hall. apply Hall, He. }
  assert (Hsne : s <> []) by (intros ->; apply Permutation_sym, Permutation_nil in HP; discriminate).
  destruct (exists_last Hsne) as (s0 & m & Es). subst s. subst B.
  destruct (ss_snoc_inv _ _ _ HS) as [HS0 Hs0m].
  assert (Em : minl rv h t = m).
  { apply (ge_antisym rv (s0 ++ [m])); try assumption.
    - eapply Permutation_in; [exact HP | exact Hin].
    - apply in_or_app; right; left; reflexivity.
    - assert (Hi : In (minl rv h t) (s0 ++ [m])) by (eapply Permutation_in; [exact HP | exact Hin]).
      apply in_app_or in Hi. destruct Hi as [Hi|[<-|[]]].
      + rewrite Forall_forall in Hs0m. apply Hs0m, Hi.
      + unfold ge. apply elt_false. lia.
    - apply Hmin. apply in_or_app; right; left; reflexivity. }
  assert (Hlen : length (h :: t) = S (length s0)).
  { rewrite (Permutation_length HP), app_length. cbn. lia. }
  apply Forall_app in Hwf. destruct Hwf as [Hwf0 Hwfm]. pose proof (Forall_inv Hwfm) as Hwm.
  rewrite map_app in Hnd. cbn [map] in Hnd.
  assert (Hnd0 : NoDup (map l_ord s0)) by (apply NoDup_remove_1 in Hnd; rewrite app_nil_r in Hnd; exact Hnd).
  assert (Hnot : ~ In (l_ord m) (map l_ord s0)) by (apply NoDup_remove_2 in Hnd; rewrite app_nil_r in Hnd; exact Hnd).
  unfold lstep. cbn [fst snd]. rewrite Em. rewrite map_app. cbn [map].
  destruct (Z.ltb_spec (G rv m) (gi rv key x)) as [Hlt|Hnlt]; cbn [fst snd].
  - set (new := mkLent (kv key x) no x).
    assert (Hnew : G rv new = gi rv key (l_item new)) by reflexivity.
    exists (insd rv new s0). split; [|split; [|split; [|split]]].
    + unfold replace_lent. rewrite (Permutation_map _ HP), map_app. cbn [map]. rewrite Z.eqb_refl.
      rewrite map_id_in.
      * rewrite insd_perm. rewrite Permutation_app_comm. reflexivity.
      * intros e He. destruct (Z.eqb_spec (l_ord e) (l_ord m)) as [E|E]; [|reflexivity].
        exfalso. apply Hnot. rewrite <- E. apply in_map, He.
    + apply insd_sorted, HS0.
    + rewrite (insd_newest rv (gi rv key)); [| |exact Hnew].
      * cbn [l_item new]. rewrite ins_back_last.
        -- symmetry. apply firstn_exact. rewrite ins_back_length, map_length. exact Hlen.
        -- rewrite <- (wf_G c rv key no m Hwm). exact Hlt.
      * eapply Forall_impl; [|exact Hwf0]. intros e He. split; [eapply wf_G; exact He|].
        destruct He as (_ & _ & He). exact He.
    + eapply Permutation_Forall; [symmetry; apply insd_perm|]. constructor.
      * split; [reflexivity|]. split; [exact Hx|]. cbn. lia.
      * eapply Forall_impl; [|exact Hwf0]. intros e (H1 & H2 & H3). split; [exact H1|]. split; [exact H2|]. lia.
    + eapply Permutation_NoDup; [apply Permutation_map; symmetry; apply insd_perm|]. cbn [map]. constructor; [|exact Hnd0].
      cbn. intros Hi. apply in_map_iff in Hi. destruct Hi as (e & Ee & He).
      rewrite Forall_forall in Hwf0. destruct (Hwf0 e He) as (_ & _ & Ho). lia.
  - exists (s0 ++ [m]). split; [exact HP|]. split; [exact HS|]. split; [|split].
    + rewrite map_app. cbn [map]. symmetry. rewrite ins_back_all_ge.
      * apply firstn_exact. rewrite Hlen, app_length, map_length. cbn [length]. lia.
      * change [l_item m] with (map l_item [m]). rewrite <- map_app. apply Forall_forall. intros y Hy. apply in_map_iff in Hy. destruct Hy as (e & <- & He).
        assert (Hwe : wf c key no e).
        { apply in_app_or in He. destruct He as [He|[<-|[]]]; [|exact Hwm]. rewrite Forall_forall in Hwf0. apply Hwf0, He. }
        rewrite <- (wf_G c rv key no e Hwe).
        assert (Hge : ge rv e m) by (rewrite <- Em; apply Hmin, He).
        unfold ge in Hge. rewrite elt_false in Hge. lia.
    + apply Forall_app. split; assumption.
    + rewrite map_app. exact Hnd.
Qed.

Lemma lstep_shape rv key heap no x :
  heap <> [] -> fst (lstep rv key (heap, no) x) <> [] /\ length (fst (lstep rv key (heap, no) x)) = length heap.
Proof.
  intros Hne. destruct heap as [|h t]; [congruence|]. unfold lstep. cbn [fst snd].
  destruct (G rv (minl rv h t) <? gi rv key x); cbn [fst]; [|split; [discriminate|reflexivity]].
  unfold replace_lent. split; [cbn; discriminate | apply map_length].
Qed.
Lemma lstep_okl c rv key st x :
  Forall (okl c) (fst st) -> in_class c (kv key x) = true -> Forall (okl c) (fst (lstep rv key st x)).
Proof.
  intros Hh Hx. unfold lstep. destruct (fst st) as [|h t] eqn:Eh; [rewrite Eh; constructor|].
  destruct (G rv (minl rv h t) <? gi rv key x); cbn [fst]; [|rewrite Eh; exact Hh].
  unfold replace_lent. apply Forall_forall. intros e He. apply in_map_iff in He. destruct He as (e0 & <- & He0).
  destruct (l_ord e0 =? l_ord (minl rv h t)); [exact Hx|]. rewrite Forall_forall in Hh. apply Hh, He0.
Qed.
Lemma fold_okl c rv key : forall xs st,
  Forall (okl c) (fst st) -> forallb (in_class c) (map (kv key) xs) = true ->
  Forall (okl c) (fst (fold_left (lstep rv key) xs st)).
Proof.
  induction xs as [|x r IH]; intros st Hh Hxs; [exact Hh|]. cbn in Hxs. apply andb_prop in Hxs. destruct Hxs as [Hx Hr].
  cbn [fold_left]. apply IH; [|exact Hr]. apply lstep_okl; assumption.
Qed.

Lemma fold_inv c rv key n : forall rest pre heap no,
  heap <> [] -> length heap = n -> Inv c rv key (firstn n (ssort (gi rv key) pre)) heap no ->
  forallb (in_class c) (map (kv key) rest) = true ->
  Inv c rv key (firstn n (ssort (gi rv key) (pre ++ rest)))
      (fst (fold_left (lstep rv key) rest (heap, no))) (snd (fold_left (lstep rv key) rest (heap, no))).
Proof.
  induction rest as [|x r IH]; intros pre heap no Hne Hlen HI Hr.
  - rewrite app_nil_r. exact HI.
  - cbn in Hr. apply andb_prop in Hr. destruct Hr as [Hx Hr]. cbn [fold_left].
    destruct (lstep_shape rv key heap no x Hne) as [Hne' Hlen'].
    pose proof (lstep_inv c rv key _ heap no x Hne HI Hx) as HI'.
    destruct (lstep rv key (heap, no) x) as [heap' no'] eqn:E. cbn [fst snd] in *.
    replace (pre ++ x :: r) with ((pre ++ [x]) ++ r) by (rewrite <- app_assoc; reflexivity).
    apply IH; try assumption; [congruence|]. rewrite best_snoc. rewrite <- Hlen in *. exact HI'.
Qed.

Lemma inv_result c rv key B heap no : Inv c rv key B heap no -> map l_item (sortd rv heap) = B.
Proof.
  intros (s & HP & HS & HB & Hwf & Hnd). rewrite <- HB. f_equal.
  assert (HP' : Permutation (sortd rv heap) s) by (rewrite sortd_perm; exact HP).
  apply (sorted_unique (ge rv)); [apply sortd_sorted | exact HS | exact HP' |].
  intros a b Ha Hb. apply (ge_antisym rv (sortd rv heap)); try assumption.
  eapply Permutation_NoDup; [apply Permutation_map; symmetry; exact HP' | exact Hnd].
Qed.

(* ---------- the fill phase ---------- *)
Fixpoint entries (key : option (list val -> val)) (idx : Z) (l : list val) : list lent :=
  match l with [] => [] | x :: r => mkLent (kv key x) (- idx) x :: entries key (idx + 1) r end.

Lemma entries_inv c rv key : forall l idx, forallb (in_class c) (map (kv key) l) = true ->
  map l_item (sortd rv (entries key idx l)) = ssort (gi rv key) l /\
  Forall (fun e => l_key e = kv key (l_item e) /\ in_class c (l_key e) = true /\
                   - (idx + Z.of_nat (length l)) < l_ord e <= - idx) (entries key idx l) /\
  NoDup (map l_ord (entries key idx l)).
Proof.
  induction l as [|x r IH]; intros idx Hl.
  - split; [reflexivity|]. split; constructor.
  - cbn in Hl. apply andb_prop in Hl. destruct Hl as [Hx Hr].
    destruct (IH (idx + 1) Hr) as (IH1 & IH2 & IH3). cbn [entries].
    set (e := mkLent (kv key x) (- idx) x). split; [|split].
    + cbn [sortd fold_right]. fold (sortd rv (entries key (idx + 1) r)).
      rewrite (insd_oldest rv (gi rv key)); [rewrite IH1; reflexivity | | reflexivity].
      eapply Permutation_Forall; [symmetry; apply sortd_perm|]. eapply Forall_impl; [|exact IH2].
      intros y (Hk & _ & Ho). split; [unfold G, gi, zkey; rewrite Hk; reflexivity | cbn; lia].
    + constructor.
      * split; [reflexivity|]. split; [exact Hx|]. cbn [l_ord e length]. lia.
      * eapply Forall_impl; [|exact IH2]. intros y (Hk & Hc & Ho). split; [exact Hk|]. split; [exact Hc|].
        cbn [length]. lia.
    + cbn [map]. constructor; [|exact IH3]. intros Hi. apply in_map_iff in Hi. destruct Hi as (y & Ey & Hy).
      rewrite Forall_forall in IH2. destruct (IH2 y Hy) as (_ & _ & Ho). cbn in Ey. lia.
Qed.
Lemma entries_Inv c rv key l no : forallb (in_class c) (map (kv key) l) = true ->
  no <= - Z.of_nat (length l) -> Inv c rv key (ssort (gi rv key) l) (entries key 0 l) no.
Proof.
  intros Hl Hno. destruct (entries_inv c rv key l 0 Hl) as (H1 & H2 & H3).
  exists (sortd rv (entries key 0 l)). split; [symmetry; apply sortd_perm|]. split; [apply sortd_sorted|].
  split; [exact H1|]. split.
  - eapply Permutation_Forall; [symmetry; apply sortd_perm|]. eapply Forall_impl; [|exact H2].
    intros e (Hk & Hc & Ho). split; [exact Hk|]. split; [exact Hc|]. lia.
  - eapply Permutation_NoDup; [apply Permutation_map; symmetry; apply sortd_perm | exact H3].
Qed.
Lemma entries_okl c key : forall l idx, forallb (in_class c) (map (kv key) l) = true -> Forall (okl c) (entries key idx l).
Proof.
  induction l as [|x r IH]; intros idx Hl; [constructor|]. cbn in Hl. apply andb_prop in Hl. destruct Hl as [Hx Hr].
  cbn [entries]. constructor; [exact Hx | apply IH, Hr].
Qed.
Lemma entries_length key : forall l idx, length (entries key idx l) = length l.
Proof. induction l as [|x r IH]; intros idx; [reflexivity|]. cbn. rewrite IH. reflexivity. Qed.

(* the pure content of the theorem *)
Lemma largest_pure c rv key (n : nat) (no : Z) xs :
  forallb (in_class c) (map (kv key) xs) = true -> entries key 0 (firstn n xs) <> [] -> no <= - Z.of_nat n ->
  map l_item (sortd rv (fst (fold_left (lstep rv key) (skipn n xs) (entries key 0 (firstn n xs), no))))
  = firstn n (ssort (gi rv key) xs).
Proof.
  intros Hxs Hne Hno. rewrite <- (firstn_skipn n xs) in Hxs. rewrite map_app in Hxs.
  apply forallb_app_inv in Hxs. destruct Hxs as [Hpre Hrest].
  set (m := length (firstn n xs)).
  assert (Hm : (m <= n)%nat) by apply firstn_le_length.
  pose proof (fold_inv c rv key m (skipn n xs) (firstn n xs) (entries key 0 (firstn n xs)) no Hne
                (entries_length _ _ _)) as HI.
  rewrite firstn_skipn in HI. eapply inv_result in HI.
  - rewrite HI. destruct (Nat.le_gt_cases n (length xs)) as [Hle|Hgt].
    + unfold m. rewrite firstn_length_le by exact Hle. reflexivity.
    + unfold m. rewrite firstn_all2 with (n := n) (l := xs) by lia.
      rewrite !firstn_all2; [reflexivity | rewrite ssort_length; lia | rewrite ssort_length; lia].
  - rewrite firstn_all2 by (rewrite ssort_length; reflexivity).
    apply entries_Inv; [exact Hpre|]. fold m. lia.
  - exact Hrest.
Qed.

(* ---------- running the model ---------- *)
Notation Wend lg u := (W [mkSrc [] true 0 0 true] lg u).

Definition lbody (rv : bool) (key : option (list val -> val)) : list lent * Z -> val -> M (list lent * Z * bool) :=
  fun (st : list lent * Z) item =>
    ik <- keyof key item ;;
    match fst st with
    | [] => ret (st, true)
    | h :: t =>
        match min_lent rv h t with
        | None => raise XTypeError
        | Some worst =>
            c <- lift_lt (ord_lt rv (l_key worst) ik) ;;
            ret (if c then (replace_lent worst (mkLent ik (snd st) item) (fst st), (snd st - 1)%Z)
                 else st, true)
        end
    end.

Lemma lbody_run c rv key st x xs lg u : Forall (okl c) (fst st) -> in_class c (kv key x) = true ->
  exists lg' u', lbody rv key st x (W1 xs lg u) = (Ok (lstep rv key st x, true), W1 xs lg' u').
Proof.
  intros Hh Hx. unfold lbody, lstep. rewrite bind_keyof1. destruct (fst st) as [|h t] eqn:Eh.
  - eexists; eexists; reflexivity.
  - inversion Hh as [|? ? Hokh Hokt]; subst.
    rewrite (min_lent_pure c) by assumption.
    assert (Hw : okl c (minl rv h t)).
    { destruct (minl_spec rv t h) as (Hin & _ & _). destruct Hin as [<-|Hin]; [exact Hokh|].
      rewrite Forall_forall in Hokt. apply Hokt, Hin. }
    rewrite (ord_lt_ok c) by assumption. cbn [lift_lt]. rewrite bind_ret.
    eexists; eexists. unfold G, gi, zkey. reflexivity.
Qed.

Lemma largest_iter c rv key : forall xs fuel st lg u,
  (length xs < fuel)%nat -> Forall (okl c) (fst st) -> forallb (in_class c) (map (kv key) xs) = true ->
  exists lg' u', iter_src fuel 0 (lbody rv key) st (W1 xs lg u)
                 = (Ok (fold_left (lstep rv key) xs st, false), Wend lg' u').
Proof.
  induction xs as [|x r IH]; intros fuel st lg u Hf Hh Hxs; destruct fuel as [|f]; try (cbn in Hf; lia).
  - cbn [iter_src]. rewrite bind_pull1_end. eexists; eexists; reflexivity.
  - cbn in Hxs. apply andb_prop in Hxs. destruct Hxs as [Hx Hr].
    cbn [iter_src]. rewrite bind_pull1_item.
    destruct (lbody_run c rv key st x r (EItem 0 x :: EPull 0 :: lg) (S u) Hh Hx) as (lg1 & u1 & Hb).
    rewrite (bind_ok _ _ _ _ _ Hb). cbn [snd fst fold_left].
    apply IH; [cbn in Hf; lia | apply lstep_okl; assumption | exact Hr].
Qed.

Lemma fill_run key : forall n xs idx lg u, exists lg' u',
  largest_fill n idx key (W1 xs lg u)
  = (Ok (entries key idx (firstn n xs)), if (n <=? length xs)%nat then W1 (skipn n xs) lg' u' else Wend lg' u').
Proof.
  induction n as [|n IH]; intros xs idx lg u.
  - exists lg, u. reflexivity.
  - destruct xs as [|x r]; cbn [largest_fill].
    + rewrite bind_pull1_end. eexists; eexists; reflexivity.
    + rewrite bind_pull1_item, bind_keyof1.
      destruct (IH r (idx + 1) (rev (key_call key x) ++ EItem 0 x :: EPull 0 :: lg) (length (key_call key x) + S u)%nat)
        as (lg' & u' & Hr).
      rewrite (bind_ok _ _ _ _ _ Hr). exists lg', u'. reflexivity.
Qed.

Lemma loop_run c rv key (k : nat) xs st lg u :
  Forall (okl c) (fst st) -> forallb (in_class c) (map (kv key) xs) = true ->
  exists lg' u', loop_src 0 (lbody rv key) st (if (k <=? length xs)%nat then W1 (skipn k xs) lg u else Wend lg u)
                 = (Ok (fold_left (lstep rv key) (skipn k xs) st, false), Wend lg' u').
Proof.
  intros Hh Hxs. destruct (Nat.leb_spec k (length xs)) as [Hle|Hgt].
  - rewrite loop_src_eq, items_left1. apply (largest_iter c); [lia | exact Hh |].
    rewrite <- (firstn_skipn k xs), map_app in Hxs. apply forallb_app_inv in Hxs. apply Hxs.
  - rewrite skipn_all2 by lia. eexists; eexists; reflexivity.
Qed.

Lemma largest_run c n key rv xs :
  orderable c key xs = true ->
  exists w', a_largest n key rv (init_world [xs] None) = (Ok (VList (spec_largest n key rv xs)), w')
             /\ all_released w' = true.
Proof.
  unfold orderable. intros Hxs. rewrite init_world1. unfold a_largest, spec_largest. rewrite stable_sort_ssort.
  set (k := Z.to_nat n).
  destruct (fill_run key k xs 0 [] 0%nat) as (lg1 & u1 & Hfill).
  destruct (entries key 0 (firstn k xs)) as [|e0 rest0] eqn:E.
  - assert (Hnil : firstn k (ssort (gi rv key) xs) = []).
    { apply length_zero_iff_nil. rewrite firstn_length, ssort_length, <- firstn_length.
      rewrite <- (entries_length key _ 0), E. reflexivity. }
    rewrite Hnil.
    destruct (k <=? length xs)%nat.
    + eexists. split.
      * eapply finally_ok; [rewrite (bind_ok _ _ _ _ _ Hfill); reflexivity | discriminate | reflexivity].
      * reflexivity.
    + eexists. split.
      * eapply finally_ok; [rewrite (bind_ok _ _ _ _ _ Hfill); reflexivity | discriminate | reflexivity].
      * reflexivity.
  - assert (Hne : entries key 0 (firstn k xs) <> []) by (rewrite E; discriminate).
    assert (Hk : (- n <= - Z.of_nat k)%Z).
    { destruct (Z.le_gt_cases 0 n) as [H0|H0]; [unfold k; rewrite Z2Nat.id by exact H0; lia|].
      exfalso. apply Hne. unfold k. destruct n as [|p|p]; try lia. reflexivity. }
    assert (Hpre : forallb (in_class c) (map (kv key) (firstn k xs)) = true).
    { rewrite <- (firstn_skipn k xs), map_app in Hxs. apply forallb_app_inv in Hxs. apply Hxs. }
    assert (Hok0 : Forall (okl c) (fst (entries key 0 (firstn k xs), (- n)%Z))) by (apply entries_okl, Hpre).
    destruct (loop_run c rv key k xs _ lg1 u1 Hok0 Hxs) as (lg2 & u2 & Hloop).
    eexists. split.
    + apply scoped1_exhausted. rewrite (bind_ok _ _ _ _ _ Hfill). rewrite <- E.
      unfold lbody in Hloop. rewrite (bind_ok _ _ _ _ _ Hloop). cbn [fst].
      rewrite (sort_desc_pure c) by (apply (fold_okl c); [exact Hok0 | rewrite <- (firstn_skipn k xs), map_app in Hxs; apply forallb_app_inv in Hxs; apply Hxs]).
      rewrite (largest_pure c) by assumption. reflexivity.
    + reflexivity.
Qed.

(* ---------- the theorems ---------- *)
Theorem largest_spec : forall c n key reverse xs,
  orderable c key xs = true ->
  fst (a_largest n key reverse (init_world [xs] None)) = Ok (VList (spec_largest n key reverse xs)) /\
  all_released (snd (a_largest n key reverse (init_world [xs] None))) = true.
Proof.
  intros c n key rv xs Hxs. destruct (largest_run c n key rv xs Hxs) as (w' & -> & Hrel). split; [reflexivity | exact Hrel].
Qed.
Corollary nlargest_spec : forall c n key xs,
  orderable c key xs = true ->
  fst (a_nlargest n key (init_world [xs] None)) = Ok (VList (spec_largest n key false xs)) /\
  all_released (snd (a_nlargest n key (init_world [xs] None))) = true.
Proof. intros. apply (largest_spec c). assumption. Qed.
Corollary nsmallest_spec : forall c n key xs,
  orderable c key xs = true ->
  fst (a_nsmallest n key (init_world [xs] None)) = Ok (VList (spec_largest n key true xs)) /\
  all_released (snd (a_nsmallest n key (init_world [xs] None))) = true.
Proof. intros. apply (largest_spec c). assumption. Qed.

(* the domain hypothesis is satisfiable by non-trivial inputs, and the specification separates
   equal keys by arrival order *)
Example orderable_objs :
  orderable (Some 0%N) None [VObj 0 3 0; VObj 1 1 0; VObj 2 3 0; VObj 3 2 0; VObj 4 1 0] = true.
Proof. reflexivity. Qed.
Example orderable_keyed :
  orderable None (Some (fun a => VInt (key_of (hd VNone a) / 2))) [VObj 0 3 0; VInt 5; VBool true; VObj 3 2 7] = true.
Proof. reflexivity. Qed.
Example spec_largest_ex :
  spec_largest 3 None false [VObj 0 3 0; VObj 1 1 0; VObj 2 3 0; VObj 3 2 0; VObj 4 1 0] = [VObj 0 3 0; VObj 2 3 0; VObj 3 2 0]
  /\ spec_largest 3 None true [VObj 0 3 0; VObj 1 1 0; VObj 2 3 0; VObj 3 2 0; VObj 4 1 0] = [VObj 1 1 0; VObj 4 1 0; VObj 3 2 0]
  /\ spec_largest (-2) None true [VObj 0 3 0] = [] /\ spec_largest 7 None false [VObj 0 1 0; VObj 1 2 0] = [VObj 1 2 0; VObj 0 1 0].
Proof. repeat split. Qed.

Print Assumptions largest_spec.
Print Assumptions nlargest_spec.
Print Assumptions nsmallest_spec.
