(* Every tool of Model/Tool.v is well-formed (regular): exception transparency and
   prefix-determinism for all tools at once.  The per-tool lemmas are stated for an arbitrary
   consumer [yield] and arbitrary Gallina callables [list val -> val]. *)
From Coq Require Import List ZArith NArith Bool Arith Lia.
Import ListNotations.
Require Import V.Kernel.Values V.Kernel.Monad V.Kernel.Fn V.Model.Builtins V.Model.Itertools V.Model.Heapq V.Model.Tool.
Require Import V.Proofs.Steps V.Proofs.Regular.

Ltac wf2 :=
  first
    [ wf1
    | apply wfG_cycle_again; intros
    | apply wfG_replay; intros
    | apply wfG_batched_loop; intros
    | apply wfG_fill_batch
    | apply wfG_zip_inner; intros
    | apply wfG_a_zip; intros
    | apply wfG_largest_fill
    | apply wfG_merge_heads
    | apply wfG_merge_loop; intros
    | apply wfG_a_zip_longest; intros
    | apply wfG_run_chain
    | apply wfG_pull_row
    | apply wfG_strict_rest ].
Ltac wft := repeat wf2.


(* ---------- builtins ---------- *)
Lemma wfG_a_map sp f ss yield : (forall v, wfG sp (yield v)) -> wfG sp (a_map f ss yield).
Proof. intros Hy. unfold a_map. apply wfG_a_zip. intros t. wft. Qed.
Lemma wfG_a_filter sp f yield : (forall v, wfG sp (yield v)) -> wfG sp (a_filter f yield).
Proof. intros Hy. unfold a_filter. wft. Qed.
Lemma wfG_a_enumerate sp start yield : (forall v, wfG sp (yield v)) -> wfG sp (a_enumerate start yield).
Proof. intros Hy. unfold a_enumerate. wft. Qed.
Lemma wfG_a_iter_sentinel sentinel yield : (forall v, wfG false (yield v)) -> wfG false (a_iter_sentinel sentinel yield).
Proof. intros Hy. unfold a_iter_sentinel. apply wfG_with_fuel. intros n. apply wfG_iter_sentinel_loop, Hy. Qed.
Lemma wfG_a_all sp : wfG sp a_all. Proof. unfold a_all. wft. Qed.
Lemma wfG_a_any sp : wfG sp a_any. Proof. unfold a_any. wft. Qed.
Lemma wfG_a_min_max sp invert key default : wfG sp (a_min_max invert key default).
Proof. unfold a_min_max. wft. Qed.
Lemma wfG_a_sum sp start : wfG sp (a_sum start). Proof. unfold a_sum. wft. Qed.
Lemma wfG_collect sp : wfG sp collect. Proof. unfold collect. wft. Qed.
Lemma wfG_a_list sp : wfG sp a_list. Proof. unfold a_list. wft. apply wfG_collect. Qed.
Lemma wfG_a_tuple sp : wfG sp a_tuple. Proof. unfold a_tuple. wft. apply wfG_collect. Qed.
Lemma wfG_a_set sp : wfG sp a_set. Proof. unfold a_set. wft. Qed.
Lemma wfG_a_dict sp : wfG sp a_dict. Proof. unfold a_dict. wft. Qed.
Lemma wfG_a_sorted sp key reverse : wfG sp (a_sorted key reverse). Proof. unfold a_sorted. wft. Qed.

(* ---------- itertools ---------- *)
Lemma wfG_a_cycle sp passes yield : (forall v, wfG sp (yield v)) -> wfG sp (a_cycle passes yield).
Proof. intros Hy. unfold a_cycle. wft. Qed.
Lemma wfG_a_accumulate sp f initial yield : (forall v, wfG sp (yield v)) -> wfG sp (a_accumulate f initial yield).
Proof. intros Hy. unfold a_accumulate. wft. Qed.
Lemma wfG_a_batched sp n strict yield : (forall v, wfG sp (yield v)) -> wfG sp (a_batched n strict yield).
Proof. intros Hy. unfold a_batched. wft. Qed.
Lemma wfG_a_compress sp yield : (forall v, wfG sp (yield v)) -> wfG sp (a_compress yield).
Proof. intros Hy. unfold a_compress. wft. Qed.
Lemma wfG_a_dropwhile sp p yield : (forall v, wfG sp (yield v)) -> wfG sp (a_dropwhile p yield).
Proof. intros Hy. unfold a_dropwhile. wft. Qed.
Lemma wfG_a_takewhile sp p yield : (forall v, wfG sp (yield v)) -> wfG sp (a_takewhile p yield).
Proof. intros Hy. unfold a_takewhile. wft. Qed.
Lemma wfG_a_filterfalse sp p yield : (forall v, wfG sp (yield v)) -> wfG sp (a_filterfalse p yield).
Proof. intros Hy. unfold a_filterfalse. wft. Qed.
Lemma wfG_a_starmap sp f yield : (forall v, wfG sp (yield v)) -> wfG sp (a_starmap f yield).
Proof. intros Hy. unfold a_starmap. wft. Qed.
Lemma wfG_a_islice sp start stop step yield : (forall v, wfG sp (yield v)) -> wfG sp (a_islice start stop step yield).
Proof. intros Hy. unfold a_islice. wft. Qed.
Lemma wfG_a_pairwise sp yield : (forall v, wfG sp (yield v)) -> wfG sp (a_pairwise yield).
Proof. intros Hy. unfold a_pairwise. wft. Qed.
Lemma wfG_chain_close_unstarted sp ss : wfG sp (chain_close_unstarted ss).
Proof. apply wfG_close_all. Qed.

(* ---------- heapq / functools ---------- *)
Lemma wfG_a_merge sp ss key rev yield : (forall v, wfG sp (yield v)) -> wfG sp (a_merge ss key rev yield).
Proof.
  intros Hy. unfold a_merge. apply wfG_finally; [|apply cleanupG_close_all].
  apply wfG_bind; [apply wfG_merge_heads | intros heap].
  apply (wfG_fueled sp (fun n => merge_loop (S n) rev key heap yield) (fun w => total_left w + length ss)).
  - intros w wf E. rewrite (total_left_srcs w wf E). reflexivity.
  - intros k. apply wfG_merge_loop, Hy.
Qed.
Lemma wfG_a_largest sp n key reverse : wfG sp (a_largest n key reverse).
Proof. unfold a_largest. wft. Qed.
Lemma wfG_a_reduce sp f initial : wfG sp (a_reduce f initial).
Proof. unfold a_reduce. wft. Qed.

Lemma wfG_gen_run sp (g : gen) : (forall yield, (forall v, wfG sp (yield v)) -> wfG sp (g yield)) -> wfG sp (gen_run g).
Proof.
  intros Hg. unfold gen_run, run_gen. apply wfG_bind; [|intros _; apply wfG_ret].
  apply Hg. intros v. apply wfG_yield_to.
Qed.

(* ---------- all tools ---------- *)
Definition tracks_release (t : tool) : bool := match t with TIterSentinel _ => false | _ => true end.

Theorem run_tool_wfG : forall t, wfG (tracks_release t) (run_tool t).
Proof.
  intros t. destruct t; cbn [run_tool tracks_release];
    try (apply wfG_gen_run; intros yield Hy).
  - apply wfG_a_zip, Hy.
  - apply wfG_a_map, Hy.
  - apply wfG_a_filter, Hy.
  - apply wfG_a_enumerate, Hy.
  - apply wfG_a_iter_sentinel, Hy.
  - apply wfG_a_all.
  - apply wfG_a_any.
  - apply wfG_a_min_max.
  - apply wfG_a_min_max.
  - apply wfG_a_sum.
  - apply wfG_a_list.
  - apply wfG_a_tuple.
  - apply wfG_a_set.
  - apply wfG_a_dict.
  - apply wfG_a_sorted.
  - apply wfG_a_cycle, Hy.
  - apply wfG_a_accumulate, Hy.
  - apply wfG_a_batched, Hy.
  - apply wfG_bind; [apply wfG_run_chain | intros _; apply wfG_ret].
  - apply wfG_bind; [apply wfG_chain_close_unstarted | intros _; apply wfG_ret].
  - apply wfG_a_compress, Hy.
  - apply wfG_a_dropwhile, Hy.
  - apply wfG_a_takewhile, Hy.
  - apply wfG_a_filterfalse, Hy.
  - apply wfG_a_starmap, Hy.
  - apply wfG_a_islice, Hy.
  - apply wfG_a_pairwise, Hy.
  - apply wfG_a_zip_longest, Hy.
  - apply wfG_a_merge, Hy.
  - apply wfG_a_largest.
  - apply wfG_a_largest.
  - apply wfG_a_reduce.
Qed.

Theorem run_tool_regular : forall t, regular (run_tool t).
Proof. intros t. apply (run_tool_wfG t). Qed.

(* [wfM] is the record of the assignment.  It holds for every tool except iter(callable, sentinel),
   whose scripted callable rewrites "source" 0 (see [wfM_call_script_refuted]); for that tool all
   fields but the released-ness one hold ([run_tool_wfG] with [tracks_release = false]). *)
Theorem run_tool_wfM : forall t, tracks_release t = true -> wfM (run_tool t).
Proof. intros t Ht. apply wfG_wfM. rewrite <- Ht. apply run_tool_wfG. Qed.

Theorem run_tool_wfM_sentinel_refuted : exists t, ~ wfM (run_tool t).
Proof.
  exists (TIterSentinel VNone). intros [_ _ H _].
  destruct (H (mkW [mkSrc [VInt 1] true 0 0 true] [] None 0)) as [_ H0]. specialize (H0 0 eq_refl).
  vm_compute in H0. discriminate.
Qed.

(* the consumer-facing form of regularity, for any regular computation and any pair of start worlds *)
Lemma fault_transparent_gen {A} (m : M A) w wf k e :
  regular m -> pending w = None -> pending wf = Some (k, e) -> same w wf ->
  fst (m w) <> Fuel ->
  (pending (snd (m wf)) = None ->
     fst (m wf) = Exn e /\ exists pre post d, log (snd (m wf)) = post ++ pre /\
        log (snd (m w)) = d ++ pre /\ Forall (fun ev => is_close ev = true) post)
  /\ (pending (snd (m wf)) <> None ->
     fst (m wf) = fst (m w) /\ log (snd (m wf)) = log (snd (m w)))
  /\ fst (m wf) <> Fuel.
Proof.
  intros Hr Hw Hf Hs Hfu.
  destruct (Hr w wf k e Hw Hf Hs) as [(k' & Hp & Ho & (S1 & S2 & S3) & Hk) | (Hp & Ho & Hl)].
  - repeat split; congruence.
  - repeat split; try congruence. exact Hl.
Qed.

Theorem fault_transparent : forall t ss acl k e,
  let w  := mkW (map (fun p => fresh_src (snd p) (fst p)) (combine ss acl)) [] None 0 in
  let wf := mkW (srcs w) [] (Some (k, e)) 0 in
  fst (run_tool t w) <> Fuel ->
  (pending (snd (run_tool t wf)) = None ->            (* the fault fired *)
     fst (run_tool t wf) = Exn e /\ exists pre post d, log (snd (run_tool t wf)) = post ++ pre /\
        log (snd (run_tool t w)) = d ++ pre /\ Forall (fun ev => is_close ev = true) post)
  /\ (pending (snd (run_tool t wf)) <> None ->        (* it did not: nothing changed *)
     fst (run_tool t wf) = fst (run_tool t w) /\ log (snd (run_tool t wf)) = log (snd (run_tool t w)))
  /\ fst (run_tool t wf) <> Fuel.
Proof.
  intros t ss acl k e w wf. apply (fault_transparent_gen (run_tool t) w wf k e).
  - apply run_tool_regular.
  - reflexivity.
  - reflexivity.
  - repeat split.
Qed.

(* prefix-determinism, consumer-facing: what the faulted run did (aclose calls aside) is a prefix of what
   the fault-free run does *)
Lemma no_closes_closes l : closes l -> no_closes l = [].
Proof.
  induction 1 as [|ev l H _ IH]; [reflexivity|]. unfold no_closes in *. cbn. rewrite H. cbn. exact IH.
Qed.
Lemma closes_rev l : closes l -> closes (rev l).
Proof. intros H. apply Forall_rev. exact H. Qed.
Theorem fault_prefix : forall t w wf k e,
  pending w = None -> pending wf = Some (k, e) -> same w wf ->
  exists d, no_closes (rev (log (snd (run_tool t w)))) = no_closes (rev (log (snd (run_tool t wf)))) ++ d.
Proof.
  intros t w wf k e Hw Hf Hs.
  destruct (run_tool_regular t w wf k e Hw Hf Hs) as [(k' & _ & _ & (_ & L & _) & _) | (_ & _ & pre & post & d & L1 & L2 & Hc)].
  - exists []. rewrite L, app_nil_r. reflexivity.
  - exists (no_closes (rev d)). rewrite L1, L2, !rev_app_distr, !no_closes_app.
    rewrite (no_closes_closes (rev post)) by (apply closes_rev; exact Hc). rewrite app_nil_r. reflexivity.
Qed.
(* exception transparency: the faulted run ends as the fault-free one, or with the injected exception *)
Theorem fault_outcome : forall t w wf k e,
  pending w = None -> pending wf = Some (k, e) -> same w wf ->
  fst (run_tool t wf) = fst (run_tool t w) \/ fst (run_tool t wf) = Exn e.
Proof.
  intros t w wf k e Hw Hf Hs.
  destruct (run_tool_regular t w wf k e Hw Hf Hs) as [(k' & _ & H & _) | (_ & H & _)]; auto.
Qed.

Print Assumptions run_tool_wfG.
Print Assumptions run_tool_regular.
Print Assumptions run_tool_wfM.
Print Assumptions run_tool_wfM_sentinel_refuted.
Print Assumptions fault_transparent.
Print Assumptions fault_prefix.
Print Assumptions fault_outcome.
