(* Generic step lemma for [loop_src] over the single source 0 of a fault-free world:
   if the loop body behaves like a pure step function plus a list of events, then the loop
   behaves like [pure_loop].  Also: [scoped 0] around such a computation. *)
From Coq Require Import List ZArith NArith Bool Arith Lia.
Import ListNotations.
Require Import V.Kernel.Values V.Kernel.Monad V.Model.Builtins V.Proofs.Steps V.Std.Builtins.

Lemma bind_fuel {A B} (m : M A) (f : A -> M B) w w' : m w = (Fuel, w') -> bind m f w = (Fuel, w').
Proof. unfold bind; intros ->; reflexivity. Qed.

(* single-source world: remaining items, exhausted flag, never closed so far *)
Definition Wr (rest : list val) (exh : bool) (lg : list event) (u : nat) : world :=
  W [mkSrc rest exh 0 0 true] lg u.
(* the same after aclose *)
Definition Wc (rest : list val) (exh : bool) (lg : list event) (u : nat) : world :=
  W [mkSrc rest exh 1 1 true] lg u.
Lemma W1_Wr xs lg u : W1 xs lg u = Wr xs false lg u.
Proof. reflexivity. Qed.

Record lres (St : Type) := mkL {
  l_out : outcome (St * bool);   (* result of the loop *)
  l_tr : list event;             (* events, oldest first *)
  l_rest : list val;             (* items left in the source *)
  l_exh : bool                   (* source ran to exhaustion *)
}.
Arguments mkL {St}. Arguments l_out {St}. Arguments l_tr {St}. Arguments l_rest {St}. Arguments l_exh {St}.

Fixpoint pure_loop {St} (step : St -> val -> outcome (St * bool)) (evs : St -> val -> list event)
  (s : St) (xs : list val) : lres St :=
  match xs with
  | [] => mkL (Ok (s, false)) rd_end [] true
  | x :: r =>
      match step s x with
      | Ok (s', true) => let R := pure_loop step evs s' r in
                         mkL (l_out R) (rd x ++ evs s x ++ l_tr R) (l_rest R) (l_exh R)
      | Ok (s', false) => mkL (Ok (s', true)) (rd x ++ evs s x) r false
      | Exn e => mkL (Exn e) (rd x ++ evs s x) r false
      | Fuel => mkL Fuel (rd x ++ evs s x) r false
      end
  end.

(* the body performs [evs s x] and returns [step s x], leaving the source alone *)
Definition body_is {St} (body : St -> val -> M (St * bool))
  (step : St -> val -> outcome (St * bool)) (evs : St -> val -> list event) : Prop :=
  forall s x xs lg u, exists u',
    body s x (W1 xs lg u) = (step s x, W1 xs (rev (evs s x) ++ lg) u').

Lemma iter_pure {St} (body : St -> val -> M (St * bool)) step evs :
  body_is body step evs ->
  forall xs n s lg u, length xs < n -> exists u',
    iter_src n 0 body s (W1 xs lg u)
    = (l_out (pure_loop step evs s xs),
       Wr (l_rest (pure_loop step evs s xs)) (l_exh (pure_loop step evs s xs))
          (rev (l_tr (pure_loop step evs s xs)) ++ lg) u').
Proof.
  intros Hbody. induction xs as [|x xs IH]; intros n s lg u Hn; destruct n as [|n]; try (simpl in Hn; lia).
  - eexists. cbn [iter_src]. rewrite bind_pull1_end. reflexivity.
  - assert (Hlen : length xs < n) by (simpl in Hn; lia).
    cbn [iter_src]. rewrite bind_pull1_item.
    destruct (Hbody s x xs (EItem 0 x :: EPull 0 :: lg) (S u)) as [u1 Hb].
    cbn [pure_loop]. destruct (step s x) as [[s' c]|e|] eqn:Hs.
    + rewrite (bind_ok _ _ _ _ _ Hb). cbn [snd fst]. destruct c.
      * destruct (IH n s' (rev (evs s x) ++ EItem 0 x :: EPull 0 :: lg) u1 Hlen) as [u' ->].
        exists u'. cbn [l_out l_tr l_rest l_exh]. f_equal. f_equal.
        unfold rd. rewrite !rev_app_distr. cbn [rev app]. rewrite <- !app_assoc. reflexivity.
      * exists u1. cbn [l_out l_tr l_rest l_exh]. rewrite ret_app. f_equal.
        unfold rd. rewrite !rev_app_distr. cbn [rev app]. rewrite <- !app_assoc. reflexivity.
    + rewrite (bind_exn _ _ _ _ _ Hb). exists u1. cbn [l_out l_tr l_rest l_exh]. f_equal.
      unfold rd. rewrite !rev_app_distr. cbn [rev app]. rewrite <- !app_assoc. reflexivity.
    + rewrite (bind_fuel _ _ _ _ Hb). exists u1. cbn [l_out l_tr l_rest l_exh]. f_equal.
      unfold rd. rewrite !rev_app_distr. cbn [rev app]. rewrite <- !app_assoc. reflexivity.
Qed.

Lemma loop_pure {St} (body : St -> val -> M (St * bool)) step evs :
  body_is body step evs ->
  forall xs s lg u, exists u',
    loop_src 0 body s (W1 xs lg u)
    = (l_out (pure_loop step evs s xs),
       Wr (l_rest (pure_loop step evs s xs)) (l_exh (pure_loop step evs s xs))
          (rev (l_tr (pure_loop step evs s xs)) ++ lg) u').
Proof.
  intros Hbody xs s lg u. rewrite loop_src_eq, items_left1.
  apply (iter_pure body step evs Hbody). lia.
Qed.

Lemma pure_loop_no_fuel {St} (step : St -> val -> outcome (St * bool)) evs :
  (forall s x, step s x <> Fuel) -> forall xs s, l_out (pure_loop step evs s xs) <> Fuel.
Proof.
  intros Hs. induction xs as [|x xs IH]; intros s; cbn [pure_loop].
  { cbn; congruence. }
  specialize (Hs s x). destruct (step s x) as [[s' [|]]|e|]; cbn [l_out]; try congruence; try apply IH.
Qed.

(* async with ScopedIter(source 0) around a computation that leaves a never-closed source *)
Lemma scoped_r {A} (body : M A) w (o : outcome A) rest exh lg u :
  body w = (o, Wr rest exh lg u) -> o <> Fuel ->
  scoped 0 body w = (o, Wc rest exh (EClose 0 :: lg) (S u)).
Proof.
  intros H Ho. unfold scoped, finally. rewrite H.
  destruct o; try congruence; reflexivity.
Qed.
Lemma released_Wc rest exh lg u : all_released (Wc rest exh lg u) = true.
Proof. destruct exh; reflexivity. Qed.
Lemma log_Wc rest exh lg u : log (Wc rest exh lg u) = lg.
Proof. reflexivity. Qed.

(* the log of a closed scoped run, without the close *)
Lemma no_closes_scoped tr :
  (forall e, In e tr -> is_close e = false) ->
  no_closes (rev (EClose 0 :: rev tr ++ [])) = tr.
Proof.
  intros H. cbn [rev]. rewrite app_nil_r, rev_involutive, no_closes_app. cbn. rewrite app_nil_r.
  apply no_closes_id, H.
Qed.

(* no close events in the pure loop trace if the body emits none *)
Lemma pure_loop_no_close {St} (step : St -> val -> outcome (St * bool)) evs :
  (forall s x e, In e (evs s x) -> is_close e = false) ->
  forall xs s e, In e (l_tr (pure_loop step evs s xs)) -> is_close e = false.
Proof.
  intros Hev. induction xs as [|x xs IH]; intros s e; cbn [pure_loop].
  - cbn. intros [<-|[<-|[]]]; reflexivity.
  - assert (Hpre : In e (rd x ++ evs s x) -> is_close e = false).
    { intros He. apply in_app_or in He. destruct He as [He|He]; [|eauto].
      cbn in He. destruct He as [<-|[<-|[]]]; reflexivity. }
    destruct (step s x) as [[s' [|]]|ex|]; cbn [l_tr]; auto.
    rewrite app_assoc. intros He. apply in_app_or in He. destruct He as [He|He]; eauto.
Qed.

(* [ofold] unfolding *)
Lemma ofold_nil {A} (f : A -> val -> outcome A) a : ofold f [] a = Ok a.
Proof. reflexivity. Qed.
Lemma ofold_stuck {A} (f : A -> val -> outcome A) xs (o : outcome A) :
  (forall a, o <> Ok a) ->
  fold_left (fun acc x => match acc with Ok a => f a x | o => o end) xs o = o.
Proof. induction xs as [|x xs IH]; intros Ho; [reflexivity|]. cbn. destruct o; try apply IH; try congruence. Qed.
Lemma ofold_cons {A} (f : A -> val -> outcome A) x xs a :
  ofold f (x :: xs) a = match f a x with Ok a' => ofold f xs a' | Exn e => Exn e | Fuel => Fuel end.
Proof.
  unfold ofold. cbn [fold_left]. destruct (f a x) as [a'|e|]; [reflexivity| |]; apply ofold_stuck; congruence.
Qed.

(* loops that never break: the result is the fold *)
Lemma pure_loop_fold {St} (f : St -> val -> outcome St) evs xs : forall s,
  l_out (pure_loop (fun s x => omap (fun a => (a, true)) (f s x)) evs s xs)
  = omap (fun a => (a, false)) (ofold f xs s).
Proof.
  induction xs as [|x xs IH]; intros s; [reflexivity|].
  cbn [pure_loop]. rewrite ofold_cons. destruct (f s x) as [a|e|]; cbn [omap l_out]; auto.
Qed.

Lemma no_closes_scoped_pre tr lg :
  (forall e, In e tr -> is_close e = false) -> (forall e, In e lg -> is_close e = false) ->
  no_closes (rev (EClose 0 :: rev tr ++ lg)) = rev lg ++ tr.
Proof.
  intros H1 H2. cbn [rev]. rewrite rev_app_distr, rev_involutive, !no_closes_app. cbn. rewrite app_nil_r.
  rewrite !no_closes_id; auto. intros e He. apply H2. apply in_rev. assumption.
Qed.

Lemma bind_ret_map {A B} (m : M A) (g : A -> B) w o w' :
  m w = (o, w') -> bind m (fun a => ret (g a)) w = (omap g o, w').
Proof. unfold bind; intros ->; destruct o; reflexivity. Qed.
Lemma omap_no_fuel {A B} (g : A -> B) o : o <> Fuel -> omap g o <> Fuel.
Proof. destruct o; cbn; congruence. Qed.
Lemma omap_omap {A B C} (g : A -> B) (h : B -> C) o : omap h (omap g o) = omap (fun a => h (g a)) o.
Proof. destruct o; reflexivity. Qed.
Lemma omap_ext {A B} (g h : A -> B) o : (forall a, g a = h a) -> omap g o = omap h o.
Proof. intros H; destruct o; cbn; congruence. Qed.
