(* C07 (borrow never closes the underlying iterator) and C08 (scoped_iter keeps the iterator alive for
   the block and closes it exactly at the exit of the outermost scope): proofs over Model/Borrow.v,
   for ALL item lists, capabilities and ALL operation histories. *)
From Coq Require Import List ZArith NArith Bool Arith Lia.
Import ListNotations.
Require Import V.Kernel.Values V.Model.Borrow.

(* ------------------------------------------------------------------------------------------ *)
(* generic list lemmas                                                                        *)

Lemma bset_nth_length : forall A (l : list A) n x, length (bset_nth n x l) = length l.
Proof. induction l as [|a l IH]; intros [|n] x; simpl; auto. Qed.

Lemma nth_bset_nth_eq : forall A (l : list A) n x d, n < length l -> nth n (bset_nth n x l) d = x.
Proof.
  induction l as [|a l IH]; intros [|n] x d L; simpl in *; try lia; auto.
  apply IH; lia.
Qed.

Lemma nth_bset_nth_neq : forall A (l : list A) n m x d, n <> m -> nth m (bset_nth n x l) d = nth m l d.
Proof.
  induction l as [|a l IH]; intros [|n] [|m] x d N; simpl; auto; try congruence.
Qed.

Lemma bset_nth_ge : forall A (l : list A) n x, length l <= n -> bset_nth n x l = l.
Proof.
  induction l as [|a l IH]; intros [|n] x L; simpl in *; auto; try lia.
  f_equal. apply IH. lia.
Qed.

Lemma nth_map_nth_error : forall A (f : A -> bool) (l : list A) k,
  nth k (map f l) false = match nth_error l k with Some p => f p | None => false end.
Proof. induction l as [|a l IH]; intros [|k]; simpl; auto. Qed.

(* ------------------------------------------------------------------------------------------ *)
(* geth / seth                                                                                *)

Lemma geth_seth_eq : forall s h x, h < length (u_handles s) -> geth (seth s h x) h = x.
Proof. intros. unfold geth, seth. simpl. apply nth_bset_nth_eq. assumption. Qed.

Lemma geth_seth_neq : forall s h g x, h <> g -> geth (seth s h x) g = geth s g.
Proof. intros. unfold geth, seth. simpl. apply nth_bset_nth_neq. assumption. Qed.

Lemma seth_ge : forall s h x g, length (u_handles s) <= h -> geth (seth s h x) g = geth s g.
Proof. intros. unfold geth, seth. simpl. rewrite bset_nth_ge; auto. Qed.

Lemma seth_length : forall s h x, length (u_handles (seth s h x)) = length (u_handles s).
Proof. intros. unfold seth. simpl. apply bset_nth_length. Qed.

Lemma geth_ge : forall s h, length (u_handles s) <= h -> geth s h = mkH PU WClosed false None.
Proof. intros. unfold geth. apply nth_overflow. assumption. Qed.

Lemma open_exists : forall s h, h_wrapper (geth s h) <> WClosed -> h < length (u_handles s).
Proof.
  intros s h N. destruct (Nat.lt_ge_cases h (length (u_handles s))) as [L|L]; auto.
  rewrite geth_ge in N by assumption. simpl in N. congruence.
Qed.

(* wrapper states only move WFresh -> WOpen -> WClosed *)
Definition wle (a b : wstate) : Prop :=
  match a, b with
  | WFresh, _ => True
  | WOpen, WFresh => False
  | WOpen, _ => True
  | WClosed, WClosed => True
  | WClosed, _ => False
  end.
Lemma wle_refl : forall a, wle a a. Proof. destruct a; simpl; auto. Qed.
Lemma wle_trans : forall a b c, wle a b -> wle b c -> wle a c.
Proof. destruct a, b, c; simpl; auto. Qed.
Lemma wle_closed : forall a, wle a WClosed. Proof. destruct a; simpl; auto. Qed.
Lemma wle_closed_inv : forall b, wle WClosed b -> b = WClosed.
Proof. destruct b; simpl; intros; auto; contradiction. Qed.

(* ------------------------------------------------------------------------------------------ *)
(* "iteration steps": everything except u_rest and the wrapper states is unchanged, wrapper     *)
(* states only grow                                                                            *)

Record hext (s s' : ustate) : Prop := mkHext {
  hx_closed : u_closed s' = u_closed s;
  hx_acl : u_has_aclose s' = u_has_aclose s;
  hx_asend : u_has_asend s' = u_has_asend s;
  hx_scopes : u_scopes s' = u_scopes s;
  hx_len : length (u_handles s') = length (u_handles s);
  hx_par : forall g, h_parent (geth s' g) = h_parent (geth s g);
  hx_sc : forall g, h_scoped (geth s' g) = h_scoped (geth s g);
  hx_send : forall g, h_send (geth s' g) = h_send (geth s g);
  hx_w : forall g, wle (h_wrapper (geth s g)) (h_wrapper (geth s' g))
}.

Lemma hext_refl : forall s, hext s s.
Proof. intros; constructor; auto. intros; apply wle_refl. Qed.

Lemma hext_trans : forall a b c, hext a b -> hext b c -> hext a c.
Proof.
  intros a b c [A1 A2 A3 A4 A5 A6 A7 A8 A9] [B1 B2 B3 B4 B5 B6 B7 B8 B9].
  constructor; try (intros g; rewrite ?B6, ?B7, ?B8; auto; fail); try congruence.
  intros g. eapply wle_trans; [apply A9 | apply B9].
Qed.

Definition olist (o : option val) : list val := match o with Some v => [v] | None => [] end.

Lemma u_next_hext : forall s, hext s (fst (u_next s)).
Proof.
  intros s. unfold u_next. destruct (0 <? u_closed s); [apply hext_refl|].
  destruct (u_rest s); [apply hext_refl|].
  simpl. constructor; simpl; auto. intros; apply wle_refl.
Qed.

Lemma u_next_rest : forall s, olist (snd (u_next s)) ++ u_rest (fst (u_next s)) = u_rest s.
Proof.
  intros s. unfold u_next. destruct (0 <? u_closed s); [reflexivity|].
  destruct (u_rest s) eqn:E; simpl; rewrite ?E; reflexivity.
Qed.

Lemma u_next_closed_none : forall s, 0 < u_closed s -> u_next s = (s, None).
Proof.
  intros s L. unfold u_next. apply Nat.ltb_lt in L. rewrite L. reflexivity.
Qed.

(* set the wrapper state of a handle *)
Definition setw (s : ustate) (h : nat) (w : wstate) : ustate :=
  seth s h (mkH (h_parent (geth s h)) w (h_scoped (geth s h)) (h_send (geth s h))).

Lemma geth_setw_neq : forall s h g w, h <> g -> geth (setw s h w) g = geth s g.
Proof. intros. apply geth_seth_neq. assumption. Qed.

Lemma setw_hext : forall s h w, wle (h_wrapper (geth s h)) w -> hext s (setw s h w).
Proof.
  intros s h w W. unfold setw.
  destruct (Nat.lt_ge_cases h (length (u_handles s))) as [L|L].
  - constructor; try reflexivity.
    + apply seth_length.
    + intros g. destruct (Nat.eq_dec h g) as [->|N];
        [rewrite geth_seth_eq by assumption | rewrite geth_seth_neq by assumption]; reflexivity.
    + intros g. destruct (Nat.eq_dec h g) as [->|N];
        [rewrite geth_seth_eq by assumption | rewrite geth_seth_neq by assumption]; reflexivity.
    + intros g. destruct (Nat.eq_dec h g) as [->|N];
        [rewrite geth_seth_eq by assumption | rewrite geth_seth_neq by assumption]; reflexivity.
    + intros g. destruct (Nat.eq_dec h g) as [->|N];
        [rewrite geth_seth_eq by assumption; exact W | rewrite geth_seth_neq by assumption; apply wle_refl].
  - constructor; try reflexivity.
    + apply seth_length.
    + intros g. rewrite seth_ge by assumption. reflexivity.
    + intros g. rewrite seth_ge by assumption. reflexivity.
    + intros g. rewrite seth_ge by assumption. reflexivity.
    + intros g. rewrite seth_ge by assumption. apply wle_refl.
Qed.

(* one unfolding of h_next *)
Definition wclosedb (w : wstate) : bool := match w with WClosed => true | _ => false end.
Definition par_next (f : nat) (s : ustate) (h : nat) : ustate * option val :=
  match h_parent (geth s h) with PU => u_next s | PH p => h_next f s p end.

Lemma h_next_S : forall f s h,
  h_next (S f) s h =
  if wclosedb (h_wrapper (geth s h)) then (s, None)
  else (setw (fst (par_next f s h)) h (match snd (par_next f s h) with Some _ => WOpen | None => WClosed end),
        snd (par_next f s h)).
Proof.
  intros f s h. unfold par_next, setw. simpl.
  destruct (h_wrapper (geth s h)); simpl; try reflexivity;
    destruct (h_parent (geth s h)) as [|p];
    [ destruct (u_next s) as [s1 [v|]] | destruct (h_next f s p) as [s1 [v|]]
    | destruct (u_next s) as [s1 [v|]] | destruct (h_next f s p) as [s1 [v|]] ]; reflexivity.
Qed.

Lemma wclosedb_false : forall w, wclosedb w = false -> wle w WOpen.
Proof. destruct w; simpl; auto; discriminate. Qed.

Lemma h_next_hext : forall f s h, hext s (fst (h_next f s h)).
Proof.
  induction f as [|f IH]; intros s h.
  - simpl. apply hext_refl.
  - rewrite h_next_S. destruct (wclosedb (h_wrapper (geth s h))) eqn:C; [apply hext_refl|].
    simpl.
    assert (P : hext s (fst (par_next f s h))).
    { unfold par_next. destruct (h_parent (geth s h)); [apply u_next_hext | apply IH]. }
    destruct (snd (par_next f s h)) as [v|] eqn:O.
    + (* an item came: the recursion cannot have closed h, because a closed ancestor gives None *)
      constructor.
      * rewrite <- (hx_closed _ _ P). reflexivity.
      * rewrite <- (hx_acl _ _ P). reflexivity.
      * rewrite <- (hx_asend _ _ P). reflexivity.
      * rewrite <- (hx_scopes _ _ P). reflexivity.
      * rewrite <- (hx_len _ _ P). apply seth_length.
      * intros g. rewrite <- (hx_par _ _ P). unfold setw.
        destruct (Nat.eq_dec h g) as [->|N]; [|rewrite geth_seth_neq by assumption; reflexivity].
        destruct (Nat.lt_ge_cases g (length (u_handles (fst (par_next f s g))))) as [L|L];
          [rewrite geth_seth_eq by assumption | rewrite seth_ge by assumption]; reflexivity.
      * intros g. rewrite <- (hx_sc _ _ P). unfold setw.
        destruct (Nat.eq_dec h g) as [->|N]; [|rewrite geth_seth_neq by assumption; reflexivity].
        destruct (Nat.lt_ge_cases g (length (u_handles (fst (par_next f s g))))) as [L|L];
          [rewrite geth_seth_eq by assumption | rewrite seth_ge by assumption]; reflexivity.
      * intros g. rewrite <- (hx_send _ _ P). unfold setw.
        destruct (Nat.eq_dec h g) as [->|N]; [|rewrite geth_seth_neq by assumption; reflexivity].
        destruct (Nat.lt_ge_cases g (length (u_handles (fst (par_next f s g))))) as [L|L];
          [rewrite geth_seth_eq by assumption | rewrite seth_ge by assumption]; reflexivity.
      * intros g. unfold setw.
        destruct (Nat.eq_dec h g) as [->|N];
          [|rewrite geth_seth_neq by assumption; apply (hx_w _ _ P)].
        assert (L : g < length (u_handles (fst (par_next f s g)))).
        { rewrite (hx_len _ _ P). apply open_exists. intro E. rewrite E in C. discriminate. }
        rewrite geth_seth_eq by assumption. simpl. apply wclosedb_false. assumption.
    + eapply hext_trans; [exact P|]. apply setw_hext. apply wle_closed.
Qed.

Lemma h_next_rest : forall f s h, olist (snd (h_next f s h)) ++ u_rest (fst (h_next f s h)) = u_rest s.
Proof.
  induction f as [|f IH]; intros s h.
  - reflexivity.
  - rewrite h_next_S. destruct (wclosedb (h_wrapper (geth s h))); [reflexivity|].
    simpl. unfold setw, seth. simpl.
    unfold par_next. destruct (h_parent (geth s h)); [apply u_next_rest | apply IH].
Qed.

(* a handle with a closed wrapper returns None without touching anything *)
Lemma h_next_closed : forall f s h, h_wrapper (geth s h) = WClosed -> h_next f s h = (s, None).
Proof.
  intros [|f] s h C; [reflexivity|]. rewrite h_next_S, C. reflexivity.
Qed.

(* once U is closed nothing is delivered any more *)
Lemma h_next_uclosed : forall f s h, 0 < u_closed s -> snd (h_next f s h) = None.
Proof.
  induction f as [|f IH]; intros s h L; [reflexivity|].
  rewrite h_next_S. destruct (wclosedb (h_wrapper (geth s h))); [reflexivity|].
  simpl. unfold par_next. destruct (h_parent (geth s h)).
  - rewrite u_next_closed_none by assumption. reflexivity.
  - apply IH. assumption.
Qed.

(* ------------------------------------------------------------------------------------------ *)
(* take (what a tool does with a handle)                                                       *)

Lemma h_next_pair : forall f s h s1 o, h_next f s h = (s1, o) ->
  hext s s1 /\ olist o ++ u_rest s1 = u_rest s.
Proof.
  intros f s h s1 o E. split.
  - change s1 with (fst (s1, o)). rewrite <- E. apply h_next_hext.
  - change s1 with (fst (s1, o)). change o with (snd (s1, o)) at 1. rewrite <- E. apply h_next_rest.
Qed.

Lemma take_hext : forall f j s h acc, hext s (fst (take f j s h acc)).
Proof.
  induction j as [|j IH]; intros s h acc; simpl; [apply hext_refl|].
  destruct (h_next f s h) as [s1 o] eqn:E. destruct (h_next_pair _ _ _ _ _ E) as [X _].
  destruct o as [v|]; [|exact X].
  eapply hext_trans; [exact X | apply IH].
Qed.

Lemma take_rest : forall f j s h acc, exists d,
  snd (take f j s h acc) = acc ++ d /\ d ++ u_rest (fst (take f j s h acc)) = u_rest s.
Proof.
  induction j as [|j IH]; intros s h acc; simpl.
  - exists []. rewrite app_nil_r. split; reflexivity.
  - destruct (h_next f s h) as [s1 o] eqn:E. destruct (h_next_pair _ _ _ _ _ E) as [_ R].
    destruct o as [v|]; simpl in R.
    + destruct (IH s1 h (acc ++ [v])) as [d [D1 D2]]. exists (v :: d). split.
      * rewrite D1, <- app_assoc. reflexivity.
      * simpl. rewrite D2. assumption.
    + exists []. rewrite app_nil_r. split; [reflexivity | exact R].
Qed.

(* ------------------------------------------------------------------------------------------ *)
(* close_wrapper / h_aclose / new_handle                                                       *)

Definition closed_handle (x : handle) : handle :=
  mkH (h_parent x) WClosed (h_scoped x) (match h_send x with Some _ => Some TDead | None => None end).

Lemma close_wrapper_eq : forall s h, close_wrapper s h = seth s h (closed_handle (geth s h)).
Proof. reflexivity. Qed.

Lemma geth_close_wrapper_eq : forall s h, h < length (u_handles s) ->
  geth (close_wrapper s h) h = closed_handle (geth s h).
Proof. intros. rewrite close_wrapper_eq. apply geth_seth_eq. assumption. Qed.

Lemma geth_close_wrapper_neq : forall s h g, h <> g -> geth (close_wrapper s h) g = geth s g.
Proof. intros. rewrite close_wrapper_eq. apply geth_seth_neq. assumption. Qed.

Lemma close_wrapper_length : forall s h, length (u_handles (close_wrapper s h)) = length (u_handles s).
Proof. intros. rewrite close_wrapper_eq. apply seth_length. Qed.

(* the wrapper of h is closed afterwards, whether or not h exists (a missing handle reads as closed) *)
Lemma close_wrapper_closed : forall s h, h_wrapper (geth (close_wrapper s h) h) = WClosed.
Proof.
  intros s h. destruct (Nat.lt_ge_cases h (length (u_handles s))) as [L|L].
  - rewrite geth_close_wrapper_eq by assumption. reflexivity.
  - rewrite close_wrapper_eq, seth_ge by assumption. rewrite geth_ge by assumption. reflexivity.
Qed.

Lemma h_aclose_scoped : forall s h, h_scoped (geth s h) = true -> h_aclose s h = s.
Proof. intros s h E. unfold h_aclose. rewrite E. reflexivity. Qed.

Lemma h_aclose_unscoped : forall s h, h_scoped (geth s h) = false -> h_aclose s h = close_wrapper s h.
Proof. intros s h E. unfold h_aclose. rewrite E. reflexivity. Qed.

Lemma h_aclose_closed : forall s h, u_closed (h_aclose s h) = u_closed s.
Proof. intros. unfold h_aclose. destruct (h_scoped _); reflexivity. Qed.
Lemma h_aclose_rest : forall s h, u_rest (h_aclose s h) = u_rest s.
Proof. intros. unfold h_aclose. destruct (h_scoped _); reflexivity. Qed.
Lemma h_aclose_scopes : forall s h, u_scopes (h_aclose s h) = u_scopes s.
Proof. intros. unfold h_aclose. destruct (h_scoped _); reflexivity. Qed.

Definition add_handle (s : ustate) (x : handle) : ustate :=
  mkU (u_rest s) (u_closed s) (u_has_aclose s) (u_has_asend s) (u_handles s ++ [x]) (u_scopes s).
Definition add_scope (s : ustate) (e : nat * option nat) : ustate :=
  mkU (u_rest s) (u_closed s) (u_has_aclose s) (u_has_asend s) (u_handles s) (u_scopes s ++ [e]).
Definition close_U (s : ustate) : ustate :=
  mkU (u_rest s) (S (u_closed s)) (u_has_aclose s) (u_has_asend s) (u_handles s) (u_scopes s).
Definition new_send (s : ustate) (p : parent) : option target :=
  if u_has_asend s then
    Some (match p with PU => TU | PH q => match h_send (geth s q) with Some t => t | None => TU end end)
  else None.

Lemma new_handle_eq : forall s p sc,
  new_handle s p sc = (add_handle s (mkH p WFresh sc (new_send s p)), length (u_handles s)).
Proof. reflexivity. Qed.

Lemma geth_add_handle_old : forall s x g, g < length (u_handles s) -> geth (add_handle s x) g = geth s g.
Proof. intros. unfold geth, add_handle. simpl. apply app_nth1. assumption. Qed.

Lemma geth_add_handle_new : forall s x, geth (add_handle s x) (length (u_handles s)) = x.
Proof. intros. unfold geth, add_handle. simpl. rewrite app_nth2, Nat.sub_diag by lia. reflexivity. Qed.

(* ------------------------------------------------------------------------------------------ *)
(* what every operation preserves                                                              *)

Record evol (s s' : ustate) : Prop := mkEvol {
  ev_acl : u_has_aclose s' = u_has_aclose s;
  ev_asend : u_has_asend s' = u_has_asend s;
  ev_len : length (u_handles s) <= length (u_handles s');
  ev_closed : u_closed s <= u_closed s';
  ev_scopes : exists l, u_scopes s' = u_scopes s ++ l;
  ev_par : forall g, g < length (u_handles s) -> h_parent (geth s' g) = h_parent (geth s g);
  ev_sc : forall g, g < length (u_handles s) -> h_scoped (geth s' g) = h_scoped (geth s g);
  ev_send : forall g, g < length (u_handles s) -> h_send (geth s' g) = Some TU -> h_send (geth s g) = Some TU;
  ev_w : forall g, g < length (u_handles s) -> wle (h_wrapper (geth s g)) (h_wrapper (geth s' g))
}.

Lemma evol_refl : forall s, evol s s.
Proof.
  intros; constructor; auto. exists []. rewrite app_nil_r; reflexivity. intros; apply wle_refl.
Qed.

Lemma evol_trans : forall a b c, evol a b -> evol b c -> evol a c.
Proof.
  intros a b c [A1 A2 A3 A4 [la A5] A6 A7 A8 A9] [B1 B2 B3 B4 [lb B5] B6 B7 B8 B9].
  constructor; try congruence; try lia.
  - exists (la ++ lb). rewrite B5, A5, app_assoc. reflexivity.
  - intros g L. rewrite B6 by lia. apply A6. assumption.
  - intros g L. rewrite B7 by lia. apply A7. assumption.
  - intros g L E. apply A8; [assumption|]. apply B8; [lia | assumption].
  - intros g L. eapply wle_trans; [apply A9; assumption | apply B9; lia].
Qed.

Lemma hext_evol : forall s s', hext s s' -> evol s s'.
Proof.
  intros s s' [H1 H2 H3 H4 H5 H6 H7 H8 H9]. constructor; auto; try lia.
  - exists []. rewrite app_nil_r. assumption.
  - intros g _ E. rewrite <- H8. assumption.
Qed.

Lemma evol_same_handles : forall s s',
  u_handles s' = u_handles s -> u_has_aclose s' = u_has_aclose s -> u_has_asend s' = u_has_asend s ->
  u_closed s <= u_closed s' -> (exists l, u_scopes s' = u_scopes s ++ l) -> evol s s'.
Proof.
  intros s s' H A B C D.
  assert (G : forall g, geth s' g = geth s g) by (intros; unfold geth; rewrite H; reflexivity).
  constructor; auto.
  - rewrite H. lia.
  - intros; rewrite G; reflexivity.
  - intros; rewrite G; reflexivity.
  - intros g _. rewrite G. auto.
  - intros; rewrite G; apply wle_refl.
Qed.

Lemma close_wrapper_evol : forall s h, evol s (close_wrapper s h).
Proof.
  intros s h. constructor; try reflexivity.
  - rewrite close_wrapper_length. lia.
  - exists []. rewrite app_nil_r. reflexivity.
  - intros g L. destruct (Nat.eq_dec h g) as [->|N];
      [rewrite geth_close_wrapper_eq by assumption | rewrite geth_close_wrapper_neq by assumption]; reflexivity.
  - intros g L. destruct (Nat.eq_dec h g) as [->|N];
      [rewrite geth_close_wrapper_eq by assumption | rewrite geth_close_wrapper_neq by assumption]; reflexivity.
  - intros g L. destruct (Nat.eq_dec h g) as [->|N];
      [rewrite geth_close_wrapper_eq by assumption | rewrite geth_close_wrapper_neq by assumption; auto].
    simpl. destruct (h_send (geth s g)); discriminate.
  - intros g L. destruct (Nat.eq_dec h g) as [->|N];
      [rewrite geth_close_wrapper_eq by assumption; apply wle_closed
      | rewrite geth_close_wrapper_neq by assumption; apply wle_refl].
Qed.

Lemma h_aclose_evol : forall s h, evol s (h_aclose s h).
Proof.
  intros. unfold h_aclose. destruct (h_scoped _); [apply evol_refl | apply close_wrapper_evol].
Qed.

Lemma add_handle_evol : forall s x, evol s (add_handle s x).
Proof.
  intros s x. constructor; try reflexivity.
  - unfold add_handle; simpl. rewrite app_length. lia.
  - exists []. rewrite app_nil_r. reflexivity.
  - intros; rewrite geth_add_handle_old by assumption; reflexivity.
  - intros; rewrite geth_add_handle_old by assumption; reflexivity.
  - intros g L; rewrite geth_add_handle_old by assumption; auto.
  - intros; rewrite geth_add_handle_old by assumption; apply wle_refl.
Qed.

Lemma add_scope_evol : forall s e, evol s (add_scope s e).
Proof.
  intros. apply evol_same_handles; try reflexivity. exists [e]. reflexivity.
Qed.

Lemma close_U_evol : forall s, evol s (close_U s).
Proof.
  intros. apply evol_same_handles; try reflexivity; [simpl; lia|]. exists []. rewrite app_nil_r. reflexivity.
Qed.

(* the state after each operation, in terms of the pieces above *)
Definition b_step (s : ustate) (op : bop) : ustate :=
  match op with
  | BBorrow p => add_handle s (mkH p WFresh false (new_send s p))
  | BNext h => fst (h_next (depth s) s h)
  | BSend h => match h_send (geth s h) with Some TU => fst (u_next s) | _ => s end
  | BNextU => fst (u_next s)
  | BClose h => h_aclose s h
  | BTool h j => h_aclose (fst (take (depth s) j s h [])) h
  | BEnter PU => if u_has_aclose s
                 then add_scope (add_handle s (mkH PU WFresh true (new_send s PU))) (length (u_handles s), None)
                 else s
  | BEnter (PH q) => add_scope (add_handle s (mkH (PH q) WFresh true (new_send s (PH q)))) (length (u_handles s), Some q)
  | BExit k => match nth_error (u_scopes s) k with
               | None => s
               | Some (h, None) => close_U (close_wrapper s h)
               | Some (h, Some q) => h_aclose (close_wrapper s h) q
               end
  end.

Definition b_obs (s : ustate) (op : bop) : bobs :=
  match op with
  | BBorrow p => BNew (length (u_handles s))
  | BNext h => match snd (h_next (depth s) s h) with Some v => BItem v | None => BStop end
  | BSend h => match h_send (geth s h) with
               | Some TU => match snd (u_next s) with Some v => BItem v | None => BStop end
               | _ => BStop end
  | BNextU => match snd (u_next s) with Some v => BItem v | None => BStop end
  | BClose h => BDone
  | BTool h j => BItems (snd (take (depth s) j s h []))
  | BEnter PU => if u_has_aclose s then BNew (length (u_handles s)) else BNoScope
  | BEnter (PH q) => BNew (length (u_handles s))
  | BExit k => BDone
  end.

Lemma b_do_eq : forall s op, b_do s op = (b_step s op, b_obs s op).
Proof.
  intros s op. destruct op as [p|h|h| |h|h j|p|k]; unfold b_do, b_step, b_obs.
  - reflexivity.
  - destruct (h_next (depth s) s h) as [s1 o]. reflexivity.
  - destruct (h_send (geth s h)) as [[|]|]; try reflexivity. destruct (u_next s) as [s1 o]. reflexivity.
  - destruct (u_next s) as [s1 o]. reflexivity.
  - reflexivity.
  - destruct (take (depth s) j s h []) as [s1 l]. reflexivity.
  - destruct p as [|q]; [destruct (u_has_aclose s)|]; reflexivity.
  - destruct (nth_error (u_scopes s) k) as [[h [q|]]|]; reflexivity.
Qed.

Lemma b_step_evol : forall s op, evol s (b_step s op).
Proof.
  intros s op. destruct op as [p|h|h| |h|h j|p|k]; unfold b_step.
  - apply add_handle_evol.
  - apply hext_evol, h_next_hext.
  - destruct (h_send (geth s h)) as [[|]|]; try apply evol_refl. apply hext_evol, u_next_hext.
  - apply hext_evol, u_next_hext.
  - apply h_aclose_evol.
  - eapply evol_trans; [apply hext_evol, take_hext | apply h_aclose_evol].
  - destruct p as [|q]; [destruct (u_has_aclose s); [|apply evol_refl]|];
      (eapply evol_trans; [apply add_handle_evol | apply add_scope_evol]).
  - destruct (nth_error (u_scopes s) k) as [[h [q|]]|]; [| |apply evol_refl];
      (eapply evol_trans; [apply close_wrapper_evol|]); [apply h_aclose_evol | apply close_U_evol].
Qed.

(* ------------------------------------------------------------------------------------------ *)
(* runs                                                                                        *)

Lemma b_run_cons : forall s op r,
  b_run s (op :: r) = (b_obs s op :: fst (b_run (b_step s op) r), snd (b_run (b_step s op) r)).
Proof.
  intros. cbn [b_run]. rewrite b_do_eq. destruct (b_run (b_step s op) r). reflexivity.
Qed.

Lemma b_run_app : forall a s b,
  b_run s (a ++ b) =
  (fst (b_run s a) ++ fst (b_run (snd (b_run s a)) b), snd (b_run (snd (b_run s a)) b)).
Proof.
  induction a as [|op a IH]; intros s b.
  - simpl. destruct (b_run s b); reflexivity.
  - rewrite <- app_comm_cons, !b_run_cons, IH. reflexivity.
Qed.

Lemma b_run_evol : forall ops s, evol s (snd (b_run s ops)).
Proof.
  induction ops as [|op r IH]; intros s; [apply evol_refl|].
  rewrite b_run_cons. simpl. eapply evol_trans; [apply b_step_evol | apply IH].
Qed.

(* ------------------------------------------------------------------------------------------ *)
(* counting the closes of U                                                                    *)

(* the scopes entered so far, as flags: true = opened directly on U *)
Definition sflags (s : ustate) : list bool :=
  map (fun e : nat * option nat => match snd e with None => true | Some _ => false end) (u_scopes s).

Definition scopes_after (acl : bool) (scs : list bool) (op : bop) : list bool :=
  match op with
  | BEnter PU => if acl then scs ++ [true] else scs
  | BEnter (PH _) => scs ++ [false]
  | _ => scs
  end.
(* 1 iff the operation is an exit of an entered scope that was opened directly on U *)
Definition closes_U (scs : list bool) (op : bop) : nat :=
  match op with BExit k => if nth k scs false then 1 else 0 | _ => 0 end.
Fixpoint count_u_exits (acl : bool) (scs : list bool) (ops : list bop) : nat :=
  match ops with
  | [] => 0
  | op :: r => closes_U scs op + count_u_exits acl (scopes_after acl scs op) r
  end.

Definition no_scopes (ops : list bop) : bool :=
  forallb (fun op => match op with BEnter _ | BExit _ => false | _ => true end) ops.

Definition new_scopes (s : ustate) (op : bop) : list (nat * option nat) :=
  match op with
  | BEnter PU => if u_has_aclose s then [(length (u_handles s), None)] else []
  | BEnter (PH q) => [(length (u_handles s), Some q)]
  | _ => []
  end.

Lemma b_step_scopes : forall s op, u_scopes (b_step s op) = u_scopes s ++ new_scopes s op.
Proof.
  intros s op. destruct op as [p|h|h| |h|h j|p|k]; unfold b_step, new_scopes; rewrite ?app_nil_r.
  - reflexivity.
  - apply (hx_scopes _ _ (h_next_hext _ _ _)).
  - destruct (h_send (geth s h)) as [[|]|]; try reflexivity. apply (hx_scopes _ _ (u_next_hext _)).
  - apply (hx_scopes _ _ (u_next_hext _)).
  - apply h_aclose_scopes.
  - rewrite h_aclose_scopes. apply (hx_scopes _ _ (take_hext _ _ _ _ _)).
  - destruct p as [|q]; [destruct (u_has_aclose s)|]; rewrite ?app_nil_r; reflexivity.
  - destruct (nth_error (u_scopes s) k) as [[h [q|]]|]; rewrite ?h_aclose_scopes; reflexivity.
Qed.

Lemma b_step_sflags : forall s op, sflags (b_step s op) = scopes_after (u_has_aclose s) (sflags s) op.
Proof.
  intros s op. unfold sflags. rewrite b_step_scopes, map_app.
  destruct op as [p|h|h| |h|h j|p|k]; simpl; rewrite ?app_nil_r; try reflexivity.
  destruct p as [|q]; [destruct (u_has_aclose s)|]; simpl; rewrite ?app_nil_r; reflexivity.
Qed.

Lemma b_step_closed : forall s op, u_closed (b_step s op) = u_closed s + closes_U (sflags s) op.
Proof.
  intros s op. destruct op as [p|h|h| |h|h j|p|k]; unfold b_step, closes_U; rewrite ?Nat.add_0_r.
  - reflexivity.
  - apply (hx_closed _ _ (h_next_hext _ _ _)).
  - destruct (h_send (geth s h)) as [[|]|]; try reflexivity. apply (hx_closed _ _ (u_next_hext _)).
  - apply (hx_closed _ _ (u_next_hext _)).
  - apply h_aclose_closed.
  - rewrite h_aclose_closed. apply (hx_closed _ _ (take_hext _ _ _ _ _)).
  - destruct p as [|q]; [destruct (u_has_aclose s)|]; reflexivity.
  - unfold sflags. rewrite nth_map_nth_error.
    destruct (nth_error (u_scopes s) k) as [[h [q|]]|]; simpl.
    + rewrite h_aclose_closed. simpl. lia.
    + lia.
    + lia.
Qed.

Lemma count_general : forall ops s,
  u_closed (snd (b_run s ops)) = u_closed s + count_u_exits (u_has_aclose s) (sflags s) ops.
Proof.
  induction ops as [|op r IH]; intros s.
  - simpl. lia.
  - rewrite b_run_cons. cbn [snd count_u_exits]. rewrite IH, b_step_closed, b_step_sflags.
    rewrite (ev_acl _ _ (b_step_evol s op)). lia.
Qed.

Lemma no_scopes_count : forall ops acl scs, no_scopes ops = true -> count_u_exits acl scs ops = 0.
Proof.
  induction ops as [|op r IH]; intros acl scs N; [reflexivity|].
  simpl in N. apply andb_prop in N. destruct N as [N1 N2].
  destruct op; try discriminate; simpl; apply IH; assumption.
Qed.

Lemma neutral_count : forall ops scs, forallb negb scs = true -> count_u_exits false scs ops = 0.
Proof.
  induction ops as [|op r IH]; intros scs F; [reflexivity|].
  assert (Z : closes_U scs op = 0).
  { destruct op; try reflexivity. simpl.
    destruct (nth_in_or_default k scs false) as [I|E]; [|rewrite E; reflexivity].
    rewrite forallb_forall in F. apply F in I. destruct (nth k scs false); [discriminate|reflexivity]. }
  cbn [count_u_exits]. rewrite Z. simpl. apply IH.
  destruct op as [p|h|h| |h|h j|p|k]; simpl; auto. destruct p; auto.
  rewrite forallb_app, F. reflexivity.
Qed.

(* ------------------------------------------------------------------------------------------ *)
(* what is delivered                                                                           *)

Definition dl (o : bobs) : list val := match o with BItem v => [v] | BItems l => l | _ => [] end.

Lemma b_step_rest : forall s op, dl (b_obs s op) ++ u_rest (b_step s op) = u_rest s.
Proof.
  intros s op. destruct op as [p|h|h| |h|h j|p|k]; unfold b_step, b_obs.
  - reflexivity.
  - pose proof (h_next_rest (depth s) s h) as R. destruct (snd (h_next (depth s) s h)); exact R.
  - destruct (h_send (geth s h)) as [[|]|]; try reflexivity.
    pose proof (u_next_rest s) as R. destruct (snd (u_next s)); exact R.
  - pose proof (u_next_rest s) as R. destruct (snd (u_next s)); exact R.
  - simpl. apply h_aclose_rest.
  - rewrite h_aclose_rest. destruct (take_rest (depth s) j s h []) as [d [D1 D2]].
    simpl. rewrite D1. exact D2.
  - destruct p as [|q]; [destruct (u_has_aclose s)|]; reflexivity.
  - destruct (nth_error (u_scopes s) k) as [[h [q|]]|]; simpl; rewrite ?h_aclose_rest; reflexivity.
Qed.

Lemma delivered_cons : forall o os, delivered (o :: os) = dl o ++ delivered os.
Proof. reflexivity. Qed.

Lemma delivered_general : forall ops s,
  delivered (fst (b_run s ops)) ++ u_rest (snd (b_run s ops)) = u_rest s.
Proof.
  induction ops as [|op r IH]; intros s; [reflexivity|].
  rewrite b_run_cons. cbn [fst snd]. rewrite delivered_cons, <- app_assoc, IH. apply b_step_rest.
Qed.

(* ------------------------------------------------------------------------------------------ *)
(* dead handles                                                                                *)

Definition dead (s : ustate) (h : nat) : Prop :=
  h < length (u_handles s) /\ h_wrapper (geth s h) = WClosed /\ h_send (geth s h) <> Some TU.

Lemma dead_evol : forall s s' h, dead s h -> evol s s' -> dead s' h.
Proof.
  intros s s' h [L [W S]] E. split; [|split].
  - pose proof (ev_len _ _ E). lia.
  - pose proof (ev_w _ _ E h L) as X. rewrite W in X. apply wle_closed_inv. assumption.
  - intro X. apply S. apply (ev_send _ _ E h L X).
Qed.

Lemma dead_stops : forall s h, dead s h ->
  b_do s (BNext h) = (s, BStop) /\ b_do s (BSend h) = (s, BStop).
Proof.
  intros s h [L [W S]]. split; unfold b_do.
  - rewrite h_next_closed by assumption. reflexivity.
  - destruct (h_send (geth s h)) as [[|]|]; try reflexivity. congruence.
Qed.

Lemma close_wrapper_dead : forall s h, h < length (u_handles s) -> dead (close_wrapper s h) h.
Proof.
  intros s h L. split; [|split].
  - rewrite close_wrapper_length. assumption.
  - apply close_wrapper_closed.
  - rewrite geth_close_wrapper_eq by assumption. simpl. destruct (h_send (geth s h)); discriminate.
Qed.

Lemma closing_makes_dead : forall s h op,
  h < length (u_handles s) -> h_scoped (geth s h) = false ->
  (op = BClose h \/ exists j, op = BTool h j) -> dead (b_step s op) h.
Proof.
  intros s h op L S [->|[j ->]]; unfold b_step.
  - rewrite h_aclose_unscoped by assumption. apply close_wrapper_dead. assumption.
  - pose proof (take_hext (depth s) j s h []) as X.
    rewrite h_aclose_unscoped by (rewrite (hx_sc _ _ X); assumption).
    apply close_wrapper_dead. rewrite (hx_len _ _ X). assumption.
Qed.

(* a handle that was handed out by borrow exists and is not scoped *)
Lemma borrowed_handle_exists : forall pre s os s0 p h,
  b_run s pre = (os, s0) -> In (BBorrow p, BNew h) (combine pre os) ->
  h < length (u_handles s0) /\ h_scoped (geth s0 h) = false.
Proof.
  induction pre as [|op r IH]; intros s os s0 p h R I.
  - simpl in I. contradiction.
  - rewrite b_run_cons in R. inversion R; subst; clear R.
    simpl in I. destruct I as [I|I].
    + inversion I as [[I1 I2]]; subst op. unfold b_obs in I2. inversion I2; subst h; clear I I2.
      pose proof (b_run_evol r (b_step s (BBorrow p))) as E.
      set (x := mkH p WFresh false (new_send s p)) in *.
      assert (L : length (u_handles s) < length (u_handles (b_step s (BBorrow p)))).
      { unfold b_step, add_handle. simpl. rewrite app_length. simpl. lia. }
      split.
      * pose proof (ev_len _ _ E). lia.
      * rewrite (ev_sc _ _ E _ L). unfold b_step. fold x. rewrite geth_add_handle_new. reflexivity.
    + eapply IH; [|exact I]. apply surjective_pairing.
Qed.

(* ------------------------------------------------------------------------------------------ *)
(* handles below a closed handle                                                               *)

Definition closedh (s : ustate) (h : nat) : Prop :=
  h < length (u_handles s) /\ h_wrapper (geth s h) = WClosed.

(* the parent chain of h contains a closed handle *)
Inductive chain_closed (s : ustate) : nat -> Prop :=
| cc_here : forall h, closedh s h -> chain_closed s h
| cc_up : forall h p, h < length (u_handles s) -> h_parent (geth s h) = PH p ->
                      chain_closed s p -> chain_closed s h.

Lemma chain_closed_evol : forall s s' h, chain_closed s h -> evol s s' -> chain_closed s' h.
Proof.
  intros s s' h C E. induction C as [h [L W]|h p L P C IH].
  - apply cc_here. split; [pose proof (ev_len _ _ E); lia|].
    pose proof (ev_w _ _ E h L) as X. rewrite W in X. apply wle_closed_inv. assumption.
  - apply cc_up with p; [pose proof (ev_len _ _ E); lia| |assumption].
    rewrite (ev_par _ _ E h L). assumption.
Qed.

Lemma chain_closed_none : forall s h, chain_closed s h -> forall f, snd (h_next f s h) = None.
Proof.
  intros s h C. induction C as [h [L W]|h p L P C IH]; intros f.
  - rewrite h_next_closed by assumption. reflexivity.
  - destruct f as [|f]; [reflexivity|]. rewrite h_next_S.
    destruct (wclosedb (h_wrapper (geth s h))); [reflexivity|].
    simpl. unfold par_next. rewrite P. apply IH.
Qed.

Lemma chain_closed_stops : forall s h, chain_closed s h ->
  snd (b_do s (BNext h)) = BStop /\ u_rest (fst (b_do s (BNext h))) = u_rest s
  /\ u_closed (fst (b_do s (BNext h))) = u_closed s.
Proof.
  intros s h C. rewrite b_do_eq. cbn [fst snd].
  pose proof (chain_closed_none s h C (depth s)) as N.
  pose proof (b_step_rest s (BNext h)) as R. pose proof (b_step_closed s (BNext h)) as K.
  unfold b_obs in *. rewrite N in *.
  change (u_rest (b_step s (BNext h)) = u_rest s) in R.
  change (u_closed (b_step s (BNext h)) = u_closed s + 0) in K.
  split; [reflexivity|]. split; [exact R|lia].
Qed.

(* ------------------------------------------------------------------------------------------ *)
(* the entered scopes of a reachable state                                                     *)

Definition scopes_wf (s : ustate) : Prop :=
  forall k h par, nth_error (u_scopes s) k = Some (h, par) ->
    h < length (u_handles s) /\ h_scoped (geth s h) = true /\
    h_parent (geth s h) = match par with None => PU | Some q => PH q end /\
    (par = None -> u_has_aclose s = true).

Lemma scopes_wf_step : forall s op, scopes_wf s -> scopes_wf (b_step s op).
Proof.
  intros s op W k h par E. pose proof (b_step_evol s op) as V.
  rewrite b_step_scopes in E.
  destruct (Nat.lt_ge_cases k (length (u_scopes s))) as [L|L].
  - rewrite nth_error_app1 in E by assumption. destruct (W k h par E) as [W1 [W2 [W3 W4]]].
    split; [pose proof (ev_len _ _ V); lia|]. split; [rewrite (ev_sc _ _ V h W1); assumption|].
    split; [rewrite (ev_par _ _ V h W1); assumption|]. rewrite (ev_acl _ _ V). assumption.
  - rewrite nth_error_app2 in E by assumption.
    destruct op as [p|h'|h'| |h'|h' j|p|k']; simpl in E;
      try (destruct (k - length (u_scopes s)); discriminate).
    destruct p as [|q].
    + destruct (u_has_aclose s) eqn:A; [|destruct (k - length (u_scopes s)); discriminate].
      destruct (k - length (u_scopes s)) as [|[|n]]; try discriminate.
      inversion E; subst; clear E. unfold b_step. rewrite A.
      set (x := mkH PU WFresh true (new_send s PU)).
      assert (G : geth (add_scope (add_handle s x) (length (u_handles s), None)) (length (u_handles s)) = x)
        by apply geth_add_handle_new.
      rewrite G. simpl. rewrite app_length. simpl. repeat split; auto. lia.
    + destruct (k - length (u_scopes s)) as [|[|n]]; try discriminate.
      inversion E; subst; clear E. unfold b_step.
      set (x := mkH (PH q) WFresh true (new_send s (PH q))).
      assert (G : geth (add_scope (add_handle s x) (length (u_handles s), Some q)) (length (u_handles s)) = x)
        by apply geth_add_handle_new.
      rewrite G. simpl. rewrite app_length. simpl. repeat split; auto; try lia. discriminate.
Qed.

Lemma scopes_wf_run : forall ops s, scopes_wf s -> scopes_wf (snd (b_run s ops)).
Proof.
  induction ops as [|op r IH]; intros s W; [exact W|].
  rewrite b_run_cons. simpl. apply IH, scopes_wf_step, W.
Qed.

Lemma scopes_wf_init : forall items acl asend, scopes_wf (u_init items acl asend).
Proof. intros items acl asend [|k] h par E; discriminate. Qed.

(* ========================================================================================== *)
(* C07 / C08: the delivered statements                                                        *)
(* ========================================================================================== *)

Lemma run_fst_snd : forall s ops os sf, b_run s ops = (os, sf) -> os = fst (b_run s ops) /\ sf = snd (b_run s ops).
Proof. intros s ops os sf E. rewrite E. split; reflexivity. Qed.

(* ---- 1. u_closed = the number of exits of scopes opened directly on U ---------------------- *)

Theorem step_changes_closed : forall s op,
  u_closed (fst (b_do s op)) = u_closed s + closes_U (sflags s) op.
Proof. intros. rewrite b_do_eq. apply b_step_closed. Qed.

(* no BBorrow / BNext / BSend / BNextU / BClose / BTool / BEnter ever changes u_closed *)
Theorem only_exit_changes_closed : forall s op,
  (forall k, op <> BExit k) -> u_closed (fst (b_do s op)) = u_closed s.
Proof.
  intros s op N. rewrite step_changes_closed. destruct op; simpl; try lia. exfalso. eapply N. reflexivity.
Qed.

Theorem u_closed_counts : forall items acl asend ops os s,
  b_run (u_init items acl asend) ops = (os, s) ->
  u_closed s = count_u_exits acl [] ops.
Proof.
  intros items acl asend ops os s R.
  pose proof (count_general ops (u_init items acl asend)) as C. rewrite R in C. exact C.
Qed.

Theorem borrow_never_closes : forall items acl asend ops os s,
  b_run (u_init items acl asend) ops = (os, s) ->
  no_scopes ops = true -> u_closed s = 0.
Proof.
  intros items acl asend ops os s R N. rewrite (u_closed_counts _ _ _ _ _ _ R).
  apply no_scopes_count. assumption.
Qed.

(* ---- 2. what is delivered is a prefix of the items, each item once, in order --------------- *)

(* holds for every history (also after U was closed) *)
Theorem delivered_always : forall items acl asend ops os s,
  b_run (u_init items acl asend) ops = (os, s) ->
  delivered os ++ u_rest s = items.
Proof.
  intros items acl asend ops os s R.
  pose proof (delivered_general ops (u_init items acl asend)) as D. rewrite R in D. exact D.
Qed.

Theorem delivered_is_prefix : forall items acl asend ops os s,
  b_run (u_init items acl asend) ops = (os, s) ->
  u_closed s = 0 -> delivered os ++ u_rest s = items.
Proof. intros. eapply delivered_always; eassumption. Qed.

Theorem delivered_prefix_general : forall items acl asend ops os s,
  b_run (u_init items acl asend) ops = (os, s) ->
  (exists r, items = delivered os ++ r) /\ (exists l, items = l ++ u_rest s).
Proof.
  intros items acl asend ops os s R. pose proof (delivered_always _ _ _ _ _ _ R) as D.
  split; [exists (u_rest s) | exists (delivered os)]; symmetry; exact D.
Qed.

(* the owner keeps getting the remaining items while U is not closed *)
Theorem owner_gets_next : forall s x r,
  u_closed s = 0 -> u_rest s = x :: r ->
  snd (b_do s BNextU) = BItem x /\ u_rest (fst (b_do s BNextU)) = r /\ u_closed (fst (b_do s BNextU)) = 0.
Proof.
  intros s x r C E. unfold b_do, u_next. rewrite C, E. simpl. auto.
Qed.

(* once U is closed nobody gets anything any more *)
Lemma take_uclosed : forall f j s h, 0 < u_closed s -> snd (take f j s h []) = [].
Proof.
  intros f [|j] s h L; [reflexivity|]. simpl.
  pose proof (h_next_uclosed f s h L) as N. destruct (h_next f s h) as [s1 o]. simpl in N. subst o. reflexivity.
Qed.

Lemma step_uclosed_nothing : forall s op, 0 < u_closed s -> dl (b_obs s op) = [].
Proof.
  intros s op L. destruct op as [p|h|h| |h|h j|p|k]; unfold b_obs; try reflexivity.
  - rewrite h_next_uclosed by assumption. reflexivity.
  - destruct (h_send (geth s h)) as [[|]|]; try reflexivity.
    rewrite u_next_closed_none by assumption. reflexivity.
  - rewrite u_next_closed_none by assumption. reflexivity.
  - simpl. apply take_uclosed. assumption.
  - destruct p; [destruct (u_has_aclose s)|]; reflexivity.
Qed.

Theorem closed_U_delivers_nothing : forall ops s,
  0 < u_closed s -> delivered (fst (b_run s ops)) = [] /\ u_rest (snd (b_run s ops)) = u_rest s.
Proof.
  induction ops as [|op r IH]; intros s L; [split; reflexivity|].
  rewrite b_run_cons. cbn [fst snd]. rewrite delivered_cons, step_uclosed_nothing by assumption.
  assert (L' : 0 < u_closed (b_step s op)) by (pose proof (ev_closed _ _ (b_step_evol s op)); lia).
  destruct (IH (b_step s op) L') as [I1 I2]. rewrite I1, I2. split; [reflexivity|].
  pose proof (b_step_rest s op) as R. rewrite step_uclosed_nothing in R by assumption. exact R.
Qed.

(* ---- 3. a closed handle is dead ------------------------------------------------------------ *)

(* state form: h exists and is not scoped when it is closed (directly or by a tool); after any
   further operations BNext h and BSend h observe BStop and change NOTHING in the state *)
Theorem closed_handle_is_dead : forall items acl asend pre closing mid h os0 s0 os1 s1,
  b_run (u_init items acl asend) pre = (os0, s0) ->
  h < length (u_handles s0) -> h_scoped (geth s0 h) = false ->
  (closing = BClose h \/ exists j, closing = BTool h j) ->
  b_run (u_init items acl asend) (pre ++ closing :: mid) = (os1, s1) ->
  b_do s1 (BNext h) = (s1, BStop) /\ b_do s1 (BSend h) = (s1, BStop).
Proof.
  intros items acl asend pre closing mid h os0 s0 os1 s1 R0 L S C R1.
  apply dead_stops.
  rewrite b_run_app, R0 in R1. cbn [fst snd] in R1. rewrite b_run_cons in R1.
  inversion R1; subst; clear R1.
  eapply dead_evol; [|apply b_run_evol]. apply closing_makes_dead; assumption.
Qed.

(* observation form: the whole history followed by BNext h / BSend h *)
Theorem closed_handle_is_dead_run : forall items acl asend pre closing mid h os0 s0 os1 s1 op,
  b_run (u_init items acl asend) pre = (os0, s0) ->
  h < length (u_handles s0) -> h_scoped (geth s0 h) = false ->
  (closing = BClose h \/ exists j, closing = BTool h j) ->
  b_run (u_init items acl asend) (pre ++ closing :: mid) = (os1, s1) ->
  (op = BNext h \/ op = BSend h) ->
  b_run (u_init items acl asend) ((pre ++ closing :: mid) ++ [op]) = (os1 ++ [BStop], s1).
Proof.
  intros items acl asend pre closing mid h os0 s0 os1 s1 op R0 L S C R1 O.
  destruct (closed_handle_is_dead _ _ _ _ _ _ _ _ _ _ _ R0 L S C R1) as [D1 D2].
  rewrite b_run_app, R1. cbn [fst snd b_run].
  destruct O as [->| ->]; [rewrite D1 | rewrite D2]; reflexivity.
Qed.

(* the handle exists and is not scoped whenever it was handed out by a borrow *)
Theorem closed_handle_is_dead_borrowed : forall items acl asend pre closing mid p h os0 s0 os1 s1,
  b_run (u_init items acl asend) pre = (os0, s0) ->
  In (BBorrow p, BNew h) (combine pre os0) ->
  (closing = BClose h \/ exists j, closing = BTool h j) ->
  b_run (u_init items acl asend) (pre ++ closing :: mid) = (os1, s1) ->
  b_do s1 (BNext h) = (s1, BStop) /\ b_do s1 (BSend h) = (s1, BStop).
Proof.
  intros items acl asend pre closing mid p h os0 s0 os1 s1 R0 I C R1.
  destruct (borrowed_handle_exists _ _ _ _ _ _ R0 I) as [L S].
  exact (closed_handle_is_dead _ _ _ _ _ _ _ _ _ _ _ R0 L S C R1).
Qed.

(* a handle below a closed handle yields nothing, now and after any further operations *)
Theorem reborrowed_from_closed_is_dead : forall s h post,
  chain_closed s h ->
  let s2 := snd (b_run s post) in
  snd (b_do s2 (BNext h)) = BStop /\ u_rest (fst (b_do s2 (BNext h))) = u_rest s2
  /\ u_closed (fst (b_do s2 (BNext h))) = u_closed s2.
Proof.
  intros s h post C s2. apply chain_closed_stops.
  eapply chain_closed_evol; [exact C | apply b_run_evol].
Qed.

(* ... but NOT on BSend: asend of a re-borrowed handle goes straight to U (see the Example
   reborrowed_send_bypasses_closed_parent below) *)

(* ---- 4. a scope keeps U alive -------------------------------------------------------------- *)

Theorem scope_keeps_alive : forall items acl asend ops os s,
  b_run (u_init items acl asend) ops = (os, s) ->
  count_u_exits acl [] ops = 0 -> u_closed s = 0.
Proof. intros items acl asend ops os s R Z. rewrite (u_closed_counts _ _ _ _ _ _ R). exact Z. Qed.

(* step form: any operation that is not the exit of a scope opened directly on U *)
Theorem scope_keeps_alive_step : forall s op,
  closes_U (sflags s) op = 0 -> u_closed (fst (b_do s op)) = u_closed s.
Proof. intros s op Z. rewrite step_changes_closed, Z. lia. Qed.

Theorem close_on_scoped_is_noop : forall s h,
  h_scoped (geth s h) = true -> h_aclose s h = s /\ b_do s (BClose h) = (s, BDone).
Proof. intros s h E. unfold b_do. rewrite h_aclose_scoped by assumption. auto. Qed.

(* ---- 5. exits ------------------------------------------------------------------------------ *)

Theorem scopes_wf_reachable : forall items acl asend ops os s,
  b_run (u_init items acl asend) ops = (os, s) -> scopes_wf s.
Proof.
  intros items acl asend ops os s R. destruct (run_fst_snd _ _ _ _ R) as [_ ->].
  apply scopes_wf_run, scopes_wf_init.
Qed.

Theorem outermost_exit_closes_once : forall items acl asend pre os0 s0 k h,
  b_run (u_init items acl asend) pre = (os0, s0) ->
  nth_error (u_scopes s0) k = Some (h, None) ->
  let s1 := fst (b_do s0 (BExit k)) in
  acl = true /\
  u_closed s1 = S (u_closed s0) /\ u_rest s1 = u_rest s0 /\
  dead s1 h /\ chain_closed s1 h /\
  (forall post g, chain_closed s1 g ->
     let s2 := snd (b_run s1 post) in
     snd (b_do s2 (BNext g)) = BStop /\ u_rest (fst (b_do s2 (BNext g))) = u_rest s2) /\
  (forall post, delivered (fst (b_run s1 post)) = [] /\ u_rest (snd (b_run s1 post)) = u_rest s0).
Proof.
  intros items acl asend pre os0 s0 k h R E s1.
  destruct (scopes_wf_reachable _ _ _ _ _ _ R k h None E) as [L [_ [_ A]]].
  pose proof (ev_acl _ _ (b_run_evol pre (u_init items acl asend))) as A'. rewrite R in A'. simpl in A'.
  assert (S1 : s1 = close_U (close_wrapper s0 h)).
  { unfold s1. rewrite b_do_eq. unfold b_step. rewrite E. reflexivity. }
  assert (D : dead s1 h).
  { eapply dead_evol; [apply close_wrapper_dead; exact L|]. rewrite S1. apply close_U_evol. }
  split; [rewrite <- A'; apply A; reflexivity|].
  split; [rewrite S1; reflexivity|]. split; [rewrite S1; reflexivity|].
  split; [exact D|]. split; [apply cc_here; destruct D as [D1 [D2 _]]; split; assumption|].
  split.
  - intros post g C s2. destruct (reborrowed_from_closed_is_dead s1 g post C) as [X1 [X2 _]]. split; assumption.
  - intros post. assert (P : 0 < u_closed s1) by (rewrite S1; simpl; lia).
    destruct (closed_U_delivers_nothing post s1 P) as [X1 X2]. split; [exact X1|].
    rewrite X2, S1. reflexivity.
Qed.

Lemma close_wrapper_scoped : forall s h g, h_scoped (geth (close_wrapper s h) g) = h_scoped (geth s g).
Proof.
  intros s h g. destruct (Nat.eq_dec h g) as [->|N]; [|rewrite geth_close_wrapper_neq by assumption; reflexivity].
  destruct (Nat.lt_ge_cases g (length (u_handles s))) as [L|L].
  - rewrite geth_close_wrapper_eq by assumption. reflexivity.
  - rewrite close_wrapper_eq, seth_ge by assumption. reflexivity.
Qed.

(* scope k was opened on a scoped handle q: only the scope's own handle ends *)
Theorem inner_exit_closes_only_itself : forall s k h q,
  nth_error (u_scopes s) k = Some (h, Some q) -> h_scoped (geth s q) = true ->
  let s1 := fst (b_do s (BExit k)) in
  s1 = close_wrapper s h /\ u_closed s1 = u_closed s /\ u_rest s1 = u_rest s /\
  (forall g, g <> h -> geth s1 g = geth s g) /\ (q <> h -> geth s1 q = geth s q) /\
  h_wrapper (geth s1 h) = WClosed.
Proof.
  intros s k h q E S s1.
  assert (S1 : s1 = close_wrapper s h).
  { unfold s1. rewrite b_do_eq. unfold b_step. rewrite E.
    apply h_aclose_scoped. rewrite close_wrapper_scoped. assumption. }
  rewrite S1. split; [reflexivity|]. split; [reflexivity|]. split; [reflexivity|].
  split; [intros g N; apply geth_close_wrapper_neq; auto|].
  split; [intros N; apply geth_close_wrapper_neq; auto|]. apply close_wrapper_closed.
Qed.

(* scope k was opened on a non-scoped (borrowed) handle q: the scope closes the iterator it was
   given, i.e. q's wrapper, but never U *)
Theorem inner_exit_on_borrowed_closes_it_not_U : forall s k h q,
  nth_error (u_scopes s) k = Some (h, Some q) -> h_scoped (geth s q) = false ->
  let s1 := fst (b_do s (BExit k)) in
  s1 = close_wrapper (close_wrapper s h) q /\ u_closed s1 = u_closed s /\ u_rest s1 = u_rest s /\
  h_wrapper (geth s1 q) = WClosed /\ (q < length (u_handles s) -> dead s1 q) /\
  (forall g, g <> h -> g <> q -> geth s1 g = geth s g).
Proof.
  intros s k h q E S s1.
  assert (S1 : s1 = close_wrapper (close_wrapper s h) q).
  { unfold s1. rewrite b_do_eq. unfold b_step. rewrite E.
    apply h_aclose_unscoped. rewrite close_wrapper_scoped. assumption. }
  rewrite S1. split; [reflexivity|]. split; [reflexivity|]. split; [reflexivity|].
  split; [apply close_wrapper_closed|]. split.
  - intros L. apply close_wrapper_dead. rewrite close_wrapper_length. assumption.
  - intros g N1 N2. rewrite !geth_close_wrapper_neq by auto. reflexivity.
Qed.

(* in a reachable state the entry (h, Some q) really means: h is a scoped handle whose parent is q *)
Theorem inner_scope_parent : forall items acl asend ops os s k h q,
  b_run (u_init items acl asend) ops = (os, s) ->
  nth_error (u_scopes s) k = Some (h, Some q) ->
  h < length (u_handles s) /\ h_scoped (geth s h) = true /\ h_parent (geth s h) = PH q.
Proof.
  intros items acl asend ops os s k h q R E.
  destruct (scopes_wf_reachable _ _ _ _ _ _ R k h (Some q) E) as [A [B [C _]]]. auto.
Qed.

(* ---- 6. the neutral context ---------------------------------------------------------------- *)

Theorem neutral_context_enter : forall s,
  u_has_aclose s = false -> b_do s (BEnter PU) = (s, BNoScope).
Proof. intros s A. unfold b_do. rewrite A. reflexivity. Qed.

Theorem neutral_context : forall items asend ops os s,
  b_run (u_init items false asend) ops = (os, s) -> u_closed s = 0.
Proof.
  intros items asend ops os s R. rewrite (u_closed_counts _ _ _ _ _ _ R).
  apply neutral_count. reflexivity.
Qed.

(* ========================================================================================== *)
(* Examples                                                                                    *)
(* ========================================================================================== *)

Definition ex_items : list val := [VInt 1; VInt 2; VInt 3; VInt 4; VInt 5]%Z.
Definition show (r : list bobs * ustate) : list bobs * nat * list val * list wstate :=
  (fst r, u_closed (snd r), u_rest (snd r), map h_wrapper (u_handles (snd r))).

(* re-borrow, then close the parent: the child stops, U is untouched and the owner goes on *)
Example reborrow_then_close_parent :
  show (b_run (u_init ex_items true true)
          [BBorrow PU; BBorrow (PH 0); BNext 1; BClose 0; BNext 1; BNext 0; BSend 0; BNextU]) =
  ([BNew 0; BNew 1; BItem (VInt 1); BDone; BStop; BStop; BStop; BItem (VInt 2)]%Z,
   0, [VInt 3; VInt 4; VInt 5]%Z, [WClosed; WClosed]).
Proof. vm_compute. reflexivity. Qed.

(* asend of a re-borrowed handle is forwarded straight to U, so it still advances U although the
   parent handle is closed (BNext on the same handle observes BStop) *)
Example reborrowed_send_bypasses_closed_parent :
  show (b_run (u_init ex_items true true)
          [BBorrow PU; BBorrow (PH 0); BClose 0; BNext 1; BSend 1]) =
  ([BNew 0; BNew 1; BDone; BStop; BItem (VInt 1)]%Z, 0, [VInt 2; VInt 3; VInt 4; VInt 5]%Z, [WClosed; WClosed]).
Proof. vm_compute. reflexivity. Qed.

(* nested scopes of depth 3, exits in LIFO order: only the outermost exit closes U, once *)
Example nested_scopes_lifo :
  show (b_run (u_init ex_items true true)
          [BEnter PU; BEnter (PH 0); BEnter (PH 1); BNext 2; BClose 2; BNext 2; BExit 2; BNext 2;
           BNext 1; BExit 1; BNext 1; BNext 0; BExit 0; BNext 0; BNextU]) =
  ([BNew 0; BNew 1; BNew 2; BItem (VInt 1); BDone; BItem (VInt 2); BDone; BStop; BItem (VInt 3);
    BDone; BStop; BItem (VInt 4); BDone; BStop; BStop]%Z, 1, [VInt 5]%Z, [WClosed; WClosed; WClosed]).
Proof. vm_compute. reflexivity. Qed.

Example nested_scopes_lifo_count :
  count_u_exits true []
    [BEnter PU; BEnter (PH 0); BEnter (PH 1); BNext 2; BClose 2; BNext 2; BExit 2; BNext 2;
     BNext 1; BExit 1; BNext 1; BNext 0; BExit 0; BNext 0; BNextU] = 1.
Proof. vm_compute. reflexivity. Qed.

(* a scope over a borrowed handle: the exit closes the borrowed handle, not U *)
Example scope_over_borrowed :
  show (b_run (u_init ex_items true false)
          [BBorrow PU; BNext 0; BEnter (PH 0); BNext 1; BExit 0; BNext 1; BNext 0; BNextU]) =
  ([BNew 0; BItem (VInt 1); BNew 1; BItem (VInt 2); BDone; BStop; BStop; BItem (VInt 3)]%Z,
   0, [VInt 4; VInt 5]%Z, [WClosed; WClosed]).
Proof. vm_compute. reflexivity. Qed.

(* an iterable without aclose: neutral context, nothing is ever closed *)
Example neutral_context_example :
  show (b_run (u_init ex_items false true) [BEnter PU; BNextU; BExit 0; BNextU]) =
  ([BNoScope; BItem (VInt 1); BDone; BItem (VInt 2)]%Z, 0, [VInt 3; VInt 4; VInt 5]%Z, []).
Proof. vm_compute. reflexivity. Qed.

(* tools take items through borrowed handles and close them; U stays open *)
Example tools_on_borrowed :
  show (b_run (u_init ex_items true true)
          [BBorrow PU; BTool 0 2; BNext 0; BSend 0; BBorrow PU; BTool 1 9; BNextU]) =
  ([BNew 0; BItems [VInt 1; VInt 2]; BStop; BStop; BNew 1; BItems [VInt 3; VInt 4; VInt 5]; BStop]%Z,
   0, [], [WClosed; WClosed]).
Proof. vm_compute. reflexivity. Qed.

Example no_scopes_example :
  no_scopes [BBorrow PU; BBorrow (PH 0); BNext 1; BClose 0; BTool 1 3; BSend 0; BNextU] = true.
Proof. reflexivity. Qed.

Print Assumptions step_changes_closed.
Print Assumptions only_exit_changes_closed.
Print Assumptions u_closed_counts.
Print Assumptions borrow_never_closes.
Print Assumptions delivered_always.
Print Assumptions delivered_is_prefix.
Print Assumptions delivered_prefix_general.
Print Assumptions owner_gets_next.
Print Assumptions closed_U_delivers_nothing.
Print Assumptions closed_handle_is_dead.
Print Assumptions closed_handle_is_dead_run.
Print Assumptions closed_handle_is_dead_borrowed.
Print Assumptions reborrowed_from_closed_is_dead.
Print Assumptions scope_keeps_alive.
Print Assumptions scope_keeps_alive_step.
Print Assumptions close_on_scoped_is_noop.
Print Assumptions scopes_wf_reachable.
Print Assumptions outermost_exit_closes_once.
Print Assumptions inner_exit_closes_only_itself.
Print Assumptions inner_exit_on_borrowed_closes_it_not_U.
Print Assumptions inner_scope_parent.
Print Assumptions neutral_context_enter.
Print Assumptions neutral_context.
Print Assumptions reborrow_then_close_parent.
Print Assumptions reborrowed_send_bypasses_closed_parent.
Print Assumptions nested_scopes_lifo.
Print Assumptions scope_over_borrowed.
Print Assumptions neutral_context_example.
Print Assumptions tools_on_borrowed.

(* ---- extras -------------------------------------------------------------------------------- *)

(* over any history: existing handles keep parent and scoped flag, wrapper states only move
   WFresh -> WOpen -> WClosed, asend never comes back to U *)
Theorem handles_evolve_monotonically : forall s ops g,
  g < length (u_handles s) ->
  let s' := snd (b_run s ops) in
  g < length (u_handles s') /\
  h_parent (geth s' g) = h_parent (geth s g) /\ h_scoped (geth s' g) = h_scoped (geth s g) /\
  wle (h_wrapper (geth s g)) (h_wrapper (geth s' g)) /\
  (h_send (geth s' g) = Some TU -> h_send (geth s g) = Some TU).
Proof.
  intros s ops g L s'. pose proof (b_run_evol ops s) as E. fold s' in E.
  split; [pose proof (ev_len _ _ E); lia|].
  split; [apply (ev_par _ _ E g L)|]. split; [apply (ev_sc _ _ E g L)|].
  split; [apply (ev_w _ _ E g L)|apply (ev_send _ _ E g L)].
Qed.

(* "a handle below a closed handle is dead" does NOT extend to BSend: asend bypasses the parent *)
Theorem reborrowed_send_is_dead_refuted :
  exists s h, (exists ops, s = snd (b_run (u_init ex_items true true) ops)) /\
              chain_closed s h /\ snd (b_do s (BSend h)) <> BStop /\ u_closed s = 0.
Proof.
  exists (snd (b_run (u_init ex_items true true) [BBorrow PU; BBorrow (PH 0); BClose 0])), 1.
  split; [eexists; reflexivity|]. split.
  - apply cc_up with 0; [vm_compute; lia | reflexivity |].
    apply cc_here. split; [vm_compute; lia | reflexivity].
  - split; [vm_compute; discriminate | reflexivity].
Qed.

Print Assumptions handles_evolve_monotonically.
Print Assumptions reborrowed_send_is_dead_refuted.
