(* zip over n sources (any n, including 0), non-strict and strict. *)
From Coq Require Import List ZArith NArith Bool Arith Lia.
Import ListNotations.
Require Import V.Kernel.Values V.Kernel.Monad V.Model.Builtins V.Proofs.Steps V.Std.Multi
               V.Proofs.MultiSteps V.Proofs.Rows.

Lemma yield_to_rows : yield_ok_with yield_to (fun row => [EYield (VTup row)]).
Proof. intros row ss lg u. exists (S u). reflexivity. Qed.

(* General n = length xss, both modes.  The ending is [Ok tt] or [Exn XValueError], never [Fuel]. *)
Theorem zip_trace : forall strict xss,
  let '(o, w) := run_gen (a_zip strict (seq 0 (length xss))) (init_world xss None) in
  o = spec_zip_end strict xss /\ no_closes (rev (log w)) = spec_zip_trace strict xss /\ all_released w = true.
Proof.
  intros strict [|xs rest].
  - cbn. destruct strict; repeat split; reflexivity.
  - unfold run_gen.
    pose proof (a_zip_rows strict yield_to (fun row => [EYield (VTup row)]) yield_to_rows
                  (fun _ => eq_refl) xs rest) as H.
    destruct (a_zip strict (seq 0 (length (xs :: rest))) yield_to (init_world (xs :: rest) None)) as [o w].
    destruct H as (Ho & Htr & Hrel). rewrite rows_end_spec in Ho. repeat split; assumption.
Qed.

Corollary zip_nonstrict_trace : forall xss,
  let '(o, w) := run_gen (a_zip false (seq 0 (length xss))) (init_world xss None) in
  o = Ok tt /\ no_closes (rev (log w)) = spec_zip_trace false xss /\ all_released w = true.
Proof. intros xss. exact (zip_trace false xss). Qed.

Corollary zip_strict_trace : forall xss,
  let '(o, w) := run_gen (a_zip true (seq 0 (length xss))) (init_world xss None) in
  o = (if same_lengths xss then Ok tt else Exn XValueError)
  /\ no_closes (rev (log w)) = spec_zip_trace true xss /\ all_released w = true.
Proof.
  intros xss. pose proof (zip_trace true xss) as H.
  destruct (run_gen (a_zip true (seq 0 (length xss))) (init_world xss None)) as [o w].
  destruct H as (Ho & H). split; [|exact H]. rewrite Ho. unfold spec_zip_end.
  destruct (same_lengths xss); reflexivity.
Qed.

(* the yielded tuples are the first [min_len xss] rows of the transposition, strict or not *)
Corollary zip_yields : forall strict xss, yields (spec_zip_trace strict xss) = spec_zip xss.
Proof.
  intros strict [|xs rest]; [reflexivity|].
  unfold spec_zip_trace, spec_zip. rewrite rows_yields.
  apply (flat_map_single (fun j => VTup (column VNone j (xs :: rest)))).
Qed.

(* row j of [spec_zip] is the tuple of the j-th items; there are as many rows as the shortest list has items *)
Lemma spec_zip_length xss : length (spec_zip xss) = min_len xss.
Proof. unfold spec_zip. rewrite map_length, seq_length. reflexivity. Qed.
Lemma spec_zip_nth xss j : j < min_len xss ->
  nth j (spec_zip xss) VNone = VTup (map (fun l => nth j l VNone) xss).
Proof.
  intros Hj. unfold spec_zip.
  rewrite (nth_indep _ VNone (VTup (column VNone 0 xss))) by (rewrite map_length, seq_length; exact Hj).
  rewrite (map_nth (fun j => VTup (column VNone j xss)) (seq 0 (min_len xss)) 0 j).
  rewrite seq_nth by exact Hj. reflexivity.
Qed.

Example zip_strict_example :
  spec_zip_trace true [[VInt 1]; [VInt 2]; [VInt 4; VInt 5]]
  = [EPull 0; EItem 0 (VInt 1); EPull 1; EItem 1 (VInt 2); EPull 2; EItem 2 (VInt 4);
     EYield (VTup [VInt 1; VInt 2; VInt 4]);
     EPull 0; EEnd 0; EPull 1; EEnd 1; EPull 2; EItem 2 (VInt 5)]
  /\ spec_zip_end true [[VInt 1]; [VInt 2]; [VInt 4; VInt 5]] = Exn XValueError
  /\ spec_zip [[VInt 1]; [VInt 2]; [VInt 4; VInt 5]] = [VTup [VInt 1; VInt 2; VInt 4]].
Proof. repeat split; reflexivity. Qed.
Example zip_strict_shorter_example :
  spec_zip_trace true [[VInt 1; VInt 2]; [VInt 2]; [VInt 4; VInt 5]]
  = [EPull 0; EItem 0 (VInt 1); EPull 1; EItem 1 (VInt 2); EPull 2; EItem 2 (VInt 4);
     EYield (VTup [VInt 1; VInt 2; VInt 4]);
     EPull 0; EItem 0 (VInt 2); EPull 1; EEnd 1].
Proof. reflexivity. Qed.

Print Assumptions zip_trace.
Print Assumptions zip_nonstrict_trace.
Print Assumptions zip_strict_trace.
Print Assumptions zip_yields.
