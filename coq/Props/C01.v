(* Property C01: theorems only (each closed by exact) followed by Print Assumptions. *)
From Coq Require Import List ZArith Bool.
Require Import V.Kernel.Values V.Kernel.Monad V.Model.Builtins V.Std.Filter V.Proofs.Filter.

Theorem C01_filter_trace : forall p xs,
  let '(o, w) := run_gen (a_filter p) (init_world [xs] None) in
  o = Ok tt /\ no_closes (rev (log w)) = spec_filter_trace p xs /\ all_released w = true.
Proof. exact filter_trace. Qed.
Print Assumptions C01_filter_trace.
