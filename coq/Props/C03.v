(* Property C03 -- theorems only. *)
From Coq Require Import List Bool Arith.
Import ListNotations.
Require Import V.Model.Awaitify V.Proofs.Awaitify.

Theorem C03_awaitify_faithful : forall f rs, calls f (awaitify f) rs = map (fun r => (1, r)) rs.
Proof. exact awaitify_faithful. Qed.
Print Assumptions C03_awaitify_faithful.
Theorem C03_awaitify_flavour_independent : forall f f' rs, calls f (awaitify f) rs = calls f' (awaitify f') rs.
Proof. exact awaitify_flavour_independent. Qed.
Print Assumptions C03_awaitify_flavour_independent.
Theorem C03_first_failure_keeps_decision_open : forall e, fst (fst (call FDef (awaitify FDef) (RRaises e))) = Wrapped Undecided.
Proof. exact first_failure_keeps_decision_open. Qed.
Print Assumptions C03_first_failure_keeps_decision_open.
Theorem C03_decision_is_cached : forall f v, is_coroutine_function f = false ->
  fst (fst (call f (awaitify f) (RValue v))) = Wrapped (if returns_awaitable f then CallsAsync else CallsSync).
Proof. exact decision_is_cached. Qed.
Print Assumptions C03_decision_is_cached.
Theorem C03_coroutine_functions_unwrapped : forall f, is_coroutine_function f = true -> awaitify f = Direct.
Proof. exact coroutine_functions_unwrapped. Qed.
Print Assumptions C03_coroutine_functions_unwrapped.
Theorem C03_aiter_items_same : forall A k k' (items : list A), aiter_items k items = aiter_items k' items.
Proof. exact aiter_items_same. Qed.
Print Assumptions C03_aiter_items_same.
