(* Property C18: theorems only (each closed by exact) followed by Print Assumptions. *)
From Coq Require Import List ZArith Bool.
Require Import V.Kernel.Values V.Kernel.Monad V.Model.Builtins V.Std.Filter V.Proofs.Filter.
