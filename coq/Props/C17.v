(* Property C17 -- theorems only.  The first group is decided by computation over Gen/AwaitGraph.v, which
   harness/extract.py regenerates from /repo/asyncstdlib on every run. *)
From Coq Require Import List String Bool.
Import ListNotations.
Require Import V.Gen.AwaitGraph V.Proofs.Static.

Theorem C17_await_graph_closed : await_graph_closed_b = true.
Proof. exact await_graph_closed. Qed.
Print Assumptions C17_await_graph_closed.
Theorem C17_await_impls_transparent : await_impls_transparent_b = true.
Proof. exact await_impls_transparent. Qed.
Print Assumptions C17_await_impls_transparent.
Theorem C17_asyncio_only_detection : asyncio_only_detection_b = true.
Proof. exact asyncio_only_detection. Qed.
Print Assumptions C17_asyncio_only_detection.
Theorem C17_await_sites_nonempty : await_sites_nonempty_b = true.
Proof. exact await_sites_nonempty. Qed.
Print Assumptions C17_await_sites_nonempty.
Theorem C17_suspends_only_where_users_suspend : forall t tok,
  In tok (suspensions t) -> exists l, In l (user_leaves t) /\ In tok l.
Proof. exact suspends_only_where_users_suspend. Qed.
Print Assumptions C17_suspends_only_where_users_suspend.
Theorem C17_sync_arguments_never_suspend : forall t,
  (forall l, In l (user_leaves t) -> l = []) -> suspensions t = [].
Proof. exact sync_arguments_never_suspend. Qed.
Print Assumptions C17_sync_arguments_never_suspend.
