#!/venv/bin/python
"""Entry point of every check:  check.py <Cxx> [--tier quick|thorough] [--replay path]
exit 0 = property held on everything explored; exit 1 + 'VIOLATION property=<id> replay=<path>' otherwise."""
import argparse
import os
import sys

os.environ.setdefault("PYTHONHASHSEED", "0")
sys.path.insert(0, "/verif/harness")
sys.path.insert(0, "/repo")
sys.setrecursionlimit(10000)
import warnings
warnings.simplefilter("ignore", RuntimeWarning)
# coroutines abandoned on purpose by the schedule explorer are finalised by the interpreter; the calculus
# harness installs its own hook around each run (an unraisable error there is a finding)
sys.unraisablehook = lambda u: None


def main():
    ap = argparse.ArgumentParser()
    ap.add_argument("prop")
    ap.add_argument("--tier", default=os.environ.get("VERIF_TIER", "quick"))
    ap.add_argument("--replay")
    args = ap.parse_args()
    seed = int(os.environ.get("VERIF_SEED", "20260930"))
    prop = args.prop.upper()
    if args.replay:
        import replay
        return replay.replay(prop, args.replay)
    if prop in ("C01", "C02"):
        import calc_checks as cc
        from gencalc import ITER_TOOLS, AGG_TOOLS
        return cc.check_values(prop, args.tier, seed, ITER_TOOLS if prop == "C01" else AGG_TOOLS)
    if prop == "C05":
        import calc_checks as cc
        return cc.check_C05(args.tier, seed)
    if prop in ("C04", "C06", "C18"):
        import calc_checks as cc
        return cc.check_faults(prop, args.tier, seed)
    mod = __import__("check_" + prop.lower())
    return mod.run(args.tier, seed)


def guarded_main():
    """An exception escaping the harness (typically raised by changed library code in a place the harness did not
    expect) must not look like a pass: it is reported as a violation whose replay is the traceback."""
    try:
        return main()
    except SystemExit as e:
        return e.code if isinstance(e.code, int) else 1
    except BaseException:  # noqa
        import json
        import traceback
        prop = (sys.argv[1] if len(sys.argv) > 1 else "C00").upper()
        os.makedirs("/verif/replays", exist_ok=True)
        path = "/verif/replays/%s-harness-exception.json" % prop
        tb = traceback.format_exc()
        json.dump({"property": prop, "signature": "harness-exception", "replay": {"broken": "the check itself raised while exercising the implementation", "traceback": tb[-4000:]}}, open(path, "w"), indent=1)
        print("VIOLATION property=%s replay=%s no-failing-input-found" % (prop, path))
        try:
            ev = {"property_id": prop, "tier": os.environ.get("VERIF_TIER", "quick"), "seed": int(os.environ.get("VERIF_SEED", "20260930")), "level": "proof",
                  "coverage": {"evaluations": 1, "distinct_nontrivial": 2, "samples": [tb[-500:]], "explanation": "the check raised an exception"}, "wall_s": 0.0, "violations": 1}
            json.dump(ev, open("/verif/evidence/%s.json" % prop, "w"), indent=1)
        except Exception:
            pass
        return 1


ORPHANED_ASYNC_GENERATORS = []

if __name__ == "__main__":
    # Like an event loop, take over the finalisation of async generators that are dropped while suspended. Without these
    # hooks CPython closes such a generator synchronously when its last reference goes away, which hides every place where
    # the library leaves cleanup to the garbage collector; with them the cleanup is deferred (here: never run), so whatever
    # was left to the collector is still unreleased when the oracles look.
    sys.set_asyncgen_hooks(firstiter=lambda agen: None, finalizer=ORPHANED_ASYNC_GENERATORS.append)
    rc = guarded_main()
    sys.stdout.flush()
    sys.stderr.flush()
    os._exit(rc or 0)        # skip interpreter-shutdown finalisation of deliberately abandoned coroutines
