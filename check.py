#!/venv/bin/python
"""Entry point of every check:  check.py <Cxx> [--tier quick|thorough] [--replay path]
exit 0 = property held on everything explored; exit 1 + 'VIOLATION property=<id> replay=<path>' otherwise."""
import argparse
import os
import sys

os.environ.setdefault("PYTHONHASHSEED", "0")
sys.path.insert(0, "/verif/harness")
sys.path.insert(0, "/repo")
sys.setrecursionlimit(10000)
import warnings
warnings.simplefilter("ignore", RuntimeWarning)
# coroutines abandoned on purpose by the schedule explorer are finalised by the interpreter; the calculus
# harness installs its own hook around each run (an unraisable error there is a finding)
sys.unraisablehook = lambda u: None


def main():
    ap = argparse.ArgumentParser()
    ap.add_argument("prop")
    ap.add_argument("--tier", default=os.environ.get("VERIF_TIER", "quick"))
    ap.add_argument("--replay")
    args = ap.parse_args()
    seed = int(os.environ.get("VERIF_SEED", "20260930"))
    prop = args.prop.upper()
    if args.replay:
        import replay
        return replay.replay(prop, args.replay)
    if prop in ("C01", "C02"):
        import calc_checks as cc
        from gencalc import ITER_TOOLS, AGG_TOOLS
        return cc.check_values(prop, args.tier, seed, ITER_TOOLS if prop == "C01" else AGG_TOOLS)
    if prop == "C05":
        import calc_checks as cc
        return cc.check_C05(args.tier, seed)
    if prop in ("C04", "C06", "C18"):
        import calc_checks as cc
        return cc.check_faults(prop, args.tier, seed)
    mod = __import__("check_" + prop.lower())
    return mod.run(args.tier, seed)


if __name__ == "__main__":
    rc = main()
    sys.stdout.flush()
    sys.stderr.flush()
    os._exit(rc or 0)        # skip interpreter-shutdown finalisation of deliberately abandoned coroutines
